(** Model.main() on the joint construction state: the zone is the concatenation of the items'
    blocks, each economy's block being the embedding of its stand-alone zone; every phase
    (_GenerateEquations, registered cash flows, exogenous variables) acts block by block. *)
From Coq Require Import List String Ascii Bool ZArith Arith Lia.
From SFC.Base Require Import Res Str Sorting.
From SFC.Gen Require Import Fx Zone.
From SFC.GenMarket Require Import Market.
From SFC.GenTax Require Import Tax TaxProofs DividendProofs.
From SFC.GenMain2 Require Import Program Classes Main Ledger MainProofs Names Program2 Main2.
From SFC.GenEmbed Require Import EmbDefs JointDefs Laws Good ZoneEmb Block ClassEmb TokenMap PrefixLaws ConsEmb ConsRun ExtReg
  Items AssembleC AssembleK GenEmb FlowEmb Rounds MarketEmb TaxEmb AssetEmb RowsDefs RowsEmb.
Import ListNotations.
Local Open Scope string_scope.

(* ------------------------------------------------------------------ *)
(** * Model.GetSectors() over blocks *)

Lemma zone_order_app_l cs1 cs2 SL : zone_order (cs1 ++ cs2) SL = (zone_order cs1 SL ++ zone_order cs2 SL)%list.
Proof. unfold zone_order. apply flat_map_app. Qed.

Lemma zone_order_drop_r cs S1 S2 : (forall s, List.In s S2 -> ~ List.In (country s) cs) ->
  zone_order cs (S1 ++ S2) = zone_order cs S1.
Proof.
  intros H. unfold zone_order. induction cs as [|cc r IH]; [reflexivity|]. cbn [flat_map].
  rewrite filter_app, (filter_none (in_country cc) S2).
  - rewrite app_nil_r. f_equal. apply IH. intros s Hs Hin. apply (H s Hs). now right.
  - intros s Hs. unfold in_country. apply String.eqb_neq. intros E. apply (H s Hs). left. now rewrite E.
Qed.

Lemma zone_order_drop_l cs S1 S2 : (forall s, List.In s S1 -> ~ List.In (country s) cs) ->
  zone_order cs (S1 ++ S2) = zone_order cs S2.
Proof.
  intros H. unfold zone_order. induction cs as [|cc r IH]; [reflexivity|]. cbn [flat_map].
  rewrite filter_app, (filter_none (in_country cc) S1).
  - cbn [app]. f_equal. apply IH. intros s Hs Hin. apply (H s Hs). now right.
  - intros s Hs. unfold in_country. apply String.eqb_neq. intros E. apply (H s Hs). left. now rewrite E.
Qed.

Lemma zone_order_map (h : sector -> sector) cs SL : (forall s, country (h s) = country s) ->
  zone_order cs (map h SL) = map h (zone_order cs SL).
Proof.
  intros Hh. unfold zone_order. induction cs as [|cc r IH]; [reflexivity|]. cbn [flat_map]. rewrite map_app, IH. f_equal.
  clear IH. induction SL as [|s l IHl]; [reflexivity|]. cbn [map filter].
  assert (Ec : in_country cc (h s) = in_country cc s) by (unfold in_country; now rewrite Hh).
  rewrite Ec. destruct (in_country cc s); cbn [map]; now rewrite IHl.
Qed.

Lemma flat_map_ext_in' {A B} (f h : A -> list B) l : (forall x, List.In x l -> f x = h x) -> flat_map f l = flat_map h l.
Proof. induction l as [|a r IH]; intros H; [reflexivity|]. cbn. rewrite (H a (or_introl eq_refl)), IH; [reflexivity|]. intros x Hx. apply H. now right. Qed.

Section M.
Variable g : bool.
Notation iM := (iM g).

(** the block of an item in the joint zone, given the economy's stand-alone zone *)
Definition it_eb (it : item) (Z : zone) : zone :=
  match it with IComp p _ so _ => map (emb (iM p so)) Z | IExt _ => Z end.

(** the zone an item starts Model.main() with *)
Definition it_zone0 (curs : list string) (it : item) : zone :=
  match it with IComp _ _ _ C => zone0 C | IExt n => map (set_fullcode g) (Xof n curs) end.

Lemma multi_of_full p C : comp_full p C -> is_multi C = Nat.ltb 1 (ncountries p).
Proof. intros H. unfold is_multi, ncountries. now rewrite (cf_cc _ _ H). Qed.

(** full codes: the joint model's prefix rule against the stand-alone one *)
Lemma set_fullcode_emb p so C s : comp_full p C -> 1 <= ncountries p -> (g = false -> ncountries p = 1) ->
  List.In s (c_secs C) ->
  set_fullcode g (emb0 (iM p so) s) = emb (iM p so) (set_fullcode (is_multi C) s).
Proof.
  intros HF Hnc Hg Hs. rewrite (multi_of_full p C HF).
  unfold set_fullcode, emb, emb0, emb_with. cbn [sid code country fullcode hasF taxable is_market excl vars]. f_equal.
  unfold Items.iM, emap_at, gains_prefix.
  destruct (Nat.eqb_spec (ncountries p) 1) as [E1|N1]; cbn [andb].
  - destruct g; cbn [e_FC pmap idmap].
    + rewrite E1. cbn [Nat.ltb Nat.leb full_code]. unfold FCp. f_equal.
      (* the only country of p *)
      pose proof (cf_sc _ _ HF s Hs) as Hin. unfold first_code. unfold ncountries in E1.
      destruct (country_codes p) as [|c [|c2 r]]; try discriminate. destruct Hin as [<-|[]]. reflexivity.
    + rewrite E1. reflexivity.
  - cbn [e_FC idmap]. assert (Hm : Nat.ltb 1 (ncountries p) = true) by (apply Nat.ltb_lt; lia).
    rewrite Hm. destruct g; [reflexivity|]. exfalso. apply N1. now apply Hg.
Qed.

Lemma zone0_emb p co so C : comp_full p C -> 1 <= ncountries p -> (g = false -> ncountries p = 1) ->
  zone_order (map fst (it_countries (IComp p co so C))) (map (set_fullcode g) (it_secs g [] (IComp p co so C)))
  = it_eb (IComp p co so C) (zone0 C).
Proof.
  intros HF Hnc Hg. cbn [it_countries it_secs it_eb]. rewrite map_map. cbn [fst]. rewrite map_id.
  unfold zone0. rewrite <- (zone_order_map (emb (iM p so))) by reflexivity. f_equal.
  rewrite !map_map. apply map_ext_in. intros s Hs. now apply set_fullcode_emb.
Qed.

(* ------------------------------------------------------------------ *)
(** * Items with their current stand-alone zones *)

Definition it_soff (it : item) : nat := match it with IComp _ _ so _ => so | IExt n => n end.

Definition item_ok (it : item) : Prop :=
  match it with
  | IExt _ => True
  | IComp p _ _ C => comp_full p C /\ comp_static p = true /\ (g = false -> ncountries p = 1)
  end.

Definition blk_ok (curs : list string) (x : item * zone) : Prop :=
  match fst x with
  | IExt _ => snd x = it_zone0 curs (fst x)             (* nothing ever touches the ExternalSector's sectors *)
  | IComp _ _ _ _ => frames (it_zone0 curs (fst x)) (snd x)
  end.

Lemma blk_ok_frames curs x : blk_ok curs x -> frames (it_zone0 curs (fst x)) (snd x).
Proof. unfold blk_ok. destruct (fst x); [intros ->; apply frames_refl|trivial]. Qed.
Definition jzone (bl : list (item * zone)) : zone := List.concat (map (fun x => it_eb (fst x) (snd x)) bl).

Lemma jzone_app a b : jzone (a ++ b) = (jzone a ++ jzone b)%list.
Proof. unfold jzone. now rewrite map_app, concat_app. Qed.

Lemma frames_In_r (Z Z' : zone) : frames Z Z' -> forall t', List.In t' Z' -> exists t, List.In t Z /\ frame t t'.
Proof. apply Forall2_frame_In_r. Qed.

(** static attributes of the sectors of a block *)
Lemma block_statics curs it Z : forallb cleancc curs = true -> item_ok it -> blk_ok curs (it, Z) ->
  forall x, List.In x (it_eb it Z) ->
    it_soff it <= sid x < it_soff it + it_ns it /\ List.In (country x) (it_codes it).
Proof.
  intros Hc Hok HF x Hx. apply blk_ok_frames in HF. cbn [fst snd] in HF. destruct it as [n|p co so C]; cbn [it_eb it_zone0 it_soff it_ns it_codes] in *.
  - destruct (frames_In_r _ _ HF x Hx) as (x0 & H0 & Hfr). rewrite (frame_sid _ _ Hfr), (frame_country _ _ Hfr).
    apply in_map_iff in H0 as (y & <- & Hy). cbn [sid country set_fullcode].
    destruct (Xof_ok n curs Hc) as [_ HX]. destruct (frames_In_r _ _ HX y Hy) as (y0 & Hy0 & Hfy).
    rewrite (frame_sid _ _ Hfy), (frame_country _ _ Hfy). cbn in Hy0.
    destruct Hy0 as [<-|[<-|[<-|[]]]]; cbn; split; (lia || now left).
  - destruct Hok as (HCF & _ & _). apply in_map_iff in Hx as (z & <- & Hz). cbn [sid country emb emb_with]. rewrite iM_off.
    destruct (frames_In_r _ _ HF z Hz) as (z0 & H0 & Hfr). rewrite (frame_sid _ _ Hfr), (frame_country _ _ Hfr).
    apply zone0_In in H0 as (s & Hs & -> & Hcc). cbn [sid country set_fullcode].
    pose proof (c_sid_lt p C (cf_wf _ _ HCF) s Hs) as Hlt. rewrite (cf_len _ _ HCF) in Hlt.
    split; [lia|]. now apply (cf_sc _ _ HCF).
Qed.

Lemma item_range' it : forall its c0 s0, items_wf c0 s0 its -> List.In it its ->
  s0 <= it_soff it /\ it_soff it + it_ns it <= s0 + tot_ns its.
Proof.
  induction its as [|[n|q co so C] r IH]; intros c0 s0 Hwf Hin; [destruct Hin| |]; cbn [items_wf] in Hwf.
  - destruct Hwf as [-> Hwf]. rewrite tot_ns_cons. cbn [it_ns]. destruct Hin as [<-|Hin]; [cbn; lia|].
    destruct (IH _ _ Hwf Hin). lia.
  - destruct Hwf as (-> & -> & _ & Hwf). rewrite tot_ns_cons. cbn [it_ns]. destruct Hin as [<-|Hin]; [cbn; lia|].
    destruct (IH _ _ Hwf Hin). lia.
Qed.

Lemma in_jzone bl x : List.In x (jzone bl) -> exists it Z, List.In (it, Z) bl /\ List.In x (it_eb it Z).
Proof.
  unfold jzone. intros H. apply in_concat in H as (B & HB & Hx). apply in_map_iff in HB as ([it Z] & <- & Hin).
  now exists it, Z.
Qed.

Lemma in_codes_of it its c : List.In it its -> List.In c (it_codes it) -> List.In c (codes_of its).
Proof. intros H1 H2. unfold codes_of. apply in_concat. exists (it_codes it). split; [now apply in_map|exact H2]. Qed.

Lemma in_curs_of it its : List.In it its -> List.In (it_cur it) (curs_of its).
Proof. intros H. unfold curs_of. now apply in_map. Qed.

Fixpoint currency_of_app (a b : list (string * string)) cc {struct a} :
  currency_of (a ++ b) cc = if mem cc (map fst a) then currency_of a cc else currency_of b cc.
Proof.
  destruct a as [|[c cur] r]; [reflexivity|]. cbn [app currency_of map fst mem].
  rewrite (String.eqb_sym cc c). destruct (String.eqb c cc); [reflexivity|apply currency_of_app].
Qed.

Lemma currency_own cur cs cc : List.In cc cs -> currency_of (map (fun c : string => (c, cur)) cs) cc = cur.
Proof.
  induction cs as [|c r IH]; intros H; [destruct H|]. cbn [map currency_of].
  destruct (String.eqb_spec c cc) as [E|N]; [reflexivity|]. apply IH. destruct H as [H|H]; [contradiction|exact H].
Qed.

(** Country.Currency of a country of item [it] *)
Lemma currency_items : forall its it cc, (forall i, List.In i its -> item_ok i) -> NoDup (codes_of its) ->
  List.In it its -> List.In cc (it_codes it) -> currency_of (countries_of its) cc = it_cur it.
Proof.
  induction its as [|i0 r IH]; intros it cc Hok Hnd Hin Hcc; [destruct Hin|].
  unfold countries_of. cbn [map List.concat]. fold (countries_of r). rewrite currency_of_app.
  unfold codes_of in Hnd. cbn [map List.concat] in Hnd. fold (codes_of r) in Hnd.
  apply NoDup_app_inv in Hnd as (_ & Hnd2 & Hd).
  assert (Hfst : map fst (it_countries i0) = it_codes i0).
  { destruct i0 as [n|q co so C]; [reflexivity|]. cbn [it_countries it_codes]. rewrite map_map. cbn [fst]. rewrite map_id.
    destruct (Hok _ (or_introl eq_refl)) as (HCF & _). apply (cf_cc _ _ HCF). }
  rewrite Hfst. destruct Hin as [<-|Hin].
  - assert (Hm : mem cc (it_codes i0) = true) by now apply mem_In. rewrite Hm.
    destruct i0 as [n|q co so C]; cbn [it_countries it_cur it_codes] in *.
    + destruct Hcc as [<-|[]]. reflexivity.
    + destruct (Hok _ (or_introl eq_refl)) as (HCF & _). rewrite (cf_cc _ _ HCF). now apply currency_own.
  - assert (Hm : mem cc (it_codes i0) = false).
    { destruct (mem cc (it_codes i0)) eqn:E; [|reflexivity]. exfalso. apply mem_In in E. apply (Hd cc E). eapply in_codes_of; eauto. }
    rewrite Hm. apply IH; try assumption. intros i Hi. apply Hok. now right.
Qed.

(* ------------------------------------------------------------------ *)
(** * The FX sector knows every registered currency *)

Lemma has_var_addv s n t s' m : addv s n t = Ok s' -> has_var s m = true -> has_var s' m = true.
Proof.
  unfold addv. destruct (has_substring "__" n); [discriminate|]. intros H. inversion H. unfold has_var, add_variable. cbn [vars with_vars].
  destruct (String.eqb_spec n m) as [->|Hn]; [now rewrite lookup_set_same|]. now rewrite lookup_set_other.
Qed.

Lemma has_var_addv_new s n t s' : addv s n t = Ok s' -> has_var s' n = true.
Proof.
  unfold addv. destruct (has_substring "__" n); [discriminate|]. intros H. inversion H. unfold has_var, add_variable. cbn [vars with_vars].
  now rewrite lookup_set_same.
Qed.

Lemma upd_find i f : forall Z Z' s', upd i f Z = Ok Z' -> find_sec i Z' = Some s' -> (forall s x, f s = Ok x -> sid x = sid s) ->
  exists s, find_sec i Z = Some s /\ f s = Ok s'.
Proof.
  unfold find_sec. induction Z as [|x r IH]; intros Z' s' HU HF Hs; [discriminate|]. cbn [upd] in HU. cbn [find].
  destruct (Nat.eqb (sid x) i) eqn:E.
  - destruct (f x) as [x'|] eqn:Ef; [|discriminate]. inversion HU. subst Z'. cbn [find] in HF.
    rewrite (Hs _ _ Ef), E in HF. inversion HF. subst. now exists x.
  - destruct (upd i f r) as [r'|] eqn:Er; [|discriminate]. inversion HU. subst Z'. cbn [find] in HF. rewrite E in HF.
    now apply (IH r' s' eq_refl HF Hs).
Qed.

Lemma upd_find_other i j f : i <> j -> forall Z Z', upd i f Z = Ok Z' -> (forall s x, f s = Ok x -> sid x = sid s) ->
  find_sec j Z' = find_sec j Z.
Proof.
  intros Hij. unfold find_sec. induction Z as [|x r IH]; intros Z' HU Hs; [discriminate|]. cbn [upd] in HU.
  destruct (Nat.eqb_spec (sid x) i) as [E|N].
  - destruct (f x) as [x'|] eqn:Ef; [|discriminate]. inversion HU. cbn [find]. rewrite (Hs _ _ Ef), E.
    destruct (Nat.eqb_spec i j); [contradiction|reflexivity].
  - destruct (upd i f r) as [r'|] eqn:Er; [|discriminate]. inversion HU. cbn [find].
    destruct (Nat.eqb (sid x) j); [reflexivity|]. now apply IH.
Qed.

Lemma frame_sid_ok f : (forall s x, f s = Ok x -> frame s x) -> forall s x, f s = Ok x -> sid x = sid s.
Proof. intros H s x E. now apply frame_sid, H. Qed.

Lemma reg_has_net n c X X' : register_currency (xids n) c X = Ok X' ->
  forall fx', find_sec (S n) X' = Some fx' ->
    has_var fx' ("NET_" ++ c) = true /\
    (forall m fx, find_sec (S n) X = Some fx -> has_var fx m = true -> has_var fx' m = true).
Proof.
  unfold register_currency, xids. cbn [e_xr e_fx]. intros H fx' Hf.
  destruct (on_sector n _ X) as [X1|] eqn:E1; [|discriminate]. cbn [bind] in H.
  unfold on_sector in E1, H. destruct (find_sec n X) as [xr0|]; [|discriminate]. destruct (find_sec (S n) X1) as [fx1|] eqn:F1; [|discriminate].
  assert (Hs1 : forall s x, addv s c "1.0" = Ok x -> sid x = sid s) by (apply frame_sid_ok; intros s1 x1; apply addv_frame').
  assert (Hs2 : forall s x, addvs s [("NET_" ++ c, ""); ("F_" ++ c, "LAG_F_" ++ c ++ " + NET_" ++ c); ("LAG_F_" ++ c, "F_" ++ c ++ "(k-1)")] = Ok x -> sid x = sid s)
    by (apply frame_sid_ok; intros s1 x1; apply addvs_frame).
  destruct (upd_find _ _ _ _ _ H Hf Hs2) as (fx1' & F1' & Ef). rewrite F1 in F1'. inversion F1'. subst fx1'.
  assert (F0 : find_sec (S n) X1 = find_sec (S n) X) by (eapply upd_find_other; [|exact E1|exact Hs1]; lia).
  cbn [addvs] in Ef.
  destruct (addv fx1 ("NET_" ++ c) "") as [a1|] eqn:A1; [|discriminate]. cbn [bind] in Ef.
  destruct (addv a1 ("F_" ++ c) _) as [a2|] eqn:A2; [|discriminate]. cbn [bind] in Ef.
  destruct (addv a2 ("LAG_F_" ++ c) _) as [a3|] eqn:A3; [|discriminate]. cbn [bind] in Ef. inversion Ef. subst a3.
  split.
  - eapply has_var_addv; [exact A3|]. eapply has_var_addv; [exact A2|]. eapply has_var_addv_new; exact A1.
  - intros m fx Hfx Hm. rewrite <- F0, F1 in Hfx. inversion Hfx. subst fx.
    eapply has_var_addv; [exact A3|]. eapply has_var_addv; [exact A2|]. eapply has_var_addv; [exact A1|exact Hm].
Qed.

Lemma Xof_has_net n : forall curs, forallb cleancc curs = true -> forall c, List.In c curs ->
  forall fx, find_sec (S n) (Xof n curs) = Some fx -> has_var fx ("NET_" ++ c) = true.
Proof.
  induction curs as [|c0 r IH] using rev_ind; intros Hc c Hin fx Hf; [destruct Hin|].
  rewrite forallb_app in Hc. apply andb_true_iff in Hc as [Hc1 Hc2]. cbn in Hc2. apply andb_true_iff in Hc2 as [Hc2 _].
  pose proof (Xof_snoc n r c0 Hc1 Hc2) as HR. destruct (reg_has_net n c0 _ _ HR fx Hf) as [H1 H2].
  apply in_app_or in Hin as [Hin|[<-|[]]]; [|exact H1].
  destruct (find_sec_sids (S n) (Xof n r)) as (fx0 & F0); [rewrite (Xof_xblock n r Hc1); right; now left|].
  eapply H2; [exact F0|]. now apply (IH Hc1 c Hin).
Qed.

(* ------------------------------------------------------------------ *)
(** * Every economy's block is a frame for the steps of the others *)

Section Ctx.
Variables (its : list item) (J : ginfo2).
Let curs := curs_of its.
Hypothesis Hwf : items_wf 0 0 its.
Hypothesis Hcs : forallb cleancc curs = true.
Hypothesis Hndc : NoDup (codes_of its).
Hypothesis Hndu : NoDup curs.
Hypothesis Hoks : forall i, List.In i its -> item_ok i.
Hypothesis Hext1 : AssembleC.n_ext its <= 1.
Hypothesis HJc : j_countries J = countries_of its.
Hypothesis HJcl : j_classes J = classes_of its.
Hypothesis HJe : j_ext J = ext_of its.
Hypothesis HJs : forall p co so C, List.In (IComp p co so C) its -> forall m, m < nsectors p ->
  sup_of (m + so) (j_sup J) = shift_supinfo (iM p so) (sup_of m (c_sup C)).
Hypothesis HG0 : forall p co so C, List.In (IComp p co so C) its -> Forall (cG g p) (zone0 C).

Lemma NoDup_map_split {A B} (f : A -> list B) (a : list A) x (b : list A) :
  NoDup (List.concat (map f (a ++ x :: b))) ->
  forall c, List.In c (f x) -> ~ List.In c (List.concat (map f a)) /\ ~ List.In c (List.concat (map f b)).
Proof.
  rewrite map_app, concat_app. cbn [map List.concat]. intros H c Hc.
  pose proof (NoDup_mid _ _ _ H c Hc) as Hn. split; intros Hin; apply Hn; apply in_or_app; [now left|now right].
Qed.

Lemma NoDup_inj_split {A B} (f : A -> B) (a : list A) x (b : list A) :
  NoDup (map f (a ++ x :: b)) -> ~ List.In (f x) (map f a) /\ ~ List.In (f x) (map f b).
Proof.
  rewrite map_app. cbn [map]. intros H. apply NoDup_remove_2 in H. split; intros Hin; apply H; apply in_or_app; [now left|now right].
Qed.

Lemma ext_in_its n : ext_of its = Some (xids n) -> List.In (IExt n) its.
Proof.
  clear. induction its as [|[n'|q c s C'] r IH]; cbn [ext_of]; intros H; [discriminate| |].
  - inversion H. now left.
  - right. now apply IH.
Qed.

Lemma ext_is_xids e : ext_of its = Some e -> exists n, e = xids n.
Proof. clear. induction its as [|[n|q c0 s0 C0] r IH]; cbn; intros He; [discriminate|inversion He; now exists n|now apply IH]. Qed.

(** two items whose ranges of creation indices meet are the same item *)
Lemma item_disjoint : forall l c0 s0 i1 i2 k, items_wf c0 s0 l -> List.In i1 l -> List.In i2 l ->
  it_soff i1 <= k < it_soff i1 + it_ns i1 -> it_soff i2 <= k < it_soff i2 + it_ns i2 -> i1 = i2 \/ False.
Proof.
  clear. induction l as [|i0 r IH]; intros c0 s0 i1 i2 k Hw H1 H2 R1 R2; [destruct H1|].
  assert (Hhd : s0 <= it_soff i0 /\ it_soff i0 + it_ns i0 <= s0 + it_ns i0 /\
                exists c1, items_wf c1 (it_ns i0 + s0) r).
  { destruct i0 as [n|q co so C]; cbn [items_wf it_soff it_ns] in *.
    - destruct Hw as [-> Hw]. split; [lia|]. split; [lia|]. now exists (S c0).
    - destruct Hw as (-> & -> & _ & Hw). split; [lia|]. split; [lia|]. now exists (ncountries q + c0). }
  destruct Hhd as (Ha & Hb & c1 & Hr).
  destruct H1 as [<-|H1], H2 as [<-|H2].
  - now left.
  - destruct (item_range' i2 r _ _ Hr H2). lia.
  - destruct (item_range' i1 r _ _ Hr H1). lia.
  - eapply IH; eauto.
Qed.

Lemma fx_ok_jzone bl : map fst bl = its -> Forall (blk_ok curs) bl -> fx_ok J (jzone bl).
Proof.
  intros Hits Hblk e fx He Hf c Hc. rewrite HJe in He. destruct (ext_is_xids e He) as (n & ->).
  pose proof (ext_in_its n He) as Hin. cbn [xids e_fx] in Hf.
  rewrite HJc, (zones_items its 0 0 Hwf Hndu) in Hc.
  2:{ intros q c0 s0 C0 Hq. destruct (Hoks _ Hq) as (_ & Hst' & _). now destruct (comp_static_inv q Hst') as (_ & H & _). }
  apply find_sec_some in Hf as [Hfin Hsid]. apply in_jzone in Hfin as (it & Z & HinB & Hfx).
  assert (Hit : List.In it its) by (rewrite <- Hits; apply in_map_iff; now exists (it, Z)).
  rewrite Forall_forall in Hblk. pose proof (Hblk _ HinB) as HB.
  destruct (block_statics curs it Z Hcs (Hoks _ Hit) HB fx Hfx) as [Hr _]. rewrite Hsid in Hr.
  destruct (item_disjoint its 0 0 it (IExt n) (S n) Hwf Hit Hin Hr) as [->|[]]; [cbn; lia|].
  unfold blk_ok in HB. cbn [fst snd it_zone0] in HB. subst Z. cbn [it_eb] in Hfx.
  apply in_map_iff in Hfx as (fx0 & <- & Hfx0). unfold has_var. cbn [vars set_fullcode]. fold (has_var fx0 ("NET_" ++ c)).
  cbn [sid set_fullcode] in Hsid.
  pose proof (Xof_xblock n curs Hcs) as HX. unfold xblock in HX.
  destruct (Xof n curs) as [|a [|b [|d [|? ?]]]] eqn:EX; try discriminate. cbn in HX. inversion HX as [[S1 S2 S3]].
  assert (Eb : fx0 = b).
  { destruct Hfx0 as [<-|[<-|[<-|[]]]]; [lia|reflexivity|lia]. }
  subst fx0. apply (Xof_has_net n curs Hcs c Hc). rewrite EX. unfold find_sec. cbn [find].
  destruct (Nat.eqb_spec (sid a) (S n)) as [E|_]; [lia|]. destruct (Nat.eqb_spec (sid b) (S n)) as [_|N]; [reflexivity|lia].
Qed.

Section Split.
Variables (ba bb : list (item * zone)) (p : program) (co so : nat) (C : cstate) (Zi : zone).
Hypothesis Hits : map fst (ba ++ (IComp p co so C, Zi) :: bb) = its.
Hypothesis Hblk : Forall (blk_ok curs) (ba ++ (IComp p co so C, Zi) :: bb).

Let ia := map fst ba.
Let ib := map fst bb.

Lemma its_split : its = (ia ++ IComp p co so C :: ib)%list.
Proof. rewrite <- Hits, map_app. reflexivity. Qed.

Lemma in_its_a it : List.In it ia -> List.In it its.
Proof. intros H. rewrite its_split. apply in_or_app. now left. Qed.
Lemma in_its_b it : List.In it ib -> List.In it its.
Proof. intros H. rewrite its_split. apply in_or_app. right. now right. Qed.
Lemma in_its_self : List.In (IComp p co so C) its.
Proof. rewrite its_split. apply in_or_app. right. now left. Qed.

Lemma wf_split : items_wf 0 0 ia /\ co = tot_nc ia /\ so = tot_ns ia /\ comp_full p C /\
  items_wf (ncountries p + tot_nc ia) (nsectors p + tot_ns ia) ib.
Proof.
  pose proof Hwf as H. rewrite its_split in H. destruct (items_wf_mid _ _ _ H) as (W1 & W2 & W3).
  cbn [items_wf it_nc it_ns] in W2, W3. tauto.
Qed.

Lemma blk_a x : List.In x ba -> blk_ok curs x.
Proof. intros H. rewrite Forall_forall in Hblk. apply Hblk. apply in_or_app. now left. Qed.
Lemma blk_b x : List.In x bb -> blk_ok curs x.
Proof. intros H. rewrite Forall_forall in Hblk. apply Hblk. apply in_or_app. right. now right. Qed.
Lemma blk_self : frames (zone0 C) Zi.
Proof. rewrite Forall_forall in Hblk. apply (Hblk (IComp p co so C, Zi)). apply in_or_app. right. now left. Qed.

(** sectors of the other blocks *)
Lemma out_facts x : List.In x (jzone ba ++ jzone bb)%list ->
  (sid x < so \/ so + nsectors p <= sid x) /\ ~ List.In (country x) (country_codes p) /\
  currency_of (j_countries J) (country x) <> first_code p.
Proof.
  destruct wf_split as (Wa & _ & Eso & HCF & Wb).
  pose proof Hndc as Hc. rewrite its_split in Hc. unfold codes_of in Hc.
  pose proof Hndu as Hu. unfold curs in Hu. rewrite its_split in Hu. unfold curs_of in Hu.
  destruct (NoDup_inj_split it_cur ia (IComp p co so C) ib Hu) as [Hua Hub]. cbn [it_cur] in Hua, Hub.
  intros Hx. apply in_app_or in Hx as [Hx|Hx]; apply in_jzone in Hx as (it & Z & Hin & Hxin).
  - assert (Hia : List.In it ia) by (apply in_map_iff; now exists (it, Z)).
    destruct (block_statics curs it Z Hcs (Hoks _ (in_its_a _ Hia)) (blk_a _ Hin) x Hxin) as [Hr Hcc].
    destruct (item_range' it ia 0 0 Wa Hia) as [_ Hr2]. split; [left; lia|]. split.
    + intros Hp. destruct (NoDup_map_split it_codes ia (IComp p co so C) ib Hc _ Hp) as [H1 _]. apply H1.
      fold (codes_of ia). eapply in_codes_of; eauto.
    + rewrite HJc, (currency_items its it (country x) Hoks Hndc (in_its_a _ Hia) Hcc). intros E. apply Hua. rewrite <- E. now apply in_map.
  - assert (Hib : List.In it ib) by (apply in_map_iff; now exists (it, Z)).
    destruct (block_statics curs it Z Hcs (Hoks _ (in_its_b _ Hib)) (blk_b _ Hin) x Hxin) as [Hr Hcc].
    destruct (item_range' it ib _ _ Wb Hib) as [Hr2 _]. split; [right; lia|]. split.
    + intros Hp. destruct (NoDup_map_split it_codes ia (IComp p co so C) ib Hc _ Hp) as [_ H1]. apply H1.
      fold (codes_of ib). eapply in_codes_of; eauto.
    + rewrite HJc, (currency_items its it (country x) Hoks Hndc (in_its_b _ Hib) Hcc). intros E. apply Hub. rewrite <- E. now apply in_map.
Qed.

Lemma in_facts t : List.In t Zi -> sid t < nsectors p /\ List.In (country t) (country_codes p).
Proof.
  destruct wf_split as (_ & _ & _ & HCF & _). intros Ht.
  destruct (frames_In_r _ _ blk_self t Ht) as (t0 & H0 & Hfr). rewrite (frame_sid _ _ Hfr), (frame_country _ _ Hfr).
  apply zone0_In in H0 as (s & Hs & -> & Hcc). cbn [sid country set_fullcode].
  pose proof (c_sid_lt p C (cf_wf _ _ HCF) s Hs) as Hlt. rewrite (cf_len _ _ HCF) in Hlt. split; [exact Hlt|now apply (cf_sc _ _ HCF)].
Qed.

Theorem mk_bframe : bframe (iM p so) (cG g p) (nsectors p) J (first_code p) (jzone ba) (jzone bb) Zi.
Proof.
  destruct wf_split as (Wa & Eco & Eso & HCF & Wb).
  destruct (Hoks _ in_its_self) as (_ & Hst & _).
  pose proof (comp_laws g p so Hst) as Hok.
  constructor; rewrite ?iM_off.
  - intros s Hs. now destruct (out_facts s Hs).
  - intros t Ht. now destruct (in_facts t Ht).
  - intros s t Hs Ht E. destruct (out_facts s Hs) as (_ & H2 & _). destruct (in_facts t Ht) as [_ H3]. apply H2. now rewrite E.
  - intros t Ht. destruct (in_facts t Ht) as [_ H3]. rewrite HJc.
    apply (currency_items its (IComp p co so C) (country t) Hoks Hndc in_its_self H3).
  - intros s Hs. now destruct (out_facts s Hs).
  - pose proof (HG0 p co so C in_its_self) as HG. rewrite Forall_forall in HG |- *. intros t Ht.
    destruct (frames_In_r _ _ blk_self t Ht) as (t0 & H0 & Hfr). eapply (ok_G_frame _ _ _ Hok); [exact Hfr|now apply HG].
  - pose proof (fx_ok_jzone (ba ++ (IComp p co so C, Zi) :: bb) Hits Hblk) as Hfx.
    rewrite jzone_app in Hfx. unfold jzone at 2 in Hfx. cbn [map List.concat fst snd it_eb] in Hfx. fold (jzone bb) in Hfx. exact Hfx.
  - intros e He. rewrite HJe in He.
    destruct (ext_is_xids e He) as (n & ->). cbn [xids e_fx].
    pose proof (ext_in_its n He) as Hin. rewrite its_split in Hin. apply in_app_or in Hin as [Hin|[Hin|Hin]]; [|discriminate|].
    + destruct (item_range' (IExt n) ia 0 0 Wa Hin) as [_ Hr]. cbn [it_soff it_ns] in Hr. left. lia.
    + destruct (item_range' (IExt n) ib _ _ Wb Hin) as [Hr _]. cbn [it_soff] in Hr. right. lia.
Qed.

End Split.
End Ctx.

(* ------------------------------------------------------------------ *)
(** * Conditions evaluated on each stand-alone economy *)

Definition calls_i (C : cstate) : list (nat * cls) := map (fun s => (sid s, class_of (c_classes C) (sid s))) (zone0 C).

Definition sup_refs (x : supinfo) : list nat :=
  (map fst (snd x) ++ match fst x with Some r => [r] | None => [] end)%list.

Record comp_run_ok (p : program) (C : cstate) : Prop := mkRunOk {
  ro_G : Forall (cG g p) (zone0 C);
  ro_calls : calls_ok (nsectors p) (mkI (c_classes C) (c_sup C)) (calls_i C) (mkG (zone0 C) (c_flows C));
  ro_sup_ref : forall i j, i < nsectors p -> List.In j (sup_refs (sup_of i (c_sup C))) -> j < nsectors p;
  ro_flows : forall f, List.In f (c_flows C ++ flat_map gen_flows (calls_i C))%list -> flow_refs_ok (nsectors p) f;
  ro_exo : forall x, List.In x (c_exo C) -> fst (fst x) < nsectors p /\ exo_ok (snd x) = true;
  ro_ic : forall x, List.In x (c_ic C) -> fst (fst x) < nsectors p
}.

Lemma comp_cross p so : cross_sup_ok (iM p so) (cG g p).
Proof.
  unfold Items.iM, emap_at, cG. destruct (gains_prefix g p).
  - apply cross_sup_ok_one_country.
    intros s t Hs Ht. destruct (good_p_spec _ _ _ Hs) as (_ & H1 & _). destruct (good_p_spec _ _ _ Ht) as (_ & H2 & _). now rewrite H1, H2.
  - apply cross_sup_ok_idmap.
Qed.

Lemma ism_zone0 p C : comp_full p C -> ism_ok (sec_is_market p) (zone0 C).
Proof.
  intros HCF s Hs. apply zone0_In in Hs as (s0 & Hs0 & -> & _). cbn [sid is_market set_fullcode]. now apply (cw_ism _ _ (cf_wf _ _ HCF)).
Qed.

Lemma gen_frames I : forall calls g0 g1, foldM (gen_step I) calls g0 = Ok g1 -> frames (g_zone g0) (g_zone g1).
Proof.
  induction calls as [|ik r IH]; intros g0 g1 H; [inversion H; apply frames_refl|]. cbn [foldM] in H.
  destruct (gen_step I g0 ik) as [g'|] eqn:E; [|discriminate]. eapply frames_trans; [|eapply IH; exact H].
  eapply zstep_frame. eapply gen_step_zstep. exact E.
Qed.

Lemma gen_flows_all I : forall calls g0 g1, foldM (gen_step I) calls g0 = Ok g1 ->
  g_flows g1 = (g_flows g0 ++ flat_map gen_flows calls)%list.
Proof.
  induction calls as [|ik r IH]; intros g0 g1 H; [inversion H; cbn; now rewrite app_nil_r|]. cbn [foldM flat_map] in *.
  destruct (gen_step I g0 ik) as [g'|] eqn:E; [|discriminate]. rewrite (IH _ _ H), (gen_step_flows _ _ _ _ E). now rewrite app_assoc.
Qed.

(* ------------------------------------------------------------------ *)
(** * _GenerateEquations over all items *)

Section Gen.
Variables (its : list item) (J : ginfo2).
Let curs := curs_of its.
Hypothesis Hwf : items_wf 0 0 its.
Hypothesis Hcs : forallb cleancc curs = true.
Hypothesis Hndc : NoDup (codes_of its).
Hypothesis Hndu : NoDup curs.
Hypothesis Hoks : forall i, List.In i its -> item_ok i.
Hypothesis Hext1 : AssembleC.n_ext its <= 1.
Hypothesis HJc : j_countries J = countries_of its.
Hypothesis HJcl : j_classes J = classes_of its.
Hypothesis HJe : j_ext J = ext_of its.
Hypothesis HJs : forall p co so C, List.In (IComp p co so C) its -> forall m, m < nsectors p ->
  sup_of (m + so) (j_sup J) = shift_supinfo (iM p so) (sup_of m (c_sup C)).
Hypothesis Hrun : forall p co so C, List.In (IComp p co so C) its -> comp_run_ok p C.

Definition gen_of (it : item) : result gstate :=
  match it with
  | IComp p _ _ C => foldM (gen_step (mkI (c_classes C) (c_sup C))) (calls_i C) (mkG (zone0 C) (c_flows C))
  | IExt _ => Ok (mkG (it_zone0 curs it) [])
  end.

Definition gen_zone (it : item) : zone :=
  match gen_of it with Ok gf => g_zone gf | Err _ => it_zone0 curs it end.

Definition it_calls (it : item) : list (nat * cls2) :=
  match it with
  | IComp p _ so C => map (shift_call (iM p so)) (calls_i C)
  | IExt n => [(n, CXR); (S n, CFX); (S (S n), CGOLD)]
  end.

Definition it_genflows (it : item) : list flow :=
  match it with
  | IComp p _ so C => map (shift_flow (iM p so) (sec_is_market p)) (flat_map gen_flows (calls_i C))
  | IExt _ => []
  end.

Lemma HG0' : forall p co so C, List.In (IComp p co so C) its -> Forall (cG g p) (zone0 C).
Proof. intros p co so C H. exact (ro_G _ _ (Hrun p co so C H)). Qed.

(** classes by position *)
Lemma classes_at : forall l c0 s0 p co so C, items_wf c0 s0 l -> List.In (IComp p co so C) l -> forall i, i < nsectors p ->
  nth (i + so - s0) (classes_of l) (COld CGov) = COld (shift_cls so (class_of (c_classes C) i)).
Proof.
  induction l as [|i0 r IH]; intros c0 s0 p co so C Hw Hin i Hi; [destruct Hin|].
  unfold classes_of. cbn [map List.concat]. fold (classes_of r).
  destruct i0 as [n|q co' so' C']; cbn [items_wf] in Hw.
  - destruct Hw as [-> Hw]. destruct Hin as [Hin|Hin]; [discriminate|].
    destruct (item_range' (IComp p co so C) r _ _ Hw Hin) as [Hr _]. cbn [it_soff] in Hr. cbn [it_classes].
    rewrite app_nth2 by (cbn; lia). cbn [List.length]. replace (i + so - s0 - 3) with (i + so - (3 + s0)) by lia. eapply IH; eauto.
  - destruct Hw as (-> & -> & HCF & Hw). destruct Hin as [Hin|Hin].
    + inversion Hin. subst. cbn [it_classes]. replace (i + so - so) with i by lia.
      rewrite app_nth1 by (rewrite map_length, (cw_len _ _ (cf_wf _ _ HCF)), (cf_len _ _ HCF); exact Hi).
      change (COld CGov) with ((fun k => COld (shift_cls so k)) CGov). apply (map_nth (fun k => COld (shift_cls so k))).
    + destruct (item_range' (IComp p co so C) r _ _ Hw Hin) as [Hr _]. cbn [it_soff] in Hr. cbn [it_classes].
      rewrite app_nth2 by (rewrite map_length, (cw_len _ _ (cf_wf _ _ HCF)), (cf_len _ _ HCF); lia).
      rewrite map_length, (cw_len _ _ (cf_wf _ _ HCF)), (cf_len _ _ HCF).
      replace (i + so - s0 - nsectors q) with (i + so - (nsectors q + s0)) by lia. eapply IH; eauto.
Qed.

Lemma info_item p co so C : List.In (IComp p co so C) its -> info_ok (iM p so) (nsectors p) J (mkI (c_classes C) (c_sup C)).
Proof.
  intros Hin. constructor; rewrite ?iM_off; cbn [i_classes i_sup].
  - intros i Hi. unfold class_of2. rewrite HJcl. pose proof (classes_at its 0 0 p co so C Hwf Hin i Hi) as H. now rewrite Nat.sub_0_r in H.
  - intros i Hi. now apply (HJs p co so C).
  - intros i j Hi Hj. exact (ro_sup_ref _ _ (Hrun p co so C Hin) i j Hi Hj).
Qed.

Lemma gen_comp p co so C pre post fl ic : List.In (IComp p co so C) its ->
  bframe (iM p so) (cG g p) (nsectors p) J (first_code p) pre post (zone0 C) ->
  foldM (gen_step2 J) (map (shift_call (iM p so)) (calls_i C))
        (mkG2 (pre ++ map (emb_with (e_FC (iM p so)) (iM p so)) (zone0 C) ++ post)%list fl ic)
  = match foldM (gen_step (mkI (c_classes C) (c_sup C))) (calls_i C) (mkG (zone0 C) (c_flows C)) with
    | Ok g' => Ok (mkG2 (pre ++ map (emb_with (e_FC (iM p so)) (iM p so)) (g_zone g') ++ post)%list
                        (fl ++ map (shift_flow (iM p so) (sec_is_market p)) (flat_map gen_flows (calls_i C)))%list ic)
    | Err e => Err e
    end.
Proof.
  intros Hin HB. destruct (Hoks _ Hin) as (_ & Hst & _).
  pose proof (comp_laws g p so Hst) as Hok.
  exact (gen_fold_block (iM p so) (cmcode g p) (cG g p) Hok
           (tax_generate_emb_with _ _ _ Hok) (firm_generate_emb_with _ _ _ Hok)
           (money_generate_checked_emb_with _ _ _ Hok) (deposit_generate_checked_emb_with _ _ _ Hok)
           (market_generate_emb _ _ _ Hok (comp_cross p so))
           (nsectors p) J (mkI (c_classes C) (c_sup C)) (first_code p) (sec_is_market p) (info_item p co so C Hin)
           pre post (calls_i C) (mkG (zone0 C) (c_flows C)) fl ic HB (ro_calls _ _ (Hrun p co so C Hin))).
Qed.

Lemma jzone_snoc ba it Z : jzone (ba ++ [(it, Z)]) = (jzone ba ++ it_eb it Z)%list.
Proof. rewrite jzone_app. unfold jzone at 2. cbn. now rewrite app_nil_r. Qed.

Theorem gen_items : forall bb ba fl ic,
  map fst (ba ++ bb) = its -> Forall (blk_ok curs) (ba ++ bb) ->
  (forall x, List.In x bb -> snd x = it_zone0 curs (fst x)) ->
  (forall x, List.In x bb -> exists gf, gen_of (fst x) = Ok gf) ->
  foldM (gen_step2 J) (List.concat (map (fun x => it_calls (fst x)) bb)) (mkG2 (jzone ba ++ jzone bb)%list fl ic)
  = Ok (mkG2 (jzone ba ++ jzone (map (fun x => (fst x, gen_zone (fst x))) bb))%list
             (fl ++ List.concat (map (fun x => it_genflows (fst x)) bb))%list ic).
Proof.
  induction bb as [|[it Z] r IH]; intros ba fl ic Hits Hblk Hinit Hgen.
  - unfold jzone at 2 4. cbn [map List.concat foldM]. now rewrite !app_nil_r.
  - cbn [map List.concat fst]. rewrite foldM_app.
    pose proof (Hinit (it, Z) (or_introl eq_refl)) as EZ. cbn [fst snd] in EZ. subst Z.
    destruct (Hgen (it, it_zone0 curs it) (or_introl eq_refl)) as (gf & Egf). cbn [fst] in Egf.
    assert (Hstep : foldM (gen_step2 J) (it_calls it) (mkG2 (jzone ba ++ jzone ((it, it_zone0 curs it) :: r))%list fl ic)
                    = Ok (mkG2 (jzone (ba ++ [(it, gen_zone it)]) ++ jzone r)%list (fl ++ it_genflows it)%list ic) /\
                    blk_ok curs (it, gen_zone it)).
    { unfold gen_zone. rewrite Egf. destruct it as [n|p co so C].
      - (* the ExternalSector's three sectors generate nothing *)
        cbn [gen_of it_zone0] in Egf. inversion Egf. subst gf. cbn [g_zone it_calls it_genflows]. rewrite app_nil_r.
        split; [|reflexivity]. rewrite jzone_snoc. cbn [it_eb]. rewrite <- app_assoc.
        change (jzone ((IExt n, map (set_fullcode g) (Xof n curs)) :: r)) with (map (set_fullcode g) (Xof n curs) ++ jzone r)%list.
        set (Zall := (jzone ba ++ map (set_fullcode g) (Xof n curs) ++ jzone r)%list).
        assert (Hfind : forall j, List.In j [n; S n; S (S n)] -> exists s, find_sec j Zall = Some s).
        { intros j Hj. apply find_sec_sids. unfold Zall. rewrite !map_app. apply in_or_app. right. apply in_or_app. left.
          rewrite map_map. cbn [sid set_fullcode]. rewrite (Xof_xblock n curs Hcs). exact Hj. }
        assert (Hx : forall j k st, h_zone st = Zall -> List.In j [n; S n; S (S n)] -> (k = CXR \/ k = CFX \/ k = CGOLD) ->
                  gen_step2 J st (j, k) = Ok st).
        { intros j k st Hz Hj Hk. unfold gen_step2. rewrite Hz. destruct (Hfind j Hj) as (s0 & ->).
          destruct Hk as [Hk|[Hk|Hk]]; subst k; reflexivity. }
        cbn [foldM]. rewrite !Hx; try reflexivity; cbn; tauto.
      - cbn [gen_of] in Egf. cbn [it_calls it_genflows it_zone0].
        assert (Hin : List.In (IComp p co so C) its).
        { rewrite <- Hits, map_app. apply in_or_app. right. now left. }
        pose proof (mk_bframe its J Hwf Hcs Hndc Hndu Hoks Hext1 HJc HJe HG0' ba r p co so C (zone0 C) Hits Hblk) as HB.
        change (jzone ((IComp p co so C, zone0 C) :: r)) with (map (emb (iM p so)) (zone0 C) ++ jzone r)%list.
        unfold emb. rewrite (gen_comp p co so C (jzone ba) (jzone r) fl ic Hin HB), Egf.
        split; [|cbn [blk_ok fst snd it_zone0]; exact (gen_frames _ _ _ _ Egf)].
        rewrite jzone_snoc. cbn [it_eb]. unfold emb. now rewrite <- app_assoc. }
    destruct Hstep as [Hstep Hnew]. rewrite Hstep. cbn [bind].
    assert (Hits' : map fst ((ba ++ [(it, gen_zone it)]) ++ r) = its).
    { rewrite <- Hits, !map_app. cbn [map fst]. now rewrite <- app_assoc. }
    assert (Hblk' : Forall (blk_ok curs) ((ba ++ [(it, gen_zone it)]) ++ r)).
    { rewrite <- app_assoc. cbn [app]. rewrite Forall_app in Hblk |- *. destruct Hblk as [H1 H2]. split; [exact H1|].
      inversion H2. subst. constructor; assumption. }
    rewrite (IH (ba ++ [(it, gen_zone it)])%list (fl ++ it_genflows it)%list ic Hits' Hblk').
    + rewrite jzone_snoc, <- !app_assoc. unfold jzone at 3. cbn [map List.concat fst snd]. fold (jzone (map (fun x => (fst x, gen_zone (fst x))) r)).
      reflexivity.
    + intros x Hx. apply Hinit. now right.
    + intros x Hx. apply Hgen. now right.
Qed.


(** error direction: the first item whose stand-alone calls fail makes the joint calls fail *)
Theorem gen_items_err : forall bb ba fl ic,
  map fst (ba ++ bb) = its -> Forall (blk_ok curs) (ba ++ bb) ->
  (forall x, List.In x bb -> snd x = it_zone0 curs (fst x)) ->
  (exists x e, List.In x bb /\ gen_of (fst x) = Err e) ->
  exists e', foldM (gen_step2 J) (List.concat (map (fun x => it_calls (fst x)) bb)) (mkG2 (jzone ba ++ jzone bb)%list fl ic) = Err e'.
Proof.
  induction bb as [|[it Z] r IH]; intros ba fl ic Hits Hblk Hinit Hfail.
  - destruct Hfail as (x & e & [] & _).
  - cbn [map List.concat fst]. rewrite foldM_app.
    pose proof (Hinit (it, Z) (or_introl eq_refl)) as EZ. cbn [fst snd] in EZ. subst Z.
    destruct (gen_of it) as [gf|e0] eqn:Egf.
    + pose proof (gen_items [(it, it_zone0 curs it)] ba fl ic) as H1.
      (* one item: reuse the success theorem on the state with the rest of the zone appended is not possible; redo the step *)
      clear H1.
      assert (Hstep : foldM (gen_step2 J) (it_calls it) (mkG2 (jzone ba ++ jzone ((it, it_zone0 curs it) :: r))%list fl ic)
                      = Ok (mkG2 (jzone (ba ++ [(it, gen_zone it)]) ++ jzone r)%list (fl ++ it_genflows it)%list ic) /\
                      blk_ok curs (it, gen_zone it)).
      { unfold gen_zone. rewrite Egf. destruct it as [n|p co so C].
        - cbn [gen_of it_zone0] in Egf. inversion Egf. subst gf. cbn [g_zone it_calls it_genflows]. rewrite app_nil_r.
          split; [|reflexivity]. rewrite jzone_snoc. cbn [it_eb]. rewrite <- app_assoc.
          change (jzone ((IExt n, map (set_fullcode g) (Xof n curs)) :: r)) with (map (set_fullcode g) (Xof n curs) ++ jzone r)%list.
          set (Zall := (jzone ba ++ map (set_fullcode g) (Xof n curs) ++ jzone r)%list).
          assert (Hfind : forall j, List.In j [n; S n; S (S n)] -> exists s, find_sec j Zall = Some s).
          { intros j Hj. apply find_sec_sids. unfold Zall. rewrite !map_app. apply in_or_app. right. apply in_or_app. left.
            rewrite map_map. cbn [sid set_fullcode]. rewrite (Xof_xblock n curs Hcs). exact Hj. }
          assert (Hx : forall j k st, h_zone st = Zall -> List.In j [n; S n; S (S n)] -> (k = CXR \/ k = CFX \/ k = CGOLD) ->
                    gen_step2 J st (j, k) = Ok st).
          { intros j k st Hz Hj Hk. unfold gen_step2. rewrite Hz. destruct (Hfind j Hj) as (s0 & ->).
            destruct Hk as [Hk|[Hk|Hk]]; subst k; reflexivity. }
          cbn [foldM]. rewrite !Hx; try reflexivity; cbn; tauto.
        - cbn [gen_of] in Egf. cbn [it_calls it_genflows it_zone0].
          assert (Hin : List.In (IComp p co so C) its).
          { rewrite <- Hits, map_app. apply in_or_app. right. now left. }
          pose proof (mk_bframe its J Hwf Hcs Hndc Hndu Hoks Hext1 HJc HJe HG0' ba r p co so C (zone0 C) Hits Hblk) as HB.
          change (jzone ((IComp p co so C, zone0 C) :: r)) with (map (emb (iM p so)) (zone0 C) ++ jzone r)%list.
          unfold emb. rewrite (gen_comp p co so C (jzone ba) (jzone r) fl ic Hin HB), Egf.
          split; [|cbn [blk_ok fst snd it_zone0]; exact (gen_frames _ _ _ _ Egf)].
          rewrite jzone_snoc. cbn [it_eb]. unfold emb. now rewrite <- app_assoc. }
      destruct Hstep as [Hstep Hnew]. rewrite Hstep. cbn [bind].
      assert (Hits' : map fst ((ba ++ [(it, gen_zone it)]) ++ r) = its).
      { rewrite <- Hits, !map_app. cbn [map fst]. now rewrite <- app_assoc. }
      assert (Hblk' : Forall (blk_ok curs) ((ba ++ [(it, gen_zone it)]) ++ r)).
      { rewrite <- app_assoc. cbn [app]. rewrite Forall_app in Hblk |- *. destruct Hblk as [H1 H2]. split; [exact H1|].
        inversion H2. subst. constructor; assumption. }
      apply (IH (ba ++ [(it, gen_zone it)])%list (fl ++ it_genflows it)%list ic Hits' Hblk').
      * intros x Hx. apply Hinit. now right.
      * destruct Hfail as (x & e & [<-|Hx] & He); [cbn [fst] in He; rewrite Egf in He; discriminate|]. now exists x, e.
    + destruct it as [n|p co so C]; [discriminate|]. cbn [gen_of] in Egf. cbn [it_calls it_zone0].
      assert (Hin : List.In (IComp p co so C) its).
      { rewrite <- Hits, map_app. apply in_or_app. right. now left. }
      pose proof (mk_bframe its J Hwf Hcs Hndc Hndu Hoks Hext1 HJc HJe HG0' ba r p co so C (zone0 C) Hits Hblk) as HB.
      change (jzone ((IComp p co so C, zone0 C) :: r)) with (map (emb (iM p so)) (zone0 C) ++ jzone r)%list.
      unfold emb. rewrite (gen_comp p co so C (jzone ba) (jzone r) fl ic Hin HB), Egf. cbn [bind]. now exists e0.
Qed.

(* ------------------------------------------------------------------ *)
(** * A round of block-local steps over all items (registered cash flows, exogenous declarations) *)

Section Round.
Variable X : Type.
Variable step2 : zone -> X -> result zone.                       (* on the joint zone *)
Variable step1 : zone -> X -> result zone.                       (* on the stand-alone zone *)
Variable shiftX : emap -> (nat -> bool) -> X -> X.
Variable okX : nat -> X -> Prop.
Variable batch : item -> list X.

Hypothesis Hblock : forall (M : emap) (mcode : string -> Prop) (G : sector -> Prop), emap_ok M mcode G ->
  forall ns cur ism pre post xs Zi, bframe M G ns J cur pre post Zi -> ism_ok ism Zi -> (forall x, List.In x xs -> okX ns x) ->
  foldM step2 (map (shiftX M ism) xs) (pre ++ map (emb_with (e_FC M) M) Zi ++ post)%list
  = rmap (fun B => (pre ++ map (emb_with (e_FC M) M) B ++ post)%list) (foldM step1 xs Zi).
Hypothesis Hframe : forall xs Z Z', foldM step1 xs Z = Ok Z' -> frames Z Z'.

Definition it_batch2 (it : item) : list X :=
  match it with IComp p _ so _ => map (shiftX (iM p so) (sec_is_market p)) (batch it) | IExt _ => [] end.

Definition loc_zone (x : item * zone) : zone :=
  match fst x with
  | IComp _ _ _ _ => match foldM step1 (batch (fst x)) (snd x) with Ok Z' => Z' | Err _ => snd x end
  | IExt _ => snd x
  end.

Theorem round_items : forall bb ba,
  map fst (ba ++ bb) = its -> Forall (blk_ok curs) (ba ++ bb) ->
  (forall p co so C Z, List.In (IComp p co so C, Z) bb ->
     (forall x, List.In x (batch (IComp p co so C)) -> okX (nsectors p) x) /\ exists Z', foldM step1 (batch (IComp p co so C)) Z = Ok Z') ->
  foldM step2 (List.concat (map (fun x => it_batch2 (fst x)) bb)) (jzone ba ++ jzone bb)%list
  = Ok (jzone ba ++ jzone (map (fun x => (fst x, loc_zone x)) bb))%list /\
  Forall (blk_ok curs) (ba ++ map (fun x => (fst x, loc_zone x)) bb).
Proof.
  induction bb as [|[it Z] r IH]; intros ba Hits Hblk Hb.
  - unfold jzone at 2 4. cbn [map List.concat foldM]. split; [reflexivity|exact Hblk].
  - cbn [map List.concat fst]. rewrite foldM_app.
    assert (Hstep : foldM step2 (it_batch2 it) (jzone ba ++ jzone ((it, Z) :: r))%list
                    = Ok (jzone (ba ++ [(it, loc_zone (it, Z))]) ++ jzone r)%list /\ blk_ok curs (it, loc_zone (it, Z))).
    { assert (HbZ : blk_ok curs (it, Z)) by (rewrite Forall_forall in Hblk; apply Hblk; apply in_or_app; right; now left).
      destruct it as [n|p co so C].
      - cbn [it_batch2 foldM]. unfold loc_zone. cbn [fst snd]. split; [|exact HbZ].
        rewrite jzone_snoc. cbn [it_eb]. rewrite <- app_assoc. reflexivity.
      - assert (Hin : List.In (IComp p co so C) its).
        { rewrite <- Hits, map_app. apply in_or_app. right. now left. }
        destruct (Hb p co so C Z (or_introl eq_refl)) as [Hok1 (Z' & EZ')].
        pose proof (mk_bframe its J Hwf Hcs Hndc Hndu Hoks Hext1 HJc HJe HG0' ba r p co so C Z Hits Hblk) as HB.
        destruct (Hoks _ Hin) as (HCF & Hst & _).
        pose proof (comp_laws g p so Hst) as Hok.
        assert (Hism : ism_ok (sec_is_market p) Z).
        { eapply ism_ok_frame; [exact HbZ|]. now apply ism_zone0. }
        change (jzone ((IComp p co so C, Z) :: r)) with (map (emb (iM p so)) Z ++ jzone r)%list. unfold emb.
        cbn [it_batch2]. rewrite (Hblock (iM p so) _ _ Hok (nsectors p) (first_code p) (sec_is_market p) (jzone ba) (jzone r) _ Z HB Hism Hok1).
        unfold loc_zone. cbn [fst snd]. rewrite EZ'. cbn [rmap].
        split; [rewrite jzone_snoc; cbn [it_eb]; unfold emb; now rewrite <- app_assoc|].
        cbn [blk_ok fst snd it_zone0] in HbZ |- *. eapply frames_trans; [exact HbZ|]. eapply Hframe; exact EZ'. }
    destruct Hstep as [Hstep Hnew]. rewrite Hstep. cbn [bind].
    assert (Hits' : map fst ((ba ++ [(it, loc_zone (it, Z))]) ++ r) = its).
    { rewrite <- Hits, !map_app. cbn [map fst]. now rewrite <- app_assoc. }
    assert (Hblk' : Forall (blk_ok curs) ((ba ++ [(it, loc_zone (it, Z))]) ++ r)).
    { rewrite <- app_assoc. cbn [app]. rewrite Forall_app in Hblk |- *. destruct Hblk as [H1 H2]. split; [exact H1|].
      inversion H2. subst. constructor; assumption. }
    destruct (IH (ba ++ [(it, loc_zone (it, Z))])%list Hits' Hblk') as [IH1 IH2].
    { intros p co so C Z0 Hin0. apply Hb. now right. }
    rewrite IH1. split.
    + rewrite jzone_snoc, <- !app_assoc. unfold jzone at 3. cbn [map List.concat fst snd].
      fold (jzone (map (fun x => (fst x, loc_zone x)) r)). reflexivity.
    + rewrite <- app_assoc in IH2. exact IH2.
Qed.


(** error direction: the first item whose stand-alone batch fails makes the joint round fail *)
Theorem round_items_err : forall bb ba,
  map fst (ba ++ bb) = its -> Forall (blk_ok curs) (ba ++ bb) ->
  (forall p co so C Z, List.In (IComp p co so C, Z) bb -> forall x, List.In x (batch (IComp p co so C)) -> okX (nsectors p) x) ->
  (exists p co so C Z e, List.In (IComp p co so C, Z) bb /\ foldM step1 (batch (IComp p co so C)) Z = Err e) ->
  exists e', foldM step2 (List.concat (map (fun x => it_batch2 (fst x)) bb)) (jzone ba ++ jzone bb)%list = Err e'.
Proof.
  induction bb as [|[it Z] r IH]; intros ba Hits Hblk Hb Hfail.
  - destruct Hfail as (p & co & so & C & Z & e & [] & _).
  - cbn [map List.concat fst]. rewrite foldM_app.
    assert (HbZ : blk_ok curs (it, Z)) by (rewrite Forall_forall in Hblk; apply Hblk; apply in_or_app; right; now left).
    assert (Hnext : forall Z', blk_ok curs (it, Z') ->
              (exists p co so C Z0 e, List.In (IComp p co so C, Z0) r /\ foldM step1 (batch (IComp p co so C)) Z0 = Err e) ->
              exists e', foldM step2 (List.concat (map (fun x => it_batch2 (fst x)) r)) (jzone (ba ++ [(it, Z')]) ++ jzone r)%list = Err e').
    { intros Z' Hnew Hf. apply IH.
      - rewrite <- Hits, !map_app. cbn [map fst]. now rewrite <- app_assoc.
      - rewrite <- app_assoc. cbn [app]. rewrite Forall_app in Hblk |- *. destruct Hblk as [H1 H2]. split; [exact H1|].
        inversion H2. subst. constructor; assumption.
      - intros p co so C Z0 Hin0. apply (Hb p co so C Z0). now right.
      - exact Hf. }
    destruct it as [n|p co so C].
    + cbn [it_batch2 foldM bind].
      assert (Ez : (jzone ba ++ jzone ((IExt n, Z) :: r))%list = (jzone (ba ++ [(IExt n, Z)]) ++ jzone r)%list).
      { rewrite jzone_snoc. cbn [it_eb]. now rewrite <- app_assoc. }
      rewrite Ez. apply (Hnext Z HbZ).
      destruct Hfail as (p & co & so & C & Z0 & e & [Hx|Hx] & He); [discriminate|]. now exists p, co, so, C, Z0, e.
    + assert (Hin : List.In (IComp p co so C) its).
      { rewrite <- Hits, map_app. apply in_or_app. right. now left. }
      pose proof (Hb p co so C Z (or_introl eq_refl)) as Hok1.
      pose proof (mk_bframe its J Hwf Hcs Hndc Hndu Hoks Hext1 HJc HJe HG0' ba r p co so C Z Hits Hblk) as HB.
      destruct (Hoks _ Hin) as (HCF & Hst & _).
      pose proof (comp_laws g p so Hst) as Hok.
      assert (Hism : ism_ok (sec_is_market p) Z).
      { eapply ism_ok_frame; [exact HbZ|]. now apply ism_zone0. }
      change (jzone ((IComp p co so C, Z) :: r)) with (map (emb (iM p so)) Z ++ jzone r)%list. unfold emb.
      cbn [it_batch2]. rewrite (Hblock (iM p so) _ _ Hok (nsectors p) (first_code p) (sec_is_market p) (jzone ba) (jzone r) _ Z HB Hism Hok1).
      destruct (foldM step1 (batch (IComp p co so C)) Z) as [Z'|e0] eqn:EZ'; cbn [rmap bind]; [|now exists e0].
      assert (Ez : (jzone ba ++ map (emb_with (e_FC (iM p so)) (iM p so)) Z' ++ jzone r)%list = (jzone (ba ++ [(IComp p co so C, Z')]) ++ jzone r)%list).
      { rewrite jzone_snoc. cbn [it_eb]. unfold emb. now rewrite <- app_assoc. }
      rewrite Ez. apply Hnext.
      * cbn [blk_ok fst snd it_zone0] in HbZ |- *. eapply frames_trans; [exact HbZ|]. eapply Hframe; exact EZ'.
      * destruct Hfail as (p1 & co1 & so1 & C1 & Z0 & e & [Hx|Hx] & He).
        -- inversion Hx. subst. rewrite EZ' in He. discriminate.
        -- now exists p1, co1, so1, C1, Z0, e.
Qed.

End Round.

(* ------------------------------------------------------------------ *)
(** * Model.GetSectors() and the list of calls, item by item *)

Definition bl0 : list (item * zone) := map (fun it => (it, it_zone0 curs it)) its.

Lemma Z0_sub : forall l c0 s0, items_wf c0 s0 l -> (forall i, List.In i l -> item_ok i) -> NoDup (codes_of l) ->
  zone_order (map fst (countries_of l)) (map (set_fullcode g) (secs_of g curs l))
  = jzone (map (fun it => (it, it_zone0 curs it)) l).
Proof.
  induction l as [|it r IH]; intros c0 s0 Hw Hok Hnd; [reflexivity|].
  unfold countries_of, Items.secs_of. cbn [map List.concat]. fold (countries_of r). fold (secs_of g curs r).
  rewrite !map_app, zone_order_app_l.
  unfold codes_of in Hnd. cbn [map List.concat] in Hnd. fold (codes_of r) in Hnd. apply NoDup_app_inv in Hnd as (_ & Hnd2 & Hd).
  assert (Hw' : exists c1 s1, items_wf c1 s1 r /\ match it with IExt n => n = s0 | IComp p _ so C => so = s0 /\ comp_full p C end).
  { destruct it as [n|p co so C]; cbn [items_wf] in Hw; [exists (S c0), (3 + s0)|exists (ncountries p + c0), (nsectors p + s0)]; tauto. }
  destruct Hw' as (c1 & s1 & Hwr & Hit).
  assert (Hfst : map fst (it_countries it) = it_codes it).
  { destruct it as [n|q co so C]; [reflexivity|]. cbn [it_countries it_codes]. rewrite map_map. cbn [fst]. rewrite map_id.
    destruct Hit as [_ HCF]. apply (cf_cc _ _ HCF). }
  assert (Hc1 : forall s, List.In s (map (set_fullcode g) (it_secs g curs it)) -> List.In (country s) (it_codes it)).
  { intros s Hs. apply in_map_iff in Hs as (s' & <- & Hs'). cbn [country set_fullcode].
    pose proof (secs_countries g curs Hcs [it] c0 s0) as HH. unfold Items.secs_of, codes_of in HH. cbn [map List.concat] in HH. rewrite !app_nil_r in HH.
    apply HH; [|exact Hs']. destruct it as [n|q co so C]; cbn [items_wf] in Hw |- *; tauto. }
  assert (Hc2 : forall s, List.In s (map (set_fullcode g) (secs_of g curs r)) -> List.In (country s) (codes_of r)).
  { intros s Hs. apply in_map_iff in Hs as (s' & <- & Hs'). cbn [country set_fullcode]. eapply (secs_countries g curs Hcs r); eauto. }
  rewrite zone_order_drop_r.
  2:{ intros s Hs Hin. rewrite Hfst in Hin. apply (Hd _ Hin). now apply Hc2. }
  rewrite zone_order_drop_l.
  2:{ intros s Hs Hin. apply in_map_iff in Hin as (y & Ey & Hy). destruct (countries_codes r _ _ Hwr y Hy) as [Hy1 _].
      apply (Hd (fst y)); [rewrite Ey; now apply Hc1|exact Hy1]. }
  rewrite (IH _ _ Hwr (fun i Hi => Hok i (or_intror Hi)) Hnd2).
  unfold jzone at 2. cbn [map List.concat fst snd]. fold (jzone (map (fun it0 => (it0, it_zone0 curs it0)) r)). f_equal.
  destruct it as [n|p co so C].
  - cbn [it_countries it_secs it_eb it_zone0 map fst]. unfold zone_order. cbn [flat_map]. rewrite app_nil_r.
    apply filter_all. intros s Hs. apply in_map_iff in Hs as (s' & <- & Hs'). unfold in_country. cbn [country set_fullcode].
    destruct (Xof_ok n curs Hcs) as [_ HF]. destruct (frames_In_r _ _ HF s' Hs') as (s0' & Hs0 & Hfr). rewrite (frame_country _ _ Hfr).
    cbn in Hs0. destruct Hs0 as [<-|[<-|[<-|[]]]]; reflexivity.
  - destruct (Hok _ (or_introl eq_refl)) as (HCF & Hst & Hg). destruct (comp_static_inv p Hst) as (_ & Hnc & _).
    pose proof (zone0_emb p co so C HCF Hnc Hg) as HZ. cbn [it_countries it_secs it_eb it_zone0] in HZ |- *. exact HZ.
Qed.

Lemma Z0_items : zone_order (map fst (countries_of its)) (map (set_fullcode g) (secs_of g curs its)) = jzone bl0.
Proof. exact (Z0_sub its 0 0 Hwf Hoks Hndc). Qed.

Lemma gen_blocks_ok l : (forall it, List.In it l -> exists gf, gen_of it = Ok gf) ->
  Forall (blk_ok curs) (map (fun it => (it, gen_zone it)) l).
Proof.
  intros H. apply Forall_forall. intros x Hx. apply in_map_iff in Hx as (it & <- & Hit).
  destruct (H it Hit) as (gf & Egf). unfold gen_zone, blk_ok. cbn [fst snd]. rewrite Egf.
  destruct it as [n|p co so C]; cbn [gen_of] in Egf.
  - inversion Egf. reflexivity.
  - cbn [it_zone0]. exact (gen_frames _ _ _ _ Egf).
Qed.

Lemma bl0_ok : Forall (blk_ok curs) bl0.
Proof.
  apply Forall_forall. intros x Hx. apply in_map_iff in Hx as (it & <- & _). unfold blk_ok. cbn [fst snd].
  destruct it; [reflexivity|apply frames_refl].
Qed.

(** the calls Model._GenerateEquations makes, block by block *)
Lemma calls_block it : List.In it its ->
  map (fun s => (sid s, class_of2 (j_classes J) (sid s))) (it_eb it (it_zone0 curs it)) = it_calls it.
Proof.
  intros Hin. destruct it as [n|p co so C]; cbn [it_eb it_zone0 it_calls].
  - rewrite map_map. cbn [sid set_fullcode].
    pose proof (Xof_xblock n curs Hcs) as HX. unfold xblock in HX.
    destruct (Xof n curs) as [|a [|b [|d [|? ?]]]] eqn:EX; try discriminate. cbn in HX.
    assert (S1 : sid a = n) by congruence. assert (S2 : sid b = S n) by congruence. assert (S3 : sid d = S (S n)) by congruence. clear HX.
    cbn [map]. rewrite S1, S2, S3.
    (* classes of the ExternalSector's three sectors, by position *)
    assert (Hcl : forall l c0 s0, items_wf c0 s0 l -> List.In (IExt n) l ->
              nth (n - s0) (classes_of l) (COld CGov) = CXR /\ nth (S n - s0) (classes_of l) (COld CGov) = CFX /\ nth (S (S n) - s0) (classes_of l) (COld CGov) = CGOLD).
    { clear. induction l as [|i0 r IH]; intros c0 s0 Hw Hin; [destruct Hin|].
      unfold classes_of. cbn [map List.concat]. fold (classes_of r). destruct i0 as [n'|q co' so' C']; cbn [items_wf] in Hw.
      - destruct Hw as [-> Hw]. destruct Hin as [Hin|Hin].
        + inversion Hin. subst. cbn [it_classes]. replace (n - n) with 0 by lia. replace (S n - n) with 1 by lia. replace (S (S n) - n) with 2 by lia. now repeat split.
        + destruct (item_range' (IExt n) r _ _ Hw Hin) as [Hr _]. cbn [it_soff] in Hr. cbn [it_classes].
          rewrite 3 app_nth2; cbn [List.length]; try lia.
          replace (n - s0 - 3) with (n - (3 + s0)) by lia. replace (S n - s0 - 3) with (S n - (3 + s0)) by lia. replace (S (S n) - s0 - 3) with (S (S n) - (3 + s0)) by lia.
          eapply IH; eauto.
      - destruct Hw as (-> & -> & HCF & Hw). destruct Hin as [Hin|Hin]; [discriminate|].
        destruct (item_range' (IExt n) r _ _ Hw Hin) as [Hr _]. cbn [it_soff] in Hr. cbn [it_classes].
        assert (Hlen : List.length (map (fun k => COld (shift_cls s0 k)) (c_classes C')) = nsectors q)
          by (rewrite map_length, (cw_len _ _ (cf_wf _ _ HCF)), (cf_len _ _ HCF); reflexivity).
        rewrite 3 app_nth2; rewrite ?Hlen; try lia.
        replace (n - s0 - nsectors q) with (n - (nsectors q + s0)) by lia. replace (S n - s0 - nsectors q) with (S n - (nsectors q + s0)) by lia.
        replace (S (S n) - s0 - nsectors q) with (S (S n) - (nsectors q + s0)) by lia. eapply IH; eauto. }
    destruct (Hcl its 0 0 Hwf Hin) as (C1 & C2 & C3). rewrite !Nat.sub_0_r in C1, C2, C3.
    unfold class_of2. rewrite HJcl, C1, C2, C3. reflexivity.
  - unfold calls_i. rewrite !map_map. apply map_ext_in. intros s Hs. cbn [sid emb emb_with]. rewrite iM_off. unfold shift_call. cbn [fst snd]. rewrite iM_off.
    f_equal. destruct (Hoks _ Hin) as (HCF & _).
    apply zone0_In in Hs as (s0 & Hs0 & -> & _). cbn [sid set_fullcode].
    pose proof (c_sid_lt p C (cf_wf _ _ HCF) s0 Hs0) as Hlt. rewrite (cf_len _ _ HCF) in Hlt.
    unfold class_of2. rewrite HJcl. pose proof (classes_at its 0 0 p co so C Hwf Hin (sid s0) Hlt) as H. now rewrite Nat.sub_0_r in H.
Qed.

Lemma calls_items : map (fun s => (sid s, class_of2 (j_classes J) (sid s))) (jzone bl0) = List.concat (map (fun x => it_calls (fst x)) bl0).
Proof.
  unfold bl0. assert (H : forall l, (forall it, List.In it l -> List.In it its) ->
    map (fun s => (sid s, class_of2 (j_classes J) (sid s))) (jzone (map (fun it => (it, it_zone0 curs it)) l))
    = List.concat (map (fun x => it_calls (fst x)) (map (fun it => (it, it_zone0 curs it)) l))).
  { induction l as [|it r IH]; intros Hl; [reflexivity|]. unfold jzone. cbn [map List.concat fst snd].
    fold (jzone (map (fun it0 => (it0, it_zone0 curs it0)) r)). rewrite map_app, (calls_block it (Hl it (or_introl eq_refl))). f_equal.
    apply IH. intros i Hi. apply Hl. now right. }
  apply H. auto.
Qed.

(* ------------------------------------------------------------------ *)
(** * Initial conditions: one batch per item on the final zone *)

Section IcRound.
Variable icb : item -> list (nat * string * string).

Definition it_ic2 (it : item) : list (nat * string * string) :=
  match it with IComp p _ so _ => map (shift_ic (iM p so) (sec_is_market p)) (icb it) | IExt _ => [] end.

Definition it_icrows (x : item * zone) : list (string * string) :=
  match fst x with
  | IComp p _ so _ => match ic_rows (snd x) (icb (fst x)) with Ok rows => map (emb_ic (iM p so)) rows | Err _ => [] end
  | IExt _ => []
  end.

Theorem ic_round : forall bb ba,
  map fst (ba ++ bb) = its -> Forall (blk_ok curs) (ba ++ bb) ->
  (forall p co so C Z, List.In (IComp p co so C, Z) bb ->
     (forall x, List.In x (icb (IComp p co so C)) -> fst (fst x) < nsectors p) /\ exists rows, ic_rows Z (icb (IComp p co so C)) = Ok rows) ->
  ic_rows (jzone (ba ++ bb)) (List.concat (map (fun x => it_ic2 (fst x)) bb)) = Ok (List.concat (map it_icrows bb)).
Proof.
  induction bb as [|[it Z] r IH]; intros ba Hits Hblk Hb; [reflexivity|].
  cbn [map List.concat fst]. rewrite ic_rows_app.
  assert (Hhead : ic_rows (jzone (ba ++ (it, Z) :: r)) (it_ic2 it) = Ok (it_icrows (it, Z))).
  { destruct it as [n|p co so C]; [reflexivity|].
    assert (Hin : List.In (IComp p co so C) its) by (rewrite <- Hits, map_app; apply in_or_app; right; now left).
    destruct (Hb p co so C Z (or_introl eq_refl)) as [Hrefs (rows & Erows)].
    pose proof (mk_bframe its J Hwf Hcs Hndc Hndu Hoks Hext1 HJc HJe HG0' ba r p co so C Z Hits Hblk) as HB.
    destruct (Hoks _ Hin) as (HCF & Hst & _). pose proof (comp_laws g p so Hst) as Hok.
    assert (HbZ : blk_ok curs (IComp p co so C, Z)) by (rewrite Forall_forall in Hblk; apply Hblk; apply in_or_app; right; now left).
    assert (Hism : ism_ok (sec_is_market p) Z) by (eapply ism_ok_frame; [exact HbZ|now apply ism_zone0]).
    rewrite jzone_app. change (jzone ((IComp p co so C, Z) :: r)) with (map (emb (iM p so)) Z ++ jzone r)%list. unfold emb.
    cbn [it_ic2]. rewrite (ic_rows_block (iM p so) _ _ Hok (nsectors p) J (first_code p) (sec_is_market p) (jzone ba) (jzone r) Z _ HB Hism Hrefs).
    unfold it_icrows. cbn [fst snd]. now rewrite Erows. }
  rewrite Hhead. cbn [bind].
  assert (Ez : (ba ++ (it, Z) :: r)%list = ((ba ++ [(it, Z)]) ++ r)%list) by (now rewrite <- app_assoc).
  rewrite Ez. rewrite (IH (ba ++ [(it, Z)])%list).
  - reflexivity.
  - now rewrite <- Ez.
  - now rewrite <- Ez.
  - intros p co so C Z0 Hin0. apply Hb. now right.
Qed.


(** error direction *)
Theorem ic_round_err : forall bb ba,
  map fst (ba ++ bb) = its -> Forall (blk_ok curs) (ba ++ bb) ->
  (forall p co so C Z, List.In (IComp p co so C, Z) bb -> forall x, List.In x (icb (IComp p co so C)) -> fst (fst x) < nsectors p) ->
  (exists p co so C Z e, List.In (IComp p co so C, Z) bb /\ ic_rows Z (icb (IComp p co so C)) = Err e) ->
  exists e', ic_rows (jzone (ba ++ bb)) (List.concat (map (fun x => it_ic2 (fst x)) bb)) = Err e'.
Proof.
  induction bb as [|[it Z] r IH]; intros ba Hits Hblk Hb Hfail.
  - destruct Hfail as (p & co & so & C & Z & e & [] & _).
  - cbn [map List.concat fst]. rewrite ic_rows_app.
    assert (Ez : (ba ++ (it, Z) :: r)%list = ((ba ++ [(it, Z)]) ++ r)%list) by (now rewrite <- app_assoc).
    assert (Hnext : (exists p co so C Z0 e, List.In (IComp p co so C, Z0) r /\ ic_rows Z0 (icb (IComp p co so C)) = Err e) ->
              exists e', ic_rows (jzone (ba ++ (it, Z) :: r)) (List.concat (map (fun x => it_ic2 (fst x)) r)) = Err e').
    { intros Hf. rewrite Ez. apply IH; [now rewrite <- Ez|now rewrite <- Ez| |exact Hf].
      intros p co so C Z0 Hin0. apply (Hb p co so C Z0). now right. }
    destruct it as [n|p co so C].
    + cbn [it_ic2 ic_rows bind]. change (ic_rows (jzone (ba ++ (IExt n, Z) :: r)) []) with (@Ok (list (string * string)) []). cbn [bind].
      destruct Hnext as (e' & He').
      { destruct Hfail as (p & co & so & C & Z0 & e & [Hx|Hx] & He); [discriminate|]. now exists p, co, so, C, Z0, e. }
      rewrite He'. now exists e'.
    + assert (Hin : List.In (IComp p co so C) its) by (rewrite <- Hits, map_app; apply in_or_app; right; now left).
      pose proof (Hb p co so C Z (or_introl eq_refl)) as Hrefs.
      pose proof (mk_bframe its J Hwf Hcs Hndc Hndu Hoks Hext1 HJc HJe HG0' ba r p co so C Z Hits Hblk) as HB.
      destruct (Hoks _ Hin) as (HCF & Hst & _). pose proof (comp_laws g p so Hst) as Hok.
      assert (HbZ : blk_ok curs (IComp p co so C, Z)) by (rewrite Forall_forall in Hblk; apply Hblk; apply in_or_app; right; now left).
      assert (Hism : ism_ok (sec_is_market p) Z) by (eapply ism_ok_frame; [exact HbZ|now apply ism_zone0]).
      assert (Hhead : ic_rows (jzone (ba ++ (IComp p co so C, Z) :: r)) (it_ic2 (IComp p co so C))
                      = rmap (map (emb_ic (iM p so))) (ic_rows Z (icb (IComp p co so C)))).
      { rewrite jzone_app. change (jzone ((IComp p co so C, Z) :: r)) with (map (emb (iM p so)) Z ++ jzone r)%list. unfold emb.
        cbn [it_ic2]. apply (ic_rows_block (iM p so) _ _ Hok (nsectors p) J (first_code p) (sec_is_market p) (jzone ba) (jzone r) Z _ HB Hism Hrefs). }
      rewrite Hhead. destruct (ic_rows Z (icb (IComp p co so C))) as [rows|e0] eqn:Erows; cbn [rmap bind]; [|now exists e0].
      destruct Hnext as (e' & He').
      { destruct Hfail as (p1 & co1 & so1 & C1 & Z0 & e & [Hx|Hx] & He).
        - inversion Hx. subst. rewrite Erows in He. discriminate.
        - now exists p1, co1, so1, C1, Z0, e. }
      rewrite He'. now exists e'.
Qed.

End IcRound.

(* ------------------------------------------------------------------ *)
(** * Rows *)

Lemma zone_rows_app (a b : zone) : zone_rows (a ++ b)%list = (zone_rows a ++ zone_rows b)%list.
Proof. unfold zone_rows. apply flat_map_app. Qed.

Lemma zone_rows_jzone bl : zone_rows (jzone bl) = List.concat (map (fun x => zone_rows (it_eb (fst x) (snd x))) bl).
Proof.
  induction bl as [|x r IH]; [reflexivity|]. unfold jzone. cbn [map List.concat]. fold (jzone r). now rewrite zone_rows_app, IH.
Qed.

Lemma zone_rows_emb p so Z : comp_static p = true ->
  Forall (cG g p) Z -> (gains_prefix g p = true -> Forall (fun s => text_ok s = true) Z) ->
  zone_rows (map (emb (iM p so)) Z) = flat_map (fun s => sort_rows (map (emb_row (iM p so) (is_market s)) (sector_rows s))) Z.
Proof.
  intros Hst HG Htx. unfold zone_rows. rewrite flat_map_concat_map, map_map, <- flat_map_concat_map.
  apply flat_map_ext_in'. intros s Hs.
  destruct (comp_static_inv p Hst) as (_ & _ & _ & Hcur & Hmk).
  rewrite Forall_forall in HG. pose proof (HG s Hs) as Gs.
  unfold Items.iM, emap_at, cG in *. destruct (gains_prefix g p) eqn:Eg.
  - apply sector_rows_pmap; try assumption. specialize (Htx eq_refl). rewrite Forall_forall in Htx. now apply Htx.
  - apply sector_rows_idmap.
Qed.

End Gen.

End M.
