(** The classification of a row text (Main.classify: exogenous / lagged / endogenous, by substring
    tests and replacements on the TEXT, as Model._FinalEquationFormatting and EquationParser do it)
    commutes with a token map [tmap f] that fixes the names without "__" / "SUP_" prefix, provided
    the word EXOGENOUS occurs in the text only inside identifier runs the map leaves alone
    ([RowsDefs.exo_text]) and the map does not create the word.

    The lag patterns "(t-1)", " (k -1 )", "(k-1)" start and end with a non-identifier character and
    their identifiers t, k, 1 are fixed: no condition on the text is needed for them.

    String lemmas on [replace] / [find_sub] and the proof structure are adapted from
    GenRename/ClassEq.v (piecewise renamings; GenRename is not a dependency of this family). *)
From Coq Require Import List String Ascii Bool ZArith Arith Lia.
From SFC.Base Require Import Res Str.
From SFC.GenMain2 Require Import Main.
From SFC.GenEmbed Require Import EmbDefs JointDefs Laws Good TokenMap PrefixLaws RowsDefs.
Import ListNotations.
Local Open Scope string_scope.

(* ------------------------------------------------------------------ *)
(** * Prefixes, replace (copied from GenRename/ClassEq.v) *)

Lemma drop_app p x : drop (String.length p) (p ++ x) = x.
Proof. induction p as [|c p IH]; simpl; [now destruct x|exact IH]. Qed.

Lemma prefix_nil p : p <> "" -> String.prefix p "" = false.
Proof. destruct p; [congruence|reflexivity]. Qed.

Lemma prefix_length p s : String.prefix p s = true -> String.length p <= String.length s.
Proof. intros H. assert (E := f_equal String.length (prefix_split p s H)). rewrite length_append in E. lia. Qed.

Lemma length_drop n : forall s, String.length (drop n s) = String.length s - n.
Proof. induction n as [|n IH]; intros s; simpl; [lia|]. destruct s; simpl; [reflexivity|apply IH]. Qed.

Lemma replace_fuel_irrel p q : p <> "" -> forall n m s, String.length s < n -> String.length s < m ->
  replace_fuel n p q s = replace_fuel m p q s.
Proof.
  intros Hp. induction n as [|n IH]; intros m s Hn Hm; [lia|]. destruct m as [|m]; [lia|]. simpl.
  destruct (String.prefix p s) eqn:Ep.
  - f_equal. assert (L := prefix_length p s Ep). assert (Lp : 1 <= String.length p) by (destruct p; [congruence|simpl; lia]).
    apply IH; rewrite length_drop; lia.
  - destruct s as [|c s]; [reflexivity|]. f_equal. apply IH; simpl in *; lia.
Qed.

Definition repl (p q s : string) : string := replace_fuel (S (String.length s)) p q s.

Lemma replace_repl p q s : p <> "" -> replace p q s = repl p q s.
Proof. destruct p; [congruence|reflexivity]. Qed.

Lemma repl_nil p q : p <> "" -> repl p q "" = "".
Proof. intros H. unfold repl. cbn [replace_fuel String.length]. now rewrite (prefix_nil p H). Qed.

Lemma repl_match p q s : p <> "" -> String.prefix p s = true -> repl p q s = q ++ repl p q (drop (String.length p) s).
Proof.
  intros Hp H. set (rhs := repl p q (drop (String.length p) s)). unfold repl. cbn [replace_fuel]. rewrite H. f_equal.
  unfold rhs, repl. apply replace_fuel_irrel; [exact Hp| |lia].
  rewrite length_drop. assert (L := prefix_length p s H). assert (Lp : 1 <= String.length p) by (destruct p; [congruence|simpl; lia]). lia.
Qed.

Lemma repl_step p q c s : p <> "" -> String.prefix p (String c s) = false -> repl p q (String c s) = String c (repl p q s).
Proof.
  intros Hp H. set (rhs := repl p q s). unfold repl. cbn [replace_fuel]. rewrite H. reflexivity.
Qed.

Lemma repl_word p q rest : p <> "" -> repl p q (p ++ rest) = q ++ repl p q rest.
Proof. intros Hp. rewrite (repl_match p q _ Hp (prefix_refl_app p rest)). now rewrite drop_app. Qed.

(** the part before the first occurrence *)
Fixpoint cut (p s : string) : option string :=
  if String.prefix p s then Some ""
  else match s with EmptyString => None | String c r => option_map (String c) (cut p r) end.

Lemma cut_find p s : match find_sub p s with Some pos => Some (take pos s) | None => None end = cut p s.
Proof.
  induction s as [|c s IH]; cbn [find_sub cut].
  - destruct (String.prefix p ""); reflexivity.
  - destruct (String.prefix p (String c s)); [reflexivity|]. rewrite <- IH. destruct (find_sub p s); reflexivity.
Qed.

Lemma head_sep_prefix p c s : sep_start p = true -> p <> "" -> is_id_char c = true -> String.prefix p (String c s) = false.
Proof.
  destruct p as [|d p]; [congruence|]. simpl. intros Hd _ Hc. destruct (ascii_dec d c) as [->|]; [|reflexivity].
  rewrite Hc in Hd. discriminate.
Qed.

(** an identifier pattern does not match across the end of a run *)
Lemma prefix_id_sep p : all_id p = true -> forall x c y, is_id_char c = false ->
  String.prefix p (x ++ String c y) = true -> String.prefix p x = true.
Proof.
  induction p as [|d p IH]; intros Hp x c y Hc H; [now destruct x|].
  simpl in Hp. apply andb_true_iff in Hp as [Hd Hp]. destruct x as [|e x]; simpl in *.
  - destruct (ascii_dec d c) as [->|]; [congruence|discriminate].
  - destruct (ascii_dec d e); [|discriminate]. eapply IH; eauto.
Qed.

Lemma prefix_run p x rest : all_id p = true -> sep_start rest = true ->
  String.prefix p (x ++ rest) = String.prefix p x.
Proof.
  intros Hp Hr. destruct rest as [|c y]; [now rewrite append_nil_r|].
  simpl in Hr. apply negb_true_iff in Hr.
  destruct (String.prefix p x) eqn:E; [now apply prefix_app_l|].
  destruct (String.prefix p (x ++ String c y)) eqn:E2; [|reflexivity].
  apply (prefix_id_sep p Hp x c y Hr) in E2. congruence.
Qed.

Lemma prefix_sep_cons p c y : all_id p = true -> p <> "" -> is_id_char c = false -> String.prefix p (String c y) = false.
Proof.
  destruct p as [|d p]; [congruence|]. simpl. intros Hp _ Hc. apply andb_true_iff in Hp as [Hd _].
  destruct (ascii_dec d c) as [->|]; [congruence|reflexivity].
Qed.

(* ------------------------------------------------------------------ *)
(** * The word EXOGENOUS in a run followed by a separator *)

Lemma EXO_id : all_id EXO = true. Proof. reflexivity. Qed.
Lemma EXO_ne : EXO <> "". Proof. discriminate. Qed.

Lemma has_run x rest : all_id x = true -> sep_start rest = true ->
  has_substring EXO (x ++ rest) = has_substring EXO x || has_substring EXO rest.
Proof.
  intros _ Hr. induction x as [|c x IH].
  - cbn [append]. change (has_substring EXO "") with false. reflexivity.
  - change (String c x ++ rest) with (String c (x ++ rest)). cbn [has_substring].
    change (String c (x ++ rest)) with (String c x ++ rest). rewrite (prefix_run EXO (String c x) rest EXO_id Hr).
    destruct (String.prefix EXO (String c x)); [reflexivity|exact IH].
Qed.

Lemma has_sep_cons c y : is_id_char c = false -> has_substring EXO (String c y) = has_substring EXO y.
Proof. intros Hc. cbn [has_substring]. now rewrite (prefix_sep_cons EXO c y EXO_id EXO_ne Hc). Qed.

Lemma repl_sep_cons q c y : is_id_char c = false -> repl EXO q (String c y) = String c (repl EXO q y).
Proof. intros Hc. apply repl_step; [exact EXO_ne|]. now apply prefix_sep_cons. Qed.

Lemma repl_run_len q n : forall x rest, String.length x < n -> all_id x = true -> sep_start rest = true ->
  repl EXO q (x ++ rest) = repl EXO q x ++ repl EXO q rest /\ (all_id q = true -> all_id (repl EXO q x) = true).
Proof.
  induction n as [|n IH]; intros x rest Hn Hx Hr; [lia|].
  destruct (String.prefix EXO x) eqn:Ep.
  - pose proof (prefix_split EXO x Ep) as E. set (x' := drop (String.length EXO) x) in *.
    assert (Hx' : all_id x' = true) by (unfold x'; now apply all_id_drop).
    assert (Hl : String.length x' < n).
    { assert (L := f_equal String.length E). rewrite length_append in L. change (String.length EXO) with 9 in L. lia. }
    destruct (IH x' rest Hl Hx' Hr) as [I1 I2].
    rewrite E, append_assoc, !(repl_word EXO q _ EXO_ne), I1. split; [now rewrite append_assoc|].
    intros Hq. rewrite all_id_app, Hq. now apply I2.
  - destruct x as [|c x].
    + rewrite (repl_nil EXO q EXO_ne). split; [reflexivity|reflexivity].
    + assert (Ep2 : String.prefix EXO (String c x ++ rest) = false) by now rewrite (prefix_run EXO _ rest EXO_id Hr).
      change (String c x ++ rest) with (String c (x ++ rest)) in *.
      rewrite (repl_step EXO q c _ EXO_ne Ep2), (repl_step EXO q c _ EXO_ne Ep).
      simpl in Hx. apply andb_true_iff in Hx as [Hc Hx]. simpl in Hn.
      destruct (IH x rest ltac:(lia) Hx Hr) as [I1 I2]. rewrite I1. split; [reflexivity|].
      intros Hq. simpl. now rewrite Hc, I2.
Qed.

Lemma repl_run q x rest : all_id x = true -> sep_start rest = true ->
  repl EXO q (x ++ rest) = repl EXO q x ++ repl EXO q rest.
Proof. intros Hx Hr. apply (repl_run_len q (S (String.length x)) x rest (Nat.lt_succ_diag_r _) Hx Hr). Qed.

Lemma all_id_repl x : all_id x = true -> all_id (repl EXO "" x) = true.
Proof.
  intros Hx. destruct (repl_run_len "" (S (String.length x)) x "" (Nat.lt_succ_diag_r _) Hx eq_refl) as [_ H]. now apply H.
Qed.

Lemma repl_noexo q x : has_substring EXO x = false -> repl EXO q x = x.
Proof.
  induction x as [|c x IH]; intros H; [apply repl_nil, EXO_ne|].
  cbn [has_substring] in H. destruct (String.prefix EXO (String c x)) eqn:E; [discriminate|].
  rewrite (repl_step EXO q c x EXO_ne E). now rewrite IH.
Qed.

(* ------------------------------------------------------------------ *)
(** * Runs *)

Lemma runs_go_split x : forall acc rest, all_id x = true -> sep_start rest = true ->
  runs_go acc (x ++ rest) = (acc ++ x) :: match rest with EmptyString => [] | String _ t => runs t end.
Proof.
  induction x as [|c x IH]; intros acc rest Hx Hr.
  - rewrite append_nil_r. destruct rest as [|d t]; [reflexivity|]. simpl in Hr. apply negb_true_iff in Hr.
    cbn [append runs_go]. now rewrite Hr.
  - simpl in Hx. apply andb_true_iff in Hx as [Hc Hx]. change (String c x ++ rest) with (String c (x ++ rest)).
    cbn [runs_go]. rewrite Hc, IH by assumption. unfold snoc. now rewrite append_assoc.
Qed.

Lemma exo_text_split x rest : all_id x = true -> sep_start rest = true ->
  exo_text (x ++ rest) = exo_tok x && match rest with EmptyString => true | String _ t => exo_text t end.
Proof.
  intros Hx Hr. unfold exo_text, runs. rewrite runs_go_split by assumption. cbn [forallb append].
  now destruct rest.
Qed.

(* ------------------------------------------------------------------ *)
(** * The token map *)

Section Class.
Variable f : string -> string.
Hypothesis Hid : forall x, all_id x = true -> head_alpha x = true -> all_id (f x) = true.
Hypothesis Hhd : forall x, all_id x = true -> head_alpha x = true -> head_alpha (f x) = true.
Hypothesis Hinj : forall x y, all_id x = true -> head_alpha x = true -> all_id y = true -> head_alpha y = true ->
  f x = f y -> x = y.
Hypothesis Hfix : forall x, fixb x = true -> f x = x.
Hypothesis Hexo : forall x, all_id x = true -> head_alpha x = true ->
  has_substring EXO x = false -> has_substring EXO (f x) = false.

Notation T := (tmap f).

Lemma T_sep_start r : sep_start r = true -> T r = ttail f r.
Proof. intros Hr. unfold tmap. rewrite tmap_go_ttail by exact Hr. reflexivity. Qed.

Lemma go_sep_start acc r : sep_start r = true -> tmap_go f acc r = emit f acc ++ T r.
Proof. intros Hr. rewrite tmap_go_ttail by exact Hr. now rewrite T_sep_start. Qed.

Lemma T_split a r : all_id a = true -> sep_start r = true -> T (a ++ r) = emit f a ++ T r.
Proof. intros Ha Hr. rewrite tmap_split by assumption. now rewrite T_sep_start. Qed.

Lemma T_sep_start_pres r : sep_start r = true -> sep_start (T r) = true.
Proof. intros Hr. rewrite T_sep_start by exact Hr. now apply ttail_sep. Qed.

Lemma emit_fix x : fixb x = true -> emit f x = x.
Proof. intros H. destruct x as [|c x]; [reflexivity|]. cbn [emit]. destruct (is_alpha c); [now apply Hfix|reflexivity]. Qed.

Lemma no_us_fixb x : no_us x = true -> fixb x = true.
Proof. intros H. unfold fixb. now rewrite no_us_no_dd, no_us_no_sup. Qed.

Lemma T_no_us t : no_us t = true -> T t = t.
Proof.
  apply (tmap_fix (fun x => no_us x = true)).
  - intros a b H. rewrite no_us_app in H. now apply andb_true_iff in H.
  - intros a b H. rewrite no_us_app in H. now apply andb_true_iff in H.
  - intros x H _ _. now apply Hfix, no_us_fixb.
Qed.

(** a separator of the image comes from a separator of the text *)
Lemma sep_eq_cases x : all_id x = true -> forall d y u c v, is_id_char d = false -> is_id_char c = false ->
  x ++ String d y = u ++ String c v ->
  (u = x /\ d = c /\ y = v) \/ (exists u', u = x ++ String d u' /\ y = u' ++ String c v).
Proof.
  induction x as [|e x IH]; intros Hx d y u c v Hd Hc E.
  - destruct u as [|e u]; cbn [append] in E.
    + injection E as -> ->. now left.
    + injection E as <- ->. right. now exists u.
  - simpl in Hx. apply andb_true_iff in Hx as [He Hx]. destruct u as [|e' u]; cbn [append] in E.
    + injection E as -> _. congruence.
    + injection E as <- E. destruct (IH Hx d y u c v Hd Hc E) as [(-> & -> & ->)|(u' & -> & ->)].
      * now left.
      * right. now exists u'.
Qed.

Lemma go_split_inv s : forall acc u c v, all_id acc = true -> is_id_char c = false ->
  tmap_go f acc s = u ++ String c v -> exists a r, s = a ++ String c r /\ tmap_go f acc a = u /\ T r = v.
Proof.
  induction s as [|d s IH]; intros acc u c v Ha Hc E.
  - exfalso. cbn [tmap_go] in E. assert (H : all_id (emit f acc) = true) by (now apply emit_all_id).
    rewrite E, all_id_app in H. simpl in H. rewrite Hc in H. simpl in H. now rewrite andb_false_r in H.
  - cbn [tmap_go] in E. destruct (is_id_char d) eqn:Hd.
    + destruct (IH (snoc acc d) u c v (all_id_snoc acc d Ha Hd) Hc E) as (a & r & -> & E1 & E2).
      exists (String d a), r. cbn [append tmap_go]. rewrite Hd. auto.
    + change (tmap_go f "" s) with (T s) in E.
      destruct (sep_eq_cases (emit f acc) (emit_all_id f Hid acc Ha) d (T s) u c v Hd Hc E) as [(-> & -> & <-)|(u' & -> & E2)].
      * exists "", s. cbn [append tmap_go]. auto.
      * destruct (IH "" u' c v eq_refl Hc E2) as (a & r & -> & E3 & E4).
        exists (String d a), r. cbn [append tmap_go]. rewrite Hd. rewrite E3. auto.
Qed.

Lemma T_split_inv s u c v : is_id_char c = false -> T s = u ++ String c v ->
  exists a r, s = a ++ String c r /\ T a = u /\ T r = v.
Proof. intros Hc E. exact (go_split_inv s "" u c v eq_refl Hc E). Qed.

Lemma T_inj s t : T s = T t -> s = t.
Proof. apply tmap_inj; assumption. Qed.

(* ------------------------------------------------------------------ *)
(** * Patterns that start and end with a separator and whose identifiers are fixed *)

Definition rigid (p : string) : Prop :=
  sep_start p = true /\ exists p' c, p = p' ++ String c "" /\ is_id_char c = false /\ T p' = p'.

Lemma rigid_ne p : rigid p -> p <> "".
Proof. intros (_ & p' & c & -> & _). destruct p'; discriminate. Qed.

Lemma T_rigid p x : rigid p -> T (p ++ x) = p ++ T x.
Proof.
  intros (_ & p' & c & -> & Hc & E). rewrite append_assoc. cbn [append]. rewrite (tmap_sep f p' c x Hc), E. now rewrite append_assoc.
Qed.

Lemma go_rigid p x acc : rigid p -> tmap_go f acc (p ++ x) = emit f acc ++ p ++ T x.
Proof.
  intros H. pose proof (rigid_ne p H) as Hn. rewrite go_sep_start.
  - now rewrite T_rigid.
  - destruct H as (H & _). destruct p; [congruence|exact H].
Qed.

Lemma prefix_T p s : rigid p -> String.prefix p (T s) = String.prefix p s.
Proof.
  intros H. destruct (String.prefix p s) eqn:E.
  - rewrite (prefix_split p s E), T_rigid by exact H. apply prefix_refl_app.
  - destruct (String.prefix p (T s)) eqn:E2; [|reflexivity]. exfalso.
    pose proof (prefix_split p (T s) E2) as E3. set (y := drop (String.length p) (T s)) in *.
    destruct H as (_ & p' & c & Ep & Hc & Hp). rewrite Ep, append_assoc in E3. cbn [append] in E3.
    destruct (T_split_inv s p' c y Hc E3) as (a & r & -> & E4 & _).
    rewrite <- Hp in E4. apply T_inj in E4. subst a.
    change (p' ++ String c r) with (p' ++ String c "" ++ r) in E. rewrite <- append_assoc, <- Ep, prefix_refl_app in E. discriminate.
Qed.

Lemma repl_id p q x y : sep_start p = true -> p <> "" -> all_id x = true -> repl p q (x ++ y) = x ++ repl p q y.
Proof.
  intros H2 Hn. induction x as [|c x IH]; intros Hx; [reflexivity|].
  simpl in Hx. apply andb_true_iff in Hx as [Hc Hx]. change (String c x ++ y) with (String c (x ++ y)).
  rewrite repl_step; [|exact Hn|now apply head_sep_prefix]. simpl. now rewrite IH.
Qed.

Theorem go_repl p q : rigid p -> rigid q -> forall n s, String.length s < n ->
  forall acc, all_id acc = true -> tmap_go f acc (repl p q s) = repl p q (tmap_go f acc s).
Proof.
  intros Hp Hq. pose proof (rigid_ne p Hp) as Hn. pose proof (proj1 Hp) as H2.
  induction n as [|n IH]; intros s Hlen acc Ha; [lia|].
  assert (Hfa : all_id (emit f acc) = true) by (now apply emit_all_id).
  destruct s as [|c s].
  - rewrite repl_nil by exact Hn. cbn [tmap_go]. rewrite <- (append_nil_r (emit f acc)) at 2.
    rewrite repl_id, repl_nil by assumption. now rewrite append_nil_r.
  - destruct (is_id_char c) eqn:Hc.
    + rewrite repl_step; [|exact Hn|now apply head_sep_prefix]. cbn [tmap_go]. rewrite Hc.
      apply IH; [simpl in Hlen; lia|]. now apply all_id_snoc.
    + assert (Hss : sep_start (String c s) = true) by (simpl; now rewrite Hc).
      rewrite (go_sep_start acc (String c s) Hss), repl_id by assumption.
      destruct (String.prefix p (String c s)) eqn:Ep.
      * rewrite (repl_match p q _ Hn Ep). rewrite (prefix_split p _ Ep) at 2. set (s2 := drop (String.length p) (String c s)).
        rewrite go_rigid by exact Hq. rewrite T_rigid by exact Hp.
        rewrite (repl_word p q _ Hn). f_equal. f_equal.
        apply (IH s2); [|reflexivity]. unfold s2. rewrite length_drop. destruct p; [congruence|]. simpl in *. lia.
      * rewrite (repl_step p q c s Hn Ep). cbn [tmap_go]. rewrite Hc. f_equal.
        assert (Ep2 : String.prefix p (T (String c s)) = false) by (now rewrite prefix_T).
        rewrite (tmap_cons f c s Hc) in Ep2 |- *. rewrite (repl_step p q c (T s) Hn Ep2). f_equal.
        apply (IH s); [simpl in Hlen; lia|reflexivity].
Qed.

Corollary T_repl p q s : rigid p -> rigid q -> T (repl p q s) = repl p q (T s).
Proof. intros Hp Hq. apply (go_repl p q Hp Hq (S (String.length s)) s (Nat.lt_succ_diag_r _) "" eq_refl). Qed.

Lemma cut_id p x y : sep_start p = true -> p <> "" -> all_id x = true -> cut p (x ++ y) = option_map (append x) (cut p y).
Proof.
  intros H2 Hn. induction x as [|c x IH]; intros Hx.
  - simpl. destruct (cut p y); reflexivity.
  - simpl in Hx. apply andb_true_iff in Hx as [Hc Hx]. change (String c x ++ y) with (String c (x ++ y)).
    cbn [cut]. rewrite (head_sep_prefix p c (x ++ y) H2 Hn Hc), IH by exact Hx. destruct (cut p y); reflexivity.
Qed.

Theorem go_cut p : rigid p -> forall s acc, all_id acc = true ->
  cut p (tmap_go f acc s) = option_map (tmap_go f acc) (cut p s).
Proof.
  intros Hp. pose proof (rigid_ne p Hp) as Hn. pose proof (proj1 Hp) as H2.
  induction s as [|c s IH]; intros acc Ha.
  - assert (Hfa : all_id (emit f acc) = true) by (now apply emit_all_id).
    cbn [tmap_go cut]. rewrite (prefix_nil p Hn). rewrite <- (append_nil_r (emit f acc)). rewrite cut_id by assumption.
    cbn [cut]. now rewrite (prefix_nil p Hn).
  - destruct (is_id_char c) eqn:Hc.
    + cbn [tmap_go cut]. rewrite Hc, (head_sep_prefix p c s H2 Hn Hc).
      rewrite IH by (now apply all_id_snoc).
      destruct (cut p s); cbn [option_map]; [|reflexivity]. cbn [tmap_go]. now rewrite Hc.
    + assert (Hfa : all_id (emit f acc) = true) by (now apply emit_all_id).
      assert (Hss : sep_start (String c s) = true) by (simpl; now rewrite Hc).
      rewrite (go_sep_start acc (String c s) Hss), cut_id by assumption.
      assert (Ep2 : String.prefix p (T (String c s)) = String.prefix p (String c s)) by (now apply prefix_T).
      rewrite (tmap_cons f c s Hc) in Ep2 |- *. cbn [cut]. rewrite Ep2.
      destruct (String.prefix p (String c s)).
      * cbn [option_map tmap_go]. now rewrite append_nil_r.
      * change (T s) with (tmap_go f "" s). rewrite (IH "" eq_refl).
        destruct (cut p s) as [a|]; cbn [option_map]; [|reflexivity]. cbn [tmap_go]. now rewrite Hc.
Qed.

Corollary T_cut p s : rigid p -> cut p (T s) = option_map T (cut p s).
Proof. intros Hp. apply (go_cut p Hp s "" eq_refl). Qed.

(** the three lag patterns *)
Lemma rigid_t1 : rigid "(t-1)".
Proof. split; [reflexivity|]. exists "(t-1", ")"%char. repeat split. now apply T_no_us. Qed.
Lemma rigid_k1 : rigid "(k-1)".
Proof. split; [reflexivity|]. exists "(k-1", ")"%char. repeat split. now apply T_no_us. Qed.
Lemma rigid_k2 : rigid " (k -1 )".
Proof. split; [reflexivity|]. exists " (k -1 ", ")"%char. repeat split. now apply T_no_us. Qed.

(* ------------------------------------------------------------------ *)
(** * The word EXOGENOUS *)

Lemma emit_exo x : all_id x = true -> exo_tok x = true ->
  has_substring EXO (emit f x) = has_substring EXO x /\ emit f (repl EXO "" x) = repl EXO "" (emit f x).
Proof.
  intros Hx H. unfold exo_tok in H. apply orb_true_iff in H as [H|H].
  - apply negb_true_iff in H. rewrite (repl_noexo "" x H).
    assert (H2 : has_substring EXO (emit f x) = false).
    { destruct (head_alpha x) eqn:E; [rewrite emit_alpha by exact E; now apply Hexo|now rewrite emit_num by exact E]. }
    rewrite H2, H. now rewrite (repl_noexo "" _ H2).
  - apply andb_true_iff in H as [H1 H2]. rewrite replace_repl in H2 by exact EXO_ne.
    now rewrite (emit_fix x H1), (emit_fix _ H2).
Qed.

Theorem exo_commute n : forall s, String.length s < n -> exo_text s = true ->
  has_substring EXO (T s) = has_substring EXO s /\ T (repl EXO "" s) = repl EXO "" (T s).
Proof.
  induction n as [|n IH]; intros s Hlen Hc; [lia|].
  destruct (id_split s) as (x & rest & -> & Hx & Hr).
  rewrite exo_text_split in Hc by assumption. apply andb_true_iff in Hc as [Htok Hrest].
  destruct (emit_exo x Hx Htok) as [E1 E2].
  assert (Hfx : all_id (emit f x) = true) by (now apply emit_all_id).
  assert (Rest : has_substring EXO (T rest) = has_substring EXO rest /\ T (repl EXO "" rest) = repl EXO "" (T rest) /\
                 sep_start (repl EXO "" rest) = true).
  { destruct rest as [|c t].
    - change (T "") with "". rewrite (repl_nil EXO "" EXO_ne). change (T "") with "". auto.
    - simpl in Hr. apply negb_true_iff in Hr.
      assert (Hlt : String.length t < n) by (rewrite length_append in Hlen; simpl in Hlen; lia).
      destruct (IH t Hlt Hrest) as [I1 I2].
      rewrite (tmap_cons f c t Hr), !has_sep_cons, !repl_sep_cons, (tmap_cons f c _ Hr) by exact Hr.
      rewrite I1, I2. simpl. rewrite Hr. auto. }
  destruct Rest as (R1 & R2 & R3).
  rewrite (T_split x rest Hx Hr). split.
  - rewrite !has_run by (try assumption; now apply T_sep_start_pres). now rewrite E1, R1.
  - rewrite !repl_run by (try assumption; now apply T_sep_start_pres).
    rewrite (T_split _ _ (all_id_repl x Hx) R3). now rewrite E2, R2.
Qed.

(* ------------------------------------------------------------------ *)
(** * classify *)

Theorem classify_tmap t : exo_text t = true -> classify (T t) = map_kind T (classify t).
Proof.
  intros Hc. destruct (exo_commute (S (String.length t)) t (Nat.lt_succ_diag_r _) Hc) as [H1 H2].
  unfold classify. change "EXOGENOUS" with EXO. rewrite H1. destruct (has_substring EXO t).
  - cbn [map_kind]. f_equal. rewrite !replace_repl by exact EXO_ne. symmetry. exact H2.
  - rewrite !replace_repl by discriminate.
    rewrite <- (T_repl "(t-1)" "(k-1)" t rigid_t1 rigid_k1).
    rewrite <- (T_repl " (k -1 )" "(k-1)" _ rigid_k2 rigid_k1).
    set (t2 := repl " (k -1 )" "(k-1)" (repl "(t-1)" "(k-1)" t)).
    assert (HC := T_cut "(k-1)" t2 rigid_k1). rewrite <- !cut_find in HC.
    destruct (find_sub "(k-1)" (T t2)) as [pos'|]; destruct (find_sub "(k-1)" t2) as [pos|]; cbn [option_map] in HC; try discriminate.
    + injection HC as HC. cbn [map_kind]. now rewrite HC.
    + reflexivity.
Qed.

End Class.
