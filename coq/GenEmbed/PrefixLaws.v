(** The country-prefix maps [pmap cc mkc off] and the identity maps [idmap off] satisfy the laws of
    [Laws.emap_ok] (string theory only; the general facts about token maps are in TokenMap.v). *)
From Coq Require Import List String Ascii Bool ZArith Arith Lia.
From SFC.Base Require Import Res Str Sorting.
From SFC.Gen Require Import Fx Zone.
From SFC.GenTax Require Import Tax TaxProofs.
From SFC.GenAsset Require Import Weighting.
From SFC.GenMain2 Require Import Program Classes Main.
From SFC.GenEmbed Require Import EmbDefs Laws Good TokenMap.
Import ListNotations.
Local Open Scope string_scope.

(* ------------------------------------------------------------------ *)
(** * Occurrences of "__" *)

Definition head_us (s : string) : bool :=
  match s with EmptyString => false | String c _ => is_underscore c end.

Lemma prefix_dd_cons c r : String.prefix "__" (String c r) = is_underscore c && head_us r.
Proof.
  unfold is_underscore. cbn [String.prefix]. destruct (ascii_dec "_" c) as [<-|N].
  - rewrite Ascii.eqb_refl. cbn [andb]. destruct r as [|d r]; cbn [head_us String.prefix]; [reflexivity|].
    unfold is_underscore. destruct (ascii_dec "_" d) as [<-|N]; [rewrite Ascii.eqb_refl; now destruct r|].
    destruct (Ascii.eqb_spec d "_"); [congruence|reflexivity].
  - destruct (Ascii.eqb_spec c "_"); [congruence|reflexivity].
Qed.

Lemma hs_dd_cons c r : has_substring "__" (String c r) = (is_underscore c && head_us r) || has_substring "__" r.
Proof. cbn [has_substring]. rewrite prefix_dd_cons. now destruct (is_underscore c && head_us r). Qed.

Lemma hs_dd_nonus c r : is_underscore c = false -> has_substring "__" (String c r) = has_substring "__" r.
Proof. intros H. now rewrite hs_dd_cons, H. Qed.

Lemma head_us_app a b : a <> "" -> head_us (a ++ b) = head_us a.
Proof. destruct a; [congruence|reflexivity]. Qed.

(** the head of  A ++ "__" ++ B  is the head of  A ++ "_" *)
Lemma head_us_dd A B : head_us (A ++ "__" ++ B) = head_us (A ++ "_").
Proof. now destruct A. Qed.

Lemma all_alnum_app a b : all_alnum (a ++ b) = all_alnum a && all_alnum b.
Proof. induction a as [|x a IH]; simpl; [reflexivity|]. rewrite IH. now rewrite !andb_assoc. Qed.

Lemma all_alnum_id a : all_alnum a = true -> all_id a = true.
Proof.
  induction a as [|c a IH]; simpl; [reflexivity|]. intros H.
  apply andb_true_iff in H as [H H2]. apply andb_true_iff in H as [H1 _]. rewrite H1. simpl. auto.
Qed.

Lemma all_alnum_no_us a : all_alnum a = true -> no_us a = true.
Proof.
  induction a as [|c a IH]; simpl; [reflexivity|]. intros H.
  apply andb_true_iff in H as [H H2]. apply andb_true_iff in H as [_ H1].
  unfold is_underscore in H1. rewrite H1. simpl. auto.
Qed.

(** a run without '_' in front does not matter *)
Lemma hs_dd_no_us a r : no_us a = true -> has_substring "__" (a ++ r) = has_substring "__" r.
Proof.
  induction a as [|c a IH]; cbn [append no_us]; [reflexivity|]. intros H. apply andb_true_iff in H as [H1 H2].
  rewrite hs_dd_nonus by (unfold is_underscore; now apply negb_true_iff). auto.
Qed.

Lemma hs_dd_alnum a r : all_alnum a = true -> has_substring "__" (a ++ r) = has_substring "__" r.
Proof. intros H. now apply hs_dd_no_us, all_alnum_no_us. Qed.

Lemma no_us_no_dd x : no_us x = true -> has_substring "__" x = false.
Proof. intros H. rewrite <- (append_nil_r x). now rewrite hs_dd_no_us. Qed.

Lemma no_us_no_sup x : no_us x = true -> String.prefix "SUP_" x = false.
Proof.
  intros H. destruct (String.prefix "SUP_" x) eqn:E; [|reflexivity].
  apply prefix_split in E. rewrite E in H. simpl in H. discriminate.
Qed.

(** a string without "__" whose last character is not '_' can be followed by '_' *)
Lemma dd_snoc c : has_substring "__" c = false ->
  match last_char c with Some z => negb (is_underscore z) | None => false end = true ->
  has_substring "__" (c ++ "_") = false.
Proof.
  induction c as [|a c IH]; [simpl; discriminate|].
  destruct c as [|d c].
  - intros _ H. simpl in H. apply negb_true_iff in H.
    change (String a "" ++ "_") with (String a "_"). rewrite hs_dd_cons, H. reflexivity.
  - intros H1 H2. rewrite hs_dd_cons in H1. apply orb_false_iff in H1 as [H1 H3].
    change (last_char (String a (String d c))) with (last_char (String d c)) in H2.
    change (String a (String d c) ++ "_") with (String a (String d c ++ "_")).
    rewrite hs_dd_cons. rewrite IH by assumption. now rewrite orb_false_r.
Qed.

(** the first "__" *)
Lemma find_dd_split : forall x k, find_sub "__" x = Some k ->
  x = take k x ++ "__" ++ drop (k + 2) x /\ has_substring "__" (take k x ++ "_") = false.
Proof.
  induction x as [|c x IH]; intros k; cbn [find_sub].
  - simpl. discriminate.
  - destruct (String.prefix "__" (String c x)) eqn:E.
    + intros [= <-]. split; [|reflexivity]. apply (prefix_split "__" _ E).
    + destruct (find_sub "__" x) as [k'|] eqn:F; simpl option_map; [|discriminate].
      intros [= <-]. destruct (IH k' eq_refl) as [E1 E2].
      change (take (S k') (String c x)) with (String c (take k' x)).
      change (drop (S k' + 2) (String c x)) with (drop (k' + 2) x).
      split; [change (String c x = String c (take k' x ++ "__" ++ drop (k' + 2) x)); f_equal; exact E1|].
      change (String c (take k' x) ++ "_") with (String c (take k' x ++ "_")).
      rewrite hs_dd_cons, E2, orb_false_r.
      rewrite prefix_dd_cons in E. rewrite <- head_us_dd with (B := drop (k' + 2) x). now rewrite <- E1.
Qed.

Lemma find_sub_pre p s : String.prefix p s = true -> find_sub p s = Some 0.
Proof. destruct s; cbn [find_sub]; intros ->; reflexivity. Qed.

Lemma find_dd_at A B : has_substring "__" (A ++ "_") = false -> find_sub "__" (A ++ "__" ++ B) = Some (String.length A).
Proof.
  induction A as [|c A IH]; [intros _; apply find_sub_pre, (prefix_refl_app "__" B)|].
  change (String c A ++ "_") with (String c (A ++ "_")).
  change (String c A ++ "__" ++ B) with (String c (A ++ "__" ++ B)).
  rewrite hs_dd_cons. intros H. apply orb_false_iff in H as [H1 H2].
  cbn [find_sub]. rewrite prefix_dd_cons, head_us_dd, H1. rewrite IH by exact H2. reflexivity.
Qed.

Lemma split_dd_spec x A B : split_dd x = Some (A, B) -> x = A ++ "__" ++ B /\ has_substring "__" (A ++ "_") = false.
Proof.
  unfold split_dd. destruct (find_sub "__" x) as [k|] eqn:F; [|discriminate].
  intros [= <- <-]. now apply find_dd_split.
Qed.

Lemma split_dd_at A B : has_substring "__" (A ++ "_") = false -> split_dd (A ++ "__" ++ B) = Some (A, B).
Proof.
  intros H. unfold split_dd. rewrite find_dd_at by exact H.
  rewrite take_app_length, drop_app_length. reflexivity.
Qed.

Lemma split_dd_some x : has_substring "__" x = true -> exists A B, split_dd x = Some (A, B).
Proof. rewrite has_find. unfold split_dd. destruct (find_sub "__" x); [eauto|discriminate]. Qed.

Lemma split_dd_none x : has_substring "__" x = false -> split_dd x = None.
Proof. rewrite has_find. unfold split_dd. destruct (find_sub "__" x); [discriminate|reflexivity]. Qed.

(** A ++ "__" ++ B determines A and B when "__" does not occur in A ++ "_" *)
Lemma dd_split_inj A A' B B' :
  has_substring "__" (A ++ "_") = false -> has_substring "__" (A' ++ "_") = false ->
  A ++ "__" ++ B = A' ++ "__" ++ B' -> A = A' /\ B = B'.
Proof.
  intros H H' E. pose proof (find_dd_at A B H) as F. rewrite E, (find_dd_at A' B' H') in F.
  injection F as F. symmetry in F. destruct (app_eq_length _ _ _ _ E F) as [-> E2].
  split; [reflexivity|]. now injection E2.
Qed.

(* ------------------------------------------------------------------ *)
(** * Codes *)

Lemma cleancode_spec c : cleancode c = true ->
  all_id c = true /\ has_substring "__" c = false /\ head_alpha c = true /\ head_us c = false /\
  has_substring "__" (c ++ "_") = false /\ c <> "".
Proof.
  unfold cleancode. intros H. apply andb_true_iff in H as [H H4]. apply andb_true_iff in H as [H H3].
  apply andb_true_iff in H as [H1 H2]. apply negb_true_iff in H2.
  destruct c as [|a c]; [discriminate|]. unfold is_letter in H3. apply andb_true_iff in H3 as [H3 H5].
  apply negb_true_iff in H5. repeat split; auto; [now apply dd_snoc|discriminate].
Qed.

Lemma cleancode_idstr c : cleancode c = true -> idstr c.
Proof. intros H. destruct (cleancode_spec c H) as (H1 & _ & _ & _ & _ & H6). now split. Qed.

Lemma cleancode_us c : cleancode c = true -> has_substring "__" ("_" ++ c) = false.
Proof.
  intros H. destruct (cleancode_spec c H) as (_ & H2 & _ & H4 & _).
  change ("_" ++ c) with (String "_" c). now rewrite hs_dd_cons, H4, H2.
Qed.

Lemma cleancc_spec cc : cleancc cc = true ->
  all_alnum cc = true /\ all_id cc = true /\ head_alpha cc = true /\ head_us cc = false /\ cc <> "".
Proof.
  unfold cleancc. intros H. apply andb_true_iff in H as [H1 H2].
  destruct cc as [|a cc]; [discriminate|]. unfold is_letter in H2. apply andb_true_iff in H2 as [H2 H3].
  apply negb_true_iff in H3. repeat split; auto; [now apply all_alnum_id|discriminate].
Qed.

(* ------------------------------------------------------------------ *)
(** * Blanks *)

Lemma remove_blank_clean s : clean s = true -> remove_char " "%char s = s.
Proof.
  induction s as [|c s IH]; simpl; [reflexivity|]. intros H. apply andb_true_iff in H as [H1 H2].
  destruct (Ascii.eqb_spec c " "%char) as [->|]; [discriminate|]. now rewrite IH.
Qed.

Lemma lstrip_clean s : clean s = true -> lstrip s = s.
Proof. destruct s as [|c s]; simpl; [reflexivity|]. intros H. apply andb_true_iff in H as [H1 _]. apply negb_true_iff in H1. now rewrite H1. Qed.

Lemma rstrip_clean s : clean s = true -> rstrip s = s.
Proof.
  induction s as [|c s IH]; simpl; [reflexivity|]. intros H. apply andb_true_iff in H as [H1 H2].
  rewrite IH by exact H2. apply negb_true_iff in H1. rewrite H1. now destruct s.
Qed.

Lemma squeeze_clean t : clean t = true -> squeeze t = t.
Proof. intros H. unfold squeeze, strip. rewrite rstrip_clean, lstrip_clean, remove_blank_clean; auto. Qed.

(* ------------------------------------------------------------------ *)
(** * The decidable sufficient condition for [mkc_ok] *)

Lemma mkc_ok_mem cc codes :
  forallb (fun c => negb (String.prefix (cc ++ "_") c)) codes = true -> mkc_ok cc (fun X => mem X codes).
Proof.
  intros H x. destruct (mem (cc ++ "_" ++ x) codes) eqn:E; [|reflexivity].
  apply mem_In in E. rewrite forallb_forall in H. specialize (H _ E).
  rewrite <- append_assoc, prefix_refl_app in H. discriminate.
Qed.

(* ------------------------------------------------------------------ *)
(** * The country-prefix maps *)

Section Prefix.
Variable cc : string.
Variable mkc : string -> bool.
Hypothesis Hcc : cleancc cc = true.
Hypothesis Hmk : mkc_ok cc mkc.

Local Notation FC := (FCp cc).
Local Notation Nm := (Nmp cc mkc).
Local Notation mu := (mup cc mkc).
Local Notation L := (Lp cc mkc).
Local Notation T := (Tp cc mkc).

Lemma cc_alnum : all_alnum cc = true. Proof. apply (cleancc_spec cc Hcc). Qed.
Lemma cc_id : all_id cc = true. Proof. apply (cleancc_spec cc Hcc). Qed.
Lemma cc_head : head_alpha cc = true. Proof. apply (cleancc_spec cc Hcc). Qed.
Lemma cc_us : head_us cc = false. Proof. apply (cleancc_spec cc Hcc). Qed.
Lemma cc_ne : cc <> "". Proof. apply (cleancc_spec cc Hcc). Qed.

(** ** market-local names *)

Lemma Nmp_cases x :
  (Nm x = x /\ (String.prefix "SUP_" x = false \/ exists X, x = "SUP_" ++ X /\ mkc X = true)) \/
  (exists X, x = "SUP_" ++ X /\ mkc X = false /\ Nm x = "SUP_" ++ cc ++ "_" ++ X).
Proof.
  unfold Nmp, strip_pre. destruct (String.prefix "SUP_" x) eqn:E; [|auto].
  apply prefix_split in E. set (X := drop (String.length "SUP_") x) in *.
  destruct (mkc X) eqn:EX; [left|right]; eauto.
Qed.

Lemma Nmp_sup X : Nm ("SUP_" ++ X) = if mkc X then "SUP_" ++ X else "SUP_" ++ FC X.
Proof. unfold Nmp, strip_pre. rewrite (prefix_refl_app "SUP_" X). reflexivity. Qed.

Lemma Nmp_fix x : String.prefix "SUP_" x = false -> Nm x = x.
Proof. intros H. unfold Nmp, strip_pre. now rewrite H. Qed.

Lemma Nmp_inj x y : Nm x = Nm y -> x = y.
Proof.
  intros E.
  destruct (Nmp_cases x) as [[Ex Hx]|(X & -> & HX & Ex)]; destruct (Nmp_cases y) as [[Ey Hy]|(Y & -> & HY & Ey)];
    rewrite Ex, Ey in E.
  - exact E.
  - exfalso. destruct Hx as [Hx|(X & -> & HX)].
    + rewrite E in Hx. now rewrite (prefix_refl_app "SUP_") in Hx.
    + apply app_inv_head in E. subst X. now rewrite Hmk in HX.
  - exfalso. destruct Hy as [Hy|(Y & -> & HY)].
    + rewrite <- E in Hy. now rewrite (prefix_refl_app "SUP_") in Hy.
    + apply app_inv_head in E. subst Y. now rewrite Hmk in HY.
  - apply app_inv_head, app_inv_head, (app_inv_head "_") in E. now subst.
Qed.

Lemma hs_dd_sup X : has_substring "__" ("SUP_" ++ X) = has_substring "__" ("_" ++ X).
Proof. change ("SUP_" ++ X) with ("SUP" ++ "_" ++ X). now apply hs_dd_no_us. Qed.

Lemma hs_dd_cc X : has_substring "__" ("_" ++ cc ++ X) = has_substring "__" X.
Proof.
  change ("_" ++ cc ++ X) with (String "_" (cc ++ X)).
  rewrite hs_dd_cons, (head_us_app cc X cc_ne), cc_us. simpl. apply hs_dd_alnum, cc_alnum.
Qed.

Lemma Nmp_dd x : has_substring "__" (Nm x) = has_substring "__" x.
Proof.
  destruct (Nmp_cases x) as [[Ex _]|(X & -> & _ & Ex)]; rewrite Ex; [reflexivity|].
  now rewrite !hs_dd_sup, hs_dd_cc.
Qed.

Lemma Nmp_all_id x : all_id x = true -> all_id (Nm x) = true.
Proof.
  destruct (Nmp_cases x) as [[Ex _]|(X & -> & _ & Ex)]; rewrite Ex; [auto|].
  intros H. change (all_id X = true) in H. change (all_id (cc ++ "_" ++ X) = true).
  rewrite all_id_app, cc_id. exact H.
Qed.

Lemma Nmp_head x : head_alpha x = true -> head_alpha (Nm x) = true.
Proof. destruct (Nmp_cases x) as [[Ex _]|(X & -> & _ & Ex)]; rewrite Ex; auto. Qed.

(** ** full names *)

Lemma mup_full A B : has_substring "__" (A ++ "_") = false ->
  mu (A ++ "__" ++ B) = FC A ++ "__" ++ (if mkc A then Nm B else B).
Proof. intros H. unfold mup. now rewrite split_dd_at. Qed.

Lemma mup_local x : has_substring "__" x = false -> mu x = x.
Proof. intros H. unfold mup. now rewrite split_dd_none. Qed.

Lemma dd_form x : has_substring "__" x = true ->
  exists A B, x = A ++ "__" ++ B /\ has_substring "__" (A ++ "_") = false.
Proof. intros H. destruct (split_dd_some x H) as (A & B & E). exists A, B. now apply split_dd_spec. Qed.

Lemma mup_has_dd x : has_substring "__" x = true -> has_substring "__" (mu x) = true.
Proof.
  intros H. destruct (dd_form x H) as (A & B & -> & HA). rewrite mup_full by exact HA. apply has_sub_app_mid.
Qed.

Lemma mup_inj x y : has_substring "__" x = true -> has_substring "__" y = true -> mu x = mu y -> x = y.
Proof.
  intros Hx Hy. destruct (dd_form x Hx) as (A & B & -> & HA). destruct (dd_form y Hy) as (A' & B' & -> & HA').
  rewrite !mup_full by assumption. unfold FCp. rewrite !append_assoc. intros E.
  apply app_inv_head in E. change (("_" ++ ?a) ++ ?b) with ("_" ++ a ++ b) in E. apply (app_inv_head "_") in E.
  apply dd_split_inj in E; auto. destruct E as [-> E]. f_equal. f_equal.
  destruct (mkc A'); [now apply Nmp_inj|exact E].
Qed.

Lemma mup_all_id x : all_id x = true -> all_id (mu x) = true.
Proof.
  intros H. destruct (has_substring "__" x) eqn:E; [|now rewrite mup_local].
  destruct (dd_form x E) as (A & B & -> & HA). rewrite mup_full by exact HA.
  rewrite all_id_app in H. apply andb_true_iff in H as [H1 H2]. change (all_id B = true) in H2.
  unfold FCp. rewrite !all_id_app, cc_id, H1. change (all_id "_") with true. change (all_id "__") with true.
  cbn [andb]. destruct (mkc A); [now apply Nmp_all_id|exact H2].
Qed.

Lemma mup_head x : has_substring "__" x = true -> head_alpha (mu x) = true.
Proof.
  intros E. destruct (dd_form x E) as (A & B & -> & HA). rewrite mup_full by exact HA.
  unfold FCp. rewrite append_assoc. apply head_alpha_app, cc_head.
Qed.

(** ** factor names *)

Lemma Lp_local b x : has_substring "__" x = false -> L b x = if b then Nm x else x.
Proof. intros H. unfold Lp. now rewrite H. Qed.

Lemma Lp_full_name b A B : has_substring "__" (A ++ "_") = false ->
  L b (A ++ "__" ++ B) = FC A ++ "__" ++ (if mkc A then Nm B else B).
Proof. intros H. unfold Lp. rewrite has_sub_app_mid. now apply mup_full. Qed.

Lemma Lp_dd b x : has_substring "__" (L b x) = has_substring "__" x.
Proof.
  unfold Lp. destruct (has_substring "__" x) eqn:E; [now apply mup_has_dd|].
  destruct b; [now rewrite Nmp_dd|exact E].
Qed.

Lemma Lp_inj b x y : L b x = L b y -> x = y.
Proof.
  intros E. pose proof (Lp_dd b x) as Dx. pose proof (Lp_dd b y) as Dy. rewrite E in Dx. rewrite Dx in Dy.
  unfold Lp in E. rewrite Dy in E. destruct (has_substring "__" y) eqn:Ey.
  - now apply mup_inj.
  - destruct b; [now apply Nmp_inj|exact E].
Qed.

Lemma Lp_all_id b x : all_id x = true -> all_id (L b x) = true.
Proof.
  intros H. unfold Lp. destruct (has_substring "__" x); [now apply mup_all_id|].
  destruct b; [now apply Nmp_all_id|exact H].
Qed.

Lemma Lp_head b x : head_alpha x = true -> head_alpha (L b x) = true.
Proof.
  intros H. unfold Lp. destruct (has_substring "__" x) eqn:E; [now apply mup_head|].
  destruct b; [now apply Nmp_head|exact H].
Qed.

(** names left alone *)
Lemma Lp_fix b x : has_substring "__" x = false -> String.prefix "SUP_" x = false -> L b x = x.
Proof. intros H1 H2. rewrite Lp_local by exact H1. destruct b; [now apply Nmp_fix|reflexivity]. Qed.

Lemma Lp_plain b x : plain x -> L b x = x.
Proof.
  intros [H1 H2]. apply Lp_fix; [exact H1|].
  destruct (String.prefix "SUP_" x) eqn:E; [|reflexivity]. apply has_sub_pre in E. congruence.
Qed.

Lemma Lp_false x : has_substring "__" x = false -> L false x = x.
Proof. intros H. now rewrite Lp_local. Qed.

Lemma Lp_no_us b x : no_us x = true -> L b x = x.
Proof. intros H. apply Lp_fix; [now apply no_us_no_dd|now apply no_us_no_sup]. Qed.

(** ** opaque texts *)

Lemma Tp_plain b t : plain t -> T b t = t.
Proof. apply tmap_fix_plain. intros x H _ _. now apply Lp_plain. Qed.

Lemma Tp_false t : has_substring "__" t = false -> T false t = t.
Proof. apply tmap_fix_nosub. intros x H _ _. now apply Lp_false. Qed.

Lemma Tp_inj b x y : T b x = T b y -> x = y.
Proof.
  apply tmap_inj.
  - intros z H _. now apply Lp_all_id.
  - intros z _ H. now apply Lp_head.
  - intros u v _ _ _ _. apply Lp_inj.
Qed.

Lemma Tp_clean_eq b t : clean (T b t) = clean t.
Proof. apply clean_tmap. intros z H _. now apply Lp_all_id. Qed.

Lemma Tp_sep b a c r : is_id_char c = false -> T b (a ++ String c r) = T b a ++ String c (T b r).
Proof. apply tmap_sep. Qed.

Lemma Tp_exo b spec : exo_ok spec = true -> T b ("EXOGENOUS" ++ spec) = "EXOGENOUS" ++ T b spec.
Proof.
  unfold exo_ok. intros H. apply andb_true_iff in H as [_ H].
  apply tmap_lead; auto. intros x _ Hx. now apply Lp_no_us.
Qed.

Lemma Tp_token b x : all_id x = true -> head_alpha x = true -> T b x = L b x.
Proof. apply tmap_token. Qed.

(** texts without supply names do not depend on the flag *)
Lemma Tp_flag b t : has_substring "SUP_" t = false -> T b t = T false t.
Proof.
  apply (tmap_ext (fun x => has_substring "SUP_" x = false)).
  - intros a c. apply no_sub_app_l.
  - intros a c. apply no_sub_app_r.
  - intros x H _ _. unfold Lp. destruct (has_substring "__" x); [reflexivity|].
    destruct b; [|reflexivity]. apply Nmp_fix.
    destruct (String.prefix "SUP_" x) eqn:E; [|reflexivity]. apply has_sub_pre in E. congruence.
Qed.

(** ** the sectors *)

Lemma good_p_spec s : good_p cc mkc s = true ->
  fullcode s = code s /\ country s = cc /\ cleancode (code s) = true /\ is_market s = mkc (code s) /\
  (is_market s = true -> hasF s = false) /\
  (forall e, List.In e (excl s) -> has_substring "__" e = false /\ String.prefix "SUP_" e = false).
Proof.
  unfold good_p. intros H. apply andb_true_iff in H as [H H6]. apply andb_true_iff in H as [H H5].
  apply andb_true_iff in H as [H H4]. apply andb_true_iff in H as [H H3]. apply andb_true_iff in H as [H1 H2].
  apply String.eqb_eq in H1, H2. apply eqb_prop in H4. repeat split; auto.
  - intros Hm. rewrite Hm in H5. simpl in H5. now apply negb_true_iff in H5.
  - rewrite forallb_forall in H6. apply H6 in H. apply andb_true_iff in H as [H _]. now apply negb_true_iff in H.
  - rewrite forallb_forall in H6. apply H6 in H. apply andb_true_iff in H as [_ H]. now apply negb_true_iff in H.
Qed.

Lemma good_p_frame s s' : frame s s' -> good_p cc mkc s = true -> good_p cc mkc s' = true.
Proof. intros F H. rewrite F. exact H. Qed.

Lemma pmap_L_full b s n : good_p cc mkc s = true ->
  L b (fullcode s ++ "__" ++ n) = FC (fullcode s) ++ "__" ++ (if is_market s then Nm n else n).
Proof.
  intros H. destruct (good_p_spec s H) as (E1 & _ & Hc & E4 & _). rewrite E1, E4.
  apply Lp_full_name. apply (cleancode_spec _ Hc).
Qed.

Lemma pmap_ok_sec off : emap_ok (pmap cc mkc off) (fun c => mkc c = true) (fun s => good_p cc mkc s = true).
Proof.
  constructor; cbn [pmap e_Nm e_L e_T e_FC e_off].
  - (* Nm_inj *) exact Nmp_inj.
  - (* Nm_fix *) exact Nmp_fix.
  - (* Nm_dd *) exact Nmp_dd.
  - (* Nm_own *) intros c H. now rewrite Nmp_sup, H.
  - (* L_local *) intros b x H. unfold e_N. cbn [pmap e_Nm]. now apply Lp_local.
  - (* L_inj *) exact Lp_inj.
  - (* T_plain *) exact Tp_plain.
  - (* T_false *) exact Tp_false.
  - (* T_inj *) exact Tp_inj.
  - (* T_clean *) intros b t H. now rewrite Tp_clean_eq.
  - (* T_sep *) exact Tp_sep.
  - (* T_exo *) exact Tp_exo.
  - (* G_frame *) exact good_p_frame.
  - (* G_mkt *) intros s H Hm. destruct (good_p_spec s H) as (_ & _ & _ & E4 & _). now rewrite <- E4.
  - (* G_code *) intros s H. apply cleancode_idstr, (good_p_spec s H).
  - (* G_mktF *) intros s H. apply (good_p_spec s H).
  - (* G_cd *) intros s H. apply cleancode_us, (good_p_spec s H).
  - (* G_fcd *) intros s H. destruct (good_p_spec s H) as (E1 & _ & Hc & _). rewrite E1. now apply cleancode_us.
  - (* G_excl *) intros s e H Hin. destruct (good_p_spec s H) as (_ & _ & _ & _ & _ & H6).
    destruct (H6 e Hin) as [H1 H2]. now apply Lp_fix.
  - (* L_full *) intros b s n H. unfold e_N. cbn [pmap e_Nm]. now apply pmap_L_full.
  - (* T_full *) intros b s n H [Hn _]. unfold e_N. cbn [pmap e_Nm]. rewrite <- (pmap_L_full b s n H).
    destruct (good_p_spec s H) as (E1 & _ & Hc & _). destruct (cleancode_spec _ Hc) as (H1 & _ & H3 & _).
    rewrite E1. apply Tp_token.
    + rewrite all_id_app, H1. exact Hn.
    + now apply head_alpha_app.
  - (* Nm_alloc *) intros s H Hm. destruct (good_p_spec s H) as (E1 & _ & _ & E4 & _).
    rewrite Nmp_sup, E1, <- E4, Hm. reflexivity.
  - (* FC_cross *) intros mk s Hk Hs Hne. exfalso. apply Hne.
    destruct (good_p_spec s Hs) as (_ & -> & _). destruct (good_p_spec mk Hk) as (_ & -> & _). reflexivity.
Qed.

End Prefix.

Theorem pmap_ok cc mkc off : cleancc cc = true -> mkc_ok cc mkc ->
  emap_ok (pmap cc mkc off) (fun c => mkc c = true) (fun s => good_p cc mkc s = true).
Proof. intros Hcc Hmk. now apply pmap_ok_sec. Qed.

(* ------------------------------------------------------------------ *)
(** * The identity maps *)

Lemma good_i_spec s : good_i s = true ->
  cleancode (code s) = true /\ has_substring "__" ("_" ++ fullcode s) = false /\
  (is_market s = true -> hasF s = false).
Proof.
  unfold good_i. intros H. apply andb_true_iff in H as [H _]. apply andb_true_iff in H as [H H3].
  apply andb_true_iff in H as [H1 H2]. apply negb_true_iff in H2. repeat split; auto.
  intros Hm. rewrite Hm in H3. simpl in H3. now apply negb_true_iff in H3.
Qed.

Lemma good_i_frame s s' : frame s s' -> good_i s = true -> good_i s' = true.
Proof. intros F H. rewrite F. exact H. Qed.

Theorem idmap_ok off : emap_ok (idmap off) (fun _ => True) (fun s => good_i s = true).
Proof.
  constructor; cbn [idmap e_Nm e_L e_T e_FC e_off]; auto.
  - (* L_local *) intros b x _. unfold e_N. now destruct b.
  - (* G_frame *) exact good_i_frame.
  - (* G_code *) intros s H. apply cleancode_idstr, (good_i_spec s H).
  - (* G_mktF *) intros s H. apply (good_i_spec s H).
  - (* G_cd *) intros s H. apply cleancode_us, (good_i_spec s H).
  - (* G_fcd *) intros s H. apply (good_i_spec s H).
  - (* L_full *) intros b s n _. unfold e_N. now destruct (is_market s).
  - (* T_full *) intros b s n _ _. unfold e_N. now destruct (is_market s).
Qed.

(* ------------------------------------------------------------------ *)
(** * The hypotheses are satisfiable, the laws on concrete strings *)

Example cleancc_ex : cleancc "AA" = true. Proof. reflexivity. Qed.
Example mkc_ok_ex : mkc_ok "AA" (fun X => mem X ["GOOD"; "LAB"]).
Proof. now apply mkc_ok_mem. Qed.
Example pmap_ex :
  map (Tp "AA" (fun X => mem X ["GOOD"; "LAB"]) true) ["SUP_HH+HH__F*2.0"; "GOOD__SUP_HH-(SUP_GOOD)"; "EXOGENOUS[1,2]"; "3SUP_X"]
  = ["SUP_AA_HH+AA_HH__F*2.0"; "AA_GOOD__SUP_AA_HH-(SUP_GOOD)"; "EXOGENOUS[1,2]"; "3SUP_X"].
Proof. reflexivity. Qed.

(** without [mkc_ok] the local names of a market collide *)
Example Nmp_collision_without_mkc_ok :
  let mkc := fun X => mem X ["AA_HH"] in
  Nmp "AA" mkc "SUP_HH" = Nmp "AA" mkc "SUP_AA_HH" /\ "SUP_HH" <> "SUP_AA_HH".
Proof. split; [reflexivity|discriminate]. Qed.
