(** Embedding of single-currency economies into one multi-currency model: definitions.

    An [emap] describes what happens to ONE economy when it is declared inside a larger model:
      - creation indices (sector IDs) are shifted by [e_off];
      - full codes are mapped by [e_FC]   (identity, or  code |-> <country>_<code>  when the economy
        is a single country and the joint model has several);
      - local variable names of a MARKET sector are mapped by [e_Nm]  (a goods market keeps the
        amount allocated to supplier S in the variable  SUP_<full code of S>, so that name follows
        the full code of S);
      - factor names of parsed terms by [e_L] (local names as above, full names FULL__local by
        mapping both halves), opaque expression texts by [e_T] (every identifier in them by [e_L]).
    The boolean argument of [e_L] / [e_T] says whether the owning sector is a market. *)
From Coq Require Import List String Ascii Bool ZArith Arith.
From SFC.Base Require Import Res Str Sorting.
From SFC.Gen Require Import Fx Zone.
From SFC.GenMarket Require Import Market.
From SFC.GenMain2 Require Import Program Classes Main Program2 Main2.
Import ListNotations.
Local Open Scope string_scope.

Record emap := mkEmap {
  e_off : nat;
  e_Nm : string -> string;
  e_L : bool -> string -> string;
  e_T : bool -> string -> string;
  e_FC : string -> string
}.

Definition e_N (M : emap) (b : bool) (n : string) : string := if b then e_Nm M n else n.

Definition emb_term (M : emap) (b : bool) (t : term) : term := (fst t, map (e_L M b) (snd t)).
Definition emb_eqn (M : emap) (b : bool) (e : eqn) : eqn := mkEqn (e_T M b (blob e)) (map (emb_term M b) (terms e)).
Definition emb_var (M : emap) (b : bool) (ke : string * eqn) : string * eqn := (e_N M b (fst ke), emb_eqn M b (snd ke)).
Definition emb_vars (M : emap) (b : bool) (vs : list (string * eqn)) : list (string * eqn) := map (emb_var M b) vs.

(** the sector as it exists in the joint model; [fc] = what happens to the full code ("" before
    Model._GenerateFullSectorCodes has run: then [fc] is the identity) *)
Definition emb_with (fc : string -> string) (M : emap) (s : sector) : sector :=
  mkSector (sid s + e_off M) (code s) (country s) (fc (fullcode s)) (hasF s) (taxable s) (is_market s) (excl s)
           (emb_vars M (is_market s) (vars s)).
Definition emb (M : emap) : sector -> sector := emb_with (e_FC M) M.
Definition emb0 (M : emap) : sector -> sector := emb_with (fun x => x) M.

(* ------------------------------------------------------------------ *)
(** * Token maps on expression texts *)

(** the identifier-shaped pieces of a text: maximal runs of letters, digits and '_' ; a run that
    starts with a letter or '_' is mapped by [f], everything else is copied *)
Definition emit (f : string -> string) (acc : string) : string :=
  match acc with
  | EmptyString => EmptyString
  | String c _ => if is_alpha c then f acc else acc
  end.

Fixpoint tmap_go (f : string -> string) (acc : string) (s : string) : string :=
  match s with
  | EmptyString => emit f acc
  | String c r => if is_id_char c then tmap_go f (snoc acc c) r
                  else emit f acc ++ String c (tmap_go f EmptyString r)
  end.
Definition tmap (f : string -> string) (s : string) : string := tmap_go f EmptyString s.

(* ------------------------------------------------------------------ *)
(** * The country-prefix maps *)

Definition strip_pre (p s : string) : option string :=
  if String.prefix p s then Some (drop (String.length p) s) else None.

Section Prefix.
Variable cc : string.                 (* the country code *)
Variable mkc : string -> bool.        (* is this the code of a market of the economy? *)

Definition FCp (x : string) : string := cc ++ "_" ++ x.

(** local names of a market: SUP_<code of a non-market sector> is an allocation variable *)
Definition Nmp (n : string) : string :=
  match strip_pre "SUP_" n with
  | Some X => if mkc X then n else "SUP_" ++ FCp X
  | None => n
  end.

Definition split_dd (x : string) : option (string * string) :=
  match find_sub "__" x with
  | Some k => Some (take k x, drop (k + 2) x)
  | None => None
  end.

(** full names  <code>__<local name> *)
Definition mup (x : string) : string :=
  match split_dd x with
  | Some (A, B) => FCp A ++ "__" ++ (if mkc A then Nmp B else B)
  | None => x
  end.

Definition Lp (b : bool) (x : string) : string :=
  if has_substring "__" x then mup x else if b then Nmp x else x.
Definition Tp (b : bool) (t : string) : string := tmap (Lp b) t.

Definition pmap (off : nat) : emap := mkEmap off Nmp Lp Tp FCp.
End Prefix.

Definition idmap (off : nat) : emap := mkEmap off (fun x => x) (fun _ x => x) (fun _ x => x) (fun x => x).

(* ------------------------------------------------------------------ *)
(** * Programs *)

Definition cls_is_market (k : cls) : bool :=
  match k with CMarket | CMoneyMarket _ | CDepositMarket _ => true | _ => false end.

Definition sec_is_market (p : program) (s : nat) : bool :=
  match nth_error (sector_decls p) s with Some (_, _, k) => cls_is_market k | None => false end.

Definition market_codes (p : program) : list string :=
  map (fun x => snd (fst x)) (filter (fun x => cls_is_market (snd x)) (sector_decls p)).

Definition shift_cls (off : nat) (k : cls) : cls :=
  match k with
  | CCentralBank t => CCentralBank (option_map (fun x => x + off) t)
  | CBusinessMulti mz w l ms => CBusinessMulti mz w l (map (fun x => x + off) ms)
  | k => k
  end.

(** what AddSupplier recorded, registered cash flows, exogenous declarations, initial conditions *)
Definition shift_others (M : emap) (others : list (nat * string)) : list (nat * string) :=
  map (fun o => (fst o + e_off M, e_T M true (snd o))) others.
Definition shift_supinfo (M : emap) (x : supinfo) : supinfo :=
  (option_map (fun r => r + e_off M) (fst x), shift_others M (snd x)).
Definition shift_flow (M : emap) (ism : nat -> bool) (f : flow) : flow :=
  let '(src, tgt, var, a, b) := f in (src + e_off M, option_map (fun t => t + e_off M) tgt, e_N M (ism src) var, a, b).
Definition shift_exo (M : emap) (ism : nat -> bool) (x : nat * string * string) : nat * string * string :=
  let '(s, n, spec) := x in (s + e_off M, e_N M (ism s) n, e_T M (ism s) spec).
Definition shift_ic (M : emap) (ism : nat -> bool) (x : nat * string * string) : nat * string * string :=
  let '(s, n, v) := x in (s + e_off M, e_N M (ism s) n, v).

Definition emb_uop (M : emap) (ism : nat -> bool) (o : uop) : uop :=
  let off := e_off M in
  match o with
  | OAddVariable s n t => OAddVariable (s + off) (e_N M (ism s) n) (e_T M (ism s) t)
  | OSetExogenous s n spec => OSetExogenous (s + off) (e_N M (ism s) n) (e_T M (ism s) spec)
  | ORegisterCashFlow a b v x y => ORegisterCashFlow (a + off) (b + off) (e_N M (ism a) v) x y
  | OAddSupplier m s t => OAddSupplier (m + off) (s + off) (option_map (e_T M (ism m)) t)
  | OAssetWeighting s ws res => OAssetWeighting (s + off) (map (fun cw => (fst cw, e_T M (ism s) (snd cw))) ws) res
  | OAddInitialCondition s n v => OAddInitialCondition (s + off) (e_N M (ism s) n) v
  | OSetTreasury a b => OSetTreasury (a + off) (b + off)
  end.

(** the steps of one economy inside the joint program: its first country is a Country with its own
    currency (its code), the following ones are Regions on the model's default currency *)
Fixpoint tr_steps (M : emap) (coff : nat) (ism : nat -> bool) (seen : bool) (p : program) : program2 :=
  match p with
  | [] => []
  | StCountry c :: r => S2Country c None seen :: tr_steps M coff ism true r
  | StSector ci c k :: r => S2Sector (ci + coff) c (COld (shift_cls (e_off M) k)) :: tr_steps M coff ism seen r
  | StOp o :: r => S2Op (UOld (emb_uop M ism o)) :: tr_steps M coff ism seen r
  end.

