(** The joint program of several economies and the shape of its final system: definitions. *)
From Coq Require Import List String Ascii Bool ZArith Arith.
From SFC.Base Require Import Res Str Sorting.
From SFC.Gen Require Import Fx Zone.
From SFC.GenMarket Require Import Market.
From SFC.GenMain2 Require Import Program Classes Main Program2 Main2.
From SFC.GenEmbed Require Import EmbDefs.
Import ListNotations.
Local Open Scope string_scope.

Definition is_op (x : step) : bool := match x with StOp _ => true | _ => false end.

(** a program = its declaration part (up to the last Country / sector declaration) followed by
    the trailing user operations *)
Fixpoint decl_part (p : program) : program :=
  match p with [] => [] | x :: r => if forallb is_op p then [] else x :: decl_part r end.
Fixpoint ops_part (p : program) : program :=
  match p with [] => [] | x :: r => if forallb is_op p then p else ops_part r end.

Definition ncountries (p : program) : nat := List.length (country_codes p).
Definition nsectors (p : program) : nat := List.length (sector_decls p).

Definition sum_nat (l : list nat) : nat := fold_right Nat.add 0 l.

(** the ExternalSector's block at position [k] among the economies' blocks (at the end when [k] is
    not smaller than their number) *)
Fixpoint insert_at {A} (k : nat) (x : A) (l : list A) : list A :=
  match k, l with
  | 0, _ => x :: l
  | S k', y :: r => y :: insert_at k' x r
  | S _, [] => [x]
  end.

Definition with_ext {A} (ext : option nat) (x : A) (l : list A) : list A :=
  match ext with Some k => insert_at k x l | None => l end.

(** the slots of the joint model in declaration order: [Some p] = an economy, [None] = the ExternalSector *)
Definition slots (ps : list program) (ext : option nat) : list (option program) := with_ext ext None (map Some ps).

Definition joint_multi (ps : list program) (ext : option nat) : bool :=
  Nat.ltb 1 (sum_nat (map ncountries ps) + match ext with Some _ => 1 | None => 0 end).

Definition first_code (p : program) : string := hd "" (country_codes p).

(** full codes gain the country prefix iff the joint model has several countries ([g]) and the
    stand-alone economy had exactly one *)
Definition gains_prefix (g : bool) (p : program) : bool := Nat.eqb (ncountries p) 1 && g.

(** the embedding of economy [p] whose first sector gets creation index [soff] *)
Definition emap_at (g : bool) (soff : nat) (p : program) : emap :=
  if gains_prefix g p then pmap (first_code p) (fun X => mem X (market_codes p)) soff else idmap soff.

Definition tr_decls (g : bool) (coff soff : nat) (p : program) : program2 :=
  tr_steps (emap_at g soff p) coff (sec_is_market p) false (decl_part p).
Definition tr_ops (g : bool) (coff soff : nat) (p : program) : program2 :=
  tr_steps (emap_at g soff p) coff (sec_is_market p) true (ops_part p).

(** declarations of the slots one after the other; [coff] / [soff] = countries / sectors created so far *)
Fixpoint decls_from (g : bool) (coff soff : nat) (sl : list (option program)) : program2 :=
  match sl with
  | [] => []
  | None :: r => S2External :: decls_from g (S coff) (3 + soff) r
  | Some p :: r => (tr_decls g coff soff p ++ decls_from g (ncountries p + coff) (nsectors p + soff) r)%list
  end.

Fixpoint ops_from (g : bool) (coff soff : nat) (sl : list (option program)) : program2 :=
  match sl with
  | [] => []
  | None :: r => ops_from g (S coff) (3 + soff) r
  | Some p :: r => (tr_ops g coff soff p ++ ops_from g (ncountries p + coff) (nsectors p + soff) r)%list
  end.

(** THE JOINT PROGRAM: the declarations of the economies one after the other (the ExternalSector,
    if any, created before economy [k], or after the last one), then the trailing user operations
    of the economies *)
Definition joint (ps : list program) (ext : option nat) : program2 :=
  let g := joint_multi ps ext in
  (decls_from g 0 0 (slots ps ext) ++ ops_from g 0 0 (slots ps ext))%list.

(* ------------------------------------------------------------------ *)
(** * Final systems *)

Definition map_kind (f : string -> string) (k : kind) : kind :=
  match k with KDef t => KDef (f t) | KLag s => KLag (f s) | KExo t => KExo (f t) end.

(** the emitted text of a row has every local name replaced by the full name: its identifiers are
    mapped as factor names are *)
Definition emb_row (M : emap) (b : bool) (x : row) : row :=
  mkRow (e_L M b (r_lhs x)) (map_kind (e_T M b) (r_kind x)).

(** rows of one sector back into the order of their names (Sector._CreateFinalEquations sorts) *)
Fixpoint insert_row (x : row) (l : list row) : list row :=
  match l with
  | [] => [x]
  | y :: l' => if String.leb (r_lhs x) (r_lhs y) then x :: l else y :: insert_row x l'
  end.
Fixpoint sort_rows (l : list row) : list row :=
  match l with [] => [] | x :: l' => insert_row x (sort_rows l') end.

Definition emb_rows (M : emap) (E : final_system) : list row :=
  flat_map (fun s => sort_rows (map (emb_row M (is_market s)) (sector_rows s))) (fs_zone E).

Definition emb_ic (M : emap) (nv : string * string) : string * string := (e_L M false (fst nv), snd nv).

(** the ExternalSector's three sectors after construction: XR, FX, GOLD with every currency zone
    registered in order [curs] *)
Definition ext_secs (n : nat) : list sector :=
  [base_sector n "XR" "EXT" false false false []; base_sector (S n) "FX" "EXT" false false false [];
   base_sector (S (S n)) "GOLD" "EXT" false false false []].

Definition ext_zone (multi : bool) (n : nat) (curs : list string) : result zone :=
  do SL <- register_all (mkExt n (S n) (S (S n))) curs (ext_secs n) ;;
  Ok (map (set_fullcode multi) SL).

(** currencies in registration order: those of the economies declared before the ExternalSector,
    its own, then the later ones *)
Definition currencies (ps : list program) (ext : option nat) : list string :=
  with_ext ext "NUMERAIRE" (map first_code ps).
