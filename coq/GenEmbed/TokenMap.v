(** General theory of the token map [tmap f] (EmbDefs.v): the identifier-shaped pieces of a text
    (maximal runs of letters, digits and '_') that start with a letter or '_' are replaced by
    their image under [f]; everything else is copied.

    Contents: string helpers (has_substring / prefix of concatenations), the run/separator
    decomposition of a text, [tmap] at a separator, on a single token, extensionality on the tokens
    of a text, the identity, preservation of [clean], injectivity.
    (Layout follows GenRename/RStr.v, which treats the map on alphanumeric pieces.) *)
From Coq Require Import List String Ascii Bool Arith Lia.
From SFC.Base Require Import Str.
From SFC.GenMain2 Require Import Main.
From SFC.GenEmbed Require Import EmbDefs Laws.
Import ListNotations.
Local Open Scope string_scope.

(* ------------------------------------------------------------------ *)
(** * Strings *)

Lemma snoc_app a c b : snoc a c ++ b = a ++ String c b.
Proof. unfold snoc. now rewrite append_assoc. Qed.

Lemma app_inv_head (a b c : string) : a ++ b = a ++ c -> b = c.
Proof. induction a as [|x a IH]; simpl; intros H; [exact H|]. inversion H. auto. Qed.

Lemma app_eq_length : forall a a' b b' : string,
  a ++ b = a' ++ b' -> String.length a = String.length a' -> a = a' /\ b = b'.
Proof.
  induction a as [|c a IH]; intros [|c' a'] b b' E L; simpl in *; try discriminate; [auto|].
  injection E as -> E. injection L as L. destruct (IH _ _ _ E L) as [-> ->]. auto.
Qed.

Lemma all_id_app a b : all_id (a ++ b) = all_id a && all_id b.
Proof. induction a as [|x a IH]; simpl; [reflexivity|]. rewrite IH. now rewrite andb_assoc. Qed.

Lemma all_id_snoc a c : all_id a = true -> is_id_char c = true -> all_id (snoc a c) = true.
Proof. intros Ha Hc. unfold snoc. rewrite all_id_app, Ha. simpl. now rewrite Hc. Qed.

Lemma all_id_take k : forall x, all_id x = true -> all_id (take k x) = true.
Proof.
  induction k as [|k IH]; intros [|c x]; simpl; auto.
  intros H. apply andb_true_iff in H as [H1 H2]. rewrite H1. simpl. auto.
Qed.

Lemma all_id_drop k : forall x, all_id x = true -> all_id (drop k x) = true.
Proof.
  induction k as [|k IH]; intros [|c x]; simpl; auto.
  intros H. apply andb_true_iff in H as [H1 H2]. auto.
Qed.

Lemma take_app_length a b : take (String.length a) (a ++ b) = a.
Proof. induction a as [|c a IH]; simpl; [now destruct b|now rewrite IH]. Qed.

Lemma drop_app_length a n b : drop (String.length a + n) (a ++ b) = drop n b.
Proof. induction a as [|c a IH]; simpl; [reflexivity|exact IH]. Qed.

Lemma take_drop k : forall x, take k x ++ drop k x = x.
Proof. induction k as [|k IH]; intros [|c x]; simpl; auto. now rewrite IH. Qed.

(** [String.prefix] *)
Lemma prefix_refl_app p s : String.prefix p (p ++ s) = true.
Proof.
  induction p as [|a p IH]; simpl; [destruct s; reflexivity|].
  destruct (Ascii.ascii_dec a a) as [_|N]; [exact IH|contradiction].
Qed.

Lemma prefix_split p : forall s, String.prefix p s = true -> s = p ++ drop (String.length p) s.
Proof.
  induction p as [|a p IH]; intros [|b s]; simpl; try discriminate; auto.
  destruct (Ascii.ascii_dec a b) as [->|]; [|discriminate]. intros H. now rewrite <- (IH s H).
Qed.

Lemma prefix_app_l p : forall a b, String.prefix p a = true -> String.prefix p (a ++ b) = true.
Proof.
  induction p as [|c p IH]; intros [|d a] b; simpl; try discriminate; auto.
  - now destruct b.
  - destruct (Ascii.ascii_dec c d); [apply IH|discriminate].
Qed.

(** [has_substring] of a concatenation *)
Lemma has_sub_pre p s : String.prefix p s = true -> has_substring p s = true.
Proof.
  intros H. destruct s as [|c s].
  - destruct p; [reflexivity|discriminate H].
  - cbn [has_substring]. rewrite H. reflexivity.
Qed.

Lemma has_sub_cons p c s : has_substring p s = true -> has_substring p (String c s) = true.
Proof. intros H. cbn [has_substring]. rewrite H. now destruct (String.prefix p (String c s)). Qed.

Lemma has_sub_app_r p a b : has_substring p b = true -> has_substring p (a ++ b) = true.
Proof. intros H. induction a as [|c a IH]; [exact H|]. simpl. now apply has_sub_cons. Qed.

Lemma has_sub_app_l p a b : has_substring p a = true -> has_substring p (a ++ b) = true.
Proof.
  induction a as [|c a IH]; intros H.
  - destruct p; [|discriminate H]. apply has_sub_pre. now destruct b.
  - cbn [has_substring] in H. destruct (String.prefix p (String c a)) eqn:E.
    + apply has_sub_pre. now apply prefix_app_l.
    + simpl. apply has_sub_cons. now apply IH.
Qed.

Lemma has_sub_app_mid p a b : has_substring p (a ++ p ++ b) = true.
Proof. apply has_sub_app_r, has_sub_pre, prefix_refl_app. Qed.

Lemma no_sub_app_l p a b : has_substring p (a ++ b) = false -> has_substring p a = false.
Proof. intros H. destruct (has_substring p a) eqn:E; [|reflexivity]. now rewrite (has_sub_app_l p a b E) in H. Qed.

Lemma no_sub_app_r p a b : has_substring p (a ++ b) = false -> has_substring p b = false.
Proof. intros H. destruct (has_substring p b) eqn:E; [|reflexivity]. now rewrite (has_sub_app_r p a b E) in H. Qed.

(** [has_substring] and [find_sub] *)
Lemma has_find p : forall x, has_substring p x = match find_sub p x with Some _ => true | None => false end.
Proof.
  induction x as [|c x IH]; cbn [has_substring find_sub].
  - now destruct (String.prefix p "").
  - destruct (String.prefix p (String c x)); [reflexivity|]. rewrite IH. now destruct (find_sub p x).
Qed.

(** [plain] is inherited by the pieces of a text *)
Lemma plain_app_l a b : plain (a ++ b) -> plain a.
Proof. intros [H1 H2]. split; eapply no_sub_app_l; eauto. Qed.
Lemma plain_app_r a b : plain (a ++ b) -> plain b.
Proof. intros [H1 H2]. split; eapply no_sub_app_r; eauto. Qed.

(* ------------------------------------------------------------------ *)
(** * Characters *)

Lemma space_not_id c : is_space c = true -> is_id_char c = false.
Proof.
  destruct c as [b0 b1 b2 b3 b4 b5 b6 b7]. unfold is_space.
  destruct b0, b1, b2, b3, b4, b5, b6, b7; simpl; intros H; try discriminate; reflexivity.
Qed.

Lemma id_not_space c : is_id_char c = true -> is_space c = false.
Proof. intros H. destruct (is_space c) eqn:E; [|reflexivity]. apply space_not_id in E. congruence. Qed.

Lemma alpha_id c : is_alpha c = true -> is_id_char c = true.
Proof. intros H. unfold is_id_char. now rewrite H. Qed.

Lemma clean_app a b : clean (a ++ b) = clean a && clean b.
Proof. induction a as [|x a IH]; simpl; [reflexivity|]. rewrite IH. now rewrite andb_assoc. Qed.

Lemma all_id_clean x : all_id x = true -> clean x = true.
Proof.
  induction x as [|c x IH]; simpl; [reflexivity|]. intros H. apply andb_true_iff in H as [H1 H2].
  rewrite (id_not_space c H1). simpl. now apply IH.
Qed.

(* ------------------------------------------------------------------ *)
(** * Runs and separators *)

(** first character is a letter or '_' : the run is an identifier (mapped), otherwise a number (copied) *)
Definition head_alpha (s : string) : bool :=
  match s with EmptyString => false | String c _ => is_alpha c end.

(** empty, or starts with a character that ends an identifier run *)
Definition sep_start (s : string) : bool :=
  match s with EmptyString => true | String c _ => negb (is_id_char c) end.

Lemma id_split s : exists a r, s = a ++ r /\ all_id a = true /\ sep_start r = true.
Proof.
  induction s as [|c s (a & r & E & Ha & Hr)].
  - exists "", "". auto.
  - destruct (is_id_char c) eqn:Hc.
    + exists (String c a), r. simpl. rewrite Hc, Ha, <- E. auto.
    + exists "", (String c s). simpl. rewrite Hc. auto.
Qed.

(** the decomposition run ++ rest is unique *)
Lemma split_unique : forall u u' r r',
  all_id u = true -> all_id u' = true -> sep_start r = true -> sep_start r' = true ->
  u ++ r = u' ++ r' -> u = u' /\ r = r'.
Proof.
  induction u as [|c u IH]; intros [|c' u'] r r' Hu Hu' Hr Hr' E; simpl in *.
  - auto.
  - exfalso. subst r. simpl in Hr. apply andb_true_iff in Hu' as [H _]. now rewrite H in Hr.
  - exfalso. subst r'. simpl in Hr'. apply andb_true_iff in Hu as [H _]. now rewrite H in Hr'.
  - injection E as -> E. apply andb_true_iff in Hu as [_ Hu]. apply andb_true_iff in Hu' as [_ Hu'].
    destruct (IH _ _ _ Hu Hu' Hr Hr' E) as [-> ->]. auto.
Qed.

Lemma head_alpha_app a b : head_alpha a = true -> head_alpha (a ++ b) = true.
Proof. now destruct a. Qed.

(* ------------------------------------------------------------------ *)
(** * The token map *)

Section Tmap.
Variable f : string -> string.

(** what follows the leading run *)
Definition ttail (r : string) : string :=
  match r with EmptyString => EmptyString | String c r' => String c (tmap f r') end.

Lemma tmap_nil : tmap f "" = "".
Proof. reflexivity. Qed.

Lemma emit_alpha x : head_alpha x = true -> emit f x = f x.
Proof. destruct x as [|c x]; simpl; [discriminate|]. now intros ->. Qed.

Lemma emit_num x : head_alpha x = false -> emit f x = x.
Proof. destruct x as [|c x]; simpl; [reflexivity|]. now intros ->. Qed.

(** (1a) an identifier run is accumulated *)
Lemma tmap_go_run a : forall acc s, all_id a = true -> tmap_go f acc (a ++ s) = tmap_go f (acc ++ a) s.
Proof.
  induction a as [|c a IH]; intros acc s H; simpl in *.
  - now rewrite append_nil_r.
  - apply andb_true_iff in H as [H1 H2]. rewrite H1. rewrite IH by exact H2. unfold snoc. now rewrite append_assoc.
Qed.

(** (1) [tmap] splits at every non-identifier character *)
Lemma tmap_go_sep a : forall acc c r, is_id_char c = false ->
  tmap_go f acc (a ++ String c r) = tmap_go f acc a ++ String c (tmap f r).
Proof.
  induction a as [|x a IH]; intros acc c r H; simpl.
  - now rewrite H.
  - destruct (is_id_char x); [now apply IH|]. rewrite IH by exact H. unfold tmap. now rewrite append_assoc.
Qed.

Lemma tmap_sep a c r : is_id_char c = false -> tmap f (a ++ String c r) = tmap f a ++ String c (tmap f r).
Proof. apply tmap_go_sep. Qed.

Lemma tmap_cons c r : is_id_char c = false -> tmap f (String c r) = String c (tmap f r).
Proof. intros H. apply (tmap_sep "" c r H). Qed.

Lemma tmap_go_ttail acc r : sep_start r = true -> tmap_go f acc r = emit f acc ++ ttail r.
Proof.
  destruct r as [|c r]; simpl; intros H; [now rewrite append_nil_r|].
  apply negb_true_iff in H. now rewrite H.
Qed.

(** run ++ rest *)
Lemma tmap_go_split acc a r : all_id a = true -> sep_start r = true ->
  tmap_go f acc (a ++ r) = emit f (acc ++ a) ++ ttail r.
Proof. intros Ha Hr. rewrite tmap_go_run by exact Ha. now apply tmap_go_ttail. Qed.

Lemma tmap_split a r : all_id a = true -> sep_start r = true -> tmap f (a ++ r) = emit f a ++ ttail r.
Proof. intros Ha Hr. unfold tmap. now rewrite tmap_go_split. Qed.

(** concatenation at a boundary *)
Lemma tmap_app_r a b : sep_start b = true -> tmap f (a ++ b) = tmap f a ++ tmap f b.
Proof.
  destruct b as [|c b]; simpl; intros H.
  - now rewrite !append_nil_r.
  - apply negb_true_iff in H. rewrite tmap_sep by exact H. now rewrite (tmap_cons c b H).
Qed.

(** (4) a text that is a single run *)
Lemma tmap_run a : all_id a = true -> tmap f a = emit f a.
Proof. intros H. rewrite <- (append_nil_r a) at 1. rewrite tmap_split by auto. apply append_nil_r. Qed.

Lemma tmap_token x : all_id x = true -> head_alpha x = true -> tmap f x = f x.
Proof. intros H1 H2. rewrite tmap_run by exact H1. now apply emit_alpha. Qed.

Lemma tmap_token' x : idstr x -> head_alpha x = true -> tmap f x = f x.
Proof. intros [H _]. now apply tmap_token. Qed.

(** a known identifier run glued in front of a text whose leading run is accumulated with it *)
Lemma tmap_glue p a r : all_id p = true -> all_id a = true -> sep_start r = true ->
  tmap f (p ++ a ++ r) = emit f (p ++ a) ++ ttail r.
Proof.
  intros Hp Ha Hr. rewrite <- append_assoc. apply tmap_split; [|exact Hr]. now rewrite all_id_app, Hp, Ha.
Qed.

End Tmap.

(* ------------------------------------------------------------------ *)
(** * (2) Extensionality on the tokens of a text, the identity *)

Lemma tmap_go_id s : forall acc, tmap_go (fun x => x) acc s = acc ++ s.
Proof.
  induction s as [|c s IH]; intros acc; simpl.
  - rewrite append_nil_r. destruct acc as [|a acc]; simpl; [reflexivity|now destruct (is_alpha a)].
  - destruct (is_id_char c).
    + rewrite IH. apply snoc_app.
    + rewrite IH. simpl. destruct acc as [|a acc]; simpl; [reflexivity|now destruct (is_alpha a)].
Qed.

Lemma tmap_id s : tmap (fun x => x) s = s.
Proof. apply (tmap_go_id s ""). Qed.

Section Ext.
(** [Q]: a property of texts inherited by their pieces (e.g. "does not contain p") *)
Variable Q : string -> Prop.
Hypothesis Ql : forall a b, Q (a ++ b) -> Q a.
Hypothesis Qr : forall a b, Q (a ++ b) -> Q b.
Variables f g : string -> string.
Hypothesis Hfg : forall x, Q x -> all_id x = true -> head_alpha x = true -> f x = g x.

Lemma emit_ext x : Q x -> all_id x = true -> emit f x = emit g x.
Proof.
  intros Hq Hx. destruct (head_alpha x) eqn:E.
  - rewrite !emit_alpha by exact E. now apply Hfg.
  - now rewrite !emit_num by exact E.
Qed.

Lemma tmap_go_ext s : forall acc, all_id acc = true -> Q (acc ++ s) -> tmap_go f acc s = tmap_go g acc s.
Proof.
  induction s as [|c s IH]; intros acc Ha Hq; simpl.
  - rewrite append_nil_r in Hq. now apply emit_ext.
  - destruct (is_id_char c) eqn:Hc.
    + apply IH; [now apply all_id_snoc|]. now rewrite snoc_app.
    + rewrite (emit_ext acc) by (eauto using Ql). f_equal. f_equal.
      apply (IH "" eq_refl). simpl. apply Qr in Hq. apply (Qr (String c "") s Hq).
Qed.

Lemma tmap_ext t : Q t -> tmap f t = tmap g t.
Proof. intros H. now apply tmap_go_ext. Qed.
End Ext.

(** [f] fixes every identifier of a text that satisfies [Q] *)
Lemma tmap_fix (Q : string -> Prop) f :
  (forall a b, Q (a ++ b) -> Q a) -> (forall a b, Q (a ++ b) -> Q b) ->
  (forall x, Q x -> all_id x = true -> head_alpha x = true -> f x = x) ->
  forall t, Q t -> tmap f t = t.
Proof.
  intros Ql Qr Hf t Ht. rewrite (tmap_ext Q Ql Qr f (fun x => x) Hf t Ht). apply tmap_id.
Qed.

(** instance: texts without an occurrence of [p] *)
Lemma tmap_fix_nosub p f :
  (forall x, has_substring p x = false -> all_id x = true -> head_alpha x = true -> f x = x) ->
  forall t, has_substring p t = false -> tmap f t = t.
Proof.
  intros Hf. apply (tmap_fix (fun x => has_substring p x = false)); auto.
  - intros a b. apply no_sub_app_l.
  - intros a b. apply no_sub_app_r.
Qed.

Lemma tmap_fix_plain f :
  (forall x, plain x -> all_id x = true -> head_alpha x = true -> f x = x) ->
  forall t, plain t -> tmap f t = t.
Proof. intros Hf. apply (tmap_fix plain); [exact plain_app_l|exact plain_app_r|exact Hf]. Qed.

(* ------------------------------------------------------------------ *)
(** * (5) [clean] *)

Section Clean.
Variable f : string -> string.
Hypothesis Hid : forall x, all_id x = true -> head_alpha x = true -> all_id (f x) = true.

Lemma emit_all_id x : all_id x = true -> all_id (emit f x) = true.
Proof.
  intros Hx. destruct (head_alpha x) eqn:E.
  - rewrite emit_alpha by exact E. now apply Hid.
  - now rewrite emit_num by exact E.
Qed.

Lemma clean_tmap_go s : forall acc, all_id acc = true -> clean (tmap_go f acc s) = clean s.
Proof.
  induction s as [|c s IH]; intros acc Ha; simpl.
  - apply all_id_clean, emit_all_id, Ha.
  - destruct (is_id_char c) eqn:Hc.
    + rewrite IH by (now apply all_id_snoc). now rewrite (id_not_space c Hc).
    + rewrite clean_app. rewrite (all_id_clean (emit f acc)) by (apply emit_all_id, Ha).
      cbn [andb clean]. now rewrite (IH "" eq_refl).
Qed.

Lemma clean_tmap t : clean (tmap f t) = clean t.
Proof. now apply clean_tmap_go. Qed.

(** the image of a text: run ++ rest again *)
Lemma ttail_sep r : sep_start r = true -> sep_start (ttail f r) = true.
Proof. now destruct r. Qed.
End Clean.

(* ------------------------------------------------------------------ *)
(** * (3) Injectivity *)

Section Inj.
Variable f : string -> string.
Hypothesis Hid : forall x, all_id x = true -> head_alpha x = true -> all_id (f x) = true.
Hypothesis Hhd : forall x, all_id x = true -> head_alpha x = true -> head_alpha (f x) = true.
Hypothesis Hinj : forall x y, all_id x = true -> head_alpha x = true -> all_id y = true -> head_alpha y = true ->
  f x = f y -> x = y.

Lemma emit_head x : all_id x = true -> head_alpha (emit f x) = head_alpha x.
Proof.
  intros Hx. destruct (head_alpha x) eqn:E.
  - rewrite emit_alpha by exact E. now apply Hhd.
  - now rewrite emit_num by exact E.
Qed.

Lemma emit_inj x y : all_id x = true -> all_id y = true -> emit f x = emit f y -> x = y.
Proof.
  intros Hx Hy E.
  assert (Hh : head_alpha x = head_alpha y) by (rewrite <- (emit_head x Hx), <- (emit_head y Hy); now rewrite E).
  destruct (head_alpha x) eqn:Ex; symmetry in Hh.
  - rewrite !emit_alpha in E by assumption. now apply Hinj.
  - now rewrite !emit_num in E by assumption.
Qed.

Lemma tmap_inj_len n : forall s t, String.length s <= n -> tmap f s = tmap f t -> s = t.
Proof.
  induction n as [|n IH]; intros s t Hn E.
  - destruct s; [|simpl in Hn; lia].
    destruct (id_split t) as (a & r & -> & Ha & Hr). rewrite (tmap_split f a r Ha Hr) in E.
    change (tmap f "") with "" in E. symmetry in E.
    destruct (emit f a) eqn:Ee; [|discriminate E]. simpl in E.
    destruct r; [|discriminate E].
    assert (a = "") as ->; [|reflexivity].
    apply emit_inj; auto.
  - destruct (id_split s) as (a & r & -> & Ha & Hr). destruct (id_split t) as (a' & r' & -> & Ha' & Hr').
    rewrite (tmap_split f a r Ha Hr), (tmap_split f a' r' Ha' Hr') in E.
    apply split_unique in E; auto using emit_all_id, ttail_sep.
    destruct E as [E1 E2]. apply emit_inj in E1; auto. subst a'. f_equal.
    destruct r as [|c r], r' as [|c' r']; simpl in E2; try discriminate; [reflexivity|].
    injection E2 as -> E2. f_equal. apply IH; [|exact E2].
    rewrite length_append in Hn. simpl in Hn. lia.
Qed.

Theorem tmap_inj s t : tmap f s = tmap f t -> s = t.
Proof. apply (tmap_inj_len (String.length s)). lia. Qed.

Lemma tmap_nil_iff t : tmap f t = "" <-> t = "".
Proof. split; [intros H; now apply tmap_inj|intros ->; reflexivity]. Qed.
End Inj.

(* ------------------------------------------------------------------ *)
(** * Leading runs without '_' (exogenous specifications) *)

Fixpoint no_us (s : string) : bool :=
  match s with EmptyString => true | String c r => negb (Ascii.eqb c "_"%char) && no_us r end.

Lemma lead_plain_split s : lead_plain s = true ->
  exists a r, s = a ++ r /\ all_id a = true /\ no_us a = true /\ sep_start r = true.
Proof.
  induction s as [|c s IH]; simpl.
  - exists "", "". auto.
  - destruct (is_id_char c) eqn:Hc.
    + intros H. apply andb_true_iff in H as [H1 H2]. destruct (IH H2) as (a & r & E & Ha & Hu & Hr).
      exists (String c a), r. simpl. rewrite Hc, Ha, H1, Hu, <- E. auto.
    + intros _. exists "", (String c s). simpl. rewrite Hc. auto.
Qed.

Lemma no_us_app a b : no_us (a ++ b) = no_us a && no_us b.
Proof. induction a as [|x a IH]; simpl; [reflexivity|]. rewrite IH. now rewrite andb_assoc. Qed.

(** a text glued to a word [w] of letters: if [f] fixes every identifier without '_' the word passes through *)
Lemma tmap_lead f w spec :
  (forall x, all_id x = true -> no_us x = true -> f x = x) ->
  all_id w = true -> no_us w = true ->
  lead_plain spec = true -> tmap f (w ++ spec) = w ++ tmap f spec.
Proof.
  intros Hf Hw Hwu Hs. destruct (lead_plain_split spec Hs) as (a & r & -> & Ha & Hu & Hr).
  rewrite tmap_glue, tmap_split by assumption.
  assert (E : forall x, all_id x = true -> no_us x = true -> emit f x = x).
  { intros x H1 H2. destruct x as [|c x]; simpl; [reflexivity|]. destruct (is_alpha c); auto. }
  rewrite !E; auto.
  - now rewrite append_assoc.
  - now rewrite all_id_app, Hw, Ha.
  - now rewrite no_us_app, Hwu, Hu.
Qed.
