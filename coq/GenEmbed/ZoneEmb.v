(** The primitive operations of coq/Gen/Zone.v, GenMarket/Market.v, GenTax/Tax.v and GenAsset/Common.v
    on one sector commute with an embedding map that satisfies [Laws.emap_ok]; zones as object stores
    (find / update by creation index) commute with the shift of creation indices. *)
From Coq Require Import List String Ascii Bool ZArith Arith Lia.
From SFC.Base Require Import Res Str Sorting.
From SFC.Gen Require Import Fx Zone.
From SFC.GenMarket Require Import Market.
From SFC.GenTax Require Import Tax TaxProofs.
From SFC.GenAsset Require Import Common.
From SFC.GenMain2 Require Import Program Classes Main.
From SFC.GenEmbed Require Import EmbDefs Laws.
Import ListNotations.
Local Open Scope string_scope.

Definition rmap {A B} (h : A -> B) (x : result A) : result B :=
  match x with Ok a => Ok (h a) | Err e => Err e end.

Lemma rmap_bind {A B C} (h : B -> C) (r : result A) (k : A -> result B) :
  rmap h (bind r k) = bind r (fun a => rmap h (k a)).
Proof. destruct r; reflexivity. Qed.

Lemma bind_rmap {A B C} (h : A -> B) (r : result A) (k : B -> result C) :
  bind (rmap h r) k = bind r (fun a => k (h a)).
Proof. destruct r; reflexivity. Qed.

Section ZoneEmb.
Variables (M : emap) (mcode : string -> Prop) (G : sector -> Prop).
Hypothesis Hok : emap_ok M mcode G.
Variable fc : string -> string.

Notation E := (emb_with fc M).
Notation N := (e_N M).
Notation L := (e_L M).
Notation T := (e_T M).
Notation off := (e_off M).

(* ------------------------------------------------------------------ *)
(** * Fields *)

Lemma sid_emb s : sid (E s) = sid s + off. Proof. reflexivity. Qed.
Lemma code_emb s : code (E s) = code s. Proof. reflexivity. Qed.
Lemma country_emb s : country (E s) = country s. Proof. reflexivity. Qed.
Lemma fullcode_emb s : fullcode (E s) = fc (fullcode s). Proof. reflexivity. Qed.
Lemma hasF_emb s : hasF (E s) = hasF s. Proof. reflexivity. Qed.
Lemma taxable_emb s : taxable (E s) = taxable s. Proof. reflexivity. Qed.
Lemma is_market_emb s : is_market (E s) = is_market s. Proof. reflexivity. Qed.
Lemma excl_emb s : excl (E s) = excl s. Proof. reflexivity. Qed.
Lemma vars_emb s : vars (E s) = emb_vars M (is_market s) (vars s). Proof. reflexivity. Qed.

Lemma with_vars_emb s vs : with_vars (E s) (emb_vars M (is_market s) vs) = E (with_vars s vs).
Proof. reflexivity. Qed.

Lemma sid_eqb_emb s i : Nat.eqb (sid (E s)) (i + off) = Nat.eqb (sid s) i.
Proof.
  rewrite sid_emb. destruct (Nat.eqb_spec (sid s) i) as [->|Hn]; [apply Nat.eqb_refl|].
  apply Nat.eqb_neq. lia.
Qed.

Lemma sid_eqb_emb2 s t : Nat.eqb (sid (E s)) (sid (E t)) = Nat.eqb (sid s) (sid t).
Proof. rewrite (sid_emb t). apply sid_eqb_emb. Qed.

(* ------------------------------------------------------------------ *)
(** * Names *)

Lemma N_eqb b x y : String.eqb (N b x) (N b y) = String.eqb x y.
Proof.
  destruct (String.eqb_spec x y) as [->|Hn]; [apply String.eqb_refl|].
  apply String.eqb_neq. intros H. apply Hn. exact (N_inj M mcode G Hok b x y H).
Qed.

Lemma L_eqb b x y : String.eqb (L b x) (L b y) = String.eqb x y.
Proof.
  destruct (String.eqb_spec x y) as [->|Hn]; [apply String.eqb_refl|].
  apply String.eqb_neq. intros H. apply Hn. exact (ok_L_inj _ _ _ Hok b x y H).
Qed.

Lemma N_lit b x : String.prefix "SUP_" x = false -> N b x = x.
Proof. apply (N_fix M mcode G Hok). Qed.

Lemma L_lit b x : has_substring "__" x = false -> String.prefix "SUP_" x = false -> L b x = x.
Proof. apply (L_fix M mcode G Hok). Qed.

(* ------------------------------------------------------------------ *)
(** * The association list *)

Lemma lookup_emb b n vs : lookup_var (N b n) (emb_vars M b vs) = option_map (emb_eqn M b) (lookup_var n vs).
Proof.
  induction vs as [|[k e] r IH]; [reflexivity|]. cbn [emb_vars map emb_var fst snd lookup_var].
  rewrite N_eqb. destruct (String.eqb n k); [reflexivity|exact IH].
Qed.

Lemma set_var_emb b n e vs : set_var (N b n) (emb_eqn M b e) (emb_vars M b vs) = emb_vars M b (set_var n e vs).
Proof.
  induction vs as [|[k e'] r IH]; [reflexivity|]. cbn [emb_vars map emb_var fst snd set_var].
  rewrite N_eqb. destruct (String.eqb n k); cbn [map emb_var fst snd]; [reflexivity|].
  f_equal. exact IH.
Qed.

Lemma has_var_emb s n : has_var (E s) (N (is_market s) n) = has_var s n.
Proof. unfold has_var. rewrite vars_emb, lookup_emb. now destruct (lookup_var n (vars s)). Qed.

Lemma lookup_emb_s s n : lookup_var (N (is_market s) n) (vars (E s)) = option_map (emb_eqn M (is_market s)) (lookup_var n (vars s)).
Proof. rewrite vars_emb. apply lookup_emb. Qed.

(** literal names *)
Lemma has_var_lit s n : String.prefix "SUP_" n = false -> has_var (E s) n = has_var s n.
Proof. intros H. rewrite <- (N_lit (is_market s) n H) at 1. apply has_var_emb. Qed.

Lemma lookup_lit s n : String.prefix "SUP_" n = false ->
  lookup_var n (vars (E s)) = option_map (emb_eqn M (is_market s)) (lookup_var n (vars s)).
Proof. intros H. rewrite <- (N_lit (is_market s) n H) at 1. apply lookup_emb_s. Qed.

(* ------------------------------------------------------------------ *)
(** * Zone.v operations *)

Lemma add_variable_emb s n t :
  add_variable (E s) (N (is_market s) n) (T (is_market s) t) = E (add_variable s n t).
Proof.
  unfold add_variable. rewrite vars_emb.
  change (mkEqn (T (is_market s) t) []) with (emb_eqn M (is_market s) (mkEqn t [])).
  rewrite set_var_emb. apply with_vars_emb.
Qed.

Lemma set_rhs_emb s n t :
  set_rhs (E s) (N (is_market s) n) (T (is_market s) t) = option_map E (set_rhs s n t).
Proof.
  unfold set_rhs. rewrite lookup_emb_s. destruct (lookup_var n (vars s)); cbn [option_map]; [|reflexivity].
  f_equal. rewrite vars_emb.
  change (mkEqn (T (is_market s) t) []) with (emb_eqn M (is_market s) (mkEqn t [])).
  rewrite set_var_emb. apply with_vars_emb.
Qed.

Lemma factors_eqb_emb b f g : factors_eqb (map (L b) f) (map (L b) g) = factors_eqb f g.
Proof.
  revert g. induction f as [|x f IH]; intros [|y g]; cbn [map factors_eqb]; try reflexivity.
  now rewrite L_eqb, IH.
Qed.

Lemma add_term_emb b t l :
  add_term (emb_term M b t) (map (emb_term M b) l) = map (emb_term M b) (add_term t l).
Proof.
  induction l as [|[c f] r IH]; [reflexivity|]. cbn [map add_term emb_term fst snd].
  rewrite factors_eqb_emb. destruct (factors_eqb (snd t) f); cbn [map emb_term fst snd]; [reflexivity|].
  f_equal. exact IH.
Qed.

Lemma add_term_to_eq_emb s n t :
  add_term_to_eq (E s) (N (is_market s) n) (emb_term M (is_market s) t) = option_map E (add_term_to_eq s n t).
Proof.
  unfold add_term_to_eq. rewrite lookup_emb_s. destruct (lookup_var n (vars s)) as [e|]; cbn [option_map]; [|reflexivity].
  f_equal. rewrite vars_emb. cbn [emb_eqn blob terms]. rewrite add_term_emb.
  change (mkEqn (T (is_market s) (blob e)) (map (emb_term M (is_market s)) (add_term t (terms e))))
    with (emb_eqn M (is_market s) (mkEqn (blob e) (add_term t (terms e)))).
  rewrite set_var_emb. apply with_vars_emb.
Qed.

Lemma plain_00 : plain "0.0". Proof. split; reflexivity. Qed.
Lemma plain_nil : plain "". Proof. split; reflexivity. Qed.

Lemma T_eqb_nil b t : String.eqb (T b t) "" = String.eqb t "".
Proof.
  destruct (String.eqb_spec t "") as [->|Hn].
  - rewrite (T_nil M mcode G Hok). reflexivity.
  - apply String.eqb_neq. intros H. apply Hn. now apply (T_nil_iff M mcode G Hok b).
Qed.

Lemma T_eqb_lit b t t0 : plain t0 -> String.eqb (T b t) t0 = String.eqb t t0.
Proof.
  intros Hp. destruct (String.eqb_spec t t0) as [->|Hn].
  - rewrite (ok_T_plain _ _ _ Hok b t0 Hp). apply String.eqb_refl.
  - apply String.eqb_neq. intros H. apply Hn. now apply (T_lit M mcode G Hok b t t0 Hp).
Qed.

Lemma renders_empty_emb b e : renders_empty (emb_eqn M b e) = renders_empty e.
Proof.
  unfold renders_empty. cbn [emb_eqn blob terms]. rewrite T_eqb_nil, (T_eqb_lit b _ "0.0" plain_00).
  f_equal. induction (terms e) as [|t r IH]; [reflexivity|]. cbn [map forallb emb_term fst]. now rewrite IH.
Qed.

Lemma mem_excl b x l : (forall e, List.In e l -> L b e = e) -> mem (L b x) l = mem x l.
Proof.
  induction l as [|y l IH]; intros H; [reflexivity|]. cbn [mem].
  rewrite <- (H y (or_introl eq_refl)) at 1. rewrite L_eqb.
  destruct (String.eqb x y); [reflexivity|]. apply IH. intros e He. apply H. now right.
Qed.

Definition excl_fixed (s : sector) : Prop := forall e, List.In e (excl s) -> L (is_market s) e = e.

Lemma excl_fixed_G s : G s -> excl_fixed s.
Proof. intros Hg e He. now apply (ok_G_excl _ _ _ Hok). Qed.

Lemma F_lit b : N b "F" = "F". Proof. now apply N_lit. Qed.
Lemma INC_lit b : N b "INC" = "INC". Proof. now apply N_lit. Qed.

(** AddCashFlow with a single-factor term *)
Lemma add_cash_flow_emb s k x def inc :
  excl_fixed s -> (def = None \/ has_substring "__" x = false) ->
  add_cash_flow (E s) (k, [L (is_market s) x]) (option_map (T (is_market s)) def) inc
  = option_map E (add_cash_flow s (k, [x]) def inc).
Proof.
  intros Hex Hd. unfold add_cash_flow. set (b := is_market s).
  change (k, [L b x]) with (emb_term M b (k, [x])).
  rewrite <- (F_lit b) at 1. fold b. unfold b at 1. rewrite add_term_to_eq_emb. fold b.
  destruct (add_term_to_eq s "F" (k, [x])) as [s1|] eqn:E1; cbn [option_map]; [|reflexivity].
  assert (Hb1 : is_market s1 = b).
  { unfold add_term_to_eq in E1. destruct (lookup_var "F" (vars s)); [|discriminate]. now inversion E1. }
  cbn [emb_term fst snd map String.concat]. rewrite excl_emb.
  rewrite (mem_excl b x (excl s) Hex).
  set (income := inc && negb (mem x (excl s))).
  assert (E2 : (if income then add_term_to_eq (E s1) "INC" (emb_term M b (k, [x])) else Some (E s1))
               = option_map E (if income then add_term_to_eq s1 "INC" (k, [x]) else Some s1)).
  { destruct income; [|reflexivity]. rewrite <- (INC_lit b) at 1. rewrite <- Hb1.
    apply add_term_to_eq_emb. }
  rewrite E2. destruct (if income then add_term_to_eq s1 "INC" (k, [x]) else Some s1) as [s2|] eqn:E3; cbn [option_map]; [|reflexivity].
  assert (Hb2 : is_market s2 = b).
  { destruct income; [|now inversion E3; subst].
    unfold add_term_to_eq in E3. destruct (lookup_var "INC" (vars s1)); [|discriminate]. inversion E3. exact Hb1. }
  destruct def as [d|]; cbn [option_map]; [|reflexivity].
  destruct Hd as [Hd|Hd]; [discriminate|].
  rewrite (ok_L_local _ _ _ Hok b x Hd). rewrite <- Hb2. rewrite lookup_emb_s.
  destruct (lookup_var x (vars s2)) as [e|]; cbn [option_map].
  - rewrite renders_empty_emb. destruct (renders_empty e); [apply set_rhs_emb|reflexivity].
  - f_equal. apply add_variable_emb.
Qed.

(* ------------------------------------------------------------------ *)
(** * Market.v / Tax.v / Common.v helpers on one sector *)

Lemma set_eqn_emb s n e :
  set_eqn (E s) (N (is_market s) n) (emb_eqn M (is_market s) e) = E (set_eqn s n e).
Proof. unfold set_eqn. rewrite vars_emb, set_var_emb. apply with_vars_emb. Qed.

Lemma install_emb s n e :
  install (E s) (N (is_market s) n) (emb_eqn M (is_market s) e) = E (install s n e).
Proof. apply set_eqn_emb. Qed.

Lemma def_variable_emb s n ts :
  def_variable (E s) (N (is_market s) n) (map (emb_term M (is_market s)) ts) = E (def_variable s n ts).
Proof.
  unfold def_variable. rewrite vars_emb.
  change (mkEqn "" (map (emb_term M (is_market s)) ts)) with (mkEqn "" (terms (emb_eqn M (is_market s) (mkEqn "" ts)))).
  replace (mkEqn "" (terms (emb_eqn M (is_market s) (mkEqn "" ts)))) with (emb_eqn M (is_market s) (mkEqn "" ts)).
  - rewrite set_var_emb. apply with_vars_emb.
  - unfold emb_eqn. cbn [blob terms]. now rewrite (T_nil M mcode G Hok).
Qed.

Lemma emb_eqn_nilblob b ts : emb_eqn M b (mkEqn "" ts) = mkEqn "" (map (emb_term M b) ts).
Proof. unfold emb_eqn. cbn [blob terms]. now rewrite (T_nil M mcode G Hok). Qed.

Lemma set_rhs_terms_emb s n ts :
  set_rhs_terms (E s) (N (is_market s) n) (map (emb_term M (is_market s)) ts) = option_map E (set_rhs_terms s n ts).
Proof.
  unfold set_rhs_terms. rewrite lookup_emb_s. destruct (lookup_var n (vars s)); cbn [option_map]; [|reflexivity].
  f_equal. rewrite <- emb_eqn_nilblob. apply set_eqn_emb.
Qed.

Lemma set_struct_emb s n e :
  set_struct (E s) (N (is_market s) n) (emb_eqn M (is_market s) e) = option_map E (set_struct s n e).
Proof.
  unfold set_struct. rewrite lookup_emb_s. destruct (lookup_var n (vars s)); cbn [option_map]; [|reflexivity].
  f_equal. apply install_emb.
Qed.

Lemma frame_is_market s s' : frame s s' -> is_market s' = is_market s.
Proof. unfold frame. intros ->. reflexivity. Qed.

Lemma acf_is_market s t inc s' : add_cash_flow s t None inc = Some s' -> is_market s' = is_market s.
Proof. intros H. apply frame_is_market. eapply acf_none_frame; eauto. Qed.

(** AddCashFlow with a structured definition (Tax.v) *)
Lemma add_cash_flow_struct_emb s k x def inc :
  excl_fixed s -> has_substring "__" x = false ->
  add_cash_flow_struct (E s) (k, [L (is_market s) x]) (emb_eqn M (is_market s) def) inc
  = option_map E (add_cash_flow_struct s (k, [x]) def inc).
Proof.
  intros Hex Hx. unfold add_cash_flow_struct.
  pose proof (add_cash_flow_emb s k x None inc Hex (or_introl eq_refl)) as HA. cbn [option_map] in HA. rewrite HA. clear HA.
  destruct (add_cash_flow s (k, [x]) None inc) as [s2|] eqn:E2; cbn [option_map]; [|reflexivity].
  f_equal. assert (Hb : is_market s2 = is_market s) by (eapply acf_is_market; eauto).
  cbn [snd String.concat]. rewrite (ok_L_local _ _ _ Hok _ x Hx). rewrite <- Hb. rewrite lookup_emb_s.
  destruct (lookup_var x (vars s2)) as [e|]; cbn [option_map].
  - rewrite renders_empty_emb. destruct (renders_empty e); [apply install_emb|reflexivity].
  - apply install_emb.
Qed.

Lemma install_def_emb s n d :
  install_def (E s) (N (is_market s) n) (map (emb_term M (is_market s)) d) = E (install_def s n d).
Proof.
  unfold install_def. rewrite lookup_emb_s. destruct (lookup_var n (vars s)) as [e|]; cbn [option_map].
  - rewrite renders_empty_emb. destruct (renders_empty e); [apply def_variable_emb|reflexivity].
  - apply def_variable_emb.
Qed.

Lemma add_cash_flow_def_emb s k x d inc :
  excl_fixed s -> has_substring "__" x = false ->
  add_cash_flow_def (E s) (k, [L (is_market s) x]) (map (emb_term M (is_market s)) d) inc
  = option_map E (add_cash_flow_def s (k, [x]) d inc).
Proof.
  intros Hex Hx. unfold add_cash_flow_def.
  pose proof (add_cash_flow_emb s k x None inc Hex (or_introl eq_refl)) as HA. cbn [option_map] in HA. rewrite HA. clear HA.
  destruct (add_cash_flow s (k, [x]) None inc) as [s2|] eqn:E2; cbn [option_map]; [|reflexivity].
  f_equal. assert (Hb : is_market s2 = is_market s) by (eapply acf_is_market; eauto).
  cbn [snd String.concat]. rewrite (ok_L_local _ _ _ Hok _ x Hx). rewrite <- Hb. apply install_def_emb.
Qed.

Lemma ensure_var_emb s n : ensure_var (E s) (N (is_market s) n) = E (ensure_var s n).
Proof.
  unfold ensure_var. rewrite has_var_emb. destruct (has_var s n); [reflexivity|].
  rewrite <- (T_nil M mcode G Hok (is_market s)) at 1. apply add_variable_emb.
Qed.

(* ------------------------------------------------------------------ *)
(** * Zones as object stores *)

Lemma find_sec_emb i Z : find_sec (i + off) (map E Z) = option_map E (find_sec i Z).
Proof.
  unfold find_sec. induction Z as [|s r IH]; [reflexivity|]. cbn [map find].
  rewrite sid_eqb_emb. destruct (Nat.eqb (sid s) i); [reflexivity|exact IH].
Qed.

Lemma upd_emb i (f : sector -> result sector) (f' : sector -> result sector) Z :
  (forall s, List.In s Z -> f' (E s) = rmap E (f s)) ->
  upd (i + off) f' (map E Z) = rmap (map E) (upd i f Z).
Proof.
  induction Z as [|s r IH]; intros H; [reflexivity|]. cbn [map upd]. rewrite sid_eqb_emb.
  destruct (Nat.eqb (sid s) i).
  - rewrite (H s (or_introl eq_refl)). destruct (f s); reflexivity.
  - rewrite IH by (intros x Hx; apply H; now right). destruct (upd i f r); reflexivity.
Qed.

Lemma update_where_emb (p p' : sector -> bool) (f f' : sector -> result sector) Z :
  (forall s, List.In s Z -> p' (E s) = p s) ->
  (forall s, List.In s Z -> p s = true -> f' (E s) = rmap E (f s)) ->
  update_where p' f' (map E Z) = rmap (map E) (update_where p f Z).
Proof.
  induction Z as [|s r IH]; intros Hp Hf; [reflexivity|]. cbn [map update_where].
  rewrite (Hp s (or_introl eq_refl)).
  assert (E1 : (if p s then f' (E s) else Ok (E s)) = rmap E (if p s then f s else Ok s)).
  { destruct (p s) eqn:Eps; [|reflexivity]. apply Hf; [now left|exact Eps]. }
  rewrite E1. destruct (if p s then f s else Ok s); cbn [rmap bind]; [|reflexivity].
  rewrite IH; [|intros x Hx; apply Hp; now right|intros x Hx; apply Hf; now right].
  destruct (update_where p f r); reflexivity.
Qed.

Lemma filter_emb (p p' : sector -> bool) Z :
  (forall s, List.In s Z -> p' (E s) = p s) -> filter p' (map E Z) = map E (filter p Z).
Proof.
  induction Z as [|s r IH]; intros H; [reflexivity|]. cbn [map filter].
  rewrite (H s (or_introl eq_refl)). rewrite IH by (intros x Hx; apply H; now right).
  now destruct (p s).
Qed.

Lemma find_emb (p p' : sector -> bool) Z :
  (forall s, List.In s Z -> p' (E s) = p s) -> find p' (map E Z) = option_map E (find p Z).
Proof.
  induction Z as [|s r IH]; intros H; [reflexivity|]. cbn [map find].
  rewrite (H s (or_introl eq_refl)). destruct (p s); [reflexivity|]. apply IH. intros x Hx. apply H. now right.
Qed.

Lemma existsb_emb (p p' : sector -> bool) Z :
  (forall s, List.In s Z -> p' (E s) = p s) -> existsb p' (map E Z) = existsb p Z.
Proof.
  induction Z as [|s r IH]; intros H; [reflexivity|]. cbn [map existsb].
  rewrite (H s (or_introl eq_refl)). f_equal. apply IH. intros x Hx. apply H. now right.
Qed.

Lemma split_sid_emb i Z :
  split_sid (i + off) (map E Z) =
  option_map (fun x => (map E (fst (fst x)), E (snd (fst x)), map E (snd x))) (split_sid i Z).
Proof.
  induction Z as [|s r IH]; [reflexivity|]. cbn [map split_sid]. rewrite sid_eqb_emb.
  destruct (Nat.eqb (sid s) i); [reflexivity|]. rewrite IH.
  destruct (split_sid i r) as [[[pre m] post]|]; reflexivity.
Qed.

Lemma map_sid_emb Z : map sid (map E Z) = map (fun s => sid s + off) Z.
Proof. rewrite map_map. reflexivity. Qed.

End ZoneEmb.
