(** Registered cash flows, exogenous declarations and initial conditions of an embedded economy:
    Main2.flow_step2 / Main.exo_step / Main.ic_rows on the joint zone act on the economy's block as
    the stand-alone steps do. *)
From Coq Require Import List String Ascii Bool ZArith Arith Lia.
From SFC.Base Require Import Res Str Sorting.
From SFC.Gen Require Import Fx Zone.
From SFC.GenMarket Require Import Market.
From SFC.GenTax Require Import Tax TaxProofs.
From SFC.GenAsset Require Import Weighting.
From SFC.GenMain2 Require Import Program Classes Main Ledger MainProofs Names Program2 Main2.
From SFC.GenEmbed Require Import EmbDefs JointDefs Laws ZoneEmb Block ClassEmb GenEmb.
Import ListNotations.
Local Open Scope string_scope.

Lemma squeeze_exo x : clean x = true -> squeeze ("EXOGENOUS " ++ x) = "EXOGENOUS" ++ x.
Proof.
  intros Hc. unfold squeeze, strip. destruct x as [|c r]; [reflexivity|].
  assert (Hr : rstrip (String c r) <> "") by (rewrite rstrip_clean by exact Hc; discriminate).
  rewrite (rstrip_app "EXOGENOUS " (String c r) Hr). rewrite (rstrip_clean (String c r) Hc).
  change (lstrip ("EXOGENOUS " ++ String c r)) with ("EXOGENOUS " ++ String c r).
  rewrite remove_char_app. rewrite (remove_sp_clean (String c r) Hc). reflexivity.
Qed.

Section FlowBlock.
Variables (M : emap) (mcode : string -> Prop) (G : sector -> Prop).
Hypothesis Hok : emap_ok M mcode G.

Notation E := (emb_with (e_FC M) M).
Notation N := (e_N M).
Notation L := (e_L M).
Notation T := (e_T M).
Notation FC := (e_FC M).
Notation off := (e_off M).

Variable ns : nat.
Variable J : ginfo2.
Variable cur : string.
Variable ism : nat -> bool.

Notation bframe := (bframe M G ns J cur).

Definition ism_ok (Zi : zone) : Prop := forall s, List.In s Zi -> ism (sid s) = is_market s.

Lemma ism_ok_frame Zi Zi' : Forall2 frame Zi Zi' -> ism_ok Zi -> ism_ok Zi'.
Proof.
  intros HF H s' Hs'. destruct (Forall2_frame_In_r _ _ HF _ Hs') as (s & H1 & H2).
  rewrite (frame_sid _ _ H2), (ZoneEmb.frame_is_market _ _ H2). now apply H.
Qed.

Lemma upd_block_at pre post Zi i f' f : bframe pre post Zi -> i < ns ->
  (forall s, List.In s Zi -> sid s = i -> f' (E s) = rmap E (f s)) ->
  upd (i + off) f' (pre ++ map E Zi ++ post)%list = rmap (fun B => (pre ++ map E B ++ post)%list) (upd i f Zi).
Proof.
  intros HB Hi Hf.
  rewrite Block.upd_frame; [|intros s Hs; eapply (pre_sid_ne M G ns J cur); eauto|intros s Hs; eapply (post_sid_ne M G ns J cur); eauto].
  rewrite (upd_emb_at M (e_FC M) i f f' Zi Hf). destruct (upd i f Zi); reflexivity.
Qed.

Lemma upd_acf_frame i t inc Z Z' :
  upd i (fun x => opt_key (add_cash_flow x t None inc)) Z = Ok Z' -> Forall2 frame Z Z'.
Proof.
  intros H. eapply MainProofs.upd_frame; [exact H|]. intros s s' Hs. cbn beta in Hs.
  destruct (add_cash_flow s t None inc) eqn:Ea; cbn in Hs; [|discriminate]. inversion Hs. subst. eapply acf_none_frame; eauto.
Qed.

(** booking a full variable name on the sector with creation index [i] of the block *)
Lemma upd_acf_block pre post Zi i k full inc : bframe pre post Zi -> i < ns ->
  forall full', (forall b, L b full = full') ->
  upd (i + off) (fun x => opt_key (add_cash_flow x (k, [full']) None inc)) (pre ++ map E Zi ++ post)%list
  = rmap (fun B => (pre ++ map E B ++ post)%list) (upd i (fun x => opt_key (add_cash_flow x (k, [full]) None inc)) Zi).
Proof.
  intros HB Hi full' HL. apply (upd_block M G ns J cur pre post Zi HB); [exact Hi|].
  intros s Hs. rewrite <- (HL (is_market s)).
  pose proof (add_cash_flow_emb M mcode G Hok (e_FC M) s k full None inc) as HA. cbn [option_map] in HA.
  rewrite HA; [destruct (add_cash_flow s (k, [full]) None inc); reflexivity| |now left].
  apply (excl_fixed_G M mcode G Hok). apply (G_in G Zi); [apply (bf_G _ _ _ _ _ _ _ _ HB)|exact Hs].
Qed.

Theorem flow_step2_block pre post Zi f : bframe pre post Zi -> ism_ok Zi ->
  fst (fst (fst (fst f))) < ns -> (forall tg, snd (fst (fst (fst f))) = Some tg -> tg < ns) ->
  flow_step2 J (pre ++ map E Zi ++ post)%list (shift_flow M ism f)
  = rmap (fun B => (pre ++ map E B ++ post)%list) (flow_step Zi f).
Proof.
  intros HB Hism. destruct f as [[[[src tgt] var] inc_s] inc_t]. cbn [fst snd]. intros Hsrc Htgt.
  unfold flow_step2, flow_step, shift_flow. destruct tgt as [tg|]; cbn [option_map]; [|reflexivity].
  specialize (Htgt tg eq_refl).
  rewrite !(find_block M G ns J cur pre post Zi HB) by assumption.
  destruct (find_sec src Zi) as [s|] eqn:Fs; cbn [option_map]; [|reflexivity].
  destruct (find_sec tg Zi) as [t|] eqn:Ft; cbn [option_map]; [|reflexivity].
  destruct (find_sec_some _ _ _ Fs) as [Hs Hsid]. destruct (find_sec_some _ _ _ Ft) as [Ht _].
  rewrite !(cur_block M G ns J cur pre post Zi HB) by assumption. rewrite String.eqb_refl. cbn [negb andb].
  assert (Hb : ism src = is_market s) by (rewrite <- Hsid; now apply Hism). rewrite Hb, (has_var_emb M mcode G Hok).
  destruct (has_var s var); [|reflexivity].
  assert (Gs : G s) by (apply (G_in G Zi); [apply (bf_G _ _ _ _ _ _ _ _ HB)|exact Hs]).
  assert (HL : forall b, L b (fullcode s ++ "__" ++ var) = fullcode (E s) ++ "__" ++ N (is_market s) var).
  { intros b. now rewrite (ok_L_full _ _ _ Hok b s var Gs). }
  rewrite (upd_acf_block pre post Zi src (-1)%Z (fullcode s ++ "__" ++ var) inc_s HB Hsrc _ HL).
  destruct (upd src _ Zi) as [B1|] eqn:U1; cbn [rmap bind]; [|reflexivity].
  assert (HF : Forall2 frame Zi B1) by (eapply upd_acf_frame; exact U1).
  assert (HB1 : bframe pre post B1).
  { eapply (bframe_frame M mcode G Hok); [exact HB|exact HF|]. eapply (fx_ok_block M G ns J cur); eauto. }
  rewrite (upd_acf_block pre post B1 tg 1%Z (fullcode s ++ "__" ++ var) inc_t HB1 Htgt _ HL).
  reflexivity.
Qed.

Theorem exo_step_block pre post Zi x : bframe pre post Zi -> ism_ok Zi ->
  fst (fst x) < ns -> exo_ok (snd x) = true ->
  exo_step (pre ++ map E Zi ++ post)%list (shift_exo M ism x)
  = rmap (fun B => (pre ++ map E B ++ post)%list) (exo_step Zi x).
Proof.
  intros HB Hism. destruct x as [[s n] spec]. cbn [fst snd]. intros Hs Hspec.
  unfold exo_step, shift_exo. rewrite (find_block M G ns J cur pre post Zi HB s Hs).
  destruct (find_sec s Zi) as [y0|] eqn:Fs; cbn [option_map]; [|reflexivity].
  apply (upd_block_at pre post Zi s _ _ HB Hs).
  intros y Hy Hsy. rewrite <- Hsy, (Hism y Hy).
  unfold exo_ok in Hspec. apply andb_true_iff in Hspec as [Hc Hl].
  rewrite (squeeze_exo spec Hc), (squeeze_exo _ (ok_T_clean _ _ _ Hok (is_market y) spec Hc)).
  rewrite <- (ok_T_exo _ _ _ Hok (is_market y) spec) by (unfold exo_ok; now rewrite Hc, Hl).
  rewrite (set_rhs_emb M mcode G Hok). destruct (set_rhs y n ("EXOGENOUS" ++ spec)); reflexivity.
Qed.

Theorem ic_rows_block pre post Zi l : bframe pre post Zi -> ism_ok Zi ->
  (forall x, List.In x l -> fst (fst x) < ns) ->
  ic_rows (pre ++ map E Zi ++ post)%list (map (shift_ic M ism) l) = rmap (map (emb_ic M)) (ic_rows Zi l).
Proof.
  intros HB Hism. induction l as [|[[s n] v] r IH]; intros Hl; [reflexivity|].
  cbn [map shift_ic ic_rows]. assert (Hs : s < ns) by (apply (Hl (s, n, v)); now left).
  rewrite (find_block M G ns J cur pre post Zi HB s Hs).
  destruct (find_sec s Zi) as [x|] eqn:Fx; cbn [option_map]; [|reflexivity].
  destruct (find_sec_some _ _ _ Fx) as [Hx Hsid].
  assert (Hb : ism s = is_market x) by (rewrite <- Hsid; now apply Hism). rewrite Hb, (has_var_emb M mcode G Hok).
  destruct (has_var x n); [|reflexivity].
  rewrite IH by (intros y Hy; apply Hl; now right).
  destruct (ic_rows Zi r); cbn [bind rmap map]; [|reflexivity].
  f_equal. f_equal. unfold emb_ic. cbn [fst snd]. f_equal.
  assert (Gx : G x) by (apply (G_in G Zi); [apply (bf_G _ _ _ _ _ _ _ _ HB)|exact Hx]).
  now rewrite (ok_L_full _ _ _ Hok false x n Gx).
Qed.

Lemma ic_rows_app Z l1 l2 :
  ic_rows Z (l1 ++ l2)%list = bind (ic_rows Z l1) (fun r1 => bind (ic_rows Z l2) (fun r2 => Ok (r1 ++ r2)%list)).
Proof.
  induction l1 as [|[[s n] v] r IH]; cbn [app ic_rows].
  - destruct (ic_rows Z l2); reflexivity.
  - destruct (find_sec s Z); [|reflexivity]. destruct (has_var _ n); [|reflexivity].
    rewrite IH. destruct (ic_rows Z r); cbn [bind]; [|reflexivity]. destruct (ic_rows Z l2); reflexivity.
Qed.

Definition flow_refs_ok (f : flow) : Prop :=
  fst (fst (fst (fst f))) < ns /\ (forall tg, snd (fst (fst (fst f))) = Some tg -> tg < ns).

Theorem flow_fold_block pre post : forall fs Zi, bframe pre post Zi -> ism_ok Zi ->
  (forall f, List.In f fs -> flow_refs_ok f) ->
  foldM (flow_step2 J) (map (shift_flow M ism) fs) (pre ++ map E Zi ++ post)%list
  = rmap (fun B => (pre ++ map E B ++ post)%list) (foldM flow_step fs Zi).
Proof.
  induction fs as [|f r IH]; intros Zi HB Hism Hr; [reflexivity|]. cbn [map foldM].
  destruct (Hr f (or_introl eq_refl)) as [H1 H2].
  rewrite (flow_step2_block pre post Zi f HB Hism H1 H2).
  destruct (flow_step Zi f) as [Z1|] eqn:Ef; cbn [rmap]; [|reflexivity].
  assert (HF : Forall2 frame Zi Z1) by (eapply zstep_frame; eapply flow_zstep; exact Ef).
  apply IH.
  - eapply (bframe_frame M mcode G Hok); [exact HB|exact HF|]. eapply (fx_ok_block M G ns J cur); eauto.
  - eapply ism_ok_frame; eauto.
  - intros x Hx. apply Hr. now right.
Qed.

Theorem exo_fold_block pre post : forall xs Zi, bframe pre post Zi -> ism_ok Zi ->
  (forall x, List.In x xs -> fst (fst x) < ns /\ exo_ok (snd x) = true) ->
  foldM exo_step (map (shift_exo M ism) xs) (pre ++ map E Zi ++ post)%list
  = rmap (fun B => (pre ++ map E B ++ post)%list) (foldM exo_step xs Zi).
Proof.
  induction xs as [|x r IH]; intros Zi HB Hism Hr; [reflexivity|]. cbn [map foldM].
  destruct (Hr x (or_introl eq_refl)) as [H1 H2].
  rewrite (exo_step_block pre post Zi x HB Hism H1 H2).
  destruct (exo_step Zi x) as [Z1|] eqn:Ef; cbn [rmap]; [|reflexivity].
  assert (HF : Forall2 frame Zi Z1) by (eapply exo_step_frame; exact Ef).
  apply IH.
  - eapply (bframe_frame M mcode G Hok); [exact HB|exact HF|]. eapply (fx_ok_block M G ns J cur); eauto.
  - eapply ism_ok_frame; eauto.
  - intros y Hy. apply Hr. now right.
Qed.

End FlowBlock.
