(** The semantic corollary of the embedding theorem at program level. *)
From Coq Require Import List String Ascii Bool ZArith Arith Lia Reals.
From SFC.Base Require Import Res Str Sorting.
From SFC.Gen Require Import Fx Zone.
From SFC.GenMarket Require Import Market.
From SFC.GenTax Require Import Tax TaxProofs DividendProofs.
From SFC.GenMain2 Require Import Program Classes Main Conflict Ledger MainProofs Names Program2 Main2.
From SFC.GenEmbed Require Import EmbDefs JointDefs Joint Laws Good ZoneEmb Block ClassEmb TokenMap PrefixLaws ConsEmb ConsRun ExtReg
  Items AssembleC AssembleK GenEmb FlowEmb Rounds AssembleM RowsDefs RowsEmb EvalOk Embed Expected Sem.
Import ListNotations.
Local Open Scope string_scope.

(** the economies of the joint model with the maps that embed them *)
Fixpoint views (g : bool) (soff : nat) (sl : list (option (program * final_system))) : list (emap * program * final_system) :=
  match sl with
  | [] => []
  | None :: r => views g (3 + soff) r
  | Some (p, E) :: r => (emap_at g soff p, p, E) :: views g (nsectors p + soff) r
  end.

Definition mkcode (p : program) (X : string) : bool := mem X (market_codes p).

(** the joint history [v vprev bv] as economy [p] (embedded by [M]) sees it *)
Definition view_sat (v vprev : string -> R) (bv : string -> string -> R) (x : emap * program * final_system) : Prop :=
  let '(M, p, E) := x in sat E (pullv M v) (pullp M vprev) (pullb M (mkcode p) bv).

Definition view_facts (g : bool) (p : program) (E : final_system) : Prop :=
  forall so v vp bv, sat_zone (map (emb (emap_at g so p)) (fs_zone E)) v vp bv <-> view_sat v vp bv (emap_at g so p, p, E).

Lemma exp_zone_sat g X v vp bv : forall sl soff,
  (forall p E, List.In (Some (p, E)) sl -> view_facts g p E) ->
  (sat_zone (exp_zone g X soff sl) v vp bv <->
   (n_none (map (option_map fst) sl) <> 0 -> sat_zone X v vp bv) /\ Forall (view_sat v vp bv) (views g soff sl)).
Proof.
  induction sl as [|[[p E]|] r IH]; intros soff HF.
  - cbn. split; [intros _; split; [intros H; now destruct H|constructor]|intros _ s n []].
  - cbn [exp_zone views map option_map n_none]. rewrite sat_zone_app, (IH (nsectors p + soff)) by (intros; apply HF; now right).
    rewrite (HF p E (or_introl eq_refl) soff v vp bv). split.
    + intros (H1 & H2 & H3). split; [exact H2|]. now constructor.
    + intros (H2 & H3). inversion H3; subst. tauto.
  - cbn [exp_zone views map option_map n_none]. rewrite sat_zone_app, (IH (3 + soff)) by (intros; apply HF; now right). split.
    + intros (H1 & H2 & H3). split; [intros _; exact H1|exact H3].
    + intros (H2 & H3). split; [apply H2; discriminate|]. split; [intros _; apply H2; discriminate|exact H3].
Qed.

Lemma final_G g p C E : comp_static p = true -> comp_run_ok g p C -> construct_all p = Ok C -> build p = Ok E ->
  Forall (cG g p) (fs_zone E).
Proof.
  intros Hst Hrun HC HE. pose proof (comp_laws g p 0 Hst) as Hok.
  assert (HF : Forall2 frame (zone0 C) (fs_zone E)).
  { unfold build, build_run in HE. rewrite HC in HE. cbn [bind] in HE. destruct (main_run C) as [R|] eqn:ER; [|discriminate].
    cbn [bind] in HE. inversion HE. subst E. now apply main_run_frame. }
  pose proof (ro_G _ _ _ Hrun) as HG. rewrite Forall_forall in HG |- *. intros s' Hs'.
  destruct (Forall2_frame_In_r _ _ HF s' Hs') as (s & Hs & Hfr). eapply (ok_G_frame _ _ _ Hok); [exact Hfr|now apply HG].
Qed.

Lemma lag_secb_ok cc mk s : lag_secb cc mk s = true ->
  forall n src, has_var s n = true -> row_kind s n = KLag src -> Tp cc mk (is_market s) src = Tp cc mk false src.
Proof.
  unfold lag_secb. intros H n src Hn Hk. destruct (is_market s); [|reflexivity]. cbn [negb orb] in H.
  rewrite forallb_forall in H. unfold has_var in Hn. destruct (lookup_var n (vars s)) as [e|] eqn:El; [|discriminate].
  specialize (H n (in_map fst _ _ (RowsEmb.lookup_In _ _ _ El))). cbn [fst] in H. unfold row_kind in Hk. rewrite Hk in H.
  now apply String.eqb_eq.
Qed.

Lemma view_facts_of g p C E : comp_static p = true -> comp_run_ok g p C -> construct_all p = Ok C -> build p = Ok E ->
  (gains_prefix g p = true -> Forall (fun s => text_ok s = true) (fs_zone E)) ->
  (gains_prefix g p = true -> Forall (fun s => lag_secb (first_code p) (mkcode p) s = true) (fs_zone E)) ->
  view_facts g p E.
Proof.
  intros Hst Hrun HC HE Htx Hlg so v vp bv. pose proof (final_G g p C E Hst Hrun HC HE) as HG.
  pose proof (comp_laws g p so Hst) as Hok. destruct (comp_static_inv p Hst) as (_ & _ & _ & Hcc & Hmk).
  unfold view_sat. rewrite sat_is_zone. unfold Items.iM in Hok.
  revert Hok HG. unfold emap_at, cG, cmcode. destruct (gains_prefix g p) eqn:Eg; intros Hok HG.
  - specialize (Htx eq_refl). specialize (Hlg eq_refl). rewrite Forall_forall in Htx, Hlg, HG.
    eapply (sat_block _ _ _ Hok (mkcode p)).
    + intros b x. apply Lp_dd. exact Hcc.
    + intros b y Hy. cbn [e_L pmap]. unfold Lp. now rewrite Hy.
    + intros s t Hs. destruct (good_p_spec _ _ _ Hs) as (E1 & _ & _ & E4 & _). rewrite E1, E4. reflexivity.
    + apply Forall_forall. exact HG.
    + apply Forall_forall. intros s Hs n Hn. apply var_row_pmap; auto.
    + apply Forall_forall. intros s Hs n src Hn Hk. cbn [e_T pmap]. now apply (lag_secb_ok _ _ s (Hlg s Hs) n src).
  - eapply (sat_block _ _ _ Hok (mkcode p)).
    + reflexivity.
    + reflexivity.
    + reflexivity.
    + exact HG.
    + apply Forall_forall. intros s Hs n Hn. apply var_row_idmap.
    + apply Forall_forall. intros s Hs n src Hn Hk. reflexivity.
Qed.

Lemma slots_with_in : forall sl Es p E, List.In (Some (p, E)) (slots_with sl Es) ->
  Forall2 (fun p E => build p = Ok E) (sl_comps sl) Es -> List.In p (sl_comps sl) /\ build p = Ok E.
Proof.
  induction sl as [|[q|] r IH]; intros Es p E Hin HB; [destruct Hin| |].
  - cbn [sl_comps] in HB. inversion HB as [|? E0 ? Er Hq Hr]; subst. cbn [slots_with] in Hin. destruct Hin as [Hin|Hin].
    + inversion Hin; subst. split; [now left|exact Hq].
    + destruct (IH Er p E Hin Hr). split; [now right|assumption].
  - cbn [slots_with sl_comps] in *. destruct Hin as [Hin|Hin]; [discriminate|]. now apply (IH Es).
Qed.

Lemma slots_with_none : forall sl Es, List.length Es = List.length (sl_comps sl) ->
  n_none (map (option_map fst) (slots_with sl Es)) = n_none sl.
Proof.
  induction sl as [|[q|] r IH]; intros Es HL; [reflexivity| |].
  - destruct Es as [|E Er]; [discriminate|]. cbn [slots_with map option_map n_none sl_comps] in *. apply IH. cbn in HL. lia.
  - cbn [slots_with map option_map n_none sl_comps] in *. f_equal. now apply IH.
Qed.

(** A history satisfies the joint system iff the ExternalSector's own rows hold and, for every
    economy, the history read through that economy's prefix maps satisfies the stand-alone system. *)
Theorem main2_embedding_sat ps ext Es :
  embed_ok ps ext = true -> Forall2 (fun p E => build p = Ok E) ps Es ->
  exists E X, build2 (joint ps ext) = Ok E /\ ext_block ps ext = Ok X /\
    forall v vprev bv,
      sat E v vprev bv <->
      sat_zone X v vprev bv /\
      Forall (view_sat v vprev bv) (views (joint_multi ps ext) 0 (slots_with (slots ps ext) Es)).
Proof.
  intros Hok HB. destruct (main2_embedding ps ext Es Hok HB) as (E & HE & Hexp).
  unfold expected_system in Hexp. destruct (ext_block ps ext) as [X|] eqn:EX; [|discriminate]. cbn [bind] in Hexp.
  inversion Hexp as [HEq]. exists E, X. split; [exact HE|]. split; [reflexivity|]. intros v vp bv.
  rewrite sat_is_zone. rewrite <- HEq at 1. cbn [fs_zone].
  set (g := joint_multi ps ext) in *. set (sl := slots ps ext) in *.
  assert (Ecomps : sl_comps sl = ps) by apply sl_comps_slots.
  pose proof Hok as Hok'. unfold embed_ok in Hok'. cbv zeta in Hok'. fold g in Hok'.
  apply andb_true_iff in Hok' as [Hok' Hev]. repeat (apply andb_true_iff in Hok' as [Hok' ?]).
  assert (Hst : forallb comp_static ps = true) by assumption.
  rewrite exp_zone_sat.
  - rewrite slots_with_none by (rewrite Ecomps; eapply Forall2_len; eauto). unfold sl. rewrite n_none_slots_eq.
    destruct ext as [k|].
    + split; [intros [A1 A2]; split; [now apply A1|exact A2]|intros [A1 A2]; split; [intros _; exact A1|exact A2]].
    + cbn in EX. inversion EX. split; [intros [_ A2]; split; [intros s n []|exact A2]|intros [_ A2]; split; [intros C; now destruct C|exact A2]].
  - intros p E0 Hin. destruct (slots_with_in sl Es p E0 Hin) as [Hp HE0]; [now rewrite Ecomps|]. rewrite Ecomps in Hp.
    rewrite forallb_forall in Hst, Hev. specialize (Hst p Hp). specialize (Hev p Hp).
    pose proof HE0 as HE0'. unfold build, build_run in HE0'. destruct (construct_all p) as [C|] eqn:HC; [|discriminate].
    eapply view_facts_of; eauto.
    + now apply comp_evalb_ok.
    + intros Eg. eapply comp_evalb_text; eauto.
    + intros Eg. eapply comp_evalb_lag; eauto.
Qed.
