(** The laws an embedding map must satisfy for the pipeline to commute with it (interface between
    the string theory of the country-prefix maps and the traversal of the group models).

    [G s] is the static description of a sector the laws rely on (clean code, full code assigned as
    the stand-alone model assigns it, market flag consistent with the code ...); it only depends on
    attributes no step of the pipeline changes ([ok_G_frame]).  [mcode c]: [c] is the code of a
    market of the economy. *)
From Coq Require Import List String Ascii Bool ZArith Arith.
From SFC.Base Require Import Res Str Sorting.
From SFC.Gen Require Import Fx Zone.
From SFC.GenMarket Require Import Market.
From SFC.GenTax Require Import Tax TaxProofs.
From SFC.GenAsset Require Import Weighting.
From SFC.GenMain2 Require Import Program Classes Main.
From SFC.GenEmbed Require Import EmbDefs.
Import ListNotations.
Local Open Scope string_scope.

(** no white space: what Term(text, is_blob=True) stores *)
Fixpoint clean (s : string) : bool :=
  match s with EmptyString => true | String c r => negb (is_space c) && clean r end.

(** a non-empty run of identifier characters *)
Fixpoint all_id (s : string) : bool :=
  match s with EmptyString => true | String c r => is_id_char c && all_id r end.
Definition idstr (s : string) : Prop := all_id s = true /\ s <> "".

(** texts without full names and without market supply names: left alone by every embedding *)
Definition plain (t : string) : Prop := has_substring "__" t = false /\ has_substring "SUP_" t = false.

(** the leading identifier run of an exogenous specification (it is glued to the word EXOGENOUS) has no '_' *)
Fixpoint lead_plain (s : string) : bool :=
  match s with
  | EmptyString => true
  | String c r => if is_id_char c then negb (Ascii.eqb c "_"%char) && lead_plain r else true
  end.
Definition exo_ok (spec : string) : bool := clean spec && lead_plain spec.

Record emap_ok (M : emap) (mcode : string -> Prop) (G : sector -> Prop) : Prop := mkEmapOk {
  (* market-local names *)
  ok_Nm_inj : forall x y, e_Nm M x = e_Nm M y -> x = y;
  ok_Nm_fix : forall x, String.prefix "SUP_" x = false -> e_Nm M x = x;
  ok_Nm_dd : forall x, has_substring "__" (e_Nm M x) = has_substring "__" x;
  ok_Nm_own : forall c, mcode c -> e_Nm M ("SUP_" ++ c) = "SUP_" ++ c;
  (* factor names *)
  ok_L_local : forall b x, has_substring "__" x = false -> e_L M b x = e_N M b x;
  ok_L_inj : forall b x y, e_L M b x = e_L M b y -> x = y;
  (* opaque texts *)
  ok_T_plain : forall b t, plain t -> e_T M b t = t;
  ok_T_false : forall t, has_substring "__" t = false -> e_T M false t = t;
  ok_T_inj : forall b x y, e_T M b x = e_T M b y -> x = y;
  ok_T_clean : forall b t, clean t = true -> clean (e_T M b t) = true;
  ok_T_sep : forall b a c r, is_id_char c = false -> e_T M b (a ++ String c r) = e_T M b a ++ String c (e_T M b r);
  ok_T_exo : forall b spec, exo_ok spec = true -> e_T M b ("EXOGENOUS" ++ spec) = "EXOGENOUS" ++ e_T M b spec;
  (* the sectors of the economy *)
  ok_G_frame : forall s s', frame s s' -> G s -> G s';
  ok_G_mkt : forall s, G s -> is_market s = true -> mcode (code s);
  ok_G_code : forall s, G s -> idstr (code s);
  ok_G_mktF : forall s, G s -> is_market s = true -> hasF s = false;
  ok_G_cd : forall s, G s -> has_substring "__" ("_" ++ code s) = false;
  ok_G_fcd : forall s, G s -> has_substring "__" ("_" ++ fullcode s) = false;
  ok_G_excl : forall s e, G s -> List.In e (excl s) -> e_L M (is_market s) e = e;
  ok_L_full : forall b s n, G s ->
    e_L M b (fullcode s ++ "__" ++ n) = e_FC M (fullcode s) ++ "__" ++ e_N M (is_market s) n;
  ok_T_full : forall b s n, G s -> idstr n ->
    e_T M b (fullcode s ++ "__" ++ n) = e_FC M (fullcode s) ++ "__" ++ e_N M (is_market s) n;
  ok_Nm_alloc : forall s, G s -> is_market s = false -> e_Nm M ("SUP_" ++ fullcode s) = "SUP_" ++ e_FC M (fullcode s);
  ok_FC_cross : forall mk s, G mk -> G s -> country s <> country mk -> e_FC M (fullcode mk) = fullcode mk
}.

(* ------------------------------------------------------------------ *)
(** * Consequences *)

Section Cons.
Variables (M : emap) (mcode : string -> Prop) (G : sector -> Prop).
Hypothesis Hok : emap_ok M mcode G.

Lemma N_inj b x y : e_N M b x = e_N M b y -> x = y.
Proof. destruct b; simpl; [apply (ok_Nm_inj _ _ _ Hok)|auto]. Qed.

Lemma N_fix b x : String.prefix "SUP_" x = false -> e_N M b x = x.
Proof. destruct b; simpl; [apply (ok_Nm_fix _ _ _ Hok)|auto]. Qed.

Lemma N_dd b x : has_substring "__" (e_N M b x) = has_substring "__" x.
Proof. destruct b; simpl; [apply (ok_Nm_dd _ _ _ Hok)|auto]. Qed.

(** a name without "__" that does not start with SUP_ is left alone, as a name and as a factor *)
Lemma L_fix b x : has_substring "__" x = false -> String.prefix "SUP_" x = false -> e_L M b x = x.
Proof. intros H1 H2. rewrite (ok_L_local _ _ _ Hok) by exact H1. now apply N_fix. Qed.

Lemma T_nil b : e_T M b "" = "".
Proof. apply (ok_T_plain _ _ _ Hok). split; reflexivity. Qed.

Lemma T_nil_iff b t : e_T M b t = "" <-> t = "".
Proof.
  split; [|intros ->; apply T_nil]. intros H. apply (ok_T_inj _ _ _ Hok b). now rewrite T_nil.
Qed.

Lemma T_lit b t t0 : plain t0 -> (e_T M b t = t0 <-> t = t0).
Proof.
  intros Hp. split; [|intros ->; now apply (ok_T_plain _ _ _ Hok)].
  intros H. apply (ok_T_inj _ _ _ Hok b). now rewrite (ok_T_plain _ _ _ Hok b t0 Hp).
Qed.

End Cons.
