(** What the joint model's final system must look like (the statement of the embedding theorem as
    computable data), boolean comparisons for the generated cases, and the side condition. *)
From Coq Require Import List String Ascii Bool ZArith Arith.
From SFC.Base Require Import Res Str Sorting.
From SFC.Gen Require Import Fx Zone.
From SFC.GenMarket Require Import Market.
From SFC.GenMain2 Require Import Program Classes Main Conflict Program2 Main2 Conflict2 CaseDefs.
From SFC.GenEmbed Require Import EmbDefs JointDefs.
Import ListNotations.
Local Open Scope string_scope.

(* ------------------------------------------------------------------ *)
(** * Expected final system of the joint program *)

Definition n_ic_ops (p : program) : nat :=
  List.length (filter (fun x => match x with StOp (OAddInitialCondition _ _ _) => true | _ => false end) p).

(** slots paired with the stand-alone final systems of the economies *)
Fixpoint slots_with (sl : list (option program)) (Es : list final_system) : list (option (program * final_system)) :=
  match sl, Es with
  | None :: r, _ => None :: slots_with r Es
  | Some p :: r, E :: Es' => Some (p, E) :: slots_with r Es'
  | _, _ => []
  end.

Definition ic1 (M : emap) (p : program) (E : final_system) : list (string * string) :=
  map (emb_ic M) (firstn (n_ic_ops (decl_part p)) (fs_ic E)).
Definition ic2 (M : emap) (p : program) (E : final_system) : list (string * string) :=
  map (emb_ic M) (skipn (n_ic_ops (decl_part p)) (fs_ic E)).

Section Expected.
Variable g : bool.                      (* does the joint model have several countries? *)
Variable X : zone.                      (* the ExternalSector's block *)

Fixpoint exp_zone (soff : nat) (sl : list (option (program * final_system))) : zone :=
  match sl with
  | [] => []
  | None :: r => (X ++ exp_zone (3 + soff) r)%list
  | Some (p, E) :: r => (map (emb (emap_at g soff p)) (fs_zone E) ++ exp_zone (nsectors p + soff) r)%list
  end.

Fixpoint exp_rows (soff : nat) (sl : list (option (program * final_system))) : list row :=
  match sl with
  | [] => []
  | None :: r => (zone_rows X ++ exp_rows (3 + soff) r)%list
  | Some (p, E) :: r => (emb_rows (emap_at g soff p) E ++ exp_rows (nsectors p + soff) r)%list
  end.

Fixpoint exp_ic (second : bool) (soff : nat) (sl : list (option (program * final_system))) : list (string * string) :=
  match sl with
  | [] => []
  | None :: r => exp_ic second (3 + soff) r
  | Some (p, E) :: r =>
      ((if second then ic2 (emap_at g soff p) p E else ic1 (emap_at g soff p) p E) ++ exp_ic second (nsectors p + soff) r)%list
  end.
End Expected.

(** creation index of the ExternalSector's first sector *)
Definition ext_sid (ps : list program) (k : nat) : nat := sum_nat (map nsectors (firstn k ps)).

Definition ext_block (ps : list program) (ext : option nat) : result zone :=
  match ext with
  | None => Ok []
  | Some k => ext_zone (joint_multi ps ext) (ext_sid ps k) (currencies ps ext)
  end.

Definition expected_system (ps : list program) (ext : option nat) (Es : list final_system) : result final_system :=
  do X <- ext_block ps ext ;;
  let g := joint_multi ps ext in
  let sl := slots_with (slots ps ext) Es in
  Ok (mkFS (exp_zone g X 0 sl) (exp_rows g X 0 sl) (exp_ic g false 0 sl ++ exp_ic g true 0 sl)%list).

(* ------------------------------------------------------------------ *)
(** * Boolean equality of final systems *)

Definition kind_eqb (a b : kind) : bool :=
  match a, b with
  | KDef x, KDef y | KLag x, KLag y | KExo x, KExo y => String.eqb x y
  | _, _ => false
  end.
Definition row_eqb (a b : row) : bool := String.eqb (r_lhs a) (r_lhs b) && kind_eqb (r_kind a) (r_kind b).

Definition fs_eqb (a b : final_system) : bool :=
  zone_eqb (fs_zone a) (fs_zone b) && forallb2 row_eqb (fs_rows a) (fs_rows b) && pairs_eqb (fs_ic a) (fs_ic b).

Fixpoint builds (ps : list program) : result (list final_system) :=
  match ps with
  | [] => Ok []
  | p :: r => do E <- build p ;; do Es <- builds r ;; Ok (E :: Es)
  end.

(** the statement of the embedding theorem, evaluated on concrete programs *)
Definition embed_case (ps : list program) (ext : option nat) : bool :=
  match builds ps with
  | Err _ => true
  | Ok Es =>
      match build2 (joint ps ext), expected_system ps ext Es with
      | Ok E, Ok E' => fs_eqb E E'
      | _, _ => false
      end
  end.

(** 0 = relation holds; 1 = some component fails (nothing claimed); 2 = joint build fails;
    3 = ExternalSector block fails; 4 zones differ; 5 rows differ; 6 initial conditions differ *)
Definition embed_why (ps : list program) (ext : option nat) : nat :=
  match builds ps with
  | Err _ => 1
  | Ok Es =>
      match build2 (joint ps ext), expected_system ps ext Es with
      | Ok E, Ok E' =>
          if negb (zone_eqb (fs_zone E) (fs_zone E')) then 4
          else if negb (forallb2 row_eqb (fs_rows E) (fs_rows E')) then 5
          else if negb (pairs_eqb (fs_ic E) (fs_ic E')) then 6 else 0
      | Err _, _ => 2
      | _, Err _ => 3
      end
  end.

(* ------------------------------------------------------------------ *)
(** * Equality of programs (the joint program of the theorem = the one the user writes) *)

Definition ostr_eqb (a b : option string) : bool :=
  match a, b with Some x, Some y => String.eqb x y | None, None => true | _, _ => false end.
Definition onat_eqb (a b : option nat) : bool :=
  match a, b with Some x, Some y => Nat.eqb x y | None, None => true | _, _ => false end.
Fixpoint nats_eqb (a b : list nat) : bool :=
  match a, b with [], [] => true | x :: a', y :: b' => Nat.eqb x y && nats_eqb a' b' | _, _ => false end.

Definition cls_eqb (a b : cls) : bool :=
  match a, b with
  | CGov, CGov | CTreasury, CTreasury | CMarket, CMarket => true
  | CCentralBank t, CCentralBank u => onat_eqb t u
  | CHousehold a1 a2 a3 a4, CHousehold b1 b2 b3 b4 | CHouseholdExp a1 a2 a3 a4, CHouseholdExp b1 b2 b3 b4 =>
      String.eqb a1 b1 && String.eqb a2 b2 && String.eqb a3 b3 && String.eqb a4 b4
  | CCapitalists a1 a2 a3, CCapitalists b1 b2 b3 => String.eqb a1 b1 && String.eqb a2 b2 && String.eqb a3 b3
  | CBusiness z a1 a2 a3 a4, CBusiness y b1 b2 b3 b4 =>
      Bool.eqb z y && String.eqb a1 b1 && String.eqb a2 b2 && String.eqb a3 b3 && String.eqb a4 b4
  | CBusinessMulti z a1 a2 ms, CBusinessMulti y b1 b2 ns => Bool.eqb z y && String.eqb a1 b1 && String.eqb a2 b2 && nats_eqb ms ns
  | CTaxFlow a1 a2, CTaxFlow b1 b2 => String.eqb a1 b1 && String.eqb a2 b2
  | CMoneyMarket x, CMoneyMarket y | CDepositMarket x, CDepositMarket y => String.eqb x y
  | _, _ => false
  end.

Definition cls2_eqb (a b : cls2) : bool :=
  match a, b with
  | COld x, COld y => cls_eqb x y
  | CGoldGov x, CGoldGov y => String.eqb x y
  | CGoldCB t x, CGoldCB u y => onat_eqb t u && String.eqb x y
  | CXR, CXR | CFX, CFX | CGOLD, CGOLD => true
  | _, _ => false
  end.

Definition uop_eqb (a b : uop) : bool :=
  match a, b with
  | OAddVariable s n t, OAddVariable s' n' t' | OSetExogenous s n t, OSetExogenous s' n' t'
  | OAddInitialCondition s n t, OAddInitialCondition s' n' t' => Nat.eqb s s' && String.eqb n n' && String.eqb t t'
  | ORegisterCashFlow x y v i j, ORegisterCashFlow x' y' v' i' j' =>
      Nat.eqb x x' && Nat.eqb y y' && String.eqb v v' && Bool.eqb i i' && Bool.eqb j j'
  | OAddSupplier m s t, OAddSupplier m' s' t' => Nat.eqb m m' && Nat.eqb s s' && ostr_eqb t t'
  | OAssetWeighting s ws r, OAssetWeighting s' ws' r' => Nat.eqb s s' && pairs_eqb ws ws' && String.eqb r r'
  | OSetTreasury x y, OSetTreasury x' y' => Nat.eqb x x' && Nat.eqb y y'
  | _, _ => false
  end.

Definition step2_eqb (a b : step2) : bool :=
  match a, b with
  | S2Country c cur rg, S2Country c' cur' rg' => String.eqb c c' && ostr_eqb cur cur' && Bool.eqb rg rg'
  | S2External, S2External => true
  | S2Sector ci c k, S2Sector ci' c' k' => Nat.eqb ci ci' && String.eqb c c' && cls2_eqb k k'
  | S2Op (UOld o), S2Op (UOld o') => uop_eqb o o'
  | S2Op (UAddMarket s m), S2Op (UAddMarket s' m') => Nat.eqb s s' && Nat.eqb m m'
  | _, _ => false
  end.

Definition prog2_eqb (a b : program2) : bool := forallb2 step2_eqb a b.

(** [joint] applied to the components is the program the user writes *)
Definition joint_case (ps : list program) (ext : option nat) (q : program2) : bool := prog2_eqb (joint ps ext) q.
