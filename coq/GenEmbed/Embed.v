(** The embedding theorem: the joint program of several economies builds, and its final system is
    block by block the embedding of the economies' stand-alone final systems. *)
From Coq Require Import List String Ascii Bool ZArith Arith Lia.
From SFC.Base Require Import Res Str Sorting.
From SFC.Gen Require Import Fx Zone.
From SFC.GenMarket Require Import Market.
From SFC.GenTax Require Import Tax TaxProofs DividendProofs.
From SFC.GenMain2 Require Import Program Classes Main Ledger MainProofs Names Program2 Main2.
From SFC.GenEmbed Require Import EmbDefs JointDefs Laws Good ZoneEmb Block ClassEmb TokenMap PrefixLaws ConsEmb ConsRun ExtReg
  Items AssembleC AssembleK GenEmb FlowEmb Rounds AssembleM RowsDefs RowsEmb EvalOk.
Import ListNotations.
Local Open Scope string_scope.

(* ------------------------------------------------------------------ *)
(** * The stand-alone pipeline, phase by phase *)

Lemma build_unfold p E : build p = Ok E ->
  exists C gfin Z1,
    construct_all p = Ok C /\
    foldM (gen_step (mkI (c_classes C) (c_sup C))) (calls_i C) (mkG (zone0 C) (c_flows C)) = Ok gfin /\
    foldM flow_step (g_flows gfin) (g_zone gfin) = Ok Z1 /\
    foldM exo_step (c_exo C) Z1 = Ok (fs_zone E) /\
    ic_rows (fs_zone E) (c_ic C) = Ok (fs_ic E) /\
    fs_rows E = zone_rows (fs_zone E) /\ (fs_rows E <> [] \/ fs_ic E <> []).
Proof.
  unfold build, build_run. destruct (construct_all p) as [C|] eqn:HC; [|discriminate]. cbn [bind].
  destruct (main_run C) as [R|] eqn:HR; [|discriminate]. cbn [bind]. intros H. inversion H. subst E. clear H.
  unfold main_run in HR. fold (is_multi C) in HR. fold (zone0 C) in HR. fold (calls_i C) in HR.
  destruct (run_trace (gen_step _) (calls_i C) _) as [[trg gfin]|] eqn:E1; [|discriminate]. cbn [bind fst snd] in HR.
  destruct (run_trace flow_step (g_flows gfin) (g_zone gfin)) as [[trf Z1]|] eqn:E2; [|discriminate]. cbn [bind fst snd] in HR.
  destruct (run_trace exo_step (c_exo C) Z1) as [[trx Zf]|] eqn:E3; [|discriminate]. cbn [bind fst snd] in HR.
  destruct (ic_rows Zf (c_ic C)) as [ics|] eqn:E4; [|discriminate]. cbn [bind] in HR.
  exists C, gfin, Z1. split; [reflexivity|].
  pose proof (run_trace_foldM (gen_step (mkI (c_classes C) (c_sup C))) (calls_i C) (mkG (zone0 C) (c_flows C))) as F1. rewrite E1 in F1.
  pose proof (run_trace_foldM flow_step (g_flows gfin) (g_zone gfin)) as F2. rewrite E2 in F2.
  pose proof (run_trace_foldM exo_step (c_exo C) Z1) as F3. rewrite E3 in F3. cbn [rmap snd] in F1, F2, F3.
  assert (ER : r_final R = mkFS Zf (zone_rows Zf) ics /\ (zone_rows Zf <> [] \/ ics <> [])).
  { destruct (zone_rows Zf) eqn:Ez; [destruct ics eqn:Ei; [discriminate|]|]; inversion HR; cbn; split; try reflexivity; [right|left]; discriminate. }
  destruct ER as [ER Hne]. rewrite ER. cbn [fs_zone fs_rows fs_ic]. repeat split; auto.
Qed.

Lemma construct_split p C : construct_all p = Ok C ->
  exists CD, construct_all (decl_part p) = Ok CD /\ foldM run_step (ops_part p) CD = Ok C.
Proof.
  unfold construct_all. rewrite (decl_ops_split p) at 1. rewrite foldM_app.
  destruct (foldM run_step (decl_part p) c_init) as [CD|]; [|discriminate]. cbn [bind]. intros H. now exists CD.
Qed.

Lemma logs_static : forall q C0 C1, foldM run_step q C0 = Ok C1 ->
  c_flows C1 = (c_flows C0 ++ flat_map step_flows q)%list /\ c_exo C1 = (c_exo C0 ++ flat_map step_exo q)%list /\
  c_ic C1 = (c_ic C0 ++ flat_map step_ic q)%list.
Proof.
  induction q as [|x r IH]; intros C0 C1 H; [inversion H; cbn; now rewrite !app_nil_r|]. cbn [foldM flat_map] in *.
  destruct (run_step C0 x) as [C'|] eqn:E; [|discriminate]. destruct (run_step_logs _ _ _ E) as (L1 & L2 & L3).
  destruct (IH _ _ H) as (G1 & G2 & G3). rewrite G1, G2, G3, L1, L2, L3, <- !app_assoc. now repeat split.
Qed.

(* ------------------------------------------------------------------ *)
(** * Slots *)

Lemma sl_comps_insert k : forall l, sl_comps (insert_at k None l) = sl_comps l.
Proof. induction k as [|k IH]; intros [|[p|] r]; cbn; try reflexivity; now rewrite IH. Qed.

Lemma sl_comps_some ps : sl_comps (map Some ps) = ps.
Proof. induction ps as [|p r IH]; cbn; [reflexivity|now rewrite IH]. Qed.

Lemma sl_comps_slots ps ext : sl_comps (slots ps ext) = ps.
Proof. unfold slots, with_ext. destruct ext as [k|]; [rewrite sl_comps_insert|]; apply sl_comps_some. Qed.

Lemma n_none_some ps : n_none (map Some ps) = 0.
Proof. induction ps; cbn; auto. Qed.

Lemma n_none_insert k : forall l, n_none (insert_at k None l) = S (n_none l).
Proof. induction k as [|k IH]; intros [|[p|] r]; cbn; try reflexivity; now rewrite IH. Qed.

Lemma n_none_slots ps ext : n_none (slots ps ext) <= 1.
Proof. unfold slots, with_ext. destruct ext as [k|]; [rewrite n_none_insert|]; rewrite n_none_some; lia. Qed.

Lemma n_none_slots_eq ps ext : n_none (slots ps ext) = match ext with Some _ => 1 | None => 0 end.
Proof. unfold slots, with_ext. destruct ext as [k|]; [rewrite n_none_insert|]; now rewrite n_none_some. Qed.

Lemma tot_nc_d_items : forall sl Cs coff soff, List.length Cs = List.length (sl_comps sl) ->
  tot_nc (d_items coff soff sl Cs) = sum_nat (map ncountries (sl_comps sl)) + n_none sl /\
  tot_ns (d_items coff soff sl Cs) = sum_nat (map nsectors (sl_comps sl)) + 3 * n_none sl.
Proof.
  induction sl as [|[p|] r IH]; intros Cs coff soff HL; [now destruct Cs| |].
  - destruct Cs as [|C Cr]; [discriminate|]. cbn [d_items sl_comps List.length map] in *.
    destruct (IH Cr (ncountries p + coff) (nsectors p + soff)) as [H1 H2]; [lia|].
    unfold tot_nc, tot_ns in *. cbn [map sum_nat fold_right it_nc it_ns n_none]. fold sum_nat. unfold sum_nat in *. cbn [fold_right]. lia.
  - cbn [d_items sl_comps n_none] in *. destruct (IH Cs (S coff) (3 + soff) HL) as [H1 H2].
    unfold tot_nc, tot_ns in *. cbn [map sum_nat fold_right it_nc it_ns]. unfold sum_nat in *. cbn [fold_right]. lia.
Qed.

Lemma wf_full : forall l c s p co so C, items_wf c s l -> List.In (IComp p co so C) l -> comp_full p C.
Proof.
  induction l as [|[n|q co' so' C'] r IH]; intros c s p co so C Hw Hin; [destruct Hin| |]; cbn [items_wf] in Hw.
  - destruct Hw as [_ Hw]. destruct Hin as [Hin|Hin]; [discriminate|]. eapply IH; eauto.
  - destruct Hw as (_ & _ & HCF & Hw). destruct Hin as [Hin|Hin]; [inversion Hin; now subst|]. eapply IH; eauto.
Qed.

Lemma d_items_comps : forall sl Cs coff soff p co so C, List.In (IComp p co so C) (d_items coff soff sl Cs) ->
  List.In p (sl_comps sl) /\ List.In C Cs.
Proof.
  induction sl as [|[q|] r IH]; intros Cs coff soff p co so C Hin; [destruct Cs; destruct Hin| |].
  - destruct Cs as [|C0 Cr]; [destruct Hin|]. cbn [d_items sl_comps] in *. destruct Hin as [Hin|Hin].
    + inversion Hin. subst. split; now left.
    + destruct (IH _ _ _ _ _ _ _ Hin). split; now right.
  - cbn [d_items sl_comps] in *. destruct Hin as [Hin|Hin]; [discriminate|]. eapply IH; eauto.
Qed.

Lemma sum_ge l x : List.In x l -> x <= sum_nat l.
Proof. unfold sum_nat. induction l as [|a r IH]; intros H; [destruct H|]. cbn. destruct H as [<-|H]; [lia|]. specialize (IH H). lia. Qed.

Lemma flow_frames : forall xs Z Z', foldM flow_step xs Z = Ok Z' -> frames Z Z'.
Proof.
  induction xs as [|x r IH]; intros Z Z' H; [inversion H; apply frames_refl|]. cbn [foldM] in H.
  destruct (flow_step Z x) as [Z1|] eqn:E; [|discriminate]. eapply frames_trans; [|eapply IH; exact H].
  eapply zstep_frame. eapply flow_zstep. exact E.
Qed.

Lemma exo_frames : forall xs Z Z', foldM exo_step xs Z = Ok Z' -> frames Z Z'.
Proof.
  induction xs as [|x r IH]; intros Z Z' H; [inversion H; apply frames_refl|]. cbn [foldM] in H.
  destruct (exo_step Z x) as [Z1|] eqn:E; [|discriminate]. eapply frames_trans; [|eapply IH; exact H].
  eapply exo_step_frame. exact E.
Qed.

Lemma foldM_app_ok {A B} (f : A -> B -> result A) l1 l2 a a' : foldM f (l1 ++ l2)%list a = Ok a' ->
  exists a1, foldM f l1 a = Ok a1 /\ foldM f l2 a1 = Ok a'.
Proof. rewrite foldM_app. destruct (foldM f l1 a) as [a1|]; [|discriminate]. cbn. intros H. now exists a1. Qed.

(* ------------------------------------------------------------------ *)
(** * Model.main() of the joint model *)

Definition bE (p : program) : final_system := match build p with Ok E => E | Err _ => mkFS [] [] [] end.


Lemma nodup_nonempty (l : list string) : l <> [] -> nodup string_dec l <> [].
Proof.
  induction l as [|x r IH]; [congruence|]. intros _. cbn [nodup]. destruct (in_dec string_dec x r) as [Hi|Hi]; [|discriminate].
  apply IH. intros ->. destruct Hi.
Qed.

Lemma keys_nonempty s : keys s <> [] <-> vars s <> [].
Proof.
  unfold keys. split.
  - intros H Hv. rewrite Hv in H. now apply H.
  - intros H. apply nodup_nonempty. destruct (vars s); [congruence|discriminate].
Qed.

Lemma sector_rows_nonempty s : sector_rows s <> [] <-> vars s <> [].
Proof.
  unfold sector_rows. rewrite <- keys_nonempty. split.
  - intros H Hk. rewrite Hk in H. now apply H.
  - intros H Hm. apply H. apply map_eq_nil in Hm. pose proof (sort_length (keys s)) as HL. rewrite Hm in HL. cbn in HL.
    destruct (keys s); [reflexivity|discriminate].
Qed.

Lemma zone_rows_nonempty Z : zone_rows Z <> [] <-> exists s, List.In s Z /\ vars s <> [].
Proof.
  unfold zone_rows. split.
  - induction Z as [|s r IH]; [cbn; congruence|]. cbn [flat_map]. intros H.
    destruct (sector_rows s) eqn:Es.
    + cbn [app] in H. destruct (IH H) as (x & Hx & Hv). exists x. split; [now right|exact Hv].
    + exists s. split; [now left|]. apply sector_rows_nonempty. rewrite Es. discriminate.
  - intros (s & Hs & Hv) Hf. apply sector_rows_nonempty in Hv. apply Hv.
    induction Z as [|x r IH]; [destruct Hs|]. cbn [flat_map] in Hf. apply app_eq_nil in Hf as [H1 H2].
    destruct Hs as [->|Hs]; [exact H1|now apply IH].
Qed.

Lemma rows_nonempty_emb M Z : zone_rows Z <> [] -> zone_rows (map (emb M) Z) <> [].
Proof.
  rewrite !zone_rows_nonempty. intros (s & Hs & Hv). exists (emb M s). split; [now apply in_map|].
  cbn [vars emb emb_with]. unfold emb_vars. destruct (vars s); [congruence|discriminate].
Qed.

Section Final.
Variables (g : bool) (its : list item) (Kf : kstate).
Let curs := curs_of its.
Let J := mkI2 (k_classes Kf) (k_sup Kf) (k_countries Kf) (k_ext Kf).

Hypothesis HD : kdesc g its Kf.
Hypothesis Hwf : items_wf 0 0 its.
Hypothesis Hcs : forallb cleancc curs = true.
Hypothesis Hndc : NoDup (codes_of its).
Hypothesis Hndu : NoDup curs.
Hypothesis Hoks : forall i, List.In i its -> item_ok g i.
Hypothesis Hext1 : AssembleC.n_ext its <= 1.
Hypothesis Hrun : forall p co so C, List.In (IComp p co so C) its -> comp_run_ok g p C.
Hypothesis Hg : g = Nat.ltb 1 (tot_nc its).
Hypothesis Hstd : forall p co so C, List.In (IComp p co so C) its ->
  construct_all p = Ok C /\ exists E, build p = Ok E /\ (gains_prefix g p = true -> Forall (fun s => text_ok s = true) (fs_zone E)).

(** batches of the rounds *)
Definition fb1 (it : item) : list flow := match it with IComp p _ _ _ => flat_map step_flows (decl_part p) | IExt _ => [] end.
Definition fb2 (it : item) : list flow := match it with IComp p _ _ _ => flat_map step_flows (ops_part p) | IExt _ => [] end.
Definition fb3 (it : item) : list flow := match it with IComp _ _ _ C => flat_map gen_flows (calls_i C) | IExt _ => [] end.
Definition xb1 (it : item) : list (nat * string * string) := match it with IComp p _ _ _ => flat_map step_exo (decl_part p) | IExt _ => [] end.
Definition xb2 (it : item) : list (nat * string * string) := match it with IComp p _ _ _ => flat_map step_exo (ops_part p) | IExt _ => [] end.
Definition ib1 (it : item) : list (nat * string * string) := match it with IComp p _ _ _ => flat_map step_ic (decl_part p) | IExt _ => [] end.
Definition ib2 (it : item) : list (nat * string * string) := match it with IComp p _ _ _ => flat_map step_ic (ops_part p) | IExt _ => [] end.

Hypothesis Hflows : k_flows Kf = (List.concat (map (it_batch2 g flow shift_flow fb1) its) ++ List.concat (map (it_batch2 g flow shift_flow fb2) its))%list.
Hypothesis Hexo : k_exo Kf = (List.concat (map (it_batch2 g _ shift_exo xb1) its) ++ List.concat (map (it_batch2 g _ shift_exo xb2) its))%list.
Hypothesis Hic : k_ic Kf = (List.concat (map (it_ic2 g ib1) its) ++ List.concat (map (it_ic2 g ib2) its))%list.

Lemma HJc : j_countries J = countries_of its. Proof. exact (kd_countries _ _ _ HD). Qed.
Lemma HJcl : j_classes J = classes_of its. Proof. exact (kd_classes _ _ _ HD). Qed.
Lemma HJe : j_ext J = ext_of its. Proof. exact (kd_ext _ _ _ HD). Qed.
Lemma HJs : forall p co so C, List.In (IComp p co so C) its -> forall m, m < nsectors p ->
  sup_of (m + so) (j_sup J) = shift_supinfo (iM g p so) (sup_of m (c_sup C)).
Proof. exact (kd_sup _ _ _ HD). Qed.

(** the zone of an item at the end of Model.main() *)
Definition fzone (it : item) : zone := match it with IComp p _ _ _ => fs_zone (bE p) | IExt _ => it_zone0 g curs it end.

(** the stand-alone pipeline of an economy, phase by phase *)
Lemma std_chain p co so C : List.In (IComp p co so C) its ->
  exists gfin z1 z2 z3 z4,
    gen_of g its (IComp p co so C) = Ok gfin /\
    foldM flow_step (fb1 (IComp p co so C)) (g_zone gfin) = Ok z1 /\
    foldM flow_step (fb2 (IComp p co so C)) z1 = Ok z2 /\
    foldM flow_step (fb3 (IComp p co so C)) z2 = Ok z3 /\
    foldM exo_step (xb1 (IComp p co so C)) z3 = Ok z4 /\
    foldM exo_step (xb2 (IComp p co so C)) z4 = Ok (fs_zone (bE p)) /\
    ic_rows (fs_zone (bE p)) (ib1 (IComp p co so C) ++ ib2 (IComp p co so C)) = Ok (fs_ic (bE p)) /\
    fs_rows (bE p) = zone_rows (fs_zone (bE p)) /\ (fs_rows (bE p) <> [] \/ fs_ic (bE p) <> []) /\
    c_flows C = (fb1 (IComp p co so C) ++ fb2 (IComp p co so C))%list /\
    c_exo C = (xb1 (IComp p co so C) ++ xb2 (IComp p co so C))%list /\
    c_ic C = (ib1 (IComp p co so C) ++ ib2 (IComp p co so C))%list.
Proof.
  intros Hin. destruct (Hstd p co so C Hin) as (HC & E & HE & _).
  destruct (build_unfold p E HE) as (C' & gfin & Z1 & HC' & Hgen & Hfl & Hex & Hicr & Hrows & Hne).
  rewrite HC in HC'. inversion HC'. subst C'. unfold bE. rewrite HE.
  destruct (construct_split p C HC) as (CD & HCD & HO).
  destruct (logs_static _ _ _ HCD) as (D1 & D2 & D3). destruct (logs_static _ _ _ HO) as (O1 & O2 & O3).
  cbn [c_init c_flows c_exo c_ic app] in D1, D2, D3. rewrite D1 in O1. rewrite D2 in O2. rewrite D3 in O3.
  rewrite (gen_flows_all _ _ _ _ Hgen) in Hfl. cbn [g_flows] in Hfl. rewrite O1, <- app_assoc in Hfl.
  destruct (foldM_app_ok _ _ _ _ _ Hfl) as (z1 & F1 & Hfl').
  destruct (foldM_app_ok _ _ _ _ _ Hfl') as (z2 & F2 & F3).
  rewrite O2 in Hex. destruct (foldM_app_ok _ _ _ _ _ Hex) as (z4 & X1 & X2).
  exists gfin, z1, z2, Z1, z4. cbn [gen_of fb1 fb2 fb3 xb1 xb2 ib1 ib2]. rewrite <- O3. repeat split; assumption.
Qed.

Lemma concat_map_fst {A} (f : item -> list A) (bl : list (item * zone)) :
  List.concat (map (fun x => f (fst x)) bl) = List.concat (map f (map fst bl)).
Proof. now rewrite map_map. Qed.

Lemma map_fst_pair {A B} (f : A -> B) (l : list A) : map fst (map (fun a => (a, f a)) l) = l.
Proof. rewrite map_map. cbn. apply map_id. Qed.

Lemma map_fst_upd {A B C} (f : A * B -> C) (l : list (A * B)) : map fst (map (fun x => (fst x, f x)) l) = map fst l.
Proof. rewrite map_map. reflexivity. Qed.

Lemma sort_rows_length l : List.length (sort_rows l) = List.length l.
Proof.
  assert (Hi : forall x l0, List.length (insert_row x l0) = S (List.length l0)).
  { intros x l0. induction l0 as [|y r IH]; [reflexivity|]. cbn. destruct (String.leb (r_lhs x) (r_lhs y)); cbn; [reflexivity|now rewrite IH]. }
  induction l as [|x r IH]; [reflexivity|]. cbn. now rewrite Hi, IH.
Qed.

Hypothesis Hne : exists p co so C, List.In (IComp p co so C) its.

Definition blF : list (item * zone) := map (fun it => (it, fzone it)) its.

Lemma flow_block_adapt : forall (M : emap) (mcode : string -> Prop) (G : sector -> Prop), emap_ok M mcode G ->
  forall ns cur ism pre post xs Zi, bframe M G ns J cur pre post Zi -> ism_ok ism Zi -> (forall x, List.In x xs -> flow_refs_ok ns x) ->
  foldM (flow_step2 J) (map (shift_flow M ism) xs) (pre ++ map (emb_with (e_FC M) M) Zi ++ post)%list
  = rmap (fun B => (pre ++ map (emb_with (e_FC M) M) B ++ post)%list) (foldM flow_step xs Zi).
Proof. intros M mcode G Hok ns cur ism pre post xs Zi. apply (flow_fold_block M mcode G Hok ns J cur ism pre post xs Zi). Qed.

Lemma exo_block_adapt : forall (M : emap) (mcode : string -> Prop) (G : sector -> Prop), emap_ok M mcode G ->
  forall ns cur ism pre post xs Zi, bframe M G ns J cur pre post Zi -> ism_ok ism Zi ->
  (forall x, List.In x xs -> (fun n (y : nat * string * string) => fst (fst y) < n /\ exo_ok (snd y) = true) ns x) ->
  foldM exo_step (map (shift_exo M ism) xs) (pre ++ map (emb_with (e_FC M) M) Zi ++ post)%list
  = rmap (fun B => (pre ++ map (emb_with (e_FC M) M) B ++ post)%list) (foldM exo_step xs Zi).
Proof. intros M mcode G Hok ns cur ism pre post xs Zi. apply (exo_fold_block M mcode G Hok ns J cur ism pre post xs Zi). Qed.

Notation RI := (round_items g its J Hwf Hcs Hndc Hndu Hoks Hext1 HJc HJcl HJe HJs Hrun).

Theorem final_run : exists E,
  (do r <- main_run2 Kf ;; Ok (q_final r)) = Ok E /\
  fs_zone E = jzone g blF /\ fs_rows E = zone_rows (fs_zone E) /\
  fs_ic E = (List.concat (map (it_icrows g ib1) blF) ++ List.concat (map (it_icrows g ib2) blF))%list.
Proof.
  unfold main_run2.
  assert (Hmulti : Nat.ltb 1 (List.length (k_countries Kf)) = g).
  { rewrite (kd_countries _ _ _ HD), (countries_length its 0 0 Hwf). now rewrite Hg. }
  rewrite Hmulti. change (mkI2 (k_classes Kf) (k_sup Kf) (k_countries Kf) (k_ext Kf)) with J.
  rewrite (kd_countries _ _ _ HD), (kd_secs _ _ _ HD).
  rewrite (Z0_items g its Hwf Hcs Hndc Hoks).
  (* _GenerateEquations *)
  assert (Ecalls : map (fun s => (sid s, class_of2 (k_classes Kf) (sid s))) (jzone g (bl0 g its))
                   = List.concat (map (fun x => it_calls g (fst x)) (bl0 g its))).
  { exact (calls_items g its J Hwf Hcs Hoks Hext1 HJcl). }
  rewrite Ecalls.
  assert (Hgen_all : forall it, List.In it its -> exists gf, gen_of g its it = Ok gf).
  { intros [n|p co so C] Hin; [now eexists|]. destruct (std_chain p co so C Hin) as (gfin & _ & _ & _ & _ & H & _). now exists gfin. }
  pose proof (gen_items g its J Hwf Hcs Hndc Hndu Hoks Hext1 HJc HJcl HJe HJs Hrun (bl0 g its) [] (k_flows Kf) (k_ic Kf)) as HG.
  cbn [app] in HG. unfold jzone at 1 3 in HG. cbn [map List.concat app] in HG.
  specialize (HG (map_fst_pair _ _) (bl0_ok g its)).
  assert (Hinit : forall x, List.In x (bl0 g its) -> snd x = it_zone0 g (curs_of its) (fst x)).
  { intros x Hx. apply in_map_iff in Hx as (it & <- & _). reflexivity. }
  assert (Hgen0 : forall x, List.In x (bl0 g its) -> exists gf, gen_of g its (fst x) = Ok gf).
  { intros x Hx. apply in_map_iff in Hx as (it & <- & Hit). now apply Hgen_all. }
  specialize (HG Hinit Hgen0).
  destruct (run_trace_ok _ _ _ _ HG) as (trg & Etrg). rewrite Etrg. cbn [bind fst snd h_flows h_zone h_ic].
  set (blg := map (fun x : item * zone => (fst x, gen_zone g its (fst x))) (bl0 g its)).
  assert (Hblg_fst : map fst blg = its) by (unfold blg; rewrite map_fst_upd; apply map_fst_pair).
  assert (Hblg_ok : Forall (blk_ok g curs) blg).
  { unfold blg, bl0. rewrite map_map. cbn [fst]. apply (gen_blocks_ok g its its Hgen_all). }
  assert (Hblg_in : forall it Z, List.In (it, Z) blg -> List.In it its /\ Z = gen_zone g its it).
  { intros it Z Hin. unfold blg, bl0 in Hin. rewrite map_map in Hin. apply in_map_iff in Hin as (it0 & E0 & Hit0). cbn [fst] in E0. inversion E0 as [[E1 E2]]. split; [now rewrite <- E1|now rewrite <- E1]. }
  (* registered cash flows: three rounds *)
  assert (Egf : List.concat (map (fun x : item * zone => it_genflows g (fst x)) (bl0 g its)) = List.concat (map (it_batch2 g flow shift_flow fb3) its)).
  { unfold bl0. rewrite map_map. cbn [fst]. f_equal. apply map_ext. intros [n|p co so C]; reflexivity. }
  rewrite Egf, Hflows.
  (* round 1 *)
  destruct (RI flow (flow_step2 J) flow_step shift_flow flow_refs_ok fb1 flow_block_adapt flow_frames blg [] Hblg_fst Hblg_ok) as [R1 B1].
  { intros p co so C Z Hin. destruct (Hblg_in _ _ Hin) as [Hit ->].
    destruct (std_chain p co so C Hit) as (gfin & z1 & z2 & z3 & z4 & G0 & F1 & F2 & F3 & X1 & X2 & _ & _ & _ & EF & _).
    unfold gen_zone. rewrite G0. split; [|now exists z1].
    intros x Hx. apply (ro_flows _ _ _ (Hrun p co so C Hit)). apply in_or_app. left. rewrite EF. apply in_or_app. now left. }
  set (bl1 := map (fun x : item * zone => (fst x, loc_zone flow flow_step fb1 x)) blg) in *.
  assert (Hbl1_fst : map fst bl1 = its) by (unfold bl1; now rewrite map_fst_upd).
  cbn [app] in R1, B1. unfold jzone at 1 3 in R1. cbn [map List.concat app] in R1.
  (* round 2 *)
  destruct (RI flow (flow_step2 J) flow_step shift_flow flow_refs_ok fb2 flow_block_adapt flow_frames bl1 [] Hbl1_fst B1) as [R2 B2].
  { intros p co so C Z Hin. unfold bl1 in Hin. apply in_map_iff in Hin as ([it0 Z0] & E0 & Hin0). cbn [fst snd] in E0. inversion E0. subst it0.
    destruct (Hblg_in _ _ Hin0) as [Hit ->].
    destruct (std_chain p co so C Hit) as (gfin & z1 & z2 & z3 & z4 & G0 & F1 & F2 & F3 & X1 & X2 & _ & _ & _ & EF & _).
    unfold loc_zone. cbn [fst snd]. unfold gen_zone. rewrite G0, F1. split; [|now exists z2].
    intros x Hx. apply (ro_flows _ _ _ (Hrun p co so C Hit)). apply in_or_app. left. rewrite EF. apply in_or_app. now right. }
  set (bl2 := map (fun x : item * zone => (fst x, loc_zone flow flow_step fb2 x)) bl1) in *.
  assert (Hbl2_fst : map fst bl2 = its) by (unfold bl2; now rewrite map_fst_upd).
  cbn [app] in R2, B2. unfold jzone at 1 3 in R2. cbn [map List.concat app] in R2.
  (* round 3 *)
  destruct (RI flow (flow_step2 J) flow_step shift_flow flow_refs_ok fb3 flow_block_adapt flow_frames bl2 [] Hbl2_fst B2) as [R3 B3].
  { intros p co so C Z Hin. unfold bl2 in Hin. apply in_map_iff in Hin as ([it1 Z1] & E1 & Hin1). cbn [fst snd] in E1. inversion E1. subst it1.
    unfold bl1 in Hin1. apply in_map_iff in Hin1 as ([it0 Z0] & E0 & Hin0). cbn [fst snd] in E0. inversion E0. subst it0.
    destruct (Hblg_in _ _ Hin0) as [Hit ->].
    destruct (std_chain p co so C Hit) as (gfin & z1 & z2 & z3 & z4 & G0 & F1 & F2 & F3 & X1 & X2 & _ & _ & _ & EF & _).
    unfold loc_zone. cbn [fst snd]. unfold gen_zone. rewrite G0, F1, F2. split; [|now exists z3].
    intros x Hx. apply (ro_flows _ _ _ (Hrun p co so C Hit)). apply in_or_app. now right. }
  set (bl3 := map (fun x : item * zone => (fst x, loc_zone flow flow_step fb3 x)) bl2) in *.
  assert (Hbl3_fst : map fst bl3 = its) by (unfold bl3; now rewrite map_fst_upd).
  cbn [app] in R3, B3. unfold jzone at 1 3 in R3. cbn [map List.concat app] in R3.
  assert (Hflow_all : foldM (flow_step2 J)
            ((List.concat (map (it_batch2 g flow shift_flow fb1) its) ++ List.concat (map (it_batch2 g flow shift_flow fb2) its)) ++
             List.concat (map (it_batch2 g flow shift_flow fb3) its)) (jzone g blg) = Ok (jzone g bl3)).
  { rewrite !foldM_app. rewrite concat_map_fst, Hblg_fst in R1. rewrite R1. cbn [bind].
    rewrite concat_map_fst, Hbl1_fst in R2. rewrite R2. cbn [bind].
    rewrite concat_map_fst, Hbl2_fst in R3. exact R3. }
  destruct (run_trace_ok _ _ _ _ Hflow_all) as (trf & Etrf). rewrite Etrf. cbn [bind fst snd].
  (* exogenous declarations: two rounds *)
  rewrite Hexo.
  destruct (RI _ exo_step exo_step shift_exo (fun n (y : nat * string * string) => fst (fst y) < n /\ exo_ok (snd y) = true) xb1 exo_block_adapt exo_frames bl3 [] Hbl3_fst B3) as [R4 B4].
  { intros p co so C Z Hin. unfold bl3 in Hin. apply in_map_iff in Hin as ([it2 Z2] & E2 & Hin2). cbn [fst snd] in E2. inversion E2. subst it2.
    unfold bl2 in Hin2. apply in_map_iff in Hin2 as ([it1 Z1] & E1 & Hin1). cbn [fst snd] in E1. inversion E1. subst it1.
    unfold bl1 in Hin1. apply in_map_iff in Hin1 as ([it0 Z0] & E0 & Hin0). cbn [fst snd] in E0. inversion E0. subst it0.
    destruct (Hblg_in _ _ Hin0) as [Hit ->].
    destruct (std_chain p co so C Hit) as (gfin & z1 & z2 & z3 & z4 & G0 & F1 & F2 & F3 & X1 & X2 & _ & _ & _ & _ & EX & _).
    unfold loc_zone. cbn [fst snd]. unfold gen_zone. rewrite G0, F1, F2, F3. split; [|now exists z4].
    intros x Hx. apply (ro_exo _ _ _ (Hrun p co so C Hit)). rewrite EX. apply in_or_app. now left. }
  set (bl4 := map (fun x : item * zone => (fst x, loc_zone _ exo_step xb1 x)) bl3) in *.
  assert (Hbl4_fst : map fst bl4 = its) by (unfold bl4; now rewrite map_fst_upd).
  cbn [app] in R4, B4. unfold jzone at 1 3 in R4. cbn [map List.concat app] in R4.
  destruct (RI _ exo_step exo_step shift_exo (fun n (y : nat * string * string) => fst (fst y) < n /\ exo_ok (snd y) = true) xb2 exo_block_adapt exo_frames bl4 [] Hbl4_fst B4) as [R5 B5].
  { intros p co so C Z Hin. unfold bl4 in Hin. apply in_map_iff in Hin as ([it3 Z3] & E3 & Hin3). cbn [fst snd] in E3. inversion E3. subst it3.
    unfold bl3 in Hin3. apply in_map_iff in Hin3 as ([it2 Z2] & E2 & Hin2). cbn [fst snd] in E2. inversion E2. subst it2.
    unfold bl2 in Hin2. apply in_map_iff in Hin2 as ([it1 Z1] & E1 & Hin1). cbn [fst snd] in E1. inversion E1. subst it1.
    unfold bl1 in Hin1. apply in_map_iff in Hin1 as ([it0 Z0] & E0 & Hin0). cbn [fst snd] in E0. inversion E0. subst it0.
    destruct (Hblg_in _ _ Hin0) as [Hit ->].
    destruct (std_chain p co so C Hit) as (gfin & z1 & z2 & z3 & z4 & G0 & F1 & F2 & F3 & X1 & X2 & _ & _ & _ & _ & EX & _).
    unfold loc_zone. cbn [fst snd]. unfold gen_zone. rewrite G0, F1, F2, F3, X1. split; [|eexists; exact X2].
    intros x Hx. apply (ro_exo _ _ _ (Hrun p co so C Hit)). rewrite EX. apply in_or_app. now right. }
  set (bl5 := map (fun x : item * zone => (fst x, loc_zone _ exo_step xb2 x)) bl4) in *.
  cbn [app] in R5, B5. unfold jzone at 1 3 in R5. cbn [map List.concat app] in R5.
  assert (Hexo_all : foldM exo_step (List.concat (map (it_batch2 g _ shift_exo xb1) its) ++ List.concat (map (it_batch2 g _ shift_exo xb2) its))
                           (jzone g bl3) = Ok (jzone g bl5)).
  { rewrite foldM_app. rewrite concat_map_fst, Hbl3_fst in R4. rewrite R4. cbn [bind].
    rewrite concat_map_fst, Hbl4_fst in R5. exact R5. }
  destruct (run_trace_ok _ _ _ _ Hexo_all) as (trx & Etrx). rewrite Etrx. cbn [bind fst snd].
  (* the final blocks are the economies' stand-alone final zones *)
  assert (Ebl5 : bl5 = blF).
  { unfold bl5, bl4, bl3, bl2, bl1, blg, bl0, blF. rewrite !map_map. apply map_ext_in. intros it Hit. cbn [fst snd]. f_equal.
    destruct it as [n|p co so C].
    - unfold loc_zone. cbn [fst snd]. unfold gen_zone. cbn [gen_of g_zone]. reflexivity.
    - destruct (std_chain p co so C Hit) as (gfin & z1 & z2 & z3 & z4 & G0 & F1 & F2 & F3 & X1 & X2 & _).
      unfold loc_zone. cbn [fst snd]. unfold gen_zone. now rewrite G0, F1, F2, F3, X1, X2. }
  rewrite Ebl5 in *.
  assert (HblF_fst : map fst blF = its) by (unfold blF; apply map_fst_pair).
  (* initial conditions: two rounds on the final zone *)
  rewrite Hic, ic_rows_app.
  pose proof (ic_round g its J Hwf Hcs Hndc Hndu Hoks Hext1 HJc HJe Hrun ib1 blF [] HblF_fst B5) as I1.
  pose proof (ic_round g its J Hwf Hcs Hndc Hndu Hoks Hext1 HJc HJe Hrun ib2 blF [] HblF_fst B5) as I2.
  cbn [app] in I1, I2.
  assert (Hicb : forall p co so C Z, List.In (IComp p co so C, Z) blF ->
            ((forall x, List.In x (ib1 (IComp p co so C)) -> fst (fst x) < nsectors p) /\ exists rows, ic_rows Z (ib1 (IComp p co so C)) = Ok rows) /\
            ((forall x, List.In x (ib2 (IComp p co so C)) -> fst (fst x) < nsectors p) /\ exists rows, ic_rows Z (ib2 (IComp p co so C)) = Ok rows)).
  { intros p co so C Z Hin. unfold blF in Hin. apply in_map_iff in Hin as (it & E0 & Hit). inversion E0. subst it Z.
    destruct (std_chain p co so C Hit) as (gfin & z1 & z2 & z3 & z4 & _ & _ & _ & _ & _ & _ & HIC & _ & _ & _ & _ & EI).
    cbn [fzone]. rewrite ic_rows_app in HIC.
    destruct (ic_rows (fs_zone (bE p)) (ib1 (IComp p co so C))) as [r1|] eqn:E1; [|discriminate]. cbn [bind] in HIC.
    destruct (ic_rows (fs_zone (bE p)) (ib2 (IComp p co so C))) as [r2|] eqn:E2; [|discriminate].
    split; (split; [|now eexists]); intros x Hx; apply (ro_ic _ _ _ (Hrun p co so C Hit)); rewrite EI; apply in_or_app; [now left|now right]. }
  rewrite concat_map_fst, HblF_fst in I1. rewrite I1 by (intros p co so C Z Hin; apply (Hicb p co so C Z Hin)).
  rewrite concat_map_fst, HblF_fst in I2. rewrite I2 by (intros p co so C Z Hin; apply (Hicb p co so C Z Hin)).
  cbn [bind].
  (* there is at least one equation *)
  assert (Hnonempty : zone_rows (jzone g blF) <> [] \/ (List.concat (map (it_icrows g ib1) blF) ++ List.concat (map (it_icrows g ib2) blF))%list <> []).
  { destruct Hne as (p & co & so & C & Hit).
    destruct (std_chain p co so C Hit) as (gfin & z1 & z2 & z3 & z4 & _ & _ & _ & _ & _ & _ & HIC & Hrows & Hnn & _).
    assert (HinF : List.In (IComp p co so C, fs_zone (bE p)) blF) by (unfold blF; apply in_map_iff; now exists (IComp p co so C)).
    destruct Hnn as [Hr|Hi].
    - left. rewrite zone_rows_jzone. intros Hc.
      assert (Hz : zone_rows (it_eb g (IComp p co so C) (fs_zone (bE p))) = []).
      { clear -Hc HinF. induction blF as [|x r IH]; [destruct HinF|]. cbn [map List.concat] in Hc. apply app_eq_nil in Hc as [H1 H2].
        destruct HinF as [->|Hin]; [exact H1|now apply IH]. }
      cbn [it_eb] in Hz. revert Hz. apply rows_nonempty_emb. now rewrite <- Hrows.
    - right. rewrite ic_rows_app in HIC.
      destruct (ic_rows (fs_zone (bE p)) (ib1 (IComp p co so C))) as [r1|] eqn:E1; [|discriminate]. cbn [bind] in HIC.
      destruct (ic_rows (fs_zone (bE p)) (ib2 (IComp p co so C))) as [r2|] eqn:E2; [|discriminate]. cbn [bind] in HIC. inversion HIC as [Er].
      intros Hc. apply app_eq_nil in Hc as [Hc1 Hc2].
      assert (H1 : it_icrows g ib1 (IComp p co so C, fs_zone (bE p)) = []).
      { clear -Hc1 HinF. induction blF as [|x r IH]; [destruct HinF|]. cbn [map List.concat] in Hc1. apply app_eq_nil in Hc1 as [H1 H2].
        destruct HinF as [->|Hin]; [exact H1|now apply IH]. }
      assert (H2 : it_icrows g ib2 (IComp p co so C, fs_zone (bE p)) = []).
      { clear -Hc2 HinF. induction blF as [|x r IH]; [destruct HinF|]. cbn [map List.concat] in Hc2. apply app_eq_nil in Hc2 as [H1 H2].
        destruct HinF as [->|Hin]; [exact H1|now apply IH]. }
      unfold it_icrows in H1, H2. cbn [fst snd] in H1, H2. rewrite E1 in H1. rewrite E2 in H2.
      apply map_eq_nil in H1. apply map_eq_nil in H2. subst r1 r2. apply Hi. now rewrite <- Er. }
  exists (mkFS (jzone g blF) (zone_rows (jzone g blF))
               (List.concat (map (it_icrows g ib1) blF) ++ List.concat (map (it_icrows g ib2) blF))%list).
  split; [|now repeat split].
  destruct (zone_rows (jzone g blF)) eqn:Ez; [|reflexivity].
  destruct ((List.concat (map (it_icrows g ib1) blF) ++ List.concat (map (it_icrows g ib2) blF))%list) eqn:Ei; [|reflexivity].
  exfalso. destruct Hnonempty as [H|H]; now apply H.
Qed.

End Final.

(* ------------------------------------------------------------------ *)
(** * The theorem *)

Lemma std_lists ps Es : Forall2 (fun p E => build p = Ok E) ps Es ->
  exists Cs CDs, Forall2 (fun p C => construct_all p = Ok C) ps Cs /\
                 Forall2 (fun p CD => construct_all (decl_part p) = Ok CD) ps CDs /\ ops_ok ps CDs Cs.
Proof.
  induction 1 as [|p E ps' Es' HE _ IH]; [exists [], []; repeat split; constructor|].
  destruct IH as (Cs & CDs & H1 & H2 & H3).
  destruct (build_unfold p E HE) as (C & _ & _ & HC & _). destruct (construct_split p C HC) as (CD & HCD & HO).
  exists (C :: Cs), (CD :: CDs). repeat split; [now constructor|now constructor|exact HO|exact H3].
Qed.

Lemma d_items_pair : forall sl Cs coff soff p co so C, List.In (IComp p co so C) (d_items coff soff sl Cs) ->
  List.In (p, C) (combine (sl_comps sl) Cs).
Proof.
  induction sl as [|[q|] r IH]; intros Cs coff soff p co so C Hin; [destruct Cs; destruct Hin| |].
  - destruct Cs as [|C0 Cr]; [destruct Hin|]. cbn [d_items sl_comps combine] in *. destruct Hin as [Hin|Hin].
    + inversion Hin. subst. now left.
    + right. eapply IH; eauto.
  - cbn [d_items sl_comps] in *. destruct Hin as [Hin|Hin]; [discriminate|]. eapply IH; eauto.
Qed.

Lemma Forall2_combine {A B} (P : A -> B -> Prop) la lb : Forall2 P la lb -> forall a b, List.In (a, b) (combine la lb) -> P a b.
Proof.
  induction 1 as [|x y l l' Hxy _ IH]; intros a b Hin; [destruct Hin|]. cbn in Hin. destruct Hin as [Hin|Hin]; [inversion Hin; now subst|now apply IH].
Qed.

Lemma Forall2_len {A B} (P : A -> B -> Prop) la lb : Forall2 P la lb -> List.length lb = List.length la.
Proof. induction 1; cbn; congruence. Qed.

Section RItems.
Variable g : bool.
Lemma r_flows_items part : forall sl Cs coff soff, List.length Cs = List.length (sl_comps sl) ->
  r_flows g part soff sl
  = List.concat (map (it_batch2 g flow shift_flow (fun it => match it with IComp p _ _ _ => flat_map step_flows (part p) | IExt _ => [] end))
                     (d_items coff soff sl Cs)).
Proof.
  induction sl as [|[p|] r IH]; intros Cs coff soff HL; [now destruct Cs| |].
  - destruct Cs as [|C Cr]; [discriminate|]. cbn [d_items sl_comps List.length r_flows map List.concat it_batch2] in *.
    f_equal. apply IH. lia.
  - cbn [d_items sl_comps r_flows map List.concat it_batch2 app] in *. now apply IH.
Qed.
Lemma r_exo_items part : forall sl Cs coff soff, List.length Cs = List.length (sl_comps sl) ->
  r_exo g part soff sl
  = List.concat (map (it_batch2 g _ shift_exo (fun it => match it with IComp p _ _ _ => flat_map step_exo (part p) | IExt _ => [] end))
                     (d_items coff soff sl Cs)).
Proof.
  induction sl as [|[p|] r IH]; intros Cs coff soff HL; [now destruct Cs| |].
  - destruct Cs as [|C Cr]; [discriminate|]. cbn [d_items sl_comps List.length r_exo map List.concat it_batch2] in *.
    f_equal. apply IH. lia.
  - cbn [d_items sl_comps r_exo map List.concat it_batch2 app] in *. now apply IH.
Qed.
Lemma r_ic_items part : forall sl Cs coff soff, List.length Cs = List.length (sl_comps sl) ->
  r_ic g part soff sl
  = List.concat (map (it_ic2 g (fun it => match it with IComp p _ _ _ => flat_map step_ic (part p) | IExt _ => [] end))
                     (d_items coff soff sl Cs)).
Proof.
  induction sl as [|[p|] r IH]; intros Cs coff soff HL; [now destruct Cs| |].
  - destruct Cs as [|C Cr]; [discriminate|]. cbn [d_items sl_comps List.length r_ic map List.concat it_ic2] in *.
    f_equal. apply IH. lia.
  - cbn [d_items sl_comps r_ic map List.concat it_ic2 app] in *. now apply IH.
Qed.
End RItems.

Lemma sl_curs_clean sl : forallb comp_static (sl_comps sl) = true -> forallb cleancc (sl_curs sl) = true.
Proof.
  induction sl as [|[p|] r IH]; cbn [sl_comps sl_curs map forallb]; intros H; [reflexivity| |].
  - apply andb_true_iff in H as [H1 H2]. destruct (comp_static_inv p H1) as (_ & _ & _ & Hc & _). rewrite Hc. now apply IH.
  - cbn. now apply IH.
Qed.

Theorem main2_embedding_items ps ext Es :
  embed_ok ps ext = true -> Forall2 (fun p E => build p = Ok E) ps Es ->
  exists E Cs, build2 (joint ps ext) = Ok E /\ Forall2 (fun p C => construct_all p = Ok C) ps Cs /\
    let g := joint_multi ps ext in
    let its := d_items 0 0 (slots ps ext) Cs in
    fs_zone E = jzone g (blF g its) /\ fs_rows E = zone_rows (fs_zone E) /\
    fs_ic E = (List.concat (map (it_icrows g ib1) (blF g its)) ++ List.concat (map (it_icrows g ib2) (blF g its)))%list /\
    items_wf 0 0 its /\ (forall i, List.In i its -> item_ok g i) /\
    (forall p co so C, List.In (IComp p co so C) its -> comp_run_ok g p C /\ construct_all p = Ok C /\
       exists E0, build p = Ok E0 /\ (gains_prefix g p = true -> Forall (fun s => text_ok s = true) (fs_zone E0))).
Proof.
  intros Hok HB. unfold embed_ok in Hok. cbv zeta in Hok.
  set (sl := slots ps ext) in *. set (g := joint_multi ps ext) in *.
  apply andb_true_iff in Hok as [Hok Hev]. apply andb_true_iff in Hok as [Hok Hnum]. apply andb_true_iff in Hok as [Hok Hnu].
  apply andb_true_iff in Hok as [Hok Hnc]. apply andb_true_iff in Hok as [Hne Hst].
  apply nodupb_NoDup in Hnc, Hnu.
  destruct (std_lists ps Es HB) as (Cs & CDs & HCs & HCDs & Hops).
  assert (Ecomps : sl_comps sl = ps) by apply sl_comps_slots.
  assert (LCs : List.length Cs = List.length (sl_comps sl)) by (rewrite Ecomps; eapply Forall2_len; eauto).
  assert (LCDs : List.length CDs = List.length (sl_comps sl)) by (rewrite Ecomps; eapply Forall2_len; eauto).
  assert (Hst' : forallb comp_static (sl_comps sl) = true) by (now rewrite Ecomps).
  pose proof (sl_curs_clean sl Hst') as Hclean.
  (* declarations *)
  destruct (phaseD_list g sl CDs [] k_init (kdesc_init g) Logic.I) as (K1 & R1 & HD1 & Hwf1 & L1 & L2 & L3).
  { cbn. apply n_none_slots. }
  { exact Hclean. } { exact Hnc. } { exact Hnu. } { exact Hst'. } { intros p co so C []. } { now rewrite Ecomps. }
  change (tot_nc []) with 0 in *. change (tot_ns []) with 0 in *. cbn [app] in HD1, Hwf1.
  destruct (codes_d_items sl CDs 0 0 LCDs) as (EcoD & EcuD & EnD).
  (* trailing operations *)
  pose proof (phaseO_list g sl CDs Cs [] K1) as HO. cbv zeta in HO. change (tot_nc []) with 0 in HO. change (tot_ns []) with 0 in HO. cbn [app] in HO.
  rewrite EcuD, EcoD in HO. specialize (HO HD1 Hwf1 Hclean Hnu Hnc Hst').
  rewrite Ecomps in HO. specialize (HO Hops). destruct HO as (Kf & R2 & HDf & Hwff & M1 & M2 & M3).
  set (its := d_items 0 0 sl Cs) in *.
  destruct (codes_d_items sl Cs 0 0 LCs) as (Eco & Ecu & En). fold its in Eco, Ecu, En.
  assert (Hcons : construct_all2 (joint ps ext) = Ok Kf).
  { unfold construct_all2, joint. fold g. fold sl. rewrite foldM_app, R1. cbn [bind]. exact R2. }
  (* facts about the items *)
  assert (Hpair : forall p co so C, List.In (IComp p co so C) its -> List.In p ps /\ construct_all p = Ok C).
  { intros p co so C Hin. pose proof (d_items_pair sl Cs 0 0 p co so C Hin) as Hp. rewrite Ecomps in Hp.
    split; [eapply in_combine_l; eauto|exact (Forall2_combine _ _ _ HCs p C Hp)]. }
  assert (Hgf : g = false -> forall p, List.In p ps -> ncountries p = 1).
  { intros Eg p Hp. unfold g, joint_multi in Eg. apply Nat.ltb_ge in Eg.
    pose proof (sum_ge (map ncountries ps) (ncountries p) (in_map _ _ _ Hp)) as Hs.
    rewrite forallb_forall in Hst. destruct (comp_static_inv p (Hst p Hp)) as (_ & H1 & _). lia. }
  assert (Hoks : forall i, List.In i its -> item_ok g i).
  { intros [n|p co so C] Hin; [exact Logic.I|]. destruct (Hpair p co so C Hin) as [Hp HC].
    split; [eapply wf_full; eauto|]. split; [rewrite forallb_forall in Hst; now apply Hst|]. intros Eg. now apply Hgf. }
  assert (Hrun : forall p co so C, List.In (IComp p co so C) its -> comp_run_ok g p C).
  { intros p co so C Hin. destruct (Hpair p co so C Hin) as [Hp HC]. rewrite forallb_forall in Hev. exact (comp_evalb_ok g p C (Hev p Hp) HC). }
  assert (Hstd : forall p co so C, List.In (IComp p co so C) its ->
            construct_all p = Ok C /\ exists E, build p = Ok E /\ (gains_prefix g p = true -> Forall (fun s => text_ok s = true) (fs_zone E))).
  { intros p co so C Hin. destruct (Hpair p co so C Hin) as [Hp HC]. split; [exact HC|].
    assert (HE : exists E, build p = Ok E).
    { clear -HB Hp. induction HB as [|q E l l' HqE _ IH]; [destruct Hp|]. destruct Hp as [->|Hp]; [now exists E|now apply IH]. }
    destruct HE as (E & HE). exists E. split; [exact HE|]. intros Eg. rewrite forallb_forall in Hev. exact (comp_evalb_text g p E (Hev p Hp) HE Eg). }
  assert (Hg : g = Nat.ltb 1 (tot_nc its)).
  { destruct (tot_nc_d_items sl Cs 0 0 LCs) as [Etn _]. fold its in Etn. rewrite Etn, Ecomps. unfold g, joint_multi, sl. now rewrite n_none_slots_eq. }
  assert (Hne' : exists p co so C, List.In (IComp p co so C) its).
  { destruct ps as [|p0 ps0]; [discriminate|]. unfold its.
    assert (Hex : forall sl0 Cs0 c0 s0, List.length Cs0 = List.length (sl_comps sl0) -> sl_comps sl0 <> [] ->
              exists p co so C, List.In (IComp p co so C) (d_items c0 s0 sl0 Cs0)).
    { induction sl0 as [|[q|] r IHs]; intros Cs0 c0 s0 HL Hn; [now destruct Hn| |].
      - destruct Cs0 as [|C0 Cr]; [discriminate|]. cbn [d_items]. exists q, c0, s0, C0. now left.
      - cbn [d_items sl_comps] in *. destruct (IHs Cs0 (S c0) (3 + s0) HL Hn) as (p & co & so & C & H). exists p, co, so, C. now right. }
    apply Hex; [exact LCs|]. rewrite Ecomps. discriminate. }
  (* Model.main() *)
  destruct (final_run g its Kf HDf Hwff) as (E & HE & HZ & HR & HI).
  { now rewrite Ecu. } { now rewrite Eco. } { now rewrite Ecu. } { exact Hoks. } { rewrite En. apply n_none_slots. }
  { exact Hrun. } { exact Hg. } { exact Hstd. }
  { rewrite M1, L1. cbn [k_init k_flows app]. unfold its. now rewrite (r_flows_items g decl_part sl Cs 0 0 LCs), (r_flows_items g ops_part sl Cs 0 0 LCs). }
  { rewrite M2, L2. cbn [k_init k_exo app]. unfold its. now rewrite (r_exo_items g decl_part sl Cs 0 0 LCs), (r_exo_items g ops_part sl Cs 0 0 LCs). }
  { rewrite M3, L3. cbn [k_init k_ic app]. unfold its. now rewrite (r_ic_items g decl_part sl Cs 0 0 LCs), (r_ic_items g ops_part sl Cs 0 0 LCs). }
  { exact Hne'. }
  exists E, Cs. split.
  - unfold build2, build_run2. rewrite Hcons. cbn [bind]. destruct (main_run2 Kf) as [r|]; [|discriminate]. cbn [bind] in HE |- *. exact HE.
  - split; [exact HCs|]. cbv zeta. fold g. fold sl. fold its.
    split; [exact HZ|]. split; [exact HR|]. split; [exact HI|]. split; [exact Hwff|]. split; [exact Hoks|].
    intros p co so C Hin. split; [exact (Hrun p co so C Hin)|]. exact (Hstd p co so C Hin).
Qed.
