(** TaxFlow._GenerateEquations (GenTax/Tax.v) and the dividend part of
    FixedMarginBusiness._GenerateEquations (GenTax/Dividends.v) commute with an embedding map that
    satisfies [Laws.emap_ok]. *)
From Coq Require Import List String Ascii Bool ZArith Arith Lia.
From SFC.Base Require Import Res Str Sorting.
From SFC.Gen Require Import Fx Zone.
From SFC.GenMarket Require Import Market.
From SFC.GenTax Require Import Tax TaxProofs Dividends DividendProofs.
From SFC.GenAsset Require Import Common.
From SFC.GenMain2 Require Import Program Classes Main.
From SFC.GenEmbed Require Import EmbDefs Laws ZoneEmb.
Import ListNotations.
Local Open Scope string_scope.

(* ------------------------------------------------------------------ *)
(** * Shared helpers (also used by AssetEmb.v) *)

Section EmbHelpers.
Variables (M : emap) (mcode : string -> Prop) (G : sector -> Prop).
Hypothesis Hok : emap_ok M mcode G.

Notation E := (emb_with (e_FC M) M).
Notation N := (e_N M).
Notation L := (e_L M).
Notation T := (e_T M).
Notation off := (e_off M).

Lemma emb_unfold s : emb M s = E s. Proof. reflexivity. Qed.

Lemma G_frame s s' : frame s s' -> G s -> G s'.
Proof. apply (ok_G_frame _ _ _ Hok). Qed.

Lemma Forall2_frame_G Z Z' : Forall2 frame Z Z' -> Forall G Z -> Forall G Z'.
Proof.
  induction 1 as [|s s' Z Z' Hs _ IH]; intros HG; [constructor|].
  inversion HG; subst. constructor; [eapply G_frame; eauto|auto].
Qed.

Lemma G_in Z s : Forall G Z -> List.In s Z -> G s.
Proof. intros HG Hin. rewrite Forall_forall in HG. now apply HG. Qed.

Lemma G_find p Z s : Forall G Z -> find p Z = Some s -> G s.
Proof. intros HG Hf. apply find_some in Hf. eapply G_in; [exact HG|apply Hf]. Qed.

(** full names inside parsed terms and inside opaque texts; [n] a literal local name *)
Lemma full_L b s n : G s -> String.prefix "SUP_" n = false ->
  L b (fullcode s ++ "__" ++ n) = e_FC M (fullcode s) ++ "__" ++ n.
Proof.
  intros Hg Hn. rewrite (ok_L_full _ _ _ Hok b s n Hg). now rewrite (N_lit M mcode G Hok).
Qed.

Lemma full_T b s n : G s -> idstr n -> String.prefix "SUP_" n = false ->
  T b (fullcode s ++ "__" ++ n) = e_FC M (fullcode s) ++ "__" ++ n.
Proof.
  intros Hg Hi Hn. rewrite (ok_T_full _ _ _ Hok b s n Hg Hi). now rewrite (N_lit M mcode G Hok).
Qed.

(** update_where keeps the static description *)
Lemma update_where_G (p : sector -> bool) (f : sector -> result sector) Z Z' :
  (forall s s', (if p s then f s else Ok s) = Ok s' -> frame s s') ->
  update_where p f Z = Ok Z' -> Forall G Z -> Forall G Z'.
Proof.
  intros Hf HU. apply update_where_spec in HU. apply Forall2_frame_G.
  eapply Forall2_impl; [|exact HU]. exact Hf.
Qed.

Lemma is_market_frame s s' : frame s s' -> is_market s' = is_market s.
Proof. unfold frame. intros ->. reflexivity. Qed.

End EmbHelpers.

(* ------------------------------------------------------------------ *)
(** * The tax flow *)

Section TaxEmb.
Variables (M : emap) (mcode : string -> Prop) (G : sector -> Prop).
Hypothesis Hok : emap_ok M mcode G.

Notation E := (emb_with (e_FC M) M).
Notation N := (e_N M).
Notation L := (e_L M).
Notation T := (e_T M).
Notation off := (e_off M).

Lemma vname_emb s n : vname (E s) n = e_FC M (fullcode s) ++ "__" ++ n.
Proof. reflexivity. Qed.

Lemma vname_L b s n : G s -> String.prefix "SUP_" n = false -> L b (vname s n) = vname (E s) n.
Proof. intros Hg Hn. unfold vname at 1. rewrite vname_emb. now apply (full_L M mcode G Hok). Qed.

Lemma vname_T b s n : G s -> idstr n -> String.prefix "SUP_" n = false -> T b (vname s n) = vname (E s) n.
Proof. intros Hg Hi Hn. unfold vname at 1. rewrite vname_emb. now apply (full_T M mcode G Hok). Qed.

Lemma rate_name_emb b rm rm' s : G s -> L b rm = rm' -> L b (rate_name rm s) = rate_name rm' (E s).
Proof.
  intros Hg Hr. unfold rate_name. rewrite (has_var_lit M mcode G Hok) by reflexivity.
  destruct (has_var s "TaxRate"); [now apply vname_L|exact Hr].
Qed.

Lemma tax_term_emb b rm rm' s : G s -> L b rm = rm' -> emb_term M b (tax_term rm s) = tax_term rm' (E s).
Proof.
  intros Hg Hr. unfold tax_term, emb_term. cbn [fst snd map].
  rewrite (rate_name_emb b rm rm' s Hg Hr). now rewrite (vname_L b s "INC" Hg).
Qed.

Lemma is_payer_emb me s : is_payer (me + off) (E s) = is_payer me s.
Proof. unfold is_payer. now rewrite sid_eqb_emb, taxable_emb. Qed.

Lemma sid_is_emb me s : sid_is (me + off) (E s) = sid_is me s.
Proof. unfold sid_is. apply sid_eqb_emb. Qed.

Lemma code_is_emb c s : code_is c (E s) = code_is c s.
Proof. reflexivity. Qed.

Lemma pay_tax_emb rm rm' s : G s -> (forall b, L b rm = rm') -> pay_tax rm' (E s) = rmap E (pay_tax rm s).
Proof.
  intros Hg Hr. unfold pay_tax. rewrite (has_var_lit M mcode G Hok) by reflexivity.
  destruct (has_var s "INC"); [|reflexivity].
  pose proof (add_cash_flow_struct_emb M mcode G Hok (e_FC M) s (-1)%Z "T" (mkEqn "" [tax_term rm s]) false
                (excl_fixed_G M mcode G Hok s Hg) eq_refl) as HA.
  rewrite (L_lit M mcode G Hok _ "T" eq_refl eq_refl) in HA.
  rewrite (emb_eqn_nilblob M mcode G Hok) in HA. cbn [map] in HA.
  rewrite (tax_term_emb _ rm rm' s Hg (Hr _)) in HA. rewrite HA.
  destruct (add_cash_flow_struct s ((-1)%Z, ["T"]) (mkEqn "" [tax_term rm s]) false); reflexivity.
Qed.

Lemma step1_emb me rm rm' s : G s -> (forall b, L b rm = rm') ->
  (if is_payer me s then pay_tax rm' (E s) else Ok (E s)) = rmap E (if is_payer me s then pay_tax rm s else Ok s).
Proof. intros Hg Hr. destruct (is_payer me s); [now apply pay_tax_emb|reflexivity]. Qed.

Lemma tax_loop_emb b me rm rm' Z : Forall G Z -> (forall b, L b rm = rm') ->
  tax_loop (me + off) rm' (map E Z)
  = rmap (fun zt => (map E (fst zt), map (emb_term M b) (snd zt))) (tax_loop me rm Z).
Proof.
  intros HG Hr. induction Z as [|s r IH]; [reflexivity|]. inversion HG as [|x y Hs Hrest]; subst.
  cbn [map tax_loop]. rewrite is_payer_emb. rewrite (step1_emb me rm rm' s Hs Hr).
  destruct (if is_payer me s then pay_tax rm s else Ok s) as [s'|e]; cbn [rmap bind]; [|reflexivity].
  rewrite (IH Hrest). destruct (tax_loop me rm r) as [[zr tr]|e]; cbn [rmap bind fst snd]; [|reflexivity].
  f_equal. f_equal. rewrite map_app. f_equal.
  destruct (is_payer me s); [|reflexivity]. cbn [map]. now rewrite (tax_term_emb b rm rm' s Hs (Hr b)).
Qed.

(** the summands are full names: their image does not depend on the owner's market flag *)
Lemma tax_loop_terms b me rm rm' Z zt : Forall G Z -> (forall b, L b rm = rm') ->
  tax_loop me rm Z = Ok zt -> map (emb_term M b) (snd zt) = map (emb_term M false) (snd zt).
Proof.
  intros HG Hr HL. pose proof (tax_loop_emb b me rm rm' Z HG Hr) as H1.
  rewrite (tax_loop_emb false me rm rm' Z HG Hr) in H1. rewrite HL in H1. cbn [rmap] in H1.
  inversion H1 as [H0]. symmetry. exact H0.
Qed.

Lemma self_update_emb rate ts ts' s : plain rate -> map (emb_term M (is_market s)) ts = ts' ->
  self_update rate ts' (E s) = rmap E (self_update rate ts s).
Proof.
  intros Hp Hts. unfold self_update.
  pose proof (set_rhs_emb M mcode G Hok (e_FC M) s "TaxRate" rate) as H1.
  rewrite (N_lit M mcode G Hok _ "TaxRate" eq_refl) in H1.
  rewrite (ok_T_plain _ _ _ Hok _ rate Hp) in H1. rewrite H1.
  destruct (set_rhs s "TaxRate" rate) as [s1|] eqn:E1; cbn [option_map]; [|reflexivity].
  assert (Hb : is_market s1 = is_market s) by (apply set_rhs_install in E1; now subst s1).
  pose proof (set_struct_emb M mcode G Hok (e_FC M) s1 "T" (mkEqn "" ts)) as H2.
  rewrite (N_lit M mcode G Hok _ "T" eq_refl) in H2.
  rewrite (emb_eqn_nilblob M mcode G Hok) in H2. rewrite Hb, Hts in H2. rewrite H2.
  destruct (set_struct s1 "T" (mkEqn "" ts)); reflexivity.
Qed.

Lemma receive_tax_emb tf tf' g : G g -> (forall b, L b tf = tf') -> (forall b, T b tf = tf') ->
  receive_tax tf' (E g) = rmap E (receive_tax tf g).
Proof.
  intros Hg HL HT. unfold receive_tax.
  pose proof (set_struct_emb M mcode G Hok (e_FC M) g "T" (mkEqn "" [(1%Z, [tf])])) as H1.
  rewrite (N_lit M mcode G Hok _ "T" eq_refl) in H1.
  rewrite (emb_eqn_nilblob M mcode G Hok) in H1. unfold emb_term in H1. cbn [map fst snd] in H1. rewrite HL in H1. unfold term in H1.
  rewrite H1. destruct (set_struct g "T" (mkEqn "" [(1%Z, [tf])])) as [g1|] eqn:E1; cbn [option_map]; [|reflexivity].
  assert (Hfr : frame g g1) by (apply set_struct_install in E1; subst g1; apply install_frame).
  assert (Hg1 : G g1) by (eapply (G_frame M mcode G Hok); eauto).
  pose proof (add_cash_flow_emb M mcode G Hok (e_FC M) g1 1%Z "T" (Some tf) true
                (excl_fixed_G M mcode G Hok g1 Hg1) (or_intror eq_refl)) as H2.
  rewrite (L_lit M mcode G Hok _ "T" eq_refl eq_refl) in H2. cbn [option_map] in H2. rewrite HT in H2.
  rewrite H2. destruct (add_cash_flow g1 (1%Z, ["T"]) (Some tf) true); reflexivity.
Qed.

Lemma count_code_emb c Z : count_code c (map E Z) = count_code c Z.
Proof.
  unfold count_code. rewrite (filter_emb M (e_FC M) (code_is c) (code_is c)) by (intros; reflexivity).
  apply map_length.
Qed.

Lemma idstr_T : idstr "T". Proof. split; [reflexivity|discriminate]. Qed.

Theorem tax_generate_emb_with me rate paid_to Z : Forall G Z -> plain rate ->
  tax_generate (me + off) rate paid_to (map E Z) = rmap (map E) (tax_generate me rate paid_to Z).
Proof.
  intros HG Hp. unfold tax_generate.
  rewrite (find_emb M (e_FC M) (sid_is me) (sid_is (me + off))) by (intros; apply sid_is_emb).
  destruct (find (sid_is me) Z) as [self|] eqn:Ef; cbn [option_map]; [|reflexivity].
  assert (Hself : G self) by (eapply (G_find G); eauto).
  assert (Hrm : forall b, L b (vname self "TaxRate") = vname (E self) "TaxRate")
    by (intros b; now apply vname_L).
  rewrite (tax_loop_emb false me _ _ Z HG Hrm).
  destruct (tax_loop me (vname self "TaxRate") Z) as [[Z1 ts]|e] eqn:EL; cbn [rmap bind fst snd]; [|reflexivity].
  assert (Hts : forall b, map (emb_term M b) ts = map (emb_term M false) ts)
    by (intros b; exact (tax_loop_terms b me _ _ Z _ HG Hrm EL)).
  assert (HG1 : Forall G Z1).
  { apply tax_loop_spec in EL. destruct EL as (EL & _). eapply (Forall2_frame_G M mcode G Hok); [|exact HG].
    eapply Forall2_impl; [|exact EL]. intros a b0. apply step1_frame. }
  rewrite (update_where_emb M (e_FC M) (sid_is me) (sid_is (me + off))
             (self_update rate ts) (self_update rate (map (emb_term M false) ts)) Z1);
    [|intros; apply sid_is_emb|intros s _ _; apply self_update_emb; [exact Hp|apply Hts]].
  destruct (update_where (sid_is me) (self_update rate ts) Z1) as [Z2|e] eqn:EU; cbn [rmap bind]; [|reflexivity].
  assert (HG2 : Forall G Z2).
  { eapply (update_where_G M mcode G Hok); [|exact EU|exact HG1]. intros s s'. apply step2_frame. }
  rewrite count_code_emb. destruct (count_code paid_to Z2) as [|[|n]]; try reflexivity.
  apply (update_where_emb M (e_FC M)); [intros; reflexivity|].
  intros s Hin _. apply receive_tax_emb.
  - eapply (G_in G); eauto.
  - intros b. now apply vname_L.
  - intros b. apply vname_T; [exact Hself|exact idstr_T|reflexivity].
Qed.

End TaxEmb.

(* ------------------------------------------------------------------ *)
(** * Dividends *)

Section DivEmb.
Variables (M : emap) (mcode : string -> Prop) (G : sector -> Prop).
Hypothesis Hok : emap_ok M mcode G.

Notation E := (emb_with (e_FC M) M).
Notation N := (e_N M).
Notation L := (e_L M).
Notation T := (e_T M).
Notation off := (e_off M).

Definition emb_resets (b : bool) (rs : list (string * string)) : list (string * string) :=
  map (fun kt => (N b (fst kt), T b (snd kt))) rs.

Lemma apply_resets_emb rs : forall s,
  apply_resets (emb_resets (is_market s) rs) (E s) = rmap E (apply_resets rs s).
Proof.
  induction rs as [|[k t] rs IH]; intros s; [reflexivity|].
  cbn [emb_resets map apply_resets fst snd]. rewrite (set_rhs_emb M mcode G Hok).
  destruct (set_rhs s k t) as [s1|] eqn:E1; cbn [option_map]; [|reflexivity].
  assert (Hb : is_market s1 = is_market s) by (apply set_rhs_install in E1; now subst s1).
  rewrite <- Hb. apply IH.
Qed.

Lemma pay_div_emb s : G s -> pay_div (E s) = rmap E (pay_div s).
Proof.
  intros Hg. unfold pay_div.
  pose proof (add_cash_flow_struct_emb M mcode G Hok (e_FC M) s (-1)%Z "DIV" (mkEqn "" [(1%Z, ["PROF"])]) false
                (excl_fixed_G M mcode G Hok s Hg) eq_refl) as HA.
  rewrite (L_lit M mcode G Hok _ "DIV" eq_refl eq_refl) in HA.
  rewrite (emb_eqn_nilblob M mcode G Hok) in HA. unfold emb_term in HA. cbn [map fst snd] in HA.
  rewrite (L_lit M mcode G Hok _ "PROF" eq_refl eq_refl) in HA. unfold term in HA. unfold term. rewrite HA.
  destruct (add_cash_flow_struct s ((-1)%Z, ["DIV"]) (mkEqn "" [(1%Z, ["PROF"])]) false); reflexivity.
Qed.

Lemma payrel_emb p s : G s ->
  (if sid_is (p + off) (E s) then pay_div (E s) else Ok (E s)) = rmap E (if sid_is p s then pay_div s else Ok s).
Proof. intros Hg. rewrite sid_is_emb. destruct (sid_is p s); [now apply pay_div_emb|reflexivity]. Qed.

Lemma f_has_div_emb s : f_has_div (E s) = f_has_div s.
Proof.
  unfold f_has_div. rewrite (lookup_lit M mcode G Hok) by reflexivity.
  destruct (lookup_var "F" (vars s)) as [e|]; cbn [option_map]; [|reflexivity]. f_equal.
  cbn [emb_eqn terms]. induction (terms e) as [|t r IH]; [reflexivity|]. cbn [map existsb]. rewrite IH. f_equal.
  cbn [emb_term snd].
  replace ["DIV"] with (map (L (is_market s)) ["DIV"]) at 1
    by (cbn [map]; now rewrite (L_lit M mcode G Hok _ "DIV" eq_refl eq_refl)).
  apply (factors_eqb_emb M mcode G Hok).
Qed.

Lemma append_def_emb b e t : emb_eqn M b (append_def e t) = append_def (emb_eqn M b e) (emb_term M b t).
Proof.
  unfold append_def. rewrite (renders_empty_emb M mcode G Hok). destruct (renders_empty e).
  - unfold emb_eqn. cbn [blob terms map]. now rewrite (ok_T_plain _ _ _ Hok b "0.0" plain_00).
  - unfold emb_eqn. cbn [blob terms]. now rewrite map_app.
Qed.

Lemma receive_div_emb rb pf pf' r : G r -> (forall b, L b pf = pf') ->
  receive_div rb pf' (E r) = rmap E (receive_div rb pf r).
Proof.
  intros Hg HL. unfold receive_div. rewrite f_has_div_emb.
  destruct (f_has_div r) as [booked|]; [|reflexivity].
  assert (Ht : forall b, emb_term M b (1%Z, [pf]) = (1%Z, [pf'])).
  { intros b. unfold emb_term. cbn [map fst snd]. now rewrite HL. }
  destruct (booked && negb rb).
  - rewrite (lookup_lit M mcode G Hok) by reflexivity.
    destruct (lookup_var "DIV" (vars r)) as [e|]; cbn [option_map rmap]; [|reflexivity]. f_equal.
    rewrite <- (Ht (is_market r)). rewrite <- append_def_emb.
    rewrite <- (N_lit M mcode G Hok (is_market r) "DIV" eq_refl) at 1.
    apply (install_emb M mcode G Hok).
  - pose proof (add_cash_flow_struct_emb M mcode G Hok (e_FC M) r 1%Z "DIV" (mkEqn "" [(1%Z, [pf])]) true
                  (excl_fixed_G M mcode G Hok r Hg) eq_refl) as HA.
    rewrite (L_lit M mcode G Hok _ "DIV" eq_refl eq_refl) in HA.
    rewrite (emb_eqn_nilblob M mcode G Hok) in HA. cbn [map] in HA. rewrite Ht in HA.
    unfold term in HA. unfold term. rewrite HA.
    destruct (add_cash_flow_struct r (1%Z, ["DIV"]) (mkEqn "" [(1%Z, [pf])]) true); reflexivity.
Qed.

Lemma div_pass_emb (cand cand' : sector -> bool) rb p pf pf' C :
  (forall s, cand' (E s) = cand s) -> (forall b, L b pf = pf') -> Forall G C ->
  forall found, div_pass cand' rb (p + off) pf' found (map E C) = rmap (map E) (div_pass cand rb p pf found C).
Proof.
  intros Hc HL HG. induction C as [|s r IH]; intros found; [reflexivity|].
  inversion HG as [|x y Hs Hrest]; subst. cbn [map div_pass].
  rewrite (payrel_emb p s Hs).
  destruct (if sid_is p s then pay_div s else Ok s) as [s1|e] eqn:E1; cbn [rmap bind]; [|reflexivity].
  assert (Hs1 : G s1) by (eapply (G_frame M mcode G Hok); [eapply payrel_frame; exact E1|exact Hs]).
  rewrite Hc.
  assert (E2 : (if negb found && cand s then receive_div rb pf' (E s1) else Ok (E s1))
               = rmap E (if negb found && cand s then receive_div rb pf s1 else Ok s1)).
  { destruct (negb found && cand s); [now apply receive_div_emb|reflexivity]. }
  rewrite E2. destruct (if negb found && cand s then receive_div rb pf s1 else Ok s1) as [s2|e]; cbn [rmap bind]; [|reflexivity].
  rewrite (IH Hrest). destruct (div_pass cand rb p pf (found || cand s) r); reflexivity.
Qed.

Lemma div_step_emb (cand cand' : sector -> bool) rb p C :
  (forall s, cand' (E s) = cand s) -> Forall G C ->
  div_step cand' rb (p + off) (map E C) = rmap (map E) (div_step cand rb p C).
Proof.
  intros Hc HG. unfold div_step.
  rewrite (existsb_emb M (e_FC M) cand cand') by (intros; apply Hc).
  destruct (existsb cand C); [|reflexivity].
  rewrite (find_emb M (e_FC M) (sid_is p) (sid_is (p + off))) by (intros; apply sid_is_emb).
  destruct (find (sid_is p) C) as [self|] eqn:Ef; cbn [option_map]; [|reflexivity].
  assert (Hself : G self) by (eapply (G_find G); eauto).
  rewrite (has_var_lit M mcode G Hok) by reflexivity. destruct (has_var self "PROF"); [|reflexivity].
  apply div_pass_emb; [exact Hc| |exact HG].
  intros b. now apply (vname_L M mcode G Hok).
Qed.

Lemma is_biz_emb bizs p s : is_biz (map (fun i => i + off) bizs) (p + off) (E s) = is_biz bizs p s.
Proof.
  unfold is_biz. rewrite sid_eqb_emb. f_equal.
  induction bizs as [|i r IH]; [reflexivity|]. cbn [map existsb]. rewrite IH. f_equal.
  rewrite sid_emb. destruct (Nat.eqb_spec (sid s) i) as [->|Hn]; [apply Nat.eqb_refl|].
  apply Nat.eqb_neq. lia.
Qed.

Lemma candidate_emb bizs p s : candidate (map (fun i => i + off) bizs) (p + off) (E s) = candidate bizs p s.
Proof. unfold candidate. rewrite is_biz_emb. now rewrite (has_var_lit M mcode G Hok) by reflexivity. Qed.

Theorem firm_generate_emb_with bizs p rs rs' C : Forall G C ->
  (forall s, List.In s C -> sid s = p -> rs' = emb_resets (is_market s) rs) ->
  firm_generate (map (fun i => i + off) bizs) (p + off, rs') (map E C)
  = rmap (map E) (firm_generate bizs (p, rs) C).
Proof.
  intros HG Hrs. unfold firm_generate. cbn [fst snd].
  rewrite (update_where_emb M (e_FC M) (sid_is p) (sid_is (p + off)) (apply_resets rs) (apply_resets rs') C);
    [|intros; apply sid_is_emb|].
  2:{ intros s Hin Hp. rewrite (Hrs s Hin) by (now apply Nat.eqb_eq). apply apply_resets_emb. }
  destruct (update_where (sid_is p) (apply_resets rs) C) as [C1|e] eqn:EU; cbn [rmap bind]; [|reflexivity].
  assert (HG1 : Forall G C1).
  { eapply (update_where_G M mcode G Hok); [|exact EU|exact HG]. intros s s' H.
    destruct (sid_is p s); [now apply apply_resets_spec in H|inversion H; apply frame_refl]. }
  apply div_step_emb; [intros; apply candidate_emb|exact HG1].
Qed.

End DivEmb.

(* ------------------------------------------------------------------ *)
(** * Statements with [emb M] *)

Section Final.
Variables (M : emap) (mcode : string -> Prop) (G : sector -> Prop).
Hypothesis Hok : emap_ok M mcode G.
Notation E := (emb M).
Notation off := (e_off M).

Theorem tax_generate_emb me rate paid_to Z : Forall G Z -> plain rate ->
  tax_generate (me + off) rate paid_to (map E Z) = rmap (map E) (tax_generate me rate paid_to Z).
Proof. exact (tax_generate_emb_with M mcode G Hok me rate paid_to Z). Qed.

Theorem firm_generate_emb bizs p rs rs' C : Forall G C ->
  (forall s, List.In s C -> sid s = p ->
     rs' = map (fun kt => (e_N M (is_market s) (fst kt), e_T M (is_market s) (snd kt))) rs) ->
  firm_generate (map (fun i => i + off) bizs) (p + off, rs') (map E C)
  = rmap (map E) (firm_generate bizs (p, rs) C).
Proof. exact (firm_generate_emb_with M mcode G Hok bizs p rs rs' C). Qed.

End Final.
