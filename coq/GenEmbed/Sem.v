(** Semantic form of the embedding theorem: a valuation history satisfies the joint system iff its
    restriction to each economy, read through the prefix maps, satisfies that economy's stand-alone
    system (and the ExternalSector's own rows hold): "each economy follows exactly the series it
    follows when modelled alone".  [Conflict.sat] reads the final state of every sector (structured
    equations; opaque texts valued by an arbitrary [bv]) and the row kinds. *)
From Coq Require Import List String Ascii Bool ZArith Arith Lia Reals.
From SFC.Base Require Import Res Str Sorting.
From SFC.Gen Require Import Fx Zone.
From SFC.GenMarket Require Import Market.
From SFC.GenTax Require Import Tax TaxProofs.
From SFC.GenMain2 Require Import Program Classes Main Conflict.
From SFC.GenEmbed Require Import EmbDefs JointDefs Laws Good ZoneEmb.
Import ListNotations.
Local Open Scope string_scope.

Definition real := R.

Section Sem.
Variables (M : emap) (mcode : string -> Prop) (G : sector -> Prop).
Hypothesis Hok : emap_ok M mcode G.
Variable mkf : string -> bool.                    (* is this stand-alone full code the one of a market? *)

Notation E := (emb M).
Notation N := (e_N M).
Notation L := (e_L M).
Notation T := (e_T M).
Notation FC := (e_FC M).

(** facts about the concrete maps that are not part of [emap_ok] *)
Hypothesis L_dd : forall b x, has_substring "__" (L b x) = has_substring "__" x.
Hypothesis L_q : forall b y, has_substring "__" y = true -> L b y = L false y.
Hypothesis T_mkf : forall s t, G s -> T (is_market s) t = T (mkf (fullcode s)) t.

Variables (v vprev : string -> real) (bv : string -> string -> real).

(** the history as the stand-alone economy sees it *)
Definition pullv (w : string -> real) : string -> real := fun x => w (L false x).
Definition pullp (w : string -> real) : string -> real := fun x => w (T false x).
Definition pullb (b : string -> string -> real) : string -> string -> real := fun fc t => b (FC fc) (T (mkf fc) t).

Lemma qualify_emb s x : G s -> qualify (E s) (L (is_market s) x) = L false (qualify s x).
Proof.
  intros Hg. unfold qualify. rewrite L_dd. destruct (has_substring "__" x) eqn:Ex.
  - now apply L_q.
  - rewrite (ok_L_local _ _ _ Hok _ x Ex). cbn [fullcode emb emb_with]. now rewrite (ok_L_full _ _ _ Hok false s x Hg).
Qed.

Lemma fval_emb s fs : G s -> fval_in v (E s) (map (L (is_market s)) fs) = fval_in (pullv v) s fs.
Proof. intros Hg. induction fs as [|x r IH]; cbn [map fval_in]; [reflexivity|]. rewrite IH, (qualify_emb s x Hg). reflexivity. Qed.

Lemma tsum_emb s ts : G s -> tsum_in v (E s) (map (emb_term M (is_market s)) ts) = tsum_in (pullv v) s ts.
Proof.
  intros Hg. induction ts as [|t r IH]; cbn [map tsum_in]; [reflexivity|]. rewrite IH. unfold tval_in, emb_term. cbn [fst snd].
  now rewrite (fval_emb s _ Hg).
Qed.

Lemma eqn_val_emb s e : G s -> eqn_val v bv (E s) (emb_eqn M (is_market s) e) = eqn_val (pullv v) (pullb bv) s e.
Proof.
  intros Hg. unfold eqn_val. cbn [blob terms emb_eqn]. rewrite (tsum_emb s _ Hg), (T_eqb_nil M mcode G Hok).
  destruct (String.eqb (blob e) ""); [reflexivity|]. unfold pullb. cbn [fullcode emb emb_with]. now rewrite (T_mkf s (blob e) Hg).
Qed.

Lemma holds_emb s n : G s -> holds v bv (E s) (N (is_market s) n) <-> holds (pullv v) (pullb bv) s n.
Proof.
  intros Hg. unfold holds. unfold emb. rewrite (lookup_emb_s M mcode G Hok). fold (emb M).
  destruct (lookup_var n (vars s)) as [e|]; cbn [option_map]; [|tauto].
  rewrite (eqn_val_emb s e Hg). cbn [fullcode emb emb_with].
  change (pullv v (fullcode s ++ "__" ++ n)) with (v (L false (fullcode s ++ "__" ++ n))).
  now rewrite (ok_L_full _ _ _ Hok false s n Hg).
Qed.

(** rows of the embedded sector against rows of the sector (what RowsEmb.v proves per instance) *)
Definition rows_rel (s : sector) : Prop :=
  forall n, has_var s n = true -> var_row (E s) (N (is_market s) n) = emb_row M (is_market s) (var_row s n).

(** a lag source is read the same way whatever the flag of the owning sector *)
Definition lag_ok (s : sector) : Prop :=
  forall n src, has_var s n = true -> row_kind s n = KLag src -> T (is_market s) src = T false src.

Lemma has_var_emb_inv s n' : has_var (E s) n' = true -> exists n, n' = N (is_market s) n /\ has_var s n = true.
Proof.
  unfold has_var. cbn [vars emb emb_with]. unfold emb_vars. intros H.
  induction (vars s) as [|[k e] r IH]; [discriminate|]. cbn [map emb_var fst snd lookup_var] in *.
  destruct (String.eqb_spec n' (N (is_market s) k)) as [->|Hn].
  - exists k. split; [reflexivity|]. now rewrite String.eqb_refl.
  - destruct (IH H) as (n & -> & Hn'). exists n. split; [reflexivity|].
    destruct (String.eqb n k); [reflexivity|exact Hn'].
Qed.

Definition sat_zone (Z : zone) (w wp : string -> real) (b : string -> string -> real) : Prop :=
  forall s n, List.In s Z -> has_var s n = true ->
    match row_kind s n with
    | KDef _ => holds w b s n
    | KLag src => w (fullcode s ++ "__" ++ n) = wp src
    | KExo _ => True
    end.

Theorem sat_block Z : Forall G Z -> Forall rows_rel Z -> Forall lag_ok Z ->
  (sat_zone (map E Z) v vprev bv <-> sat_zone Z (pullv v) (pullp vprev) (pullb bv)).
Proof.
  intros HG HR HLg. rewrite Forall_forall in HG, HR, HLg. unfold sat_zone. split.
  - intros H s n Hs Hn. specialize (H (E s) (N (is_market s) n) (in_map _ _ _ Hs)).
    unfold emb in H. rewrite (has_var_emb M mcode G Hok) in H. specialize (H Hn). fold (emb M) in H.
    unfold row_kind in *. rewrite (HR s Hs n Hn) in H. unfold emb_row in H. cbn [r_kind] in H.
    destruct (r_kind (var_row s n)) as [t|src|t] eqn:Ek; cbn [map_kind] in H.
    + now apply (holds_emb s n (HG s Hs)).
    + unfold pullv, pullp. rewrite <- (HLg s Hs n src Hn Ek). cbn [fullcode emb emb_with] in H.
      now rewrite (ok_L_full _ _ _ Hok false s n (HG s Hs)).
    + exact I.
  - intros H s' n' Hs' Hn'. apply in_map_iff in Hs' as (s & <- & Hs).
    destruct (has_var_emb_inv s n' Hn') as (n & -> & Hn). specialize (H s n Hs Hn).
    unfold row_kind in *. rewrite (HR s Hs n Hn). unfold emb_row. cbn [r_kind].
    destruct (r_kind (var_row s n)) as [t|src|t] eqn:Ek; cbn [map_kind].
    + now apply (holds_emb s n (HG s Hs)).
    + unfold pullv, pullp in H. rewrite <- (HLg s Hs n src Hn Ek) in H. cbn [fullcode emb emb_with].
      now rewrite <- (ok_L_full _ _ _ Hok false s n (HG s Hs)).
    + exact I.
Qed.

End Sem.

Lemma sat_is_zone Ef w wp b : sat Ef w wp b <-> sat_zone (fs_zone Ef) w wp b.
Proof. reflexivity. Qed.

Lemma sat_zone_app (Z1 Z2 : zone) w wp b : sat_zone (Z1 ++ Z2)%list w wp b <-> sat_zone Z1 w wp b /\ sat_zone Z2 w wp b.
Proof.
  unfold sat_zone. split.
  - intros H. split; intros s n Hs Hn; apply H; try exact Hn; apply in_or_app; [now left|now right].
  - intros [H1 H2] s n Hs Hn. apply in_app_or in Hs as [Hs|Hs]; [now apply H1|now apply H2].
Qed.
