(** The constructors of the sector classes (GenMain2/Classes.v) and Sector.GenerateAssetWeighting
    (GenAsset/Weighting.v) commute with an embedding map that satisfies [Laws.emap_ok]: the object
    created inside the joint model is the embedding of the object created in the stand-alone model. *)
From Coq Require Import List String Ascii Bool ZArith Arith Lia.
From SFC.Base Require Import Res Str Sorting.
From SFC.Gen Require Import Fx Zone.
From SFC.GenTax Require Import Tax TaxProofs.
From SFC.GenAsset Require Import Common Weighting.
From SFC.GenMain2 Require Import Program Classes Main Ledger MainProofs.
From SFC.GenEmbed Require Import EmbDefs Laws Good ZoneEmb.
Import ListNotations.
Local Open Scope string_scope.

(* ------------------------------------------------------------------ *)
(** * Strings: texts without white space are left alone by Term(text, is_blob=True) *)

Lemma rstrip_clean t : clean t = true -> rstrip t = t.
Proof.
  induction t as [|c r IH]; [reflexivity|]. cbn [clean rstrip]. intros H. apply andb_true_iff in H as [Hc Hr].
  rewrite (IH Hr). destruct r; [|reflexivity]. apply negb_true_iff in Hc. now rewrite Hc.
Qed.

Lemma lstrip_clean t : clean t = true -> lstrip t = t.
Proof.
  destruct t as [|c r]; [reflexivity|]. cbn [clean lstrip]. intros H. apply andb_true_iff in H as [Hc _].
  apply negb_true_iff in Hc. now rewrite Hc.
Qed.

Lemma remove_sp_clean t : clean t = true -> remove_char " "%char t = t.
Proof.
  induction t as [|c r IH]; [reflexivity|]. cbn [clean remove_char]. intros H. apply andb_true_iff in H as [Hc Hr].
  rewrite (IH Hr). destruct (Ascii.eqb_spec c " "%char) as [->|_]; [cbv in Hc; discriminate Hc|reflexivity].
Qed.

Lemma squeeze_clean' t : clean t = true -> squeeze t = t.
Proof. intros H. unfold squeeze, strip. now rewrite (rstrip_clean t H), (lstrip_clean t H), (remove_sp_clean t H). Qed.

Lemma clean_app a b : clean (a ++ b) = clean a && clean b.
Proof. induction a as [|c r IH]; [reflexivity|]. cbn [append clean]. now rewrite IH, andb_assoc. Qed.

Lemma rstrip_app a b : rstrip b <> "" -> rstrip (a ++ b) = a ++ rstrip b.
Proof.
  intros Hb. induction a as [|c r IH]; [reflexivity|]. cbn [append rstrip]. rewrite IH.
  destruct (r ++ rstrip b) eqn:Ex; [|reflexivity]. exfalso. destruct r; [now apply Hb|discriminate Ex].
Qed.

Lemma remove_char_app x a b : remove_char x (a ++ b) = remove_char x a ++ remove_char x b.
Proof.
  induction a as [|c r IH]; [reflexivity|]. cbn [append remove_char]. rewrite IH.
  now destruct (Ascii.eqb c x).
Qed.

(** 'a - b' with clean non-empty operands is stored as 'a-b' *)
Lemma squeeze_mid a b : clean a = true -> clean b = true -> a <> "" -> b <> "" ->
  squeeze (a ++ String " " (String "-" (String " " b))) = a ++ String "-" b.
Proof.
  intros Ha Hb Na Nb. unfold squeeze, strip.
  assert (Hrb : rstrip b = b) by now apply rstrip_clean.
  assert (H1 : rstrip (String " " (String "-" (String " " b))) = String " " (String "-" (String " " b))).
  { change (String " " (String "-" (String " " b))) with (" - " ++ b). rewrite rstrip_app; rewrite Hrb; auto. }
  rewrite rstrip_app; rewrite H1; [|discriminate].
  assert (H2 : lstrip (a ++ String " " (String "-" (String " " b))) = a ++ String " " (String "-" (String " " b))).
  { destruct a as [|c r]; [now elim Na|]. cbn [append lstrip]. cbn [clean] in Ha. apply andb_true_iff in Ha as [Hc _].
    apply negb_true_iff in Hc. now rewrite Hc. }
  rewrite H2, remove_char_app, (remove_sp_clean a Ha).
  change (remove_char " " (String " " (String "-" (String " " b)))) with (String "-" (remove_char " " b)).
  now rewrite (remove_sp_clean b Hb).
Qed.

(* ------------------------------------------------------------------ *)
(** * Strings: no double underscore in a concatenation *)

Definition starts_us (s : string) : bool := match s with String c _ => Ascii.eqb c "_" | EmptyString => false end.
Fixpoint ends_us (s : string) : bool :=
  match s with EmptyString => false | String c EmptyString => Ascii.eqb c "_" | String _ r => ends_us r end.

Lemma prefix_nil s : String.prefix "" s = true.
Proof. now destruct s. Qed.

Lemma prefix_us s : String.prefix "_" s = starts_us s.
Proof.
  destruct s as [|d s]; [reflexivity|]. cbn [String.prefix starts_us].
  destruct (ascii_dec "_" d) as [<-|Hn]; [apply prefix_nil|].
  symmetry. apply Ascii.eqb_neq. congruence.
Qed.

Lemma hs_dd_cons c s : has_substring "__" (String c s) = (Ascii.eqb c "_" && starts_us s) || has_substring "__" s.
Proof.
  cbn [has_substring]. change (String.prefix "__" (String c s)) with
    (match ascii_dec "_" c with left _ => String.prefix "_" s | right _ => false end).
  destruct (ascii_dec "_" c) as [<-|Hn].
  - rewrite prefix_us. cbn [Ascii.eqb Bool.eqb andb]. now destruct (starts_us s).
  - assert (Hc : Ascii.eqb c "_" = false) by (apply Ascii.eqb_neq; congruence). now rewrite Hc.
Qed.

Lemma nodd_app a b : has_substring "__" a = false -> has_substring "__" b = false ->
  ends_us a && starts_us b = false -> has_substring "__" (a ++ b) = false.
Proof.
  induction a as [|c r IH]; intros Ha Hb He; [exact Hb|].
  cbn [append]. rewrite hs_dd_cons in Ha |- *.
  apply orb_false_iff in Ha as [Ha1 Ha2]. apply orb_false_iff. split.
  - destruct r as [|d r']; [exact He|exact Ha1].
  - apply IH; [exact Ha2|exact Hb|]. destruct r; [reflexivity|exact He].
Qed.

Lemma id_char_not_space c : is_id_char c = true -> is_space c = false.
Proof.
  destruct c as [[] [] [] [] [] [] [] []]; vm_compute; intros H; (reflexivity || discriminate H).
Qed.

Lemma all_id_clean s : all_id s = true -> clean s = true.
Proof.
  induction s as [|c r IH]; [reflexivity|]. cbn [all_id clean]. intros H. apply andb_true_iff in H as [Hc Hr].
  now rewrite (id_char_not_space c Hc), (IH Hr).
Qed.

Lemma ends_us_last s : ends_us s = match last_char s with Some z => is_underscore z | None => false end.
Proof.
  induction s as [|c r IH]; [reflexivity|]. destruct r as [|d r']; [reflexivity|].
  change (ends_us (String c (String d r'))) with (ends_us (String d r')).
  change (last_char (String c (String d r'))) with (last_char (String d r')). exact IH.
Qed.

Lemma cleancode_inv c : cleancode c = true ->
  clean c = true /\ has_substring "__" c = false /\ starts_us c = false /\ ends_us c = false /\ c <> "".
Proof.
  unfold cleancode. intros H. apply andb_true_iff in H as [H H4]. apply andb_true_iff in H as [H H3].
  apply andb_true_iff in H as [H1 H2]. apply negb_true_iff in H2.
  split; [now apply all_id_clean|]. split; [exact H2|]. split; [|split].
  - destruct c as [|a r]; [reflexivity|]. unfold is_letter, is_underscore in H3.
    apply andb_true_iff in H3 as [_ H3]. now apply negb_true_iff in H3.
  - rewrite ends_us_last. destruct (last_char c); [now apply negb_true_iff in H4|reflexivity].
  - destruct c; [discriminate H3|discriminate].
Qed.

Lemma numtext_inv t : numtext t = true -> squeeze t = t /\ has_substring "__" t = false.
Proof.
  unfold numtext, plainb. intros H. apply andb_true_iff in H as [H1 H2]. apply andb_true_iff in H2 as [H2 _].
  split; [now apply squeeze_clean'|now apply negb_true_iff in H2].
Qed.

(** the profit definitions of the two business classes, as stored *)
Lemma lit_code_nodd p c : has_substring "__" p = false -> cleancode c = true -> has_substring "__" (p ++ c) = false.
Proof.
  intros Hp Hc. destruct (cleancode_inv c Hc) as (_ & H2 & H3 & _). apply nodd_app; [exact Hp|exact H2|].
  rewrite H3. apply andb_false_r.
Qed.

Lemma diff_text_nodd a b : clean a = true -> clean b = true -> a <> "" -> b <> "" ->
  has_substring "__" a = false -> has_substring "__" b = false ->
  has_substring "__" (squeeze (a ++ String " " (String "-" (String " " b)))) = false.
Proof.
  intros Ca Cb Na Nb Ha Hb. rewrite (squeeze_mid a b Ca Cb Na Nb). apply nodd_app; [exact Ha| |apply andb_false_r].
  rewrite hs_dd_cons. exact Hb.
Qed.

Lemma prof_text_nodd out lab : cleancode out = true -> cleancode lab = true ->
  has_substring "__" (squeeze ("SUP_" ++ out ++ " - DEM_" ++ lab)) = false.
Proof.
  intros Ho Hl. change ("SUP_" ++ out ++ " - DEM_" ++ lab) with (("SUP_" ++ out) ++ String " " (String "-" (String " " ("DEM_" ++ lab)))).
  destruct (cleancode_inv out Ho) as (Co & _). destruct (cleancode_inv lab Hl) as (Cl & _).
  apply diff_text_nodd; try discriminate.
  - rewrite clean_app, Co. reflexivity.
  - rewrite clean_app, Cl. reflexivity.
  - now apply lit_code_nodd.
  - now apply lit_code_nodd.
Qed.

Lemma prof_multi_text_nodd lab : cleancode lab = true ->
  has_substring "__" (squeeze ("SUP - DEM_" ++ lab)) = false.
Proof.
  intros Hl. change ("SUP - DEM_" ++ lab) with ("SUP" ++ String " " (String "-" (String " " ("DEM_" ++ lab)))).
  destruct (cleancode_inv lab Hl) as (Cl & _).
  apply diff_text_nodd; try discriminate; try reflexivity.
  - rewrite clean_app, Cl. reflexivity.
  - now apply lit_code_nodd.
Qed.

(* ------------------------------------------------------------------ *)
(** * Facts about the constructors that do not involve the embedding *)

Lemma addv_is_market s n t s' : addv s n t = Ok s' -> is_market s' = is_market s.
Proof. intros H. apply addv_frame in H. now apply MainProofs.frame_is_market. Qed.

Lemma addvs_frame : forall l s s', addvs s l = Ok s' -> frame s s'.
Proof.
  induction l as [|[n t] l IH]; intros s s' H; cbn [addvs] in H.
  - injection H as <-. apply frame_refl.
  - destruct (addv s n t) as [s1|] eqn:E1; [|discriminate H]. cbn [bind] in H.
    eapply frame_trans; [eapply addv_frame; exact E1|now apply IH].
Qed.

Lemma addvs_is_market l s s' : addvs s l = Ok s' -> is_market s' = is_market s.
Proof. intros H. apply addvs_frame in H. now apply MainProofs.frame_is_market. Qed.

Lemma add_market_frame s m s' : add_market s m = Ok s' -> frame s s'.
Proof.
  intros H. pose proof (add_markets_lstep [m] s s') as L. cbn [add_markets] in L. rewrite H in L.
  exact (ls_frame _ _ _ (L eq_refl)).
Qed.

Lemma add_markets_frame l s s' : add_markets s l = Ok s' -> frame s s'.
Proof. intros H. exact (ls_frame _ _ _ (add_markets_lstep l s s' H)). Qed.

Lemma set_rhs_frame s n t s' : set_rhs s n t = Some s' -> frame s s'.
Proof. unfold set_rhs. destruct (lookup_var n (vars s)); [|discriminate]. intros H. injection H as <-. apply frame_with_vars. Qed.

Lemma construct_shift o i cc c k mrefs : construct i cc c (shift_cls o k) mrefs = construct i cc c k mrefs.
Proof. destruct k; reflexivity. Qed.

Lemma bare_static i c cc k :
  is_market (bare i c cc k) = cls_is_market k /\
  (is_market (bare i c cc k) = true -> hasF (bare i c cc k) = false) /\
  (forall e, List.In e (excl (bare i c cc k)) -> exists good, e = "DEM_" ++ good /\
     match k with CHousehold _ _ g _ | CHouseholdExp _ _ g _ | CCapitalists _ _ g => g = good | _ => False end).
Proof.
  destruct k; unfold bare, base_sector; cbn [is_market hasF excl cls_is_market];
    (split; [reflexivity|]); (split; [intros H; first [reflexivity|discriminate H]|]);
    intros e He; cbn [List.In] in He; try contradiction.
  - destruct He as [<-|[]]. now exists good.
  - destruct He as [<-|[]]. now exists good.
  - destruct He as [<-|[]]. now exists good.
Qed.

Theorem construct_static i cc c k mrefs s : construct i cc c k mrefs = Ok s ->
  sid s = i /\ code s = c /\ country s = cc /\ fullcode s = "" /\ is_market s = cls_is_market k /\
  (is_market s = true -> hasF s = false) /\
  (forall e, List.In e (excl s) -> exists good, e = "DEM_" ++ good /\
     (match k with CHousehold _ _ g _ | CHouseholdExp _ _ g _ | CCapitalists _ _ g => g = good | _ => False end)).
Proof.
  intros H. destruct (construct_facts _ _ _ _ _ _ H) as (F1 & F2 & F3 & F4 & _).
  pose proof (ls_frame _ _ _ (construct_lstep _ _ _ _ _ _ H)) as Hf.
  destruct (bare_static i c cc k) as (B1 & B2 & B3).
  repeat (split; [assumption|]).
  rewrite (MainProofs.frame_is_market _ _ Hf), (frame_hasF _ _ Hf), (frame_excl _ _ Hf).
  repeat split; assumption.
Qed.

(* ------------------------------------------------------------------ *)
(** * The constructors commute with the embedding *)

Section ClassEmb.
Variables (M : emap) (mcode : string -> Prop) (G : sector -> Prop).
Hypothesis Hok : emap_ok M mcode G.
Variable fc : string -> string.

Notation E := (emb_with fc M).
Notation N := (e_N M).
Notation L := (e_L M).
Notation T := (e_T M).
Notation off := (e_off M).

(** AddVariable with related names and texts *)
Lemma addv_emb_gen s n n' t t' : n' = N (is_market s) n -> squeeze t' = T (is_market s) (squeeze t) ->
  addv (E s) n' t' = rmap E (addv s n t).
Proof.
  intros -> Ht. unfold addv. rewrite (N_dd M mcode G Hok). destruct (has_substring "__" n); [reflexivity|].
  cbn [rmap]. f_equal. rewrite Ht. apply (add_variable_emb M mcode G Hok).
Qed.

Lemma addv_emb s n t : clean t = true ->
  addv (E s) (e_N M (is_market s) n) (e_T M (is_market s) t) = rmap E (addv s n t).
Proof.
  intros Hc. apply addv_emb_gen; [reflexivity|].
  rewrite (squeeze_clean' t Hc). apply squeeze_clean'. now apply (ok_T_clean _ _ _ Hok).
Qed.

(** the same name and text on both sides *)
Definition fixes (b : bool) (nt : string * string) : Prop :=
  N b (fst nt) = fst nt /\ T b (squeeze (snd nt)) = squeeze (snd nt).

Lemma fixes_false n t : has_substring "__" (squeeze t) = false -> fixes false (n, t).
Proof. intros H. split; [reflexivity|]. now apply (ok_T_false _ _ _ Hok). Qed.

Lemma fixes_plain b n t : String.prefix "SUP_" n = false -> plain (squeeze t) -> fixes b (n, t).
Proof. intros H1 H2. split; [now apply (N_lit M mcode G Hok)|now apply (ok_T_plain _ _ _ Hok)]. Qed.

Lemma fixes_own b c t : mcode c -> plain (squeeze t) -> fixes b ("SUP_" ++ c, t).
Proof.
  intros H1 H2. split; [|now apply (ok_T_plain _ _ _ Hok)]. cbn [fst]. destruct b; [|reflexivity].
  exact (ok_Nm_own _ _ _ Hok c H1).
Qed.

Lemma addv_fix s n t : fixes (is_market s) (n, t) -> addv (E s) n t = rmap E (addv s n t).
Proof. intros [H1 H2]. apply addv_emb_gen; symmetry; assumption. Qed.

Lemma addvs_fix l : forall s, Forall (fixes (is_market s)) l -> addvs (E s) l = rmap E (addvs s l).
Proof.
  induction l as [|[n t] l IH]; intros s HF; [reflexivity|].
  inversion HF as [|x y H1 HF']; subst. cbn [addvs]. rewrite (addv_fix s n t H1).
  destruct (addv s n t) as [s1|] eqn:E1; cbn [rmap bind]; [|reflexivity].
  apply IH. now rewrite (addv_is_market _ _ _ _ E1).
Qed.

Lemma addv_false s n t : is_market s = false -> has_substring "__" (squeeze t) = false ->
  addv (E s) n t = rmap E (addv s n t).
Proof. intros Hs Ht. apply addv_fix. rewrite Hs. now apply fixes_false. Qed.

Lemma set_rhs_false s n t : is_market s = false -> has_substring "__" t = false ->
  set_rhs (E s) n t = option_map E (set_rhs s n t).
Proof.
  intros Hs Ht. pose proof (set_rhs_emb M mcode G Hok fc s n t) as H. rewrite Hs in H.
  rewrite (ok_T_false _ _ _ Hok t Ht) in H. exact H.
Qed.

Lemma base_sector_emb i c cc hf tx mk ex : fc "" = "" ->
  E (base_sector i c cc hf tx mk ex) = base_sector (i + off) c cc hf tx mk ex.
Proof.
  intros Hfc. unfold base_sector, emb_with. cbn [sid code country fullcode hasF taxable is_market excl vars].
  rewrite Hfc. f_equal. destruct hf; [|reflexivity].
  unfold ledger_vars, emb_vars. cbn [map]. unfold emb_var, emb_eqn. cbn [fst snd blob terms map]. unfold emb_term. cbn [fst snd map].
  rewrite (T_nil M mcode G Hok), (N_lit M mcode G Hok mk "F"), (N_lit M mcode G Hok mk "INC"), (N_lit M mcode G Hok mk "LAG_F") by reflexivity.
  rewrite (L_lit M mcode G Hok mk "LAG_F") by reflexivity.
  rewrite (ok_T_plain _ _ _ Hok mk "F(k-1)") by (split; reflexivity). reflexivity.
Qed.

Ltac lit_false := apply fixes_false; vm_compute; reflexivity.

Lemma base_household_emb i c cc ai af good : fc "" = "" -> numtext ai = true -> numtext af = true ->
  base_household (i + off) c cc ai af good = rmap E (base_household i c cc ai af good).
Proof.
  intros Hfc H1 H2. unfold base_household. rewrite <- (base_sector_emb i c cc true true false ["DEM_" ++ good] Hfc).
  destruct (numtext_inv ai H1) as [A1 A2]. destruct (numtext_inv af H2) as [B1 B2].
  apply addvs_fix. cbn [is_market base_sector].
  apply Forall_cons; [apply fixes_false; now rewrite A1|].
  apply Forall_cons; [apply fixes_false; now rewrite B1|].
  repeat (apply Forall_cons; [lit_false|]). apply Forall_nil.
Qed.

Lemma base_household_is_market i c cc ai af good s : base_household i c cc ai af good = Ok s -> is_market s = false.
Proof. intros H. unfold base_household in H. now rewrite (addvs_is_market _ _ _ H). Qed.

Lemma plain_sq_nil : plain (squeeze ""). Proof. split; reflexivity. Qed.

Lemma base_market_emb i c cc : fc "" = "" -> mcode c ->
  base_market (i + off) c cc = rmap E (base_market i c cc).
Proof.
  intros Hfc Hc. unfold base_market. rewrite <- (base_sector_emb i c cc false false true [] Hfc).
  apply addvs_fix.
  apply Forall_cons; [apply fixes_own; [exact Hc|exact plain_sq_nil]|].
  apply Forall_cons; [apply fixes_plain; [reflexivity|exact plain_sq_nil]|]. apply Forall_nil.
Qed.

Lemma base_market_is_market i c cc s : base_market i c cc = Ok s -> is_market s = true.
Proof. intros H. unfold base_market in H. now rewrite (addvs_is_market _ _ _ H). Qed.

Lemma add_market_false s m : is_market s = false -> add_market (E s) m = rmap E (add_market s m).
Proof.
  intros Hs. unfold add_market. change (country (E s)) with (country s).
  set (t := if String.eqb (snd m) (country s) then "SUP_" ++ fst m else "SUP_" ++ snd m ++ "_" ++ fst m).
  rewrite (addv_false s t "" Hs) by reflexivity.
  destruct (addv s t "") as [s1|] eqn:E1; cbn [rmap bind]; [|reflexivity].
  assert (Ht : has_substring "__" t = false).
  { unfold addv in E1. destruct (has_substring "__" t); [discriminate E1|reflexivity]. }
  assert (Hs1 : is_market s1 = false) by now rewrite (addv_is_market _ _ _ _ E1).
  pose proof (add_term_to_eq_emb M mcode G Hok fc s1 "SUP" (1%Z, [t])) as HA. rewrite Hs1 in HA.
  unfold emb_term in HA. cbn [fst snd map] in HA. rewrite (ok_L_local _ _ _ Hok false t Ht) in HA.
  change (N false t) with t in HA. change (N false "SUP") with "SUP" in HA. rewrite HA.
  destruct (add_term_to_eq s1 "SUP" (1%Z, [t])); reflexivity.
Qed.

Lemma add_markets_false l : forall s, is_market s = false -> add_markets (E s) l = rmap E (add_markets s l).
Proof.
  induction l as [|m l IH]; intros s Hs; [reflexivity|]. cbn [add_markets]. rewrite (add_market_false s m Hs).
  destruct (add_market s m) as [s1|] eqn:E1; cbn [rmap bind]; [|reflexivity].
  apply IH. now rewrite (MainProofs.frame_is_market _ _ (add_market_frame _ _ _ E1)).
Qed.

Theorem construct_emb i cc c k mrefs : cls_ok k = true -> (cls_is_market k = true -> mcode c) -> fc "" = "" ->
  construct (i + off) cc c (shift_cls off k) mrefs = rmap E (construct i cc c k mrefs).
Proof.
  intros Hk Hm Hfc. rewrite construct_shift.
  destruct k as [| |t|ai af good lab|ai af good lab|ai af good|mz wage margin lab out|mz wage lab ms|rate paid| |issuer|issuer];
    cbn [cls_ok cls_is_market] in Hk, Hm; unfold construct.
  - (* ConsolidatedGovernment *)
    rewrite <- (base_sector_emb i c cc true false false [] Hfc). apply addvs_fix.
    repeat (apply Forall_cons; [lit_false|]). apply Forall_nil.
  - (* Treasury *)
    rewrite <- (base_sector_emb i c cc true false false [] Hfc). apply addvs_fix.
    repeat (apply Forall_cons; [lit_false|]). apply Forall_nil.
  - (* CentralBank *)
    rewrite <- (base_sector_emb i c cc true false false [] Hfc). apply addvs_fix.
    repeat (apply Forall_cons; [lit_false|]). apply Forall_nil.
  - (* Household *)
    apply andb_true_iff in Hk as [Hk _]. apply andb_true_iff in Hk as [Hk _]. apply andb_true_iff in Hk as [K1 K2].
    rewrite (base_household_emb i c cc ai af good Hfc K1 K2).
    destruct (base_household i c cc ai af good) as [s|] eqn:E0; cbn [rmap bind]; [|reflexivity].
    apply addv_false; [eapply base_household_is_market; exact E0|reflexivity].
  - (* HouseholdWithExpectations *)
    apply andb_true_iff in Hk as [Hk _]. apply andb_true_iff in Hk as [Hk _]. apply andb_true_iff in Hk as [K1 K2].
    rewrite (base_household_emb i c cc ai af good Hfc K1 K2).
    destruct (base_household i c cc ai af good) as [s|] eqn:E0; cbn [rmap bind]; [|reflexivity].
    assert (Hs : is_market s = false) by (eapply base_household_is_market; exact E0).
    rewrite (addv_false s ("SUP_" ++ lab) "0." Hs) by reflexivity.
    destruct (addv s ("SUP_" ++ lab) "0.") as [s1|] eqn:E1; cbn [rmap bind]; [|reflexivity].
    assert (Hs1 : is_market s1 = false) by now rewrite (addv_is_market _ _ _ _ E1).
    rewrite (set_rhs_false s1 ("DEM_" ++ good) _ Hs1) by (vm_compute; reflexivity).
    destruct (set_rhs s1 ("DEM_" ++ good) _) as [s2|] eqn:E2; cbn [option_map]; [|reflexivity].
    assert (Hs2 : is_market s2 = false) by now rewrite (MainProofs.frame_is_market _ _ (set_rhs_frame _ _ _ _ E2)).
    apply addvs_fix. rewrite Hs2. repeat (apply Forall_cons; [lit_false|]). apply Forall_nil.
  - (* Capitalists *)
    apply andb_true_iff in Hk as [Hk _]. apply andb_true_iff in Hk as [K1 K2].
    rewrite (base_household_emb i c cc ai af good Hfc K1 K2).
    destruct (base_household i c cc ai af good) as [s|] eqn:E0; cbn [rmap bind]; [|reflexivity].
    apply addv_false; [eapply base_household_is_market; exact E0|reflexivity].
  - (* FixedMarginBusiness *)
    apply andb_true_iff in Hk as [Hk K4]. apply andb_true_iff in Hk as [_ K3].
    rewrite <- (base_sector_emb i c cc true false false [] Hfc). apply addvs_fix.
    apply Forall_cons; [lit_false|].
    apply Forall_cons; [apply fixes_false; now apply prof_text_nodd|].
    apply Forall_cons; [lit_false|]. apply Forall_nil.
  - (* FixedMarginBusinessMultiOutput *)
    apply andb_true_iff in Hk as [_ K3].
    rewrite <- (base_sector_emb i c cc true false false [] Hfc).
    rewrite (addv_false (base_sector i c cc true false false []) "SUP" "" eq_refl) by reflexivity.
    destruct (addv (base_sector i c cc true false false []) "SUP" "") as [s|] eqn:E0; cbn [rmap bind]; [|reflexivity].
    assert (Hs : is_market s = false) by now rewrite (addv_is_market _ _ _ _ E0).
    rewrite (add_markets_false mrefs s Hs).
    destruct (add_markets s mrefs) as [s1|] eqn:E1; cbn [rmap bind]; [|reflexivity].
    assert (Hs1 : is_market s1 = false) by now rewrite (MainProofs.frame_is_market _ _ (add_markets_frame _ _ _ E1)).
    apply addvs_fix. rewrite Hs1.
    apply Forall_cons; [apply fixes_false; now apply prof_multi_text_nodd|].
    apply Forall_cons; [lit_false|]. apply Forall_nil.
  - (* TaxFlow *)
    destruct (numtext_inv rate Hk) as [R1 R2].
    rewrite <- (base_sector_emb i c cc false false false [] Hfc). apply addvs_fix.
    apply Forall_cons; [apply fixes_false; now rewrite R1|].
    apply Forall_cons; [lit_false|]. apply Forall_nil.
  - (* Market *)
    apply base_market_emb; [exact Hfc|now apply Hm].
  - (* MoneyMarket *)
    apply base_market_emb; [exact Hfc|now apply Hm].
  - (* DepositMarket *)
    rewrite (base_market_emb i c cc Hfc (Hm eq_refl)).
    destruct (base_market i c cc) as [s|] eqn:E0; cbn [rmap bind]; [|reflexivity].
    apply addvs_fix. rewrite (base_market_is_market _ _ _ _ E0).
    repeat (apply Forall_cons; [apply fixes_plain; [reflexivity|split; reflexivity]|]). apply Forall_nil.
Qed.

(* ------------------------------------------------------------------ *)
(** * Sector.GenerateAssetWeighting *)

Definition wmap (b : bool) (cw : string * string) : string * string := (fst cw, T b (snd cw)).

Lemma dict_set_map b k v d : dict_set k (T b v) (map (wmap b) d) = map (wmap b) (dict_set k v d).
Proof.
  induction d as [|[k' v'] r IH]; [reflexivity|]. cbn [map dict_set wmap fst snd].
  destruct (String.eqb k k'); cbn [map wmap fst snd]; [reflexivity|]. f_equal. exact IH.
Qed.

Lemma dict_fold_map b ws : forall d,
  fold_left (fun d kv => dict_set (fst kv) (snd kv) d) (map (wmap b) ws) (map (wmap b) d)
  = map (wmap b) (fold_left (fun d kv => dict_set (fst kv) (snd kv) d) ws d).
Proof.
  induction ws as [|[k v] r IH]; intros d; [reflexivity|]. cbn [map fold_left wmap fst snd].
  rewrite dict_set_map. apply IH.
Qed.

Lemma dict_of_pairs_map b ws : dict_of_pairs (map (wmap b) ws) = map (wmap b) (dict_of_pairs ws).
Proof. unfold dict_of_pairs. exact (dict_fold_map b ws []). Qed.

Lemma dict_set_forallb (P : string -> bool) k v d :
  P v = true -> forallb (fun cw => P (snd cw)) d = true -> forallb (fun cw => P (snd cw)) (dict_set k v d) = true.
Proof.
  intros Hv. induction d as [|[k' v'] r IH]; intros Hd; cbn [dict_set forallb snd]; [now rewrite Hv|].
  cbn [forallb snd] in Hd. apply andb_true_iff in Hd as [H1 H2].
  destruct (String.eqb k k'); cbn [forallb snd]; [now rewrite Hv, H2|now rewrite H1, (IH H2)].
Qed.

Lemma dict_of_pairs_forallb (P : string -> bool) ws :
  forallb (fun cw => P (snd cw)) ws = true -> forallb (fun cw => P (snd cw)) (dict_of_pairs ws) = true.
Proof.
  unfold dict_of_pairs. intros H.
  assert (K : forall d, forallb (fun cw => P (snd cw)) d = true ->
              forallb (fun cw => P (snd cw)) (fold_left (fun d kv => dict_set (fst kv) (snd kv) d) ws d) = true).
  { induction ws as [|[k v] r IH]; intros d Hd; [exact Hd|]. cbn [fold_left fst snd].
    cbn [forallb snd] in H. apply andb_true_iff in H as [H1 H2]. apply (IH H2). now apply dict_set_forallb. }
  now apply K.
Qed.

Lemma wgt_not_sup c : String.prefix "SUP_" (wgt_name c) = false. Proof. reflexivity. Qed.
Lemma dem_not_sup c : String.prefix "SUP_" (dem_name c) = false. Proof. reflexivity. Qed.

Lemma demand_def_emb b c : has_substring "__" (wgt_name c) = false ->
  map (emb_term M b) (demand_def c) = demand_def c.
Proof.
  intros H. unfold demand_def, emb_term. cbn [map fst snd].
  rewrite (L_lit M mcode G Hok b "F") by reflexivity.
  now rewrite (L_lit M mcode G Hok b (wgt_name c) H (wgt_not_sup c)).
Qed.

Lemma def_variable_lit s n ts : String.prefix "SUP_" n = false ->
  def_variable (E s) n (map (emb_term M (is_market s)) ts) = E (def_variable s n ts).
Proof.
  intros H. rewrite <- (N_lit M mcode G Hok (is_market s) n H) at 1. apply (def_variable_emb M mcode G Hok).
Qed.

Definition wres (b : bool) (x : sector * list term) : sector * list term := (E (fst x), map (emb_term M b) (snd x)).

Lemma weighting_loop_emb d : forall s resid, forallb (fun cw => clean (snd cw)) d = true ->
  weighting_loop (E s) (map (wmap (is_market s)) d) (map (emb_term M (is_market s)) resid)
  = rmap (wres (is_market s)) (weighting_loop s d resid).
Proof.
  induction d as [|[c w] r IH]; intros s resid Hd; [reflexivity|].
  cbn [forallb snd] in Hd. apply andb_true_iff in Hd as [Hw Hr].
  cbn [map wmap fst snd weighting_loop].
  destruct (has_substring "__" (wgt_name c)) eqn:H1; [reflexivity|].
  destruct (has_substring "__" (dem_name c)) eqn:H2; [reflexivity|].
  rewrite (squeeze_clean' w Hw), (squeeze_clean' _ (ok_T_clean _ _ _ Hok (is_market s) w Hw)).
  rewrite <- (N_lit M mcode G Hok (is_market s) (wgt_name c) (wgt_not_sup c)) at 1.
  rewrite (add_variable_emb M mcode G Hok).
  set (s1 := add_variable s (wgt_name c) w).
  change (is_market s) with (is_market s1).
  rewrite <- (demand_def_emb (is_market s1) c H1) at 1.
  rewrite (def_variable_lit s1 (dem_name c) (demand_def c) (dem_not_sup c)).
  set (s2 := def_variable s1 (dem_name c) (demand_def c)).
  change (is_market s1) with (is_market s2).
  replace (map (emb_term M (is_market s2)) resid ++ [((-1)%Z, [wgt_name c])])%list
    with (map (emb_term M (is_market s2)) (resid ++ [((-1)%Z, [wgt_name c])])%list).
  - apply IH. exact Hr.
  - rewrite map_app. f_equal. unfold emb_term. cbn [map fst snd].
    now rewrite (L_lit M mcode G Hok (is_market s2) (wgt_name c) H1 (wgt_not_sup c)).
Qed.

Lemma weighting_loop_is_market d : forall s resid x, weighting_loop s d resid = Ok x -> is_market (fst x) = is_market s.
Proof.
  induction d as [|[c w] r IH]; intros s resid x H; cbn [weighting_loop] in H.
  - injection H as <-. reflexivity.
  - destruct (has_substring "__" (wgt_name c)); [discriminate H|].
    destruct (has_substring "__" (dem_name c)); [discriminate H|].
    now rewrite (IH _ _ _ H).
Qed.

Theorem asset_weighting_emb s ws res : forallb (fun cw => clean (snd cw)) ws = true ->
  asset_weighting (E s) (map (fun cw => (fst cw, e_T M (is_market s) (snd cw))) ws) res false
  = rmap E (asset_weighting s ws res false).
Proof.
  intros Hc. unfold asset_weighting. fold (wmap (is_market s)). rewrite dict_of_pairs_map.
  pose proof (weighting_loop_emb (dict_of_pairs ws) s [(1%Z, [])] (dict_of_pairs_forallb clean ws Hc)) as HW.
  change (map (emb_term M (is_market s)) [(1%Z, [])]) with [(1%Z, @nil string)] in HW. rewrite HW.
  destruct (weighting_loop s (dict_of_pairs ws) [(1%Z, [])]) as [[s1 resid]|] eqn:E1; cbn [rmap bind wres fst snd]; [|reflexivity].
  pose proof (weighting_loop_is_market _ _ _ _ E1) as Hs1. cbn [fst] in Hs1. rewrite <- Hs1.
  destruct (has_substring "__" (wgt_name res)) eqn:H1; [reflexivity|].
  destruct (has_substring "__" (dem_name res)) eqn:H2; [reflexivity|].
  cbn [rmap]. f_equal. rewrite (def_variable_lit s1 (wgt_name res) resid (wgt_not_sup res)).
  set (s2 := def_variable s1 (wgt_name res) resid).
  rewrite <- (demand_def_emb (is_market s2) res H1) at 1.
  apply def_variable_lit. apply dem_not_sup.
Qed.

End ClassEmb.

Print Assumptions addv_emb.
Print Assumptions construct_emb.
Print Assumptions construct_static.
Print Assumptions asset_weighting_emb.
