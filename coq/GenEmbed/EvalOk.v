(** The decidable side condition [embed_ok] of the embedding theorem: static conditions on the
    programs plus conditions evaluated on each economy's own stand-alone run, and their reflection
    into the propositions the proofs use. *)
From Coq Require Import List String Ascii Bool ZArith Arith Lia.
From SFC.Base Require Import Res Str Sorting.
From SFC.Gen Require Import Fx Zone.
From SFC.GenMarket Require Import Market.
From SFC.GenTax Require Import Tax TaxProofs DividendProofs.
From SFC.GenMain2 Require Import Program Classes Main Ledger MainProofs Names Program2 Main2.
From SFC.GenEmbed Require Import EmbDefs JointDefs Laws Good ZoneEmb Block ClassEmb TokenMap PrefixLaws ConsEmb ConsRun ExtReg
  Items AssembleC AssembleK GenEmb FlowEmb Rounds AssembleM RowsDefs.
Import ListNotations.
Local Open Scope string_scope.

Definition not_market (Z : zone) (j : nat) : bool :=
  match find_sec j Z with Some s => negb (is_market s) | None => true end.

Definition call_okb (I : ginfo) (Zi : zone) (i : nat) (k : cls) : bool :=
  match k with
  | CHousehold ai af _ _ | CHouseholdExp ai af _ _ | CCapitalists ai af _ => plainb ai && plainb af
  | CBusiness _ wage margin _ _ => plainb wage && plainb margin
  | CBusinessMulti _ wage _ _ => plainb wage
  | CTaxFlow rate _ => plainb rate
  | CMarket =>
      match find_sec i Zi with
      | None => true
      | Some mk =>
          is_market mk && forallb (not_market Zi) (map fst (snd (sup_of i (i_sup I)))) &&
          match the_residual Zi mk (fst (sup_of i (i_sup I))) with Ok r => not_market Zi r | Err _ => true end
      end
  | _ => true
  end.

Lemma plainb_plain t : plainb t = true -> plain t.
Proof. unfold plainb, plain. intros H. apply andb_true_iff in H as [H1 H2]. split; now apply negb_true_iff. Qed.

Lemma call_okb_ok I Zi i k : call_okb I Zi i k = true -> call_ok I Zi i k.
Proof.
  destruct k; cbn [call_okb call_ok]; try (intros _; exact Logic.I).
  - intros H. apply andb_true_iff in H as [H1 H2]. split; now apply plainb_plain.
  - intros H. apply andb_true_iff in H as [H1 H2]. split; now apply plainb_plain.
  - intros H. apply andb_true_iff in H as [H1 H2]. split; now apply plainb_plain.
  - intros H. apply andb_true_iff in H as [H1 H2]. split; now apply plainb_plain.
  - apply plainb_plain.
  - apply plainb_plain.
  - intros H mk Fm. rewrite Fm in H. apply andb_true_iff in H as [H H3]. apply andb_true_iff in H as [H1 H2].
    split; [exact H1|]. split.
    + intros j s Hj Fs. rewrite forallb_forall in H2. specialize (H2 j Hj). unfold not_market in H2. rewrite Fs in H2. now apply negb_true_iff.
    + intros r s Hr Fs. rewrite Hr in H3. unfold not_market in H3. rewrite Fs in H3. now apply negb_true_iff.
Qed.

Fixpoint calls_okb (ns : nat) (I : ginfo) (calls : list (nat * cls)) (gs : gstate) : bool :=
  match calls with
  | [] => true
  | ik :: r => Nat.ltb (fst ik) ns && call_okb I (g_zone gs) (fst ik) (snd ik) &&
               match gen_step I gs ik with Ok g' => calls_okb ns I r g' | Err _ => true end
  end.

Lemma calls_okb_ok ns I : forall calls gs, calls_okb ns I calls gs = true -> calls_ok ns I calls gs.
Proof.
  induction calls as [|ik r IH]; intros gs H; [exact Logic.I|]. cbn [calls_okb calls_ok] in *.
  apply andb_true_iff in H as [H H3]. apply andb_true_iff in H as [H1 H2]. split; [now apply Nat.ltb_lt|].
  split; [now apply call_okb_ok|]. destruct (gen_step I gs ik); [now apply IH|exact Logic.I].
Qed.

Definition flow_refs_okb (ns : nat) (f : flow) : bool :=
  Nat.ltb (fst (fst (fst (fst f)))) ns && match snd (fst (fst (fst f))) with Some tg => Nat.ltb tg ns | None => true end.

Lemma flow_refs_okb_ok ns f : flow_refs_okb ns f = true -> flow_refs_ok ns f.
Proof.
  unfold flow_refs_okb, flow_refs_ok. intros H. apply andb_true_iff in H as [H1 H2]. split; [now apply Nat.ltb_lt|].
  intros tg E. rewrite E in H2. now apply Nat.ltb_lt.
Qed.

(** a lagged row of a market sector names its source the same way as any other sector would (the
    source text contains no bare supply/allocation name SUP_<code>); used by the semantic corollary *)
Definition lag_secb (cc : string) (mk : string -> bool) (s : sector) : bool :=
  negb (is_market s) ||
  forallb (fun n => match r_kind (var_row s n) with
                    | KLag src => String.eqb (Tp cc mk true src) (Tp cc mk false src)
                    | _ => true
                    end) (map fst (vars s)).

Section Eval.
Variable g : bool.

Definition cGb (p : program) (s : sector) : bool :=
  if gains_prefix g p then good_p (first_code p) (mkc p) s else good_i s.

Lemma cGb_ok p s : cGb p s = true -> cG g p s.
Proof. unfold cGb, cG. now destruct (gains_prefix g p). Qed.

(** conditions evaluated on the stand-alone construction state and run of one economy *)
Definition comp_evalb (p : program) : bool :=
  match construct_all p with
  | Err _ => true
  | Ok C =>
      let ns := nsectors p in
      let I := mkI (c_classes C) (c_sup C) in
      forallb (cGb p) (zone0 C) &&
      calls_okb ns I (calls_i C) (mkG (zone0 C) (c_flows C)) &&
      forallb (fun i => forallb (fun j => Nat.ltb j ns) (sup_refs (sup_of i (c_sup C)))) (seq 0 ns) &&
      forallb (flow_refs_okb ns) (c_flows C ++ flat_map gen_flows (calls_i C)) &&
      forallb (fun x => Nat.ltb (fst (fst x)) ns && exo_ok (snd x)) (c_exo C) &&
      forallb (fun x => Nat.ltb (fst (fst x)) ns) (c_ic C) &&
      match build p with
      | Ok E => if gains_prefix g p
                then forallb (fun s => text_ok s && lag_secb (first_code p) (fun X => mem X (market_codes p)) s) (fs_zone E)
                else true
      | Err _ => true
      end
  end.

Lemma comp_evalb_ok p C : comp_evalb p = true -> construct_all p = Ok C -> comp_run_ok g p C.
Proof.
  unfold comp_evalb. intros H HC. rewrite HC in H. cbv zeta in H.
  apply andb_true_iff in H as [H _]. apply andb_true_iff in H as [H H6]. apply andb_true_iff in H as [H H5].
  apply andb_true_iff in H as [H H4]. apply andb_true_iff in H as [H H3]. apply andb_true_iff in H as [H1 H2].
  constructor.
  - apply Forall_forall. intros s Hs. rewrite forallb_forall in H1. now apply cGb_ok, H1.
  - now apply calls_okb_ok.
  - intros i j Hi Hj. rewrite forallb_forall in H3. specialize (H3 i). rewrite forallb_forall in H3.
    apply Nat.ltb_lt. apply H3; [apply in_seq; lia|exact Hj].
  - intros f Hf. rewrite forallb_forall in H4. now apply flow_refs_okb_ok, H4.
  - intros x Hx. rewrite forallb_forall in H5. specialize (H5 x Hx). apply andb_true_iff in H5 as [A B]. split; [now apply Nat.ltb_lt|exact B].
  - intros x Hx. rewrite forallb_forall in H6. now apply Nat.ltb_lt, H6.
Qed.

Lemma comp_evalb_text p E : comp_evalb p = true -> build p = Ok E -> gains_prefix g p = true -> Forall (fun s => text_ok s = true) (fs_zone E).
Proof.
  unfold comp_evalb. intros H HE Hg. unfold build, build_run in HE.
  destruct (construct_all p) as [C|] eqn:HC; [|discriminate]. cbv zeta in H.
  apply andb_true_iff in H as [_ H]. unfold build, build_run in H. rewrite HC in H. cbn [bind] in H, HE.
  destruct (main_run C) as [R|]; [|discriminate]. cbn [bind] in H, HE. inversion HE. subst E.
  rewrite Hg in H. apply Forall_forall. intros s Hs. rewrite forallb_forall in H. specialize (H s Hs).
  now apply andb_true_iff in H as [H _].
Qed.

Lemma comp_evalb_lag p E : comp_evalb p = true -> build p = Ok E -> gains_prefix g p = true ->
  Forall (fun s => lag_secb (first_code p) (fun X => mem X (market_codes p)) s = true) (fs_zone E).
Proof.
  unfold comp_evalb. intros H HE Hg. unfold build, build_run in HE.
  destruct (construct_all p) as [C|] eqn:HC; [|discriminate]. cbv zeta in H.
  apply andb_true_iff in H as [_ H]. unfold build, build_run in H. rewrite HC in H. cbn [bind] in H, HE.
  destruct (main_run C) as [R|]; [|discriminate]. cbn [bind] in H, HE. inversion HE. subst E.
  rewrite Hg in H. apply Forall_forall. intros s Hs. rewrite forallb_forall in H. specialize (H s Hs).
  now apply andb_true_iff in H as [_ H].
Qed.

End Eval.

(* ------------------------------------------------------------------ *)
(** * The side condition *)

Fixpoint nodupb (l : list string) : bool :=
  match l with [] => true | x :: r => negb (mem x r) && nodupb r end.

Lemma nodupb_NoDup l : nodupb l = true -> NoDup l.
Proof.
  induction l as [|x r IH]; intros H; [constructor|]. cbn in H. apply andb_true_iff in H as [H1 H2].
  constructor; [|now apply IH]. intros Hin. apply mem_In in Hin. rewrite Hin in H1. discriminate.
Qed.

(** [embed_ok ps ext]: at least one economy; every economy satisfies the static naming conditions
    ([comp_static]: steps refer to declared sectors only, expression texts without white space,
    clean codes, at least one country, no market code of the form <country>_x); country codes
    (and "EXT") pairwise different, hence pairwise different currencies; and the conditions
    evaluated on each economy's own stand-alone run ([comp_evalb]). *)
Definition embed_ok (ps : list program) (ext : option nat) : bool :=
  let sl := slots ps ext in
  let g := joint_multi ps ext in
  match ps with [] => false | _ => true end &&
  forallb comp_static ps &&
  nodupb (sl_codes sl) && nodupb (sl_curs sl) &&
  negb (mem "NUMERAIRE" (sl_codes sl)) &&
  forallb (comp_evalb g) ps.
