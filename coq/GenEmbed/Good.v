(** The concrete static descriptions [G] of the sectors of an economy, and the (decidable) naming
    conditions under which the country-prefix maps satisfy [Laws.emap_ok]. *)
From Coq Require Import List String Ascii Bool ZArith Arith.
From SFC.Base Require Import Res Str Sorting.
From SFC.Gen Require Import Fx Zone.
From SFC.GenMain2 Require Import Program Classes Main.
From SFC.GenEmbed Require Import EmbDefs Laws.
Import ListNotations.
Local Open Scope string_scope.

Fixpoint last_char (s : string) : option ascii :=
  match s with
  | EmptyString => None
  | String c EmptyString => Some c
  | String _ r => last_char r
  end.

Definition is_underscore (c : ascii) : bool := Ascii.eqb c "_"%char.

Definition is_letter (c : ascii) : bool := is_alpha c && negb (is_underscore c).

(** a sector code: identifier characters, starts with a letter, no "__", does not end in '_' *)
Definition cleancode (c : string) : bool :=
  all_id c && negb (has_substring "__" c) &&
  match c with String a _ => is_letter a | EmptyString => false end &&
  match last_char c with Some z => negb (is_underscore z) | None => false end.

(** a country code (it becomes a prefix and a currency): letters and digits only, starts with a letter *)
Fixpoint all_alnum (s : string) : bool :=
  match s with EmptyString => true | String c r => is_id_char c && negb (is_underscore c) && all_alnum r end.
Definition cleancc (c : string) : bool :=
  all_alnum c && match c with String a _ => is_letter a | EmptyString => false end.

(** sectors of a single-country economy [cc] as the stand-alone model sees them (after
    _GenerateFullSectorCodes: FullCode = Code); [mkc] = codes of its markets *)
Definition good_p (cc : string) (mkc : string -> bool) (s : sector) : bool :=
  String.eqb (fullcode s) (code s) && String.eqb (country s) cc && cleancode (code s) &&
  Bool.eqb (is_market s) (mkc (code s)) && (negb (is_market s) || negb (hasF s)) &&
  forallb (fun e => negb (has_substring "__" e) && negb (String.prefix "SUP_" e)) (excl s).

(** sectors of an economy whose names do not change *)
Definition good_i (s : sector) : bool :=
  cleancode (code s) && negb (has_substring "__" ("_" ++ fullcode s)) && (negb (is_market s) || negb (hasF s)) &&
  forallb (fun e => negb (has_substring "__" e) && negb (String.prefix "SUP_" e)) (excl s).

(** the naming condition on the markets of a single-country economy: no market code looks like a
    prefixed code (SUP_<cc>_<x> must not be a market's own supply variable) *)
Definition mkc_ok (cc : string) (mkc : string -> bool) : Prop := forall x, mkc (cc ++ "_" ++ x) = false.

(* ------------------------------------------------------------------ *)
(** * Static conditions on the parameters of a sector class *)

Definition plainb (t : string) : bool := negb (has_substring "__" t) && negb (has_substring "SUP_" t).

(** numeric parameter texts ('%0.4f' ...): no blanks, no full names, no supply names *)
Definition numtext (t : string) : bool := clean t && plainb t.

Definition cls_ok (k : cls) : bool :=
  match k with
  | CGov | CTreasury | CCentralBank _ | CMarket | CMoneyMarket _ | CDepositMarket _ => true
  | CHousehold ai af good lab | CHouseholdExp ai af good lab => numtext ai && numtext af && cleancode good && cleancode lab
  | CCapitalists ai af good => numtext ai && numtext af && cleancode good
  | CBusiness _ wage margin lab out => numtext wage && numtext margin && cleancode lab && cleancode out
  | CBusinessMulti _ wage lab _ => numtext wage && cleancode lab
  | CTaxFlow rate _ => numtext rate
  end.
