(** Error direction, construction: an economy whose construction fails alone makes the construction
    of the joint model fail. *)
From Coq Require Import List String Ascii Bool ZArith Arith Lia.
From SFC.Base Require Import Res Str Sorting.
From SFC.Gen Require Import Fx Zone.
From SFC.GenMarket Require Import Market.
From SFC.GenTax Require Import Tax TaxProofs DividendProofs.
From SFC.GenMain2 Require Import Program Classes Main Ledger MainProofs Program2 Main2.
From SFC.GenEmbed Require Import EmbDefs JointDefs Laws Good ZoneEmb Block ClassEmb TokenMap PrefixLaws ConsEmb ConsRun ExtReg Items AssembleC AssembleK.
Import ListNotations.
Local Open Scope string_scope.

Section KE.
Variable g : bool.

Theorem phaseD_list_err : forall todo its K,
  kdesc g its K -> items_wf 0 0 its -> AssembleC.n_ext its + n_none todo <= 1 ->
  forallb cleancc (curs_of its ++ sl_curs todo) = true ->
  NoDup (codes_of its ++ sl_codes todo) -> NoDup (curs_of its ++ sl_curs todo) ->
  forallb comp_static (sl_comps todo) = true ->
  (forall p co so C, List.In (IComp p co so C) its -> 1 <= ncountries p) ->
  (exists p e, List.In p (sl_comps todo) /\ construct_all (decl_part p) = Err e) ->
  exists e', foldM run_step2 (decls_from g (tot_nc its) (tot_ns its) todo) K = Err e'.
Proof.
  induction todo as [|[p|] r IH]; intros its K HD Hwf Hne Hcs Hnd1 Hnd2 Hst Hnc Hfail.
  - destruct Hfail as (p & e & [] & _).
  - cbn [sl_comps] in Hfail, Hst.
    cbn [forallb] in Hst. apply andb_true_iff in Hst as [Hst1 Hst2].
    cbn [sl_curs sl_codes map List.concat n_none] in *.
    rewrite forallb_app in Hcs. apply andb_true_iff in Hcs as [Hcs1 Hcs2]. cbn [forallb] in Hcs2. apply andb_true_iff in Hcs2 as [Hcs2 Hcs3].
    destruct (NoDup_app_inv _ _ Hnd1) as (_ & _ & Hd1). destruct (NoDup_app_inv _ _ Hnd2) as (_ & _ & Hd2).
    assert (Hdj : disjoint_codes p its []).
    { intros c Hc Hin. rewrite app_nil_r in Hin. apply (Hd1 c Hin). apply in_or_app. now left. }
    assert (Hfr : ~ List.In (first_code p) (curs_of its)) by (intros Hin; apply (Hd2 _ Hin); now left).
    pose proof (phaseD_comp g its K p HD Hwf ltac:(lia) Hcs1 Hst1 Hdj Hfr) as HS.
    cbn [decls_from]. rewrite foldM_app. unfold tr_decls in HS. unfold tr_decls.
    destruct (construct_all (decl_part p)) as [CD|e0] eqn:HCD.
    2:{ rewrite HS. cbn [bind]. now exists e0. }
    destruct HS as (K1 & R1 & HD1 & HCF & L1 & L2 & L3). rewrite R1. cbn [bind].
    set (its1 := (its ++ [IComp p (tot_nc its) (tot_ns its) CD])%list) in *.
    assert (Hwf1 : items_wf 0 0 its1).
    { apply items_wf_app. split; [exact Hwf|]. rewrite !Nat.add_0_r. cbn. tauto. }
    assert (En : tot_nc its1 = ncountries p + tot_nc its) by (unfold its1; rewrite tot_nc_app; unfold tot_nc at 2; cbn; lia).
    assert (Es : tot_ns its1 = nsectors p + tot_ns its) by (unfold its1; rewrite tot_ns_app; unfold tot_ns at 2; cbn; lia).
    assert (Ecu : curs_of its1 = (curs_of its ++ [first_code p])%list) by (unfold its1; now rewrite curs_of_app).
    assert (Eco : codes_of its1 = (codes_of its ++ country_codes p)%list).
    { unfold its1. rewrite codes_of_app. unfold codes_of at 2. cbn. now rewrite app_nil_r. }
    specialize (IH its1 K1 HD1 Hwf1).
    assert (Hn1 : AssembleC.n_ext its1 + n_none r <= 1) by (unfold its1; rewrite n_ext_app; cbn; lia).
    specialize (IH Hn1). rewrite Ecu, Eco, <- !app_assoc in IH. cbn [app] in IH.
    assert (Hcs' : forallb cleancc (curs_of its ++ first_code p :: sl_curs r) = true).
    { rewrite forallb_app. cbn [forallb]. rewrite Hcs1, Hcs2. exact Hcs3. }
    specialize (IH Hcs' Hnd1 Hnd2).
    assert (Hnc' : forall q co so C, List.In (IComp q co so C) its1 -> 1 <= ncountries q).
    { intros q co so C Hin. unfold its1 in Hin. apply in_app_or in Hin as [Hin|[Hin|[]]]; [eapply Hnc; eauto|].
      inversion Hin. subst. now destruct (comp_static_inv q Hst1) as (_ & H & _). }
    specialize (IH Hst2 Hnc'). rewrite En, Es in IH. apply IH.
    destruct Hfail as (q & e & [<-|Hq] & Hqe); [rewrite HCD in Hqe; discriminate|]. now exists q, e.
  - cbn [sl_comps sl_curs sl_codes map List.concat n_none] in *.
    rewrite forallb_app in Hcs. apply andb_true_iff in Hcs as [Hcs1 Hcs2]. cbn [forallb] in Hcs2. apply andb_true_iff in Hcs2 as [_ Hcs3].
    assert (Hne0 : ext_of its = None) by (apply n_ext_none; lia).
    assert (Hnum : ~ List.In "NUMERAIRE" (curs_of its)).
    { apply NoDup_app_inv in Hnd2 as (_ & _ & Hd). intros Hin. apply (Hd _ Hin). now left. }
    assert (Hext : ~ List.In "EXT" (codes_of its)).
    { apply NoDup_app_inv in Hnd1 as (_ & _ & Hd). intros Hin. apply (Hd _ Hin). now left. }
    assert (Hnd' : NoDup (curs_of its ++ ["NUMERAIRE"])).
    { apply NoDup_app_inv in Hnd2 as (H1 & _ & _). clear -H1 Hnum. induction (curs_of its) as [|a l IH]; [constructor; [intros []|constructor]|].
      inversion H1. subst. cbn. constructor.
      - intros Hin. apply in_app_or in Hin as [Hin|[Hin|[]]]; [contradiction|]. apply Hnum. now left.
      - apply IH; [assumption|]. intros Hin. apply Hnum. now right. }
    destruct (phaseD_ext g its K HD Hwf Hne0 Hcs1 Hnd' Hext Hnc) as (K1 & R1 & HD1 & L1 & L2 & L3).
    set (its1 := (its ++ [IExt (tot_ns its)])%list) in *.
    assert (Hwf1 : items_wf 0 0 its1).
    { apply items_wf_app. split; [exact Hwf|]. rewrite !Nat.add_0_r. cbn. tauto. }
    assert (En : tot_nc its1 = S (tot_nc its)) by (unfold its1; rewrite tot_nc_app; unfold tot_nc at 2; cbn; lia).
    assert (Es : tot_ns its1 = 3 + tot_ns its) by (unfold its1; rewrite tot_ns_app; unfold tot_ns at 2; cbn; lia).
    assert (Ecu : curs_of its1 = (curs_of its ++ ["NUMERAIRE"])%list) by (unfold its1; now rewrite curs_of_app).
    assert (Eco : codes_of its1 = (codes_of its ++ ["EXT"])%list).
    { unfold its1. rewrite codes_of_app. unfold codes_of at 2. cbn. reflexivity. }
    specialize (IH its1 K1 HD1 Hwf1).
    assert (Hn1 : AssembleC.n_ext its1 + n_none r <= 1) by (unfold its1; rewrite n_ext_app; cbn; lia).
    specialize (IH Hn1). rewrite Ecu, Eco, <- !app_assoc in IH. cbn [app] in IH.
    assert (Hcs' : forallb cleancc (curs_of its ++ "NUMERAIRE" :: sl_curs r) = true).
    { rewrite forallb_app. cbn [forallb]. rewrite Hcs1. exact Hcs3. }
    specialize (IH Hcs' Hnd1 Hnd2 Hst).
    assert (Hnc' : forall q co so C, List.In (IComp q co so C) its1 -> 1 <= ncountries q).
    { intros q co so C Hin. unfold its1 in Hin. apply in_app_or in Hin as [Hin|[Hin|[]]]; [eapply Hnc; eauto|discriminate]. }
    specialize (IH Hnc' Hfail). rewrite En, Es in IH.
    cbn [decls_from foldM]. rewrite R1. exact IH.
Qed.

(** the operations phase: [CDs] are the states after the declarations *)
Fixpoint ops_fail (ps : list program) (CDs : list cstate) : Prop :=
  match ps, CDs with
  | p :: r, CD :: a => (exists e, foldM run_step (ops_part p) CD = Err e) \/ ops_fail r a
  | _, _ => False
  end.

Theorem phaseO_list_err : forall todo CDs ia K,
  let its := (ia ++ d_items (tot_nc ia) (tot_ns ia) todo CDs)%list in
  kdesc g its K -> items_wf 0 0 its -> forallb cleancc (curs_of its) = true -> NoDup (curs_of its) -> NoDup (codes_of its) ->
  forallb comp_static (sl_comps todo) = true -> List.length CDs = List.length (sl_comps todo) ->
  ops_fail (sl_comps todo) CDs ->
  exists e', foldM run_step2 (ops_from g (tot_nc ia) (tot_ns ia) todo) K = Err e'.
Proof.
  induction todo as [|[p|] r IH]; intros CDs ia K its HD Hwf Hcs Hnd Hndc Hst HL Hfail.
  - cbn [sl_comps ops_fail] in Hfail. destruct Hfail.
  - cbn [sl_comps ops_fail] in Hfail, Hst, HL. destruct CDs as [|CD CDr]; [destruct Hfail|].
    cbn [forallb] in Hst. apply andb_true_iff in Hst as [Hst1 Hst2].
    unfold its in *. cbn [d_items] in *.
    set (ib := d_items (ncountries p + tot_nc ia) (nsectors p + tot_ns ia) r CDr) in *.
    assert (Hdj : disjoint_codes p ia ib).
    { rewrite codes_of_app in Hndc. unfold codes_of at 2 in Hndc. cbn [map List.concat it_codes] in Hndc. fold (codes_of ib) in Hndc.
      intros c Hc. now apply (NoDup_mid _ _ _ Hndc). }
    pose proof (phaseO_comp g ia ib p (tot_nc ia) (tot_ns ia) CD K HD Hwf Hcs Hnd Hst1 Hdj) as HS.
    cbn [ops_from]. rewrite foldM_app. unfold tr_ops in HS |- *.
    destruct (foldM run_step (ops_part p) CD) as [C|e0] eqn:HC.
    2:{ rewrite HS. cbn [bind]. now exists e0. }
    destruct HS as (K1 & R1 & HD1 & HCF & L1 & L2 & L3). rewrite R1. cbn [bind].
    set (ia1 := (ia ++ [IComp p (tot_nc ia) (tot_ns ia) C])%list).
    assert (En : tot_nc ia1 = ncountries p + tot_nc ia) by (unfold ia1; rewrite tot_nc_app; unfold tot_nc at 2; cbn; lia).
    assert (Es : tot_ns ia1 = nsectors p + tot_ns ia) by (unfold ia1; rewrite tot_ns_app; unfold tot_ns at 2; cbn; lia).
    assert (Eits : forall X, (ia ++ IComp p (tot_nc ia) (tot_ns ia) C :: X)%list = (ia1 ++ X)%list) by (intros X; unfold ia1; now rewrite <- app_assoc).
    assert (Hwf1 : items_wf 0 0 (ia ++ IComp p (tot_nc ia) (tot_ns ia) C :: ib)).
    { destruct (items_wf_mid _ _ _ Hwf) as (W1 & W2 & W3). apply items_wf_app. split; [exact W1|]. rewrite !Nat.add_0_r.
      cbn [items_wf] in W2 |- *. destruct W2 as (E1 & E2 & _ & _). split; [exact E1|]. split; [exact E2|]. split; [exact HCF|exact W3]. }
    assert (Ecu : curs_of (ia ++ IComp p (tot_nc ia) (tot_ns ia) C :: ib) = curs_of (ia ++ IComp p (tot_nc ia) (tot_ns ia) CD :: ib)).
    { now rewrite !curs_of_app. }
    assert (Eco : codes_of (ia ++ IComp p (tot_nc ia) (tot_ns ia) C :: ib) = codes_of (ia ++ IComp p (tot_nc ia) (tot_ns ia) CD :: ib)).
    { now rewrite !codes_of_app. }
    specialize (IH CDr ia1 K1). cbv zeta in IH. rewrite En, Es in IH. fold ib in IH. rewrite <- Eits in IH.
    rewrite Ecu, Eco in IH. apply (IH HD1 Hwf1 Hcs Hnd Hndc Hst2); [cbn in HL; lia|].
    destruct Hfail as [(e & He)|Hf]; [discriminate|exact Hf].
  - cbn [sl_comps] in Hfail, Hst, HL. unfold its in *. cbn [d_items] in *.
    set (ia1 := (ia ++ [IExt (tot_ns ia)])%list).
    assert (En : tot_nc ia1 = S (tot_nc ia)) by (unfold ia1; rewrite tot_nc_app; unfold tot_nc at 2; cbn; lia).
    assert (Es : tot_ns ia1 = 3 + tot_ns ia) by (unfold ia1; rewrite tot_ns_app; unfold tot_ns at 2; cbn; lia).
    assert (Eits : forall X, (ia ++ IExt (tot_ns ia) :: X)%list = (ia1 ++ X)%list) by (intros X; unfold ia1; now rewrite <- app_assoc).
    specialize (IH CDs ia1 K). cbv zeta in IH. rewrite En, Es in IH. rewrite <- Eits in IH.
    cbn [ops_from]. exact (IH HD Hwf Hcs Hnd Hndc Hst HL Hfail).
Qed.

End KE.
