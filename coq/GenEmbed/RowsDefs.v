(** _CreateFinalEquations under the embedding of an economy: the decidable side condition
    [text_ok] on the final state of a sector (see RowsEmb.v for the theorems).

      (F) every factor of every parsed term (of a term with non-zero coefficient) is a run of
          identifier characters that starts with a letter or '_', or contains no "__"
          (Term.__str__ writes the factors between '*': the token map then acts on them one by one);
      (K) no local variable name contains "__" (a local name that looks like a full name would be
          qualified by the lookup before the embedding and prefixed after it);
      (E) the word EXOGENOUS occurs in the emitted text of a row only inside identifier runs the
          embedding leaves alone, with and without the word (the emitted text of an exogenous row is
          EXOGENOUS<spec>: the word is glued to the leading run of the specification), and the
          country code does not contain it. *)
From Coq Require Import List String Ascii Bool ZArith Arith.
From SFC.Base Require Import Res Str Sorting.
From SFC.Gen Require Import Fx Zone.
From SFC.GenMain2 Require Import Program Classes Main.
From SFC.GenEmbed Require Import EmbDefs Laws TokenMap.
Import ListNotations.
Local Open Scope string_scope.

Definition EXO : string := "EXOGENOUS".

(** the maximal runs of identifier characters of a text (empty runs included) *)
Fixpoint runs_go (acc : string) (s : string) : list string :=
  match s with
  | EmptyString => [acc]
  | String c r => if is_id_char c then runs_go (snoc acc c) r else acc :: runs_go EmptyString r
  end.
Definition runs (s : string) : list string := runs_go EmptyString s.

(** names every embedding leaves alone: no full name, not a market's supply variable *)
Definition fixb (x : string) : bool := negb (has_substring "__" x) && negb (String.prefix "SUP_" x).

Definition exo_tok (x : string) : bool :=
  negb (has_substring EXO x) || (fixb x && fixb (replace EXO "" x)).

Definition exo_text (t : string) : bool := forallb exo_tok (runs t).

Definition factor_ok (x : string) : bool := all_id x && (head_alpha x || negb (has_substring "__" x)).

Definition term_ok (t : term) : bool := Z.eqb (fst t) 0 || forallb factor_ok (snd t).

Definition eqn_ok (s : sector) (e : eqn) : bool :=
  forallb term_ok (terms e) && exo_text (final_text s e).

Definition text_ok (s : sector) : bool :=
  negb (has_substring EXO (country s)) &&
  forallb (fun ke => negb (has_substring "__" (fst ke)) && eqn_ok s (snd ke)) (vars s).
