(** Concrete joint models: SIM + PC (+ the two-region model REG), with and without an unused
    ExternalSector; the hypotheses of the embedding theorem hold and so does its conclusion; and
    programs outside the side condition for which the conclusion fails. *)
From Coq Require Import List String Bool ZArith Arith Reals.
From SFC.Base Require Import Res Str.
From SFC.Gen Require Import Fx Zone.
From SFC.GenAsset Require Import Weighting.
From SFC.GenMain2 Require Import Program Classes Main Conflict Witness Program2 Main2.
From SFC.GenEmbed Require Import EmbDefs JointDefs Joint EvalOk CaseDefs Sem SemEmbed ErrDir.
Import ListNotations.
Local Open Scope string_scope.

(** expression texts without blanks (what harness/gen_rename.render_program_sq does) *)
Definition sq_uop (o : uop) : uop :=
  match o with
  | OAddVariable s n t => OAddVariable s n (squeeze t)
  | OSetExogenous s n spec => OSetExogenous s n (squeeze spec)
  | OAddSupplier m s t => OAddSupplier m s (option_map squeeze t)
  | OAssetWeighting s ws res => OAssetWeighting s (map (fun cw => (fst cw, squeeze (snd cw))) ws) res
  | o => o
  end.
Definition sq_step (x : step) : step := match x with StOp o => StOp (sq_uop o) | x => x end.
Definition recode (c : string) (x : step) : step := match x with StCountry _ => StCountry c | x => x end.

Definition pA : program := map sq_step p_SIM.                       (* country CA *)
Definition pB : program := map (recode "US") (map sq_step p_PC).    (* country US *)
Definition pR : program := map sq_step p_REG.                       (* countries GV, N: one currency GV *)

(** the joint program of SIM and PC is the program one writes by hand: two countries with their own
    currencies, PC's sectors numbered after SIM's, each economy's
    trailing operations after all declarations *)
Example joint_SIM_PC_program :
  joint [pA; pB] None =
  [ S2Country "CA" None false;
    S2Sector 0 "GOV" (COld CGov);
    S2Sector 0 "HH" (COld (CHousehold "0.6000" "0.4000" "GOOD" "LAB"));
    S2Sector 0 "BUS" (COld (CBusiness true "1.000" "0.000" "LAB" "GOOD"));
    S2Sector 0 "TF" (COld (CTaxFlow "0.2000" "GOV"));
    S2Sector 0 "LAB" (COld CMarket);
    S2Sector 0 "GOOD" (COld CMarket);
    S2Country "US" None false;
    S2Sector 1 "CB" (COld (CCentralBank None));
    S2Sector 1 "TRE" (COld CTreasury);
    S2Op (UOld (OSetTreasury 6 7));
    S2Sector 1 "HH" (COld (CHouseholdExp "0.6000" "0.4000" "GOOD" "LAB"));
    S2Sector 1 "CAP" (COld (CCapitalists "0.7000" "0.3000" "GOOD"));
    S2Sector 1 "BUS" (COld (CBusiness false "0.900" "0.100" "LAB" "GOOD"));
    S2Sector 1 "BSV" (COld (CBusiness false "0.750" "0.250" "LAB" "SERV"));
    S2Sector 1 "TF" (COld (CTaxFlow "0.2000" "TRE"));
    S2Sector 1 "LAB" (COld CMarket);
    S2Sector 1 "GOOD" (COld CMarket);
    S2Sector 1 "SERV" (COld CMarket);
    S2Sector 1 "MON" (COld (CMoneyMarket "CB"));
    S2Sector 1 "DEP" (COld (CDepositMarket "TRE"));
    S2Op (UOld (OSetExogenous 0 "DEM_GOOD" "[20.,]*105"));
    S2Op (UOld (OAddVariable 7 "DEM_SERV" "0.0"));
    S2Op (UOld (OSetExogenous 7 "DEM_SERV" "[5.0]*40"));
    S2Op (UOld (OAssetWeighting 8 [("DEP", "0.4+2.0*US_DEP__r")] "MON"));
    S2Op (UOld (OSetExogenous 17 "r" "[0.025]*40"));
    S2Op (UOld (OSetExogenous 7 "DEM_GOOD" "[20.0]*40"));
    S2Op (UOld (OAddVariable 7 "GIFT" "1.5"));
    S2Op (UOld (ORegisterCashFlow 7 8 "GIFT" false true)) ].
Proof. vm_compute. reflexivity. Qed.

(** the hypotheses of [main2_embedding] hold: SIM + PC; with an ExternalSector between them; the
    federated REG first, an ExternalSector first of all; a single economy, alone and with an ExternalSector *)
Example embed_ok_examples :
  embed_ok [pA; pB] None = true /\ embed_ok [pA; pB] (Some 1) = true /\ embed_ok [pR; pB; pA] (Some 0) = true /\
  embed_ok [pA] None = true /\ embed_ok [pA] (Some 1) = true /\
  is_ok (builds [pR; pB; pA]) = true.
Proof. vm_compute. repeat split; reflexivity. Qed.

(** and its conclusion, evaluated: the joint build succeeds and is the expected system *)
Example embed_examples :
  embed_why [pA; pB] None = 0 /\ embed_why [pA; pB] (Some 1) = 0 /\ embed_why [pR; pB; pA] (Some 0) = 0 /\
  embed_why [pA] None = 0 /\ embed_why [pA] (Some 1) = 0.
Proof. vm_compute. repeat split; reflexivity. Qed.

(** the blocks are not empty, the ExternalSector's block is there, and the names did change *)
Example embed_example_shape :
  match builds [pA; pB], build2 (joint [pA; pB] (Some 1)) with
  | Ok [EA; EB], Ok E =>
      (List.length (fs_zone EA), List.length (fs_zone EB), List.length (fs_zone E)) = (6, 12, 21) /\
      (List.length (fs_rows EA) + List.length (fs_rows EB) < List.length (fs_rows E)) /\
      map fullcode (fs_zone EA) = ["GOV"; "HH"; "BUS"; "TF"; "LAB"; "GOOD"] /\
      map fullcode (firstn 9 (fs_zone E)) = ["CA_GOV"; "CA_HH"; "CA_BUS"; "CA_TF"; "CA_LAB"; "CA_GOOD"; "EXT_XR"; "EXT_FX"; "EXT_GOLD"]
  | _, _ => False
  end.
Proof. vm_compute. repeat split; try reflexivity. repeat constructor. Qed.

(** the economies as the semantic corollary lists them *)
Example views_example :
  match builds [pA; pB] with
  | Ok Es => map (fun x => e_off (fst (fst x))) (views true 0 (slots_with (slots [pA; pB] (Some 1)) Es)) = [0; 9]
  | Err _ => False
  end.
Proof. vm_compute. reflexivity. Qed.

(* ------------------------------------------------------------------ *)
(** * Outside the side condition *)

(** two economies with the same country code (hence the same currency): the side condition fails and
    so does the joint build (Model.AddCountry... the second "CA" clashes with the first) *)
Example shared_currency_refuted :
  embed_ok [pA; pA] None = false /\ is_ok (builds [pA; pA]) = true /\ is_ok (build2 (joint [pA; pA] None)) = false.
Proof. vm_compute. repeat split; reflexivity. Qed.

(** an economy whose country code is the ExternalSector's code *)
Example ext_code_refuted :
  let pX := map (recode "EXT") pA in
  embed_ok [pX; pB] (Some 0) = false /\ is_ok (builds [pX; pB]) = true /\ is_ok (build2 (joint [pX; pB] (Some 0))) = false.
Proof. vm_compute. repeat split; reflexivity. Qed.

(** a market whose code is <country>_<code of one of its suppliers>: stand-alone the market's own
    supply variable SUP_CA_HW and the amount SUP_HW allocated to the household HW are two variables;
    in the joint model the household's full code is CA_HW and the two names coincide.  The economy
    builds alone, the side condition rejects it ([mkc_ok]), and the embedding relation fails. *)
Definition pW : program :=
  [ StCountry "CA";
    StSector 0 "GOV" CGov;
    StSector 0 "HH" (CHousehold "0.6000" "0.4000" "GOOD" "CA_HW");
    StSector 0 "HW" (CHousehold "0.5000" "0.3000" "GOOD" "CA_HW");
    StSector 0 "BUS" (CBusiness true "1.000" "0.000" "CA_HW" "GOOD");
    StSector 0 "TF" (CTaxFlow "0.2000" "GOV");
    StSector 0 "CA_HW" CMarket;
    StSector 0 "GOOD" CMarket;
    StOp (OAddSupplier 5 1 None);
    StOp (OAddSupplier 5 2 (Some "0.25*DEM_CA_HW"));
    StOp (OSetExogenous 0 "DEM_GOOD" "[20.,]*105") ].

Example market_code_clash_refuted :
  is_ok (build pW) = true /\ embed_ok [pW; pB] None = false /\ embed_case [pW; pB] None = false /\ embed_why [pW; pB] None = 4.
Proof. vm_compute. repeat split; reflexivity. Qed.

(* ------------------------------------------------------------------ *)
(** * The error direction *)

(** SIM whose tax flow names a recipient that does not exist: the economy fails alone (LogicError in
    TaxFlow._GenerateEquations), the side condition holds, the joint model fails too *)
Definition pD : program :=
  [ StCountry "CA";
    StSector 0 "GOV" CGov;
    StSector 0 "HH" (CHousehold "0.6000" "0.4000" "GOOD" "LAB");
    StSector 0 "BUS" (CBusiness true "1.000" "0.000" "LAB" "GOOD");
    StSector 0 "TF" (CTaxFlow "0.2000" "GOVX");
    StSector 0 "LAB" CMarket;
    StSector 0 "GOOD" CMarket;
    StOp (OSetExogenous 0 "DEM_GOOD" "[20.,]*105") ].

Definition err_of {A} (r : result A) : option err := match r with Err e => Some e | Ok _ => None end.

Example error_direction_example :
  err_of (core pD) = Some LogicError /\ embed_ok [pD; pB] None = true /\ err_of (build2 (joint [pD; pB] None)) = Some LogicError /\ embed_ok [pB; pD] (Some 0) = true /\ err_of (build2 (joint [pB; pD] (Some 0))) = Some LogicError.
Proof. vm_compute. repeat split; reflexivity. Qed.

(** the final check of Model.main() is not inherited: a country without sectors raises the
    "There are no equations in the system" Warning alone ([core] succeeds, [build] does not), the
    side condition holds, and the joint model with SIM builds *)
Definition pE : program := [StCountry "ZZ"].

Example empty_economy_refuted :
  err_of (build pE) = Some Warning_ /\ err_of (core pE) = None /\ embed_ok [pE; pA] None = true /\ is_ok (build2 (joint [pE; pA] None)) = true.
Proof. vm_compute. repeat split; reflexivity. Qed.
