(** GenEmbed: the embedding half of C18 at program level.

    "A model built from several economies (each with its own currency, optionally with an unused
    ExternalSector) contains, for each economy, exactly the equations the economy has when it is
    modelled alone, up to the country prefix of the names."

    Reading guide:
      [program], [build p]        a single-currency program (one country or several countries of one
                                  currency) and the model of Model.main() on it (coq/GenMain2/Main.v);
      [program2], [build2 q]      a multi-currency program and its model (coq/GenMain2/Main2.v); both are
                                  tied to the Python on every run by harness/gen_main.py / gen_main2.py;
      [joint ps ext]              the program that declares the economies [ps] one after the other (each with
                                  its own currency = its first country code; creation indices shifted; every
                                  economy's declarations first, then every economy's trailing operations), with an
                                  unused ExternalSector created before the economy number k when [ext = Some k]
                                  (JointDefs.v); harness/gen_embed.py checks on every run that it is the program the
                                  user writes (harness/c18.py embed_case);
      [embed_ok ps ext]           the decidable side condition (EvalOk.v): at least one economy; static naming
                                  conditions [comp_static] (operations refer to declared sectors; expression texts
                                  without blanks; clean sector and country codes; no market code of the form
                                  <country>_<x>); country codes and "EXT" pairwise different, none is "NUMERAIRE";
                                  and conditions EVALUATED on each economy's own stand-alone run [comp_evalb]
                                  (searched residual suppliers are not markets, references in range, exogenous
                                  specifications of the form [..]*n, row texts in the fragment where the prefix
                                  renaming commutes with Model._FinalEquationFormatting);
      [expected_system ps ext Es] the final system made of, block by block in creation order, the stand-alone
                                  final systems [Es] with every sector's creation index shifted and, when the joint
                                  model has several countries and the economy has one, every name prefixed
                                  (EmbDefs.pmap: full codes X -> cc_X, full names A__B -> cc_A__B', allocation
                                  variables SUP_X -> SUP_cc_X on markets); economies of several countries keep
                                  their names (EmbDefs.idmap); plus the ExternalSector's own three sectors;
      [sat E v vprev bv]          a history satisfies every row of a final system (coq/GenMain2/Conflict.v);
      [view_sat v vprev bv (M,p,E)]   the history, read through the renaming M, satisfies the stand-alone system E;
      [core p]                    the stand-alone pipeline (construction, _GenerateEquations, registered cash flows,
                                  exogenous declarations, initial conditions) WITHOUT the last check of Model.main()
                                  ('There are no equations in the system'); [Build_is_core_then_check]. *)
From Coq Require Import List String Bool ZArith Arith Reals.
From SFC.Base Require Import Res Str Sorting.
From SFC.Gen Require Import Fx Zone.
From SFC.GenMarket Require Import Market.
From SFC.GenTax Require Import Tax Dividends TaxProofs DividendProofs.
From SFC.GenMain2 Require Import Program Classes Main Conflict Witness Program2 Main2 MainProofs2 Names2 Witness2.
From SFC.GenEmbed Require Import EmbDefs JointDefs Joint Good PrefixLaws EvalOk Expected Sem SemEmbed ErrDir ErrTop EmbedWitness TaxIso.
Import ListNotations.
Local Open Scope string_scope.
Local Open Scope list_scope.

(* ------------------------------------------------------------------ *)
(** * 1. Embedding *)

(** any number of economies, single-country or federated, ExternalSector at any position or absent:
    if every economy builds alone, the joint model builds and its final system (sectors with all their
    equations, emitted rows, initial conditions) is the disjoint union, block by block, of the renamed
    stand-alone systems and the ExternalSector's rows *)
Theorem Main2_embedding : forall ps ext Es,
  embed_ok ps ext = true -> Forall2 (fun p E => build p = Ok E) ps Es ->
  exists E, build2 (joint ps ext) = Ok E /\ expected_system ps ext Es = Ok E.
Proof. exact main2_embedding. Qed.
Print Assumptions Main2_embedding.

(** semantic form: a history satisfies the joint system iff the ExternalSector's own rows hold and, for
    every economy, the history restricted to that economy (read through the prefix renaming) satisfies
    the economy's stand-alone system *)
Theorem Main2_embedding_sat : forall ps ext Es,
  embed_ok ps ext = true -> Forall2 (fun p E => build p = Ok E) ps Es ->
  exists E X, build2 (joint ps ext) = Ok E /\ ext_block ps ext = Ok X /\
    forall v vprev bv,
      sat E v vprev bv <->
      sat_zone X v vprev bv /\
      Forall (view_sat v vprev bv) (views (joint_multi ps ext) 0 (slots_with (slots ps ext) Es)).
Proof. exact main2_embedding_sat. Qed.
Print Assumptions Main2_embedding_sat.

(** error direction: if the pipeline of some economy fails alone, the joint model fails *)
Theorem Main2_embedding_err : forall ps ext,
  embed_ok ps ext = true -> (exists p e, List.In p ps /\ core p = Err e) -> exists e', build2 (joint ps ext) = Err e'.
Proof. exact main2_embedding_err. Qed.
Print Assumptions Main2_embedding_err.

Theorem Build_is_core_then_check : forall p,
  build p = match core p with
            | Ok (Zf, ics) => match zone_rows Zf, ics with
                              | [], [] => Err Warning_
                              | _, _ => Ok (mkFS Zf (zone_rows Zf) ics)
                              end
            | Err e => Err e
            end.
Proof. exact build_core. Qed.
Print Assumptions Build_is_core_then_check.

(** ... and the last check is genuinely not inherited: an economy without equations fails alone, the joint model builds *)
Theorem Embedding_err_example_and_empty_economy_refuted :
  (err_of (core pD) = Some LogicError /\ embed_ok [pD; pB] None = true /\ err_of (build2 (joint [pD; pB] None)) = Some LogicError /\
   embed_ok [pB; pD] (Some 0) = true /\ err_of (build2 (joint [pB; pD] (Some 0))) = Some LogicError) /\
  (err_of (build pE) = Some Warning_ /\ err_of (core pE) = None /\ embed_ok [pE; pA] None = true /\
   is_ok (build2 (joint [pE; pA] None)) = true).
Proof. exact (conj error_direction_example empty_economy_refuted). Qed.
Print Assumptions Embedding_err_example_and_empty_economy_refuted.

(** the hypotheses hold and the conclusion is what it says on SIM + PC (+ REG), with and without an
    ExternalSector *)
Theorem Embedding_examples :
  embed_ok [pA; pB] None = true /\ embed_ok [pA; pB] (Some 1) = true /\ embed_ok [pR; pB; pA] (Some 0) = true /\
  embed_ok [pA] None = true /\ embed_ok [pA] (Some 1) = true /\
  is_ok (builds [pR; pB; pA]) = true.
Proof. exact embed_ok_examples. Qed.
Print Assumptions Embedding_examples.

(** dropped parts of the side condition *)
Theorem Embedding_shared_currency_refuted :
  embed_ok [pA; pA] None = false /\ is_ok (builds [pA; pA]) = true /\ is_ok (build2 (joint [pA; pA] None)) = false.
Proof. exact shared_currency_refuted. Qed.
Print Assumptions Embedding_shared_currency_refuted.

Theorem Embedding_market_code_clash_refuted :
  is_ok (build pW) = true /\ embed_ok [pW; pB] None = false /\ embed_case [pW; pB] None = false /\ embed_why [pW; pB] None = 4.
Proof. exact market_code_clash_refuted. Qed.
Print Assumptions Embedding_market_code_clash_refuted.

(* ------------------------------------------------------------------ *)
(** * 2. Taxes and dividends stay at home *)

(** every program of [program2] whose model run succeeds, no side condition: a TaxFlow step is
    TaxFlow._GenerateEquations on the sectors of its OWN currency zone, written back in place; the taxed
    sectors are exactly the taxable sectors of that zone, the recipient is a sector of that zone, every
    other sector is the same record at the same position *)
Theorem Main2_tax_zone_isolation : forall p Rn, build_run2 p = Ok Rn ->
  forall i rate paid_to st st' tf,
    List.In ((i, COld (CTaxFlow rate paid_to)), st, st') (q_gen Rn) ->
    find_sec i (h_zone st) = Some tf ->
    let J := q_info Rn in
    let Z := h_zone st in
    let inz := in_zone (j_countries J) (cur_of_sec J tf) in
    let Zz := filter inz Z in
    let payers := filter (is_payer i) Zz in
    exists Zz',
      (* the step is TaxFlow._GenerateEquations on the tax flow's own currency zone, written back in place *)
      tax_generate i rate paid_to Zz = Ok Zz' /\
      h_zone st' = put_back_p inz Zz' Z /\ List.length Zz' = List.length Zz /\ filter inz (h_zone st') = Zz' /\
      find (sid_is i) Zz = Some tf /\
      (* (a) position by position: the sectors taxed ([pay_tax]) are exactly [payers], the taxable sectors
             of the zone other than the tax flow; the tax flow's T is the sum over [payers], in zone order *)
      Forall2 (sector_steps i rate paid_to (vname tf "TaxRate") (tax_terms i (vname tf "TaxRate") Zz) (vname tf "T")) Zz Zz' /\
      Forall2 (taxed_as i rate paid_to tf Zz) Zz Zz' /\
      Forall2 (fun s s' => is_payer i s = false -> sid_is i s = false -> code_is paid_to s = false -> s' = s) Zz Zz' /\
      (forall tf', List.In tf' Zz' -> sid_is i tf' = true -> code_is paid_to tf' = false ->
         lookup_var "T" (vars tf') = Some (mkEqn "" (map (tax_term (vname tf "TaxRate")) payers))) /\
      (forall s, List.In s payers <-> List.In s Z /\ inz s = true /\ sid s <> i /\ taxable s = true) /\
      (* (b) the recipient is looked up in the zone only: exactly one sector of the zone has that code *)
      count_code paid_to Zz = 1%nat /\
      (* (c) a sector of another currency zone is the same record at the same position *)
      (forall k s, nth_error Z k = Some s -> inz s = false -> nth_error (h_zone st') k = Some s) /\
      List.length (h_zone st') = List.length Z /\
      (* (d) *)
      h_flows st' = h_flows st /\ h_ic st' = h_ic st.
Proof. exact main2_tax_zone_isolation. Qed.
Print Assumptions Main2_tax_zone_isolation.

(** a FixedMarginBusiness step acts on the firm's own COUNTRY: the dividend receiver is the first
    candidate of that country *)
Theorem Main2_dividend_country_isolation : forall p Rn, build_run2 p = Ok Rn ->
  forall i mz wage margin lab out st st' self,
    List.In ((i, COld (CBusiness mz wage margin lab out)), st, st') (q_gen Rn) ->
    find_sec i (h_zone st) = Some self ->
    let J := q_info Rn in
    let Z := h_zone st in
    let inc := in_country (country self) in
    let C := filter inc Z in
    let bizs := biz_ids2 J C in
    exists mk C',
      (* the output market is looked up in the firm's country *)
      find (fun s => String.eqb (code s) out) C = Some mk /\ has_var mk ("SUP_" ++ out) = true /\
      let rs := wage_resets mz wage margin lab (fullcode mk ++ "__" ++ "SUP_" ++ out) in
      (* the step is FixedMarginBusiness._GenerateEquations on the firm's own country, written back in place *)
      firm_generate bizs (i, rs) C = Ok C' /\
      h_zone st' = put_back_p inc C' Z /\ List.length C' = List.length C /\ filter inc (h_zone st') = C' /\
      find (sid_is i) C = Some self /\
      (* the dividend receiver, if any, is the first [candidate] of the firm's COUNTRY; nobody else but the
         firm changes ([firm_own_other]) *)
      match find (candidate bizs i) C with
      | None => Forall2 (resrel i rs) C C'
      | Some r =>
          List.In r Z /\ inc r = true /\
          exists pre post pre' r' post',
            C = pre ++ r :: post /\ forallb (fun s => negb (candidate bizs i s)) pre = true /\ candidate bizs i r = true /\
            C' = pre' ++ r' :: post' /\
            Forall2 (firm_own i rs true) pre pre' /\ Forall2 (firm_own i rs true) post post' /\
            receive_div false (vname self "PROF") r = Ok r'
      end /\
      Forall2 (fun s s' => sid_is i s = false -> find (candidate bizs i) C <> Some s -> s' = s) C C' /\
      (* a sector of another country is the same record at the same position *)
      (forall k s, nth_error Z k = Some s -> inc s = false -> nth_error (h_zone st') k = Some s) /\
      List.length (h_zone st') = List.length Z /\
      h_flows st' = h_flows st /\ h_ic st' = h_ic st.
Proof. exact main2_dividend_country_isolation. Qed.
Print Assumptions Main2_dividend_country_isolation.

(** the statements are not vacuous, and the "whole model" variants of the steps differ *)
Theorem Tax_isolation_example_OPEN :
  build_run2 p_OPEN = Ok OPEN_run /\
  List.In OPEN_tax_entry (q_gen OPEN_run) /\ fst (fst OPEN_tax_entry) = (3%nat, COld (CTaxFlow "0.2000" "GOV")) /\
  map (fun j => opt_fullcode (find_sec j OPEN_tax_Z)) [3; 1; 10]%nat = ["CA_TF"; "CA_HH"; "US_HH"] /\
  map sid (filter OPEN_tax_inz OPEN_tax_Z) = [0; 1; 2; 3; 4; 5]%nat /\
  map sid (filter (is_payer 3) (filter OPEN_tax_inz OPEN_tax_Z)) = [1%nat] /\
  map fullcode (filter (is_payer 3) (filter OPEN_tax_inz OPEN_tax_Z)) = ["CA_HH"] /\
  (exists us_hh, find_sec 10 OPEN_tax_Z = Some us_hh /\ fullcode us_hh = "US_HH" /\
     is_payer 3 us_hh = true /\ OPEN_tax_inz us_hh = false /\
     find_sec 10 (h_zone (snd OPEN_tax_entry)) = Some us_hh) /\
  map sid (filter (is_payer 3) OPEN_tax_Z) = [1; 10]%nat.
Proof. exact tax_isolation_example_OPEN. Qed.
Print Assumptions Tax_isolation_example_OPEN.

Theorem Tax_whole_model_refuted :
  build_run2 p_OPEN = Ok OPEN_run /\ List.In OPEN_tax_entry (q_gen OPEN_run) /\
  fst (fst OPEN_tax_entry) = (3%nat, COld (CTaxFlow "0.2000" "GOV")) /\
  gen_step2 (q_info OPEN_run) (snd (fst OPEN_tax_entry)) (fst (fst OPEN_tax_entry)) = Ok (snd OPEN_tax_entry) /\
  gen_step2_allzones (q_info OPEN_run) (snd (fst OPEN_tax_entry)) (fst (fst OPEN_tax_entry)) = Err LogicError /\
  count_code "GOV" OPEN_tax_Z = 2%nat /\ count_code "GOV" (filter OPEN_tax_inz OPEN_tax_Z) = 1%nat /\
  map sid (filter (is_payer 3) OPEN_tax_Z) = [1; 10]%nat /\
  map sid (filter (is_payer 3) (filter OPEN_tax_inz OPEN_tax_Z)) = [1%nat].
Proof. exact tax_whole_model_refuted. Qed.
Print Assumptions Tax_whole_model_refuted.

Theorem Dividend_isolation_example_DIV2 :
  build_run2 p_DIV2 = Ok DIV2_run /\ List.In DIV2_entry (q_gen DIV2_run) /\
  fst (fst DIV2_entry) = (13%nat, COld (CBusiness false "0.900" "0.100" "LAB" "GOOD")) /\
  map fullcode DIV2_C = ["CA_GOV"; "CA_HH"; "CA_CAP"; "CA_BUS"; "CA_TF"; "CA_LAB"; "CA_GOOD"] /\
  biz_ids2 (q_info DIV2_run) DIV2_C = [13%nat] /\
  option_map fullcode (find (candidate (biz_ids2 (q_info DIV2_run) DIV2_C) 13) DIV2_C) = Some "CA_CAP" /\
  option_map fullcode (find (candidate (biz_ids2 (q_info DIV2_run) DIV2_Z) 13) DIV2_Z) = Some "US_CAP" /\
  (exists us_cap, find_sec 2 DIV2_Z = Some us_cap /\ fullcode us_cap = "US_CAP" /\
     in_country "CA" us_cap = false /\ find_sec 2 (h_zone (snd DIV2_entry)) = Some us_cap) /\
  (exists ca_cap ca_cap', find_sec 12 DIV2_Z = Some ca_cap /\ find_sec 12 (h_zone (snd DIV2_entry)) = Some ca_cap' /\
     receive_div false "CA_BUS__PROF" ca_cap = Ok ca_cap').
Proof. exact dividend_isolation_example_DIV2. Qed.
Print Assumptions Dividend_isolation_example_DIV2.

Theorem Dividend_whole_model_refuted :
  build_run2 p_DIV2 = Ok DIV2_run /\ List.In DIV2_entry (q_gen DIV2_run) /\
  fst (fst DIV2_entry) = (13%nat, COld (CBusiness false "0.900" "0.100" "LAB" "GOOD")) /\
  (* the step of the model, as in [main2_dividend_country_isolation] *)
  (exists C', firm_generate (biz_ids2 (q_info DIV2_run) DIV2_C) (13%nat, DIV2_rs) DIV2_C = Ok C' /\
              h_zone (snd DIV2_entry) = put_back_p (in_country "CA") C' DIV2_Z) /\
  (* the whole-model variant *)
  firm_allcountries (q_info DIV2_run) 13 DIV2_rs DIV2_Z = Ok DIV2_Zall /\
  (* US_CAP: untouched by the model, credited with CA_BUS's profits by the variant *)
  div_eqn_of 2 DIV2_Z = Some (mkEqn "" [(1%Z, ["US_BUS__PROF"])]) /\
  div_eqn_of 2 (h_zone (snd DIV2_entry)) = Some (mkEqn "" [(1%Z, ["US_BUS__PROF"])]) /\
  div_eqn_of 2 DIV2_Zall = Some (mkEqn "" [(1%Z, ["US_BUS__PROF"]); (1%Z, ["CA_BUS__PROF"])]) /\
  (* CA_CAP: credited by the model, ignored by the variant *)
  div_eqn_of 12 DIV2_Z = Some (mkEqn "" []) /\
  div_eqn_of 12 (h_zone (snd DIV2_entry)) = Some (mkEqn "" [(1%Z, ["CA_BUS__PROF"])]) /\
  div_eqn_of 12 DIV2_Zall = Some (mkEqn "" []).
Proof. exact dividend_whole_model_refuted. Qed.
Print Assumptions Dividend_whole_model_refuted.
