(** Construction of the joint model: executing the joint program builds, item by item, the state
    described by Items.v with every economy in the state its own program builds stand-alone. *)
From Coq Require Import List String Ascii Bool ZArith Arith Lia.
From SFC.Base Require Import Res Str Sorting.
From SFC.Gen Require Import Fx Zone.
From SFC.GenMarket Require Import Market.
From SFC.GenTax Require Import Tax TaxProofs DividendProofs.
From SFC.GenMain2 Require Import Program Classes Main Ledger MainProofs Program2 Main2.
From SFC.GenEmbed Require Import EmbDefs JointDefs Laws Good ZoneEmb Block ClassEmb TokenMap PrefixLaws ConsEmb ConsRun ExtReg Items.
Import ListNotations.
Local Open Scope string_scope.

(* ------------------------------------------------------------------ *)
(** * Programs: declaration part and trailing operations *)

Lemma decl_ops_split p : p = (decl_part p ++ ops_part p)%list.
Proof.
  induction p as [|x r IH]; [reflexivity|]. cbn [decl_part ops_part].
  destruct (forallb is_op (x :: r)); [reflexivity|]. cbn [app]. now rewrite <- IH.
Qed.

Lemma ops_part_ops p : forallb is_op (ops_part p) = true.
Proof.
  induction p as [|x r IH]; [reflexivity|]. cbn [ops_part].
  destruct (forallb is_op (x :: r)) eqn:E; [exact E|exact IH].
Qed.

Lemma ops_no_decls l : forallb is_op l = true -> country_codes l = [] /\ sector_decls l = [].
Proof.
  induction l as [|x r IH]; [now split|]. cbn [forallb]. intros H. apply andb_true_iff in H as [H1 H2].
  destruct x; try discriminate. cbn. now apply IH.
Qed.

Lemma decl_part_codes p : country_codes (decl_part p) = country_codes p /\ sector_decls (decl_part p) = sector_decls p.
Proof.
  destruct (ops_no_decls _ (ops_part_ops p)) as [H1 H2].
  rewrite (decl_ops_split p) at 2 4. now rewrite country_codes_app, sector_decls_app, H1, H2, !app_nil_r.
Qed.

(* ------------------------------------------------------------------ *)

Section AssembleC.
Variable g : bool.

Notation iM := (iM g).
Notation it_secs := (it_secs g).
Notation secs_of := (secs_of g).

Fixpoint n_ext (its : list item) : nat :=
  match its with [] => 0 | IExt _ :: r => S (n_ext r) | _ :: r => n_ext r end.

Lemma n_ext_app a b : n_ext (a ++ b) = n_ext a + n_ext b.
Proof. induction a as [|[n|p co so C] r IH]; cbn; lia. Qed.

Lemma n_ext_none its : n_ext its = 0 -> ext_of its = None.
Proof. induction its as [|[n|p co so C] r IH]; cbn; [reflexivity|discriminate|exact IH]. Qed.

Lemma secs_of_noext its : n_ext its = 0 -> forall c1 c2, secs_of c1 its = secs_of c2 its.
Proof.
  induction its as [|[n|p co so C] r IH]; cbn [n_ext]; intros H c1 c2; [reflexivity|discriminate|].
  unfold Items.secs_of. cbn [map List.concat]. f_equal. apply (IH H).
Qed.

Lemma ext_of_app a b : ext_of (a ++ b) = match ext_of a with Some e => Some e | None => ext_of b end.
Proof. induction a as [|[n|p co so C] r IH]; cbn; [reflexivity|reflexivity|exact IH]. Qed.

(** RegisterCurrency of a new zone on the joint sector list = the ExternalSector's block moves on *)
Lemma reg_items c : cleancc c = true -> forall its coff soff curs n,
  items_wf coff soff its -> forallb cleancc curs = true -> n_ext its <= 1 -> ext_of its = Some (xids n) ->
  register_currency (xids n) c (secs_of curs its) = Ok (secs_of (curs ++ [c]) its).
Proof.
  intros Hc. induction its as [|it r IH]; intros coff soff curs n Hwf Hcs Hn He; [discriminate|].
  unfold Items.secs_of. cbn [map List.concat]. fold (secs_of curs r). fold (secs_of (curs ++ [c]) r).
  assert (Hcs' : forallb cleancc (curs ++ [c]) = true) by (rewrite forallb_app; cbn; now rewrite Hcs, Hc).
  destruct it as [n'|p co so C]; cbn [items_wf ext_of n_ext] in *.
  - inversion He. subst n'. destruct Hwf as [-> Hwf]. cbn [Items.it_secs].
    assert (Hr : n_ext r = 0) by lia.
    rewrite (secs_of_noext r Hr (curs ++ [c]) curs).
    pose proof (reg_mid (xids soff) c [] (Xof soff curs) (secs_of curs r)) as HM. cbn [app] in HM. rewrite HM.
    + rewrite (Xof_snoc soff curs c Hcs Hc). reflexivity.
    + intros x [].
    + intros x Hx. pose proof (secs_sid_range g curs r _ _ x Hcs Hwf Hx) as Hrange. cbn [xids e_xr e_fx]. lia.
  - destruct Hwf as (-> & -> & HF & Hwf). cbn [Items.it_secs].
    set (B := map (emb0 (iM p soff)) (c_secs C)).
    pose proof (reg_mid (xids n) c B (secs_of curs r) []) as HM. rewrite !app_nil_r in HM. rewrite HM.
    + rewrite (IH _ _ curs n Hwf Hcs Hn He). cbn [rmap]. now rewrite app_nil_r.
    + intros x Hx.
      assert (Hs : soff <= sid x < soff + nsectors p).
      { pose proof (it_secs_sids g curs (IComp p coff soff C) soff Hcs (conj eq_refl HF)) as Hsid. cbn [Items.it_secs it_ns] in Hsid.
        assert (Hin : List.In (sid x) (map sid B)) by now apply in_map. unfold B in Hin. rewrite Hsid in Hin. apply in_seq in Hin. lia. }
      (* the ExternalSector comes later: its first index is at least soff + nsectors p *)
      assert (Hn' : nsectors p + soff <= n).
      { clear -Hwf He Hcs. revert Hwf He. generalize (ncountries p + coff) as co. generalize (nsectors p + soff) as so.
        induction r as [|[n'|p' co' so' C'] r' IHr]; intros so co Hwf He; cbn [items_wf ext_of] in *; [discriminate| |].
        - destruct Hwf as [-> _]. inversion He. lia.
        - destruct Hwf as (-> & -> & _ & Hwf). specialize (IHr _ _ Hwf He). lia. }
      cbn [xids e_xr e_fx]. lia.
    + intros x [].
Qed.

(* ------------------------------------------------------------------ *)
(** * The joint construction state described by a list of items *)

Record kdesc (its : list item) (K : kstate) : Prop := mkKdesc {
  kd_countries : k_countries K = countries_of its;
  kd_secs : k_secs K = secs_of (curs_of its) its;
  kd_classes : k_classes K = classes_of its;
  kd_ext : k_ext K = ext_of its;
  kd_sup : forall p co so C, List.In (IComp p co so C) its -> forall m, m < nsectors p ->
             sup_of (m + so) (k_sup K) = shift_supinfo (iM p so) (sup_of m (c_sup C));
  kd_sup_hi : forall m, tot_ns its <= m -> sup_of m (k_sup K) = (None, [])
}.

Lemma kdesc_init : kdesc [] k_init.
Proof. constructor; try reflexivity. intros p co so C []. Qed.

(* ------------------------------------------------------------------ *)
(** * Static conditions on one economy, and the laws of its embedding *)

Definition mkc (p : program) (X : string) : bool := mem X (market_codes p).

Definition cmcode (p : program) : string -> Prop :=
  if gains_prefix g p then (fun c => mkc p c = true) else (fun _ => True).
Definition cG (p : program) : sector -> Prop :=
  if gains_prefix g p then (fun s => good_p (first_code p) (mkc p) s = true) else (fun s => good_i s = true).

Definition comp_static (p : program) : bool :=
  forallb (step_okb (nsectors p)) p && Nat.leb 1 (ncountries p) && forallb cleancc (country_codes p) &&
  forallb (fun c => negb (String.prefix (first_code p ++ "_") c)) (market_codes p).

Lemma first_code_in p : 1 <= ncountries p -> List.In (first_code p) (country_codes p).
Proof. unfold ncountries, first_code. destruct (country_codes p); cbn; [lia|now left]. Qed.

Lemma comp_static_inv p : comp_static p = true ->
  forallb (step_okb (nsectors p)) p = true /\ 1 <= ncountries p /\ forallb cleancc (country_codes p) = true /\
  cleancc (first_code p) = true /\ mkc_ok (first_code p) (mkc p).
Proof.
  unfold comp_static. intros H. apply andb_true_iff in H as [H H4]. apply andb_true_iff in H as [H H3].
  apply andb_true_iff in H as [H1 H2]. apply Nat.leb_le in H2.
  repeat split; try assumption.
  - rewrite forallb_forall in H3. apply H3. now apply first_code_in.
  - now apply mkc_ok_mem.
Qed.

Lemma comp_laws p soff : comp_static p = true -> emap_ok (iM p soff) (cmcode p) (cG p).
Proof.
  intros H. destruct (comp_static_inv p H) as (_ & _ & _ & Hc & Hm).
  unfold Items.iM, emap_at, cmcode, cG. destruct (gains_prefix g p).
  - apply pmap_ok; assumption.
  - apply idmap_ok.
Qed.

Lemma comp_mcode p c : List.In c (market_codes p) -> cmcode p c.
Proof. unfold cmcode. destruct (gains_prefix g p); [|trivial]. intros H. unfold mkc. now apply mem_In. Qed.

(* ------------------------------------------------------------------ *)
(** * An economy's block inside the described state *)

Definition disjoint_codes (p : program) (ia ib : list item) : Prop :=
  forall c, List.In c (country_codes p) -> ~ List.In c (codes_of ia ++ codes_of ib)%list.

Lemma mk_kblock ia ib p C K curs :
  items_wf 0 0 ia -> items_wf (ncountries p + tot_nc ia) (nsectors p + tot_ns ia) ib ->
  forallb cleancc curs = true ->
  k_countries K = (countries_of ia ++ map (fun c => (c, first_code p)) (c_countries C) ++ countries_of ib)%list ->
  k_secs K = (secs_of curs ia ++ map (emb0 (iM p (tot_ns ia))) (c_secs C) ++ secs_of curs ib)%list ->
  k_classes K = (classes_of ia ++ map (fun k => COld (shift_cls (tot_ns ia) k)) (c_classes C) ++ classes_of ib)%list ->
  disjoint_codes p ia ib ->
  (forall m, m < nsectors p -> sup_of (m + tot_ns ia) (k_sup K) = shift_supinfo (iM p (tot_ns ia)) (sup_of m (c_sup C))) ->
  kblock (iM p (tot_ns ia)) p (tot_nc ia) (first_code p) K C (countries_of ia) (countries_of ib)
         (secs_of curs ia) (secs_of curs ib) (classes_of ia) (classes_of ib).
Proof.
  intros Wa Wb Hc E1 E2 E3 Hd Hs.
  constructor; rewrite ?iM_off; try assumption.
  - apply (countries_length ia 0 0 Wa).
  - rewrite (secs_length g curs ia 0 0 Hc Wa). reflexivity.
  - rewrite (classes_length ia 0 0 Wa). reflexivity.
  - intros x Hx. pose proof (secs_sid_range g curs ia 0 0 x Hc Wa Hx). lia.
  - intros x Hx. pose proof (secs_sid_range g curs ib _ _ x Hc Wb Hx). lia.
  - intros x Hx Hin. apply (Hd _ Hin). apply in_app_or in Hx. apply in_or_app.
    destruct Hx as [Hx|Hx]; [left; eapply (secs_countries g curs Hc ia); eauto|right; eapply (secs_countries g curs Hc ib); eauto].
  - intros x Hx Hin. apply (Hd _ Hin). apply in_app_or in Hx. apply in_or_app.
    destruct Hx as [Hx|Hx]; [left; eapply (countries_codes ia); eauto|right; eapply (countries_codes ib); eauto].
Qed.

Lemma ext_none_n its : ext_of its = None -> n_ext its = 0.
Proof. induction its as [|[n|p co so C] r IH]; cbn; [reflexivity|discriminate|exact IH]. Qed.

Lemma tot_ns_cons it r : tot_ns (it :: r) = it_ns it + tot_ns r.
Proof. reflexivity. Qed.

Lemma ext_range : forall its coff soff n, items_wf coff soff its -> ext_of its = Some (xids n) -> soff <= n /\ n + 3 <= soff + tot_ns its.
Proof.
  induction its as [|[n'|p co so C] r IH]; intros coff soff n Hwf He; cbn [items_wf ext_of] in *; [discriminate| |].
  - destruct Hwf as [-> _]. inversion He. rewrite tot_ns_cons. cbn [it_ns]. lia.
  - destruct Hwf as (-> & -> & _ & Hwf). destruct (IH _ _ n Hwf He) as [H1 H2]. rewrite tot_ns_cons. cbn [it_ns]. lia.
Qed.

Lemma item_range q co so C : forall its c0 s0, items_wf c0 s0 its -> List.In (IComp q co so C) its ->
  s0 <= so /\ so + nsectors q <= s0 + tot_ns its.
Proof.
  induction its as [|[n|q' co' so' C'] r IH]; intros c0 s0 Hwf Hin; [destruct Hin| |]; cbn [items_wf] in Hwf.
  - destruct Hwf as [_ Hwf]. destruct Hin as [Hin|Hin]; [discriminate|]. destruct (IH _ _ Hwf Hin). rewrite tot_ns_cons. cbn [it_ns]. lia.
  - destruct Hwf as (-> & -> & _ & Hwf). destruct Hin as [Hin|Hin].
    + inversion Hin. subst. rewrite tot_ns_cons. cbn [it_ns]. lia.
    + destruct (IH _ _ Hwf Hin). rewrite tot_ns_cons. cbn [it_ns]. lia.
Qed.

Lemma cwf_init p : cwf p c_init.
Proof. constructor; cbn; try reflexivity; try lia; intros; try contradiction; lia. Qed.

Lemma forallb_app_inv {A} (f : A -> bool) a b : forallb f (a ++ b) = true -> forallb f a = true /\ forallb f b = true.
Proof. rewrite forallb_app. apply andb_true_iff. Qed.

(** facts about a stand-alone construction state (from MainProofs.cinv) *)
Lemma cinv_full q p C : cinv q C -> cwf p C -> country_codes q = country_codes p -> sector_decls q = sector_decls p -> comp_full p C.
Proof.
  intros HI HW Hc Hd. constructor; [exact HW| | |].
  - rewrite <- (map_length code), (ci_codes _ _ HI), map_length, Hd. reflexivity.
  - now rewrite (ci_countries _ _ HI).
  - intros x Hx. rewrite <- Hc, <- (ci_countries _ _ HI).
    pose proof (ci_ctry _ _ HI) as HF.
    assert (Hin : List.In (country x) (map country (c_secs C))) by now apply in_map.
    clear -HF Hin. induction HF as [|d cc l l' Hd _ IH]; [destruct Hin|]. destruct Hin as [<-|Hin]; [|now apply IH].
    eapply nth_error_In; exact Hd.
Qed.

Lemma has_country_decl p : 1 <= ncountries p -> has_country (country_codes (decl_part p)) = true.
Proof. destruct (decl_part_codes p) as [-> _]. unfold ncountries. destruct (country_codes p); cbn; [lia|reflexivity]. Qed.

Theorem phaseD_comp its K p :
  kdesc its K -> items_wf 0 0 its -> n_ext its <= 1 -> forallb cleancc (curs_of its) = true ->
  comp_static p = true -> disjoint_codes p its [] -> ~ List.In (first_code p) (curs_of its) ->
  match construct_all (decl_part p) with
  | Ok CD => exists K',
      foldM run_step2 (tr_decls g (tot_nc its) (tot_ns its) p) K = Ok K' /\
      kdesc (its ++ [IComp p (tot_nc its) (tot_ns its) CD]) K' /\ comp_full p CD /\
      k_flows K' = (k_flows K ++ map (shift_flow (iM p (tot_ns its)) (sec_is_market p)) (flat_map step_flows (decl_part p)))%list /\
      k_exo K' = (k_exo K ++ map (shift_exo (iM p (tot_ns its)) (sec_is_market p)) (flat_map step_exo (decl_part p)))%list /\
      k_ic K' = (k_ic K ++ map (shift_ic (iM p (tot_ns its)) (sec_is_market p)) (flat_map step_ic (decl_part p)))%list
  | Err e => foldM run_step2 (tr_decls g (tot_nc its) (tot_ns its) p) K = Err e
  end.
Proof.
  intros HD Hwf Hn1 Hcs Hst Hdj Hfr. destruct (comp_static_inv p Hst) as (Hsteps & Hnc & Hccs & Hcur & _).
  set (soff := tot_ns its). set (coff := tot_nc its). set (M := iM p soff). set (curs := curs_of its).
  pose proof (comp_laws p soff Hst) as Hok.
  assert (HK0 : kblock M p coff (first_code p) K c_init (countries_of its) [] (secs_of curs its) [] (classes_of its) []).
  { apply (mk_kblock its [] p c_init K curs Hwf I Hcs).
    - cbn. now rewrite (kd_countries _ _ HD), app_nil_r.
    - cbn. now rewrite (kd_secs _ _ HD), app_nil_r.
    - cbn. now rewrite (kd_classes _ _ HD), app_nil_r.
    - exact Hdj.
    - intros m Hm. rewrite (kd_sup_hi _ _ HD) by (fold soff; lia). reflexivity. }
  pose proof (tr_run M (cmcode p) (cG p) Hok p coff (comp_mcode p) (countries_of its) (classes_of its) [] [] [] (ops_part p)
                     (decl_part p) [] K c_init (secs_of curs its)) as HR.
  cbn [app] in HR. specialize (HR (decl_ops_split p)).
  rewrite (decl_ops_split p) in Hsteps at 2. destruct (forallb_app_inv _ _ _ Hsteps) as [Hs1 Hs2].
  specialize (HR Hs1 HK0 (cwf_init p) eq_refl eq_refl (or_intror (conj eq_refl (conj eq_refl eq_refl)))).
  cbn [country_codes has_country] in HR.
  assert (Hfresh : ~ List.In (first_code p) (map snd (countries_of its))).
  { intros Hin. apply in_map_iff in Hin as (y & Ey & Hy). destruct (countries_codes its 0 0 Hwf y Hy) as [_ H2].
    apply Hfr. now rewrite <- Ey. }
  assert (Hext : forall e, k_ext K = Some e -> e_xr e < e_off M /\ e_fx e < e_off M).
  { intros e He. rewrite (kd_ext _ _ HD) in He. unfold M. rewrite iM_off.
    assert (Hx : exists n, e = xids n).
    { clear -He. induction its as [|[n|q co so C] r IH]; cbn in He; [discriminate|inversion He; now exists n|now apply IH]. }
    destruct Hx as (n & ->). destruct (ext_range its 0 0 n Hwf He) as [_ H2]. cbn [xids e_xr e_fx]. fold soff in H2. lia. }
  assert (Hreg : false = false -> forall e, k_ext K = Some e -> is_ok (register_currency e (first_code p) (secs_of curs its)) = true).
  { intros _ e He. rewrite (kd_ext _ _ HD) in He.
    assert (Hx : exists n, e = xids n).
    { clear -He. induction its as [|[n|q co so C] r IH]; cbn in He; [discriminate|inversion He; now exists n|now apply IH]. }
    destruct Hx as (n & ->). now rewrite (reg_items _ Hcur its 0 0 curs n Hwf Hcs Hn1 He). }
  specialize (HR (fun H _ => ltac:(discriminate)) Hfresh (fun _ => Hext) Hreg).
  unfold construct_all. destruct (foldM run_step (decl_part p) c_init) as [CD|e] eqn:ECD; [|exact HR].
  destruct HR as (K' & preS' & R' & HK' & HC' & G1 & G2 & G3 & G4 & GS & G5 & G6 & G7).
  rewrite (has_country_decl p Hnc) in G7.
  assert (HCF : comp_full p CD).
  { destruct (decl_part_codes p) as [E1 E2]. eapply cinv_full; [apply (construct_all_cinv (decl_part p)); exact ECD|exact HC'|exact E1|exact E2]. }
  exists K'. split; [exact R'|]. split; [|split; [exact HCF|split; [exact G1|split; [exact G2|exact G3]]]].
  assert (Ecurs : curs_of (its ++ [IComp p coff soff CD]) = (curs ++ [first_code p])%list).
  { unfold curs_of. now rewrite map_app. }
  assert (EpreS : preS' = secs_of (curs ++ [first_code p]) its).
  { rewrite G7, (kd_ext _ _ HD). destruct (ext_of its) as [e|] eqn:Ee.
    - assert (Hx : exists n, e = xids n).
      { clear -Ee. induction its as [|[n|q co so C] r IH]; cbn in Ee; [discriminate|inversion Ee; now exists n|now apply IH]. }
      destruct Hx as (n & ->). unfold regS. now rewrite (reg_items _ Hcur its 0 0 curs n Hwf Hcs Hn1 Ee).
    - apply secs_of_noext. now apply ext_none_n. }
  constructor.
  - rewrite (kb_countries _ _ _ _ _ _ _ _ _ _ _ _ HK'), countries_of_app. cbn. now rewrite !app_nil_r.
  - rewrite (kb_secs _ _ _ _ _ _ _ _ _ _ _ _ HK'), Ecurs, secs_of_app, EpreS. unfold Items.secs_of at 3. cbn. now rewrite !app_nil_r.
  - rewrite (kb_classes _ _ _ _ _ _ _ _ _ _ _ _ HK'), classes_of_app. unfold M. rewrite iM_off. cbn. now rewrite !app_nil_r.
  - rewrite G4, (kd_ext _ _ HD), ext_of_app. cbn. now destruct (ext_of its).
  - intros q co so C Hin m Hm. apply in_app_or in Hin as [Hin|[Hin|[]]].
    + assert (Hr : so + nsectors q <= soff) by (destruct (item_range q co so C its 0 0 Hwf Hin); unfold soff; lia).
      rewrite GS by (unfold M; rewrite iM_off; lia). exact (kd_sup _ _ HD q co so C Hin m Hm).
    + inversion Hin. subst q co so C. pose proof (kb_sup _ _ _ _ _ _ _ _ _ _ _ _ HK' m Hm) as HS. unfold M in HS. rewrite iM_off in HS. exact HS.
  - intros m Hm. rewrite tot_ns_app in Hm. unfold tot_ns at 2 in Hm. cbn in Hm.
    rewrite GS by (unfold M; rewrite iM_off; fold soff; lia). apply (kd_sup_hi _ _ HD). fold soff. lia.
Qed.

(* ------------------------------------------------------------------ *)
(** * The ExternalSector step *)

Lemma nodup_repeat_head c k rest : 1 <= k -> ~ List.In c rest ->
  nodup string_dec (repeat c k ++ rest) = c :: nodup string_dec rest.
Proof.
  intros Hk Hn. induction k as [|k IH]; [lia|]. cbn [repeat app nodup].
  destruct (in_dec string_dec c (repeat c k ++ rest)) as [Hi|Hi].
  - destruct k as [|k']; [cbn in Hi; contradiction|]. apply IH. lia.
  - destruct k as [|k']; [reflexivity|]. exfalso. apply Hi. cbn. now left.
Qed.

Lemma it_countries_snd it : match it with IExt _ => True | IComp p _ _ C => comp_full p C end ->
  map snd (it_countries it) = repeat (it_cur it) (it_nc it).
Proof.
  destruct it as [n|p co so C]; intros H; [reflexivity|]. cbn [it_countries it_cur it_nc]. rewrite map_map. cbn [snd].
  rewrite (cf_cc _ _ H). unfold ncountries. induction (country_codes p); cbn; [reflexivity|now f_equal].
Qed.

Lemma zones_items : forall its coff soff, items_wf coff soff its -> NoDup (curs_of its) ->
  (forall p co so C, List.In (IComp p co so C) its -> 1 <= ncountries p) ->
  zones_of (countries_of its) = curs_of its.
Proof.
  unfold zones_of. induction its as [|it r IH]; intros coff soff Hwf Hnd Hnc; [reflexivity|].
  unfold countries_of. cbn [map List.concat]. rewrite map_app. fold (countries_of r). cbn [curs_of map] in *.
  inversion Hnd as [|x l Hx Hnd']. subst.
  assert (Hr : zones_of (countries_of r) = curs_of r /\ forall y, List.In y (map snd (countries_of r)) -> List.In y (curs_of r)).
  { destruct it as [n|p co so C]; cbn [items_wf] in Hwf.
    - destruct Hwf as [_ Hwf]. split; [eapply IH; eauto; intros; eapply Hnc; right; eauto|].
      intros y Hy. apply in_map_iff in Hy as (z & <- & Hz). now destruct (countries_codes r _ _ Hwf z Hz).
    - destruct Hwf as (_ & _ & _ & Hwf). split; [eapply IH; eauto; intros; eapply Hnc; right; eauto|].
      intros y Hy. apply in_map_iff in Hy as (z & <- & Hz). now destruct (countries_codes r _ _ Hwf z Hz). }
  destruct Hr as [Hr1 Hr2]. unfold zones_of in Hr1.
  rewrite (it_countries_snd it).
  - rewrite nodup_repeat_head; [now rewrite Hr1| |].
    + destruct it as [n|p co so C]; cbn [it_nc]; [lia|]. eapply Hnc. now left.
    + intros Hin. apply Hx. now apply Hr2.
  - destruct it as [n|p co so C]; [exact I|]. cbn [items_wf] in Hwf. tauto.
Qed.

Lemma register_all_tail e : forall cs A X, (forall x, List.In x A -> sid x <> e_xr e /\ sid x <> e_fx e) ->
  register_all e cs (A ++ X)%list = rmap (fun X' => (A ++ X')%list) (register_all e cs X).
Proof.
  induction cs as [|c r IH]; intros A X HA; [reflexivity|]. cbn [register_all].
  pose proof (reg_mid e c A X [] HA) as HM. rewrite !app_nil_r in HM. rewrite HM by (intros x []).
  destruct (register_currency e c X) as [X1|]; cbn [rmap bind]; [|reflexivity].
  replace (A ++ X1 ++ [])%list with (A ++ X1)%list by (now rewrite app_nil_r). now apply IH.
Qed.

Theorem phaseD_ext its K :
  kdesc its K -> items_wf 0 0 its -> ext_of its = None -> forallb cleancc (curs_of its) = true ->
  NoDup (curs_of its ++ ["NUMERAIRE"]) -> ~ List.In "EXT" (codes_of its) ->
  (forall p co so C, List.In (IComp p co so C) its -> 1 <= ncountries p) ->
  exists K', run_step2 K S2External = Ok K' /\ kdesc (its ++ [IExt (tot_ns its)]) K' /\
             k_flows K' = k_flows K /\ k_exo K' = k_exo K /\ k_ic K' = k_ic K.
Proof.
  intros HD Hwf Hne Hcs Hnd Hext Hnc. set (n := tot_ns its). set (curs := curs_of its).
  assert (Hlen : List.length (k_secs K) = n) by (rewrite (kd_secs _ _ HD); apply (secs_length g _ its 0 0 Hcs Hwf)).
  assert (HnoEXT : forall x, List.In x (k_secs K) -> in_country "EXT" x = false).
  { intros x Hx. rewrite (kd_secs _ _ HD) in Hx. unfold in_country. apply String.eqb_neq. intros E.
    apply Hext. rewrite <- E. eapply (secs_countries g _ Hcs its 0 0 Hwf); eauto. }
  assert (Hex0 : forall c (L : list sector), (forall x, List.In x L -> in_country "EXT" x = false) ->
            existsb (fun s => in_country "EXT" s && String.eqb (code s) c) L = false).
  { intros c L HL. induction L as [|x r IH]; [reflexivity|]. cbn [existsb]. rewrite (HL x (or_introl eq_refl)). cbn.
    apply IH. intros y Hy. apply HL. now right. }
  cbn [run_step2]. rewrite (kd_ext _ _ HD), Hne. unfold add_country.
  assert (Em : mem "EXT" (map fst (k_countries K)) = false).
  { destruct (mem "EXT" (map fst (k_countries K))) eqn:E; [|reflexivity]. exfalso. apply mem_In in E.
    rewrite (kd_countries _ _ HD) in E. apply in_map_iff in E as (y & Ey & Hy).
    destruct (countries_codes its 0 0 Hwf y Hy) as [H1 _]. apply Hext. now rewrite <- Ey. }
  rewrite Em, (kd_ext _ _ HD), Hne. cbn [bind k_countries k_secs k_ext k_classes k_sup k_flows k_exo k_ic k_default].
  unfold add_sector. cbn [k_countries k_secs k_classes k_ext k_sup k_flows k_exo k_ic k_default].
  assert (Enth : nth_error (k_countries K ++ [("EXT", "NUMERAIRE")]) (List.length (k_countries K)) = Some ("EXT", "NUMERAIRE")).
  { rewrite nth_error_app2 by lia. now rewrite Nat.sub_diag. }
  rewrite Enth. rewrite (Hex0 "XR" (k_secs K) HnoEXT). cbn [market_refs2 resolve_markets bind construct2].
  cbn [k_countries k_secs k_classes k_ext k_sup k_flows k_exo k_ic k_default].
  rewrite Enth.
  assert (Ex1 : existsb (fun s => in_country "EXT" s && String.eqb (code s) "FX")
                  (k_secs K ++ [base_sector (List.length (k_secs K)) "XR" "EXT" false false false []]) = false).
  { rewrite existsb_app, (Hex0 "FX" (k_secs K) HnoEXT). reflexivity. }
  rewrite Ex1. cbn [market_refs2 resolve_markets bind construct2].
  cbn [k_countries k_secs k_classes k_ext k_sup k_flows k_exo k_ic k_default].
  rewrite Enth.
  assert (Ex2 : existsb (fun s => in_country "EXT" s && String.eqb (code s) "GOLD")
                  ((k_secs K ++ [base_sector (List.length (k_secs K)) "XR" "EXT" false false false []]) ++
                   [base_sector (List.length (k_secs K ++ [base_sector (List.length (k_secs K)) "XR" "EXT" false false false []])) "FX" "EXT" false false false []]) = false).
  { rewrite !existsb_app, (Hex0 "GOLD" (k_secs K) HnoEXT). reflexivity. }
  rewrite Ex2. cbn [market_refs2 resolve_markets bind construct2].
  cbn [k_countries k_secs k_classes k_ext k_sup k_flows k_exo k_ic k_default].
  rewrite !app_length. cbn [List.length]. rewrite Hlen.
  replace (n + 1) with (S n) by lia. replace (S n + 1) with (S (S n)) by lia.
  rewrite <- !app_assoc. cbn [app]. change [base_sector n "XR" "EXT" false false false []; base_sector (S n) "FX" "EXT" false false false [];
                                           base_sector (S (S n)) "GOLD" "EXT" false false false []] with (ext_secs n).
  rewrite (kd_countries _ _ HD).
  assert (Ez : zones_of (countries_of its ++ [("EXT", "NUMERAIRE")]) = (curs ++ ["NUMERAIRE"])%list).
  { change (countries_of its ++ [("EXT", "NUMERAIRE")])%list with (countries_of its ++ it_countries (IExt n))%list.
    replace (countries_of its ++ it_countries (IExt n))%list with (countries_of (its ++ [IExt n])).
    2:{ rewrite countries_of_app. unfold countries_of at 2. cbn. reflexivity. }
    rewrite (zones_items (its ++ [IExt n]) 0 0).
    - unfold curs, curs_of. now rewrite map_app.
    - apply items_wf_app. split; [exact Hwf|]. cbn. split; [fold n; lia|exact I].
    - unfold curs_of. rewrite map_app. exact Hnd.
    - intros p co so C Hin. apply in_app_or in Hin as [Hin|[Hin|[]]]; [eapply Hnc; eauto|discriminate]. }
  rewrite Ez.
  assert (Hcs' : forallb cleancc (curs ++ ["NUMERAIRE"]) = true) by (rewrite forallb_app; unfold curs; rewrite Hcs; reflexivity).
  rewrite (kd_secs _ _ HD). fold curs.
  rewrite register_all_tail.
  2:{ intros x Hx. pose proof (secs_sid_range g curs its 0 0 x Hcs Hwf Hx) as Hr. cbn. fold n in Hr. lia. }
  change (mkExt n (S n) (S (S n))) with (xids n).
  destruct (Xof_ok n _ Hcs') as [EX _]. rewrite EX. cbn [rmap bind].
  eexists. split; [reflexivity|]. split; [|repeat split].
  assert (Ecurs : curs_of (its ++ [IExt n]) = (curs ++ ["NUMERAIRE"])%list) by (unfold curs, curs_of; now rewrite map_app).
  constructor; cbn [k_countries k_secs k_classes k_ext k_sup].
  - rewrite countries_of_app. unfold countries_of at 2. cbn. reflexivity.
  - rewrite Ecurs, secs_of_app. f_equal; [apply secs_of_noext; now apply ext_none_n|].
    unfold Items.secs_of. cbn [map List.concat Items.it_secs]. now rewrite app_nil_r.
  - rewrite (kd_classes _ _ HD), classes_of_app. unfold classes_of at 2. cbn. reflexivity.
  - rewrite ext_of_app, Hne. reflexivity.
  - intros p co so C Hin m Hm. apply in_app_or in Hin as [Hin|[Hin|[]]]; [|discriminate]. exact (kd_sup _ _ HD p co so C Hin m Hm).
  - intros m Hm. rewrite tot_ns_app in Hm. apply (kd_sup_hi _ _ HD). fold n. lia.
Qed.

(* ------------------------------------------------------------------ *)
(** * The trailing operations of one economy *)

Lemma curs_of_app a b : curs_of (a ++ b) = (curs_of a ++ curs_of b)%list.
Proof. unfold curs_of. apply map_app. Qed.

Lemma items_wf_mid ia it ib : items_wf 0 0 (ia ++ it :: ib) ->
  items_wf 0 0 ia /\ items_wf (tot_nc ia) (tot_ns ia) [it] /\ items_wf (it_nc it + tot_nc ia) (it_ns it + tot_ns ia) ib.
Proof.
  intros H. apply items_wf_app in H as [H1 H2]. rewrite !Nat.add_0_r in H2. split; [exact H1|].
  change (it :: ib) with ([it] ++ ib)%list in H2. apply items_wf_app in H2 as [H2 H3]. split; [exact H2|].
  unfold tot_nc, tot_ns in H3. cbn [map sum_nat fold_right] in H3. now rewrite !Nat.add_0_r in H3.
Qed.

Theorem phaseO_comp ia ib p co so CD K :
  let its := (ia ++ IComp p co so CD :: ib)%list in
  kdesc its K -> items_wf 0 0 its -> forallb cleancc (curs_of its) = true -> NoDup (curs_of its) ->
  comp_static p = true -> disjoint_codes p ia ib ->
  match foldM run_step (ops_part p) CD with
  | Ok C => exists K',
      foldM run_step2 (tr_ops g co so p) K = Ok K' /\
      kdesc (ia ++ IComp p co so C :: ib) K' /\ comp_full p C /\
      k_flows K' = (k_flows K ++ map (shift_flow (iM p so) (sec_is_market p)) (flat_map step_flows (ops_part p)))%list /\
      k_exo K' = (k_exo K ++ map (shift_exo (iM p so) (sec_is_market p)) (flat_map step_exo (ops_part p)))%list /\
      k_ic K' = (k_ic K ++ map (shift_ic (iM p so) (sec_is_market p)) (flat_map step_ic (ops_part p)))%list
  | Err e => foldM run_step2 (tr_ops g co so p) K = Err e
  end.
Proof.
  intros its HD Hwf Hcs Hnd Hst Hdj. destruct (comp_static_inv p Hst) as (Hsteps & Hnc & Hccs & Hcur & _).
  destruct (items_wf_mid _ _ _ Hwf) as (Wa & Wi & Wb). cbn [items_wf it_nc it_ns] in Wi, Wb.
  destruct Wi as (-> & -> & HCF & _).
  set (soff := tot_ns ia) in *. set (coff := tot_nc ia) in *. set (M := iM p soff). set (curs := curs_of its).
  pose proof (comp_laws p soff Hst) as Hok.
  assert (HK0 : kblock M p coff (first_code p) K CD (countries_of ia) (countries_of ib) (secs_of curs ia) (secs_of curs ib)
                       (classes_of ia) (classes_of ib)).
  { apply (mk_kblock ia ib p CD K curs Wa Wb Hcs).
    - rewrite (kd_countries _ _ HD). unfold its. rewrite countries_of_app. unfold countries_of at 2. cbn [map List.concat it_countries]. reflexivity.
    - rewrite (kd_secs _ _ HD). fold curs. unfold its. rewrite secs_of_app. unfold Items.secs_of at 2. cbn [map List.concat Items.it_secs]. reflexivity.
    - rewrite (kd_classes _ _ HD). unfold its. rewrite classes_of_app. unfold classes_of at 2. cbn [map List.concat Items.it_classes]. reflexivity.
    - exact Hdj.
    - intros m Hm. apply (kd_sup _ _ HD p coff soff CD); [|exact Hm]. unfold its. apply in_or_app. right. now left. }
  destruct (decl_part_codes p) as [Ec Ed].
  pose proof (tr_run M (cmcode p) (cG p) Hok p coff (comp_mcode p) (countries_of ia) (classes_of ia) (countries_of ib) (secs_of curs ib) (classes_of ib) []
                     (ops_part p) (decl_part p) K CD (secs_of curs ia)) as HR.
  rewrite app_nil_r in HR. specialize (HR (decl_ops_split p)).
  rewrite (decl_ops_split p) in Hsteps at 2. destruct (forallb_app_inv _ _ _ Hsteps) as [Hs1 Hs2].
  specialize (HR Hs2 HK0 (cf_wf _ _ HCF)).
  rewrite Ed, Ec in HR. specialize (HR (cf_len _ _ HCF) (cf_cc _ _ HCF) (or_introl (ops_part_ops p))).
  destruct (ops_no_decls _ (ops_part_ops p)) as [Eo1 Eo2]. rewrite Eo1 in HR. cbn [has_country] in HR.
  assert (Hfresh : ~ List.In (first_code p) (map snd (countries_of ia))).
  { intros Hin. apply in_map_iff in Hin as (y & Ey & Hy). destruct (countries_codes ia 0 0 Wa y Hy) as [_ H2].
    unfold its in Hnd. rewrite curs_of_app in Hnd. cbn [curs_of map it_cur] in Hnd.
    apply NoDup_remove_2 in Hnd. apply Hnd. apply in_or_app. left. now rewrite <- Ey. }
  specialize (HR (fun _ H => ltac:(discriminate)) Hfresh (fun H => ltac:(discriminate))).
  assert (Hhc : has_country (country_codes p) = true).
  { unfold ncountries in Hnc. destruct (country_codes p); cbn in *; [lia|reflexivity]. }
  rewrite Hhc in HR. specialize (HR (fun H => ltac:(discriminate))).
  destruct (foldM run_step (ops_part p) CD) as [C|e] eqn:EC; [|exact HR].
  destruct HR as (K' & preS' & R' & HK' & HC' & G1 & G2 & G3 & G4 & GS & G5 & G6 & G7). subst preS'.
  assert (HCF' : comp_full p C).
  { assert (Eall : construct_all p = Ok C \/ True) by now right.
    (* statics of C = statics of CD: the operations only change equations *)
    assert (HF : Forall2 frame (c_secs CD) (c_secs C) /\ c_countries C = c_countries CD).
    { clear -EC. assert (Hops := ops_part_ops p). revert CD C EC Hops. induction (ops_part p) as [|x r IH]; intros CD C EC Hops.
      - inversion EC. split; [apply Forall2_refl_frame|reflexivity].
      - cbn [forallb] in Hops. apply andb_true_iff in Hops as [Hx Hr]. destruct x as [c|ci c k|o]; try discriminate.
        cbn [foldM run_step] in EC. destruct (run_op CD o) as [C1|] eqn:E1; [|discriminate].
        destruct (IH _ _ EC Hr) as [F2 E2].
        assert (F1 : Forall2 frame (c_secs CD) (c_secs C1) /\ c_countries C1 = c_countries CD).
        { clear -E1. destruct o; cbn [run_op] in E1.
          - destruct (on_sector _ _ _) eqn:Eo; [|discriminate]. inversion E1. cbn. split; [|reflexivity].
            eapply on_sector_frame; [exact Eo|]. intros x x' Hx. eapply addv_frame'; exact Hx.
          - destruct (find_sec _ _); [|discriminate]. inversion E1. cbn. split; [apply Forall2_refl_frame|reflexivity].
          - destruct (find_sec src _); [|discriminate]. destruct (find_sec tgt _); [|discriminate]. inversion E1. cbn. split; [apply Forall2_refl_frame|reflexivity].
          - destruct (find_sec market _); [|discriminate]. destruct (find_sec supplier _); [|discriminate].
            destruct (has_add_supplier _); [|discriminate]. destruct (sup_of _ _). inversion E1. cbn. split; [apply Forall2_refl_frame|reflexivity].
          - destruct (on_sector _ _ _) eqn:Eo; [|discriminate]. inversion E1. cbn. split; [|reflexivity].
            eapply on_sector_frame; [exact Eo|]. intros x x' Hx. apply asset_weighting_lstep in Hx. exact (ls_frame _ _ _ Hx).
          - destruct (find_sec _ _); [|discriminate]. inversion E1. cbn. split; [apply Forall2_refl_frame|reflexivity].
          - destruct (find_sec cb _); [|discriminate]. destruct (find_sec tre _); [|discriminate]. inversion E1. cbn. split; [apply Forall2_refl_frame|reflexivity]. }
        destruct F1 as [F1 E1']. split; [eapply Forall2_trans_frame; eauto|now rewrite E2, E1']. }
    destruct HF as [HF Ecs]. constructor; [exact HC'| | |].
    - rewrite <- (cf_len _ _ HCF). now apply Forall2_length_frame.
    - now rewrite Ecs, (cf_cc _ _ HCF).
    - intros x' Hx'. destruct (GenEmb_In_r _ _ HF x' Hx') as (x & H1 & H2). rewrite (frame_country _ _ H2). now apply (cf_sc _ _ HCF). }
  exists K'. split; [exact R'|]. split; [|split; [exact HCF'|split; [exact G1|split; [exact G2|exact G3]]]].
  assert (Ecurs : curs_of (ia ++ IComp p coff soff C :: ib) = curs).
  { unfold curs, its. now rewrite !curs_of_app. }
  constructor.
  - rewrite (kb_countries _ _ _ _ _ _ _ _ _ _ _ _ HK'), countries_of_app. unfold countries_of at 3. cbn [map List.concat it_countries]. reflexivity.
  - rewrite (kb_secs _ _ _ _ _ _ _ _ _ _ _ _ HK'), Ecurs, secs_of_app. unfold Items.secs_of at 4. cbn [map List.concat Items.it_secs]. reflexivity.
  - rewrite (kb_classes _ _ _ _ _ _ _ _ _ _ _ _ HK'), classes_of_app. unfold classes_of at 3. unfold M. rewrite iM_off. cbn [map List.concat Items.it_classes]. reflexivity.
  - rewrite G4, (kd_ext _ _ HD). unfold its. rewrite !ext_of_app. reflexivity.
  - intros q co' so' C' Hin m Hm. apply in_app_or in Hin as [Hin|[Hin|Hin]].
    + assert (Hr : so' + nsectors q <= soff) by (destruct (item_range q co' so' C' ia 0 0 Wa Hin); unfold soff; lia).
      rewrite GS by (unfold M; rewrite iM_off; lia).
      apply (kd_sup _ _ HD q co' so' C'); [|exact Hm]. unfold its. apply in_or_app. now left.
    + inversion Hin. subst q co' so' C'. pose proof (kb_sup _ _ _ _ _ _ _ _ _ _ _ _ HK' m Hm) as HS. unfold M in HS. rewrite iM_off in HS. exact HS.
    + assert (Hr : nsectors p + soff <= so') by (destruct (item_range q co' so' C' ib _ _ Wb Hin); lia).
      rewrite GS by (unfold M; rewrite iM_off; lia).
      apply (kd_sup _ _ HD q co' so' C'); [|exact Hm]. unfold its. apply in_or_app. right. now right.
  - intros m Hm. rewrite tot_ns_app, tot_ns_cons in Hm. cbn [it_ns] in Hm.
    rewrite GS by (unfold M; rewrite iM_off; fold soff; lia). apply (kd_sup_hi _ _ HD). unfold its. rewrite tot_ns_app, tot_ns_cons. cbn [it_ns]. exact Hm.
Qed.

End AssembleC.
