(** One _GenerateEquations call of the joint model (Main2.gen_step2) on a sector of an embedded
    economy is the stand-alone call (Main.gen_step) on the economy's block: everything outside the
    block is left alone, the block comes out as the embedding of the stand-alone result. *)
From Coq Require Import List String Ascii Bool ZArith Arith Lia.
From SFC.Base Require Import Res Str Sorting.
From SFC.Gen Require Import Fx Zone.
From SFC.GenMarket Require Import Market.
From SFC.GenTax Require Import Tax TaxProofs Dividends.
From SFC.GenAsset Require Import Common Money Deposit.
From SFC.GenMain2 Require Import Program Classes Main Ledger MainProofs Program2 Main2.
From SFC.GenEmbed Require Import EmbDefs Laws ZoneEmb Block.
Import ListNotations.
Local Open Scope string_scope.

(** the flows a _GenerateEquations call registers *)
Definition gen_flows (ik : nat * cls) : list flow :=
  match snd ik with CCentralBank t => [(fst ik, t, "INTDEP", true, true)] | _ => [] end.

Lemma gen_step_flows I st ik st' : gen_step I st ik = Ok st' -> g_flows st' = (g_flows st ++ gen_flows ik)%list.
Proof.
  destruct ik as [i k]. unfold gen_step, gen_flows. cbn [fst snd].
  destruct (find_sec i (g_zone st)) as [self|]; [|discriminate].
  assert (HS : forall r, (do Z' <- r ;; Ok (mkG Z' (g_flows st))) = Ok st' -> g_flows st' = (g_flows st ++ [])%list).
  { intros r H. destruct r; [|discriminate]. cbn in H. inversion H. cbn. now rewrite app_nil_r. }
  destruct k; try (intros H; inversion H; subst; cbn; now rewrite ?app_nil_r); try (apply HS).
  - destruct (find _ _); [|discriminate]. destruct (has_var _ _); [|discriminate]. apply HS.
  - destruct (upd _ _ _); [|discriminate]. cbn [bind]. destruct (existsb _ _); [discriminate|].
    intros H; inversion H; subst; cbn; now rewrite app_nil_r.
  - destruct (sup_of i (i_sup I)). apply HS.
Qed.

(* ------------------------------------------------------------------ *)
(** * The FX sector's ledger written back unchanged *)

Lemma set_var_same n e vs : lookup_var n vs = Some e -> set_var n e vs = vs.
Proof.
  induction vs as [|[k e'] r IH]; [discriminate|]. cbn [lookup_var set_var].
  destruct (String.eqb_spec n k) as [->|Hn].
  - intros H. now inversion H.
  - intros H. f_equal. now apply IH.
Qed.

Lemma store_net_id fx c : has_var fx ("NET_" ++ c) = true -> store_net fx (c, net_of fx c) = fx.
Proof.
  unfold has_var, store_net, net_of. cbn [fst snd].
  destruct (lookup_var ("NET_" ++ c) (vars fx)) as [e|] eqn:El; [|discriminate]. intros _.
  unfold set_eqn. replace (mkEqn (blob e) (terms e)) with e by (now destruct e).
  rewrite (set_var_same _ _ _ El). now destruct fx.
Qed.

Lemma store_all_id fx cs : (forall c, List.In c cs -> has_var fx ("NET_" ++ c) = true) ->
  fold_left store_net (map (fun c => (c, net_of fx c)) cs) fx = fx.
Proof.
  induction cs as [|c r IH]; intros H; [reflexivity|]. cbn [map fold_left].
  rewrite store_net_id by (apply H; now left). apply IH. intros x Hx. apply H. now right.
Qed.

Lemma upd_fixed i f Z s : find_sec i Z = Some s -> f s = Ok s -> upd i f Z = Ok Z.
Proof.
  unfold find_sec. induction Z as [|x r IH]; [discriminate|]. cbn [find upd].
  destruct (Nat.eqb (sid x) i).
  - intros H Hf. inversion H. subst. now rewrite Hf.
  - intros H Hf. now rewrite (IH H Hf).
Qed.

(** every registered currency zone has its NET_<currency> equation in the FX sector *)
Definition fx_ok (J : ginfo2) (Z : zone) : Prop :=
  forall e fx, j_ext J = Some e -> find_sec (e_fx e) Z = Some fx ->
  forall c, List.In c (zones_of (j_countries J)) -> has_var fx ("NET_" ++ c) = true.

Definition same_fx (J : ginfo2) (Z Z' : zone) : Prop :=
  forall e, j_ext J = Some e -> find_sec (e_fx e) Z' = find_sec (e_fx e) Z.

Lemma store_ledger_same J Z Z' : fx_ok J Z -> same_fx J Z Z' -> store_ledger J (ledger_of J Z) Z' = Ok Z'.
Proof.
  intros Hfx Hs. unfold store_ledger, ledger_of. destruct (j_ext J) as [e|] eqn:Ee; [|reflexivity].
  specialize (Hs e Ee). destruct (find_sec (e_fx e) Z) as [fx|] eqn:Ef; [|reflexivity].
  eapply upd_fixed; [exact Hs|]. f_equal. apply store_all_id. intros c Hc. eapply Hfx; eauto.
Qed.

Lemma Forall2_frame_In_r (Z Z' : zone) : Forall2 frame Z Z' ->
  forall t', List.In t' Z' -> exists t, List.In t Z /\ frame t t'.
Proof.
  induction 1 as [|a b l l' Hab _ IH]; intros t' Ht; [destruct Ht|].
  destruct Ht as [<-|Ht]; [exists a; split; [now left|exact Hab]|].
  destruct (IH _ Ht) as (t & H1 & H2). exists t. split; [now right|exact H2].
Qed.

(* ------------------------------------------------------------------ *)

Section GenBlock.
Variables (M : emap) (mcode : string -> Prop) (G : sector -> Prop).
Hypothesis Hok : emap_ok M mcode G.

Notation E := (emb_with (e_FC M) M).
Notation N := (e_N M).
Notation L := (e_L M).
Notation T := (e_T M).
Notation FC := (e_FC M).
Notation off := (e_off M).

(** what the group-model files prove *)
Hypothesis H_tax : forall me rate paid_to Z, Forall G Z -> plain rate ->
  tax_generate (me + off) rate paid_to (map E Z) = rmap (map E) (tax_generate me rate paid_to Z).
Hypothesis H_firm : forall bizs p rs rs' C, Forall G C ->
  (forall s, List.In s C -> sid s = p -> rs' = map (fun kt => (N (is_market s) (fst kt), T (is_market s) (snd kt))) rs) ->
  firm_generate (map (fun i => i + off) bizs) (p + off, rs') (map E C) = rmap (map E) (firm_generate bizs (p, rs) C).
Hypothesis H_money : forall c issuer mk Z, Forall G Z -> (forall m, find_sec mk Z = Some m -> code m = c) ->
  money_generate_checked c issuer (mk + off) (map E Z) = rmap (map E) (money_generate_checked c issuer mk Z).
Hypothesis H_deposit : forall c issuer mk Z, Forall G Z -> (forall m, find_sec mk Z = Some m -> code m = c) ->
  deposit_generate_checked c issuer (mk + off) (map E Z) = rmap (map E) (deposit_generate_checked c issuer mk Z).
Hypothesis H_market : forall h a h' a' fx Z m mk residual others,
  Forall G Z -> find_sec m Z = Some mk -> is_market mk = true ->
  (forall j s, List.In j (map fst others) -> find_sec j Z = Some s -> is_market s = false) ->
  (forall r s, the_residual Z mk residual = Ok r -> find_sec r Z = Some s -> is_market s = false) ->
  market_generate h' a' (mkWorld (map E Z) [] fx []) (m + off) (option_map (fun r => r + off) residual) (shift_others M others)
  = rmap (fun W => mkWorld (map E (home W)) [] fx []) (market_generate h a (mkWorld Z [] None []) m residual others).

Variable ns : nat.
Variable J : ginfo2.
Variable I : ginfo.
Variable cur : string.
Variable ism : nat -> bool.

Record bframe (pre post Zi : zone) : Prop := mkBframe {
  bf_out_sid : forall s, List.In s (pre ++ post)%list -> sid s < off \/ off + ns <= sid s;
  bf_in_sid : forall t, List.In t Zi -> sid t < ns;
  bf_out_cc : forall s t, List.In s (pre ++ post)%list -> List.In t Zi -> country s <> country t;
  bf_in_cur : forall t, List.In t Zi -> currency_of (j_countries J) (country t) = cur;
  bf_out_cur : forall s, List.In s (pre ++ post)%list -> currency_of (j_countries J) (country s) <> cur;
  bf_G : Forall G Zi;
  bf_fx : fx_ok J (pre ++ map E Zi ++ post)%list;
  bf_fx_out : forall e, j_ext J = Some e -> e_fx e < off \/ off + ns <= e_fx e
}.

Record info_ok : Prop := mkInfoOk {
  io_cls : forall i, i < ns -> class_of2 (j_classes J) (i + off) = COld (shift_cls off (class_of (i_classes I) i));
  io_sup : forall i, i < ns -> sup_of (i + off) (j_sup J) = shift_supinfo M (sup_of i (i_sup I));
  io_sup_ref : forall i j, i < ns -> List.In j (map fst (snd (sup_of i (i_sup I))) ++ match fst (sup_of i (i_sup I)) with Some r => [r] | None => [] end)%list -> j < ns
}.

Hypothesis HI : info_ok.

(** static attributes are kept by every step: the frame conditions survive *)
Lemma bframe_frame pre post Zi Zi' : bframe pre post Zi -> Forall2 frame Zi Zi' ->
  fx_ok J (pre ++ map E Zi' ++ post)%list -> bframe pre post Zi'.
Proof.
  intros [A1 A2 A4 A5 A6 A7 A8 A9] HF Hfx.
  pose proof (Forall2_frame_In_r _ _ HF) as HIn.
  constructor; try assumption.
  - intros t' Ht. destruct (HIn _ Ht) as (t & H1 & H2). rewrite (frame_sid _ _ H2). now apply A2.
  - intros s t' Hs Ht. destruct (HIn _ Ht) as (t & H1 & H2). rewrite (frame_country _ _ H2). now apply A4.
  - intros t' Ht. destruct (HIn _ Ht) as (t & H1 & H2). rewrite (frame_country _ _ H2). now apply A5.
  - rewrite Forall_forall in *. intros t' Ht. destruct (HIn _ Ht) as (t & H1 & H2).
    eapply (ok_G_frame _ _ _ Hok); [exact H2|]. now apply A7.
Qed.

(* ------------------------------------------------------------------ *)
(** * Looking into the joint zone *)

Section Frame.
Variables pre post Zi : zone.
Hypothesis HB : bframe pre post Zi.

Lemma out_sid_ne i s : i < ns -> List.In s (pre ++ post)%list -> sid s <> i + off.
Proof. intros Hi Hs. destruct (bf_out_sid _ _ _ HB s Hs); lia. Qed.

Lemma pre_sid_ne i s : i < ns -> List.In s pre -> sid s <> i + off.
Proof. intros Hi Hs. apply out_sid_ne; [exact Hi|]. apply in_or_app. now left. Qed.
Lemma post_sid_ne i s : i < ns -> List.In s post -> sid s <> i + off.
Proof. intros Hi Hs. apply out_sid_ne; [exact Hi|]. apply in_or_app. now right. Qed.

Lemma find_block i : i < ns -> find_sec (i + off) (pre ++ map E Zi ++ post)%list = option_map E (find_sec i Zi).
Proof.
  intros Hi. rewrite find_sec_frame; [|intros s Hs; eapply pre_sid_ne; eauto|intros s Hs; eapply post_sid_ne; eauto].
  apply find_sec_emb.
Qed.

Lemma upd_block i f' f : i < ns -> (forall s, List.In s Zi -> f' (E s) = rmap E (f s)) ->
  upd (i + off) f' (pre ++ map E Zi ++ post)%list = rmap (fun B => (pre ++ map E B ++ post)%list) (upd i f Zi).
Proof.
  intros Hi Hf. rewrite upd_frame; [|intros s Hs; eapply pre_sid_ne; eauto|intros s Hs; eapply post_sid_ne; eauto].
  rewrite (upd_emb M (e_FC M) i f f' Zi Hf). destruct (upd i f Zi); reflexivity.
Qed.

Lemma inz_block t : List.In t Zi -> in_zone (j_countries J) cur (E t) = true.
Proof. intros Ht. unfold in_zone. cbn [country emb emb_with]. rewrite (bf_in_cur _ _ _ HB t Ht). apply String.eqb_refl. Qed.

Lemma inz_out s : List.In s (pre ++ post)%list -> in_zone (j_countries J) cur s = false.
Proof. intros Hs. unfold in_zone. apply String.eqb_neq. now apply (bf_out_cur _ _ _ HB). Qed.

Lemma cur_block t : List.In t Zi -> cur_of_sec J (E t) = cur.
Proof. intros Ht. unfold cur_of_sec. cbn [country emb emb_with]. now apply (bf_in_cur _ _ _ HB). Qed.

Lemma country_out self s : List.In self Zi -> List.In s (pre ++ post)%list -> in_country (country self) s = false.
Proof. intros H1 H2. unfold in_country. apply String.eqb_neq. now apply (bf_out_cc _ _ _ HB). Qed.

(** a zone-wide group model applied to the economy's own currency zone *)
Lemma on_zone_block (f' f : zone -> result zone) :
  f' (map E Zi) = rmap (map E) (f Zi) -> (forall Z', f Zi = Ok Z' -> List.length Z' = List.length Zi) ->
  on_part (in_zone (j_countries J) cur) f' (pre ++ map E Zi ++ post)%list
  = rmap (fun B => (pre ++ map E B ++ post)%list) (f Zi).
Proof.
  intros Hf HL.
  assert (Hall : forall s, List.In s (map E Zi) -> in_zone (j_countries J) cur s = true).
  { intros s Hs. apply in_map_iff in Hs as (t & <- & Ht). now apply inz_block. }
  rewrite on_part_frame.
  - rewrite (filter_all _ _ Hall), Hf. destruct (f Zi) as [Z'|] eqn:Ef; cbn [rmap bind]; [|reflexivity].
    rewrite put_back_p_all; [reflexivity|exact Hall|]. rewrite !map_length. now apply HL.
  - intros s Hs. apply inz_out. apply in_or_app. now left.
  - intros s Hs. apply inz_out. apply in_or_app. now right.
  - intros C'. rewrite (filter_all _ _ Hall), Hf. destruct (f Zi) as [Z'|] eqn:Ef; cbn [rmap]; [|discriminate].
    intros H. inversion H. rewrite !map_length. now apply HL.
Qed.

(** a country-wide group model *)
Lemma on_country_block cc (f' f : zone -> result zone) self :
  List.In self Zi -> cc = country self ->
  f' (map E (filter (in_country cc) Zi)) = rmap (map E) (f (filter (in_country cc) Zi)) ->
  (forall C', f (filter (in_country cc) Zi) = Ok C' -> List.length C' = List.length (filter (in_country cc) Zi)) ->
  on_part (in_country cc) f' (pre ++ map E Zi ++ post)%list
  = rmap (fun B => (pre ++ map E B ++ post)%list) (bind (f (filter (in_country cc) Zi)) (fun C' => Ok (put_back cc C' Zi))).
Proof.
  intros Hself -> Hf HL.
  assert (Hfil : filter (in_country (country self)) (map E Zi) = map E (filter (in_country (country self)) Zi)).
  { apply (filter_emb M). intros s _. reflexivity. }
  rewrite on_part_frame.
  - rewrite Hfil, Hf. destruct (f _) as [C'|] eqn:Ef; cbn [rmap bind]; [|reflexivity].
    f_equal. f_equal. f_equal. rewrite <- put_back_p_country. apply put_back_p_map. intros s. reflexivity.
  - intros s Hs. apply (country_out self); [exact Hself|]. apply in_or_app. now left.
  - intros s Hs. apply (country_out self); [exact Hself|]. apply in_or_app. now right.
  - intros C'. rewrite Hfil, Hf. destruct (f _) as [C''|] eqn:Ef; cbn [rmap]; [|discriminate].
    intros H. inversion H. rewrite !map_length. now apply HL.
Qed.

Lemma filter_country_block self : List.In self Zi ->
  filter (in_country (country self)) (pre ++ map E Zi ++ post)%list = map E (filter (in_country (country self)) Zi).
Proof.
  intros Hself. rewrite filter_frame.
  - apply (filter_emb M). intros s _. reflexivity.
  - intros s Hs. apply (country_out self); [exact Hself|]. apply in_or_app. now left.
  - intros s Hs. apply (country_out self); [exact Hself|]. apply in_or_app. now right.
Qed.

End Frame.

(* ------------------------------------------------------------------ *)
(** * Small facts about names *)

Lemma G_in Zi t : Forall G Zi -> List.In t Zi -> G t.
Proof. intros H Ht. rewrite Forall_forall in H. now apply H. Qed.

(** a sector's own supply variable SUP_<code> keeps its name *)
Lemma N_sup_own s : G s -> N (is_market s) ("SUP_" ++ code s) = "SUP_" ++ code s.
Proof.
  intros Hg. destruct (is_market s) eqn:Em; [|reflexivity]. cbn [e_N].
  apply (ok_Nm_own _ _ _ Hok). now apply (ok_G_mkt _ _ _ Hok).
Qed.

Lemma has_var_sup_own s : G s -> has_var (E s) ("SUP_" ++ code s) = has_var s ("SUP_" ++ code s).
Proof. intros Hg. rewrite <- (N_sup_own s Hg) at 1. apply (has_var_emb M mcode G Hok). Qed.

Lemma apply_resets_emb rs s :
  apply_resets (map (fun kt => (N (is_market s) (fst kt), T (is_market s) (snd kt))) rs) (E s) = rmap E (apply_resets rs s).
Proof.
  revert s. induction rs as [|[k t] r IH]; intros s; [reflexivity|]. cbn [map apply_resets fst snd].
  rewrite (set_rhs_emb M mcode G Hok). destruct (set_rhs s k t) as [s'|] eqn:Es; cbn [option_map]; [|reflexivity].
  assert (Hm : is_market s' = is_market s).
  { unfold set_rhs in Es. destruct (lookup_var k (vars s)); [|discriminate]. now inversion Es. }
  rewrite <- Hm. apply IH.
Qed.

Lemma apply_resets_fixed rs s :
  (forall kt, List.In kt rs -> forall b, N b (fst kt) = fst kt /\ T b (snd kt) = snd kt) ->
  apply_resets rs (E s) = rmap E (apply_resets rs s).
Proof.
  intros H. rewrite <- apply_resets_emb. f_equal.
  induction rs as [|[k t] r IH]; [reflexivity|]. cbn [map fst snd].
  destruct (H (k, t) (or_introl eq_refl) (is_market s)) as [H1 H2]. cbn [fst snd] in *.
  rewrite H1, H2. f_equal. apply IH.
  intros kt Hkt. apply H. now right.
Qed.

Lemma apply_resets_plain rs s :
  (forall kt, List.In kt rs -> String.prefix "SUP_" (fst kt) = false /\ plain (snd kt)) ->
  apply_resets rs (E s) = rmap E (apply_resets rs s).
Proof.
  intros H. apply apply_resets_fixed. intros kt Hkt b. destruct (H kt Hkt) as [H1 H2].
  split; [now apply (N_lit M mcode G Hok)|now apply (ok_T_plain _ _ _ Hok)].
Qed.

Lemma apply_resets_frame rs : forall s s', apply_resets rs s = Ok s' -> frame s s'.
Proof.
  induction rs as [|[k t] r IH]; intros s s' H; [inversion H; apply frame_refl|]. cbn [apply_resets] in H.
  destruct (set_rhs s k t) as [s1|] eqn:Es; [|discriminate].
  eapply frame_trans; [|eapply IH; exact H].
  unfold set_rhs in Es. destruct (lookup_var k (vars s)); [|discriminate]. inversion Es. apply frame_with_vars.
Qed.

(* ------------------------------------------------------------------ *)
(** * One call *)

Definition call_ok (Zi : zone) (i : nat) (k : cls) : Prop :=
  match k with
  | CHousehold ai af _ _ | CHouseholdExp ai af _ _ | CCapitalists ai af _ => plain ai /\ plain af
  | CBusiness _ wage margin _ _ => plain wage /\ plain margin
  | CBusinessMulti _ wage _ _ => plain wage
  | CTaxFlow rate _ => plain rate
  | CMarket =>
      forall mk, find_sec i Zi = Some mk ->
        is_market mk = true /\
        (forall j s, List.In j (map fst (snd (sup_of i (i_sup I)))) -> find_sec j Zi = Some s -> is_market s = false) /\
        (forall r s, the_residual Zi mk (fst (sup_of i (i_sup I))) = Ok r -> find_sec r Zi = Some s -> is_market s = false)
  | _ => True
  end.

Lemma find_sec_skip j pre B B' post :
  (forall s, List.In s B -> sid s <> j) -> (forall s, List.In s B' -> sid s <> j) ->
  find_sec j (pre ++ B ++ post)%list = find_sec j (pre ++ B' ++ post)%list.
Proof.
  intros H1 H2. rewrite !find_sec_app, (find_sec_none j B H1), (find_sec_none j B' H2). reflexivity.
Qed.

Lemma block_sid_ne pre post Zi j t : bframe pre post Zi -> (j < off \/ off + ns <= j) -> List.In t (map E Zi) -> sid t <> j.
Proof.
  intros HB Hj Ht. apply in_map_iff in Ht as (t0 & <- & Ht0). cbn [sid emb emb_with].
  pose proof (bf_in_sid _ _ _ HB t0 Ht0). lia.
Qed.

Lemma same_fx_block pre post Zi Zi' : bframe pre post Zi -> bframe pre post Zi' ->
  same_fx J (pre ++ map E Zi ++ post)%list (pre ++ map E Zi' ++ post)%list.
Proof.
  intros HB HB' e He. apply find_sec_skip; intros s Hs.
  - eapply block_sid_ne; [exact HB'| |exact Hs]. now apply (bf_fx_out _ _ _ HB).
  - eapply block_sid_ne; [exact HB| |exact Hs]. now apply (bf_fx_out _ _ _ HB).
Qed.

Lemma fx_ok_block pre post Zi Zi' : bframe pre post Zi -> Forall2 frame Zi Zi' ->
  fx_ok J (pre ++ map E Zi' ++ post)%list.
Proof.
  intros HB HF e fx He Hf c Hc.
  assert (Hsid : forall t, List.In t Zi' -> sid t < ns).
  { intros t' Ht. destruct (Forall2_frame_In_r _ _ HF _ Ht) as (t & H1 & H2).
    rewrite (frame_sid _ _ H2). now apply (bf_in_sid _ _ _ HB). }
  eapply (bf_fx _ _ _ HB); [exact He| |exact Hc].
  rewrite <- Hf. apply find_sec_skip; intros s Hs; apply in_map_iff in Hs as (t0 & <- & Ht0); cbn [sid emb emb_with];
    destruct (bf_fx_out _ _ _ HB e He).
  - pose proof (bf_in_sid _ _ _ HB t0 Ht0). lia.
  - pose proof (bf_in_sid _ _ _ HB t0 Ht0). lia.
  - pose proof (Hsid t0 Ht0). lia.
  - pose proof (Hsid t0 Ht0). lia.
Qed.

Lemma all_id_sup c : all_id c = true -> all_id ("SUP_" ++ c) = true.
Proof. intros H. cbn. exact H. Qed.

Lemma idstr_sup c : idstr c -> idstr ("SUP_" ++ c).
Proof. intros [H1 H2]. split; [now apply all_id_sup|discriminate]. Qed.

(** the text  <market full code>__SUP_<market code>  the firm's wage bill refers to *)
Lemma msg_emb mk b : G mk ->
  T b (fullcode mk ++ "__" ++ "SUP_" ++ code mk) = FC (fullcode mk) ++ "__" ++ "SUP_" ++ code mk.
Proof.
  intros Hg. rewrite (ok_T_full _ _ _ Hok b mk ("SUP_" ++ code mk) Hg).
  - now rewrite (N_sup_own mk Hg).
  - apply idstr_sup. now apply (ok_G_code _ _ _ Hok).
Qed.

Lemma wage_resets_emb mz wage margin lab mk b : G mk -> plain wage -> plain margin ->
  map (fun kt => (N b (fst kt), T b (snd kt))) (wage_resets mz wage margin lab (fullcode mk ++ "__" ++ "SUP_" ++ code mk))
  = wage_resets mz wage margin lab (FC (fullcode mk) ++ "__" ++ "SUP_" ++ code mk).
Proof.
  intros Hg Hw Hm. unfold wage_resets.
  assert (HN : N b ("DEM_" ++ lab) = "DEM_" ++ lab) by (now apply (N_lit M mcode G Hok)).
  assert (HP : N b "PROF" = "PROF") by (now apply (N_lit M mcode G Hok)).
  destruct mz; cbn [map fst snd].
  - now rewrite HN, msg_emb.
  - rewrite HN, HP.
    change (wage ++ "*" ++ fullcode mk ++ "__" ++ "SUP_" ++ code mk) with (wage ++ String "*"%char (fullcode mk ++ "__" ++ "SUP_" ++ code mk)).
    change (margin ++ "*" ++ fullcode mk ++ "__" ++ "SUP_" ++ code mk) with (margin ++ String "*"%char (fullcode mk ++ "__" ++ "SUP_" ++ code mk)).
    rewrite !(ok_T_sep _ _ _ Hok) by reflexivity. rewrite !msg_emb by exact Hg.
    now rewrite (ok_T_plain _ _ _ Hok b wage Hw), (ok_T_plain _ _ _ Hok b margin Hm).
Qed.

Lemma is_fmb_shift k : is_fmb (shift_cls off k) = is_fmb k.
Proof. now destruct k. Qed.

Lemma biz_ids_block C : (forall s, List.In s C -> sid s < ns) ->
  biz_ids2 J (map E C) = map (fun j => j + off) (biz_ids I C).
Proof.
  intros H. unfold biz_ids2, biz_ids. induction C as [|s r IH]; [reflexivity|]. cbn [map filter].
  cbn [sid emb emb_with]. rewrite (io_cls HI (sid s)) by (apply H; now left). rewrite is_fmb_shift.
  destruct (is_fmb (class_of (i_classes I) (sid s))); cbn [map]; rewrite IH by (intros x Hx; apply H; now right); reflexivity.
Qed.

Section Call.
Variables pre post Zi : zone.
Hypothesis HB : bframe pre post Zi.
Variables (fl : list flow) (fli : list flow) (ic : list (nat * string * string)).
Variables (i : nat) (self : sector).
Hypothesis Hi : i < ns.
Hypothesis Fs : find_sec i Zi = Some self.

Let Zj := (pre ++ map E Zi ++ post)%list.

Lemma self_in : List.In self Zi /\ sid self = i.
Proof. now apply find_sec_some. Qed.

Lemma Gself : G self.
Proof. apply (G_in Zi); [apply (bf_G _ _ _ HB)|apply self_in]. Qed.

Lemma same_block (r : result zone) :
  (do Z' <- rmap (fun B => (pre ++ map E B ++ post)%list) r ;; Ok (mkG2 Z' fl ic))
  = match (do Z' <- r ;; Ok (mkG Z' fli)) with
    | Ok g => Ok (mkG2 (pre ++ map E (g_zone g) ++ post)%list (fl ++ [])%list ic)
    | Err e => Err e
    end.
Proof. destruct r; cbn; [now rewrite app_nil_r|reflexivity]. Qed.

Lemma resets_block rs :
  (forall kt, List.In kt rs -> forall b, N b (fst kt) = fst kt /\ T b (snd kt) = snd kt) ->
  upd (i + off) (apply_resets rs) Zj = rmap (fun B => (pre ++ map E B ++ post)%list) (upd i (apply_resets rs) Zi).
Proof.
  intros H. apply (upd_block pre post Zi HB); [exact Hi|]. intros s _. now apply apply_resets_fixed.
Qed.

Lemma fixed_plain k t : String.prefix "SUP_" k = false -> plain t -> forall b, N b k = k /\ T b t = t.
Proof. intros H1 H2 b. split; [now apply (N_lit M mcode G Hok)|now apply (ok_T_plain _ _ _ Hok)]. Qed.

Lemma plain_app_star a b : plain a -> plain b -> forall bb, T bb (a ++ "*" ++ b) = a ++ "*" ++ b.
Proof.
  intros Ha Hb bb. change (a ++ "*" ++ b) with (a ++ String "*"%char b).
  rewrite (ok_T_sep _ _ _ Hok) by reflexivity.
  now rewrite (ok_T_plain _ _ _ Hok bb a Ha), (ok_T_plain _ _ _ Hok bb b Hb).
Qed.

(** ** FixedMarginBusiness *)
Lemma firm_block mz wage margin lab out : plain wage -> plain margin ->
  (let cc := country (E self) in
   let C := filter (in_country cc) Zj in
   match find (fun s => String.eqb (code s) out) C with
   | None => Err Warning_
   | Some mk =>
       if has_var mk ("SUP_" ++ out) then
         let msg := fullcode mk ++ "__" ++ "SUP_" ++ out in
         (do Z' <- on_part (in_country cc) (firm_generate (biz_ids2 J C) (i + off, wage_resets mz wage margin lab msg)) Zj ;;
          Ok (mkG2 Z' fl ic))
       else Err Warning_
   end)
  = match (let cc := country self in
           let C := filter (in_country cc) Zi in
           match find (fun s => String.eqb (code s) out) C with
           | None => Err Warning_
           | Some mk =>
               if has_var mk ("SUP_" ++ out) then
                 let msg := fullcode mk ++ "__" ++ "SUP_" ++ out in
                 (do Z' <- (do C' <- firm_generate (biz_ids I C) (i, wage_resets mz wage margin lab msg) C ;; Ok (put_back cc C' Zi)) ;;
                  Ok (mkG Z' fli))
               else Err Warning_
           end) with
    | Ok g => Ok (mkG2 (pre ++ map E (g_zone g) ++ post)%list (fl ++ [])%list ic)
    | Err e => Err e
    end.
Proof.
  intros Hw Hm. cbv zeta. destruct self_in as [Hin Hsid].
  change (country (E self)) with (country self). unfold Zj.
  rewrite (filter_country_block pre post Zi HB self Hin).
  set (Ci := filter (in_country (country self)) Zi).
  assert (HCi : forall s, List.In s Ci -> List.In s Zi) by (intros s Hs; apply filter_In in Hs; tauto).
  rewrite (find_emb M (e_FC M) (fun s => String.eqb (code s) out) (fun s => String.eqb (code s) out) Ci) by reflexivity.
  destruct (find (fun s => String.eqb (code s) out) Ci) as [mk|] eqn:Fm; cbn [option_map]; [|reflexivity].
  apply find_some in Fm as [Hmk Hcode]. apply String.eqb_eq in Hcode. subst out.
  assert (Gmk : G mk) by (apply (G_in Zi); [apply (bf_G _ _ _ HB)|now apply HCi]).
  rewrite (has_var_sup_own mk Gmk).
  destruct (has_var mk ("SUP_" ++ code mk)); [|reflexivity].
  change (fullcode (E mk)) with (FC (fullcode mk)).
  rewrite (biz_ids_block Ci) by (intros s Hs; apply (bf_in_sid _ _ _ HB); now apply HCi).
  set (rs := wage_resets mz wage margin lab (fullcode mk ++ "__" ++ "SUP_" ++ code mk)).
  set (rs' := wage_resets mz wage margin lab (FC (fullcode mk) ++ "__" ++ "SUP_" ++ code mk)).
  assert (GCi : Forall G Ci).
  { apply Forall_forall. intros s Hs. apply (G_in Zi); [apply (bf_G _ _ _ HB)|now apply HCi]. }
  assert (Hf : firm_generate (map (fun j => j + off) (biz_ids I Ci)) (i + off, rs') (map E Ci)
               = rmap (map E) (firm_generate (biz_ids I Ci) (i, rs) Ci)).
  { apply H_firm; [exact GCi|]. intros s _ _. unfold rs', rs. symmetry. now apply wage_resets_emb. }
  rewrite (on_country_block pre post Zi HB (country self) _ (firm_generate (biz_ids I Ci) (i, rs)) self Hin eq_refl Hf).
  - fold Ci. destruct (firm_generate (biz_ids I Ci) (i, rs) Ci); cbn; [now rewrite app_nil_r|reflexivity].
  - intros C' HC. fold Ci in HC. apply Forall2_length_frame. eapply zstep_frame. eapply firm_zstep; [|exact HC].
    apply ledger_free_b. cbn [snd]. unfold rs, wage_resets. destruct mz; reflexivity.
Qed.

(** ** TaxFlow, MoneyMarket, DepositMarket: the economy's own currency zone *)
Lemma inz_self : in_zone (j_countries J) (cur_of_sec J (E self)) = in_zone (j_countries J) cur.
Proof. rewrite (cur_block pre post Zi HB self); [reflexivity|apply self_in]. Qed.

Lemma tax_block rate paid_to : plain rate ->
  (do Z' <- on_part (in_zone (j_countries J) (cur_of_sec J (E self))) (tax_generate (i + off) rate paid_to) Zj ;; Ok (mkG2 Z' fl ic))
  = match (do Z' <- tax_generate i rate paid_to Zi ;; Ok (mkG Z' fli)) with
    | Ok g => Ok (mkG2 (pre ++ map E (g_zone g) ++ post)%list (fl ++ [])%list ic)
    | Err e => Err e
    end.
Proof.
  intros Hr. rewrite inz_self. unfold Zj.
  rewrite (on_zone_block pre post Zi HB _ (tax_generate i rate paid_to)).
  - apply same_block.
  - apply H_tax; [apply (bf_G _ _ _ HB)|exact Hr].
  - intros Z' HZ. apply Forall2_length_frame. eapply zstep_frame. eapply tax_zstep. exact HZ.
Qed.

Lemma money_block issuer :
  (do Z' <- on_part (in_zone (j_countries J) (cur_of_sec J (E self))) (money_generate_checked (code (E self)) issuer (i + off)) Zj ;; Ok (mkG2 Z' fl ic))
  = match (do Z' <- money_generate_checked (code self) issuer i Zi ;; Ok (mkG Z' fli)) with
    | Ok g => Ok (mkG2 (pre ++ map E (g_zone g) ++ post)%list (fl ++ [])%list ic)
    | Err e => Err e
    end.
Proof.
  rewrite inz_self. unfold Zj. change (code (E self)) with (code self).
  rewrite (on_zone_block pre post Zi HB _ (money_generate_checked (code self) issuer i)).
  - apply same_block.
  - apply H_money; [apply (bf_G _ _ _ HB)|]. intros m Hm. rewrite Fs in Hm. now inversion Hm.
  - intros Z' HZ. apply Forall2_length_frame. eapply zstep_frame. eapply money_zstep. exact HZ.
Qed.

Lemma deposit_block issuer :
  (do Z' <- on_part (in_zone (j_countries J) (cur_of_sec J (E self))) (deposit_generate_checked (code (E self)) issuer (i + off)) Zj ;; Ok (mkG2 Z' fl ic))
  = match (do Z' <- deposit_generate_checked (code self) issuer i Zi ;; Ok (mkG Z' fli)) with
    | Ok g => Ok (mkG2 (pre ++ map E (g_zone g) ++ post)%list (fl ++ [])%list ic)
    | Err e => Err e
    end.
Proof.
  rewrite inz_self. unfold Zj. change (code (E self)) with (code self).
  rewrite (on_zone_block pre post Zi HB _ (deposit_generate_checked (code self) issuer i)).
  - apply same_block.
  - apply H_deposit; [apply (bf_G _ _ _ HB)|]. intros m Hm. rewrite Fs in Hm. now inversion Hm.
  - intros Z' HZ. apply Forall2_length_frame. eapply zstep_frame. eapply deposit_zstep. exact HZ.
Qed.

(** ** Market: every supplier lives in the market's own block *)
Lemma supplier_currencies_nil ids : (forall j, List.In j ids -> exists j0, j = j0 + off /\ j0 < ns) ->
  supplier_currencies J Zj cur ids = [].
Proof.
  intros H. unfold supplier_currencies. unfold Zj.
  assert (E0 : flat_map (fun j => match find_sec j (pre ++ map E Zi ++ post)%list with
                                  | Some s => if String.eqb (cur_of_sec J s) cur then [] else [cur_of_sec J s]
                                  | None => []
                                  end) ids = []).
  { induction ids as [|j r IH]; [reflexivity|]. cbn [flat_map].
    destruct (H j (or_introl eq_refl)) as (j0 & -> & Hj0). rewrite (find_block pre post Zi HB j0 Hj0).
    rewrite IH by (intros x Hx; apply H; now right). rewrite app_nil_r.
    destruct (find_sec j0 Zi) as [s|] eqn:Fj; cbn [option_map]; [|reflexivity].
    apply find_sec_some in Fj as [Hs _]. rewrite (cur_block pre post Zi HB s Hs). now rewrite String.eqb_refl. }
  rewrite E0. reflexivity.
Qed.

Lemma market_block : call_ok Zi i CMarket ->
  (do Z' <- market_step J (i + off) (E self) Zj ;; Ok (mkG2 Z' fl ic))
  = match (let '(res, others) := sup_of i (i_sup I) in
           do Z' <- (do W <- market_generate HCUR ACUR (mkWorld Zi [] None []) i res others ;; Ok (home W)) ;; Ok (mkG Z' fli)) with
    | Ok g => Ok (mkG2 (pre ++ map E (g_zone g) ++ post)%list (fl ++ [])%list ic)
    | Err e => Err e
    end.
Proof.
  intros Hc. destruct (Hc self Fs) as (Hmk & Hoth & Hres). destruct self_in as [Hin Hsid].
  unfold market_step. rewrite (cur_block pre post Zi HB self Hin).
  rewrite (io_sup HI i Hi). pose proof (io_sup_ref HI i) as Href.
  destruct (sup_of i (i_sup I)) as [res others] eqn:Es. cbn [fst snd] in *. unfold shift_supinfo. cbn [fst snd].
  rewrite supplier_currencies_nil.
  2:{ intros j Hj. apply in_app_or in Hj as [Hj|Hj].
      - unfold shift_others in Hj. rewrite map_map in Hj. cbn [fst] in Hj. apply in_map_iff in Hj as (o & <- & Ho).
        exists (fst o). split; [reflexivity|]. apply (Href (fst o) Hi). apply in_or_app. left. now apply in_map.
      - destruct res as [r|]; cbn [option_map] in Hj; [|destruct Hj]. destruct Hj as [<-|[]].
        exists r. split; [reflexivity|]. apply (Href r Hi). apply in_or_app. right. now left. }
  assert (Hall : forall s, List.In s (map E Zi) -> in_zone (j_countries J) cur s = true).
  { intros s Hs. apply in_map_iff in Hs as (t & <- & Ht). now apply (inz_block pre post Zi HB). }
  assert (Hfil : filter (in_zone (j_countries J) cur) Zj = map E Zi).
  { unfold Zj. rewrite filter_frame.
    - now apply filter_all.
    - intros s Hs. apply (inz_out pre post Zi HB). apply in_or_app. now left.
    - intros s Hs. apply (inz_out pre post Zi HB). apply in_or_app. now right. }
  rewrite Hfil.
  rewrite (H_market HCUR ACUR cur ACUR (ledger_of J Zj) Zi i self res others (bf_G _ _ _ HB) Fs Hmk Hoth Hres).
  destruct (market_generate HCUR ACUR (mkWorld Zi [] None []) i res others) as [W|e] eqn:MG; cbn [rmap bind]; [|reflexivity].
  cbn [fxl home].
  assert (HF : Forall2 frame Zi (home W)).
  { eapply zstep_frame. pose proof (market_zstep _ _ _ _ _ _ _ self MG Fs) as Zs. exact Zs. }
  assert (HL : List.length (home W) = List.length Zi) by (now apply Forall2_length_frame).
  assert (Hput : put_back_p (in_zone (j_countries J) cur) (map E (home W)) Zj = (pre ++ map E (home W) ++ post)%list).
  { unfold Zj. rewrite put_back_p_app_l by (intros s Hs; apply (inz_out pre post Zi HB); apply in_or_app; now left).
    f_equal. rewrite put_back_p_app_r.
    - f_equal. apply put_back_p_all; [exact Hall|]. now rewrite !map_length.
    - intros s Hs. apply (inz_out pre post Zi HB). apply in_or_app. now right.
    - rewrite (filter_all _ _ Hall). now rewrite !map_length. }
  rewrite Hput.
  assert (HB' : bframe pre post (home W)).
  { eapply bframe_frame; [exact HB|exact HF|]. eapply fx_ok_block; eauto. }
  rewrite store_ledger_same; [cbn; now rewrite app_nil_r|apply (bf_fx _ _ _ HB)|].
  unfold Zj. now apply same_fx_block.
Qed.

(** ** The call *)
Theorem gen_step2_block k : call_ok Zi i k ->
  gen_step2 J (mkG2 Zj fl ic) (i + off, COld (shift_cls off k))
  = match gen_step I (mkG Zi fli) (i, k) with
    | Ok g => Ok (mkG2 (pre ++ map E (g_zone g) ++ post)%list (fl ++ map (shift_flow M ism) (gen_flows (i, k)))%list ic)
    | Err e => Err e
    end.
Proof.
  intros Hc. unfold gen_step2, gen_step. cbn [h_zone g_zone h_flows g_flows h_ic].
  unfold Zj at 1. rewrite (find_block pre post Zi HB i Hi), Fs. cbn [option_map]. fold Zj.
  destruct self_in as [Hin Hsid].
  assert (HH : forall ai af, plain ai -> plain af ->
    (do Z' <- upd (i + off) (apply_resets [("AlphaIncome", ai); ("AlphaFin", af)]) Zj ;; Ok (mkG2 Z' fl ic))
    = match (do Z' <- upd i (apply_resets [("AlphaIncome", ai); ("AlphaFin", af)]) Zi ;; Ok (mkG Z' fli)) with
      | Ok g => Ok (mkG2 (pre ++ map E (g_zone g) ++ post)%list (fl ++ [])%list ic)
      | Err e => Err e
      end).
  { intros ai af Ha Hb. rewrite resets_block; [apply same_block|].
    intros kt [<-|[<-|[]]]; cbn [fst snd]; now apply fixed_plain. }
  destruct k as [| |t|ai af good lab|ai af good lab|ai af good|mz wage margin lab out|mz wage lab ms|rate paid|
                 |issuer|issuer]; cbn [shift_cls gen_flows fst snd map call_ok] in *.
  - now rewrite app_nil_r.
  - now rewrite app_nil_r.
  - unfold shift_flow. rewrite (N_lit M mcode G Hok (ism i) "INTDEP") by reflexivity. reflexivity.
  - now apply HH.
  - now apply HH.
  - now apply HH.
  - destruct Hc as [Hw Hm]. exact (firm_block mz wage margin lab out Hw Hm).
  - change (country (E self)) with (country self).
    assert (Hrs : forall kt, List.In kt [("DEM_" ++ lab, if mz then "SUP" else wage ++ "*SUP")] ->
                  forall b, N b (fst kt) = fst kt /\ T b (snd kt) = snd kt).
    { intros kt [<-|[]] b. cbn [fst snd]. split; [now apply (N_lit M mcode G Hok)|]. destruct mz.
      - apply (ok_T_plain _ _ _ Hok). split; reflexivity.
      - apply plain_app_star; [exact Hc|split; reflexivity]. }
    rewrite (resets_block _ Hrs).
    destruct (upd i (apply_resets [("DEM_" ++ lab, if mz then "SUP" else wage ++ "*SUP")]) Zi) as [B1|] eqn:U; cbn [rmap bind]; [|reflexivity].
    assert (HF : Forall2 frame Zi B1).
    { eapply MainProofs.upd_frame; [exact U|]. intros s s' Hs. eapply apply_resets_frame; exact Hs. }
    assert (HB1 : bframe pre post B1) by (eapply bframe_frame; [exact HB|exact HF|eapply fx_ok_block; eauto]).
    assert (Hself1 : exists self1, List.In self1 B1 /\ country self1 = country self).
    { clear -HF Hin. induction HF as [|a b l l' Hab _ IH]; [destruct Hin|]. destruct Hin as [->|Hin].
      - exists b. split; [now left|]. now apply frame_country.
      - destruct (IH Hin) as (x & H1 & H2). exists x. split; [now right|exact H2]. }
    destruct Hself1 as (self1 & Hin1 & Hcc). rewrite <- Hcc.
    rewrite (filter_country_block pre post B1 HB1 self1 Hin1).
    rewrite (existsb_emb M (e_FC M) (fun s => has_var s "DIV") (fun s => has_var s "DIV")).
    + destruct (existsb _ _); cbn [g_zone]; [reflexivity|now rewrite app_nil_r].
    + intros s _. now apply (has_var_lit M mcode G Hok).
  - now apply tax_block.
  - now apply market_block.
  - apply money_block.
  - apply deposit_block.
Qed.

End Call.

(* ------------------------------------------------------------------ *)
(** * All calls of the economy *)

Fixpoint calls_ok (calls : list (nat * cls)) (g : gstate) : Prop :=
  match calls with
  | [] => True
  | ik :: r => fst ik < ns /\ call_ok (g_zone g) (fst ik) (snd ik) /\
               match gen_step I g ik with Ok g' => calls_ok r g' | Err _ => True end
  end.

Definition shift_call (ik : nat * cls) : nat * cls2 := (fst ik + off, COld (shift_cls off (snd ik))).

Theorem gen_fold_block pre post : forall calls g fl ic,
  bframe pre post (g_zone g) -> calls_ok calls g ->
  foldM (gen_step2 J) (map shift_call calls) (mkG2 (pre ++ map E (g_zone g) ++ post)%list fl ic)
  = match foldM (gen_step I) calls g with
    | Ok g' => Ok (mkG2 (pre ++ map E (g_zone g') ++ post)%list (fl ++ map (shift_flow M ism) (flat_map gen_flows calls))%list ic)
    | Err e => Err e
    end.
Proof.
  induction calls as [|[i k] r IH]; intros g fl ic HB Hc.
  - cbn. now rewrite app_nil_r.
  - cbn [map foldM flat_map]. unfold shift_call at 1. destruct Hc as (Hi & Hck & Hrest). cbn [fst snd] in *.
    destruct g as [Zi fli]. cbn [g_zone] in *.
    destruct (find_sec i Zi) as [self|] eqn:Fs.
    + pose proof (gen_step2_block pre post Zi HB fl fli ic i self Hi Fs k Hck) as HS. cbv zeta in HS. rewrite HS. clear HS.
      destruct (gen_step I (mkG Zi fli) (i, k)) as [g'|e] eqn:Eg; [|reflexivity].
      assert (HF : Forall2 frame Zi (g_zone g')).
      { eapply zstep_frame. apply (gen_step_zstep _ _ _ _ Eg). }
      assert (HB' : bframe pre post (g_zone g')) by (eapply bframe_frame; [exact HB|exact HF|eapply fx_ok_block; eauto]).
      rewrite (IH g' _ ic HB' Hrest). destruct (foldM (gen_step I) r g'); [|reflexivity].
      rewrite map_app, (app_assoc fl). reflexivity.
    + unfold gen_step2, gen_step. cbn [h_zone g_zone]. rewrite (find_block pre post Zi HB i Hi), Fs. reflexivity.
Qed.

End GenBlock.
