(** The goods / labour market model (GenMarket/Market.v, [market_generate]) commutes with the
    embedding of an economy into a bigger model, for a market all of whose suppliers live in its own
    currency zone ([abroad = []]).

    Part A: with [abroad = []] the model is a function of the home zone alone ([mg_home]); the
    currencies and the FX ledger are never read ([market_generate_local]).
    Part B: [mg_home] commutes with [emb M] for every map [M] satisfying [Laws.emap_ok]
    ([mg_home_emb]), hence [market_generate_emb]. *)
From Coq Require Import List String Ascii Bool ZArith Arith Lia.
From SFC.Base Require Import Res Str Sorting.
From SFC.Gen Require Import Fx Zone.
From SFC.GenMarket Require Import Market MarketProofs.
From SFC.GenTax Require Import Tax TaxProofs.
From SFC.GenMain2 Require Import Program Classes Main Ledger.
From SFC.GenEmbed Require Import EmbDefs Laws ZoneEmb.
Import ListNotations.
Local Open Scope string_scope.

(* ------------------------------------------------------------------ *)
(** * A. A market without foreign suppliers only touches its own zone *)

Definition mkW (fx : option ledger) (H : zone) : world := mkWorld H [] fx [].

Definition sstep_home (mk : sector) (Z : zone) (ie : nat * eqn) : result zone :=
  let (i, e) := ie in
  match find_sec i Z with
  | None => Err KeyError
  | Some sup =>
      match upd (sid mk) (fun s => Ok (set_eqn s (alloc_name sup) e)) Z with
      | Err er => Err er
      | Ok H1 => upd i (supplier_local mk (alloc_name sup)) H1
      end
  end.

Fixpoint rfc_home (Z : zone) (ids : list nat) : result (list string) :=
  match ids with
  | [] => Ok []
  | i :: r =>
      match find_sec i Z with
      | None => Err KeyError
      | Some s => match rfc_home Z r with Err e => Err e | Ok l => Ok (fullcode s :: l) end
      end
  end.

Definition gsup_home (Z : zone) (m r : nat) (others : list (nat * string)) : result zone :=
  match find_sec m Z with
  | None => Err KeyError
  | Some mk =>
      match upd m (fun s => opt_key (set_rhs_terms s (sup_short mk) [(1%Z, [dem_short mk])])) Z with
      | Err e => Err e
      | Ok H0 =>
          match rfc_home H0 (map fst others) with
          | Err e => Err e
          | Ok fcs => foldM (sstep_home mk) (sup_list mk others r fcs) H0
          end
      end
  end.

Definition mg_home (Z : zone) (m : nat) (residual : option nat) (others : list (nat * string)) : result zone :=
  match find_sec m Z with
  | None => Err KeyError
  | Some mk =>
      match the_residual Z mk residual with
      | Err e => Err e
      | Ok r =>
          match generate_demand Z m with
          | Err e => Err e
          | Ok H1 => gsup_home H1 m r others
          end
      end
  end.

Lemma supply_step_local h a mk fx Z ie :
  supply_step h a mk (mkW fx Z) ie = rmap (mkW fx) (sstep_home mk Z ie).
Proof.
  destruct ie as [i e]. unfold supply_step, sstep_home, resolve, mkW. cbn [home abroad fxl crosses].
  destruct (find_sec i Z) as [sup|]; [|reflexivity].
  destruct (upd (sid mk) _ Z) as [H1|]; [|reflexivity].
  destruct (upd i _ H1); reflexivity.
Qed.

Lemma supply_fold_local h a mk fx l : forall Z,
  foldM (supply_step h a mk) l (mkW fx Z) = rmap (mkW fx) (foldM (sstep_home mk) l Z).
Proof.
  induction l as [|x l IH]; intros Z; [reflexivity|]. cbn [foldM]. rewrite supply_step_local.
  destruct (sstep_home mk Z x) as [Z1|]; cbn [rmap]; [apply IH|reflexivity].
Qed.

Lemma resolve_fullcodes_local fx Z ids : resolve_fullcodes (mkW fx Z) ids = rfc_home Z ids.
Proof.
  induction ids as [|i r IH]; [reflexivity|]. cbn [resolve_fullcodes rfc_home]. rewrite IH.
  unfold resolve, mkW. cbn [home abroad]. destruct (find_sec i Z); reflexivity.
Qed.

Lemma generate_supply_local h a fx Z m r others :
  generate_supply h a (mkW fx Z) m r others = rmap (mkW fx) (gsup_home Z m r others).
Proof.
  unfold generate_supply, gsup_home. change (home (mkW fx Z)) with Z.
  destruct (find_sec m Z) as [mk|]; [|reflexivity].
  destruct (upd m _ Z) as [H0|]; [|reflexivity].
  change (with_home (mkW fx Z) H0) with (mkW fx H0). rewrite resolve_fullcodes_local.
  destruct (rfc_home H0 (map fst others)) as [fcs|]; [|reflexivity].
  apply supply_fold_local.
Qed.

(** the currencies and the FX ledger are not read; the ledger is passed through *)
Theorem market_generate_local h a fx Z m residual others :
  market_generate h a (mkW fx Z) m residual others = rmap (mkW fx) (mg_home Z m residual others).
Proof.
  unfold market_generate, mg_home. change (home (mkW fx Z)) with Z.
  destruct (find_sec m Z) as [mk|]; [|reflexivity].
  destruct (the_residual Z mk residual) as [r|]; [|reflexivity].
  destruct (generate_demand Z m) as [H1|]; [|reflexivity].
  change (with_home (mkW fx Z) H1) with (mkW fx H1). apply generate_supply_local.
Qed.

(* ------------------------------------------------------------------ *)
(** * Frames of zones *)

Lemma upd_frame i f Z Z' : upd i f Z = Ok Z' -> (forall s s', f s = Ok s' -> frame s s') -> Forall2 frame Z Z'.
Proof.
  intros H Hf. revert Z' H. induction Z as [|a r IH]; intros Z' H; cbn [upd] in H; [discriminate|].
  destruct (Nat.eqb (sid a) i).
  - destruct (f a) as [a'|] eqn:Fa; [|discriminate]. injection H as <-.
    constructor; [now apply Hf|]. clear. induction r; constructor; [apply frame_refl|assumption].
  - destruct (upd i f r) as [r'|]; [|discriminate]. injection H as <-.
    constructor; [apply frame_refl|now apply IH].
Qed.

Lemma frames_trans Z Z1 Z2 : Forall2 frame Z Z1 -> Forall2 frame Z1 Z2 -> Forall2 frame Z Z2.
Proof.
  intros H1. revert Z2. induction H1 as [|s s1 Z Z1 Hs _ IH]; intros Z2 H2; inversion H2; subst; constructor.
  - eapply frame_trans; eassumption.
  - now apply IH.
Qed.

Lemma find_frame_back Z Z' j s' : Forall2 frame Z Z' -> find_sec j Z' = Some s' ->
  exists s, find_sec j Z = Some s /\ frame s s'.
Proof.
  intros H. induction H as [|a a' r r' Ha _ IH]; unfold find_sec in *; cbn [find]; [discriminate|].
  rewrite (frame_sid _ _ Ha). destruct (Nat.eqb (sid a) j).
  - intros X. injection X as <-. exists a. split; [reflexivity|exact Ha].
  - exact IH.
Qed.

Lemma find_frame_fwd Z Z' j s : Forall2 frame Z Z' -> find_sec j Z = Some s ->
  exists s', find_sec j Z' = Some s' /\ frame s s'.
Proof.
  intros H. induction H as [|a a' r r' Ha _ IH]; unfold find_sec in *; cbn [find]; [discriminate|].
  rewrite (frame_sid _ _ Ha). destruct (Nat.eqb (sid a) j).
  - intros X. injection X as <-. exists a'. split; [reflexivity|exact Ha].
  - exact IH.
Qed.

Lemma set_eqn_frame s n e : frame s (set_eqn s n e).
Proof. apply frame_with_vars. Qed.

Lemma supplier_local_frame mk ln s s' : supplier_local mk ln s = Ok s' -> frame s s'.
Proof. intros H. exact (ls_frame _ _ _ (supplier_local_lstep _ _ _ _ H)). Qed.

Lemma sstep_home_frame mk Z ie Z' : sstep_home mk Z ie = Ok Z' -> Forall2 frame Z Z'.
Proof.
  destruct ie as [i e]. unfold sstep_home. destruct (find_sec i Z) as [sup|]; [|discriminate].
  destruct (upd (sid mk) _ Z) as [H1|] eqn:U1; [|discriminate]. intros U2.
  eapply frames_trans.
  - eapply upd_frame; [exact U1|]. intros s s' X. injection X as <-. apply set_eqn_frame.
  - eapply upd_frame; [exact U2|]. intros s s'. apply supplier_local_frame.
Qed.

Lemma generate_demand_frame Z m Z' : generate_demand Z m = Ok Z' -> Forall2 frame Z Z'.
Proof.
  intros H. destruct (find_sec m Z) as [mk|] eqn:F.
  - eapply zstep_frame. eapply generate_demand_zstep; eassumption.
  - unfold generate_demand in H. rewrite F in H. discriminate.
Qed.

(* ------------------------------------------------------------------ *)
(** * Literal prefixes *)

Lemma nodd_DEM x : has_substring "__" ("_" ++ x) = false -> has_substring "__" ("DEM_" ++ x) = false.
Proof. intros H. exact H. Qed.

Lemma nodd_SUP x : has_substring "__" ("_" ++ x) = false -> has_substring "__" ("SUP_" ++ x) = false.
Proof. intros H. exact H. Qed.

Lemma pre_DEM x : String.prefix "SUP_" ("DEM_" ++ x) = false.
Proof. reflexivity. Qed.

(* ------------------------------------------------------------------ *)
(** * B. The embedding *)

(** the one naming fact about a supplier of ANOTHER country the laws do not provide: the supply
    variable SUP_<country>_<code> it owns is not a full name (or at least is left alone as a factor) *)
Definition cross_sup_ok (M : emap) (G : sector -> Prop) : Prop :=
  forall mk s, G mk -> G s -> country s <> country mk ->
    e_L M false ("SUP_" ++ country mk ++ "_" ++ code mk) = "SUP_" ++ country mk ++ "_" ++ code mk.

Section MarketEmb.
Variables (M : emap) (mcode : string -> Prop) (G : sector -> Prop).
Hypothesis Hok : emap_ok M mcode G.

Notation E := (emb_with (e_FC M) M).
Notation N := (e_N M).
Notation L := (e_L M).
Notation T := (e_T M).
Notation FC := (e_FC M).
Notation off := (e_off M).

Lemma upd_emb_at i (f f' : sector -> result sector) Z :
  (forall s, find_sec i Z = Some s -> f' (E s) = rmap E (f s)) ->
  upd (i + off) f' (map E Z) = rmap (map E) (upd i f Z).
Proof.
  induction Z as [|s r IH]; intros H; [reflexivity|]. cbn [map upd]. rewrite sid_eqb_emb.
  unfold find_sec in H. cbn [find] in H. destruct (Nat.eqb (sid s) i).
  - rewrite (H s eq_refl). destruct (f s); reflexivity.
  - rewrite (IH H). destruct (upd i f r); reflexivity.
Qed.

Lemma Forall_G_frame Z Z' : Forall2 frame Z Z' -> Forall G Z -> Forall G Z'.
Proof.
  intros H. induction H as [|a a' r r' Ha _ IH]; intros HG; [constructor|].
  inversion HG; subst. constructor; [eapply (ok_G_frame _ _ _ Hok); eassumption|now apply IH].
Qed.

Lemma G_find Z j s : Forall G Z -> find_sec j Z = Some s -> G s.
Proof. intros HG F. rewrite Forall_forall in HG. apply HG. eapply find_sec_In; exact F. Qed.

(* ---- names ---- *)

Lemma dem_short_nodd mk : G mk -> has_substring "__" (dem_short mk) = false.
Proof. intros Hg. apply nodd_DEM. apply (ok_G_cd _ _ _ Hok _ Hg). Qed.

Lemma dem_long_nodd mk : G mk -> has_substring "__" (dem_long mk) = false.
Proof. intros Hg. apply nodd_DEM. apply (ok_G_fcd _ _ _ Hok _ Hg). Qed.

Lemma sup_short_nodd mk : G mk -> has_substring "__" (sup_short mk) = false.
Proof. intros Hg. apply nodd_SUP. apply (ok_G_cd _ _ _ Hok _ Hg). Qed.

Lemma alloc_nodd s : G s -> has_substring "__" (alloc_name s) = false.
Proof. intros Hg. apply nodd_SUP. apply (ok_G_fcd _ _ _ Hok _ Hg). Qed.

Lemma dem_name_nodd mk s : G mk -> has_substring "__" (dem_name mk s) = false.
Proof. intros Hg. unfold dem_name. destruct (share_parent mk s); [now apply dem_short_nodd|now apply dem_long_nodd]. Qed.

Lemma dem_name_pre mk s : String.prefix "SUP_" (dem_name mk s) = false.
Proof. unfold dem_name. destruct (share_parent mk s); apply pre_DEM. Qed.

Lemma N_dem_short b mk : N b (dem_short mk) = dem_short mk.
Proof. apply (N_lit _ _ _ Hok). apply pre_DEM. Qed.

Lemma L_dem_short b mk : G mk -> L b (dem_short mk) = dem_short mk.
Proof. intros Hg. apply (L_lit _ _ _ Hok); [now apply dem_short_nodd|apply pre_DEM]. Qed.

Lemma N_sup_short b mk : G mk -> is_market mk = true -> N b (sup_short mk) = sup_short mk.
Proof.
  intros Hg Hm. destruct b; [|reflexivity]. cbn [e_N]. apply (ok_Nm_own _ _ _ Hok).
  now apply (ok_G_mkt _ _ _ Hok).
Qed.

Lemma L_sup_short b mk : G mk -> is_market mk = true -> L b (sup_short mk) = sup_short mk.
Proof.
  intros Hg Hm. rewrite (ok_L_local _ _ _ Hok) by now apply sup_short_nodd. now apply N_sup_short.
Qed.

Lemma N_alloc s : G s -> is_market s = false -> N true (alloc_name s) = alloc_name (E s).
Proof. intros Hg Hs. cbn [e_N]. unfold alloc_name. rewrite fullcode_emb. now apply (ok_Nm_alloc _ _ _ Hok). Qed.

Lemma L_alloc s : G s -> is_market s = false -> L true (alloc_name s) = alloc_name (E s).
Proof. intros Hg Hs. rewrite (ok_L_local _ _ _ Hok) by now apply alloc_nodd. now apply N_alloc. Qed.

Lemma dem_short_emb mk : dem_short (E mk) = dem_short mk. Proof. reflexivity. Qed.
Lemma sup_short_emb mk : sup_short (E mk) = sup_short mk. Proof. reflexivity. Qed.
Lemma share_parent_emb mk s : share_parent (E mk) (E s) = share_parent mk s. Proof. reflexivity. Qed.
Lemma supply_name_emb mk s : supply_name (E mk) (E s) = supply_name mk s. Proof. reflexivity. Qed.

Lemma dem_name_emb mk s : G mk -> G s -> dem_name (E mk) (E s) = dem_name mk s.
Proof.
  intros Hg Hs. unfold dem_name. rewrite share_parent_emb, dem_short_emb. unfold share_parent.
  destruct (String.eqb_spec (country s) (country mk)) as [_|Hn]; [reflexivity|].
  unfold dem_long. rewrite fullcode_emb. now rewrite (ok_FC_cross _ _ _ Hok mk s Hg Hs Hn).
Qed.

Lemma full_name_emb b s n : G s -> full_name (E s) (N (is_market s) n) = L b (full_name s n).
Proof. intros Hg. unfold full_name. rewrite fullcode_emb. symmetry. now apply (ok_L_full _ _ _ Hok). Qed.

(* ---- 1. _SearchSupplier ---- *)

Lemma has_var_sup mk s : G mk -> is_market mk = true -> has_var (E s) (sup_short mk) = has_var s (sup_short mk).
Proof.
  intros Hg Hm. rewrite <- (N_sup_short (is_market s) mk Hg Hm) at 1. apply (has_var_emb _ _ _ Hok).
Qed.

Lemma is_candidate_emb mk s : G mk -> is_market mk = true -> is_candidate (E mk) (E s) = is_candidate mk s.
Proof.
  intros Hg Hm. unfold is_candidate. rewrite share_parent_emb, sid_eqb_emb2, sup_short_emb.
  now rewrite has_var_sup.
Qed.

Lemma search_supplier_emb Z mk : G mk -> is_market mk = true ->
  search_supplier (map E Z) (E mk) = rmap E (search_supplier Z mk).
Proof.
  intros Hg Hm. unfold search_supplier.
  rewrite (filter_emb M (e_FC M) (is_candidate mk)) by (intros s _; now apply is_candidate_emb).
  destruct (filter (is_candidate mk) Z) as [|x [|y l]]; reflexivity.
Qed.

Lemma the_residual_emb Z mk res : G mk -> is_market mk = true ->
  the_residual (map E Z) (E mk) (option_map (fun r => r + off) res) = rmap (fun r => r + off) (the_residual Z mk res).
Proof.
  intros Hg Hm. destruct res as [r|]; [reflexivity|]. cbn [option_map the_residual].
  rewrite search_supplier_emb by assumption. destruct (search_supplier Z mk); reflexivity.
Qed.

(* ---- 2. demand ---- *)

Definition emb_dem (p : sector * list string) : sector * list string := (E (fst p), map (L true) (snd p)).
Definition emb_demz (p : zone * list string) : zone * list string := (map E (fst p), map (L true) (snd p)).

Lemma dem_step_emb mk s : G mk -> G s -> dem_step (E mk) (E s) = rmap emb_dem (dem_step mk s).
Proof.
  intros Hg Hs. unfold dem_step. rewrite sid_eqb_emb2. destruct (Nat.eqb (sid s) (sid mk)); [reflexivity|].
  rewrite dem_name_emb by assumption. set (n := dem_name mk s).
  assert (Hdd : has_substring "__" n = false) by now apply dem_name_nodd.
  assert (Hpre : String.prefix "SUP_" n = false) by apply dem_name_pre.
  rewrite (has_var_lit _ _ _ Hok) by exact Hpre. destruct (has_var s n); [|reflexivity].
  pose proof (add_cash_flow_emb _ _ _ Hok (e_FC M) s (-1)%Z n (Some "") true
                (excl_fixed_G _ _ _ Hok s Hs) (or_intror Hdd)) as HA.
  cbn [option_map] in HA. rewrite (T_nil _ _ _ Hok) in HA.
  rewrite (L_lit _ _ _ Hok _ n Hdd Hpre) in HA. rewrite HA.
  destruct (add_cash_flow s ((-1)%Z, [n]) (Some "") true) as [s'|]; cbn [option_map rmap]; [|reflexivity].
  unfold emb_dem. cbn [fst snd map]. do 3 f_equal.
  rewrite <- (full_name_emb true s n Hs). now rewrite (N_lit _ _ _ Hok _ n Hpre).
Qed.

Lemma dem_loop_emb mk Z : G mk -> Forall G Z -> dem_loop (E mk) (map E Z) = rmap emb_demz (dem_loop mk Z).
Proof.
  intros Hg HZ. induction HZ as [|s r Hs _ IH]; [reflexivity|]. cbn [map dem_loop].
  rewrite dem_step_emb by assumption. destruct (dem_step mk s) as [[s' t1]|]; cbn [rmap emb_dem fst snd]; [|reflexivity].
  rewrite IH. destruct (dem_loop mk r) as [[r' t2]|]; cbn [rmap emb_demz fst snd]; [|reflexivity].
  unfold emb_demz. cbn [fst snd map]. now rewrite map_app.
Qed.

Lemma generate_demand_emb Z m mk : Forall G Z -> find_sec m Z = Some mk -> is_market mk = true ->
  generate_demand (map E Z) (m + off) = rmap (map E) (generate_demand Z m).
Proof.
  intros HZ Fm Hm. assert (Hg : G mk) by (eapply G_find; eassumption).
  unfold generate_demand. rewrite find_sec_emb, Fm. cbn [option_map]. rewrite dem_short_emb.
  rewrite (upd_emb_at m (fun s => Ok (add_variable s (dem_short mk) ""))).
  2:{ intros s Fs. rewrite Fm in Fs. injection Fs as <-. cbn [rmap]. f_equal.
      rewrite <- (N_dem_short (is_market mk) mk) at 1. rewrite <- (T_nil _ _ _ Hok (is_market mk)) at 1.
      apply (add_variable_emb _ _ _ Hok). }
  destruct (upd m _ Z) as [Za|] eqn:U1; cbn [rmap]; [|reflexivity].
  assert (Fa : Forall2 frame Z Za).
  { eapply upd_frame; [exact U1|]. intros s s' X. injection X as <-. apply frame_with_vars. }
  rewrite dem_loop_emb; [|exact Hg|eapply Forall_G_frame; eassumption].
  destruct (dem_loop mk Za) as [[Zb fulls]|] eqn:DL; cbn [rmap emb_demz fst snd]; [|reflexivity].
  assert (Fb : Forall2 frame Z Zb).
  { eapply frames_trans; [exact Fa|]. eapply zstep_frame. eapply dem_loop_zstep. exact DL. }
  apply upd_emb_at. intros s Fs.
  destruct (find_frame_back _ _ _ _ Fb Fs) as (s0 & F0 & Fr). rewrite Fm in F0. injection F0 as <-.
  assert (Hs : is_market s = true) by (rewrite (frame_is_market _ _ Fr); exact Hm).
  pose proof (set_rhs_terms_emb _ _ _ Hok (e_FC M) s (dem_short mk) (map (fun f => (1%Z, [f])) fulls)) as HA.
  rewrite Hs in HA. rewrite N_dem_short in HA. rewrite !map_map in HA. unfold emb_term in HA. cbn [fst snd map] in HA.
  rewrite map_map. cbn beta. etransitivity; [apply (f_equal opt_key); exact HA|]. destruct (set_rhs_terms s (dem_short mk) _); reflexivity.
Qed.

(* ---- 3. supply ---- *)

Lemma is_market_ensure_var s n : is_market (ensure_var s n) = is_market s.
Proof. unfold ensure_var. destruct (has_var s n); reflexivity. Qed.

Lemma ensure_var_frame s n : frame s (ensure_var s n).
Proof. unfold ensure_var. destruct (has_var s n); [apply frame_refl|apply frame_with_vars]. Qed.

Lemma atte_frame s n t s' : add_term_to_eq s n t = Some s' -> frame s s'.
Proof.
  unfold add_term_to_eq. destruct (lookup_var n (vars s)); [|discriminate].
  intros X. injection X as <-. apply frame_with_vars.
Qed.

Definition sh_ie (ie : nat * eqn) : nat * eqn := (fst ie + off, emb_eqn M true (snd ie)).

(** what the supply loop needs to know about the current zone: static descriptions, the market is
    a market, the suppliers are not *)
Definition inv (mk : sector) (ids : list nat) (Z : zone) : Prop :=
  Forall G Z /\ (forall s, find_sec (sid mk) Z = Some s -> is_market s = true) /\
  (forall i s, List.In i ids -> find_sec i Z = Some s -> is_market s = false).

Lemma inv_frame mk ids Z Z' : Forall2 frame Z Z' -> inv mk ids Z -> inv mk ids Z'.
Proof.
  intros F (HZ & Imk & Isup). split; [eapply Forall_G_frame; eassumption|]. split.
  - intros s Fs. destruct (find_frame_back _ _ _ _ F Fs) as (s0 & F0 & Fr).
    rewrite (frame_is_market _ _ Fr). now apply Imk.
  - intros i s Hi Fs. destruct (find_frame_back _ _ _ _ F Fs) as (s0 & F0 & Fr).
    rewrite (frame_is_market _ _ Fr). eapply Isup; eassumption.
Qed.

Lemma inv_incl mk ids ids' Z : incl ids' ids -> inv mk ids Z -> inv mk ids' Z.
Proof.
  intros Hi (HZ & Imk & Isup). split; [exact HZ|]. split; [exact Imk|].
  intros i s Hin. apply Isup. now apply Hi.
Qed.

Lemma rfc_home_emb Z ids : rfc_home (map E Z) (map (fun i => i + off) ids) = rmap (map FC) (rfc_home Z ids).
Proof.
  induction ids as [|i r IH]; [reflexivity|]. cbn [map rfc_home]. rewrite find_sec_emb.
  destruct (find_sec i Z) as [s|]; cbn [option_map]; [|reflexivity]. rewrite IH.
  destruct (rfc_home Z r); reflexivity.
Qed.

Definition alloc_ok (fc : string) : Prop := L true ("SUP_" ++ fc) = "SUP_" ++ FC fc.

Lemma rfc_home_alloc Z : Forall G Z -> forall ids fcs,
  (forall i s, List.In i ids -> find_sec i Z = Some s -> is_market s = false) ->
  rfc_home Z ids = Ok fcs -> Forall alloc_ok fcs.
Proof.
  intros HZ. induction ids as [|i r IH]; intros fcs Hn H; cbn [rfc_home] in H.
  - injection H as <-. constructor.
  - destruct (find_sec i Z) as [s|] eqn:Fi; [|discriminate].
    destruct (rfc_home Z r) as [l|]; [|discriminate]. injection H as <-. constructor.
    + unfold alloc_ok. apply (L_alloc s); [eapply G_find; eassumption|]. eapply Hn; [now left|exact Fi].
    + apply IH; [|reflexivity]. intros j t Hj. apply Hn. now right.
Qed.

Lemma residual_fold_emb fcs : Forall alloc_ok fcs -> forall acc,
  fold_left (fun acc fc => add_term ((-1)%Z, ["SUP_" ++ fc]) acc) (map FC fcs) (map (emb_term M true) acc)
  = map (emb_term M true) (fold_left (fun acc fc => add_term ((-1)%Z, ["SUP_" ++ fc]) acc) fcs acc).
Proof.
  induction 1 as [|fc r Hfc _ IH]; intros acc; [reflexivity|]. cbn [map fold_left]. rewrite <- IH. f_equal.
  pose proof (add_term_emb _ _ _ Hok true ((-1)%Z, ["SUP_" ++ fc]) acc) as HA.
  change (emb_term M true ((-1)%Z, ["SUP_" ++ fc])) with ((-1)%Z, [L true ("SUP_" ++ fc)]) in HA.
  unfold alloc_ok in Hfc. rewrite Hfc in HA. exact HA.
Qed.

Lemma residual_terms_emb mk fcs : G mk -> is_market mk = true -> Forall alloc_ok fcs ->
  residual_terms (E mk) (map FC fcs) = map (emb_term M true) (residual_terms mk fcs).
Proof.
  intros Hg Hm HF. unfold residual_terms. rewrite sup_short_emb. rewrite <- (residual_fold_emb fcs HF).
  f_equal. unfold emb_term. cbn [map fst snd]. now rewrite L_sup_short.
Qed.

Lemma sup_list_emb mk others r fcs : G mk -> is_market mk = true -> Forall alloc_ok fcs ->
  sup_list (E mk) (shift_others M others) (r + off) (map FC fcs) = map sh_ie (sup_list mk others r fcs).
Proof.
  intros Hg Hm HF. unfold sup_list, shift_others. rewrite map_app, !map_map. f_equal.
  cbn [map]. unfold sh_ie. cbn [fst snd]. rewrite (emb_eqn_nilblob _ _ _ Hok).
  now rewrite residual_terms_emb.
Qed.

Section Cross.
Hypothesis Hcross : cross_sup_ok M G.

Lemma L_supply_name mk s : G mk -> G s -> is_market mk = true -> L false (supply_name mk s) = supply_name mk s.
Proof.
  intros Hg Hs Hm. unfold supply_name, share_parent.
  destruct (String.eqb_spec (country s) (country mk)) as [_|Hn]; [now apply L_sup_short|].
  now apply (Hcross mk s).
Qed.

Lemma supplier_local_emb mk ln s : G mk -> G s -> is_market mk = true -> is_market s = false ->
  supplier_local (E mk) (N true ln) (E s) = rmap E (supplier_local mk ln s).
Proof.
  intros Hg Hs Hm Hsm. unfold supplier_local. rewrite supply_name_emb. set (sn := supply_name mk s).
  pose proof (ensure_var_emb _ _ _ Hok (e_FC M) s sn) as H1. rewrite Hsm in H1. cbn [e_N] in H1. rewrite H1.
  set (s1 := ensure_var s sn).
  assert (Hs1 : is_market s1 = false) by (unfold s1; now rewrite is_market_ensure_var).
  pose proof (add_term_to_eq_emb _ _ _ Hok (e_FC M) s1 sn (1%Z, [full_name mk ln])) as H2.
  rewrite Hs1 in H2. cbn [e_N] in H2. unfold emb_term in H2. cbn [fst snd map] in H2.
  rewrite <- (full_name_emb false mk ln Hg) in H2. rewrite Hm in H2. rewrite H2.
  destruct (add_term_to_eq s1 sn (1%Z, [full_name mk ln])) as [s2|] eqn:E2; cbn [option_map]; [|reflexivity].
  assert (Fr2 : frame s s2).
  { eapply frame_trans; [apply (ensure_var_frame s sn)|]. eapply atte_frame. exact E2. }
  assert (Hs2 : is_market s2 = false) by (rewrite (frame_is_market _ _ Fr2); exact Hsm).
  assert (G2 : G s2) by (eapply (ok_G_frame _ _ _ Hok); eassumption).
  pose proof (add_cash_flow_emb _ _ _ Hok (e_FC M) s2 1%Z sn None true
                (excl_fixed_G _ _ _ Hok s2 G2) (or_introl eq_refl)) as H3.
  rewrite Hs2 in H3. unfold sn in H3. rewrite (L_supply_name mk s Hg Hs Hm) in H3. cbn [option_map] in H3.
  fold sn in H3. rewrite H3. destruct (add_cash_flow s2 (1%Z, [sn]) None true); reflexivity.
Qed.

Lemma sstep_home_emb mk Z ie : G mk -> is_market mk = true -> inv mk [fst ie] Z ->
  sstep_home (E mk) (map E Z) (sh_ie ie) = rmap (map E) (sstep_home mk Z ie).
Proof.
  intros Hg Hm (HZ & Imk & Isup). destruct ie as [i e]. unfold sh_ie, sstep_home. cbn [fst snd] in *.
  rewrite find_sec_emb. destruct (find_sec i Z) as [sup|] eqn:Fi; cbn [option_map]; [|reflexivity].
  assert (Gs : G sup) by (eapply G_find; eassumption).
  assert (Hsup : is_market sup = false) by (eapply Isup; [now left|exact Fi]).
  rewrite <- (N_alloc sup Gs Hsup). rewrite sid_emb.
  rewrite (upd_emb_at (sid mk) (fun s => Ok (set_eqn s (alloc_name sup) e))).
  2:{ intros s Fs. cbn [rmap]. f_equal.
      pose proof (set_eqn_emb _ _ _ Hok (e_FC M) s (alloc_name sup) e) as HA.
      rewrite (Imk s Fs) in HA. exact HA. }
  destruct (upd (sid mk) _ Z) as [H1|] eqn:U1; cbn [rmap]; [|reflexivity].
  assert (F1 : Forall2 frame Z H1).
  { eapply upd_frame; [exact U1|]. intros s s' X. injection X as <-. apply set_eqn_frame. }
  apply upd_emb_at. intros s Fs. destruct (find_frame_back _ _ _ _ F1 Fs) as (s0 & F0 & Fr).
  apply supplier_local_emb; [exact Hg| |exact Hm|].
  - eapply (ok_G_frame _ _ _ Hok); [exact Fr|]. eapply G_find; eassumption.
  - rewrite (frame_is_market _ _ Fr). eapply Isup; [now left|exact F0].
Qed.

Lemma supply_fold_emb mk l : G mk -> is_market mk = true -> forall Z, inv mk (map fst l) Z ->
  foldM (sstep_home (E mk)) (map sh_ie l) (map E Z) = rmap (map E) (foldM (sstep_home mk) l Z).
Proof.
  intros Hg Hm. induction l as [|x l IH]; intros Z HI; [reflexivity|]. cbn [map foldM].
  rewrite sstep_home_emb; [|exact Hg|exact Hm|].
  2:{ eapply inv_incl; [|exact HI]. intros j [<-|[]]. now left. }
  destruct (sstep_home mk Z x) as [Z1|] eqn:S1; cbn [rmap]; [|reflexivity].
  apply IH. eapply inv_frame; [eapply sstep_home_frame; exact S1|].
  eapply inv_incl; [|exact HI]. intros j Hj. now right.
Qed.

Lemma gsup_home_emb Z m r others mk : Forall G Z -> find_sec m Z = Some mk -> is_market mk = true ->
  (forall j s, List.In j (map fst others ++ [r])%list -> find_sec j Z = Some s -> is_market s = false) ->
  gsup_home (map E Z) (m + off) (r + off) (shift_others M others) = rmap (map E) (gsup_home Z m r others).
Proof.
  intros HZ Fm Hm Hsup. assert (Hg : G mk) by (eapply G_find; eassumption).
  unfold gsup_home. rewrite find_sec_emb, Fm. cbn [option_map]. rewrite sup_short_emb, dem_short_emb.
  rewrite (upd_emb_at m (fun s => opt_key (set_rhs_terms s (sup_short mk) [(1%Z, [dem_short mk])]))).
  2:{ intros s Fs. rewrite Fm in Fs. injection Fs as <-.
      pose proof (set_rhs_terms_emb _ _ _ Hok (e_FC M) mk (sup_short mk) [(1%Z, [dem_short mk])]) as HA.
      rewrite Hm in HA. rewrite (N_sup_short true mk Hg Hm) in HA. unfold emb_term in HA. cbn [map fst snd] in HA.
      rewrite (L_dem_short true mk Hg) in HA.
      etransitivity; [apply (f_equal opt_key); exact HA|].
      destruct (set_rhs_terms mk (sup_short mk) _); reflexivity. }
  destruct (upd m _ Z) as [H0|] eqn:U0; cbn [rmap]; [|reflexivity].
  assert (F0 : Forall2 frame Z H0).
  { eapply upd_frame; [exact U0|]. intros s s' X. unfold opt_key in X.
    destruct (set_rhs_terms s (sup_short mk) _) as [x|] eqn:E1; [|discriminate]. injection X as <-.
    apply set_rhs_terms_spec in E1. subst x. apply set_eqn_frame. }
  assert (I0 : inv mk (map fst others ++ [r])%list H0).
  { apply (inv_frame mk _ Z H0 F0). split; [exact HZ|]. split; [|exact Hsup].
    intros s Fs. rewrite (find_sec_sid _ _ _ Fm) in Fs. rewrite Fm in Fs. now injection Fs as <-. }
  replace (map fst (shift_others M others)) with (map (fun i => i + off) (map fst others))
    by (unfold shift_others; rewrite !map_map; reflexivity).
  rewrite rfc_home_emb. destruct (rfc_home H0 (map fst others)) as [fcs|] eqn:R; cbn [rmap]; [|reflexivity].
  assert (HF : Forall alloc_ok fcs).
  { destruct I0 as (HZ0 & _ & Is0). eapply (rfc_home_alloc H0 HZ0); [|exact R].
    intros i s Hi. apply Is0. apply in_or_app. now left. }
  rewrite sup_list_emb by assumption. apply supply_fold_emb; [exact Hg|exact Hm|].
  rewrite sup_list_ids. exact I0.
Qed.

(** the market model on its zone commutes with the embedding *)
Theorem mg_home_emb Z m mk residual others :
  Forall G Z -> find_sec m Z = Some mk -> is_market mk = true ->
  (forall j s, List.In j (map fst others) -> find_sec j Z = Some s -> is_market s = false) ->
  (forall r s, the_residual Z mk residual = Ok r -> find_sec r Z = Some s -> is_market s = false) ->
  mg_home (map E Z) (m + off) (option_map (fun r => r + off) residual) (shift_others M others)
  = rmap (map E) (mg_home Z m residual others).
Proof.
  intros HZ Fm Hm Hoth Hres. assert (Hg : G mk) by (eapply G_find; eassumption).
  unfold mg_home. rewrite find_sec_emb, Fm. cbn [option_map]. rewrite the_residual_emb by assumption.
  destruct (the_residual Z mk residual) as [r|] eqn:R; cbn [rmap]; [|reflexivity].
  rewrite (generate_demand_emb Z m mk HZ Fm Hm).
  destruct (generate_demand Z m) as [H1|] eqn:GD; cbn [rmap]; [|reflexivity].
  pose proof (generate_demand_frame _ _ _ GD) as F1.
  destruct (find_frame_fwd _ _ _ _ F1 Fm) as (mk1 & Fm1 & Fr1).
  apply (gsup_home_emb H1 m r others mk1); [eapply Forall_G_frame; eassumption|exact Fm1| |].
  - rewrite (frame_is_market _ _ Fr1). exact Hm.
  - intros j s Hj Fs. destruct (find_frame_back _ _ _ _ F1 Fs) as (s0 & F0 & Fr).
    rewrite (frame_is_market _ _ Fr). apply in_app_or in Hj. destruct Hj as [Hj|[<-|[]]].
    + eapply Hoth; eassumption.
    + eapply Hres; [reflexivity|exact F0].
Qed.

Theorem market_generate_emb h a h' a' fx Z m mk residual others :
  Forall G Z -> find_sec m Z = Some mk -> is_market mk = true ->
  (forall j s, List.In j (map fst others) -> find_sec j Z = Some s -> is_market s = false) ->
  (forall r s, the_residual Z mk residual = Ok r -> find_sec r Z = Some s -> is_market s = false) ->
  market_generate h' a' (mkWorld (map (emb M) Z) [] fx []) (m + off)
                  (option_map (fun r => r + off) residual) (shift_others M others)
  = rmap (fun W => mkWorld (map (emb M) (home W)) [] fx []) (market_generate h a (mkWorld Z [] None []) m residual others).
Proof.
  intros HZ Fm Hm Hoth Hres. change (emb M) with E.
  change (mkWorld (map E Z) [] fx []) with (mkW fx (map E Z)).
  change (mkWorld Z [] None []) with (mkW None Z).
  rewrite !market_generate_local. rewrite (mg_home_emb Z m mk residual others HZ Fm Hm Hoth Hres).
  destruct (mg_home Z m residual others); reflexivity.
Qed.

End Cross.

(** when the extra condition holds *)
Lemma cross_sup_ok_one_country : (forall s t, G s -> G t -> country s = country t) -> cross_sup_ok M G.
Proof. intros H mk s Hg Hs Hn. exfalso. apply Hn. now apply H. Qed.

Lemma cross_sup_ok_nodd :
  (forall mk, G mk -> has_substring "__" ("_" ++ country mk ++ "_" ++ code mk) = false) -> cross_sup_ok M G.
Proof.
  intros H mk s Hg _ _. rewrite (ok_L_local _ _ _ Hok); [reflexivity|]. apply nodd_SUP. now apply H.
Qed.

End MarketEmb.

Lemma cross_sup_ok_idmap o G : cross_sup_ok (idmap o) G.
Proof. intros mk s _ _ _. reflexivity. Qed.
