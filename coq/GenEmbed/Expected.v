(** The embedding theorem in its displayed form: the joint build succeeds and its final system is
    [Joint.expected_system], i.e. block by block the embedded stand-alone systems plus the
    ExternalSector's own block. *)
From Coq Require Import List String Ascii Bool ZArith Arith Lia.
From SFC.Base Require Import Res Str Sorting.
From SFC.Gen Require Import Fx Zone.
From SFC.GenMarket Require Import Market.
From SFC.GenTax Require Import Tax TaxProofs DividendProofs.
From SFC.GenMain2 Require Import Program Classes Main Ledger MainProofs Names Program2 Main2.
From SFC.GenEmbed Require Import EmbDefs JointDefs Joint Laws Good ZoneEmb Block ClassEmb TokenMap PrefixLaws ConsEmb ConsRun ExtReg
  Items AssembleC AssembleK GenEmb FlowEmb Rounds AssembleM RowsDefs RowsEmb EvalOk Embed.
Import ListNotations.
Local Open Scope string_scope.

Lemma ic_rows_length Z : forall l rows, ic_rows Z l = Ok rows -> List.length rows = List.length l.
Proof.
  induction l as [|[[s n] v] r IH]; intros rows H; [inversion H; reflexivity|]. cbn [ic_rows] in H.
  destruct (find_sec s Z); [|discriminate]. destruct (has_var _ n); [|discriminate].
  destruct (ic_rows Z r) as [rest|] eqn:E; [|discriminate]. cbn in H. inversion H. cbn. f_equal. now apply IH.
Qed.

Lemma step_ic_count q : List.length (flat_map step_ic q) = n_ic_ops q.
Proof.
  unfold n_ic_ops. induction q as [|x r IH]; [reflexivity|]. cbn [flat_map filter]. rewrite app_length, IH.
  destruct x as [c|ci c k|o]; try reflexivity. destruct o; reflexivity.
Qed.

(** creation index of the ExternalSector's first sector, by recursion over the slots *)
Fixpoint ext_soff (soff : nat) (sl : list (option program)) : nat :=
  match sl with
  | [] => soff
  | None :: _ => soff
  | Some p :: r => ext_soff (nsectors p + soff) r
  end.

Lemma ext_soff_insert : forall k ps soff, ext_soff soff (insert_at k None (map Some ps)) = sum_nat (map nsectors (firstn k ps)) + soff.
Proof.
  induction k as [|k IH]; intros [|p r] soff; cbn [insert_at map firstn ext_soff sum_nat fold_right]; try reflexivity.
  rewrite IH. unfold sum_nat. cbn [map fold_right]. lia.
Qed.

Section Exp.
Variable g : bool.
Variable curs : list string.

Lemma exp_items X : forall sl Es Cs coff soff,
  Forall2 (fun p E => build p = Ok E) (sl_comps sl) Es -> List.length Cs = List.length (sl_comps sl) -> n_none sl <= 1 ->
  (n_none sl = 0 \/ X = map (set_fullcode g) (Xof (ext_soff soff sl) curs)) ->
  exp_zone g X soff (slots_with sl Es) =
  List.concat (map (fun it => it_eb g it (match it with IComp p _ _ _ => fs_zone (bE p) | IExt n => map (set_fullcode g) (Xof n curs) end))
                   (d_items coff soff sl Cs)).
Proof.
  induction sl as [|[p|] r IH]; intros Es Cs coff soff HF HL Hn HX; [now destruct Es, Cs| |].
  - cbn [sl_comps] in HF, HL. inversion HF as [|p0 E l Er HE HF']. subst. destruct Cs as [|C Cr]; [discriminate|].
    cbn [slots_with exp_zone d_items map List.concat it_eb]. unfold bE. rewrite HE. f_equal.
    apply IH; [exact HF'|cbn in HL; lia|exact Hn|exact HX].
  - cbn [sl_comps slots_with exp_zone d_items map List.concat it_eb] in *. destruct HX as [HX|HX]; [discriminate|]. cbn [ext_soff] in HX.
    rewrite <- HX. f_equal. cbn [n_none] in Hn. apply IH; [exact HF|exact HL|lia|left; lia].
Qed.

End Exp.

Definition comp_facts (g : bool) (p : program) (E : final_system) : Prop :=
  (forall so, zone_rows (map (emb (iM g p so)) (fs_zone E)) = emb_rows (iM g p so) E) /\
  exists r1 r2, fs_ic E = (r1 ++ r2)%list /\ List.length r1 = n_ic_ops (decl_part p) /\
                ic_rows (fs_zone E) (flat_map step_ic (decl_part p)) = Ok r1 /\
                ic_rows (fs_zone E) (flat_map step_ic (ops_part p)) = Ok r2.

Section Exp2.
Variable g : bool.
Variable curs : list string.

Definition fz (it : item) : zone := match it with IComp p _ _ _ => fs_zone (bE p) | IExt n => map (set_fullcode g) (Xof n curs) end.

Lemma exp_rows_items X : forall sl Es Cs coff soff,
  Forall2 (fun p E => build p = Ok E) (sl_comps sl) Es -> List.length Cs = List.length (sl_comps sl) -> n_none sl <= 1 ->
  (n_none sl = 0 \/ X = map (set_fullcode g) (Xof (ext_soff soff sl) curs)) ->
  (forall p E, List.In p (sl_comps sl) -> build p = Ok E -> comp_facts g p E) ->
  exp_rows g X soff (slots_with sl Es) =
  List.concat (map (fun it => zone_rows (it_eb g it (fz it))) (d_items coff soff sl Cs)).
Proof.
  induction sl as [|[p|] r IH]; intros Es Cs coff soff HF HL Hn HX Hfa; [now destruct Es, Cs| |].
  - cbn [sl_comps] in HF, HL, Hfa. inversion HF as [|p0 E l Er HE HF']. subst. destruct Cs as [|C Cr]; [discriminate|].
    cbn [slots_with exp_rows d_items map List.concat it_eb fz]. unfold bE. rewrite HE.
    destruct (Hfa p E (or_introl eq_refl) HE) as [Hr _]. rewrite (Hr soff). f_equal.
    apply IH; [exact HF'|cbn in HL; lia|exact Hn|exact HX|]. intros q Eq Hq. apply Hfa. now right.
  - cbn [sl_comps slots_with exp_rows d_items map List.concat it_eb fz] in *. destruct HX as [HX|HX]; [discriminate|]. cbn [ext_soff] in HX.
    rewrite <- HX. f_equal. cbn [n_none] in Hn. apply IH; [exact HF|exact HL|lia|left; lia|exact Hfa].
Qed.

Lemma exp_ic_items second : forall sl Es Cs coff soff,
  Forall2 (fun p E => build p = Ok E) (sl_comps sl) Es -> List.length Cs = List.length (sl_comps sl) ->
  (forall p E, List.In p (sl_comps sl) -> build p = Ok E -> comp_facts g p E) ->
  exp_ic g second soff (slots_with sl Es) =
  List.concat (map (fun it => it_icrows g (if second then ib2 else ib1) (it, fz it)) (d_items coff soff sl Cs)).
Proof.
  induction sl as [|[p|] r IH]; intros Es Cs coff soff HF HL Hfa; [now destruct Es, Cs| |].
  - cbn [sl_comps] in HF, HL, Hfa. inversion HF as [|p0 E l Er HE HF']. subst. destruct Cs as [|C Cr]; [discriminate|].
    cbn [slots_with exp_ic d_items map List.concat]. f_equal; [|apply IH; [exact HF'|cbn in HL; lia|intros q Eq Hq; apply Hfa; now right]].
    destruct (Hfa p E (or_introl eq_refl) HE) as [_ (r1 & r2 & E12 & L1 & I1 & I2)].
    unfold it_icrows. cbn [fst snd fz]. unfold bE. rewrite HE. unfold ic1, ic2. rewrite E12.
    destruct second; cbn [ib1 ib2].
    + rewrite I2. f_equal. rewrite <- L1. now rewrite skipn_app, skipn_all, Nat.sub_diag.
    + rewrite I1. f_equal. rewrite <- L1. now rewrite firstn_app, firstn_all, Nat.sub_diag, app_nil_r.
  - cbn [sl_comps slots_with exp_ic d_items map List.concat] in *. unfold it_icrows at 1. cbn [fst app]. apply IH; assumption.
Qed.

End Exp2.

Lemma d_items_has : forall sl Cs coff soff p, List.length Cs = List.length (sl_comps sl) -> List.In p (sl_comps sl) ->
  exists co so C, List.In (IComp p co so C) (d_items coff soff sl Cs).
Proof.
  induction sl as [|[q|] r IH]; intros Cs coff soff p HL Hin; [destruct Hin| |].
  - destruct Cs as [|C Cr]; [discriminate|]. cbn [sl_comps d_items] in *. destruct Hin as [->|Hin].
    + exists coff, soff, C. now left.
    + destruct (IH Cr (ncountries q + coff) (nsectors q + soff) p) as (co & so & C' & H); [cbn in HL; lia|exact Hin|]. exists co, so, C'. now right.
  - cbn [sl_comps d_items] in *. destruct (IH Cs (S coff) (3 + soff) p HL Hin) as (co & so & C' & H). exists co, so, C'. now right.
Qed.

Lemma sl_curs_slots ps ext : sl_curs (slots ps ext) = currencies ps ext.
Proof.
  unfold slots, currencies, with_ext. destruct ext as [k|].
  - revert ps. induction k as [|k IH]; intros [|p r]; cbn; try reflexivity; [now rewrite map_map|]. f_equal. apply IH.
  - unfold sl_curs. now rewrite map_map.
Qed.

Lemma comp_facts_of g p C E : comp_static p = true -> comp_run_ok g p C -> construct_all p = Ok C -> build p = Ok E ->
  (gains_prefix g p = true -> Forall (fun s => text_ok s = true) (fs_zone E)) -> comp_facts g p E.
Proof.
  intros Hst Hrun HC HE Htx. split.
  - intros so'. unfold emb_rows. apply zone_rows_emb; [exact Hst| |exact Htx].
    (* the static description survives the whole stand-alone run *)
    pose proof (comp_laws g p so' Hst) as Hok.
    assert (HF : Forall2 frame (zone0 C) (fs_zone E)).
    { unfold build, build_run in HE. rewrite HC in HE. cbn [bind] in HE. destruct (main_run C) as [R|] eqn:ER; [|discriminate].
      cbn [bind] in HE. inversion HE. subst E. now apply main_run_frame. }
    pose proof (ro_G _ _ _ Hrun) as HG. rewrite Forall_forall in HG |- *. intros s' Hs'.
    destruct (Forall2_frame_In_r _ _ HF s' Hs') as (s & Hs & Hfr). eapply (ok_G_frame _ _ _ Hok); [exact Hfr|now apply HG].
  - destruct (build_unfold p E HE) as (C' & gfin & Z1 & HC' & _ & _ & _ & Hicr & _ & _).
    rewrite HC in HC'. inversion HC'. subst C'.
    destruct (construct_split p C HC) as (CD & HCD & HO).
    destruct (logs_static _ _ _ HCD) as (_ & _ & D3). destruct (logs_static _ _ _ HO) as (_ & _ & O3).
    cbn [c_init c_ic app] in D3. rewrite D3 in O3. rewrite O3, ic_rows_app in Hicr.
    destruct (ic_rows (fs_zone E) (flat_map step_ic (decl_part p))) as [r1|] eqn:E1; [|discriminate]. cbn [bind] in Hicr.
    destruct (ic_rows (fs_zone E) (flat_map step_ic (ops_part p))) as [r2|] eqn:E2; [|discriminate]. cbn [bind] in Hicr. inversion Hicr as [Er].
    exists r1, r2. split; [reflexivity|]. split; [|now split].
    rewrite (ic_rows_length _ _ _ E1). apply step_ic_count.
Qed.

Theorem main2_embedding ps ext Es :
  embed_ok ps ext = true -> Forall2 (fun p E => build p = Ok E) ps Es ->
  exists E, build2 (joint ps ext) = Ok E /\ expected_system ps ext Es = Ok E.
Proof.
  intros Hok HB. destruct (main2_embedding_items ps ext Es Hok HB) as (E & Cs & HE & HCs & HX). cbv zeta in HX.
  destruct HX as (HZ & HR & HI & Hwf & Hoks & Hcomp).
  set (g := joint_multi ps ext) in *. set (sl := slots ps ext) in *. set (its := d_items 0 0 sl Cs) in *.
  exists E. split; [exact HE|].
  assert (Ecomps : sl_comps sl = ps) by apply sl_comps_slots.
  assert (LCs : List.length Cs = List.length (sl_comps sl)) by (rewrite Ecomps; eapply Forall2_len; eauto).
  destruct (codes_d_items sl Cs 0 0 LCs) as (Eco & Ecu & En). fold its in Eco, Ecu, En.
  assert (Hst : forallb comp_static ps = true).
  { unfold embed_ok in Hok. cbv zeta in Hok. repeat (apply andb_true_iff in Hok as [Hok ?]). assumption. }
  assert (Hclean : forallb cleancc (sl_curs sl) = true) by (apply sl_curs_clean; now rewrite Ecomps).
  assert (Hfa : forall p E0, List.In p (sl_comps sl) -> build p = Ok E0 -> comp_facts g p E0).
  { intros p E0 Hp HE0. destruct (d_items_has sl Cs 0 0 p LCs Hp) as (co & so & C & Hin). fold its in Hin.
    destruct (Hcomp p co so C Hin) as (Hrun & HC & E1 & HE1 & Htx). rewrite HE0 in HE1. inversion HE1. subst E1.
    destruct (Hoks _ Hin) as (_ & Hstp & _). eapply comp_facts_of; eauto. }
  set (curs := sl_curs sl) in *.
  set (X := match ext with Some k => map (set_fullcode g) (Xof (ext_sid ps k) curs) | None => [] end).
  assert (EX : ext_block ps ext = Ok X).
  { unfold ext_block, X. destruct ext as [k|]; [|reflexivity]. unfold ext_zone. fold g. rewrite <- sl_curs_slots. fold sl. fold curs.
    destruct (Xof_ok (ext_sid ps k) curs Hclean) as [EXo _]. unfold xids in EXo. rewrite EXo. reflexivity. }
  assert (HXs : n_none sl = 0 \/ X = map (set_fullcode g) (Xof (ext_soff 0 sl) curs)).
  { unfold X, sl, slots, with_ext. destruct ext as [k|]; [right|left; apply n_none_some].
    rewrite ext_soff_insert, Nat.add_0_r. reflexivity. }
  assert (Hfz : forall it, fzone g its it = fz g curs it).
  { intros [n|p co so C]; [|reflexivity]. cbn [fzone fz it_zone0]. now rewrite Ecu. }
  unfold expected_system. rewrite EX. cbn [bind]. fold g. fold sl. f_equal.
  destruct E as [z r i]. cbn [fs_zone fs_rows fs_ic] in HZ, HR, HI. subst z r i. f_equal.
  - rewrite (exp_items g curs X sl Es Cs 0 0); [|now rewrite Ecomps|exact LCs|apply n_none_slots|exact HXs].
    fold its. unfold jzone, blF. rewrite map_map. cbn [fst snd]. f_equal. apply map_ext. intros it. now rewrite Hfz.
  - rewrite (exp_rows_items g curs X sl Es Cs 0 0); [|now rewrite Ecomps|exact LCs|apply n_none_slots|exact HXs|exact Hfa].
    fold its. rewrite zone_rows_jzone. unfold blF. rewrite map_map. cbn [fst snd]. f_equal. apply map_ext. intros it. now rewrite Hfz.
  - rewrite (exp_ic_items g curs false sl Es Cs 0 0), (exp_ic_items g curs true sl Es Cs 0 0); try (now rewrite Ecomps); try exact LCs; try exact Hfa.
    fold its. unfold blF. rewrite !map_map. f_equal; f_equal; apply map_ext; intros it; now rewrite Hfz.
Qed.
