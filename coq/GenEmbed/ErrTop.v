(** Error direction of the embedding theorem, at program level. *)
From Coq Require Import List String Ascii Bool ZArith Arith Lia.
From SFC.Base Require Import Res Str Sorting.
From SFC.Gen Require Import Fx Zone.
From SFC.GenMarket Require Import Market.
From SFC.GenTax Require Import Tax TaxProofs DividendProofs.
From SFC.GenMain2 Require Import Program Classes Main Ledger MainProofs Names Program2 Main2.
From SFC.GenEmbed Require Import EmbDefs JointDefs Joint Laws Good ZoneEmb Block ClassEmb TokenMap PrefixLaws ConsEmb ConsRun ExtReg
  Items AssembleC AssembleK GenEmb FlowEmb Rounds AssembleM RowsDefs RowsEmb EvalOk Embed Expected ErrK ErrDir.
Import ListNotations.
Local Open Scope string_scope.

Lemma all_ok_list {A B} (f : A -> result B) (l : list A) :
  (forall a, List.In a l -> exists b, f a = Ok b) -> exists bs, Forall2 (fun a b => f a = Ok b) l bs.
Proof.
  induction l as [|a r IH]; intros H; [exists []; constructor|].
  destruct (H a (or_introl eq_refl)) as (b & Hb). destruct IH as (bs & Hbs); [intros x Hx; apply H; now right|].
  exists (b :: bs). now constructor.
Qed.

Lemma ops_case : forall ps CDs, List.length CDs = List.length ps -> ops_fail ps CDs \/ exists Cs, ops_ok ps CDs Cs.
Proof.
  induction ps as [|p r IH]; intros [|CD a] HL; try discriminate; [right; now exists []|].
  cbn [ops_fail]. destruct (foldM run_step (ops_part p) CD) as [C|e] eqn:E.
  - destruct (IH a) as [Hf|(Cs & Hs)]; [cbn in HL; lia|left; now right|]. right. exists (C :: Cs). cbn [ops_ok]. now split.
  - left. left. now exists e.
Qed.

Lemma ops_ok_construct : forall ps CDs Cs, Forall2 (fun p CD => construct_all (decl_part p) = Ok CD) ps CDs -> ops_ok ps CDs Cs ->
  Forall2 (fun p C => construct_all p = Ok C) ps Cs.
Proof.
  induction ps as [|p r IH]; intros [|CD a] [|C b] HF Hops; cbn [ops_ok] in Hops; try contradiction; [constructor|].
  inversion HF; subst. destruct Hops as [HC Hops]. constructor; [|now apply IH with a].
  unfold construct_all in *. rewrite (decl_ops_split p) at 1. rewrite foldM_app. match goal with H : foldM run_step (decl_part p) c_init = Ok CD |- _ => rewrite H end.
  exact HC.
Qed.

(** If the side condition holds and the pipeline of some economy fails alone — in its construction, in
    _GenerateEquations, in the registered cash flows, the exogenous declarations or the initial
    conditions — then the joint model fails. *)
Theorem main2_embedding_err ps ext :
  embed_ok ps ext = true -> (exists p e, List.In p ps /\ core p = Err e) -> exists e', build2 (joint ps ext) = Err e'.
Proof.
  intros Hok Hfail. unfold embed_ok in Hok. cbv zeta in Hok.
  set (sl := slots ps ext) in *. set (g := joint_multi ps ext) in *.
  apply andb_true_iff in Hok as [Hok Hev]. apply andb_true_iff in Hok as [Hok Hnum]. apply andb_true_iff in Hok as [Hok Hnu].
  apply andb_true_iff in Hok as [Hok Hnc]. apply andb_true_iff in Hok as [Hne Hst].
  apply nodupb_NoDup in Hnc, Hnu.
  assert (Ecomps : sl_comps sl = ps) by apply sl_comps_slots.
  assert (Hst' : forallb comp_static (sl_comps sl) = true) by (now rewrite Ecomps).
  pose proof (sl_curs_clean sl Hst') as Hclean.
  assert (Hbuild : forall K, construct_all2 (joint ps ext) = Err K -> exists e', build2 (joint ps ext) = Err e').
  { intros e0 H0. exists e0. unfold build2, build_run2. now rewrite H0. }
  (* declarations *)
  destruct (all_or_fail (fun p => construct_all (decl_part p)) ps) as [HallD|(p & e & Hp & He)].
  2:{ destruct (phaseD_list_err g sl [] k_init (kdesc_init g) Logic.I) as (e' & He').
      { cbn. apply n_none_slots. } { exact Hclean. } { exact Hnc. } { exact Hnu. } { exact Hst'. } { intros q co so C []. }
      { exists p, e. rewrite Ecomps. now split. }
      apply (Hbuild e'). unfold construct_all2, joint. fold g. fold sl. change (tot_nc []) with 0 in He'. change (tot_ns []) with 0 in He'.
      rewrite foldM_app, He'. reflexivity. }
  destruct (all_ok_list _ _ HallD) as (CDs & HCDs).
  assert (LCDs : List.length CDs = List.length (sl_comps sl)) by (rewrite Ecomps; eapply Forall2_len; eauto).
  destruct (phaseD_list g sl CDs [] k_init (kdesc_init g) Logic.I) as (K1 & R1 & HD1 & Hwf1 & L1 & L2 & L3).
  { cbn. apply n_none_slots. }
  { exact Hclean. } { exact Hnc. } { exact Hnu. } { exact Hst'. } { intros p co so C []. } { now rewrite Ecomps. }
  change (tot_nc []) with 0 in *. change (tot_ns []) with 0 in *. cbn [app] in HD1, Hwf1.
  destruct (codes_d_items sl CDs 0 0 LCDs) as (EcoD & EcuD & EnD).
  (* trailing operations *)
  destruct (ops_case ps CDs) as [HfO|(Cs & Hops)]; [now rewrite <- Ecomps|..].
  { pose proof (phaseO_list_err g sl CDs [] K1) as HO. cbv zeta in HO. change (tot_nc []) with 0 in HO. change (tot_ns []) with 0 in HO. cbn [app] in HO.
    rewrite EcuD, EcoD in HO. destruct (HO HD1 Hwf1 Hclean Hnu Hnc Hst' LCDs) as (e' & He'); [now rewrite Ecomps|].
    apply (Hbuild e'). unfold construct_all2, joint. fold g. fold sl. rewrite foldM_app, R1. cbn [bind]. exact He'. }
  pose proof (ops_ok_construct ps CDs Cs HCDs Hops) as HCs.
  assert (LCs : List.length Cs = List.length (sl_comps sl)) by (rewrite Ecomps; eapply Forall2_len; eauto).
  pose proof (phaseO_list g sl CDs Cs [] K1) as HO. cbv zeta in HO. change (tot_nc []) with 0 in HO. change (tot_ns []) with 0 in HO. cbn [app] in HO.
  rewrite EcuD, EcoD in HO. specialize (HO HD1 Hwf1 Hclean Hnu Hnc Hst').
  rewrite Ecomps in HO. specialize (HO Hops). destruct HO as (Kf & R2 & HDf & Hwff & M1 & M2 & M3).
  set (its := d_items 0 0 sl Cs) in *.
  destruct (codes_d_items sl Cs 0 0 LCs) as (Eco & Ecu & En). fold its in Eco, Ecu, En.
  assert (Hcons : construct_all2 (joint ps ext) = Ok Kf).
  { unfold construct_all2, joint. fold g. fold sl. rewrite foldM_app, R1. cbn [bind]. exact R2. }
  assert (Hpair : forall p co so C, List.In (IComp p co so C) its -> List.In p ps /\ construct_all p = Ok C).
  { intros p co so C Hin. pose proof (d_items_pair sl Cs 0 0 p co so C Hin) as Hp. rewrite Ecomps in Hp.
    split; [eapply in_combine_l; eauto|exact (Forall2_combine _ _ _ HCs p C Hp)]. }
  assert (Hgf : g = false -> forall p, List.In p ps -> ncountries p = 1).
  { intros Eg p Hp. unfold g, joint_multi in Eg. apply Nat.ltb_ge in Eg.
    pose proof (sum_ge (map ncountries ps) (ncountries p) (in_map _ _ _ Hp)) as Hs.
    rewrite forallb_forall in Hst. destruct (comp_static_inv p (Hst p Hp)) as (_ & H1 & _). lia. }
  assert (Hoks : forall i, List.In i its -> item_ok g i).
  { intros [n|p co so C] Hin; [exact Logic.I|]. destruct (Hpair p co so C Hin) as [Hp HC].
    split; [eapply wf_full; eauto|]. split; [rewrite forallb_forall in Hst; now apply Hst|]. intros Eg. now apply Hgf. }
  assert (Hrun : forall p co so C, List.In (IComp p co so C) its -> comp_run_ok g p C).
  { intros p co so C Hin. destruct (Hpair p co so C Hin) as [Hp HC]. rewrite forallb_forall in Hev. exact (comp_evalb_ok g p C (Hev p Hp) HC). }
  assert (Hg : g = Nat.ltb 1 (tot_nc its)).
  { destruct (tot_nc_d_items sl Cs 0 0 LCs) as [Etn _]. fold its in Etn. rewrite Etn, Ecomps. unfold g, joint_multi, sl. now rewrite n_none_slots_eq. }
  (* Model.main() *)
  destruct (final_run_err g its Kf HDf Hwff) as (e' & He').
  { now rewrite Ecu. } { now rewrite Eco. } { now rewrite Ecu. } { exact Hoks. } { rewrite En. apply n_none_slots. }
  { exact Hrun. } { exact Hg. } { intros p co so C Hin. exact (proj2 (Hpair p co so C Hin)). }
  { rewrite M1, L1. cbn [k_init k_flows app]. unfold its. now rewrite (r_flows_items g decl_part sl Cs 0 0 LCs), (r_flows_items g ops_part sl Cs 0 0 LCs). }
  { rewrite M2, L2. cbn [k_init k_exo app]. unfold its. now rewrite (r_exo_items g decl_part sl Cs 0 0 LCs), (r_exo_items g ops_part sl Cs 0 0 LCs). }
  { rewrite M3, L3. cbn [k_init k_ic app]. unfold its. now rewrite (r_ic_items g decl_part sl Cs 0 0 LCs), (r_ic_items g ops_part sl Cs 0 0 LCs). }
  { destruct Hfail as (p & e & Hp & He).
    destruct (d_items_has sl Cs 0 0 p LCs) as (co & so & C & Hin); [now rewrite Ecomps|]. fold its in Hin.
    exists p, co, so, C, e. split; [exact Hin|]. destruct (Hpair p co so C Hin) as [_ HC]. unfold core in He. now rewrite HC in He. }
  exists e'. unfold build2, build_run2. rewrite Hcons. cbn [bind]. now rewrite He'.
Qed.

(** in terms of [build]: a failure of [build] other than the final "no equations" Warning is a failure of [core] *)
Lemma build_err_core p e : build p = Err e ->
  core p = Err e \/ exists Zf, core p = Ok (Zf, []) /\ zone_rows Zf = [] /\ e = Warning_.
Proof.
  rewrite build_core. destruct (core p) as [[Zf ics]|e0]; [|intros H; inversion H; now left].
  destruct (zone_rows Zf) eqn:Ez; [destruct ics|]; try discriminate. intros H. inversion H. right. now exists Zf.
Qed.
