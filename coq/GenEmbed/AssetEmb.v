(** MoneyMarket._GenerateEquations and DepositMarket._GenerateEquations (GenAsset/Money.v, Deposit.v)
    commute with an embedding map that satisfies [Laws.emap_ok]. *)
From Coq Require Import List String Ascii Bool ZArith Arith Lia.
From SFC.Base Require Import Res Str Sorting.
From SFC.Gen Require Import Fx Zone.
From SFC.GenMarket Require Import Market.
From SFC.GenTax Require Import Tax TaxProofs.
From SFC.GenAsset Require Import Common CommonProofs Money Deposit.
From SFC.GenMain2 Require Import Program Classes Main.
From SFC.GenEmbed Require Import EmbDefs Laws ZoneEmb TaxEmb.
Import ListNotations.
Local Open Scope string_scope.

(* ------------------------------------------------------------------ *)
(** * Strings *)

Lemma dd_tail ch x : has_substring "__" (String ch x) = false -> has_substring "__" x = false.
Proof. rewrite has_substring_cons. destruct (String.prefix "__" (String ch x)); [discriminate|auto]. Qed.

Lemma dd_head ch x : ch <> "_"%char -> has_substring "__" (String ch x) = has_substring "__" x.
Proof.
  intros Hc. rewrite has_substring_cons.
  assert (Hp : String.prefix "__" (String ch x) = false).
  { cbn [String.prefix]. destruct (ascii_dec "_" ch) as [Heq|]; [now subst ch|reflexivity]. }
  now rewrite Hp.
Qed.

Lemma dd_int c : has_substring "__" ("_" ++ c) = false -> has_substring "__" ("INT" ++ c) = false.
Proof.
  intros H. change ("_" ++ c) with (String "_" c) in H. apply dd_tail in H.
  change ("INT" ++ c) with (String "I" (String "N" (String "T" c))).
  rewrite !dd_head by discriminate. exact H.
Qed.

Lemma all_id_app a b : all_id (a ++ b) = all_id a && all_id b.
Proof. induction a as [|ch a IH]; [reflexivity|]. cbn [append all_id]. now rewrite IH, andb_assoc. Qed.

Lemma idstr_pre p c : all_id p = true -> p <> "" -> idstr c -> idstr (p ++ c).
Proof.
  intros Hp Hn (Hc & _). split; [rewrite all_id_app; now rewrite Hp, Hc|].
  destruct p; [congruence|discriminate].
Qed.

Lemma split_sid_find mk Z pre m post : split_sid mk Z = Some (pre, m, post) -> find_sec mk Z = Some m.
Proof.
  unfold find_sec. revert pre. induction Z as [|s r IH]; intros pre; cbn [split_sid find]; [discriminate|].
  destruct (Nat.eqb (sid s) mk); [intros H; now inversion H|].
  destruct (split_sid mk r) as [[[p m'] q]|]; [|discriminate]. intros H. inversion H. subst. now apply (IH p).
Qed.

Section AssetEmb.
Variables (M : emap) (mcode : string -> Prop) (G : sector -> Prop).
Hypothesis Hok : emap_ok M mcode G.

Notation E := (emb_with (e_FC M) M).
Notation N := (e_N M).
Notation L := (e_L M).
Notation T := (e_T M).
Notation off := (e_off M).

(* ------------------------------------------------------------------ *)
(** * Names *)

Lemma dem_lit b c : N b (dem_name c) = dem_name c.
Proof. apply (N_lit M mcode G Hok). reflexivity. Qed.

(** the market's own supply variable *)
Lemma sup_own m c : G m -> code m = c -> N (is_market m) (sup_name c) = sup_name c.
Proof.
  intros Hm <-. destruct (is_market m) eqn:Hb; [|reflexivity].
  cbn [e_N]. apply (ok_Nm_own _ _ _ Hok). now apply (ok_G_mkt _ _ _ Hok).
Qed.

Lemma idstr_sup m c : G m -> code m = c -> idstr (sup_name c).
Proof. intros Hm <-. apply idstr_pre; [reflexivity|discriminate|now apply (ok_G_code _ _ _ Hok)]. Qed.

Lemma idstr_dem m c : G m -> code m = c -> idstr (dem_name c).
Proof. intros Hm <-. apply idstr_pre; [reflexivity|discriminate|now apply (ok_G_code _ _ _ Hok)]. Qed.

Lemma int_dd m c : G m -> code m = c -> has_substring "__" (int_name c) = false.
Proof. intros Hm <-. apply dd_int. now apply (ok_G_cd _ _ _ Hok). Qed.

Lemma name1_emb b s n : G s -> N (is_market s) n = n ->
  emb_term M b (name1 (fullname s n)) = name1 (fullname (E s) n).
Proof.
  intros Hs Hn. unfold name1, emb_term, fullname. cbn [fst snd map].
  rewrite (ok_L_full _ _ _ Hok b s n Hs), Hn. reflexivity.
Qed.

Lemma lag_text_emb b s n : G s -> idstr n -> N (is_market s) n = n ->
  T b (lag_text (fullname s n)) = lag_text (fullname (E s) n).
Proof.
  intros Hs Hi Hn. unfold lag_text, fullname. change "(k-1)" with (String "(" "k-1)").
  rewrite (ok_T_sep _ _ _ Hok) by reflexivity.
  rewrite (ok_T_full _ _ _ Hok b s n Hs Hi), Hn.
  rewrite (ok_T_plain _ _ _ Hok b "k-1)") by (split; reflexivity). reflexivity.
Qed.

Lemma int_def_emb b m s n : G m -> G s -> N (is_market s) n = n ->
  map (emb_term M b) (int_def (fullcode m) (fullname s n)) = int_def (fullcode (E m)) (fullname (E s) n).
Proof.
  intros Hm Hs Hn. unfold int_def, emb_term, fullname. cbn [map fst snd].
  rewrite (full_L M mcode G Hok b m "LAG_r" Hm eq_refl).
  rewrite (ok_L_full _ _ _ Hok b s n Hs), Hn. reflexivity.
Qed.

(** a sector that is not a market: names are kept *)
Lemma def_variable_nm s n ts ts' : is_market s = false -> map (emb_term M false) ts = ts' ->
  def_variable (E s) n ts' = E (def_variable s n ts).
Proof.
  intros Hb <-. rewrite <- (def_variable_emb M mcode G Hok). rewrite Hb. reflexivity.
Qed.

Lemma add_variable_nm s n t t' : is_market s = false -> T false t = t' ->
  add_variable (E s) n t' = E (add_variable s n t).
Proof.
  intros Hb <-. rewrite <- (add_variable_emb M mcode G Hok). rewrite Hb. reflexivity.
Qed.

(* ------------------------------------------------------------------ *)
(** * The money market *)

Lemma money_step_frame c issuer m s m1 s1 : money_step c issuer m s = Ok (m1, s1) -> frame m m1 /\ frame s s1.
Proof.
  unfold money_step. destruct (negb (hasF s)); [intros H; inversion H; split; apply frame_refl|].
  destruct (String.eqb (code s) issuer).
  - destruct (has_var m (dem_name c)); [|discriminate]. intros H; inversion H. split; reflexivity.
  - destruct (has_var s (dem_name c)).
    + destruct (add_term_to_eq m (dem_name c) _) as [m'|] eqn:Ea; [|discriminate]. cbn [of_option bind].
      intros H; inversion H; subst. apply add_term_to_eq_some in Ea. destruct Ea as (e & _ & ->).
      split; [reflexivity|apply frame_refl].
    + destruct (has_var s "F"); [|discriminate].
      destruct (add_term_to_eq m (dem_name c) _) as [m'|] eqn:Ea; [|discriminate]. cbn [of_option bind].
      intros H; inversion H; subst. apply add_term_to_eq_some in Ea. destruct Ea as (e & _ & ->).
      split; reflexivity.
Qed.

Lemma add_term_dem_emb c m s : G s -> is_market s = false ->
  add_term_to_eq (E m) (dem_name c) (name1 (fullname (E s) (dem_name c)))
  = option_map E (add_term_to_eq m (dem_name c) (name1 (fullname s (dem_name c)))).
Proof.
  intros Hs Hb.
  pose proof (add_term_to_eq_emb M mcode G Hok (e_FC M) m (dem_name c) (name1 (fullname s (dem_name c)))) as H.
  rewrite dem_lit in H. rewrite (name1_emb _ s (dem_name c) Hs (dem_lit _ _)) in H. exact H.
Qed.

Lemma money_step_emb c issuer m s : G m -> code m = c -> G s ->
  money_step c issuer (E m) (E s)
  = rmap (fun ms => (E (fst ms), E (snd ms))) (money_step c issuer m s).
Proof.
  intros Hm Hc Hs. unfold money_step. rewrite hasF_emb.
  destruct (hasF s) eqn:HF; cbn [negb]; [|reflexivity].
  assert (Hb : is_market s = false).
  { destruct (is_market s) eqn:Hb; [|reflexivity]. rewrite (ok_G_mktF _ _ _ Hok s Hs Hb) in HF. discriminate. }
  rewrite code_emb. destruct (String.eqb (code s) issuer).
  - rewrite (has_var_lit M mcode G Hok) by reflexivity.
    destruct (has_var m (dem_name c)); [|reflexivity]. cbn [rmap fst snd].
    assert (E1 : def_variable (E s) (sup_name c) [name1 (fullname (E m) (dem_name c))]
                 = E (def_variable s (sup_name c) [name1 (fullname m (dem_name c))])).
    { apply def_variable_nm; [exact Hb|]. cbn [map]. now rewrite (name1_emb _ m (dem_name c) Hm (dem_lit _ _)). }
    rewrite E1. f_equal. f_equal.
    set (s1 := def_variable s (sup_name c) [name1 (fullname m (dem_name c))]).
    assert (Hs1 : G s1) by (eapply (G_frame M mcode G Hok); [|exact Hs]; reflexivity).
    rewrite <- (def_variable_emb M mcode G Hok). rewrite (sup_own m c Hm Hc).
    cbn [map]. rewrite (name1_emb _ s1 (sup_name c) Hs1); [reflexivity|].
    change (is_market s1) with (is_market s). now rewrite Hb.
  - rewrite (has_var_lit M mcode G Hok) by reflexivity. destruct (has_var s (dem_name c)).
    + rewrite (add_term_dem_emb c m s Hs Hb).
      destruct (add_term_to_eq m (dem_name c) (name1 (fullname s (dem_name c)))); reflexivity.
    + rewrite (has_var_lit M mcode G Hok) by reflexivity. destruct (has_var s "F"); [|reflexivity].
      assert (E1 : def_variable (E s) (dem_name c) [name1 (fullname (E s) "F")]
                   = E (def_variable s (dem_name c) [name1 (fullname s "F")])).
      { apply def_variable_nm; [exact Hb|]. cbn [map]. rewrite (name1_emb _ s "F" Hs); [reflexivity|].
        now apply (N_lit M mcode G Hok). }
      rewrite E1.
      set (s1 := def_variable s (dem_name c) [name1 (fullname s "F")]).
      assert (Hs1 : G s1) by (eapply (G_frame M mcode G Hok); [|exact Hs]; reflexivity).
      rewrite (add_term_dem_emb c m s1 Hs1 Hb).
      destruct (add_term_to_eq m (dem_name c) (name1 (fullname s1 (dem_name c)))); reflexivity.
Qed.

Lemma money_loop_emb c issuer l : Forall G l -> forall m, G m -> code m = c ->
  money_loop c issuer (E m) (map E l)
  = rmap (fun mr => (E (fst mr), map E (snd mr))) (money_loop c issuer m l).
Proof.
  intros HG. induction l as [|s r IH]; intros m Hm Hc; [reflexivity|].
  pose proof (Forall_inv HG) as Hs. pose proof (Forall_inv_tail HG) as Hrest. cbn [map money_loop].
  rewrite (money_step_emb c issuer m s Hm Hc Hs).
  destruct (money_step c issuer m s) as [[m1 s1]|e] eqn:E1; cbn [rmap bind fst snd]; [|reflexivity].
  apply money_step_frame in E1. destruct E1 as (Hf1 & _).
  rewrite (IH Hrest m1); [|eapply (G_frame M mcode G Hok); eauto|rewrite (frame_code _ _ Hf1); exact Hc].
  destruct (money_loop c issuer m1 r) as [[m2 r2]|e]; reflexivity.
Qed.

Lemma money_loop_frame c issuer l : forall m m' l', money_loop c issuer m l = Ok (m', l') -> frame m m'.
Proof.
  induction l as [|s r IH]; intros m m' l' H; cbn [money_loop] in H.
  - inversion H. apply frame_refl.
  - destruct (money_step c issuer m s) as [[m1 s1]|e] eqn:E1; [|discriminate]. cbn [bind fst snd] in H.
    destruct (money_loop c issuer m1 r) as [[m2 r2]|e] eqn:E2; [|discriminate]. cbn [bind fst snd] in H.
    inversion H; subst. apply money_step_frame in E1. eapply frame_trans; [apply E1|eapply IH; exact E2].
Qed.

Lemma Forall_split_sid mk Z pre m post : split_sid mk Z = Some (pre, m, post) -> Forall G Z ->
  Forall G pre /\ G m /\ Forall G post.
Proof.
  intros Hsp HG. apply split_sid_app in Hsp. destruct Hsp as (-> & _).
  apply Forall_app in HG. destruct HG as (H1 & H2). inversion H2; subst. auto.
Qed.

Lemma money_generate_emb_with c issuer mk Z : Forall G Z ->
  (forall m, find_sec mk Z = Some m -> code m = c) ->
  money_generate c issuer (mk + off) (map E Z) = rmap (map E) (money_generate c issuer mk Z).
Proof.
  intros HG Hcode. unfold money_generate. rewrite (split_sid_emb M (e_FC M)).
  destruct (split_sid mk Z) as [[[pre m] post]|] eqn:Esp; cbn [option_map fst snd]; [|reflexivity].
  destruct (Forall_split_sid _ _ _ _ _ Esp HG) as (Hpre & Hm & Hpost).
  assert (Hc : code m = c) by (apply Hcode; eapply split_sid_find; eauto).
  rewrite hasF_emb. destruct (hasF m); [reflexivity|].
  assert (E0 : add_variable (E m) (dem_name c) "" = E (add_variable m (dem_name c) "")).
  { rewrite <- (add_variable_emb M mcode G Hok). now rewrite dem_lit, (T_nil M mcode G Hok). }
  rewrite E0. set (m0 := add_variable m (dem_name c) "").
  assert (Hm0 : G m0) by (eapply (G_frame M mcode G Hok); [|exact Hm]; reflexivity).
  rewrite (money_loop_emb c issuer pre Hpre m0 Hm0 Hc).
  destruct (money_loop c issuer m0 pre) as [[m1 pre']|e] eqn:E1; cbn [rmap bind fst snd]; [|reflexivity].
  apply money_loop_frame in E1.
  rewrite (money_loop_emb c issuer post Hpost m1); [|eapply (G_frame M mcode G Hok); eauto|].
  2:{ rewrite (frame_code _ _ E1). exact Hc. }
  destruct (money_loop c issuer m1 post) as [[m2 post']|e]; cbn [rmap bind fst snd]; [|reflexivity].
  f_equal. rewrite map_app. reflexivity.
Qed.

Lemma filter_len_emb (p p' : sector -> bool) Z : (forall s, p' (E s) = p s) ->
  List.length (filter p' (map E Z)) = List.length (filter p Z).
Proof. intros H. rewrite (filter_emb M (e_FC M) p p') by (intros; apply H). apply map_length. Qed.

Theorem money_generate_checked_emb_with c issuer mk Z : Forall G Z ->
  (forall m, find_sec mk Z = Some m -> code m = c) ->
  money_generate_checked c issuer (mk + off) (map E Z) = rmap (map E) (money_generate_checked c issuer mk Z).
Proof.
  intros HG Hcode. unfold money_generate_checked. rewrite (split_sid_emb M (e_FC M)).
  destruct (split_sid mk Z) as [[[pre m] post]|]; cbn [option_map fst snd]; [|reflexivity].
  rewrite hasF_emb. destruct (hasF m); [reflexivity|].
  rewrite (filter_len_emb (money_issuer issuer) (money_issuer issuer)) by (intros; reflexivity).
  destruct (Nat.eqb (List.length (filter (money_issuer issuer) Z)) 1); [|reflexivity].
  now apply money_generate_emb_with.
Qed.

(* ------------------------------------------------------------------ *)
(** * The deposit market *)

Lemma acf_def_frame s t d inc s' : add_cash_flow_def s t d inc = Some s' -> frame s s'.
Proof.
  unfold add_cash_flow_def. destruct (add_cash_flow s t None inc) as [s2|] eqn:E2; [|discriminate].
  cbn [option_map]. intros H. inversion H. apply acf_none_frame in E2.
  eapply frame_trans; [exact E2|]. unfold install_def.
  destruct (lookup_var _ (vars s2)) as [e|]; [destruct (renders_empty e)|]; try apply frame_refl; reflexivity.
Qed.

Lemma deposit_out_emb c issuer m s : G m -> code m = c -> G s ->
  deposit_out c issuer (fullcode (E m)) (E s) = option_map E (deposit_out c issuer (fullcode m) s).
Proof.
  intros Hm Hc Hs. unfold deposit_out. rewrite is_market_emb.
  destruct (is_market s) eqn:Hb; [reflexivity|]. rewrite code_emb.
  assert (Hn : forall n, N (is_market s) n = n) by (intros n; now rewrite Hb).
  destruct (String.eqb (code s) issuer).
  - set (s1 := def_variable s (sup_name c) [name1 (fullcode m ++ "__" ++ dem_name c)]).
    assert (E1 : def_variable (E s) (sup_name c) [name1 (fullcode (E m) ++ "__" ++ dem_name c)] = E s1).
    { apply def_variable_nm; [exact Hb|]. cbn [map].
      f_equal. exact (name1_emb false m (dem_name c) Hm (dem_lit _ _)). }
    rewrite E1.
    set (s2 := add_variable s1 (lag_sup_name c) (lag_text (fullname s (sup_name c)))).
    assert (E2 : add_variable (E s1) (lag_sup_name c) (lag_text (fullname (E s) (sup_name c))) = E s2).
    { apply add_variable_nm; [exact Hb|]. apply lag_text_emb; [exact Hs|now apply (idstr_sup m)|apply Hn]. }
    rewrite E2.
    assert (Hs2 : G s2) by (eapply (G_frame M mcode G Hok); [|exact Hs]; reflexivity).
    pose proof (add_cash_flow_def_emb M mcode G Hok (e_FC M) s2 (-1)%Z (int_name c)
                  (int_def (fullcode m) (fullname s (lag_sup_name c))) true
                  (excl_fixed_G M mcode G Hok s2 Hs2) (int_dd m c Hm Hc)) as HA.
    change (is_market s2) with (is_market s) in HA. rewrite Hb in HA.
    rewrite (ok_L_local _ _ _ Hok false _ (int_dd m c Hm Hc)) in HA. cbn [e_N] in HA.
    rewrite (int_def_emb false m s (lag_sup_name c) Hm Hs (Hn _)) in HA. exact HA.
  - rewrite (has_var_lit M mcode G Hok) by reflexivity. destruct (has_var s (dem_name c)); [|reflexivity].
    set (s1 := add_variable s (lag_dem_name c) (lag_text (fullname s (dem_name c)))).
    assert (E1 : add_variable (E s) (lag_dem_name c) (lag_text (fullname (E s) (dem_name c))) = E s1).
    { apply add_variable_nm; [exact Hb|]. apply lag_text_emb; [exact Hs|now apply (idstr_dem m)|apply Hn]. }
    rewrite E1.
    assert (Hs1 : G s1) by (eapply (G_frame M mcode G Hok); [|exact Hs]; reflexivity).
    pose proof (add_cash_flow_def_emb M mcode G Hok (e_FC M) s1 1%Z (int_name c)
                  (int_def (fullcode m) (fullname s (lag_dem_name c))) true
                  (excl_fixed_G M mcode G Hok s1 Hs1) (int_dd m c Hm Hc)) as HA.
    change (is_market s1) with (is_market s) in HA. rewrite Hb in HA.
    rewrite (ok_L_local _ _ _ Hok false _ (int_dd m c Hm Hc)) in HA. cbn [e_N] in HA.
    rewrite (int_def_emb false m s (lag_dem_name c) Hm Hs (Hn _)) in HA. exact HA.
Qed.

Definition emb_dstate (b : bool) (x : sector * sector * list term) : sector * sector * list term :=
  (E (fst (fst x)), E (snd (fst x)), map (emb_term M b) (snd x)).

Lemma deposit_step_frame c issuer m s acc m1 s1 acc1 :
  deposit_step c issuer m s acc = Ok (m1, s1, acc1) -> frame m m1.
Proof.
  unfold deposit_step. destruct (is_market s); [intros H; inversion H; apply frame_refl|].
  destruct (String.eqb (code s) issuer).
  - destruct (has_var m (dem_name c) && has_var m "LAG_r"); [|discriminate].
    destruct (deposit_out c issuer (fullcode m) s); [|discriminate]. cbn [of_option bind].
    intros H; inversion H. reflexivity.
  - destruct (has_var s (dem_name c)); [|intros H; inversion H; apply frame_refl].
    destruct (has_var m "LAG_r"); [|discriminate].
    destruct (deposit_out c issuer (fullcode m) s); [|discriminate]. cbn [of_option bind].
    intros H; inversion H. apply frame_refl.
Qed.

Lemma deposit_step_emb c issuer m s acc : G m -> code m = c -> G s ->
  deposit_step c issuer (E m) (E s) (map (emb_term M (is_market m)) acc)
  = rmap (emb_dstate (is_market m)) (deposit_step c issuer m s acc).
Proof.
  intros Hm Hc Hs. unfold deposit_step. rewrite is_market_emb.
  destruct (is_market s) eqn:Hb; [reflexivity|]. rewrite code_emb.
  destruct (String.eqb (code s) issuer).
  - rewrite !(has_var_lit M mcode G Hok) by reflexivity.
    destruct (has_var m (dem_name c) && has_var m "LAG_r"); [|reflexivity].
    rewrite (deposit_out_emb c issuer m s Hm Hc Hs).
    destruct (deposit_out c issuer (fullcode m) s) as [s3|]; cbn [option_map of_option bind rmap]; [|reflexivity].
    unfold emb_dstate. cbn [fst snd]. f_equal. f_equal. f_equal.
    rewrite <- (def_variable_emb M mcode G Hok). rewrite (sup_own m c Hm Hc).
    cbn [map]. rewrite (name1_emb _ s (sup_name c) Hs); [reflexivity|now rewrite Hb].
  - rewrite (has_var_lit M mcode G Hok) by reflexivity. destruct (has_var s (dem_name c)); [|reflexivity].
    rewrite (has_var_lit M mcode G Hok) by reflexivity. destruct (has_var m "LAG_r"); [|reflexivity].
    rewrite (deposit_out_emb c issuer m s Hm Hc Hs).
    destruct (deposit_out c issuer (fullcode m) s) as [s2|]; cbn [option_map of_option bind rmap]; [|reflexivity].
    unfold emb_dstate. cbn [fst snd]. f_equal. f_equal. rewrite map_app. f_equal. cbn [map]. unfold holder_term.
    rewrite (name1_emb _ s (dem_name c) Hs (dem_lit _ _)). reflexivity.
Qed.

Definition emb_lstate (b : bool) (x : sector * list sector * list term) : sector * list sector * list term :=
  (E (fst (fst x)), map E (snd (fst x)), map (emb_term M b) (snd x)).

Lemma deposit_loop_emb c b issuer l : Forall G l -> forall m acc, G m -> code m = c -> is_market m = b ->
  deposit_loop c issuer (E m) (map E l) (map (emb_term M b) acc)
  = rmap (emb_lstate b) (deposit_loop c issuer m l acc).
Proof.
  intros HG. induction l as [|s r IH]; intros m acc Hm Hc Hbm; [reflexivity|].
  pose proof (Forall_inv HG) as Hs. pose proof (Forall_inv_tail HG) as Hrest. subst b. cbn [map deposit_loop].
  rewrite (deposit_step_emb c issuer m s acc Hm Hc Hs).
  destruct (deposit_step c issuer m s acc) as [[[m1 s1] acc1]|e] eqn:E1; cbn [rmap bind]; [|reflexivity].
  unfold emb_dstate at 1. cbn [fst snd].
  apply deposit_step_frame in E1.
  rewrite (IH Hrest m1 acc1);
    [|eapply (G_frame M mcode G Hok); eauto|rewrite (frame_code _ _ E1); exact Hc|apply (is_market_frame _ _ E1)].
  destruct (deposit_loop c issuer m1 r acc1) as [[[m2 r2] acc2]|e]; reflexivity.
Qed.

Lemma deposit_loop_frame c issuer l : forall m acc m' l' acc',
  deposit_loop c issuer m l acc = Ok (m', l', acc') -> frame m m'.
Proof.
  induction l as [|s r IH]; intros m acc m' l' acc' H; cbn [deposit_loop] in H.
  - inversion H. apply frame_refl.
  - destruct (deposit_step c issuer m s acc) as [[[m1 s1] acc1]|e] eqn:E1; [|discriminate]. cbn [bind] in H.
    destruct (deposit_loop c issuer m1 r acc1) as [[[m2 r2] acc2]|e] eqn:E2; [|discriminate]. cbn [bind] in H.
    inversion H; subst. apply deposit_step_frame in E1. eapply frame_trans; [apply E1|eapply IH; exact E2].
Qed.

Lemma deposit_generate_emb_with c issuer mk Z : Forall G Z ->
  (forall m, find_sec mk Z = Some m -> code m = c) ->
  deposit_generate c issuer (mk + off) (map E Z) = rmap (map E) (deposit_generate c issuer mk Z).
Proof.
  intros HG Hcode. unfold deposit_generate. rewrite (split_sid_emb M (e_FC M)).
  destruct (split_sid mk Z) as [[[pre m] post]|] eqn:Esp; cbn [option_map fst snd]; [|reflexivity].
  destruct (Forall_split_sid _ _ _ _ _ Esp HG) as (Hpre & Hm & Hpost).
  assert (Hc : code m = c) by (apply Hcode; eapply split_sid_find; eauto).
  rewrite is_market_emb. destruct (is_market m) eqn:Hbm; cbn [negb]; [|reflexivity].
  change (@nil term) with (map (emb_term M true) []) at 1.
  rewrite (deposit_loop_emb c true issuer pre Hpre m [] Hm Hc Hbm).
  destruct (deposit_loop c issuer m pre []) as [[[m1 pre'] acc1]|e] eqn:E1; cbn [rmap bind]; [|reflexivity].
  unfold emb_lstate at 1. cbn [fst snd]. apply deposit_loop_frame in E1.
  assert (Hm1 : G m1) by (eapply (G_frame M mcode G Hok); eauto).
  rewrite (deposit_loop_emb c true issuer post Hpost m1 acc1 Hm1);
    [|rewrite (frame_code _ _ E1); exact Hc|rewrite (is_market_frame _ _ E1); exact Hbm].
  destruct (deposit_loop c issuer m1 post acc1) as [[[m2 post'] acc2]|e] eqn:E2; cbn [rmap bind]; [|reflexivity].
  unfold emb_lstate. cbn [fst snd]. f_equal. rewrite map_app. f_equal. cbn [map]. f_equal.
  apply deposit_loop_frame in E2.
  rewrite <- (def_variable_emb M mcode G Hok).
  rewrite (is_market_frame _ _ E2), (is_market_frame _ _ E1), Hbm. now rewrite dem_lit.
Qed.

Theorem deposit_generate_checked_emb_with c issuer mk Z : Forall G Z ->
  (forall m, find_sec mk Z = Some m -> code m = c) ->
  deposit_generate_checked c issuer (mk + off) (map E Z) = rmap (map E) (deposit_generate_checked c issuer mk Z).
Proof.
  intros HG Hcode. unfold deposit_generate_checked. rewrite (split_sid_emb M (e_FC M)).
  destruct (split_sid mk Z) as [[[pre m] post]|]; cbn [option_map fst snd]; [|reflexivity].
  rewrite is_market_emb. destruct (negb (is_market m)); [reflexivity|].
  rewrite (filter_len_emb (dep_issuer issuer) (dep_issuer issuer)) by (intros; reflexivity).
  destruct (Nat.eqb (List.length (filter (dep_issuer issuer) Z)) 1); [|reflexivity].
  now apply deposit_generate_emb_with.
Qed.

End AssetEmb.

(* ------------------------------------------------------------------ *)
(** * Statements with [emb M] *)

Section Final.
Variables (M : emap) (mcode : string -> Prop) (G : sector -> Prop).
Hypothesis Hok : emap_ok M mcode G.
Notation E := (emb M).
Notation off := (e_off M).

Theorem money_generate_emb c issuer mk Z : Forall G Z ->
  (forall m, find_sec mk Z = Some m -> code m = c) ->
  money_generate c issuer (mk + off) (map E Z) = rmap (map E) (money_generate c issuer mk Z).
Proof. exact (money_generate_emb_with M mcode G Hok c issuer mk Z). Qed.

Theorem money_generate_checked_emb c issuer mk Z : Forall G Z ->
  (forall m, find_sec mk Z = Some m -> code m = c) ->
  money_generate_checked c issuer (mk + off) (map E Z) = rmap (map E) (money_generate_checked c issuer mk Z).
Proof. exact (money_generate_checked_emb_with M mcode G Hok c issuer mk Z). Qed.

Theorem deposit_generate_emb c issuer mk Z : Forall G Z ->
  (forall m, find_sec mk Z = Some m -> code m = c) ->
  deposit_generate c issuer (mk + off) (map E Z) = rmap (map E) (deposit_generate c issuer mk Z).
Proof. exact (deposit_generate_emb_with M mcode G Hok c issuer mk Z). Qed.

Theorem deposit_generate_checked_emb c issuer mk Z : Forall G Z ->
  (forall m, find_sec mk Z = Some m -> code m = c) ->
  deposit_generate_checked c issuer (mk + off) (map E Z) = rmap (map E) (deposit_generate_checked c issuer mk Z).
Proof. exact (deposit_generate_checked_emb_with M mcode G Hok c issuer mk Z). Qed.

End Final.
