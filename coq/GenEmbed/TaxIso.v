(** C18, third sentence, for TAXES and DIVIDENDS in the multi-currency pipeline model [Main2.build_run2]:
    "Sectors of one currency zone are never taxed by ... another zone unless a flow ... is explicitly
    declared."  (The market part is GenClear2.PropClear2.Main2_market_zone_isolation.)

    Both theorems are facts about the step itself: they hold for EVERY program of [program2] whose model
    run succeeds, without side condition, and describe the step as an exact list computation:

    - a TaxFlow step is [Tax.tax_generate] run on [filter inz Z], the sectors of the tax flow's OWN
      currency zone in Model.GetSectors() order, written back in place ([put_back_p]).  So the taxed
      sectors are exactly [filter (is_payer i) (filter inz Z)], the recipient is looked up in
      [filter inz Z] only, and every sector of another zone is the same record at the same position;
    - a FixedMarginBusiness step is [Dividends.firm_generate] run on the sectors of the firm's own
      COUNTRY; the dividend receiver is the first [candidate] of that list and every sector of another
      country is the same record at the same position.

    Vocabulary: [sector_steps], [pay_tax], [self_update], [receive_tax], [tax_terms], [count_code] of
    GenTax/Tax.v + TaxProofs.v; [resrel], [payrel], [candidate], [receive_div] of GenTax/Dividends.v +
    DividendProofs.v.  This file imports no other file of SFC.GenEmbed and nothing of SFC.GenClear2. *)
From Coq Require Import List String Bool ZArith Arith Lia.
From SFC.Base Require Import Res Str Sorting.
From SFC.Gen Require Import Fx Zone.
From SFC.GenMarket Require Import Market.
From SFC.GenTax Require Import Tax Dividends TaxProofs DividendProofs.
From SFC.GenMain2 Require Import Program Classes Main MainProofs Program2 Main2 MainProofs2 Names2 Witness2.
Import ListNotations.
Local Open Scope string_scope.
Local Open Scope list_scope.

(* ------------------------------------------------------------------ *)
(** * From the trace to the step *)

Lemma chain_In {A B} (f : A -> B -> result A) tr a a' : chain f tr a a' ->
  forall b s s', List.In (b, s, s') tr -> f s b = Ok s'.
Proof.
  intros C. induction C as [a0|b0 a0 a1 tr a2 E C IH]; intros b s s' Hx; [contradiction|].
  destruct Hx as [Hx|Hx]; [|now apply IH]. injection Hx as <- <- <-. exact E.
Qed.

Lemma gen_entry_step p Rn : build_run2 p = Ok Rn ->
  forall ik st st', List.In (ik, st, st') (q_gen Rn) -> gen_step2 (q_info Rn) st ik = Ok st'.
Proof.
  intros HR ik st st' Hx.
  destruct (build_run2_inv _ _ HR) as (k & _ & HM).
  destruct (main_run2_inv _ _ HM) as (gfin & Z1 & _ & _ & C1 & _).
  exact (chain_In _ _ _ _ C1 _ _ _ Hx).
Qed.

(* ------------------------------------------------------------------ *)
(** * [put_back_p]: the selected positions get the new states, all others keep theirs *)

Lemma put_back_p_outside (q : sector -> bool) : forall Z C k s,
  nth_error Z k = Some s -> q s = false -> nth_error (put_back_p q C Z) k = Some s.
Proof.
  induction Z as [|a r IH]; intros C k s Hk Hq; [destruct k; discriminate|].
  destruct k as [|k]; simpl in Hk.
  - injection Hk as ->. simpl. now rewrite Hq.
  - simpl. destruct (q a); [destruct C as [|c C']|]; simpl; now apply IH.
Qed.

Lemma put_back_p_length (q : sector -> bool) : forall Z C, List.length (put_back_p q C Z) = List.length Z.
Proof.
  induction Z as [|a r IH]; intros C; [reflexivity|].
  simpl. destruct (q a); [destruct C as [|c C']|]; simpl; now rewrite IH.
Qed.

(** when the new states are still selected (the selection reads the country only), the selected
    sub-list afterwards is the list of new states *)
Lemma put_back_p_filter (q : sector -> bool) : forall Z C,
  Forall2 (fun s c => q c = q s) (filter q Z) C -> filter q (put_back_p q C Z) = C.
Proof.
  induction Z as [|a r IH]; intros C HF; simpl in *; [now inversion HF|].
  destruct (q a) eqn:Qa.
  - inversion HF as [|x c l C' Hc HF']; subst. simpl. rewrite Hc, Qa. f_equal. now apply IH.
  - simpl. rewrite Qa. now apply IH.
Qed.

Lemma frame_country s s' : frame s s' -> country s' = country s.
Proof. intros H; rewrite H; reflexivity. Qed.

Lemma in_zone_frame_eq cs c s s' : frame s s' -> in_zone cs c s' = in_zone cs c s.
Proof. intros H. unfold in_zone. now rewrite (frame_country _ _ H). Qed.

Lemma in_country_frame_eq cc s s' : frame s s' -> in_country cc s' = in_country cc s.
Proof. intros H. unfold in_country. now rewrite (frame_country _ _ H). Qed.

Lemma find_in_filter {A} (c q : A -> bool) l a : find c l = Some a -> q a = true -> find c (filter q l) = Some a.
Proof.
  induction l as [|x l IH]; simpl; [discriminate|]. intros H Q.
  destruct (c x) eqn:Cx.
  - injection H as ->. rewrite Q. simpl. now rewrite Cx.
  - destruct (q x); [simpl; rewrite Cx|]; now apply IH.
Qed.

Lemma Forall2_length_eq {A B} (P : A -> B -> Prop) l l' : Forall2 P l l' -> List.length l' = List.length l.
Proof. induction 1; simpl; congruence. Qed.

Lemma on_part_inv (q : sector -> bool) f Z Z' : on_part q f Z = Ok Z' ->
  exists C', f (filter q Z) = Ok C' /\ Z' = put_back_p q C' Z.
Proof.
  unfold on_part. destruct (f (filter q Z)) as [C'|e]; [|discriminate]. simpl.
  intros H. injection H as <-. exists C'. split; reflexivity.
Qed.

(* ------------------------------------------------------------------ *)
(** * Tax flow *)

(** what TaxFlow._GenerateEquations of the tax flow [tf] (ID [i], rate text [rt], recipient code [pt]),
    run on the list [Zz], does to the sector [s] of [Zz]; [s'] is the sector afterwards *)
Definition taxed_as (i : nat) (rt pt : string) (tf : sector) (Zz : zone) (s s' : sector) : Prop :=
  let rm := vname tf "TaxRate" in
  let recv (x : sector) := if code_is pt s then receive_tax (vname tf "T") x else Ok x in
  if is_payer i s then exists s1, pay_tax rm s = Ok s1 /\ recv s1 = Ok s'
  else if sid_is i s then exists s2, self_update rt (tax_terms i rm Zz) s = Ok s2 /\ recv s2 = Ok s'
  else recv s = Ok s'.

Lemma sector_steps_taxed_as i rt pt tf Zz s s' :
  sector_steps i rt pt (vname tf "TaxRate") (tax_terms i (vname tf "TaxRate") Zz) (vname tf "T") s s' ->
  taxed_as i rt pt tf Zz s s'.
Proof.
  intros (s1 & s2 & H1 & H2 & H3). unfold taxed_as.
  pose proof (step1_frame _ _ _ _ H1) as F1. pose proof (step2_frame _ _ _ _ _ H2) as F2.
  assert (Ec : code_is pt s2 = code_is pt s).
  { unfold code_is. now rewrite (frame_code _ _ F2), (frame_code _ _ F1). }
  rewrite Ec in H3.
  destruct (is_payer i s) eqn:Hp.
  - assert (Hs : sid_is i s1 = false).
    { unfold sid_is. rewrite (frame_sid _ _ F1). unfold is_payer in Hp.
      destruct (Nat.eqb (sid s) i); [discriminate|reflexivity]. }
    rewrite Hs in H2. injection H2 as <-. exists s1. split; assumption.
  - injection H1 as <-. destruct (sid_is i s).
    + exists s2. split; assumption.
    + injection H2 as <-. exact H3.
Qed.

Lemma taxed_as_bystander i rt pt tf Zz s s' : taxed_as i rt pt tf Zz s s' ->
  is_payer i s = false -> sid_is i s = false -> code_is pt s = false -> s' = s.
Proof. unfold taxed_as. intros H Hp Hs Hc. rewrite Hp, Hs, Hc in H. now injection H. Qed.

Theorem main2_tax_zone_isolation : forall p Rn, build_run2 p = Ok Rn ->
  forall i rate paid_to st st' tf,
    List.In ((i, COld (CTaxFlow rate paid_to)), st, st') (q_gen Rn) ->
    find_sec i (h_zone st) = Some tf ->
    let J := q_info Rn in
    let Z := h_zone st in
    let inz := in_zone (j_countries J) (cur_of_sec J tf) in
    let Zz := filter inz Z in
    let payers := filter (is_payer i) Zz in
    exists Zz',
      (* the step is TaxFlow._GenerateEquations on the tax flow's own currency zone, written back in place *)
      tax_generate i rate paid_to Zz = Ok Zz' /\
      h_zone st' = put_back_p inz Zz' Z /\ List.length Zz' = List.length Zz /\ filter inz (h_zone st') = Zz' /\
      find (sid_is i) Zz = Some tf /\
      (* (a) position by position: the sectors taxed ([pay_tax]) are exactly [payers], the taxable sectors
             of the zone other than the tax flow; the tax flow's T is the sum over [payers], in zone order *)
      Forall2 (sector_steps i rate paid_to (vname tf "TaxRate") (tax_terms i (vname tf "TaxRate") Zz) (vname tf "T")) Zz Zz' /\
      Forall2 (taxed_as i rate paid_to tf Zz) Zz Zz' /\
      Forall2 (fun s s' => is_payer i s = false -> sid_is i s = false -> code_is paid_to s = false -> s' = s) Zz Zz' /\
      (forall tf', List.In tf' Zz' -> sid_is i tf' = true -> code_is paid_to tf' = false ->
         lookup_var "T" (vars tf') = Some (mkEqn "" (map (tax_term (vname tf "TaxRate")) payers))) /\
      (forall s, List.In s payers <-> List.In s Z /\ inz s = true /\ sid s <> i /\ taxable s = true) /\
      (* (b) the recipient is looked up in the zone only: exactly one sector of the zone has that code *)
      count_code paid_to Zz = 1%nat /\
      (* (c) a sector of another currency zone is the same record at the same position *)
      (forall k s, nth_error Z k = Some s -> inz s = false -> nth_error (h_zone st') k = Some s) /\
      List.length (h_zone st') = List.length Z /\
      (* (d) *)
      h_flows st' = h_flows st /\ h_ic st' = h_ic st.
Proof.
  intros p Rn HR i rate paid_to st st' tf Hin Hf J Z inz Zz payers.
  pose proof (gen_entry_step _ _ HR _ _ _ Hin) as HS. fold J in HS.
  unfold gen_step2 in HS. fold Z in HS. unfold Z in Hf. fold Z in Hf. rewrite Hf in HS. fold inz in HS.
  destruct (on_part inz (tax_generate i rate paid_to) Z) as [Z'|e] eqn:HP; [|discriminate].
  simpl in HS. injection HS as <-. cbn [h_zone h_flows h_ic].
  apply on_part_inv in HP. destruct HP as (Zz' & HT & ->). fold Zz in HT.
  assert (Itf : inz tf = true) by (unfold inz, in_zone, cur_of_sec; apply String.eqb_refl).
  assert (Hself : find (sid_is i) Zz = Some tf).
  { apply find_in_filter; [exact Hf|exact Itf]. }
  destruct (tax_generate_spec _ _ _ _ _ HT) as (self & Hs & HF & HC).
  rewrite Hself in Hs. injection Hs as <-.
  assert (HFr : Forall2 frame Zz Zz').
  { eapply Forall2_impl; [|exact HF]. intros a b Hab. eapply sector_steps_frame; exact Hab. }
  assert (HTA : Forall2 (taxed_as i rate paid_to tf Zz) Zz Zz').
  { eapply Forall2_impl; [|exact HF]. intros a b Hab. now apply sector_steps_taxed_as. }
  exists Zz'. split; [exact HT|]. split; [reflexivity|].
  split; [exact (Forall2_length_eq _ _ _ HF)|].
  split.
  { apply put_back_p_filter. eapply Forall2_impl; [|exact HFr]. intros a b Hab. now apply in_zone_frame_eq. }
  split; [exact Hself|]. split; [exact HF|]. split; [exact HTA|].
  split.
  { eapply Forall2_impl; [|exact HTA]. intros a b Hab. now apply (taxed_as_bystander _ _ _ _ _ _ _ Hab). }
  split.
  { destruct (tax_members _ _ _ _ _ HT) as (self' & Hs' & HM). rewrite Hself in Hs'. injection Hs' as <-.
    exact HM. }
  split.
  { intros s. unfold payers, Zz. rewrite !filter_In. unfold is_payer. rewrite andb_true_iff, negb_true_iff, Nat.eqb_neq. tauto. }
  split; [exact HC|].
  split; [intros k s Hk Hq; now apply put_back_p_outside|].
  split; [apply put_back_p_length|]. split; reflexivity.
Qed.

(* ------------------------------------------------------------------ *)
(** * Dividends *)

(** what the step does to a sector other than the receiver: the firm's wage-bill resets, then (when
    [paying]) its booking -DIV; a sector other than the firm is returned as it is ([firm_own_other]) *)
Definition firm_own (i : nat) (rs : list (string * string)) (paying : bool) (s s' : sector) : Prop :=
  exists s1, resrel i rs s s1 /\ (if paying then payrel i s1 s' else s' = s1).

Lemma firm_own_other i rs paying s s' : firm_own i rs paying s s' -> sid_is i s = false -> s' = s.
Proof.
  intros (s1 & H1 & H2) Hs. apply (resrel_id _ _ _ _ Hs) in H1. subst s1.
  destruct paying; [exact (payrel_id _ _ _ Hs H2)|exact H2].
Qed.

Lemma firm_own_frame i rs paying s s' : firm_own i rs paying s s' -> frame s s'.
Proof.
  intros (s1 & H1 & H2). eapply frame_trans; [eapply resrel_frame; exact H1|].
  destruct paying; [eapply payrel_frame; exact H2|subst; apply frame_refl].
Qed.

Lemma resrel_candidate bizs i rs s s1 : resrel i rs s s1 -> candidate bizs i s1 = candidate bizs i s.
Proof.
  intros H. unfold candidate, is_biz.
  now rewrite (frame_sid _ _ (resrel_frame _ _ _ _ H)), (resrel_has _ _ _ _ "DIV" H).
Qed.

Lemma candidate_not_self bizs i s : candidate bizs i s = true -> sid_is i s = false.
Proof.
  unfold candidate, is_biz, sid_is. destruct (Nat.eqb (sid s) i); [discriminate|reflexivity].
Qed.

Lemma existsb_Forall2 {A} (P : A -> A -> Prop) (c : A -> bool) l l' :
  Forall2 P l l' -> (forall x y, P x y -> c y = c x) -> existsb c l' = existsb c l.
Proof. intros HF Hc. induction HF as [|x y l l' Hxy _ IH]; simpl; [reflexivity|]. now rewrite (Hc _ _ Hxy), IH. Qed.

Lemma forallb_Forall2 {A} (P : A -> A -> Prop) (c : A -> bool) l l' :
  Forall2 P l l' -> (forall x y, P x y -> c y = c x) -> forallb c l' = forallb c l.
Proof. intros HF Hc. induction HF as [|x y l l' Hxy _ IH]; simpl; [reflexivity|]. now rewrite (Hc _ _ Hxy), IH. Qed.

Lemma find_none_existsb {A} (c : A -> bool) l : find c l = None -> existsb c l = false.
Proof. induction l as [|x l IH]; simpl; [reflexivity|]. destruct (c x); [discriminate|exact IH]. Qed.

(** [firm_generate] on any list: the receiver, if any, is the first [candidate] of the list *)
Lemma firm_generate_receiver bizs i rs C C' self :
  firm_generate bizs (i, rs) C = Ok C' -> find (sid_is i) C = Some self ->
  match find (candidate bizs i) C with
  | None => Forall2 (resrel i rs) C C'
  | Some r =>
      exists pre post pre' r' post',
        C = pre ++ r :: post /\ forallb (fun s => negb (candidate bizs i s)) pre = true /\ candidate bizs i r = true /\
        C' = pre' ++ r' :: post' /\
        Forall2 (firm_own i rs true) pre pre' /\ Forall2 (firm_own i rs true) post post' /\
        receive_div false (vname self "PROF") r = Ok r'
  end.
Proof.
  unfold firm_generate. cbn [fst snd]. intros H Hself.
  destruct (update_where (sid_is i) (apply_resets rs) C) as [C1|e] eqn:HU; [|discriminate]. simpl in H.
  apply update_where_spec in HU. fold (resrel i rs) in HU.
  assert (Hcand : forall x y, resrel i rs x y -> candidate bizs i y = candidate bizs i x)
    by (intros x y Hxy; eapply resrel_candidate; exact Hxy).
  unfold div_step in H. rewrite (existsb_Forall2 _ (candidate bizs i) _ _ HU Hcand) in H.
  destruct (find (candidate bizs i) C) as [r|] eqn:Hr.
  - rewrite (find_existsb _ _ _ Hr) in H.
    destruct (find (sid_is i) C1) as [self1|] eqn:Hs1; [|discriminate].
    destruct (has_var self1 "PROF"); [|discriminate].
    assert (Hsidrel : forall x y, resrel i rs x y -> sid_is i y = sid_is i x).
    { intros x y Hxy. unfold sid_is. now rewrite (frame_sid _ _ (resrel_frame _ _ _ _ Hxy)). }
    destruct (find_Forall2_r _ (sid_is i) _ _ _ HU Hsidrel Hs1) as (self0 & Hs0 & Hss).
    rewrite Hself in Hs0. injection Hs0 as <-.
    rewrite (frame_vname _ _ "PROF" (resrel_frame _ _ _ _ Hss)) in H.
    assert (Hex : existsb (candidate bizs i) C1 = true).
    { rewrite (existsb_Forall2 _ (candidate bizs i) _ _ HU Hcand). eapply find_existsb; exact Hr. }
    destruct (div_pass_spec _ _ _ _ _ _ H Hex)
      as (pre1 & r0 & post1 & pre' & r1 & r' & post' & E1 & E2 & E3 & E4 & E5 & E6 & E7 & E8).
    subst C1. apply Forall2_app_inv_r in HU. destruct HU as (pre & rest & HUp & HUr & ->).
    inversion HUr as [|rr x post l' Hrr HUq]; subst.
    assert (Epre : forallb (fun s => negb (candidate bizs i s)) pre = true).
    { rewrite <- E2. symmetry. apply (forallb_Forall2 (resrel i rs)); [exact HUp|].
      intros x y Hxy. now rewrite (Hcand _ _ Hxy). }
    assert (Err_ : candidate bizs i rr = true) by (rewrite <- (Hcand _ _ Hrr); exact E3).
    pose proof (find_app_first (candidate bizs i) pre rr post Epre Err_) as Hf. rewrite Hr in Hf. injection Hf as <-.
    pose proof (candidate_not_self _ _ _ Err_) as Hns.
    apply (resrel_id _ _ _ _ Hns) in Hrr. subst r0.
    apply (payrel_id _ _ _ Hns) in E6. subst r1.
    exists pre, post, pre', r', post'. repeat split; try assumption.
    + pose proof (Forall2_compose _ _ _ _ _ HUp E5) as HQ. eapply Forall2_impl; [|exact HQ].
      intros a c (b & Ha & Hc). exists b. split; assumption.
    + pose proof (Forall2_compose _ _ _ _ _ HUq E8) as HQ. eapply Forall2_impl; [|exact HQ].
      intros a c (b & Ha & Hc). exists b. split; assumption.
  - rewrite (find_none_existsb _ _ Hr) in H. injection H as <-. exact HU.
Qed.

Lemma firm_generate_frame bizs i rs C C' self :
  firm_generate bizs (i, rs) C = Ok C' -> find (sid_is i) C = Some self -> Forall2 frame C C'.
Proof.
  intros H Hs. pose proof (firm_generate_receiver _ _ _ _ _ _ H Hs) as HR.
  destruct (find (candidate bizs i) C) as [r|].
  - destruct HR as (pre & post & pre' & r' & post' & -> & _ & _ & -> & Hp & Hq & Hrec).
    apply Forall2_app.
    + eapply Forall2_impl; [|exact Hp]. intros a b Hab. eapply firm_own_frame; exact Hab.
    + constructor; [eapply receive_div_frame; exact Hrec|].
      eapply Forall2_impl; [|exact Hq]. intros a b Hab. eapply firm_own_frame; exact Hab.
  - eapply Forall2_impl; [|exact HR]. intros a b Hab. eapply resrel_frame; exact Hab.
Qed.

Theorem main2_dividend_country_isolation : forall p Rn, build_run2 p = Ok Rn ->
  forall i mz wage margin lab out st st' self,
    List.In ((i, COld (CBusiness mz wage margin lab out)), st, st') (q_gen Rn) ->
    find_sec i (h_zone st) = Some self ->
    let J := q_info Rn in
    let Z := h_zone st in
    let inc := in_country (country self) in
    let C := filter inc Z in
    let bizs := biz_ids2 J C in
    exists mk C',
      (* the output market is looked up in the firm's country *)
      find (fun s => String.eqb (code s) out) C = Some mk /\ has_var mk ("SUP_" ++ out) = true /\
      let rs := wage_resets mz wage margin lab (fullcode mk ++ "__" ++ "SUP_" ++ out) in
      (* the step is FixedMarginBusiness._GenerateEquations on the firm's own country, written back in place *)
      firm_generate bizs (i, rs) C = Ok C' /\
      h_zone st' = put_back_p inc C' Z /\ List.length C' = List.length C /\ filter inc (h_zone st') = C' /\
      find (sid_is i) C = Some self /\
      (* the dividend receiver, if any, is the first [candidate] of the firm's COUNTRY; nobody else but the
         firm changes ([firm_own_other]) *)
      match find (candidate bizs i) C with
      | None => Forall2 (resrel i rs) C C'
      | Some r =>
          List.In r Z /\ inc r = true /\
          exists pre post pre' r' post',
            C = pre ++ r :: post /\ forallb (fun s => negb (candidate bizs i s)) pre = true /\ candidate bizs i r = true /\
            C' = pre' ++ r' :: post' /\
            Forall2 (firm_own i rs true) pre pre' /\ Forall2 (firm_own i rs true) post post' /\
            receive_div false (vname self "PROF") r = Ok r'
      end /\
      Forall2 (fun s s' => sid_is i s = false -> find (candidate bizs i) C <> Some s -> s' = s) C C' /\
      (* a sector of another country is the same record at the same position *)
      (forall k s, nth_error Z k = Some s -> inc s = false -> nth_error (h_zone st') k = Some s) /\
      List.length (h_zone st') = List.length Z /\
      h_flows st' = h_flows st /\ h_ic st' = h_ic st.
Proof.
  intros p Rn HR i mz wage margin lab out st st' self Hin Hf J Z inc C bizs.
  pose proof (gen_entry_step _ _ HR _ _ _ Hin) as HS. fold J in HS.
  unfold gen_step2 in HS. fold Z in HS. unfold Z in Hf. fold Z in Hf. rewrite Hf in HS.
  fold inc in HS. fold C in HS. fold bizs in HS.
  destruct (find (fun s => String.eqb (code s) out) C) as [mk|] eqn:Hmk; [|discriminate].
  destruct (has_var mk ("SUP_" ++ out)) eqn:Hsup; [|discriminate].
  set (rs := wage_resets mz wage margin lab (fullcode mk ++ "__" ++ "SUP_" ++ out)) in *.
  destruct (on_part inc (firm_generate bizs (i, rs)) Z) as [Z'|e] eqn:HP; [|discriminate].
  simpl in HS. injection HS as <-. cbn [h_zone h_flows h_ic].
  apply on_part_inv in HP. destruct HP as (C' & HG & ->). fold C in HG.
  assert (Iself : inc self = true) by (unfold inc, in_country; apply String.eqb_refl).
  assert (Hself : find (sid_is i) C = Some self) by (apply find_in_filter; [exact Hf|exact Iself]).
  pose proof (firm_generate_receiver _ _ _ _ _ _ HG Hself) as HRec.
  pose proof (firm_generate_frame _ _ _ _ _ _ HG Hself) as HFr.
  exists mk, C'. split; [reflexivity|]. split; [exact Hsup|]. cbv zeta. fold rs.
  split; [exact HG|]. split; [reflexivity|].
  split; [exact (Forall2_length_eq _ _ _ HFr)|].
  split.
  { apply put_back_p_filter. eapply Forall2_impl; [|exact HFr]. intros a b Hab. now apply in_country_frame_eq. }
  split; [exact Hself|].
  split.
  { destruct (find (candidate bizs i) C) as [r|] eqn:Hr; [|exact HRec].
    apply find_some in Hr. destruct Hr as (Hr & _). unfold C in Hr. apply filter_In in Hr.
    split; [tauto|]. split; [tauto|]. exact HRec. }
  split.
  { destruct (find (candidate bizs i) C) as [r|] eqn:Hr.
    - destruct HRec as (pre & post & pre' & r' & post' & E1 & _ & _ & E4 & Hp & Hq & _).
      rewrite E1, E4. apply Forall2_app.
      + eapply Forall2_impl; [|exact Hp]. intros a b Hab Hs _. eapply firm_own_other; eassumption.
      + constructor; [intros _ Hn; now elim Hn|].
        eapply Forall2_impl; [|exact Hq]. intros a b Hab Hs _. eapply firm_own_other; eassumption.
    - eapply Forall2_impl; [|exact HRec]. intros a b Hab Hs _. eapply resrel_id; eassumption. }
  split; [intros k s Hk Hq; now apply put_back_p_outside|].
  split; [apply put_back_p_length|]. split; reflexivity.
Qed.

(* ------------------------------------------------------------------ *)
(** * Sharpness on the two-zone open economy [Witness2.p_OPEN] *)

Definition OPEN_run : run2 :=
  match build_run2 p_OPEN with Ok r => r | Err _ => mkRun2 (mkI2 [] [] [] None) [] [] [] [] (mkFS [] [] []) end.

(** the _GenerateEquations call of CA's tax flow (sector 3) *)
Definition OPEN_tax_entry : (nat * cls2) * gstate2 * gstate2 :=
  nth 3 (q_gen OPEN_run) ((0%nat, CXR), mkG2 [] [] [], mkG2 [] [] []).

Definition OPEN_tax_Z : zone := h_zone (snd (fst OPEN_tax_entry)).
Definition OPEN_tax_inz : sector -> bool :=
  match find_sec 3 OPEN_tax_Z with
  | Some tf => in_zone (j_countries (q_info OPEN_run)) (cur_of_sec (q_info OPEN_run) tf)
  | None => fun _ => false
  end.

Lemma OPEN_run_ok : build_run2 p_OPEN = Ok OPEN_run.
Proof. vm_compute. reflexivity. Qed.

Lemma OPEN_tax_entry_In : List.In OPEN_tax_entry (q_gen OPEN_run).
Proof. apply (nth_error_In _ 3). vm_compute. reflexivity. Qed.

Definition opt_fullcode (o : option sector) : string := match o with Some s => fullcode s | None => "" end.

(** CA's tax flow taxes CA_HH (sector 1) and not US_HH (sector 10), although US_HH is a taxable sector of
    the model other than the tax flow: it is not in CA's currency zone *)
Example tax_isolation_example_OPEN :
  build_run2 p_OPEN = Ok OPEN_run /\
  List.In OPEN_tax_entry (q_gen OPEN_run) /\ fst (fst OPEN_tax_entry) = (3%nat, COld (CTaxFlow "0.2000" "GOV")) /\
  map (fun j => opt_fullcode (find_sec j OPEN_tax_Z)) [3; 1; 10]%nat = ["CA_TF"; "CA_HH"; "US_HH"] /\
  map sid (filter OPEN_tax_inz OPEN_tax_Z) = [0; 1; 2; 3; 4; 5]%nat /\
  map sid (filter (is_payer 3) (filter OPEN_tax_inz OPEN_tax_Z)) = [1%nat] /\
  map fullcode (filter (is_payer 3) (filter OPEN_tax_inz OPEN_tax_Z)) = ["CA_HH"] /\
  (exists us_hh, find_sec 10 OPEN_tax_Z = Some us_hh /\ fullcode us_hh = "US_HH" /\
     is_payer 3 us_hh = true /\ OPEN_tax_inz us_hh = false /\
     find_sec 10 (h_zone (snd OPEN_tax_entry)) = Some us_hh) /\
  map sid (filter (is_payer 3) OPEN_tax_Z) = [1; 10]%nat.
Proof.
  split; [exact OPEN_run_ok|].
  split; [exact OPEN_tax_entry_In|].
  split; [vm_compute; reflexivity|]. split; [vm_compute; reflexivity|]. split; [vm_compute; reflexivity|].
  split; [vm_compute; reflexivity|]. split; [vm_compute; reflexivity|].
  split; [|vm_compute; reflexivity].
  eexists. split; [vm_compute; reflexivity|].
  split; [vm_compute; reflexivity|]. split; [vm_compute; reflexivity|]. split; vm_compute; reflexivity.
Qed.

(** a variant tax model that scans the whole MODEL instead of the tax flow's currency zone *)
Definition gen_step2_allzones (J : ginfo2) (st : gstate2) (ik : nat * cls2) : result gstate2 :=
  match ik with
  | (i, COld (CTaxFlow rate paid_to)) =>
      match find_sec i (h_zone st) with
      | None => Err OtherError
      | Some _ => do Z' <- tax_generate i rate paid_to (h_zone st) ;; Ok (mkG2 Z' (h_flows st) (h_ic st))
      end
  | _ => gen_step2 J st ik
  end.

(** on the open economy the whole-model reading disagrees with the model (which the correspondence ties to
    the Python): the real step succeeds, the whole-model variant raises LogicError because the codes GOV of
    the two zones collide; and its payer list would contain US_HH *)
Lemma tax_whole_model_refuted :
  build_run2 p_OPEN = Ok OPEN_run /\ List.In OPEN_tax_entry (q_gen OPEN_run) /\
  fst (fst OPEN_tax_entry) = (3%nat, COld (CTaxFlow "0.2000" "GOV")) /\
  gen_step2 (q_info OPEN_run) (snd (fst OPEN_tax_entry)) (fst (fst OPEN_tax_entry)) = Ok (snd OPEN_tax_entry) /\
  gen_step2_allzones (q_info OPEN_run) (snd (fst OPEN_tax_entry)) (fst (fst OPEN_tax_entry)) = Err LogicError /\
  count_code "GOV" OPEN_tax_Z = 2%nat /\ count_code "GOV" (filter OPEN_tax_inz OPEN_tax_Z) = 1%nat /\
  map sid (filter (is_payer 3) OPEN_tax_Z) = [1; 10]%nat /\
  map sid (filter (is_payer 3) (filter OPEN_tax_inz OPEN_tax_Z)) = [1%nat].
Proof.
  split; [exact OPEN_run_ok|].
  split; [exact OPEN_tax_entry_In|].
  split; [vm_compute; reflexivity|]. split; [vm_compute; reflexivity|]. split; [vm_compute; reflexivity|].
  split; [vm_compute; reflexivity|]. split; [vm_compute; reflexivity|]. split; vm_compute; reflexivity.
Qed.

(* ------------------------------------------------------------------ *)
(** * Sharpness for dividends: two countries (two currency zones), each with capitalists and a firm *)

Definition econ_div (ci : nat) : list step2 :=
  [ S2Sector ci "GOV" (COld CGov);
    S2Sector ci "HH" (COld (CHousehold "0.6000" "0.4000" "GOOD" "LAB"));
    S2Sector ci "CAP" (COld (CCapitalists "0.7000" "0.3000" "GOOD"));
    S2Sector ci "BUS" (COld (CBusiness false "0.900" "0.100" "LAB" "GOOD"));
    S2Sector ci "TF" (COld (CTaxFlow "0.2000" "GOV"));
    S2Sector ci "LAB" (COld CMarket);
    S2Sector ci "GOOD" (COld CMarket) ].

Definition p_DIV2 : program2 :=
  ([S2Country "US" None false] ++ econ_div 0 ++ [S2External; S2Country "CA" None false] ++ econ_div 2 ++
   [ S2Op (UOld (OSetExogenous 0 "DEM_GOOD" "[20.0]*40")); S2Op (UOld (OSetExogenous 10 "DEM_GOOD" "[25.0]*40")) ])%list.

Definition DIV2_run : run2 :=
  match build_run2 p_DIV2 with Ok r => r | Err _ => mkRun2 (mkI2 [] [] [] None) [] [] [] [] (mkFS [] [] []) end.

(** the _GenerateEquations call of CA's firm (sector 13) *)
Definition DIV2_entry : (nat * cls2) * gstate2 * gstate2 :=
  nth 13 (q_gen DIV2_run) ((0%nat, CXR), mkG2 [] [] [], mkG2 [] [] []).
Definition DIV2_Z : zone := h_zone (snd (fst DIV2_entry)).
Definition DIV2_C : list sector := filter (in_country "CA") DIV2_Z.

Lemma DIV2_run_ok : build_run2 p_DIV2 = Ok DIV2_run.
Proof. vm_compute. reflexivity. Qed.

Lemma DIV2_entry_In : List.In DIV2_entry (q_gen DIV2_run).
Proof. apply (nth_error_In _ 13). vm_compute. reflexivity. Qed.

(** CA_BUS pays its dividends to CA_CAP (sector 12), the first candidate of ITS country, although US_CAP
    (sector 2) is a candidate that comes first in Model.GetSectors(); US_CAP leaves the step as it entered *)
Example dividend_isolation_example_DIV2 :
  build_run2 p_DIV2 = Ok DIV2_run /\ List.In DIV2_entry (q_gen DIV2_run) /\
  fst (fst DIV2_entry) = (13%nat, COld (CBusiness false "0.900" "0.100" "LAB" "GOOD")) /\
  map fullcode DIV2_C = ["CA_GOV"; "CA_HH"; "CA_CAP"; "CA_BUS"; "CA_TF"; "CA_LAB"; "CA_GOOD"] /\
  biz_ids2 (q_info DIV2_run) DIV2_C = [13%nat] /\
  option_map fullcode (find (candidate (biz_ids2 (q_info DIV2_run) DIV2_C) 13) DIV2_C) = Some "CA_CAP" /\
  option_map fullcode (find (candidate (biz_ids2 (q_info DIV2_run) DIV2_Z) 13) DIV2_Z) = Some "US_CAP" /\
  (exists us_cap, find_sec 2 DIV2_Z = Some us_cap /\ fullcode us_cap = "US_CAP" /\
     in_country "CA" us_cap = false /\ find_sec 2 (h_zone (snd DIV2_entry)) = Some us_cap) /\
  (exists ca_cap ca_cap', find_sec 12 DIV2_Z = Some ca_cap /\ find_sec 12 (h_zone (snd DIV2_entry)) = Some ca_cap' /\
     receive_div false "CA_BUS__PROF" ca_cap = Ok ca_cap').
Proof.
  split; [exact DIV2_run_ok|]. split; [exact DIV2_entry_In|].
  split; [vm_compute; reflexivity|]. split; [vm_compute; reflexivity|]. split; [vm_compute; reflexivity|].
  split; [vm_compute; reflexivity|]. split; [vm_compute; reflexivity|].
  split.
  - eexists. split; [vm_compute; reflexivity|].
    split; [vm_compute; reflexivity|]. split; vm_compute; reflexivity.
  - eexists. eexists. split; [vm_compute; reflexivity|]. split; vm_compute; reflexivity.
Qed.

(** a variant that scans the whole MODEL for the dividend receiver (same wage-bill texts) books the
    dividends of CA_BUS on US_CAP: a different state from the step of the model *)
Definition firm_allcountries (J : ginfo2) (i : nat) (rs : list (string * string)) (Z : zone) : result zone :=
  firm_generate (biz_ids2 J Z) (i, rs) Z.


Definition DIV2_rs : list (string * string) := wage_resets false "0.900" "0.100" "LAB" "CA_GOOD__SUP_GOOD".
Definition DIV2_Zall : zone :=
  match firm_allcountries (q_info DIV2_run) 13 DIV2_rs DIV2_Z with Ok z => z | Err _ => [] end.
Definition div_eqn_of (j : nat) (Z : zone) : option eqn :=
  match find_sec j Z with Some s => lookup_var "DIV" (vars s) | None => None end.

Lemma dividend_whole_model_refuted :
  build_run2 p_DIV2 = Ok DIV2_run /\ List.In DIV2_entry (q_gen DIV2_run) /\
  fst (fst DIV2_entry) = (13%nat, COld (CBusiness false "0.900" "0.100" "LAB" "GOOD")) /\
  (* the step of the model, as in [main2_dividend_country_isolation] *)
  (exists C', firm_generate (biz_ids2 (q_info DIV2_run) DIV2_C) (13%nat, DIV2_rs) DIV2_C = Ok C' /\
              h_zone (snd DIV2_entry) = put_back_p (in_country "CA") C' DIV2_Z) /\
  (* the whole-model variant *)
  firm_allcountries (q_info DIV2_run) 13 DIV2_rs DIV2_Z = Ok DIV2_Zall /\
  (* US_CAP: untouched by the model, credited with CA_BUS's profits by the variant *)
  div_eqn_of 2 DIV2_Z = Some (mkEqn "" [(1%Z, ["US_BUS__PROF"])]) /\
  div_eqn_of 2 (h_zone (snd DIV2_entry)) = Some (mkEqn "" [(1%Z, ["US_BUS__PROF"])]) /\
  div_eqn_of 2 DIV2_Zall = Some (mkEqn "" [(1%Z, ["US_BUS__PROF"]); (1%Z, ["CA_BUS__PROF"])]) /\
  (* CA_CAP: credited by the model, ignored by the variant *)
  div_eqn_of 12 DIV2_Z = Some (mkEqn "" []) /\
  div_eqn_of 12 (h_zone (snd DIV2_entry)) = Some (mkEqn "" [(1%Z, ["CA_BUS__PROF"])]) /\
  div_eqn_of 12 DIV2_Zall = Some (mkEqn "" []).
Proof.
  split; [exact DIV2_run_ok|]. split; [exact DIV2_entry_In|].
  split; [vm_compute; reflexivity|].
  split.
  { eexists. split; vm_compute; reflexivity. }
  split; [vm_compute; reflexivity|]. split; [vm_compute; reflexivity|]. split; [vm_compute; reflexivity|].
  split; [vm_compute; reflexivity|]. split; [vm_compute; reflexivity|]. split; vm_compute; reflexivity.
Qed.
