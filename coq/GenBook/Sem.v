(** Reading the rows of a displayed system off GenMain2's [sat]. *)
From Coq Require Import List String Ascii Bool ZArith Arith QArith Reals Qreals Lra.
From SFC.Base Require Import Res Str.
From SFC.Gen Require Import Fx Zone.
From SFC.GenTax Require Import TaxProofs.
From SFC.GenMain2 Require Import Program Classes Main Conflict.
From SFC.GenBook Require Import Text Builders.
Import ListNotations.
Local Open Scope string_scope.

Definition dummy (fc : string) : sector := mkSector 0 "" "" fc false false false [] [].

Section Read.
  Variables (E : final_system) (v vprev : string -> R) (bv : string -> string -> R).
  Hypothesis Hsat : sat E v vprev bv.
  Local Open Scope R_scope.

  (** an endogenous row: variable = value of the blob (if any) + sum of the parsed terms *)
  Lemma sat_def s n fc b ts t :
    List.In s (fs_zone E) -> fullcode s = fc -> lookup_var n (vars s) = Some (mkEqn b ts) -> row_kind s n = KDef t ->
    v (fc ++ "__" ++ n)%string = (if String.eqb b "" then 0 else bv fc b) + tsum_in v (dummy fc) ts.
  Proof.
    intros Hin Hfc Hl Hk. assert (Hv : has_var s n = true) by (unfold has_var; now rewrite Hl).
    pose proof (Hsat s n Hin Hv) as H. rewrite Hk in H. unfold holds in H. rewrite Hl in H.
    rewrite Hfc in H. rewrite H. unfold eqn_val. cbn [blob terms]. rewrite Hfc. f_equal.
    apply tsum_in_frame. simpl. now rewrite Hfc.
  Qed.

  (** a lagged row *)
  Lemma sat_lag s n fc src :
    List.In s (fs_zone E) -> fullcode s = fc -> has_var s n = true -> row_kind s n = KLag src ->
    v (fc ++ "__" ++ n)%string = vprev src.
  Proof. intros Hin Hfc Hv Hk. pose proof (Hsat s n Hin Hv) as H. rewrite Hk in H. now rewrite Hfc in H. Qed.

  (** a row whose right-hand side is a bare parameter text *)
  Lemma sat_param s n fc a :
    List.In s (fs_zone E) -> fullcode s = fc -> lookup_var n (vars s) = Some (mkEqn a []) -> ptext a = true ->
    v (fc ++ "__" ++ n)%string = bv fc a.
  Proof.
    intros Hin Hfc Hl Ha.
    assert (Hk : row_kind s n = KDef (a ++ " ")).
    { unfold row_kind, var_row. cbn [r_kind]. rewrite Hl. apply (param_kind_ptext (lookup_of s) a Ha). }
    rewrite (sat_def s n fc a [] _ Hin Hfc Hl Hk). rewrite (ptext_nonempty a Ha). cbn [tsum_in]. lra.
  Qed.
End Read.

(** decimal values of the literal texts of the constructors *)
Lemma dec_value_zero_dot : dec_value "0." = 0%R.
Proof. unfold dec_value. replace (dec_q "0.") with (0 # 1)%Q by (vm_compute; reflexivity). unfold Q2R. simpl. lra. Qed.
Lemma dec_value_zero_zero : dec_value "0.0" = 0%R.
Proof. unfold dec_value. replace (dec_q "0.0") with (0 # 10)%Q by (vm_compute; reflexivity). unfold Q2R. simpl. lra. Qed.

(** [bv_std] reads "0." and "0.0" as zero (the hypothesis [bv_zero] of the C01 theorems) *)
Lemma bv_std_zero v : bv_zero (bv_std v).
Proof.
  intros fc. split; unfold bv_std.
  - replace (parse_text "0.") with (Some (BN "0.")) by (vm_compute; reflexivity). cbn [evalB]. apply dec_value_zero_dot.
  - replace (parse_text "0.0") with (Some (BN "0.0")) by (vm_compute; reflexivity). cbn [evalB]. apply dec_value_zero_zero.
Qed.

(* ------------------------------------------------------------------ *)
(** * Tactics *)

(** [def_row Hsat Z i n H]: the endogenous row of variable [n] of the [i]-th sector of the displayed
    zone [Z], as an equation between reals ([Hsat : sat E v vprev (bv_std v)], [fs_zone E] = [Z]).
    NOT for rows whose right-hand side is an unknown text: use [param_row]. *)
Ltac zone_in := cbv [nth]; repeat (first [left; reflexivity | right]).

Ltac def_row Hsat Z i n H :=
  let s := constr:(nth i Z no_sector) in
  let fc := eval vm_compute in (fullcode s) in
  let e := eval vm_compute in (lookup_var n (vars s)) in
  let k := eval vm_compute in (row_kind s n) in
  lazymatch e with
  | Some {| blob := ?b; terms := ?ts |} =>
      lazymatch k with
      | KDef ?t =>
          assert (H := sat_def _ _ _ _ Hsat s n fc b ts t);
          specialize (H ltac:(unfold Z; zone_in) ltac:(vm_compute; reflexivity) ltac:(vm_compute; reflexivity) ltac:(vm_compute; reflexivity))
      end
  end.

Ltac lag_row Hsat Z i n H :=
  let s := constr:(nth i Z no_sector) in
  let fc := eval vm_compute in (fullcode s) in
  let k := eval vm_compute in (row_kind s n) in
  lazymatch k with
  | KLag ?src =>
      assert (H := sat_lag _ _ _ _ Hsat s n fc src);
      specialize (H ltac:(unfold Z; zone_in) ltac:(vm_compute; reflexivity) ltac:(vm_compute; reflexivity) ltac:(vm_compute; reflexivity))
  end.

Ltac param_row Hsat Z i n a Ha H :=
  let s := constr:(nth i Z no_sector) in
  let fc := eval vm_compute in (fullcode s) in
  assert (H := sat_param _ _ _ _ Hsat s n fc a);
  specialize (H ltac:(unfold Z; zone_in) ltac:(vm_compute; reflexivity) ltac:(vm_compute; reflexivity) Ha);
  rewrite (bv_std_ptext _ fc a Ha) in H.

(** evaluate the standard reading of the closed blob texts in [H] *)
Ltac read_blobs H :=
  unfold bv_std in H;
  repeat match type of H with
         | context [parse_text ?t] =>
             let p := eval vm_compute in (parse_text t) in
             replace (parse_text t) with p in H by (vm_compute; reflexivity)
         end;
  cbn [evalB] in H;
  repeat match type of H with
         | context [bname ?fc ?n] =>
             let p := eval vm_compute in (bname fc n) in
             replace (bname fc n) with p in H by (vm_compute; reflexivity)
         end;
  rewrite ?dec_value_zero_dot, ?dec_value_zero_zero in H.

Ltac read_terms H :=
  cbn [String.eqb Ascii.eqb Bool.eqb tsum_in] in H; unfold tval_in in H; cbn [fval_in fst snd] in H;
  repeat match type of H with
         | context [qualify ?s ?n] =>
             let p := eval vm_compute in (qualify s n) in
             replace (qualify s n) with p in H by (vm_compute; reflexivity)
         end;
  repeat match type of H with
         | context [append ?a ?b] =>
             let p := eval vm_compute in (append a b) in
             change (append a b) with p in H
         end.

Ltac row Hsat Z i n H := def_row Hsat Z i n H; read_terms H; read_blobs H.
Ltac lrow Hsat Z i n H := lag_row Hsat Z i n H; read_terms H.
Ltac prow Hsat Z i n a Ha H := param_row Hsat Z i n a Ha H; read_terms H.

(* ------------------------------------------------------------------ *)
(** * The emitted rows read directly

    [sat_rows]: a pair of valuations satisfies the EMITTED TEXTS (fs_rows — what the harness compares
    verbatim with the implementation's FinalEquations): every endogenous row's text, parsed as an
    arithmetic expression over full variable names, evaluates to the value of its left-hand side; a
    lagged row takes last period's value of its source; an exogenous row says nothing.  (A text that
    is not an expression of the grammar of Text.v says nothing either.)  Independent of the
    term-level reading of GenMain2's [sat]. *)
Definition row_ok (v vprev : string -> R) (r : row) : Prop :=
  match r_kind r with
  | KDef t => match parse_text t with Some e => v (r_lhs r) = evalB v "" e | None => True end
  | KLag src => v (r_lhs r) = vprev src
  | KExo _ => True
  end.

Definition sat_rows (E : final_system) (v vprev : string -> R) : Prop := Forall (row_ok v vprev) (fs_rows E).

Lemma blex_num_blank r : all_pchar r = true -> forall acc, blex (TNum acc) (r ++ " ") = [BNum (acc ++ r)].
Proof.
  induction r as [|c r IH]; intros H acc.
  - cbn. now rewrite append_nil_r.
  - simpl in H. apply andb_prop in H as [Hc Hr]. cbn [append blex]. rewrite (pchar_num_cont c Hc).
    rewrite (IH Hr). now rewrite snoc_append.
Qed.

Lemma parse_ptext_blank a : ptext a = true -> parse_text (a ++ " ") = Some (BN a).
Proof.
  intros H. unfold parse_text.
  assert (E : blex TNone (a ++ " ") = [BNum a]).
  { destruct a as [|c r]; [discriminate|].
    simpl in H. apply andb_prop in H as [H1 Hr]. cbn [append blex].
    apply orb_prop in H1 as [Hd|Hd].
    - assert (Ha : is_alpha c = false).
      { assert (Hp : pchar c = true) by (unfold pchar; now rewrite Hd). pcases c Hp; reflexivity. }
      rewrite Ha, Hd. now rewrite (blex_num_blank r Hr).
    - apply andb_prop in Hd as [Hdot Hnext]. apply Ascii.eqb_eq in Hdot. subst c.
      change (is_alpha "."%char) with false. change (is_digit "."%char) with false. cbn [Ascii.eqb Bool.eqb andb].
      destruct r as [|d r']; [discriminate|]. cbn [append]. rewrite Hnext.
      now rewrite (blex_num_blank (String d r') Hr). }
  rewrite E. reflexivity.
Qed.

(** split [Forall (row_ok v vprev) [r1; ...; rn]] into one hypothesis per row and read each *)
Ltac read_row_text H :=
  unfold row_ok in H; cbn [r_kind r_lhs] in H;
  try (repeat match type of H with
              | context [parse_text (?a ++ " ")] =>
                  match goal with Ha : ptext a = true |- _ => rewrite (parse_ptext_blank a Ha) in H end
              end);
  repeat match type of H with
         | context [parse_text ?t] =>
             let p := eval vm_compute in (parse_text t) in
             replace (parse_text t) with p in H by (vm_compute; reflexivity)
         end;
  cbn [evalB] in H;
  repeat match type of H with
         | context [bname ?fc ?n] =>
             let p := eval vm_compute in (bname fc n) in
             replace (bname fc n) with p in H by (vm_compute; reflexivity)
         end;
  rewrite ?dec_value_zero_dot, ?dec_value_zero_zero in H.

Ltac split_rows H :=
  repeat match type of H with
         | Forall _ (?r :: _) =>
             let Hh := fresh "Row" in
             apply Forall_cons_iff in H; destruct H as [Hh H];
             lazymatch r with
             | {| r_lhs := _; r_kind := KDef _ |} => read_row_text Hh
             | {| r_lhs := _; r_kind := KLag _ |} => read_row_text Hh
             | _ => clear Hh
             end
         end.
