(** [Main.build] on the builders' programs, for ALL parameter texts.

    Step 1 ([*_raw]): for arbitrary strings the model computes the displayed system in which the text
    functions it applies to a parameter ([squeeze] at AddVariable, the row classification of a pure
    blob) are still applied to the unknown strings: [vm_compute] normalises both sides, the unknown
    strings being atoms.  No control flow of the pipeline depends on a parameter text.
    Step 2: on parameter-shaped texts ([ptext]) those functions are known (Text.v), which gives the
    displayed systems [E_SIM], [E_SIMEX1], [E_PC]. *)
From Coq Require Import List String Ascii Bool ZArith Arith.
From SFC.Base Require Import Res Str Sorting.
From SFC.Gen Require Import Fx Zone.
From SFC.GenAsset Require Import Weighting.
From SFC.GenMain2 Require Import Program Classes Main.
From SFC.GenBook Require Import Text Builders.
Import ListNotations.
Local Open Scope string_scope.

(* ------------------------------------------------------------------ *)
(** * Splitting [build]: the final zone, then the rows

    [vm_compute] cannot be asked to normalise the row classification of an unknown string (the
    stuck tests of [classify] make the normal form explode), so the computation is staged: the
    whole pipeline up to the final zone and the initial conditions runs with the parameter texts as
    atoms ([build_zone], nothing inspects them there); the rows are then computed with the
    classification of the parameter rows abstracted ([rows_sel]). *)

Definition build_zone (p : program) : result (zone * list (string * string)) :=
  do st <- construct_all p ;;
  let multi := Nat.ltb 1 (List.length (c_countries st)) in
  let Z0 := zone_order (c_countries st) (map (set_fullcode multi) (c_secs st)) in
  let I := mkI (c_classes st) (c_sup st) in
  do g <- run_trace (gen_step I) (map (fun s => (sid s, class_of (c_classes st) (sid s))) Z0) (mkG Z0 (c_flows st)) ;;
  do f <- run_trace flow_step (g_flows (snd g)) (g_zone (snd g)) ;;
  do x <- run_trace exo_step (c_exo st) (snd f) ;;
  do ics <- ic_rows (snd x) (c_ic st) ;;
  Ok (snd x, ics).

Definition finish (zi : zone * list (string * string)) : result final_system :=
  let rows := zone_rows (fst zi) in
  match rows, snd zi with
  | [], [] => Err Warning_
  | _, _ => Ok (mkFS (fst zi) rows (snd zi))
  end.

Lemma build_via_zone p : build p = do zi <- build_zone p ;; finish zi.
Proof.
  unfold build, build_run, build_zone, main_run, finish.
  destruct (construct_all p) as [st|e]; [|reflexivity]. cbn [bind].
  destruct (run_trace (gen_step _) _ _) as [g|e]; [|reflexivity]. cbn [bind].
  destruct (run_trace flow_step _ _) as [f|e]; [|reflexivity]. cbn [bind].
  destruct (run_trace exo_step _ _) as [x|e]; [|reflexivity]. cbn [bind].
  destruct (ic_rows _ _) as [ics|e]; [|reflexivity]. cbn [bind fst snd].
  destruct (zone_rows (snd x)) as [|r0 rs]; destruct ics as [|i0 is']; reflexivity.
Qed.

(** rows with the classification of the pure-blob rows named in [psym] / [xsym] left to [BK] / [XK] *)
Definition kind_sel (BK : (string -> option string) -> string -> kind) (s : sector) (e : eqn) : kind :=
  match terms e with
  | [] => BK (lookup_of s) (blob e)
  | _ => classify (final_text s e)
  end.

Definition row_sel (psym xsym : list string) (BK XK : (string -> option string) -> string -> kind) (s : sector) (n : string) : row :=
  let lhs := fullcode s ++ "__" ++ n in
  mkRow lhs
        (match lookup_var n (vars s) with
         | Some e =>
             if mem lhs psym then kind_sel BK s e
             else if mem lhs xsym then kind_sel XK s e
             else classify (final_text s e)
         | None => KDef ""
         end).

Definition rows_sel psym xsym BK XK (Z : zone) : list row :=
  flat_map (fun s => map (row_sel psym xsym BK XK s) (sort (keys s))) Z.

Lemma kind_sel_eq s e : kind_sel blob_kind s e = classify (final_text s e).
Proof. destruct e as [b ts]. unfold kind_sel. cbn [terms blob]. destruct ts; reflexivity. Qed.

Lemma row_sel_eq psym xsym s n : row_sel psym xsym blob_kind blob_kind s n = var_row s n.
Proof.
  unfold row_sel, var_row. f_equal. destruct (lookup_var n (vars s)) as [e|]; [|reflexivity].
  rewrite !kind_sel_eq. destruct (mem _ psym); [reflexivity|]. destruct (mem _ xsym); reflexivity.
Qed.

Lemma rows_sel_eq psym xsym Z : zone_rows Z = rows_sel psym xsym blob_kind blob_kind Z.
Proof.
  unfold zone_rows, rows_sel, sector_rows. induction Z as [|s r IH]; [reflexivity|]. cbn [flat_map]. rewrite IH. f_equal.
  apply map_ext. intros n. symmetry. apply row_sel_eq.
Qed.

Definition SIM_PSYM : list string := ["HH__AlphaIncome"; "HH__AlphaFin"; "TF__TaxRate"].
Definition SIM_XSYM : list string := ["GOV__DEM_GOOD"].
Definition PC_PSYM : list string := ["HH__AlphaIncome"; "HH__AlphaFin"; "TF__TaxRate"; "HH__L0"; "HH__L1"; "HH__L2"].
Definition PC_XSYM : list string := ["TRE__DEM_GOOD"; "DEP__r"].

Lemma rows_SIM BK XK a1 a2 th g :
  rows_sel SIM_PSYM SIM_XSYM BK XK (Z_SIM_gen squeeze a1 a2 th g) = R_SIM_gen squeeze BK XK a1 a2 th g.
Proof. vm_compute. reflexivity. Qed.
Lemma rows_SIMEX1 BK XK a1 a2 th g :
  rows_sel SIM_PSYM SIM_XSYM BK XK (Z_SIMEX1_gen squeeze a1 a2 th g) = R_SIMEX1_gen squeeze BK XK a1 a2 th g.
Proof. vm_compute. reflexivity. Qed.
Lemma rows_PC BK XK a1 a2 th l0 l1 l2 g rr :
  rows_sel PC_PSYM PC_XSYM BK XK (Z_PC_gen squeeze a1 a2 th l0 l1 l2 g rr) = R_PC_gen squeeze BK XK a1 a2 th l0 l1 l2 g rr.
Proof. vm_compute. reflexivity. Qed.

Lemma finish_SIM a1 a2 th g ics : finish (Z_SIM_gen squeeze a1 a2 th g, ics) = Ok (E_SIM_raw a1 a2 th g ics).
Proof. unfold finish. cbn [fst snd]. rewrite (rows_sel_eq SIM_PSYM SIM_XSYM), rows_SIM. reflexivity. Qed.
Lemma finish_SIMEX1 a1 a2 th g ics : finish (Z_SIMEX1_gen squeeze a1 a2 th g, ics) = Ok (E_SIMEX1_raw a1 a2 th g ics).
Proof. unfold finish. cbn [fst snd]. rewrite (rows_sel_eq SIM_PSYM SIM_XSYM), rows_SIMEX1. reflexivity. Qed.
Lemma finish_PC a1 a2 th l0 l1 l2 g rr ics :
  finish (Z_PC_gen squeeze a1 a2 th l0 l1 l2 g rr, ics) = Ok (E_PC_raw a1 a2 th l0 l1 l2 g rr ics []).
Proof.
  unfold finish. cbn [fst snd]. rewrite (rows_sel_eq PC_PSYM PC_XSYM), rows_PC. unfold E_PC_raw, E_PC_gen. cbn [map]. rewrite app_nil_r. reflexivity.
Qed.

Lemma build_g_globals p E gl : build p = Ok E -> build_g p gl = Ok (mkFS (fs_zone E) (fs_rows E ++ map global_row gl)%list (fs_ic E)).
Proof. intros H. unfold build_g. now rewrite H. Qed.

(* ------------------------------------------------------------------ *)
(** * Step 1: any strings *)

Ltac by_zone zi fin :=
  rewrite build_via_zone;
  match goal with |- bind ?b _ = _ => replace b with (@Ok (zone * list (string * string)) zi) by (vm_compute; reflexivity) end;
  cbn [bind]; exact fin.

Lemma build_SIM_raw a1 a2 th :
  build (prog_SIM a1 a2 th) = Ok (E_SIM_raw a1 a2 th SIM_G_BOOK []).
Proof. by_zone (Z_SIM_gen squeeze a1 a2 th SIM_G_BOOK, @nil (string * string)) (finish_SIM a1 a2 th SIM_G_BOOK []). Qed.

Lemma build_SIM_run_raw a1 a2 th book g h0 h0n :
  build (prog_SIM_run a1 a2 th book g h0 h0n) = Ok (E_SIM_raw a1 a2 th g [("HH__F", h0); ("GOV__F", h0n)]).
Proof.
  destruct book; by_zone (Z_SIM_gen squeeze a1 a2 th g, [("HH__F", h0); ("GOV__F", h0n)])
                         (finish_SIM a1 a2 th g [("HH__F", h0); ("GOV__F", h0n)]).
Qed.

Lemma build_SIMEX1_raw a1 a2 th :
  build (prog_SIMEX1 a1 a2 th) = Ok (E_SIMEX1_raw a1 a2 th SIM_G_BOOK [("HH__AfterTax", "16.0")]).
Proof.
  by_zone (Z_SIMEX1_gen squeeze a1 a2 th SIM_G_BOOK, [("HH__AfterTax", "16.0")])
          (finish_SIMEX1 a1 a2 th SIM_G_BOOK [("HH__AfterTax", "16.0")]).
Qed.

Definition simex_run_ic (book : bool) (h0 h0n yd0 : string) : list (string * string) :=
  ((if book then [("HH__AfterTax", "16.0")] else []) ++
   [("HH__F", h0); ("GOV__F", h0n); ("HH__AfterTax", yd0)])%list.

Lemma build_SIMEX1_run_raw a1 a2 th book g h0 h0n yd0 :
  build (prog_SIMEX1_run a1 a2 th book g h0 h0n yd0) = Ok (E_SIMEX1_raw a1 a2 th g (simex_run_ic book h0 h0n yd0)).
Proof.
  destruct book.
  - by_zone (Z_SIMEX1_gen squeeze a1 a2 th g, simex_run_ic true h0 h0n yd0) (finish_SIMEX1 a1 a2 th g (simex_run_ic true h0 h0n yd0)).
  - by_zone (Z_SIMEX1_gen squeeze a1 a2 th g, simex_run_ic false h0 h0n yd0) (finish_SIMEX1 a1 a2 th g (simex_run_ic false h0 h0n yd0)).
Qed.

Lemma build_PC_raw a1 a2 th l0 l1 l2 :
  build_g (prog_PC a1 a2 th l0 l1 l2) pc_globals =
  Ok (E_PC_raw a1 a2 th l0 l1 l2 PC_G_BOOK PC_R_BOOK pc_book_ic pc_globals).
Proof.
  assert (H : build (prog_PC a1 a2 th l0 l1 l2) = Ok (E_PC_raw a1 a2 th l0 l1 l2 PC_G_BOOK PC_R_BOOK pc_book_ic []))
    by (by_zone (Z_PC_gen squeeze a1 a2 th l0 l1 l2 PC_G_BOOK PC_R_BOOK, pc_book_ic)
                (finish_PC a1 a2 th l0 l1 l2 PC_G_BOOK PC_R_BOOK pc_book_ic)).
  rewrite (build_g_globals _ _ pc_globals H). unfold E_PC_raw, E_PC_gen. cbn [fs_zone fs_rows fs_ic map]. now rewrite app_nil_r.
Qed.

Definition pc_run_ic (book : bool) (v0 b0 v0n : string) : list (string * string) :=
  ((if book then pc_book_ic else []) ++ [("HH__F", v0); ("HH__DEM_DEP", b0); ("TRE__F", v0n)])%list.

Lemma build_PC_run_raw a1 a2 th l0 l1 l2 book g rr v0 b0 v0n :
  build_g (prog_PC_run a1 a2 th l0 l1 l2 book g rr v0 b0 v0n) (globals_if book) =
  Ok (E_PC_raw a1 a2 th l0 l1 l2 g rr (pc_run_ic book v0 b0 v0n) (globals_if book)).
Proof.
  assert (H : build (prog_PC_run a1 a2 th l0 l1 l2 book g rr v0 b0 v0n) =
              Ok (E_PC_raw a1 a2 th l0 l1 l2 g rr (pc_run_ic book v0 b0 v0n) []))
    by (destruct book;
        [ by_zone (Z_PC_gen squeeze a1 a2 th l0 l1 l2 g rr, pc_run_ic true v0 b0 v0n)
                  (finish_PC a1 a2 th l0 l1 l2 g rr (pc_run_ic true v0 b0 v0n))
        | by_zone (Z_PC_gen squeeze a1 a2 th l0 l1 l2 g rr, pc_run_ic false v0 b0 v0n)
                  (finish_PC a1 a2 th l0 l1 l2 g rr (pc_run_ic false v0 b0 v0n)) ]).
  rewrite (build_g_globals _ _ (globals_if book) H). unfold E_PC_raw, E_PC_gen. cbn [fs_zone fs_rows fs_ic map]. now rewrite app_nil_r.
Qed.

(* ------------------------------------------------------------------ *)
(** * Step 2: parameter-shaped texts *)

Lemma E_SIM_raw_eq a1 a2 th g ics :
  ptext a1 = true -> ptext a2 = true -> ptext th = true -> E_SIM_raw a1 a2 th g ics = E_SIM a1 a2 th g ics.
Proof.
  intros H1 H2 H3. unfold E_SIM_raw, E_SIM, E_SIM_gen. f_equal. unfold R_SIM_gen. cbv zeta. unfold blob_kind, nice_kind.
  rewrite !(param_kind_ptext _ a1 H1), !(param_kind_ptext _ a2 H2), !(param_kind_ptext _ th H3). reflexivity.
Qed.

Lemma E_SIMEX1_raw_eq a1 a2 th g ics :
  ptext a1 = true -> ptext a2 = true -> ptext th = true -> E_SIMEX1_raw a1 a2 th g ics = E_SIMEX1 a1 a2 th g ics.
Proof.
  intros H1 H2 H3. unfold E_SIMEX1_raw, E_SIMEX1, E_SIMEX1_gen. f_equal. unfold R_SIMEX1_gen. cbv zeta. unfold blob_kind, nice_kind.
  rewrite !(param_kind_ptext _ a1 H1), !(param_kind_ptext _ a2 H2), !(param_kind_ptext _ th H3). reflexivity.
Qed.

Lemma Z_PC_sq a1 a2 th l0 l1 l2 g rr :
  ptext l0 = true -> ptext l1 = true -> ptext l2 = true ->
  Z_PC_gen squeeze a1 a2 th l0 l1 l2 g rr = Z_PC_gen idtext a1 a2 th l0 l1 l2 g rr.
Proof.
  intros H4 H5 H6. unfold Z_PC_gen, idtext. rewrite (squeeze_ptext l0 H4), (squeeze_ptext l1 H5), (squeeze_ptext l2 H6). reflexivity.
Qed.

Lemma E_PC_raw_eq a1 a2 th l0 l1 l2 g rr ics gl :
  ptext a1 = true -> ptext a2 = true -> ptext th = true -> ptext l0 = true -> ptext l1 = true -> ptext l2 = true ->
  E_PC_raw a1 a2 th l0 l1 l2 g rr ics gl = E_PC a1 a2 th l0 l1 l2 g rr ics gl.
Proof.
  intros H1 H2 H3 H4 H5 H6. unfold E_PC_raw, E_PC, E_PC_gen. rewrite (Z_PC_sq a1 a2 th l0 l1 l2 g rr H4 H5 H6).
  f_equal. f_equal. unfold R_PC_gen. rewrite (Z_PC_sq a1 a2 th l0 l1 l2 g rr H4 H5 H6). cbv zeta.
  unfold blob_kind, nice_kind, idtext.
  rewrite (squeeze_ptext l0 H4), (squeeze_ptext l1 H5), (squeeze_ptext l2 H6).
  rewrite !(param_kind_ptext _ a1 H1), !(param_kind_ptext _ a2 H2), !(param_kind_ptext _ th H3),
          !(param_kind_ptext _ l0 H4), !(param_kind_ptext _ l1 H5), !(param_kind_ptext _ l2 H6).
  reflexivity.
Qed.

(* ------------------------------------------------------------------ *)
(** * The builders' systems, for all parameter texts *)

Section Params.
  Variables a1 a2 th : string.
  Hypothesis H1 : ptext a1 = true.
  Hypothesis H2 : ptext a2 = true.
  Hypothesis H3 : ptext th = true.

  Theorem build_SIM : build (prog_SIM a1 a2 th) = Ok (E_SIM a1 a2 th SIM_G_BOOK []).
  Proof. rewrite build_SIM_raw. f_equal. now apply E_SIM_raw_eq. Qed.

  Theorem build_SIM_run book g h0 h0n :
    build (prog_SIM_run a1 a2 th book g h0 h0n) = Ok (E_SIM a1 a2 th g [("HH__F", h0); ("GOV__F", h0n)]).
  Proof. rewrite build_SIM_run_raw. f_equal. now apply E_SIM_raw_eq. Qed.

  Theorem build_SIMEX1 : build (prog_SIMEX1 a1 a2 th) = Ok (E_SIMEX1 a1 a2 th SIM_G_BOOK [("HH__AfterTax", "16.0")]).
  Proof. rewrite build_SIMEX1_raw. f_equal. now apply E_SIMEX1_raw_eq. Qed.

  Theorem build_SIMEX1_run book g h0 h0n yd0 :
    build (prog_SIMEX1_run a1 a2 th book g h0 h0n yd0) = Ok (E_SIMEX1 a1 a2 th g (simex_run_ic book h0 h0n yd0)).
  Proof. rewrite build_SIMEX1_run_raw. f_equal. now apply E_SIMEX1_raw_eq. Qed.

  Variables l0 l1 l2 : string.
  Hypothesis H4 : ptext l0 = true.
  Hypothesis H5 : ptext l1 = true.
  Hypothesis H6 : ptext l2 = true.

  Theorem build_PC :
    build_g (prog_PC a1 a2 th l0 l1 l2) pc_globals =
    Ok (E_PC a1 a2 th l0 l1 l2 PC_G_BOOK PC_R_BOOK pc_book_ic pc_globals).
  Proof. rewrite build_PC_raw. f_equal. now apply E_PC_raw_eq. Qed.

  Theorem build_PC_run book g rr v0 b0 v0n :
    build_g (prog_PC_run a1 a2 th l0 l1 l2 book g rr v0 b0 v0n) (globals_if book) =
    Ok (E_PC a1 a2 th l0 l1 l2 g rr (pc_run_ic book v0 b0 v0n) (globals_if book)).
  Proof. rewrite build_PC_run_raw. f_equal. now apply E_PC_raw_eq. Qed.
End Params.
