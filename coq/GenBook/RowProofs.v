(** The book's period equations from the EMITTED ROW TEXTS ([sat_rows]): the same conclusions as
    BookProofs.v, with the hypothesis stated on fs_rows — the texts the harness compares with the
    implementation's FinalEquations — read by the expression parser of Text.v. *)
From Coq Require Import List String Ascii Bool ZArith Arith QArith Reals Qreals Lra.
From SFC.Base Require Import Res Str.
From SFC.Gen Require Import Fx Zone Book.
From SFC.GenMain2 Require Import Program Classes Main Conflict.
From SFC.GenBook Require Import Text Builders Sem.
Import ListNotations.
Local Open Scope string_scope.

Lemma dec_value_one : dec_value "1.0" = 1%R.
Proof. unfold dec_value. replace (dec_q "1.0") with (10 # 10)%Q by (vm_compute; reflexivity). unfold Q2R. simpl. lra. Qed.

(** the hypothesis about variable [x] among the rows read by [split_rows] *)
Ltac grab v x H := match goal with H0 : v x = _ |- _ => rename H0 into H end.

Section SIM.
  Variables (a1 a2 th g : string) (ics : list (string * string)) (v vprev : string -> R).
  Hypothesis H1 : ptext a1 = true.
  Hypothesis H2 : ptext a2 = true.
  Hypothesis H3 : ptext th = true.
  Hypothesis Hrows : sat_rows (E_SIM a1 a2 th g ics) v vprev.
  Local Open Scope R_scope.

  Theorem SIM_recursion_rows :
    let alpha1 := dec_value a1 in let alpha2 := dec_value a2 in let theta := dec_value th in
    let Y := v "GOOD__SUP_GOOD" in let T := v "GOV__T" in let YD := v "HH__AfterTax" in
    let C := v "HH__DEM_GOOD" in let H := v "HH__F" in let H_1 := vprev "HH__F" in let G := v "GOV__DEM_GOOD" in
    Y = C + G /\ T = theta * Y /\ YD = Y - T /\ C = alpha1 * YD + alpha2 * H_1 /\ H = H_1 + YD - C.
  Proof.
    pose proof Hrows as HR. unfold sat_rows, E_SIM, E_SIM_gen in HR. cbn [fs_rows] in HR.
    unfold R_SIM_gen, nice_kind in HR. cbv zeta in HR. split_rows HR. clear HR.
    grab v "HH__AlphaIncome" PA1. grab v "HH__AlphaFin" PA2. grab v "TF__TaxRate" PTH.
    grab v "HH__DEM_GOOD" EC. grab v "HH__LAG_F" EL. grab v "TF__T" ETF. grab v "HH__T" EHT. grab v "HH__F" EF.
    assert (EI : v "HH__INC" = v "GOOD__SUP_GOOD") by lra.
    cbv zeta. rewrite EL in EC, EF. rewrite PA1, PA2 in EC. rewrite PTH, EI in ETF, EHT.
    repeat split; lra.
  Qed.

  Theorem SIM_closed_form_rows :
    let alpha1 := dec_value a1 in let alpha2 := dec_value a2 in let theta := dec_value th in
    let H_1 := vprev "HH__F" in let G := v "GOV__DEM_GOOD" in
    1 - alpha1 * (1 - theta) <> 0 ->
    let Y := (G + alpha2 * H_1) / (1 - alpha1 * (1 - theta)) in
    v "GOOD__SUP_GOOD" = Y /\ v "GOV__T" = theta * Y /\ v "HH__AfterTax" = (1 - theta) * Y /\
    v "HH__DEM_GOOD" = Y - G /\ v "HH__F" = H_1 + (1 - theta) * Y - (Y - G).
  Proof.
    cbv zeta. intros Hd. destruct SIM_recursion_rows as (EY & ET & EYD & EC & EH).
    destruct (SIM_closed_form _ _ _ _ _ _ _ _ _ _ Hd EY ET EYD EC EH) as (K1 & K2 & K3 & K4 & K5).
    rewrite <- K1. repeat split; assumption.
  Qed.
End SIM.

Section SIMEX1.
  Variables (a1 a2 th g : string) (ics : list (string * string)) (v vprev : string -> R).
  Hypothesis H1 : ptext a1 = true.
  Hypothesis H2 : ptext a2 = true.
  Hypothesis H3 : ptext th = true.
  Hypothesis Hrows : sat_rows (E_SIMEX1 a1 a2 th g ics) v vprev.
  Local Open Scope R_scope.

  Theorem SIMEX1_recursion_rows :
    let alpha1 := dec_value a1 in let alpha2 := dec_value a2 in let theta := dec_value th in
    let Y := v "GOOD__SUP_GOOD" in let T := v "GOV__T" in let YD := v "HH__AfterTax" in
    let C := v "HH__DEM_GOOD" in let H := v "HH__F" in let H_1 := vprev "HH__F" in let YD_1 := vprev "HH__AfterTax" in
    let G := v "GOV__DEM_GOOD" in
    Y = C + G /\ T = theta * Y /\ YD = Y - T /\ C = alpha1 * YD_1 + alpha2 * H_1 /\ H = H_1 + YD - C.
  Proof.
    pose proof Hrows as HR. unfold sat_rows, E_SIMEX1, E_SIMEX1_gen in HR. cbn [fs_rows] in HR.
    unfold R_SIMEX1_gen, nice_kind in HR. cbv zeta in HR. split_rows HR. clear HR.
    grab v "HH__AlphaIncome" PA1. grab v "HH__AlphaFin" PA2. grab v "TF__TaxRate" PTH.
    grab v "HH__DEM_GOOD" EC. grab v "HH__LAG_F" EL. grab v "TF__T" ETF. grab v "HH__T" EHT. grab v "HH__F" EF.
    grab v "HH__EXP_AfterTax" EX. grab v "HH__LAG_AfterTax" ELY.
    assert (EI : v "HH__INC" = v "GOOD__SUP_GOOD") by lra.
    cbv zeta. rewrite ELY in EX. rewrite EL in EC, EF. rewrite PA1, PA2, EX in EC. rewrite PTH, EI in ETF, EHT.
    repeat split; lra.
  Qed.

  Theorem SIMEX1_closed_form_rows :
    let alpha1 := dec_value a1 in let alpha2 := dec_value a2 in let theta := dec_value th in
    let H_1 := vprev "HH__F" in let YD_1 := vprev "HH__AfterTax" in let G := v "GOV__DEM_GOOD" in
    let C := alpha1 * YD_1 + alpha2 * H_1 in let Y := C + G in
    v "HH__DEM_GOOD" = C /\ v "GOOD__SUP_GOOD" = Y /\ v "GOV__T" = theta * Y /\ v "HH__AfterTax" = (1 - theta) * Y /\
    v "HH__F" = H_1 + (1 - theta) * Y - C.
  Proof.
    cbv zeta. destruct SIMEX1_recursion_rows as (EY & ET & EYD & EC & EH).
    destruct (SIMEX1_closed_form _ _ _ _ _ _ _ _ _ _ _ EY ET EYD EC EH) as (K1 & K2 & K3 & K4 & K5).
    rewrite <- K2. repeat split; assumption.
  Qed.
End SIMEX1.

Section PC.
  Variables (a1 a2 th l0 l1 l2 g rr : string) (ics gl : list (string * string)) (v vprev : string -> R).
  Hypothesis H1 : ptext a1 = true.
  Hypothesis H2 : ptext a2 = true.
  Hypothesis H3 : ptext th = true.
  Hypothesis H4 : ptext l0 = true.
  Hypothesis H5 : ptext l1 = true.
  Hypothesis H6 : ptext l2 = true.
  Hypothesis Hrows : sat_rows (E_PC a1 a2 th l0 l1 l2 g rr ics gl) v vprev.
  Local Open Scope R_scope.

  Theorem PC_recursion_rows :
    let alpha1 := dec_value a1 in let alpha2 := dec_value a2 in let theta := dec_value th in
    let lambda0 := dec_value l0 in let lambda1 := dec_value l1 in let lambda2 := dec_value l2 in
    let Y := v "GOOD__SUP_GOOD" in let T := v "TRE__T" in let YD := v "HH__AfterTax" in let C := v "HH__DEM_GOOD" in
    let V := v "HH__F" in let V_1 := vprev "HH__F" in let B := v "HH__DEM_DEP" in let B_1 := vprev "HH__DEM_DEP" in
    let Hm := v "HH__DEM_MON" in let r := v "DEP__r" in let r_1 := vprev "DEP__r" in let G := v "TRE__DEM_GOOD" in
    Y = C + G /\ T = theta * (Y + r_1 * B_1) /\ YD = Y - T + r_1 * B_1 /\ C = alpha1 * YD + alpha2 * V_1 /\
    V = V_1 + YD - C /\ B = V * (lambda0 + lambda1 * r - lambda2 * (YD / V)) /\ Hm = V - B.
  Proof.
    pose proof Hrows as HR. unfold sat_rows, E_PC, E_PC_gen in HR. cbn [fs_rows] in HR.
    apply Forall_app in HR. destruct HR as [HR _].
    unfold R_PC_gen, nice_kind, idtext in HR. cbv zeta in HR. split_rows HR. clear HR.
    grab v "HH__AlphaIncome" PA1. grab v "HH__AlphaFin" PA2. grab v "TF__TaxRate" PTH.
    grab v "HH__L0" PL0. grab v "HH__L1" PL1. grab v "HH__L2" PL2.
    grab v "HH__DEM_GOOD" EC. grab v "HH__LAG_F" EL. grab v "TF__T" ETF. grab v "HH__T" EHT. grab v "HH__F" EF.
    grab v "HH__INTDEP" EINT. grab v "DEP__LAG_r" ELR. grab v "HH__LAG_DEM_DEP" ELB.
    grab v "HH__WGT_DEP" EW. grab v "HH__DEM_DEP" EB. grab v "HH__WGT_MON" EWM. grab v "HH__DEM_MON" EM.
    rewrite ELR, ELB in EINT.
    assert (EI : v "HH__INC" = v "GOOD__SUP_GOOD" + vprev "DEP__r" * vprev "HH__DEM_DEP") by lra.
    cbv zeta. rewrite EL in EC, EF. rewrite PA1, PA2 in EC. rewrite PTH, EI in ETF, EHT. rewrite PL0, PL1, PL2 in EW.
    rewrite dec_value_one in EWM.
    repeat split; try lra.
    - rewrite EB, EW. reflexivity.
    - rewrite EM, EWM, EB. ring.
  Qed.

  Theorem PC_closed_form_rows :
    let alpha1 := dec_value a1 in let alpha2 := dec_value a2 in let theta := dec_value th in
    let lambda0 := dec_value l0 in let lambda1 := dec_value l1 in let lambda2 := dec_value l2 in
    let V_1 := vprev "HH__F" in let B_1 := vprev "HH__DEM_DEP" in let r := v "DEP__r" in let r_1 := vprev "DEP__r" in
    let G := v "TRE__DEM_GOOD" in let V := v "HH__F" in
    1 - alpha1 * (1 - theta) <> 0 -> V <> 0 ->
    let Y := (G + alpha2 * V_1 + alpha1 * (1 - theta) * r_1 * B_1) / (1 - alpha1 * (1 - theta)) in
    let YD := (1 - theta) * (Y + r_1 * B_1) in
    v "GOOD__SUP_GOOD" = Y /\ v "HH__AfterTax" = YD /\ v "TRE__T" = theta * (Y + r_1 * B_1) /\
    v "HH__DEM_GOOD" = alpha1 * YD + alpha2 * V_1 /\ V = V_1 + YD - (alpha1 * YD + alpha2 * V_1) /\
    v "HH__DEM_DEP" = V * (lambda0 + lambda1 * r) - lambda2 * YD /\ v "HH__DEM_DEP" + v "HH__DEM_MON" = V.
  Proof.
    cbv zeta. intros Hd HV. destruct PC_recursion_rows as (EY & ET & EYD & EC & EV & EB & EH).
    destruct (PC_closed_form _ _ _ _ _ _ _ _ _ _ _ _ _ _ _ _ _ _ Hd HV EY ET EYD EC EV EB EH) as (K1 & K2 & K3 & K4).
    rewrite <- K1, <- K2. repeat split; try assumption; try lra.
  Qed.
End PC.
