(** C09 for the builders' programs themselves, for ALL parameter values.

    (1) For all parameter-shaped texts ([ptext]: what '%0.4f' % x / repr(x) give for non-negative
        finite numbers in positional notation) the pipeline model run on the program of the bundled
        builder — chapter3.SIM, chapter3.SIMEX1, chapter4.PC written as functions of their parameter
        texts; [*_run]: followed by the SetExogenous / AddInitialCondition calls of harness/c09.py — yields
        the displayed system [E_SIM] / [E_SIMEX1] / [E_PC] (Builders.v).  harness/gen_book.py checks on
        every run that the REAL builders' FinalEquations equal the same [E_*] at the formatted texts.
    (2) For every pair of valuations satisfying [E_*] (GenMain2's [sat], opaque right-hand sides read
        by [bv_std]) the book's period equations hold, with alpha1 = the value of the emitted text,
        for ALL texts, ALL exogenous values and ALL inherited stocks at once; and therefore (chaining
        with Gen/Book.v) the closed forms whenever the denominators are non-zero.
    (3) Examples: the book calibration with a concrete satisfying valuation per model. *)
From Coq Require Import List String Ascii Bool ZArith Arith QArith Reals Qreals Lra.
From SFC.Base Require Import Res Str.
From SFC.Gen Require Import Fx Zone.
From SFC.GenMain2 Require Import Program Classes Main Conflict.
From SFC.GenBook Require Import Text Builders BuildProofs Sem BookProofs RowProofs Examples.
Import ListNotations.
Local Open Scope string_scope.

(* ---------------------------------------------------------------- (1) the emitted systems *)

Theorem Book_SIM_system : forall a1 a2 th : string,
  ptext a1 = true -> ptext a2 = true -> ptext th = true ->
  build (prog_SIM a1 a2 th) = Ok (E_SIM a1 a2 th SIM_G_BOOK []).
Proof. exact build_SIM. Qed.
Print Assumptions Book_SIM_system.

Theorem Book_SIM_run_system : forall a1 a2 th : string,
  ptext a1 = true -> ptext a2 = true -> ptext th = true ->
  forall (book : bool) (g h0 h0n : string),
  build (prog_SIM_run a1 a2 th book g h0 h0n) = Ok (E_SIM a1 a2 th g [("HH__F", h0); ("GOV__F", h0n)]).
Proof. exact build_SIM_run. Qed.
Print Assumptions Book_SIM_run_system.

Theorem Book_SIMEX1_system : forall a1 a2 th : string,
  ptext a1 = true -> ptext a2 = true -> ptext th = true ->
  build (prog_SIMEX1 a1 a2 th) = Ok (E_SIMEX1 a1 a2 th SIM_G_BOOK [("HH__AfterTax", "16.0")]).
Proof. exact build_SIMEX1. Qed.
Print Assumptions Book_SIMEX1_system.

Theorem Book_SIMEX1_run_system : forall a1 a2 th : string,
  ptext a1 = true -> ptext a2 = true -> ptext th = true ->
  forall (book : bool) (g h0 h0n yd0 : string),
  build (prog_SIMEX1_run a1 a2 th book g h0 h0n yd0) = Ok (E_SIMEX1 a1 a2 th g (simex_run_ic book h0 h0n yd0)).
Proof. exact build_SIMEX1_run. Qed.
Print Assumptions Book_SIMEX1_run_system.

Theorem Book_PC_system : forall a1 a2 th : string,
  ptext a1 = true -> ptext a2 = true -> ptext th = true ->
  forall l0 l1 l2 : string, ptext l0 = true -> ptext l1 = true -> ptext l2 = true ->
  build_g (prog_PC a1 a2 th l0 l1 l2) pc_globals =
  Ok (E_PC a1 a2 th l0 l1 l2 PC_G_BOOK PC_R_BOOK pc_book_ic pc_globals).
Proof. exact build_PC. Qed.
Print Assumptions Book_PC_system.

Theorem Book_PC_run_system : forall a1 a2 th : string,
  ptext a1 = true -> ptext a2 = true -> ptext th = true ->
  forall l0 l1 l2 : string, ptext l0 = true -> ptext l1 = true -> ptext l2 = true ->
  forall (book : bool) (g rr v0 b0 v0n : string),
  build_g (prog_PC_run a1 a2 th l0 l1 l2 book g rr v0 b0 v0n) (globals_if book) =
  Ok (E_PC a1 a2 th l0 l1 l2 g rr (pc_run_ic book v0 b0 v0n) (globals_if book)).
Proof. exact build_PC_run. Qed.
Print Assumptions Book_PC_run_system.

(** without the [ptext] hypotheses: for ANY strings the model yields the raw display (the text
    functions still applied to the unknown strings) *)
Theorem Book_SIM_system_any_text : forall a1 a2 th book g h0 h0n,
  build (prog_SIM_run a1 a2 th book g h0 h0n) = Ok (E_SIM_raw a1 a2 th g [("HH__F", h0); ("GOV__F", h0n)]).
Proof. exact build_SIM_run_raw. Qed.
Print Assumptions Book_SIM_system_any_text.

(* ---------------------------------------------------------------- (2) the book's equations *)
Local Open Scope R_scope.

Theorem Book_SIM_recursion :
  forall (a1 a2 th g : string) (ics : list (string * string)) (v vprev : string -> R),
  ptext a1 = true -> ptext a2 = true -> ptext th = true ->
  sat (E_SIM a1 a2 th g ics) v vprev (bv_std v) ->
  let alpha1 := dec_value a1 in let alpha2 := dec_value a2 in let theta := dec_value th in
  let Y := v "GOOD__SUP_GOOD" in let T := v "GOV__T" in let YD := v "HH__AfterTax" in
  let C := v "HH__DEM_GOOD" in let H := v "HH__F" in let H_1 := vprev "HH__F" in let G := v "GOV__DEM_GOOD" in
  (v "HH__AlphaIncome" = alpha1 /\ v "HH__AlphaFin" = alpha2 /\ v "TF__TaxRate" = theta /\
   v "TF__T" = T /\ v "HH__T" = T) /\
  Y = C + G /\ T = theta * Y /\ YD = Y - T /\ C = alpha1 * YD + alpha2 * H_1 /\ H = H_1 + YD - C.
Proof. exact SIM_recursion. Qed.
Print Assumptions Book_SIM_recursion.

Theorem Book_SIM_closed_form :
  forall (a1 a2 th g : string) (ics : list (string * string)) (v vprev : string -> R),
  ptext a1 = true -> ptext a2 = true -> ptext th = true ->
  sat (E_SIM a1 a2 th g ics) v vprev (bv_std v) ->
  let alpha1 := dec_value a1 in let alpha2 := dec_value a2 in let theta := dec_value th in
  let H_1 := vprev "HH__F" in let G := v "GOV__DEM_GOOD" in
  1 - alpha1 * (1 - theta) <> 0 ->
  let Y := (G + alpha2 * H_1) / (1 - alpha1 * (1 - theta)) in
  v "GOOD__SUP_GOOD" = Y /\ v "GOV__T" = theta * Y /\ v "HH__AfterTax" = (1 - theta) * Y /\
  v "HH__DEM_GOOD" = Y - G /\ v "HH__F" = H_1 + (1 - theta) * Y - (Y - G).
Proof. exact SIM_closed_form_values. Qed.
Print Assumptions Book_SIM_closed_form.

Theorem Book_SIMEX1_recursion :
  forall (a1 a2 th g : string) (ics : list (string * string)) (v vprev : string -> R),
  ptext a1 = true -> ptext a2 = true -> ptext th = true ->
  sat (E_SIMEX1 a1 a2 th g ics) v vprev (bv_std v) ->
  let alpha1 := dec_value a1 in let alpha2 := dec_value a2 in let theta := dec_value th in
  let Y := v "GOOD__SUP_GOOD" in let T := v "GOV__T" in let YD := v "HH__AfterTax" in
  let C := v "HH__DEM_GOOD" in let H := v "HH__F" in let H_1 := vprev "HH__F" in let YD_1 := vprev "HH__AfterTax" in
  let G := v "GOV__DEM_GOOD" in
  (v "HH__AlphaIncome" = alpha1 /\ v "HH__AlphaFin" = alpha2 /\ v "TF__TaxRate" = theta /\
   v "TF__T" = T /\ v "HH__T" = T /\ v "HH__EXP_AfterTax" = YD_1) /\
  Y = C + G /\ T = theta * Y /\ YD = Y - T /\ C = alpha1 * YD_1 + alpha2 * H_1 /\ H = H_1 + YD - C.
Proof. exact SIMEX1_recursion. Qed.
Print Assumptions Book_SIMEX1_recursion.

Theorem Book_SIMEX1_closed_form :
  forall (a1 a2 th g : string) (ics : list (string * string)) (v vprev : string -> R),
  ptext a1 = true -> ptext a2 = true -> ptext th = true ->
  sat (E_SIMEX1 a1 a2 th g ics) v vprev (bv_std v) ->
  let alpha1 := dec_value a1 in let alpha2 := dec_value a2 in let theta := dec_value th in
  let H_1 := vprev "HH__F" in let YD_1 := vprev "HH__AfterTax" in let G := v "GOV__DEM_GOOD" in
  let C := alpha1 * YD_1 + alpha2 * H_1 in let Y := C + G in
  v "HH__DEM_GOOD" = C /\ v "GOOD__SUP_GOOD" = Y /\ v "GOV__T" = theta * Y /\ v "HH__AfterTax" = (1 - theta) * Y /\
  v "HH__F" = H_1 + (1 - theta) * Y - C.
Proof. exact SIMEX1_closed_form_values. Qed.
Print Assumptions Book_SIMEX1_closed_form.

Theorem Book_PC_recursion :
  forall (a1 a2 th l0 l1 l2 g rr : string) (ics gl : list (string * string)) (v vprev : string -> R),
  ptext a1 = true -> ptext a2 = true -> ptext th = true -> ptext l0 = true -> ptext l1 = true -> ptext l2 = true ->
  sat (E_PC a1 a2 th l0 l1 l2 g rr ics gl) v vprev (bv_std v) ->
  let alpha1 := dec_value a1 in let alpha2 := dec_value a2 in let theta := dec_value th in
  let lambda0 := dec_value l0 in let lambda1 := dec_value l1 in let lambda2 := dec_value l2 in
  let Y := v "GOOD__SUP_GOOD" in let T := v "TRE__T" in let YD := v "HH__AfterTax" in let C := v "HH__DEM_GOOD" in
  let V := v "HH__F" in let V_1 := vprev "HH__F" in let B := v "HH__DEM_DEP" in let B_1 := vprev "HH__DEM_DEP" in
  let Hm := v "HH__DEM_MON" in let r := v "DEP__r" in let r_1 := vprev "DEP__r" in let G := v "TRE__DEM_GOOD" in
  (v "HH__AlphaIncome" = alpha1 /\ v "HH__AlphaFin" = alpha2 /\ v "TF__TaxRate" = theta /\
   v "HH__L0" = lambda0 /\ v "HH__L1" = lambda1 /\ v "HH__L2" = lambda2 /\
   v "TF__T" = T /\ v "HH__T" = T /\ v "HH__INTDEP" = r_1 * B_1) /\
  Y = C + G /\ T = theta * (Y + r_1 * B_1) /\ YD = Y - T + r_1 * B_1 /\ C = alpha1 * YD + alpha2 * V_1 /\
  V = V_1 + YD - C /\ B = V * (lambda0 + lambda1 * r - lambda2 * (YD / V)) /\ Hm = V - B.
Proof. exact PC_recursion. Qed.
Print Assumptions Book_PC_recursion.

Theorem Book_PC_closed_form :
  forall (a1 a2 th l0 l1 l2 g rr : string) (ics gl : list (string * string)) (v vprev : string -> R),
  ptext a1 = true -> ptext a2 = true -> ptext th = true -> ptext l0 = true -> ptext l1 = true -> ptext l2 = true ->
  sat (E_PC a1 a2 th l0 l1 l2 g rr ics gl) v vprev (bv_std v) ->
  let alpha1 := dec_value a1 in let alpha2 := dec_value a2 in let theta := dec_value th in
  let lambda0 := dec_value l0 in let lambda1 := dec_value l1 in let lambda2 := dec_value l2 in
  let V_1 := vprev "HH__F" in let B_1 := vprev "HH__DEM_DEP" in let r := v "DEP__r" in let r_1 := vprev "DEP__r" in
  let G := v "TRE__DEM_GOOD" in let V := v "HH__F" in
  1 - alpha1 * (1 - theta) <> 0 -> V <> 0 ->
  let Y := (G + alpha2 * V_1 + alpha1 * (1 - theta) * r_1 * B_1) / (1 - alpha1 * (1 - theta)) in
  let YD := (1 - theta) * (Y + r_1 * B_1) in
  v "GOOD__SUP_GOOD" = Y /\ v "HH__AfterTax" = YD /\ v "TRE__T" = theta * (Y + r_1 * B_1) /\
  v "HH__DEM_GOOD" = alpha1 * YD + alpha2 * V_1 /\ V = V_1 + YD - (alpha1 * YD + alpha2 * V_1) /\
  v "HH__DEM_DEP" = V * (lambda0 + lambda1 * r) - lambda2 * YD /\ v "HH__DEM_DEP" + v "HH__DEM_MON" = V.
Proof. exact PC_closed_form_values. Qed.
Print Assumptions Book_PC_closed_form.

(* ---------------------------------------------------------------- (2') the same from the emitted row TEXTS *)

(** [sat_rows]: the valuations satisfy the rows of fs_rows — the very texts harness/gen_book.py compares
    with the implementation's FinalEquations — each endogenous text parsed as an arithmetic expression
    over full variable names (Text.v), lagged rows taking last period's value. *)
Theorem Book_SIM_recursion_rows :
  forall (a1 a2 th g : string) (ics : list (string * string)) (v vprev : string -> R),
  ptext a1 = true -> ptext a2 = true -> ptext th = true ->
  sat_rows (E_SIM a1 a2 th g ics) v vprev ->
  let alpha1 := dec_value a1 in let alpha2 := dec_value a2 in let theta := dec_value th in
  let Y := v "GOOD__SUP_GOOD" in let T := v "GOV__T" in let YD := v "HH__AfterTax" in
  let C := v "HH__DEM_GOOD" in let H := v "HH__F" in let H_1 := vprev "HH__F" in let G := v "GOV__DEM_GOOD" in
  Y = C + G /\ T = theta * Y /\ YD = Y - T /\ C = alpha1 * YD + alpha2 * H_1 /\ H = H_1 + YD - C.
Proof. exact SIM_recursion_rows. Qed.
Print Assumptions Book_SIM_recursion_rows.

Theorem Book_SIM_closed_form_rows :
  forall (a1 a2 th g : string) (ics : list (string * string)) (v vprev : string -> R),
  ptext a1 = true -> ptext a2 = true -> ptext th = true ->
  sat_rows (E_SIM a1 a2 th g ics) v vprev ->
  let alpha1 := dec_value a1 in let alpha2 := dec_value a2 in let theta := dec_value th in
  let H_1 := vprev "HH__F" in let G := v "GOV__DEM_GOOD" in
  1 - alpha1 * (1 - theta) <> 0 ->
  let Y := (G + alpha2 * H_1) / (1 - alpha1 * (1 - theta)) in
  v "GOOD__SUP_GOOD" = Y /\ v "GOV__T" = theta * Y /\ v "HH__AfterTax" = (1 - theta) * Y /\
  v "HH__DEM_GOOD" = Y - G /\ v "HH__F" = H_1 + (1 - theta) * Y - (Y - G).
Proof. exact SIM_closed_form_rows. Qed.
Print Assumptions Book_SIM_closed_form_rows.

Theorem Book_SIMEX1_recursion_rows :
  forall (a1 a2 th g : string) (ics : list (string * string)) (v vprev : string -> R),
  ptext a1 = true -> ptext a2 = true -> ptext th = true ->
  sat_rows (E_SIMEX1 a1 a2 th g ics) v vprev ->
  let alpha1 := dec_value a1 in let alpha2 := dec_value a2 in let theta := dec_value th in
  let Y := v "GOOD__SUP_GOOD" in let T := v "GOV__T" in let YD := v "HH__AfterTax" in
  let C := v "HH__DEM_GOOD" in let H := v "HH__F" in let H_1 := vprev "HH__F" in let YD_1 := vprev "HH__AfterTax" in
  let G := v "GOV__DEM_GOOD" in
  Y = C + G /\ T = theta * Y /\ YD = Y - T /\ C = alpha1 * YD_1 + alpha2 * H_1 /\ H = H_1 + YD - C.
Proof. exact SIMEX1_recursion_rows. Qed.
Print Assumptions Book_SIMEX1_recursion_rows.

Theorem Book_SIMEX1_closed_form_rows :
  forall (a1 a2 th g : string) (ics : list (string * string)) (v vprev : string -> R),
  ptext a1 = true -> ptext a2 = true -> ptext th = true ->
  sat_rows (E_SIMEX1 a1 a2 th g ics) v vprev ->
  let alpha1 := dec_value a1 in let alpha2 := dec_value a2 in let theta := dec_value th in
  let H_1 := vprev "HH__F" in let YD_1 := vprev "HH__AfterTax" in let G := v "GOV__DEM_GOOD" in
  let C := alpha1 * YD_1 + alpha2 * H_1 in let Y := C + G in
  v "HH__DEM_GOOD" = C /\ v "GOOD__SUP_GOOD" = Y /\ v "GOV__T" = theta * Y /\ v "HH__AfterTax" = (1 - theta) * Y /\
  v "HH__F" = H_1 + (1 - theta) * Y - C.
Proof. exact SIMEX1_closed_form_rows. Qed.
Print Assumptions Book_SIMEX1_closed_form_rows.

Theorem Book_PC_recursion_rows :
  forall (a1 a2 th l0 l1 l2 g rr : string) (ics gl : list (string * string)) (v vprev : string -> R),
  ptext a1 = true -> ptext a2 = true -> ptext th = true -> ptext l0 = true -> ptext l1 = true -> ptext l2 = true ->
  sat_rows (E_PC a1 a2 th l0 l1 l2 g rr ics gl) v vprev ->
  let alpha1 := dec_value a1 in let alpha2 := dec_value a2 in let theta := dec_value th in
  let lambda0 := dec_value l0 in let lambda1 := dec_value l1 in let lambda2 := dec_value l2 in
  let Y := v "GOOD__SUP_GOOD" in let T := v "TRE__T" in let YD := v "HH__AfterTax" in let C := v "HH__DEM_GOOD" in
  let V := v "HH__F" in let V_1 := vprev "HH__F" in let B := v "HH__DEM_DEP" in let B_1 := vprev "HH__DEM_DEP" in
  let Hm := v "HH__DEM_MON" in let r := v "DEP__r" in let r_1 := vprev "DEP__r" in let G := v "TRE__DEM_GOOD" in
  Y = C + G /\ T = theta * (Y + r_1 * B_1) /\ YD = Y - T + r_1 * B_1 /\ C = alpha1 * YD + alpha2 * V_1 /\
  V = V_1 + YD - C /\ B = V * (lambda0 + lambda1 * r - lambda2 * (YD / V)) /\ Hm = V - B.
Proof. exact PC_recursion_rows. Qed.
Print Assumptions Book_PC_recursion_rows.

Theorem Book_PC_closed_form_rows :
  forall (a1 a2 th l0 l1 l2 g rr : string) (ics gl : list (string * string)) (v vprev : string -> R),
  ptext a1 = true -> ptext a2 = true -> ptext th = true -> ptext l0 = true -> ptext l1 = true -> ptext l2 = true ->
  sat_rows (E_PC a1 a2 th l0 l1 l2 g rr ics gl) v vprev ->
  let alpha1 := dec_value a1 in let alpha2 := dec_value a2 in let theta := dec_value th in
  let lambda0 := dec_value l0 in let lambda1 := dec_value l1 in let lambda2 := dec_value l2 in
  let V_1 := vprev "HH__F" in let B_1 := vprev "HH__DEM_DEP" in let r := v "DEP__r" in let r_1 := vprev "DEP__r" in
  let G := v "TRE__DEM_GOOD" in let V := v "HH__F" in
  1 - alpha1 * (1 - theta) <> 0 -> V <> 0 ->
  let Y := (G + alpha2 * V_1 + alpha1 * (1 - theta) * r_1 * B_1) / (1 - alpha1 * (1 - theta)) in
  let YD := (1 - theta) * (Y + r_1 * B_1) in
  v "GOOD__SUP_GOOD" = Y /\ v "HH__AfterTax" = YD /\ v "TRE__T" = theta * (Y + r_1 * B_1) /\
  v "HH__DEM_GOOD" = alpha1 * YD + alpha2 * V_1 /\ V = V_1 + YD - (alpha1 * YD + alpha2 * V_1) /\
  v "HH__DEM_DEP" = V * (lambda0 + lambda1 * r) - lambda2 * YD /\ v "HH__DEM_DEP" + v "HH__DEM_MON" = V.
Proof. exact PC_closed_form_rows. Qed.
Print Assumptions Book_PC_closed_form_rows.

(** the reading of opaque texts used above agrees with the C01 theorems' convention on "0." / "0.0" *)
Theorem Book_bv_std_zero : forall v : string -> R, bv_zero (bv_std v).
Proof. exact bv_std_zero. Qed.
Print Assumptions Book_bv_std_zero.

(* ---------------------------------------------------------------- (3) non-vacuity *)

Example Book_SIM_example :
  let v := val_of sim_now in let vp := val_of sim_prev in
  build bundled_SIM = Ok (E_SIM "0.6000" "0.4000" "0.2000" SIM_G_BOOK []) /\
  sat (E_SIM "0.6000" "0.4000" "0.2000" SIM_G_BOOK []) v vp (bv_std v) /\
  v "GOV__DEM_GOOD" = 20 /\ vp "HH__F" = 15 /\
  v "GOOD__SUP_GOOD" = 50 /\ v "GOV__T" = 10 /\ v "HH__AfterTax" = 40 /\ v "HH__DEM_GOOD" = 30 /\ v "HH__F" = 25.
Proof. exact SIM_example. Qed.
Print Assumptions Book_SIM_example.

Example Book_SIMEX1_example :
  let v := val_of simex_now in let vp := val_of simex_prev in
  build bundled_SIMEX1 = Ok (E_SIMEX1 "0.6000" "0.4000" "0.2000" SIM_G_BOOK [("HH__AfterTax", "16.0")]) /\
  sat (E_SIMEX1 "0.6000" "0.4000" "0.2000" SIM_G_BOOK [("HH__AfterTax", "16.0")]) v vp (bv_std v) /\
  v "GOV__DEM_GOOD" = 20 /\ vp "HH__F" = 15 /\ vp "HH__AfterTax" = 16 /\
  v "HH__DEM_GOOD" = 156 / 10 /\ v "GOOD__SUP_GOOD" = 356 / 10 /\ v "GOV__T" = 712 / 100 /\
  v "HH__AfterTax" = 2848 / 100 /\ v "HH__F" = 2788 / 100.
Proof. exact SIMEX1_example. Qed.
Print Assumptions Book_SIMEX1_example.

Example Book_PC_example :
  let v := val_of pc_now in let vp := val_of pc_prev in
  build_g bundled_PC pc_globals = Ok (E_PC "0.6000" "0.4000" "0.2000" "0.635" "5." ".01" PC_G_BOOK PC_R_BOOK pc_book_ic pc_globals) /\
  sat (E_PC "0.6000" "0.4000" "0.2000" "0.635" "5." ".01" PC_G_BOOK PC_R_BOOK pc_book_ic pc_globals) v vp (bv_std v) /\
  v "TRE__DEM_GOOD" = 1952 / 100 /\ v "DEP__r" = 3 / 100 /\ vp "DEP__r" = 25 / 1000 /\ vp "HH__F" = 80 /\ vp "HH__DEM_DEP" = 40 /\
  v "GOOD__SUP_GOOD" = 100 /\ v "TRE__T" = 202 / 10 /\ v "HH__AfterTax" = 808 / 10 /\ v "HH__DEM_GOOD" = 8048 / 100 /\
  v "HH__F" = 8032 / 100 /\ v "HH__DEM_DEP" = 622432 / 10000 /\ v "HH__DEM_MON" = 180768 / 10000 /\ v "HH__F" <> 0.
Proof. exact PC_example. Qed.
Print Assumptions Book_PC_example.

Example Book_SIM_example_rows :
  sat_rows (E_SIM "0.6000" "0.4000" "0.2000" SIM_G_BOOK []) (val_of sim_now) (val_of sim_prev).
Proof. exact SIM_example_rows. Qed.
Print Assumptions Book_SIM_example_rows.

Example Book_SIMEX1_example_rows :
  sat_rows (E_SIMEX1 "0.6000" "0.4000" "0.2000" SIM_G_BOOK [("HH__AfterTax", "16.0")]) (val_of simex_now) (val_of simex_prev).
Proof. exact SIMEX1_example_rows. Qed.
Print Assumptions Book_SIMEX1_example_rows.

Example Book_PC_example_rows :
  sat_rows (E_PC "0.6000" "0.4000" "0.2000" "0.635" "5." ".01" PC_G_BOOK PC_R_BOOK pc_book_ic []) (val_of pc_now) (val_of pc_prev).
Proof. exact PC_example_rows. Qed.
Print Assumptions Book_PC_example_rows.
