(** Boolean comparison evaluated by the generated correspondence cases of harness/gen_book.py:
    the implementation's FinalEquations for a REAL builder run (what its own EquationParser reads off
    them: endogenous rows, lagged rows, exogenous rows in emission order, initial conditions) against
    the displayed system [E_*] instantiated at the formatted parameter texts.  Same conventions as
    GenMain2/CaseDefs.v (texts compared with blanks removed; the last initial condition for a name
    wins).  [book_case] also evaluates the theorems' hypotheses ([ptext]) on the texts. *)
From Coq Require Import List String Ascii Bool ZArith Arith.
From SFC.Base Require Import Res Str.
From SFC.Gen Require Import Fx Zone.
From SFC.GenMain2 Require Import Program Classes Main CaseDefs.
From SFC.GenBook Require Import Text Builders BuildProofs.
Import ListNotations.
Local Open Scope string_scope.

Definition sys_case (E : final_system) (x : expected) : bool :=
  match x with
  | ExpOk endo lag exo ic =>
      pairs_eqb (endo_rows E) endo && pairs_eqb (lag_rows E) lag && pairs_eqb (exo_rows E) exo && ic_eqb (fs_ic E) ic
  | ExpErr _ => false
  end.

Definition book_case (params : list string) (E : final_system) (x : expected) : bool :=
  forallb ptext params && sys_case E x.

(** the model run on the program of the same builder call (a by-product: equal to [E] by the
    theorems of BuildProofs.v whenever the texts are parameter-shaped) *)
Definition built_case (r : result final_system) (x : expected) : bool :=
  match r with Ok E => sys_case E x | Err _ => false end.

Definition show_sys (E : final_system) := (endo_rows E, lag_rows E, exo_rows E, fs_ic E).
