(** The book's period equations, from the systems the builders emit, for ALL parameter texts, all
    exogenous values and all inherited stocks.

    [v] / [vprev]: values of the current / previous period; opaque right-hand sides are read by
    [bv_std v] (Text.v).  alpha1 = [dec_value a1] is the value of the EMITTED text (D09: a
    propensity given with more than four decimals reaches the system rounded by '%0.4f'; the
    theorems speak about the number the text spells).  Exogenous rows say nothing in [sat]: G (and
    r in PC) are arbitrary reals. *)
From Coq Require Import List String Ascii Bool ZArith Arith QArith Reals Qreals Lra.
From SFC.Base Require Import Res Str.
From SFC.Gen Require Import Fx Zone Book.
From SFC.GenMain2 Require Import Program Classes Main Conflict.
From SFC.GenBook Require Import Text Builders Sem.
Import ListNotations.
Local Open Scope nat_scope.
Local Open Scope string_scope.

(* ------------------------------------------------------------------ *)
(** * SIM *)
Section SIM.
  Variables (a1 a2 th g : string) (ics : list (string * string)) (v vprev : string -> R).
  Hypothesis H1 : ptext a1 = true.
  Hypothesis H2 : ptext a2 = true.
  Hypothesis H3 : ptext th = true.
  Hypothesis Hsat : sat (E_SIM a1 a2 th g ics) v vprev (bv_std v).
  Let Z := Z_SIM_gen idtext a1 a2 th g.
  Local Open Scope R_scope.

  (** income of the household = output (labour market, zero-profit firm) *)
  Lemma SIM_income : v "HH__INC" = v "GOOD__SUP_GOOD".
  Proof.
    row Hsat Z 1%nat "INC" Hr1. row Hsat Z 1%nat "SUP_LAB" Hr2. row Hsat Z 4%nat "SUP_HH" Hr3. row Hsat Z 4%nat "SUP_LAB" Hr4.
    row Hsat Z 4%nat "DEM_LAB" Hr5. row Hsat Z 2%nat "DEM_LAB" Hr6. lra.
  Qed.

  Theorem SIM_recursion :
    let alpha1 := dec_value a1 in let alpha2 := dec_value a2 in let theta := dec_value th in
    let Y := v "GOOD__SUP_GOOD" in let T := v "GOV__T" in let YD := v "HH__AfterTax" in
    let C := v "HH__DEM_GOOD" in let H := v "HH__F" in let H_1 := vprev "HH__F" in let G := v "GOV__DEM_GOOD" in
    (v "HH__AlphaIncome" = alpha1 /\ v "HH__AlphaFin" = alpha2 /\ v "TF__TaxRate" = theta /\
     v "TF__T" = T /\ v "HH__T" = T) /\
    Y = C + G /\ T = theta * Y /\ YD = Y - T /\ C = alpha1 * YD + alpha2 * H_1 /\ H = H_1 + YD - C.
  Proof.
    pose proof SIM_income as EI.
    prow Hsat Z 1%nat "AlphaIncome" a1 H1 PA1. prow Hsat Z 1%nat "AlphaFin" a2 H2 PA2. prow Hsat Z 3%nat "TaxRate" th H3 PTH.
    row Hsat Z 5%nat "SUP_GOOD" EY. row Hsat Z 5%nat "DEM_GOOD" ED.
    row Hsat Z 0%nat "T" EGT. row Hsat Z 3%nat "T" ETF. row Hsat Z 1%nat "T" EHT.
    row Hsat Z 1%nat "AfterTax" EYD. row Hsat Z 1%nat "DEM_GOOD" EC. row Hsat Z 1%nat "F" EF. row Hsat Z 1%nat "INC" EINC.
    lrow Hsat Z 1%nat "LAG_F" EL.
    cbv zeta. rewrite EL in EC, EF. rewrite PA1, PA2 in EC. rewrite PTH, EI in ETF, EHT.
    repeat split; try assumption; lra.
  Qed.

  Theorem SIM_closed_form_values :
    let alpha1 := dec_value a1 in let alpha2 := dec_value a2 in let theta := dec_value th in
    let H_1 := vprev "HH__F" in let G := v "GOV__DEM_GOOD" in
    1 - alpha1 * (1 - theta) <> 0 ->
    let Y := (G + alpha2 * H_1) / (1 - alpha1 * (1 - theta)) in
    v "GOOD__SUP_GOOD" = Y /\ v "GOV__T" = theta * Y /\ v "HH__AfterTax" = (1 - theta) * Y /\
    v "HH__DEM_GOOD" = Y - G /\ v "HH__F" = H_1 + (1 - theta) * Y - (Y - G).
  Proof.
    cbv zeta. intros Hd. destruct SIM_recursion as (_ & EY & ET & EYD & EC & EH).
    destruct (SIM_closed_form _ _ _ _ _ _ _ _ _ _ Hd EY ET EYD EC EH) as (K1 & K2 & K3 & K4 & K5).
    rewrite <- K1. repeat split; assumption.
  Qed.
End SIM.

(* ------------------------------------------------------------------ *)
(** * SIMEX1: consumption out of last period's disposable income *)
Section SIMEX1.
  Variables (a1 a2 th g : string) (ics : list (string * string)) (v vprev : string -> R).
  Hypothesis H1 : ptext a1 = true.
  Hypothesis H2 : ptext a2 = true.
  Hypothesis H3 : ptext th = true.
  Hypothesis Hsat : sat (E_SIMEX1 a1 a2 th g ics) v vprev (bv_std v).
  Let Z := Z_SIMEX1_gen idtext a1 a2 th g.
  Local Open Scope R_scope.

  Lemma SIMEX1_income : v "HH__INC" = v "GOOD__SUP_GOOD".
  Proof.
    row Hsat Z 1%nat "INC" Hr1. row Hsat Z 1%nat "SUP_LAB" Hr2. row Hsat Z 4%nat "SUP_HH" Hr3. row Hsat Z 4%nat "SUP_LAB" Hr4.
    row Hsat Z 4%nat "DEM_LAB" Hr5. row Hsat Z 2%nat "DEM_LAB" Hr6. lra.
  Qed.

  Theorem SIMEX1_recursion :
    let alpha1 := dec_value a1 in let alpha2 := dec_value a2 in let theta := dec_value th in
    let Y := v "GOOD__SUP_GOOD" in let T := v "GOV__T" in let YD := v "HH__AfterTax" in
    let C := v "HH__DEM_GOOD" in let H := v "HH__F" in let H_1 := vprev "HH__F" in let YD_1 := vprev "HH__AfterTax" in
    let G := v "GOV__DEM_GOOD" in
    (v "HH__AlphaIncome" = alpha1 /\ v "HH__AlphaFin" = alpha2 /\ v "TF__TaxRate" = theta /\
     v "TF__T" = T /\ v "HH__T" = T /\ v "HH__EXP_AfterTax" = YD_1) /\
    Y = C + G /\ T = theta * Y /\ YD = Y - T /\ C = alpha1 * YD_1 + alpha2 * H_1 /\ H = H_1 + YD - C.
  Proof.
    pose proof SIMEX1_income as EI.
    prow Hsat Z 1%nat "AlphaIncome" a1 H1 PA1. prow Hsat Z 1%nat "AlphaFin" a2 H2 PA2. prow Hsat Z 3%nat "TaxRate" th H3 PTH.
    row Hsat Z 5%nat "SUP_GOOD" EY. row Hsat Z 5%nat "DEM_GOOD" ED.
    row Hsat Z 0%nat "T" EGT. row Hsat Z 3%nat "T" ETF. row Hsat Z 1%nat "T" EHT.
    row Hsat Z 1%nat "AfterTax" EYD. row Hsat Z 1%nat "DEM_GOOD" EC. row Hsat Z 1%nat "F" EF. row Hsat Z 1%nat "INC" EINC.
    row Hsat Z 1%nat "EXP_AfterTax" EX.
    lrow Hsat Z 1%nat "LAG_F" EL. lrow Hsat Z 1%nat "LAG_AfterTax" ELY.
    cbv zeta. rewrite ELY in EX. assert (EX' : v "HH__EXP_AfterTax" = vprev "HH__AfterTax") by lra.
    rewrite EL in EC, EF. rewrite PA1, PA2, EX' in EC. rewrite PTH, EI in ETF, EHT.
    repeat split; try assumption; lra.
  Qed.

  Theorem SIMEX1_closed_form_values :
    let alpha1 := dec_value a1 in let alpha2 := dec_value a2 in let theta := dec_value th in
    let H_1 := vprev "HH__F" in let YD_1 := vprev "HH__AfterTax" in let G := v "GOV__DEM_GOOD" in
    let C := alpha1 * YD_1 + alpha2 * H_1 in let Y := C + G in
    v "HH__DEM_GOOD" = C /\ v "GOOD__SUP_GOOD" = Y /\ v "GOV__T" = theta * Y /\ v "HH__AfterTax" = (1 - theta) * Y /\
    v "HH__F" = H_1 + (1 - theta) * Y - C.
  Proof.
    cbv zeta. destruct SIMEX1_recursion as (_ & EY & ET & EYD & EC & EH).
    destruct (SIMEX1_closed_form _ _ _ _ _ _ _ _ _ _ _ EY ET EYD EC EH) as (K1 & K2 & K3 & K4 & K5).
    rewrite <- K2. repeat split; assumption.
  Qed.
End SIMEX1.

(* ------------------------------------------------------------------ *)
(** * PC: bills and money; interest on LAST period's bills at LAST period's rate is taxed income *)
Section PC.
  Variables (a1 a2 th l0 l1 l2 g rr : string) (ics gl : list (string * string)) (v vprev : string -> R).
  Hypothesis H1 : ptext a1 = true.
  Hypothesis H2 : ptext a2 = true.
  Hypothesis H3 : ptext th = true.
  Hypothesis H4 : ptext l0 = true.
  Hypothesis H5 : ptext l1 = true.
  Hypothesis H6 : ptext l2 = true.
  Hypothesis Hsat : sat (E_PC a1 a2 th l0 l1 l2 g rr ics gl) v vprev (bv_std v).
  Let Z := Z_PC_gen idtext a1 a2 th l0 l1 l2 g rr.
  Local Open Scope R_scope.

  (** household income = output + interest on last period's bills at last period's rate *)
  Lemma PC_income : v "HH__INC" = v "GOOD__SUP_GOOD" + vprev "DEP__r" * vprev "HH__DEM_DEP".
  Proof.
    row Hsat Z 2%nat "INC" Hr1. row Hsat Z 2%nat "SUP_LAB" Hr2. row Hsat Z 5%nat "SUP_HH" Hr3. row Hsat Z 5%nat "SUP_LAB" Hr4.
    row Hsat Z 5%nat "DEM_LAB" Hr5. row Hsat Z 3%nat "DEM_LAB" Hr6. row Hsat Z 2%nat "INTDEP" EI.
    lrow Hsat Z 8%nat "LAG_r" ELR. lrow Hsat Z 2%nat "LAG_DEM_DEP" ELB.
    rewrite ELR, ELB in EI. lra.
  Qed.

  Lemma PC_interest : v "HH__INTDEP" = vprev "DEP__r" * vprev "HH__DEM_DEP".
  Proof.
    row Hsat Z 2%nat "INTDEP" EI. lrow Hsat Z 8%nat "LAG_r" ELR. lrow Hsat Z 2%nat "LAG_DEM_DEP" ELB.
    rewrite ELR, ELB in EI. lra.
  Qed.

  Theorem PC_recursion :
    let alpha1 := dec_value a1 in let alpha2 := dec_value a2 in let theta := dec_value th in
    let lambda0 := dec_value l0 in let lambda1 := dec_value l1 in let lambda2 := dec_value l2 in
    let Y := v "GOOD__SUP_GOOD" in let T := v "TRE__T" in let YD := v "HH__AfterTax" in let C := v "HH__DEM_GOOD" in
    let V := v "HH__F" in let V_1 := vprev "HH__F" in let B := v "HH__DEM_DEP" in let B_1 := vprev "HH__DEM_DEP" in
    let Hm := v "HH__DEM_MON" in let r := v "DEP__r" in let r_1 := vprev "DEP__r" in let G := v "TRE__DEM_GOOD" in
    (v "HH__AlphaIncome" = alpha1 /\ v "HH__AlphaFin" = alpha2 /\ v "TF__TaxRate" = theta /\
     v "HH__L0" = lambda0 /\ v "HH__L1" = lambda1 /\ v "HH__L2" = lambda2 /\
     v "TF__T" = T /\ v "HH__T" = T /\ v "HH__INTDEP" = r_1 * B_1) /\
    Y = C + G /\ T = theta * (Y + r_1 * B_1) /\ YD = Y - T + r_1 * B_1 /\ C = alpha1 * YD + alpha2 * V_1 /\
    V = V_1 + YD - C /\ B = V * (lambda0 + lambda1 * r - lambda2 * (YD / V)) /\ Hm = V - B.
  Proof.
    pose proof PC_income as EI. pose proof PC_interest as EINT.
    prow Hsat Z 2%nat "AlphaIncome" a1 H1 PA1. prow Hsat Z 2%nat "AlphaFin" a2 H2 PA2. prow Hsat Z 4%nat "TaxRate" th H3 PTH.
    prow Hsat Z 2%nat "L0" l0 H4 PL0. prow Hsat Z 2%nat "L1" l1 H5 PL1. prow Hsat Z 2%nat "L2" l2 H6 PL2.
    row Hsat Z 6%nat "SUP_GOOD" EY. row Hsat Z 6%nat "DEM_GOOD" ED.
    row Hsat Z 0%nat "T" EGT. row Hsat Z 4%nat "T" ETF. row Hsat Z 2%nat "T" EHT.
    row Hsat Z 2%nat "AfterTax" EYD. row Hsat Z 2%nat "DEM_GOOD" EC. row Hsat Z 2%nat "F" EF. row Hsat Z 2%nat "INC" EINC.
    row Hsat Z 2%nat "WGT_DEP" EW. row Hsat Z 2%nat "DEM_DEP" EB. row Hsat Z 2%nat "WGT_MON" EWM. row Hsat Z 2%nat "DEM_MON" EM.
    lrow Hsat Z 2%nat "LAG_F" EL.
    cbv zeta. rewrite EL in EC, EF. rewrite PA1, PA2 in EC. rewrite PTH, EI in ETF, EHT. rewrite PL0, PL1, PL2 in EW.
    assert (EB' : v "HH__DEM_DEP" = v "HH__F" * v "HH__WGT_DEP") by lra.
    assert (EM' : v "HH__DEM_MON" = v "HH__F" * v "HH__WGT_MON") by lra.
    assert (EWM' : v "HH__WGT_MON" = 1 - v "HH__WGT_DEP") by lra.
    assert (EW' : v "HH__WGT_DEP" = dec_value l0 + dec_value l1 * v "DEP__r" - dec_value l2 * (v "HH__AfterTax" / v "HH__F")) by lra.
    repeat split; try assumption; try lra.
    - rewrite EB', EW'. reflexivity.
    - rewrite EM', EWM', EB'. ring.
  Qed.

  Theorem PC_closed_form_values :
    let alpha1 := dec_value a1 in let alpha2 := dec_value a2 in let theta := dec_value th in
    let lambda0 := dec_value l0 in let lambda1 := dec_value l1 in let lambda2 := dec_value l2 in
    let V_1 := vprev "HH__F" in let B_1 := vprev "HH__DEM_DEP" in let r := v "DEP__r" in let r_1 := vprev "DEP__r" in
    let G := v "TRE__DEM_GOOD" in let V := v "HH__F" in
    1 - alpha1 * (1 - theta) <> 0 -> V <> 0 ->
    let Y := (G + alpha2 * V_1 + alpha1 * (1 - theta) * r_1 * B_1) / (1 - alpha1 * (1 - theta)) in
    let YD := (1 - theta) * (Y + r_1 * B_1) in
    v "GOOD__SUP_GOOD" = Y /\ v "HH__AfterTax" = YD /\ v "TRE__T" = theta * (Y + r_1 * B_1) /\
    v "HH__DEM_GOOD" = alpha1 * YD + alpha2 * V_1 /\ V = V_1 + YD - (alpha1 * YD + alpha2 * V_1) /\
    v "HH__DEM_DEP" = V * (lambda0 + lambda1 * r) - lambda2 * YD /\ v "HH__DEM_DEP" + v "HH__DEM_MON" = V.
  Proof.
    cbv zeta. intros Hd HV. destruct PC_recursion as (_ & EY & ET & EYD & EC & EV & EB & EH).
    destruct (PC_closed_form _ _ _ _ _ _ _ _ _ _ _ _ _ _ _ _ _ _ Hd HV EY ET EYD EC EV EB EH) as (K1 & K2 & K3 & K4).
    rewrite <- K1, <- K2. repeat split; try assumption; try lra.
  Qed.
End PC.
