(** Non-vacuity: the book calibration ("0.6000", "0.4000", "0.2000"; "0.635", "5.", ".01") and, for each
    model, a concrete pair of valuations that satisfies the displayed system — one period of the
    model, computed exactly (rationals) from the equations the REAL builders emit
    (agent_reports/GenBook_examples.py) — so the hypotheses of the recursion theorems are satisfiable,
    and the theorems' conclusions are seen on it. *)
From Coq Require Import List String Ascii Bool ZArith Arith QArith Reals Qreals Lra.
From SFC.Base Require Import Res Str.
From SFC.Gen Require Import Fx Zone.
From SFC.GenMain2 Require Import Program Classes Main Conflict Witness.
From SFC.GenBook Require Import Text Builders BuildProofs Sem BookProofs.
Import ListNotations.
Local Open Scope string_scope.

Fixpoint qassoc (t : list (string * Q)) (x : string) : Q :=
  match t with [] => 0%Q | (k, q) :: r => if String.eqb x k then q else qassoc r x end.

Definition val_of (t : list (string * Q)) (x : string) : R := Q2R (qassoc t x).

Definition sim_now : list (string * Q) :=
  [("GOV__F", ((-25) # 1)); ("GOV__FISC_BAL", ((-10) # 1)); ("GOV__INC", ((-10) # 1));
   ("GOV__PRIM_BAL", ((-10) # 1)); ("GOV__T", (10 # 1)); ("HH__AfterTax", (40 # 1)); ("HH__AlphaFin", (2 # 5));
   ("HH__AlphaIncome", (3 # 5)); ("HH__DEM_GOOD", (30 # 1)); ("HH__F", (25 # 1)); ("HH__INC", (50 # 1));
   ("HH__SUP_LAB", (50 # 1)); ("HH__T", (10 # 1)); ("BUS__DEM_LAB", (50 # 1)); ("BUS__F", (0 # 1));
   ("BUS__INC", (0 # 1)); ("BUS__PROF", (0 # 1)); ("BUS__SUP_GOOD", (50 # 1)); ("TF__T", (10 # 1));
   ("TF__TaxRate", (1 # 5)); ("LAB__DEM_LAB", (50 # 1)); ("LAB__SUP_HH", (50 # 1)); ("LAB__SUP_LAB", (50 # 1));
   ("GOOD__DEM_GOOD", (50 # 1)); ("GOOD__SUP_BUS", (50 # 1)); ("GOOD__SUP_GOOD", (50 # 1));
   ("GOV__LAG_F", ((-15) # 1)); ("HH__LAG_F", (15 # 1)); ("BUS__LAG_F", (0 # 1)); ("GOV__DEM_GOOD", (20 # 1))].
Definition sim_prev : list (string * Q) :=
  [("HH__F", (15 # 1)); ("GOV__F", ((-15) # 1)); ("BUS__F", (0 # 1))].

Definition simex_now : list (string * Q) :=
  [("GOV__F", ((-697) # 25)); ("GOV__FISC_BAL", ((-322) # 25)); ("GOV__INC", ((-322) # 25));
   ("GOV__PRIM_BAL", ((-322) # 25)); ("GOV__T", (178 # 25)); ("HH__AfterTax", (712 # 25));
   ("HH__AlphaFin", (2 # 5)); ("HH__AlphaIncome", (3 # 5)); ("HH__DEM_GOOD", (78 # 5));
   ("HH__EXP_AfterTax", (16 # 1)); ("HH__F", (697 # 25)); ("HH__INC", (178 # 5)); ("HH__SUP_LAB", (178 # 5));
   ("HH__T", (178 # 25)); ("BUS__DEM_LAB", (178 # 5)); ("BUS__F", (0 # 1)); ("BUS__INC", (0 # 1));
   ("BUS__PROF", (0 # 1)); ("BUS__SUP_GOOD", (178 # 5)); ("TF__T", (178 # 25)); ("TF__TaxRate", (1 # 5));
   ("LAB__DEM_LAB", (178 # 5)); ("LAB__SUP_HH", (178 # 5)); ("LAB__SUP_LAB", (178 # 5));
   ("GOOD__DEM_GOOD", (178 # 5)); ("GOOD__SUP_BUS", (178 # 5)); ("GOOD__SUP_GOOD", (178 # 5));
   ("GOV__LAG_F", ((-15) # 1)); ("HH__LAG_AfterTax", (16 # 1)); ("HH__LAG_F", (15 # 1)); ("BUS__LAG_F", (0 # 1));
   ("GOV__DEM_GOOD", (20 # 1))].
Definition simex_prev : list (string * Q) :=
  [("HH__F", (15 # 1)); ("GOV__F", ((-15) # 1)); ("BUS__F", (0 # 1)); ("HH__AfterTax", (16 # 1))].

Definition pc_now : list (string * Q) :=
  [("TRE__DEM_MON", (0 # 1)); ("TRE__F", ((-2008) # 25)); ("TRE__FISCBAL", ((-8) # 25)); ("TRE__INC", ((-8) # 25));
   ("TRE__INTDEP", (2 # 1)); ("TRE__PRIM_BAL", (17 # 25)); ("TRE__SUP_DEP", (2008 # 25)); ("TRE__T", (101 # 5));
   ("CB__DEM_DEP", (11298 # 625)); ("CB__F", (0 # 1)); ("CB__INC", (0 # 1)); ("CB__INTDEP", (1 # 1));
   ("CB__SUP_MON", (11298 # 625)); ("HH__AfterTax", (404 # 5)); ("HH__AlphaFin", (2 # 5));
   ("HH__AlphaIncome", (3 # 5)); ("HH__DEM_DEP", (38902 # 625)); ("HH__DEM_GOOD", (2012 # 25));
   ("HH__DEM_MON", (11298 # 625)); ("HH__F", (2008 # 25)); ("HH__INC", (101 # 1)); ("HH__INTDEP", (1 # 1));
   ("HH__L0", (127 # 200)); ("HH__L1", (5 # 1)); ("HH__L2", (1 # 100)); ("HH__SUP_LAB", (100 # 1));
   ("HH__T", (101 # 5)); ("HH__WGT_DEP", (19451 # 25100)); ("HH__WGT_MON", (5649 # 25100));
   ("BUS__DEM_LAB", (100 # 1)); ("BUS__DEM_MON", (0 # 1)); ("BUS__F", (0 # 1)); ("BUS__INC", (0 # 1));
   ("BUS__PROF", (0 # 1)); ("BUS__SUP_GOOD", (100 # 1)); ("TF__T", (101 # 5)); ("TF__TaxRate", (1 # 5));
   ("LAB__DEM_LAB", (100 # 1)); ("LAB__SUP_HH", (100 # 1)); ("LAB__SUP_LAB", (100 # 1));
   ("GOOD__DEM_GOOD", (100 # 1)); ("GOOD__SUP_BUS", (100 # 1)); ("GOOD__SUP_GOOD", (100 # 1));
   ("MON__DEM_MON", (11298 # 625)); ("MON__SUP_MON", (11298 # 625)); ("DEP__DEM_DEP", (2008 # 25));
   ("DEP__SUP_DEP", (2008 # 25)); ("TRE__LAG_F", ((-80) # 1)); ("TRE__LAG_SUP_DEP", (80 # 1));
   ("CB__LAG_DEM_DEP", (40 # 1)); ("CB__LAG_F", (0 # 1)); ("HH__LAG_DEM_DEP", (40 # 1)); ("HH__LAG_F", (80 # 1));
   ("BUS__LAG_F", (0 # 1)); ("DEP__LAG_r", (1 # 40)); ("TRE__DEM_GOOD", (488 # 25)); ("DEP__r", (3 # 100))].
Definition pc_prev : list (string * Q) :=
  [("HH__F", (80 # 1)); ("TRE__F", ((-80) # 1)); ("CB__F", (0 # 1)); ("BUS__F", (0 # 1));
   ("HH__DEM_DEP", (40 # 1)); ("CB__DEM_DEP", (40 # 1)); ("TRE__SUP_DEP", (80 # 1)); ("DEP__r", (1 # 40))].

(** one row of [Witness.compiled] on a table valuation *)
Ltac table_row :=
  cbv [sem1]; try exact I;
  unfold eqn_val, Witness.dummy; cbn [blob terms fullcode String.eqb Ascii.eqb Bool.eqb tsum_in];
  unfold tval_in; cbn [fval_in fst snd];
  repeat match goal with
         | |- context [qualify ?s ?n] =>
             let p := eval vm_compute in (qualify s n) in replace (qualify s n) with p by (vm_compute; reflexivity)
         end;
  repeat match goal with
         | |- context [append ?a ?b] => let p := eval vm_compute in (append a b) in change (append a b) with p
         end;
  unfold bv_std;
  repeat match goal with
         | |- context [parse_text ?t] =>
             let p := eval vm_compute in (parse_text t) in replace (parse_text t) with p by (vm_compute; reflexivity)
         end;
  cbn [evalB];
  repeat match goal with
         | |- context [bname ?fc ?n] =>
             let p := eval vm_compute in (bname fc n) in replace (bname fc n) with p by (vm_compute; reflexivity)
         end;
  unfold dec_value;
  repeat match goal with
         | |- context [dec_q ?t] => let p := eval vm_compute in (dec_q t) in replace (dec_q t) with p by (vm_compute; reflexivity)
         end;
  unfold val_of;
  repeat match goal with
         | |- context [qassoc ?t ?x] =>
             let q := eval vm_compute in (qassoc t x) in replace (qassoc t x) with q by (vm_compute; reflexivity)
         end;
  unfold Q2R; cbn [Qnum Qden]; lra.

Ltac table_sat :=
  apply sat_intro;
  match goal with |- Forall _ ?L => let l := eval vm_compute in L in replace L with l by (vm_compute; reflexivity) end;
  repeat (apply Forall_cons; [table_row|]); apply Forall_nil.

Ltac table_val :=
  unfold val_of;
  repeat match goal with
         | |- context [qassoc ?t ?x] =>
             let q := eval vm_compute in (qassoc t x) in replace (qassoc t x) with q by (vm_compute; reflexivity)
         end;
  unfold Q2R; cbn [Qnum Qden]; lra.

Local Open Scope R_scope.

(** SIM, G = 20, H_1 = 15: Y = 50, T = 10, YD = 40, C = 30, H = 25 *)
Example SIM_example :
  let v := val_of sim_now in let vp := val_of sim_prev in
  build bundled_SIM = Ok (E_SIM "0.6000" "0.4000" "0.2000" SIM_G_BOOK []) /\
  sat (E_SIM "0.6000" "0.4000" "0.2000" SIM_G_BOOK []) v vp (bv_std v) /\
  v "GOV__DEM_GOOD" = 20 /\ vp "HH__F" = 15 /\
  v "GOOD__SUP_GOOD" = 50 /\ v "GOV__T" = 10 /\ v "HH__AfterTax" = 40 /\ v "HH__DEM_GOOD" = 30 /\ v "HH__F" = 25.
Proof.
  cbv zeta. split; [exact (build_SIM "0.6000" "0.4000" "0.2000" eq_refl eq_refl eq_refl)|]. split; [table_sat|].
  repeat split; table_val.
Qed.

(** SIMEX1, G = 20, H_1 = 15, YD_1 = 16: C = 15.6, Y = 35.6, T = 7.12, YD = 28.48, H = 27.88 *)
Example SIMEX1_example :
  let v := val_of simex_now in let vp := val_of simex_prev in
  build bundled_SIMEX1 = Ok (E_SIMEX1 "0.6000" "0.4000" "0.2000" SIM_G_BOOK [("HH__AfterTax", "16.0")]) /\
  sat (E_SIMEX1 "0.6000" "0.4000" "0.2000" SIM_G_BOOK [("HH__AfterTax", "16.0")]) v vp (bv_std v) /\
  v "GOV__DEM_GOOD" = 20 /\ vp "HH__F" = 15 /\ vp "HH__AfterTax" = 16 /\
  v "HH__DEM_GOOD" = 156 / 10 /\ v "GOOD__SUP_GOOD" = 356 / 10 /\ v "GOV__T" = 712 / 100 /\
  v "HH__AfterTax" = 2848 / 100 /\ v "HH__F" = 2788 / 100.
Proof.
  cbv zeta. split; [exact (build_SIMEX1 "0.6000" "0.4000" "0.2000" eq_refl eq_refl eq_refl)|]. split; [table_sat|].
  repeat split; table_val.
Qed.

(** PC, G = 19.52, r = 0.03, r_1 = 0.025, V_1 = 80, B_1 = 40: Y = 100, T = 20.2, YD = 80.8, C = 80.48,
    V = 80.32, B = 62.2432, H = 18.0768 *)
Example PC_example :
  let v := val_of pc_now in let vp := val_of pc_prev in
  build_g bundled_PC pc_globals = Ok (E_PC "0.6000" "0.4000" "0.2000" "0.635" "5." ".01" PC_G_BOOK PC_R_BOOK pc_book_ic pc_globals) /\
  sat (E_PC "0.6000" "0.4000" "0.2000" "0.635" "5." ".01" PC_G_BOOK PC_R_BOOK pc_book_ic pc_globals) v vp (bv_std v) /\
  v "TRE__DEM_GOOD" = 1952 / 100 /\ v "DEP__r" = 3 / 100 /\ vp "DEP__r" = 25 / 1000 /\ vp "HH__F" = 80 /\ vp "HH__DEM_DEP" = 40 /\
  v "GOOD__SUP_GOOD" = 100 /\ v "TRE__T" = 202 / 10 /\ v "HH__AfterTax" = 808 / 10 /\ v "HH__DEM_GOOD" = 8048 / 100 /\
  v "HH__F" = 8032 / 100 /\ v "HH__DEM_DEP" = 622432 / 10000 /\ v "HH__DEM_MON" = 180768 / 10000 /\ v "HH__F" <> 0.
Proof.
  cbv zeta. split; [exact (build_PC "0.6000" "0.4000" "0.2000" eq_refl eq_refl eq_refl "0.635" "5." ".01" eq_refl eq_refl eq_refl)|]. split; [table_sat|].
  repeat split; table_val.
Qed.

(** the same valuations satisfy the emitted row TEXTS ([sat_rows]) *)
Ltac table_text_row :=
  unfold row_ok; cbn [r_kind r_lhs];
  repeat match goal with
         | |- context [parse_text ?t] =>
             let p := eval vm_compute in (parse_text t) in replace (parse_text t) with p by (vm_compute; reflexivity)
         end;
  try exact I;
  cbn [evalB];
  repeat match goal with
         | |- context [bname ?fc ?n] =>
             let p := eval vm_compute in (bname fc n) in replace (bname fc n) with p by (vm_compute; reflexivity)
         end;
  unfold dec_value;
  repeat match goal with
         | |- context [dec_q ?t] => let p := eval vm_compute in (dec_q t) in replace (dec_q t) with p by (vm_compute; reflexivity)
         end;
  unfold val_of;
  repeat match goal with
         | |- context [qassoc ?t ?x] =>
             let q := eval vm_compute in (qassoc t x) in replace (qassoc t x) with q by (vm_compute; reflexivity)
         end;
  unfold Q2R; cbn [Qnum Qden]; lra.

Ltac table_sat_rows :=
  unfold sat_rows;
  match goal with |- Forall _ ?L => let l := eval vm_compute in L in replace L with l by (vm_compute; reflexivity) end;
  repeat (apply Forall_cons; [table_text_row|]); apply Forall_nil.

Example SIM_example_rows :
  sat_rows (E_SIM "0.6000" "0.4000" "0.2000" SIM_G_BOOK []) (val_of sim_now) (val_of sim_prev).
Proof. table_sat_rows. Qed.

Example SIMEX1_example_rows :
  sat_rows (E_SIMEX1 "0.6000" "0.4000" "0.2000" SIM_G_BOOK [("HH__AfterTax", "16.0")]) (val_of simex_now) (val_of simex_prev).
Proof. table_sat_rows. Qed.

(** without the global time axis t = 1950. + k (not a variable of the period's system) *)
Example PC_example_rows :
  sat_rows (E_PC "0.6000" "0.4000" "0.2000" "0.635" "5." ".01" PC_G_BOOK PC_R_BOOK pc_book_ic []) (val_of pc_now) (val_of pc_prev).
Proof. table_sat_rows. Qed.
