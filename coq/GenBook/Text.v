(** Texts of numeric parameters and the reading of right-hand-side texts.

    (1) [ptext a]: [a] is a NUMBER token of digits and dots (what '%0.4f' % x gives for a
        non-negative finite x, and repr(x) for such x in positional notation): it starts the way
        Main.qscan recognises a number (a digit, or '.' followed by a digit) and continues with
        digits and dots only.  For such texts the text functions of the pipeline model are the
        identity up to the blank tokenize.untokenize appends: [squeeze a = a],
        [render (mkEqn a []) = a], [qualify_text lk a = a ++ " "], [classify (a ++ " ") = KDef (a ++ " ")].
        These are the lemmas that let [Main.build] run on programs whose parameter texts are
        universally quantified.
    (2) [dec_value a]: the decimal number the text spells (a rational, read into R).
    (3) [bv_std v]: the STANDARD reading of an opaque right-hand side ("blob") of a sector: the
        text is tokenised exactly as Main.qscan tokenises it, parsed as an arithmetic expression
        ( + - * / parentheses, unary sign; names; numbers), a name containing "__" is a full
        variable name, any other name is a local variable of the owning sector (Zone.qualify),
        a number is worth [dec_value].  GenMain2's [sat] leaves blobs uninterpreted ([bv] arbitrary);
        the book theorems instantiate [bv := bv_std v]. *)
From Coq Require Import List String Ascii Bool ZArith Arith QArith Reals Qreals Lia.
From SFC.Base Require Import Res Str.
From SFC.Gen Require Import Fx Zone.
From SFC.GenAsset Require Import Weighting.
From SFC.GenMain2 Require Import Program Classes Main.
Import ListNotations.
Local Open Scope string_scope.

(* ------------------------------------------------------------------ *)
(** * Parameter texts *)

Definition pchar (c : ascii) : bool := is_digit c || Ascii.eqb c "."%char.

Fixpoint all_pchar (s : string) : bool :=
  match s with EmptyString => true | String c r => pchar c && all_pchar r end.

Definition ptext (s : string) : bool :=
  match s with
  | EmptyString => false
  | String c r =>
      (is_digit c || (Ascii.eqb c "."%char && match r with String d _ => is_digit d | EmptyString => false end))
      && all_pchar r
  end.

Definition pchars : list ascii :=
  ["0"; "1"; "2"; "3"; "4"; "5"; "6"; "7"; "8"; "9"; "."]%char.

Lemma pchar_cases c : pchar c = true -> List.In c pchars.
Proof.
  destruct c as [[] [] [] [] [] [] [] []]; vm_compute; intros H; try discriminate H; tauto.
Qed.

Ltac pcases c H :=
  let Hc := fresh "Hc" in
  pose proof (pchar_cases c H) as Hc; simpl in Hc;
  repeat (destruct Hc as [Hc|Hc]; [subst c|]); [..|contradiction].

Lemma ptext_head a : ptext a = true -> exists c r, a = String c r /\ pchar c = true /\ all_pchar r = true.
Proof.
  destruct a as [|c r]; [discriminate|]. simpl. intros H. apply andb_prop in H as [H1 H2].
  exists c, r. split; [reflexivity|]. split; [|exact H2]. unfold pchar.
  apply orb_prop in H1 as [H1|H1]; [now rewrite H1|]. apply andb_prop in H1 as [H1 _]. rewrite H1. apply orb_true_r.
Qed.

Lemma ptext_all a : ptext a = true -> all_pchar a = true.
Proof. intros H. destruct (ptext_head a H) as (c & r & -> & Hc & Hr). simpl. now rewrite Hc, Hr. Qed.

Lemma ptext_nonempty a : ptext a = true -> String.eqb a "" = false.
Proof. destruct a; [discriminate|reflexivity]. Qed.

(** ** squeeze *)
Lemma pchar_not_space c : pchar c = true -> is_space c = false.
Proof. intros H. pcases c H; reflexivity. Qed.

Lemma remove_blank_pchar s : all_pchar s = true -> remove_char " "%char s = s.
Proof.
  induction s as [|c r IH]; simpl; [reflexivity|]. intros H. apply andb_prop in H as [Hc Hr].
  rewrite (IH Hr). pcases c Hc; reflexivity.
Qed.

Lemma rstrip_pchar s : all_pchar s = true -> rstrip s = s.
Proof.
  induction s as [|c r IH]; simpl; [reflexivity|]. intros H. apply andb_prop in H as [Hc Hr].
  rewrite (IH Hr). destruct r; [|reflexivity]. now rewrite (pchar_not_space c Hc).
Qed.

Lemma lstrip_pchar s : all_pchar s = true -> lstrip s = s.
Proof.
  destruct s as [|c r]; simpl; [reflexivity|]. intros H. apply andb_prop in H as [Hc _].
  now rewrite (pchar_not_space c Hc).
Qed.

Lemma squeeze_pchar s : all_pchar s = true -> squeeze s = s.
Proof.
  intros H. unfold squeeze, strip. rewrite (rstrip_pchar s H), (lstrip_pchar s H). now apply remove_blank_pchar.
Qed.

Lemma squeeze_ptext a : ptext a = true -> squeeze a = a.
Proof. intros H. apply squeeze_pchar. now apply ptext_all. Qed.

(** ** render: Equation.GetRightHandSide of a bare parameter text *)
Lemma render_ptext a : ptext a = true -> render (mkEqn a []) = a.
Proof.
  intros H. unfold render. cbn [blob terms map String.concat]. rewrite append_nil_r.
  destruct (ptext_head a H) as (c & r & -> & Hc & Hr). pcases c Hc; reflexivity.
Qed.

(** ** qualify_text: the tokenizer copies a number and appends a blank *)
Lemma pchar_num_cont c : pchar c = true -> is_id_char c || Ascii.eqb c "."%char = true.
Proof. intros H. pcases c H; reflexivity. Qed.

Lemma snoc_append a c r : snoc a c ++ r = a ++ String c r.
Proof. unfold snoc. rewrite append_assoc. reflexivity. Qed.

Lemma qscan_num lk r : all_pchar r = true -> forall acc, qscan lk (TNum acc) r = (acc ++ r) ++ " ".
Proof.
  induction r as [|c r IH]; intros H acc.
  - simpl. now rewrite append_nil_r.
  - simpl in H. apply andb_prop in H as [Hc Hr]. cbn [qscan]. rewrite (pchar_num_cont c Hc).
    rewrite (IH Hr). now rewrite snoc_append.
Qed.

Lemma qualify_ptext lk a : ptext a = true -> qualify_text lk a = a ++ " ".
Proof.
  intros H. unfold qualify_text. destruct a as [|c r]; [discriminate|].
  simpl in H. apply andb_prop in H as [H1 Hr]. cbn [qscan].
  apply orb_prop in H1 as [Hd|Hd].
  - assert (Ha : is_alpha c = false).
    { assert (Hp : pchar c = true) by (unfold pchar; now rewrite Hd). pcases c Hp; reflexivity. }
    rewrite Ha, Hd. now rewrite (qscan_num lk r Hr).
  - apply andb_prop in Hd as [Hdot Hnext]. apply Ascii.eqb_eq in Hdot. subst c.
    change (is_alpha "."%char) with false. change (is_digit "."%char) with false. cbn [Ascii.eqb Bool.eqb andb].
    destruct r as [|d r']; [discriminate|]. rewrite Hnext. now rewrite (qscan_num lk (String d r') Hr).
Qed.

(** ** classify: no marker can occur in digits, dots and the final blank *)
Section NoOccurrence.
  Variables (p0 : ascii) (p' : string).
  Let p := String p0 p'.
  Hypothesis Hp0 : pchar p0 = false.
  Hypothesis Hblank : String.prefix p " " = false.

  Lemma prefix_pchar c r : pchar c = true -> String.prefix p (String c r) = false.
  Proof.
    intros Hc. unfold p. cbn [String.prefix]. destruct (ascii_dec p0 c) as [E|E]; [|reflexivity].
    subst c. congruence.
  Qed.

  Lemma has_substring_ptail a : all_pchar a = true -> has_substring p (a ++ " ") = false.
  Proof.
    induction a as [|c r IH]; intros H.
    - cbn [append has_substring]. rewrite Hblank. unfold p. reflexivity.
    - simpl in H. apply andb_prop in H as [Hc Hr]. cbn [append has_substring].
      rewrite (prefix_pchar c _ Hc). now apply IH.
  Qed.

  Lemma find_sub_ptail a : all_pchar a = true -> find_sub p (a ++ " ") = None.
  Proof.
    induction a as [|c r IH]; intros H.
    - cbn [append find_sub]. rewrite Hblank. unfold p. reflexivity.
    - simpl in H. apply andb_prop in H as [Hc Hr]. cbn [append find_sub].
      rewrite (prefix_pchar c _ Hc). now rewrite (IH Hr).
  Qed.

  Lemma replace_fuel_ptail q a : all_pchar a = true -> forall fuel, replace_fuel fuel p q (a ++ " ") = a ++ " ".
  Proof.
    induction a as [|c r IH]; intros H fuel.
    - destruct fuel as [|f]; [reflexivity|]. cbn [append replace_fuel]. rewrite Hblank.
      destruct f as [|f]; [reflexivity|]. unfold p. reflexivity.
    - simpl in H. apply andb_prop in H as [Hc Hr]. destruct fuel as [|f]; [reflexivity|].
      cbn [append replace_fuel]. rewrite (prefix_pchar c _ Hc). now rewrite (IH Hr).
  Qed.

  Lemma replace_ptail q a : all_pchar a = true -> replace p q (a ++ " ") = a ++ " ".
  Proof. intros H. unfold replace, p. now apply replace_fuel_ptail. Qed.
End NoOccurrence.

Lemma classify_ptail a : all_pchar a = true -> classify (a ++ " ") = KDef (a ++ " ").
Proof.
  intros H. unfold classify.
  rewrite (has_substring_ptail "E"%char "XOGENOUS" eq_refl eq_refl a H).
  rewrite (replace_ptail "("%char "t-1)" eq_refl eq_refl "(k-1)" a H).
  rewrite (replace_ptail " "%char "(k -1 )" eq_refl eq_refl "(k-1)" a H).
  now rewrite (find_sub_ptail "("%char "k-1)" eq_refl eq_refl a H).
Qed.

(** the emitted row of a variable whose right-hand side is a bare parameter text *)
Definition param_kind (lk : string -> option string) (a : string) : kind :=
  classify (qualify_text lk (render (mkEqn a []))).

Lemma param_kind_ptext lk a : ptext a = true -> param_kind lk a = KDef (a ++ " ").
Proof.
  intros H. unfold param_kind. rewrite (render_ptext a H), (qualify_ptext lk a H).
  apply classify_ptail. now apply ptext_all.
Qed.

(* ------------------------------------------------------------------ *)
(** * The decimal value of a text *)

Definition digit_val (c : ascii) : Z := Z.of_nat (nat_of_ascii c - 48).

(** digits accumulate; the first '.' starts the count of decimals; anything else is skipped *)
Fixpoint dec_scan (s : string) (acc : Z) (frac : option nat) : Z * nat :=
  match s with
  | EmptyString => (acc, match frac with Some k => k | None => 0%nat end)
  | String c r =>
      if is_digit c then dec_scan r (10 * acc + digit_val c)%Z (option_map S frac)
      else if Ascii.eqb c "."%char then dec_scan r acc (match frac with None => Some 0%nat | f => f end)
      else dec_scan r acc frac
  end.

Definition dec_q (s : string) : Q :=
  match dec_scan s 0%Z None with
  | (n, O) => inject_Z n
  | (n, S k) => Qmake n (Pos.pow 10 (Pos.of_nat (S k)))
  end.

Definition dec_value (s : string) : R := Q2R (dec_q s).

(* ------------------------------------------------------------------ *)
(** * Reading a right-hand-side text *)

Inductive btok := BNum (s : string) | BName (s : string) | BSym (c : ascii).

Definition flushb (t : tok) : list btok :=
  match t with TNone => [] | TName a => [BName a] | TNum a => [BNum a] end.

(** the token boundaries of Main.qscan *)
Fixpoint blex (cur : tok) (s : string) : list btok :=
  match s with
  | EmptyString => flushb cur
  | String c r =>
      let fresh :=
        if is_alpha c then blex (TName (String c "")) r
        else if is_digit c then blex (TNum (String c "")) r
        else if Ascii.eqb c "."%char && match r with String d _ => is_digit d | EmptyString => false end
             then blex (TNum (String c "")) r
        else if Ascii.eqb c " "%char then blex TNone r
        else BSym c :: blex TNone r in
      match cur with
      | TNone => fresh
      | TName a => if is_id_char c then blex (TName (snoc a c)) r else (flushb cur ++ fresh)%list
      | TNum a => if is_id_char c || Ascii.eqb c "."%char then blex (TNum (snoc a c)) r else (flushb cur ++ fresh)%list
      end
  end.

Inductive bexpr :=
| BN (s : string) | BV (s : string)
| BAdd (a b : bexpr) | BSub (a b : bexpr) | BMul (a b : bexpr) | BDiv (a b : bexpr) | BNeg (a : bexpr).

Definition is_sym (c : ascii) (t : btok) : bool := match t with BSym d => Ascii.eqb c d | _ => false end.

(** recursive descent with fuel:  sum := prod (('+'|'-') prod)* ;  prod := atom (('*'|'/') atom)* ;
    atom := NUMBER | NAME | '(' sum ')' | '-' atom | '+' atom *)
Fixpoint p_sum (f : nat) (ts : list btok) : option (bexpr * list btok) :=
  match f with
  | O => None
  | S f' => match p_prod f' ts with Some (e, r) => p_sum_rest f' e r | None => None end
  end
with p_sum_rest (f : nat) (acc : bexpr) (ts : list btok) : option (bexpr * list btok) :=
  match f with
  | O => None
  | S f' =>
      match ts with
      | t :: r =>
          if is_sym "+" t then match p_prod f' r with Some (e, r') => p_sum_rest f' (BAdd acc e) r' | None => None end
          else if is_sym "-" t then match p_prod f' r with Some (e, r') => p_sum_rest f' (BSub acc e) r' | None => None end
          else Some (acc, ts)
      | [] => Some (acc, ts)
      end
  end
with p_prod (f : nat) (ts : list btok) : option (bexpr * list btok) :=
  match f with
  | O => None
  | S f' => match p_atom f' ts with Some (e, r) => p_prod_rest f' e r | None => None end
  end
with p_prod_rest (f : nat) (acc : bexpr) (ts : list btok) : option (bexpr * list btok) :=
  match f with
  | O => None
  | S f' =>
      match ts with
      | t :: r =>
          if is_sym "*" t then match p_atom f' r with Some (e, r') => p_prod_rest f' (BMul acc e) r' | None => None end
          else if is_sym "/" t then match p_atom f' r with Some (e, r') => p_prod_rest f' (BDiv acc e) r' | None => None end
          else Some (acc, ts)
      | [] => Some (acc, ts)
      end
  end
with p_atom (f : nat) (ts : list btok) : option (bexpr * list btok) :=
  match f with
  | O => None
  | S f' =>
      match ts with
      | BNum s :: r => Some (BN s, r)
      | BName s :: r => Some (BV s, r)
      | BSym c :: r =>
          if Ascii.eqb c "(" then
            match p_sum f' r with
            | Some (e, t :: r') => if is_sym ")" t then Some (e, r') else None
            | _ => None
            end
          else if Ascii.eqb c "-" then match p_atom f' r with Some (e, r') => Some (BNeg e, r') | None => None end
          else if Ascii.eqb c "+" then p_atom f' r
          else None
      | [] => None
      end
  end.

Definition parse_text (s : string) : option bexpr :=
  let ts := blex TNone s in
  match p_sum (4 * List.length ts + 8) ts with
  | Some (e, []) => Some e
  | _ => None
  end.

Section Eval.
  Variable v : string -> R.
  Local Open Scope R_scope.

  Definition bname (fc n : string) : string := if has_substring "__" n then n else (fc ++ "__" ++ n)%string.

  Fixpoint evalB (fc : string) (e : bexpr) : R :=
    match e with
    | BN s => dec_value s
    | BV n => v (bname fc n)
    | BAdd a b => evalB fc a + evalB fc b
    | BSub a b => evalB fc a - evalB fc b
    | BMul a b => evalB fc a * evalB fc b
    | BDiv a b => evalB fc a / evalB fc b
    | BNeg a => - evalB fc a
    end.

  (** value of the opaque text [text] owned by the sector with full code [fc]; a text that is not an
      arithmetic expression (never the case in the systems of this family) is worth 0 *)
  Definition bv_std (fc text : string) : R :=
    match parse_text text with Some e => evalB fc e | None => 0 end.
End Eval.

(** a bare parameter text is read as its decimal value *)
Lemma blex_num r : all_pchar r = true -> forall acc, blex (TNum acc) r = [BNum (acc ++ r)].
Proof.
  induction r as [|c r IH]; intros H acc.
  - simpl. now rewrite append_nil_r.
  - simpl in H. apply andb_prop in H as [Hc Hr]. cbn [blex]. rewrite (pchar_num_cont c Hc).
    rewrite (IH Hr). now rewrite snoc_append.
Qed.

Lemma blex_ptext a : ptext a = true -> blex TNone a = [BNum a].
Proof.
  intros H. destruct a as [|c r]; [discriminate|].
  simpl in H. apply andb_prop in H as [H1 Hr]. cbn [blex].
  apply orb_prop in H1 as [Hd|Hd].
  - assert (Ha : is_alpha c = false).
    { assert (Hp : pchar c = true) by (unfold pchar; now rewrite Hd). pcases c Hp; reflexivity. }
    rewrite Ha, Hd. now rewrite (blex_num r Hr).
  - apply andb_prop in Hd as [Hdot Hnext]. apply Ascii.eqb_eq in Hdot. subst c.
    change (is_alpha "."%char) with false. change (is_digit "."%char) with false. cbn [Ascii.eqb Bool.eqb andb].
    destruct r as [|d r']; [discriminate|]. rewrite Hnext. now rewrite (blex_num (String d r') Hr).
Qed.

Lemma bv_std_ptext v fc a : ptext a = true -> bv_std v fc a = dec_value a.
Proof. intros H. unfold bv_std, parse_text. rewrite (blex_ptext a H). reflexivity. Qed.
