(** The bundled Godley-Lavoie builders as programs of the pipeline model's language, as FUNCTIONS of
    the parameter texts, and the systems they emit, displayed.

    sfc_models/gl_book/chapter3.py  SIM.build_model, SIMEX1.build_model
    sfc_models/gl_book/chapter4.py  PC.build_model
    (GL_book_model.__init__: one Country with the code passed in; here "C", the code harness/c09.py uses.
     With a single country full sector codes carry no country prefix.)

    Line by line (creation order = sector index):
      SIM     gov = ConsolidatedGovernment(country,'GOV')                       0  CGov
              hh  = Household(country,'HH', alpha_income=a1, alpha_fin=a2)      1  CHousehold a1 a2 "GOOD" "LAB"
              bus = FixedMarginBusiness(country,'BUS')                          2  CBusiness true "1.000" "0.000" "LAB" "GOOD"
              tax = TaxFlow(country,'TF', taxrate=th)                           3  CTaxFlow th "GOV"
              labour = Market(country,'LAB'); goods = Market(country,'GOOD')    4, 5
              if UseBookExogenous: gov.SetExogenous('DEM_GOOD','[0.,] + [20.,] * 105')
      SIMEX1  the same with HouseholdWithExpectations and, with the book's exogenous,
              Model.AddInitialCondition('HH','AfterTax',16.)                    (str(float(16.)) = "16.0")
      PC      tre = Treasury 0; cb = CentralBank 1; cb.Treasury = tre; hh = Household 2 (hh.AlphaIncome = a1,
              hh.AlphaFin = a2 assigned after construction); bus 3; tax = TaxFlow(taxrate=th, taxes_paid_to='TRE') 4;
              labour 5; goods 6; mm = MoneyMarket(issuer 'CB') 7 (code 'MON'); dep = DepositMarket(issuer 'TRE') 8
              (code 'DEP'); hh.AddVariable L0 L1 L2; hh.GenerateAssetWeighting({'DEP': 'L0 + L1 * DEP__r - L2 *
              (AfterTax/F)'}, 'MON'); tre.AddVariable('FISCBAL', ..); with the book's exogenous: two SetExogenous,
              four initial conditions and Model.AddGlobalEquation('t', .., '1950. + k').

    The numbers are hard-coded in the builders (.6 .4 .2 '0.635' '5.' '.01'); callers vary them by assigning
    hh.AlphaIncome, hh.AlphaFin, tf.TaxRate before main() and by SetEquationRightHandSide('L0', ..) (what
    harness/c09.py does).  Household._GenerateEquations and TaxFlow._GenerateEquations overwrite the constructor's
    texts with '%0.4f' % attribute, so the emitted system is the one of a builder written with those values; the
    programs below take the formatted texts as arguments at the lines where the literals stand.
    [bundled_*] are the builders as shipped.

    Outside the language of Program.v: the attribute assignments (modelled as just said) and
    AddGlobalEquation.  [build_g] extends [Main.build] by the global rows, which _CreateFinalEquations
    appends verbatim (not through Term, not qualified) after the initial conditions.

    [*_run] are the programs harness/c09.py's [build_book] executes: the builder with or without the
    book's exogenous settings, then SetExogenous of the spending (and interest-rate) path and the
    initial stocks.

    The displayed systems [E_*] are functions of the same texts (the zone and the rows were printed by the
    model itself and the parameter positions abstracted; BuildProofs.v proves them equal to [build]'s
    result).  [E_*_gen SQ BK XK] is the display with the text functions the model applies to an unknown text
    left as arguments: SQ at AddVariable (squeeze), BK = row classification of a parameter row, XK = row
    classification of an exogenous row.  [E_*_raw] (squeeze, [blob_kind], [blob_kind]) is what [build]
    computes for ANY strings; for parameter-shaped texts ([ptext]) it equals [E_*] (identity,
    KDef (a ++ " "), [blob_kind]: the exogenous row is whatever the classification makes of
    'EXOGENOUS ' + text — an exogenous row for every list text; no theorem uses it). *)
From Coq Require Import List String Ascii Bool ZArith Arith.
From SFC.Base Require Import Res Str.
From SFC.Gen Require Import Fx Zone.
From SFC.GenAsset Require Import Weighting.
From SFC.GenMain2 Require Import Program Classes Main.
From SFC.GenBook Require Import Text.
Import ListNotations.
Local Open Scope string_scope.

(* ------------------------------------------------------------------ *)
(** * Global equations *)

Definition global_row (x : string * string) : row := mkRow (fst x) (classify (snd x)).

Definition build_g (p : program) (globals : list (string * string)) : result final_system :=
  do E <- build p ;; Ok (mkFS (fs_zone E) (fs_rows E ++ map global_row globals)%list (fs_ic E)).

(* ------------------------------------------------------------------ *)
(** * The builders *)

Definition sim_sectors (hh : cls) (th : string) : program :=
  [ StCountry "C";
    StSector 0 "GOV" CGov;
    StSector 0 "HH" hh;
    StSector 0 "BUS" (CBusiness true "1.000" "0.000" "LAB" "GOOD");
    StSector 0 "TF" (CTaxFlow th "GOV");
    StSector 0 "LAB" CMarket;
    StSector 0 "GOOD" CMarket ].

Definition SIM_G_BOOK : string := "[0.,] + [20.,] * 105".

Definition sim_book : program := [ StOp (OSetExogenous 0 "DEM_GOOD" SIM_G_BOOK) ].
Definition simex_book : program :=
  [ StOp (OSetExogenous 0 "DEM_GOOD" SIM_G_BOOK); StOp (OAddInitialCondition 1 "AfterTax" "16.0") ].

Definition if_book (book : bool) (p : program) : program := if book then p else [].

(** chapter3.SIM(country_code).build_model() *)
Definition prog_SIM (a1 a2 th : string) : program :=
  (sim_sectors (CHousehold a1 a2 "GOOD" "LAB") th ++ sim_book)%list.

(** chapter3.SIMEX1 *)
Definition prog_SIMEX1 (a1 a2 th : string) : program :=
  (sim_sectors (CHouseholdExp a1 a2 "GOOD" "LAB") th ++ simex_book)%list.

Definition bundled_SIM : program := prog_SIM "0.6000" "0.4000" "0.2000".
Definition bundled_SIMEX1 : program := prog_SIMEX1 "0.6000" "0.4000" "0.2000".

(** harness/c09.py build_book: builder (use_book_exogenous = book), gov.SetExogenous('DEM_GOOD', list),
    AddInitialCondition('HH','F',H0), ('GOV','F',-H0) [, ('HH','AfterTax',YD0)] *)
Definition prog_SIM_run (a1 a2 th : string) (book : bool) (g h0 h0n : string) : program :=
  (sim_sectors (CHousehold a1 a2 "GOOD" "LAB") th ++ if_book book sim_book ++
   [ StOp (OSetExogenous 0 "DEM_GOOD" g);
     StOp (OAddInitialCondition 1 "F" h0); StOp (OAddInitialCondition 0 "F" h0n) ])%list.

Definition prog_SIMEX1_run (a1 a2 th : string) (book : bool) (g h0 h0n yd0 : string) : program :=
  (sim_sectors (CHouseholdExp a1 a2 "GOOD" "LAB") th ++ if_book book simex_book ++
   [ StOp (OSetExogenous 0 "DEM_GOOD" g);
     StOp (OAddInitialCondition 1 "F" h0); StOp (OAddInitialCondition 0 "F" h0n);
     StOp (OAddInitialCondition 1 "AfterTax" yd0) ])%list.

(** chapter4.PC *)
Definition PC_WEIGHT : string := "L0 + L1 * DEP__r - L2 * (AfterTax/F)".

Definition pc_sectors (a1 a2 th l0 l1 l2 : string) : program :=
  [ StCountry "C";
    StSector 0 "TRE" CTreasury;
    StSector 0 "CB" (CCentralBank None);
    StOp (OSetTreasury 1 0);
    StSector 0 "HH" (CHousehold a1 a2 "GOOD" "LAB");
    StSector 0 "BUS" (CBusiness true "1.000" "0.000" "LAB" "GOOD");
    StSector 0 "TF" (CTaxFlow th "TRE");
    StSector 0 "LAB" CMarket;
    StSector 0 "GOOD" CMarket;
    StSector 0 "MON" (CMoneyMarket "CB");
    StSector 0 "DEP" (CDepositMarket "TRE");
    StOp (OAddVariable 2 "L0" l0);
    StOp (OAddVariable 2 "L1" l1);
    StOp (OAddVariable 2 "L2" l2);
    StOp (OAssetWeighting 2 [("DEP", PC_WEIGHT)] "MON");
    StOp (OAddVariable 0 "FISCBAL" "PRIM_BAL - INTDEP + CB__INTDEP") ].

Definition PC_G_BOOK : string := "[20.,] * 105".
Definition PC_R_BOOK : string := "[.025,]*10 + [.035,]*105".

Definition pc_book : program :=
  [ StOp (OSetExogenous 0 "DEM_GOOD" PC_G_BOOK);
    StOp (OSetExogenous 8 "r" PC_R_BOOK);
    StOp (OAddInitialCondition 2 "AfterTax" "86.486");
    StOp (OAddInitialCondition 2 "F" "86.486");
    StOp (OAddInitialCondition 0 "F" "-86.486");
    StOp (OAddInitialCondition 2 "DEM_DEP" "64.865") ].

Definition pc_book_ic : list (string * string) :=
  [("HH__AfterTax", "86.486"); ("HH__F", "86.486"); ("TRE__F", "-86.486"); ("HH__DEM_DEP", "64.865")].

Definition pc_globals : list (string * string) := [("t", "1950. + k")].

Definition prog_PC (a1 a2 th l0 l1 l2 : string) : program := (pc_sectors a1 a2 th l0 l1 l2 ++ pc_book)%list.

Definition bundled_PC : program := prog_PC "0.6000" "0.4000" "0.2000" "0.635" "5." ".01".

(** build_book for PC: tre.SetExogenous('DEM_GOOD', list), dep.SetExogenous('r', list),
    AddInitialCondition('HH','F',V0), ('HH','DEM_DEP',B0), ('TRE','F',-V0) *)
Definition prog_PC_run (a1 a2 th l0 l1 l2 : string) (book : bool) (g rr v0 b0 v0n : string) : program :=
  (pc_sectors a1 a2 th l0 l1 l2 ++ if_book book pc_book ++
   [ StOp (OSetExogenous 0 "DEM_GOOD" g); StOp (OSetExogenous 8 "r" rr);
     StOp (OAddInitialCondition 2 "F" v0); StOp (OAddInitialCondition 2 "DEM_DEP" b0);
     StOp (OAddInitialCondition 0 "F" v0n) ])%list.

Definition globals_if (book : bool) : list (string * string) := if book then pc_globals else [].

(* ------------------------------------------------------------------ *)
(** * The emitted systems, displayed *)

(** row classification of a variable whose equation is the pure blob [x] *)
Definition blob_kind := param_kind.

(** the blob _ProcessExogenous installs:  Term('EXOGENOUS ' + spec, is_blob=True) *)
Definition exo_blob (spec : string) : string := squeeze ("EXOGENOUS " ++ spec).

Definition no_sector : sector := mkSector 0 "" "" "" false false false [] [].
Definition lk_of (Z : zone) (i : nat) : string -> option string := lookup_of (nth i Z no_sector).

(** ** SIM *)
Definition Z_SIM_gen (SQ : string -> string) (a1 a2 th g : string) : zone :=
  [{|
     sid := 0;
     code := "GOV";
     country := "C";
     fullcode := "GOV";
     hasF := true;
     taxable := false;
     is_market := false;
     excl := [];
     vars :=
       [("F", {| blob := ""; terms := [(1%Z, ["LAG_F"]); (1%Z, ["T"]); ((-1)%Z, ["DEM_GOOD"])] |});
        ("INC", {| blob := ""; terms := [(1%Z, ["T"]); ((-1)%Z, ["DEM_GOOD"])] |});
        ("LAG_F", {| blob := "F(k-1)"; terms := [] |});
        ("DEM_GOOD", {| blob := exo_blob g; terms := [] |});
        ("PRIM_BAL", {| blob := "T-DEM_GOOD"; terms := [] |});
        ("FISC_BAL", {| blob := "INC"; terms := [] |});
        ("T", {| blob := ""; terms := [(1%Z, ["TF__T"])] |})]
   |};
   {|
     sid := 1;
     code := "HH";
     country := "C";
     fullcode := "HH";
     hasF := true;
     taxable := true;
     is_market := false;
     excl := ["DEM_GOOD"];
     vars :=
       [("F",
         {|
           blob := "";
           terms := [(1%Z, ["LAG_F"]); ((-1)%Z, ["T"]); (1%Z, ["SUP_LAB"]); ((-1)%Z, ["DEM_GOOD"])]
         |}); ("INC", {| blob := ""; terms := [(1%Z, ["SUP_LAB"])] |});
        ("LAG_F", {| blob := "F(k-1)"; terms := [] |}); ("AlphaIncome", {| blob := a1; terms := [] |});
        ("AlphaFin", {| blob := a2; terms := [] |});
        ("DEM_GOOD", {| blob := "AlphaIncome*AfterTax+AlphaFin*LAG_F"; terms := [] |});
        ("AfterTax", {| blob := "INC-T"; terms := [] |});
        ("T", {| blob := ""; terms := [(1%Z, ["TF__TaxRate"; "HH__INC"])] |});
        ("SUP_LAB", {| blob := "0."; terms := [(1%Z, ["LAB__SUP_HH"])] |})]
   |};
   {|
     sid := 2;
     code := "BUS";
     country := "C";
     fullcode := "BUS";
     hasF := true;
     taxable := false;
     is_market := false;
     excl := [];
     vars :=
       [("F", {| blob := ""; terms := [(1%Z, ["LAG_F"]); ((-1)%Z, ["DEM_LAB"]); (1%Z, ["SUP_GOOD"])] |});
        ("INC", {| blob := ""; terms := [((-1)%Z, ["DEM_LAB"]); (1%Z, ["SUP_GOOD"])] |});
        ("LAG_F", {| blob := "F(k-1)"; terms := [] |});
        ("SUP_GOOD", {| blob := ""; terms := [(1%Z, ["GOOD__SUP_BUS"])] |});
        ("PROF", {| blob := "SUP_GOOD-DEM_LAB"; terms := [] |});
        ("DEM_LAB", {| blob := "GOOD__SUP_GOOD"; terms := [] |})]
   |};
   {|
     sid := 3;
     code := "TF";
     country := "C";
     fullcode := "TF";
     hasF := false;
     taxable := false;
     is_market := false;
     excl := [];
     vars :=
       [("TaxRate", {| blob := th; terms := [] |});
        ("T", {| blob := ""; terms := [(1%Z, ["TF__TaxRate"; "HH__INC"])] |})]
   |};
   {|
     sid := 4;
     code := "LAB";
     country := "C";
     fullcode := "LAB";
     hasF := false;
     taxable := false;
     is_market := true;
     excl := [];
     vars :=
       [("SUP_LAB", {| blob := ""; terms := [(1%Z, ["DEM_LAB"])] |});
        ("DEM_LAB", {| blob := ""; terms := [(1%Z, ["BUS__DEM_LAB"])] |});
        ("SUP_HH", {| blob := ""; terms := [(1%Z, ["SUP_LAB"])] |})]
   |};
   {|
     sid := 5;
     code := "GOOD";
     country := "C";
     fullcode := "GOOD";
     hasF := false;
     taxable := false;
     is_market := true;
     excl := [];
     vars :=
       [("SUP_GOOD", {| blob := ""; terms := [(1%Z, ["DEM_GOOD"])] |});
        ("DEM_GOOD", {| blob := ""; terms := [(1%Z, ["GOV__DEM_GOOD"]); (1%Z, ["HH__DEM_GOOD"])] |});
        ("SUP_BUS", {| blob := ""; terms := [(1%Z, ["SUP_GOOD"])] |})]
   |}].

Definition R_SIM_gen (SQ : string -> string) (BK XK : (string -> option string) -> string -> kind)
    (a1 a2 th g : string) : list row :=
  let Z := Z_SIM_gen SQ a1 a2 th g in
  [{| r_lhs := "GOV__DEM_GOOD"; r_kind := XK (lk_of Z 0) (exo_blob g) |};
   {| r_lhs := "GOV__F"; r_kind := KDef "GOV__LAG_F +GOV__T -GOV__DEM_GOOD " |};
   {| r_lhs := "GOV__FISC_BAL"; r_kind := KDef "GOV__INC " |};
   {| r_lhs := "GOV__INC"; r_kind := KDef "GOV__T -GOV__DEM_GOOD " |};
   {| r_lhs := "GOV__LAG_F"; r_kind := KLag "GOV__F" |};
   {| r_lhs := "GOV__PRIM_BAL"; r_kind := KDef "GOV__T -GOV__DEM_GOOD " |};
   {| r_lhs := "GOV__T"; r_kind := KDef "TF__T " |};
   {| r_lhs := "HH__AfterTax"; r_kind := KDef "HH__INC -HH__T " |};
   {| r_lhs := "HH__AlphaFin"; r_kind := BK (lk_of Z 1) a2 |};
   {| r_lhs := "HH__AlphaIncome"; r_kind := BK (lk_of Z 1) a1 |};
   {| r_lhs := "HH__DEM_GOOD"; r_kind := KDef "HH__AlphaIncome *HH__AfterTax +HH__AlphaFin *HH__LAG_F " |};
   {| r_lhs := "HH__F"; r_kind := KDef "HH__LAG_F -HH__T +HH__SUP_LAB -HH__DEM_GOOD " |};
   {| r_lhs := "HH__INC"; r_kind := KDef "HH__SUP_LAB " |};
   {| r_lhs := "HH__LAG_F"; r_kind := KLag "HH__F" |};
   {| r_lhs := "HH__SUP_LAB"; r_kind := KDef "0. +LAB__SUP_HH " |};
   {| r_lhs := "HH__T"; r_kind := KDef "TF__TaxRate *HH__INC " |};
   {| r_lhs := "BUS__DEM_LAB"; r_kind := KDef "GOOD__SUP_GOOD " |};
   {| r_lhs := "BUS__F"; r_kind := KDef "BUS__LAG_F -BUS__DEM_LAB +BUS__SUP_GOOD " |};
   {| r_lhs := "BUS__INC"; r_kind := KDef "-BUS__DEM_LAB +BUS__SUP_GOOD " |};
   {| r_lhs := "BUS__LAG_F"; r_kind := KLag "BUS__F" |};
   {| r_lhs := "BUS__PROF"; r_kind := KDef "BUS__SUP_GOOD -BUS__DEM_LAB " |};
   {| r_lhs := "BUS__SUP_GOOD"; r_kind := KDef "GOOD__SUP_BUS " |};
   {| r_lhs := "TF__T"; r_kind := KDef "TF__TaxRate *HH__INC " |};
   {| r_lhs := "TF__TaxRate"; r_kind := BK (lk_of Z 3) th |};
   {| r_lhs := "LAB__DEM_LAB"; r_kind := KDef "BUS__DEM_LAB " |};
   {| r_lhs := "LAB__SUP_HH"; r_kind := KDef "LAB__SUP_LAB " |};
   {| r_lhs := "LAB__SUP_LAB"; r_kind := KDef "LAB__DEM_LAB " |};
   {| r_lhs := "GOOD__DEM_GOOD"; r_kind := KDef "GOV__DEM_GOOD +HH__DEM_GOOD " |};
   {| r_lhs := "GOOD__SUP_BUS"; r_kind := KDef "GOOD__SUP_GOOD " |};
   {| r_lhs := "GOOD__SUP_GOOD"; r_kind := KDef "GOOD__DEM_GOOD " |}].

(** ** SIMEX1 *)
Definition Z_SIMEX1_gen (SQ : string -> string) (a1 a2 th g : string) : zone :=
  [{|
     sid := 0;
     code := "GOV";
     country := "C";
     fullcode := "GOV";
     hasF := true;
     taxable := false;
     is_market := false;
     excl := [];
     vars :=
       [("F", {| blob := ""; terms := [(1%Z, ["LAG_F"]); (1%Z, ["T"]); ((-1)%Z, ["DEM_GOOD"])] |});
        ("INC", {| blob := ""; terms := [(1%Z, ["T"]); ((-1)%Z, ["DEM_GOOD"])] |});
        ("LAG_F", {| blob := "F(k-1)"; terms := [] |});
        ("DEM_GOOD", {| blob := exo_blob g; terms := [] |});
        ("PRIM_BAL", {| blob := "T-DEM_GOOD"; terms := [] |});
        ("FISC_BAL", {| blob := "INC"; terms := [] |});
        ("T", {| blob := ""; terms := [(1%Z, ["TF__T"])] |})]
   |};
   {|
     sid := 1;
     code := "HH";
     country := "C";
     fullcode := "HH";
     hasF := true;
     taxable := true;
     is_market := false;
     excl := ["DEM_GOOD"];
     vars :=
       [("F",
         {|
           blob := "";
           terms := [(1%Z, ["LAG_F"]); ((-1)%Z, ["T"]); (1%Z, ["SUP_LAB"]); ((-1)%Z, ["DEM_GOOD"])]
         |}); ("INC", {| blob := ""; terms := [(1%Z, ["SUP_LAB"])] |});
        ("LAG_F", {| blob := "F(k-1)"; terms := [] |}); ("AlphaIncome", {| blob := a1; terms := [] |});
        ("AlphaFin", {| blob := a2; terms := [] |});
        ("DEM_GOOD", {| blob := "AlphaIncome*EXP_AfterTax+AlphaFin*LAG_F"; terms := [] |});
        ("AfterTax", {| blob := "INC-T"; terms := [] |});
        ("T", {| blob := ""; terms := [(1%Z, ["TF__TaxRate"; "HH__INC"])] |});
        ("SUP_LAB", {| blob := "0."; terms := [(1%Z, ["LAB__SUP_HH"])] |});
        ("LAG_AfterTax", {| blob := "AfterTax(k-1)"; terms := [] |});
        ("EXP_AfterTax", {| blob := "LAG_AfterTax"; terms := [] |})]
   |};
   {|
     sid := 2;
     code := "BUS";
     country := "C";
     fullcode := "BUS";
     hasF := true;
     taxable := false;
     is_market := false;
     excl := [];
     vars :=
       [("F", {| blob := ""; terms := [(1%Z, ["LAG_F"]); ((-1)%Z, ["DEM_LAB"]); (1%Z, ["SUP_GOOD"])] |});
        ("INC", {| blob := ""; terms := [((-1)%Z, ["DEM_LAB"]); (1%Z, ["SUP_GOOD"])] |});
        ("LAG_F", {| blob := "F(k-1)"; terms := [] |});
        ("SUP_GOOD", {| blob := ""; terms := [(1%Z, ["GOOD__SUP_BUS"])] |});
        ("PROF", {| blob := "SUP_GOOD-DEM_LAB"; terms := [] |});
        ("DEM_LAB", {| blob := "GOOD__SUP_GOOD"; terms := [] |})]
   |};
   {|
     sid := 3;
     code := "TF";
     country := "C";
     fullcode := "TF";
     hasF := false;
     taxable := false;
     is_market := false;
     excl := [];
     vars :=
       [("TaxRate", {| blob := th; terms := [] |});
        ("T", {| blob := ""; terms := [(1%Z, ["TF__TaxRate"; "HH__INC"])] |})]
   |};
   {|
     sid := 4;
     code := "LAB";
     country := "C";
     fullcode := "LAB";
     hasF := false;
     taxable := false;
     is_market := true;
     excl := [];
     vars :=
       [("SUP_LAB", {| blob := ""; terms := [(1%Z, ["DEM_LAB"])] |});
        ("DEM_LAB", {| blob := ""; terms := [(1%Z, ["BUS__DEM_LAB"])] |});
        ("SUP_HH", {| blob := ""; terms := [(1%Z, ["SUP_LAB"])] |})]
   |};
   {|
     sid := 5;
     code := "GOOD";
     country := "C";
     fullcode := "GOOD";
     hasF := false;
     taxable := false;
     is_market := true;
     excl := [];
     vars :=
       [("SUP_GOOD", {| blob := ""; terms := [(1%Z, ["DEM_GOOD"])] |});
        ("DEM_GOOD", {| blob := ""; terms := [(1%Z, ["GOV__DEM_GOOD"]); (1%Z, ["HH__DEM_GOOD"])] |});
        ("SUP_BUS", {| blob := ""; terms := [(1%Z, ["SUP_GOOD"])] |})]
   |}].

Definition R_SIMEX1_gen (SQ : string -> string) (BK XK : (string -> option string) -> string -> kind)
    (a1 a2 th g : string) : list row :=
  let Z := Z_SIMEX1_gen SQ a1 a2 th g in
  [{| r_lhs := "GOV__DEM_GOOD"; r_kind := XK (lk_of Z 0) (exo_blob g) |};
   {| r_lhs := "GOV__F"; r_kind := KDef "GOV__LAG_F +GOV__T -GOV__DEM_GOOD " |};
   {| r_lhs := "GOV__FISC_BAL"; r_kind := KDef "GOV__INC " |};
   {| r_lhs := "GOV__INC"; r_kind := KDef "GOV__T -GOV__DEM_GOOD " |};
   {| r_lhs := "GOV__LAG_F"; r_kind := KLag "GOV__F" |};
   {| r_lhs := "GOV__PRIM_BAL"; r_kind := KDef "GOV__T -GOV__DEM_GOOD " |};
   {| r_lhs := "GOV__T"; r_kind := KDef "TF__T " |};
   {| r_lhs := "HH__AfterTax"; r_kind := KDef "HH__INC -HH__T " |};
   {| r_lhs := "HH__AlphaFin"; r_kind := BK (lk_of Z 1) a2 |};
   {| r_lhs := "HH__AlphaIncome"; r_kind := BK (lk_of Z 1) a1 |};
   {|
     r_lhs := "HH__DEM_GOOD"; r_kind := KDef "HH__AlphaIncome *HH__EXP_AfterTax +HH__AlphaFin *HH__LAG_F "
   |}; {| r_lhs := "HH__EXP_AfterTax"; r_kind := KDef "HH__LAG_AfterTax " |};
   {| r_lhs := "HH__F"; r_kind := KDef "HH__LAG_F -HH__T +HH__SUP_LAB -HH__DEM_GOOD " |};
   {| r_lhs := "HH__INC"; r_kind := KDef "HH__SUP_LAB " |};
   {| r_lhs := "HH__LAG_AfterTax"; r_kind := KLag "HH__AfterTax" |};
   {| r_lhs := "HH__LAG_F"; r_kind := KLag "HH__F" |};
   {| r_lhs := "HH__SUP_LAB"; r_kind := KDef "0. +LAB__SUP_HH " |};
   {| r_lhs := "HH__T"; r_kind := KDef "TF__TaxRate *HH__INC " |};
   {| r_lhs := "BUS__DEM_LAB"; r_kind := KDef "GOOD__SUP_GOOD " |};
   {| r_lhs := "BUS__F"; r_kind := KDef "BUS__LAG_F -BUS__DEM_LAB +BUS__SUP_GOOD " |};
   {| r_lhs := "BUS__INC"; r_kind := KDef "-BUS__DEM_LAB +BUS__SUP_GOOD " |};
   {| r_lhs := "BUS__LAG_F"; r_kind := KLag "BUS__F" |};
   {| r_lhs := "BUS__PROF"; r_kind := KDef "BUS__SUP_GOOD -BUS__DEM_LAB " |};
   {| r_lhs := "BUS__SUP_GOOD"; r_kind := KDef "GOOD__SUP_BUS " |};
   {| r_lhs := "TF__T"; r_kind := KDef "TF__TaxRate *HH__INC " |};
   {| r_lhs := "TF__TaxRate"; r_kind := BK (lk_of Z 3) th |};
   {| r_lhs := "LAB__DEM_LAB"; r_kind := KDef "BUS__DEM_LAB " |};
   {| r_lhs := "LAB__SUP_HH"; r_kind := KDef "LAB__SUP_LAB " |};
   {| r_lhs := "LAB__SUP_LAB"; r_kind := KDef "LAB__DEM_LAB " |};
   {| r_lhs := "GOOD__DEM_GOOD"; r_kind := KDef "GOV__DEM_GOOD +HH__DEM_GOOD " |};
   {| r_lhs := "GOOD__SUP_BUS"; r_kind := KDef "GOOD__SUP_GOOD " |};
   {| r_lhs := "GOOD__SUP_GOOD"; r_kind := KDef "GOOD__DEM_GOOD " |}].

(** ** PC *)
Definition Z_PC_gen (SQ : string -> string) (a1 a2 th l0 l1 l2 g rr : string) : zone :=
  [{|
     sid := 0;
     code := "TRE";
     country := "C";
     fullcode := "TRE";
     hasF := true;
     taxable := false;
     is_market := false;
     excl := [];
     vars :=
       [("F",
         {|
           blob := "";
           terms :=
             [(1%Z, ["LAG_F"]); (1%Z, ["T"]); ((-1)%Z, ["DEM_GOOD"]); ((-1)%Z, ["INTDEP"]);
              (1%Z, ["CB__INTDEP"])]
         |});
        ("INC",
         {|
           blob := "";
           terms := [(1%Z, ["T"]); ((-1)%Z, ["DEM_GOOD"]); ((-1)%Z, ["INTDEP"]); (1%Z, ["CB__INTDEP"])]
         |}); ("LAG_F", {| blob := "F(k-1)"; terms := [] |});
        ("DEM_GOOD", {| blob := exo_blob g; terms := [] |});
        ("PRIM_BAL", {| blob := "T-DEM_GOOD"; terms := [] |});
        ("DEM_MON", {| blob := "0.0"; terms := [] |});
        ("T", {| blob := ""; terms := [(1%Z, ["TF__T"])] |});
        ("FISCBAL", {| blob := "PRIM_BAL-INTDEP+CB__INTDEP"; terms := [] |});
        ("SUP_DEP", {| blob := ""; terms := [(1%Z, ["DEP__DEM_DEP"])] |});
        ("LAG_SUP_DEP", {| blob := "TRE__SUP_DEP(k-1)"; terms := [] |});
        ("INTDEP", {| blob := ""; terms := [(1%Z, ["DEP__LAG_r"; "TRE__LAG_SUP_DEP"])] |})]
   |};
   {|
     sid := 1;
     code := "CB";
     country := "C";
     fullcode := "CB";
     hasF := true;
     taxable := false;
     is_market := false;
     excl := [];
     vars :=
       [("F", {| blob := ""; terms := [(1%Z, ["LAG_F"]); (1%Z, ["INTDEP"]); ((-1)%Z, ["CB__INTDEP"])] |});
        ("INC", {| blob := ""; terms := [(1%Z, ["INTDEP"]); ((-1)%Z, ["CB__INTDEP"])] |});
        ("LAG_F", {| blob := "F(k-1)"; terms := [] |});
        ("DEM_DEP", {| blob := "F+SUP_MON"; terms := [] |});
        ("SUP_MON", {| blob := ""; terms := [(1%Z, ["MON__DEM_MON"])] |});
        ("LAG_DEM_DEP", {| blob := "CB__DEM_DEP(k-1)"; terms := [] |});
        ("INTDEP", {| blob := ""; terms := [(1%Z, ["DEP__LAG_r"; "CB__LAG_DEM_DEP"])] |})]
   |};
   {|
     sid := 2;
     code := "HH";
     country := "C";
     fullcode := "HH";
     hasF := true;
     taxable := true;
     is_market := false;
     excl := ["DEM_GOOD"];
     vars :=
       [("F",
         {|
           blob := "";
           terms :=
             [(1%Z, ["LAG_F"]); ((-1)%Z, ["T"]); (1%Z, ["SUP_LAB"]); ((-1)%Z, ["DEM_GOOD"]);
              (1%Z, ["INTDEP"])]
         |}); ("INC", {| blob := ""; terms := [(1%Z, ["SUP_LAB"]); (1%Z, ["INTDEP"])] |});
        ("LAG_F", {| blob := "F(k-1)"; terms := [] |}); ("AlphaIncome", {| blob := a1; terms := [] |});
        ("AlphaFin", {| blob := a2; terms := [] |});
        ("DEM_GOOD", {| blob := "AlphaIncome*AfterTax+AlphaFin*LAG_F"; terms := [] |});
        ("AfterTax", {| blob := "INC-T"; terms := [] |});
        ("T", {| blob := ""; terms := [(1%Z, ["TF__TaxRate"; "HH__INC"])] |});
        ("SUP_LAB", {| blob := "0."; terms := [(1%Z, ["LAB__SUP_HH"])] |});
        ("L0", {| blob := SQ l0; terms := [] |}); ("L1", {| blob := SQ l1; terms := [] |});
        ("L2", {| blob := SQ l2; terms := [] |});
        ("WGT_DEP", {| blob := "L0+L1*DEP__r-L2*(AfterTax/F)"; terms := [] |});
        ("DEM_DEP", {| blob := ""; terms := [(1%Z, ["F"; "WGT_DEP"])] |});
        ("WGT_MON", {| blob := ""; terms := [(1%Z, []); ((-1)%Z, ["WGT_DEP"])] |});
        ("DEM_MON", {| blob := ""; terms := [(1%Z, ["F"; "WGT_MON"])] |});
        ("LAG_DEM_DEP", {| blob := "HH__DEM_DEP(k-1)"; terms := [] |});
        ("INTDEP", {| blob := ""; terms := [(1%Z, ["DEP__LAG_r"; "HH__LAG_DEM_DEP"])] |})]
   |};
   {|
     sid := 3;
     code := "BUS";
     country := "C";
     fullcode := "BUS";
     hasF := true;
     taxable := false;
     is_market := false;
     excl := [];
     vars :=
       [("F", {| blob := ""; terms := [(1%Z, ["LAG_F"]); ((-1)%Z, ["DEM_LAB"]); (1%Z, ["SUP_GOOD"])] |});
        ("INC", {| blob := ""; terms := [((-1)%Z, ["DEM_LAB"]); (1%Z, ["SUP_GOOD"])] |});
        ("LAG_F", {| blob := "F(k-1)"; terms := [] |});
        ("SUP_GOOD", {| blob := ""; terms := [(1%Z, ["GOOD__SUP_BUS"])] |});
        ("PROF", {| blob := "SUP_GOOD-DEM_LAB"; terms := [] |});
        ("DEM_LAB", {| blob := "GOOD__SUP_GOOD"; terms := [] |});
        ("DEM_MON", {| blob := ""; terms := [(1%Z, ["BUS__F"])] |})]
   |};
   {|
     sid := 4;
     code := "TF";
     country := "C";
     fullcode := "TF";
     hasF := false;
     taxable := false;
     is_market := false;
     excl := [];
     vars :=
       [("TaxRate", {| blob := th; terms := [] |});
        ("T", {| blob := ""; terms := [(1%Z, ["TF__TaxRate"; "HH__INC"])] |})]
   |};
   {|
     sid := 5;
     code := "LAB";
     country := "C";
     fullcode := "LAB";
     hasF := false;
     taxable := false;
     is_market := true;
     excl := [];
     vars :=
       [("SUP_LAB", {| blob := ""; terms := [(1%Z, ["DEM_LAB"])] |});
        ("DEM_LAB", {| blob := ""; terms := [(1%Z, ["BUS__DEM_LAB"])] |});
        ("SUP_HH", {| blob := ""; terms := [(1%Z, ["SUP_LAB"])] |})]
   |};
   {|
     sid := 6;
     code := "GOOD";
     country := "C";
     fullcode := "GOOD";
     hasF := false;
     taxable := false;
     is_market := true;
     excl := [];
     vars :=
       [("SUP_GOOD", {| blob := ""; terms := [(1%Z, ["DEM_GOOD"])] |});
        ("DEM_GOOD", {| blob := ""; terms := [(1%Z, ["TRE__DEM_GOOD"]); (1%Z, ["HH__DEM_GOOD"])] |});
        ("SUP_BUS", {| blob := ""; terms := [(1%Z, ["SUP_GOOD"])] |})]
   |};
   {|
     sid := 7;
     code := "MON";
     country := "C";
     fullcode := "MON";
     hasF := false;
     taxable := false;
     is_market := true;
     excl := [];
     vars :=
       [("SUP_MON", {| blob := ""; terms := [(1%Z, ["CB__SUP_MON"])] |});
        ("DEM_MON",
         {|
           blob := ""; terms := [(1%Z, ["TRE__DEM_MON"]); (1%Z, ["HH__DEM_MON"]); (1%Z, ["BUS__DEM_MON"])]
         |})]
   |};
   {|
     sid := 8;
     code := "DEP";
     country := "C";
     fullcode := "DEP";
     hasF := false;
     taxable := false;
     is_market := true;
     excl := [];
     vars :=
       [("SUP_DEP", {| blob := ""; terms := [(1%Z, ["TRE__SUP_DEP"])] |});
        ("DEM_DEP", {| blob := ""; terms := [(1%Z, ["CB__DEM_DEP"]); (1%Z, ["HH__DEM_DEP"])] |});
        ("r", {| blob := exo_blob rr; terms := [] |}); ("LAG_r", {| blob := "r(k-1)"; terms := [] |})]
   |}].

Definition R_PC_gen (SQ : string -> string) (BK XK : (string -> option string) -> string -> kind)
    (a1 a2 th l0 l1 l2 g rr : string) : list row :=
  let Z := Z_PC_gen SQ a1 a2 th l0 l1 l2 g rr in
  [{| r_lhs := "TRE__DEM_GOOD"; r_kind := XK (lk_of Z 0) (exo_blob g) |};
   {| r_lhs := "TRE__DEM_MON"; r_kind := KDef "0.0 " |};
   {| r_lhs := "TRE__F"; r_kind := KDef "TRE__LAG_F +TRE__T -TRE__DEM_GOOD -TRE__INTDEP +CB__INTDEP " |};
   {| r_lhs := "TRE__FISCBAL"; r_kind := KDef "TRE__PRIM_BAL -TRE__INTDEP +CB__INTDEP " |};
   {| r_lhs := "TRE__INC"; r_kind := KDef "TRE__T -TRE__DEM_GOOD -TRE__INTDEP +CB__INTDEP " |};
   {| r_lhs := "TRE__INTDEP"; r_kind := KDef "DEP__LAG_r *TRE__LAG_SUP_DEP " |};
   {| r_lhs := "TRE__LAG_F"; r_kind := KLag "TRE__F" |};
   {| r_lhs := "TRE__LAG_SUP_DEP"; r_kind := KLag "TRE__SUP_DEP" |};
   {| r_lhs := "TRE__PRIM_BAL"; r_kind := KDef "TRE__T -TRE__DEM_GOOD " |};
   {| r_lhs := "TRE__SUP_DEP"; r_kind := KDef "DEP__DEM_DEP " |};
   {| r_lhs := "TRE__T"; r_kind := KDef "TF__T " |};
   {| r_lhs := "CB__DEM_DEP"; r_kind := KDef "CB__F +CB__SUP_MON " |};
   {| r_lhs := "CB__F"; r_kind := KDef "CB__LAG_F +CB__INTDEP -CB__INTDEP " |};
   {| r_lhs := "CB__INC"; r_kind := KDef "CB__INTDEP -CB__INTDEP " |};
   {| r_lhs := "CB__INTDEP"; r_kind := KDef "DEP__LAG_r *CB__LAG_DEM_DEP " |};
   {| r_lhs := "CB__LAG_DEM_DEP"; r_kind := KLag "CB__DEM_DEP" |};
   {| r_lhs := "CB__LAG_F"; r_kind := KLag "CB__F" |};
   {| r_lhs := "CB__SUP_MON"; r_kind := KDef "MON__DEM_MON " |};
   {| r_lhs := "HH__AfterTax"; r_kind := KDef "HH__INC -HH__T " |};
   {| r_lhs := "HH__AlphaFin"; r_kind := BK (lk_of Z 2) a2 |};
   {| r_lhs := "HH__AlphaIncome"; r_kind := BK (lk_of Z 2) a1 |};
   {| r_lhs := "HH__DEM_DEP"; r_kind := KDef "HH__F *HH__WGT_DEP " |};
   {| r_lhs := "HH__DEM_GOOD"; r_kind := KDef "HH__AlphaIncome *HH__AfterTax +HH__AlphaFin *HH__LAG_F " |};
   {| r_lhs := "HH__DEM_MON"; r_kind := KDef "HH__F *HH__WGT_MON " |};
   {| r_lhs := "HH__F"; r_kind := KDef "HH__LAG_F -HH__T +HH__SUP_LAB -HH__DEM_GOOD +HH__INTDEP " |};
   {| r_lhs := "HH__INC"; r_kind := KDef "HH__SUP_LAB +HH__INTDEP " |};
   {| r_lhs := "HH__INTDEP"; r_kind := KDef "DEP__LAG_r *HH__LAG_DEM_DEP " |};
   {| r_lhs := "HH__L0"; r_kind := BK (lk_of Z 2) (SQ l0) |}; {| r_lhs := "HH__L1"; r_kind := BK (lk_of Z 2) (SQ l1) |};
   {| r_lhs := "HH__L2"; r_kind := BK (lk_of Z 2) (SQ l2) |};
   {| r_lhs := "HH__LAG_DEM_DEP"; r_kind := KLag "HH__DEM_DEP" |};
   {| r_lhs := "HH__LAG_F"; r_kind := KLag "HH__F" |};
   {| r_lhs := "HH__SUP_LAB"; r_kind := KDef "0. +LAB__SUP_HH " |};
   {| r_lhs := "HH__T"; r_kind := KDef "TF__TaxRate *HH__INC " |};
   {| r_lhs := "HH__WGT_DEP"; r_kind := KDef "HH__L0 +HH__L1 *DEP__r -HH__L2 *(HH__AfterTax /HH__F )" |};
   {| r_lhs := "HH__WGT_MON"; r_kind := KDef "1.0 -HH__WGT_DEP " |};
   {| r_lhs := "BUS__DEM_LAB"; r_kind := KDef "GOOD__SUP_GOOD " |};
   {| r_lhs := "BUS__DEM_MON"; r_kind := KDef "BUS__F " |};
   {| r_lhs := "BUS__F"; r_kind := KDef "BUS__LAG_F -BUS__DEM_LAB +BUS__SUP_GOOD " |};
   {| r_lhs := "BUS__INC"; r_kind := KDef "-BUS__DEM_LAB +BUS__SUP_GOOD " |};
   {| r_lhs := "BUS__LAG_F"; r_kind := KLag "BUS__F" |};
   {| r_lhs := "BUS__PROF"; r_kind := KDef "BUS__SUP_GOOD -BUS__DEM_LAB " |};
   {| r_lhs := "BUS__SUP_GOOD"; r_kind := KDef "GOOD__SUP_BUS " |};
   {| r_lhs := "TF__T"; r_kind := KDef "TF__TaxRate *HH__INC " |};
   {| r_lhs := "TF__TaxRate"; r_kind := BK (lk_of Z 4) th |};
   {| r_lhs := "LAB__DEM_LAB"; r_kind := KDef "BUS__DEM_LAB " |};
   {| r_lhs := "LAB__SUP_HH"; r_kind := KDef "LAB__SUP_LAB " |};
   {| r_lhs := "LAB__SUP_LAB"; r_kind := KDef "LAB__DEM_LAB " |};
   {| r_lhs := "GOOD__DEM_GOOD"; r_kind := KDef "TRE__DEM_GOOD +HH__DEM_GOOD " |};
   {| r_lhs := "GOOD__SUP_BUS"; r_kind := KDef "GOOD__SUP_GOOD " |};
   {| r_lhs := "GOOD__SUP_GOOD"; r_kind := KDef "GOOD__DEM_GOOD " |};
   {| r_lhs := "MON__DEM_MON"; r_kind := KDef "TRE__DEM_MON +HH__DEM_MON +BUS__DEM_MON " |};
   {| r_lhs := "MON__SUP_MON"; r_kind := KDef "CB__SUP_MON " |};
   {| r_lhs := "DEP__DEM_DEP"; r_kind := KDef "CB__DEM_DEP +HH__DEM_DEP " |};
   {| r_lhs := "DEP__LAG_r"; r_kind := KLag "DEP__r" |};
   {| r_lhs := "DEP__SUP_DEP"; r_kind := KDef "TRE__SUP_DEP " |};
   {| r_lhs := "DEP__r"; r_kind := XK (lk_of Z 8) (exo_blob rr) |}].

(* ------------------------------------------------------------------ *)
(** * Systems *)

Definition nice_kind (_ : string -> option string) (a : string) : kind := KDef (a ++ " ").
Definition idtext (a : string) : string := a.

Definition E_SIM_gen SQ BK XK (a1 a2 th g : string) (ics : list (string * string)) : final_system :=
  mkFS (Z_SIM_gen SQ a1 a2 th g) (R_SIM_gen SQ BK XK a1 a2 th g) ics.
Definition E_SIMEX1_gen SQ BK XK (a1 a2 th g : string) (ics : list (string * string)) : final_system :=
  mkFS (Z_SIMEX1_gen SQ a1 a2 th g) (R_SIMEX1_gen SQ BK XK a1 a2 th g) ics.
Definition E_PC_gen SQ BK XK (a1 a2 th l0 l1 l2 g rr : string) (ics globals : list (string * string)) : final_system :=
  mkFS (Z_PC_gen SQ a1 a2 th l0 l1 l2 g rr) (R_PC_gen SQ BK XK a1 a2 th l0 l1 l2 g rr ++ map global_row globals)%list ics.

(** what [build] computes, for any strings *)
Definition E_SIM_raw := E_SIM_gen squeeze blob_kind blob_kind.
Definition E_SIMEX1_raw := E_SIMEX1_gen squeeze blob_kind blob_kind.
Definition E_PC_raw := E_PC_gen squeeze blob_kind blob_kind.

(** THE systems: [g], [rr] = texts given to SetExogenous for government spending / the bill rate
    (their rows are whatever [blob_kind] makes of 'EXOGENOUS ' + text: an exogenous row for a list
    text), [ics] = the initial-condition rows, [globals] = global equations *)
Definition E_SIM := E_SIM_gen idtext nice_kind blob_kind.
Definition E_SIMEX1 := E_SIMEX1_gen idtext nice_kind blob_kind.
Definition E_PC := E_PC_gen idtext nice_kind blob_kind.
