(** A market with suppliers in other currency zones, part 5: the reformulation theorem in its general
    form (an arbitrary part [pa] of the zone as "abroad", a currency chosen per supplier). *)
From Coq Require Import List String Bool ZArith Arith Lia.
From SFC.Base Require Import Res Str.
From SFC.Gen Require Import Fx Zone.
From SFC.GenMarket Require Import Market MarketProofs.
From SFC.GenAsset Require Import Weighting.
From SFC.GenMain2 Require Import Program Classes Main Program2 Main2 Conflict Conflict2.
From SFC.GenOrder Require Import Ops Plan ReformDefs ReformMarketLib ReformMarket.
From SFC.GenOrder2 Require Import ForeignDefs Plan2 Part Reform2 Foreign1 Foreign2 Foreign3 Foreign4.
Import ListNotations.
Local Open Scope string_scope.
Local Open Scope list_scope.

(** [foreign_plan] with the supplier information given *)
Definition foreign_plan' (J : ginfo2) (Z : zone) (i : nat) (self : sector) (res : option nat) (others : list (nat * string))
  : result (sector -> list pop) :=
  let hcur := cur_of_sec J self in
  let inh := in_zone (j_countries J) hcur in
  let ids := map fst others ++ match res with Some r => [r] | None => [] end in
  let acurs := supplier_currencies J Z hcur ids in
  do r <- the_residual (filter inh Z) self res ;;
  do sups <- all_sups Z self r others ;;
  let ts := map (tag_sup J hcur) sups in
  match j_ext J with
  | None => Err LogicError
  | Some e =>
      match find_sec (e_fx e) Z, find_sec (e_xr e) Z with
      | Some fx, Some xr =>
          if foreign_guard J Z e i hcur fx ts acurs
          then Ok (foreign_lops e self hcur inh (market_fulls self (filter inh Z)) ts acurs)
          else Err OutOfFuel
      | None, _ => Err LogicError
      | _, None => Err KeyError
      end
  end.

Lemma foreign_plan_unfold J Z i self res others : sup_of i (j_sup J) = (res, others) ->
  foreign_plan J Z i self = foreign_plan' J Z i self res others.
Proof.
  intros ES. unfold foreign_plan, foreign_plan', all_sups. rewrite ES. cbv zeta.
  destruct (the_residual _ self res) as [r|]; [|reflexivity]. cbn [bind].
  destruct (resolve_sups Z (map _ others)) as [osecs|]; [|reflexivity]. cbn [bind].
  destruct (resolve_sups Z [_]) as [rsec|]; reflexivity.
Qed.

Lemma fuse3 {T} (f g : sector -> list pop) (h : fsup -> sector -> list pop) ts Z (K : zone -> result T) :
  attr_fun g -> (forall x, attr_fun (h x)) ->
  rsim (do Y1 <- apply_lops f Z ;; do Y0 <- apply_lops g Y1 ;; do Y' <- foldM (fun H x => apply_lops (h x) H) ts Y0 ;; K Y')
       (do Yn <- apply_lops (fun s => (f s ++ g s) ++ flat_map (fun x => h x s) ts) Z ;; K Yn).
Proof.
  intros Hg Hh.
  apply (rsim_trans _ (do Yn <- (do Y0 <- (do Y1 <- apply_lops f Z ;; apply_lops g Y1) ;; foldM (fun H x => apply_lops (h x) H) ts Y0) ;; K Yn)).
  - rewrite !bind_assoc. apply rsim_refl.
  - apply rsim_bind_l.
    apply (rsim_trans _ (do Y0 <- apply_lops (fun s => f s ++ g s) Z ;; apply_lops (fun s => flat_map (fun x => h x s) ts) Y0)).
    + apply rsim_bind; [now apply apply_lops_seq_attr|]. intros Y0 _. now apply fold_passes.
    + apply apply_lops_seq_attr. now apply attr_fun_flat_map.
Qed.

Lemma nonempty_in {A} (l : list A) : l <> [] -> exists a, List.In a l.
Proof. destruct l as [|a l]; [congruence|]. intros _. exists a. now left. Qed.

Lemma ensure_crosses_fail J e hcur codes acurs Z1 : j_ext J = Some e -> find_sec (e_xr e) Z1 = None -> acurs <> [] ->
  (forall a, List.In a acurs -> mem (cross_code hcur a) codes = true) -> exists er, ensure_crosses J hcur codes acurs Z1 = Err er.
Proof.
  intros HE Fx HA Hm. destruct acurs as [|a l]; [congruence|]. cbn [ensure_crosses]. rewrite (Hm a (or_introl eq_refl)).
  unfold ensure_cross. rewrite HE.
  destruct (find_sec_none_upd (e_xr e) (fun xr0 => if has_var xr0 (hcur ++ "_" ++ a) then Ok xr0 else addv xr0 (hcur ++ "_" ++ a) (hcur ++ "/" ++ a)) Z1 Fx) as [er ->].
  cbn [bind]. eauto.
Qed.

Section General.
Variable J : ginfo2.
Variable Z : zone.
Variable i : nat.
Variable self : sector.
Variable pa : sector -> bool.
Variable cur_of : nat -> string.
Variable res : option nat.
Variable others : list (nat * string).

Let hcur : string := cur_of_sec J self.
Let inh : sector -> bool := in_zone (j_countries J) hcur.
Let ids : list nat := map fst others ++ match res with Some r => [r] | None => [] end.
Let acurs : list string := supplier_currencies J Z hcur ids.

Hypothesis ND : NoDup (map sid Z).
Hypothesis F : find_sec i Z = Some self.
Hypothesis Hpa : attr_fun pa.
Hypothesis Hdisj : forall s, inh s = true -> pa s = false.
Hypothesis Hcov : covered J hcur pa cur_of Z ids.

Let Qs : inh self = true.
Proof. apply (inzone_self J self). Qed.

Lemma cov_residual r : the_residual (filter inh Z) self res = Ok r -> covered J hcur pa cur_of Z (map fst others ++ [r]).
Proof.
  intros ER j s Hj Fj Qj. apply in_app_or in Hj as [Hj|[<-|[]]].
  - apply (Hcov j s); [unfold ids; apply in_or_app; now left|exact Fj|exact Qj].
  - destruct res as [r0|]; cbn [the_residual] in ER.
    + injection ER as <-. apply (Hcov r0 s); [unfold ids; apply in_or_app; right; now left|exact Fj|exact Qj].
    + destruct (search_supplier (filter inh Z) self) as [s0|] eqn:SS; [|discriminate]. injection ER as <-.
      apply search_supplier_in in SS. apply filter_In in SS as [S1 S2].
      rewrite (find_sec_unique Z s0 ND S1) in Fj. injection Fj as <-. fold inh in Qj. congruence.
Qed.

(** the supplier IDs looked at by [supplier_currencies] are processed *)
Lemma ids_processed r j : the_residual (filter inh Z) self res = Ok r -> List.In j ids -> List.In j (map fst others ++ [r]).
Proof.
  intros ER Hj. unfold ids in Hj. apply in_app_or in Hj as [Hj|Hj]; apply in_or_app; [now left|].
  destruct res as [r0|]; [|contradiction]. destruct Hj as [<-|[]]. cbn in ER. injection ER as <-. right. now left.
Qed.

(** a processed supplier outside the market's zone is one of those looked at *)
Lemma processed_ids r j s : the_residual (filter inh Z) self res = Ok r -> List.In j (map fst others ++ [r]) ->
  find_sec j Z = Some s -> inh s = false -> List.In j ids.
Proof.
  intros ER Hj Fj Qj. unfold ids. apply in_app_or in Hj as [Hj|[<-|[]]]; apply in_or_app; [now left|].
  destruct res as [r0|]; cbn [the_residual] in ER.
  - injection ER as <-. right. now left.
  - destruct (search_supplier (filter inh Z) self) as [s0|] eqn:SS; [|discriminate]. injection ER as <-.
    apply search_supplier_in in SS. apply filter_In in SS as [S1 S2].
    rewrite (find_sec_unique Z s0 ND S1) in Fj. injection Fj as <-. congruence.
Qed.

Definition post (W : world) : result zone :=
  do Z1 <- store_ledger J (fxl W) (put_back_p pa (abroad W) (put_back_p inh (home W) Z)) ;;
  ensure_crosses J hcur (crosses W) acurs Z1.

Theorem general_reform : acurs <> [] -> foreign_plan' J Z i self res others <> Err OutOfFuel ->
  zres_ext (do W <- market_generate_multi hcur cur_of (mkWorld (filter inh Z) (filter pa Z) (ledger_of J Z) []) i res others ;; post W)
           (do g <- foreign_plan' J Z i self res others ;; apply_lops g Z).
Proof.
  intros HA NF.
  pose proof (find_sec_sid _ _ _ F) as Hi.
  pose proof (inh_attr J hcur) as Hinh. fold inh in Hinh.
  change (mkWorld (filter inh Z) (filter pa Z) (ledger_of J Z) []) with (view J hcur pa (Z, ledger_of J Z, [])).
  eapply rsim_zres_trans.
  { apply rsim_bind_l. apply (multi_pass J hcur pa cur_of Hpa Hdisj Z ND i self res others _ F Qs cov_residual). }
  unfold foreign_plan' in *. fold hcur in NF |- *. fold inh in NF |- *. fold ids in NF |- *. fold acurs in NF |- *. cbv zeta in NF |- *.
  destruct (the_residual (filter inh Z) self res) as [r|] eqn:ER; cbn [bind] in NF |- *; [|exact I].
  destruct (all_sups Z self r others) as [sups|] eqn:AS; cbn [bind] in NF |- *.
  2:{ destruct (apply_lops (dem_lops J hcur Z self) Z) as [Y1|]; cbn [bind]; [|exact I].
      destruct (apply_lops (sup_ops self) Y1) as [Y0|]; cbn [bind]; exact I. }
  destruct (all_sups_spec _ _ _ _ _ AS) as [SP1 SP2].
  set (ts := map (tag_sup J hcur) sups) in *.
  (* facts about the tagged suppliers *)
  assert (FB : forall a, List.In a acurs -> exists x, List.In x ts /\ fs_cur x = Some a).
  { intros a Ha. apply acurs_in in Ha as (j & s & Hj & Fj & Ea & Na).
    destruct (SP2 j (ids_processed r j ER Hj)) as (x & Hx & Ex). destruct (SP1 x Hx) as [Fx _]. rewrite Ex, Fj in Fx. injection Fx as Fx.
    exists (tag_sup J hcur x). split; [now apply in_map|]. rewrite tag_cur, <- Fx.
    change (in_zone (j_countries J) hcur s) with (String.eqb (cur_of_sec J s) hcur). now rewrite Ea, Na. }
  assert (FC : forall x c, List.In x ts -> fs_cur x = Some c -> List.In c acurs /\ pa (fs_sec x) = true).
  { intros x c Hx Hc. apply in_map_iff in Hx as (x0 & <- & Hx0). destruct (SP1 x0 Hx0) as [Fx Px].
    rewrite tag_cur in Hc. fold inh in Hc. destruct (inh (snd (fst x0))) eqn:Q0; [discriminate|]. injection Hc as <-.
    split.
    - apply acurs_in. exists (fst (fst x0)), (snd (fst x0)). split; [exact (processed_ids r _ _ ER Px Fx Q0)|]. split; [exact Fx|]. split; [reflexivity|exact Q0].
    - exact (proj1 (cov_residual r ER _ _ Px Fx Q0)). }
  assert (FL : forall x, List.In x ts -> fs_cur x = None -> inh (fs_sec x) = true).
  { intros x Hx Hc. apply in_map_iff in Hx as (x0 & <- & Hx0). rewrite tag_cur in Hc. fold inh in Hc.
    change (fs_sec (tag_sup J hcur x0)) with (snd (fst x0)).
    destruct (inh (snd (fst x0))); [reflexivity|discriminate]. }
  assert (FF : forall x, List.In x ts -> find_sec (fs_id x) Z = Some (fs_sec x)).
  { intros x Hx. apply in_map_iff in Hx as (x0 & <- & Hx0). exact (proj1 (SP1 x0 Hx0)). }
  assert (FA : existsb is_foreign ts = true).
  { destruct (nonempty_in _ HA) as [a Ha]. destruct (FB a Ha) as (x & Hx & Hc).
    apply existsb_exists. exists x. split; [exact Hx|]. unfold is_foreign. now rewrite Hc. }
  set (G1 := fun s : sector => (dem_lops J hcur Z self s ++ sup_ops self s) ++ flat_map (fun x => sup_lops self hcur x s) ts).
  assert (G1out : forall s, List.In s Z -> inh s = false -> pa s = false -> G1 s = []).
  { intros s Hs Q P. unfold G1, dem_lops, restrict, sup_ops. fold inh. rewrite Q.
    assert (Es : Nat.eqb (sid s) (sid self) = false).
    { apply Nat.eqb_neq. intros E. pose proof (find_sec_unique Z s ND Hs) as X. rewrite E, Hi, F in X. injection X as <-. congruence. }
    rewrite Es. cbn [app]. apply flat_map_nil. intros x Hx. unfold sup_lops. rewrite Es. cbn [app].
    destruct (Nat.eqb_spec (fs_id x) (sid s)) as [E|]; [|reflexivity].
    exfalso. pose proof (FF x Hx) as X. rewrite E, (find_sec_unique Z s ND Hs) in X. injection X as X.
    destruct (fs_cur x) as [c|] eqn:Hc.
    - destruct (FC x c Hx Hc) as [_ Px]. congruence.
    - pose proof (FL x Hx Hc). congruence. }
  (* the ledger *)
  unfold ledger_of.
  assert (FAIL : forall Y0 : zone, zres_ext (do W <- (do st <- foldM (tstep hcur self) ts (Y0, None, []) ;; Ok (view J hcur pa st)) ;; post W) (Err LogicError)).
  { intros Y0. destruct (fold_tstep_none self hcur ts Y0 [] FA) as [er ->]. exact I. }
  destruct (j_ext J) as [e|] eqn:HE.
  2:{ destruct (apply_lops (dem_lops J hcur Z self) Z) as [Y1|]; cbn [bind]; [|exact I].
      destruct (apply_lops (sup_ops self) Y1) as [Y0|]; cbn [bind]; [|exact I]. apply FAIL. }
  destruct (find_sec (e_fx e) Z) as [fx|] eqn:Ffx.
  2:{ destruct (apply_lops (dem_lops J hcur Z self) Z) as [Y1|]; cbn [bind]; [|exact I].
      destruct (apply_lops (sup_ops self) Y1) as [Y0|]; cbn [bind]; [|exact I].
      destruct (find_sec (e_xr e) Z); apply FAIL. }
  clear FAIL.
  set (zs := zones_of (j_countries J)) in *.
  set (L0 := map (fun c => (c, net_of fx c)) zs).
  set (Ln := led_of self hcur ts L0). set (crn := crs_of hcur ts []).
  (* the model as one pass, then the ledger, then the cross rates *)
  eapply rsim_zres_trans.
  { apply (rsim_trans _ (do Y1 <- apply_lops (dem_lops J hcur Z self) Z ;; do Y0 <- apply_lops (sup_ops self) Y1 ;;
                         do Y' <- foldM (fun H x => apply_lops (sup_lops self hcur x) H) ts Y0 ;; post (view J hcur pa (Y', Some Ln, crn)))).
    - rewrite bind_assoc. apply rsim_bind_r. intros Y1 _. rewrite bind_assoc. apply rsim_bind_r. intros Y0 _.
      rewrite fold_tstep_some. rewrite !bind_assoc. apply rsim_bind_r. intros Y' _. cbn [bind]. apply rsim_refl.
    - apply (fuse3 (dem_lops J hcur Z self) (sup_ops self) (sup_lops self hcur) ts Z (fun Y' => post (view J hcur pa (Y', Some Ln, crn)))).
      + intros s s' A. unfold sup_ops. now rewrite (attrs_sid _ _ A).
      + intros x. apply sup_lops_attr. }
  fold G1.
  assert (POST : forall Yn, apply_lops G1 Z = Ok Yn ->
            post (view J hcur pa (Yn, Some Ln, crn)) =
            do Z1 <- upd (e_fx e) (fun f => Ok (fold_left store_net Ln f)) Yn ;; ensure_crosses J hcur crn acurs Z1).
  { intros Yn EY. unfold post, view. cbn [home abroad fxl crosses fst snd]. fold inh.
    rewrite (put_back_two inh pa G1 Hinh Hpa Z Yn EY G1out). unfold store_ledger. rewrite HE. reflexivity. }
  destruct (find_sec (e_xr e) Z) as [xr|] eqn:Fxr.
  2:{ (* no XR sector: the first cross rate cannot be created *)
      destruct (apply_lops G1 Z) as [Yn|] eqn:EY; cbn [bind]; [|exact I]. rewrite (POST Yn eq_refl).
      pose proof (apply_lops_zattrs _ _ _ EY) as ZAn.
      destruct (upd (e_fx e) (fun f => Ok (fold_left store_net Ln f)) Yn) as [Z1|] eqn:U; cbn [bind]; [|exact I].
      assert (ZA1 : zattrs Yn Z1).
      { apply (upd_zattrs _ _ (fun s s' (E : Ok (fold_left store_net Ln s) = Ok s') => eq_ind _ (attrs_eq s) (fold_store_attrs Ln s) _ (f_equal (fun r => match r with Ok x => x | Err _ => s end) E)) _ _ U). }
      destruct (ensure_crosses_fail J e hcur crn acurs Z1 HE) as [er ->]; [|exact HA| |exact I].
      - apply (zattrs_find_none _ _ _ ZA1). now apply (zattrs_find_none _ _ _ ZAn).
      - intros a Ha. destruct (FB a Ha) as (x & Hx & Hc). exact (crs_of_mem hcur ts [] x a Hx Hc). }
  destruct (foreign_guard J Z e i hcur fx ts acurs) eqn:G; [|now contradiction NF]. cbn [bind]. clear NF.
  (* the guard *)
  unfold foreign_guard in G. fold zs in G.
  apply andb_true_iff in G as [G G9]. apply andb_true_iff in G as [G G8]. apply andb_true_iff in G as [G G7].
  apply andb_true_iff in G as [G G6]. apply andb_true_iff in G as [G G5]. apply andb_true_iff in G as [G G4].
  apply andb_true_iff in G as [G G3]. apply andb_true_iff in G as [G1' G2].
  apply negb_true_iff in G1'. fold inh in G1'.
  apply negb_true_iff in G6. apply negb_true_iff in G7. apply negb_true_iff in G8.
  rewrite forallb_forall in G2, G5, G9.
  apply mem_In in G3. apply mem_In in G4.
  assert (G9a : forall x, List.In x ts -> Nat.eqb (fs_id x) i = false /\ Nat.eqb (fs_id x) (e_fx e) = false).
  { intros x Hx. specialize (G9 x Hx). apply andb_true_iff in G9 as [A B]. now apply negb_true_iff in A, B. }
  assert (G5a : forall a, List.In a acurs -> List.In a zs /\ has_substring "__" (hcur ++ "_" ++ a) = false).
  { intros a Ha. specialize (G5 a Ha). apply andb_true_iff in G5 as [A B]. apply mem_In in A. now apply negb_true_iff in B. }
  set (Gx := fun s : sector => if Nat.eqb (sid s) (e_xr e) then cross_ops hcur acurs else []).
  set (STORE := fun f : sector => Ok (fold_left store_net Ln f)).
  assert (STA : forall s s', STORE s = Ok s' -> attrs_eq s s').
  { intros s s' E. unfold STORE in E. injection E as <-. apply fold_store_attrs. }
  eapply rsim_zres_trans.
  { apply rsim_bind_r. intros Yn EY. rewrite (POST Yn EY). fold STORE.
    pose proof (apply_lops_zattrs _ _ _ EY) as ZAn. pose proof (zattrs_nodup _ _ ZAn ND) as NDn.
    destruct (zattrs_find_some _ _ _ _ ZAn Ffx) as (fxn & Ffxn & _).
    rewrite (upd_zmap (e_fx e) STORE Yn NDn (ex_intro _ fxn Ffxn)).
    apply rsim_bind_r. intros Z1 EZ1.
    assert (ZA1 : zattrs Yn Z1).
    { apply zmap_ok_inv in EZ1. clear -EZ1 STA. induction EZ1 as [|s s' l l' E _ IH]; constructor; [|exact IH].
      destruct (Nat.eqb (sid s) (e_fx e)); [now apply STA|]. injection E as <-. apply attrs_eq_refl. }
    rewrite (ensure_crosses_upd J e hcur crn acurs HE).
    2:{ intros a Ha. split; [|exact (proj2 (G5a a Ha))]. destruct (FB a Ha) as (x & Hx & Hc). exact (crs_of_mem hcur ts [] x a Hx Hc). }
    destruct (zattrs_find_some _ _ _ _ (zattrs_trans _ _ _ ZAn ZA1) Fxr) as (xr1 & Fxr1 & _).
    eapply rsim_trans; [apply (fold_upd_passes (e_xr e) (fun a => [cross_op hcur a]) acurs Z1 (zattrs_nodup _ _ ZA1 NDn) (ex_intro _ xr1 Fxr1))|].
    rewrite <- cross_ops_flat. fold Gx. apply rsim_refl. }
  unfold apply_lops.
  eapply rsim_zres_trans.
  { eapply rsim_trans; [apply rsim_bind_r; intros Yn _; apply zmap_seq|]. apply zmap_seq. }
  apply zmap_pointwise. intros s Hs. cbv beta.
  pose proof (find_sec_unique Z s ND Hs) as Us.
  assert (NS : forall x, List.In x ts -> Nat.eqb (fs_id x) (sid self) = false) by (intros x Hx; rewrite Hi; exact (proj1 (G9a x Hx))).
  rewrite (foreign_lops_fused e self hcur inh (market_fulls self (filter inh Z)) ts acurs s NS).
  2:{ intros E. apply Nat.eqb_eq in E. rewrite E, Hi, F in Us. injection Us as <-. rewrite Hi. auto. }
  change (restrict inh (dem_all self (market_fulls self (filter inh Z))) s) with (dem_lops J hcur Z self s). fold (G1 s). fold (Gx s).
  destruct (Nat.eqb (sid s) (e_fx e)) eqn:Efx.
  - (* the FX sector *)
    apply Nat.eqb_eq in Efx. rewrite Efx, Ffx in Us. injection Us as <-.
    assert (EG1 : G1 fx = []).
    { unfold G1, dem_lops, restrict, sup_ops. fold inh. rewrite G1'. rewrite Efx, Hi, (Nat.eqb_sym (e_fx e) i), G6. cbn [app].
      apply flat_map_nil. intros x Hx. unfold sup_lops. rewrite Efx, Hi, (Nat.eqb_sym (e_fx e) i), G6, (proj2 (G9a x Hx)). reflexivity. }
    assert (EGx : forall f, sid f = e_fx e -> Gx f = []).
    { intros f Ef. unfold Gx. now rewrite Ef, G8. }
    rewrite EG1. cbn [run_ops foldM bind app]. rewrite Efx, Nat.eqb_refl. unfold STORE. cbn [bind].
    rewrite (EGx fx Efx), app_nil_r. rewrite EGx by (rewrite (attrs_sid _ _ (fold_store_attrs Ln fx)); exact Efx).
    cbn [run_ops foldM].
    assert (K0 : map fst L0 = zs) by (unfold L0; rewrite map_map; apply map_id).
    assert (S0 : sec_ext (stored fx L0) fx).
    { unfold stored, L0. rewrite fold_store_same; [apply sec_ext_refl|]. apply forallb_forall. exact G2. }
    destruct (fx_all_stored fx zs (NoDup_nodup _ _) G2 self hcur ts G3 G4
                (fun x c Hx Hc => proj1 (G5a c (proj1 (FC x c Hx Hc)))) L0 fx K0 S0) as (f' & R & S).
    fold (run_ops (flat_map (fx_ops self hcur) ts) fx). rewrite R. exact S.
  - (* every other sector *)
    rewrite app_nil_l, run_ops_app.
    destruct (run_ops (G1 s) s) as [s1|] eqn:E1; cbn [bind]; [|exact I].
    pose proof (attrs_sid _ _ (run_ops_attrs _ _ _ E1)) as Es1. rewrite Es1, Efx. cbn [bind].
    unfold Gx. rewrite Es1. fold (Gx s).
    destruct (run_ops (Gx s) s1); [apply sec_ext_refl|exact I].
Qed.

End General.
