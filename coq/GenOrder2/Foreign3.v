(** A market with suppliers in other currency zones, part 3: the ledger written back to the FX sector
    ([store_ledger]) is the sequence of [PAdd]s of [fx_ops]; the cross rates ([ensure_crosses]) are
    the [PEnsure]s of [cross_ops]; the state threaded through the supplier loop. *)
From Coq Require Import List String Bool ZArith Arith Lia.
From SFC.Base Require Import Res Str.
From SFC.Gen Require Import Fx Zone.
From SFC.GenMarket Require Import Market MarketProofs.
From SFC.GenAsset Require Import Weighting.
From SFC.GenMain2 Require Import Program Classes Main Program2 Main2 Conflict Conflict2.
From SFC.GenOrder Require Import Ops Plan ReformDefs ReformMarketLib ReformMarket.
From SFC.GenOrder2 Require Import ForeignDefs Plan2 Part Reform2 Foreign1.
Import ListNotations.
Local Open Scope string_scope.
Local Open Scope list_scope.

(* ------------------------------------------------------------------ *)
(** * The state threaded through the supplier loop *)

Definition led_step (mk : sector) (hcur : string) (l : ledger) (x : fsup) : ledger :=
  match fs_cur x with None => l | Some c => fx2 hcur c (full_name mk (alloc_name (fs_sec x))) l end.
Definition led_of (mk : sector) (hcur : string) (ts : list fsup) (l : ledger) : ledger := fold_left (led_step mk hcur) ts l.

Definition crs_step (hcur : string) (cr : list string) (x : fsup) : list string :=
  match fs_cur x with None => cr | Some c => add_cross (cross_code hcur c) cr end.
Definition crs_of (hcur : string) (ts : list fsup) (cr : list string) : list string := fold_left (crs_step hcur) ts cr.

Definition is_foreign (x : fsup) : bool := match fs_cur x with Some _ => true | None => false end.

Lemma fold_tstep_some mk hcur ts : forall (Y : zone) l cr,
  foldM (tstep hcur mk) ts (Y, Some l, cr) =
  do Y' <- foldM (fun H x => apply_lops (sup_lops mk hcur x) H) ts Y ;; Ok (Y', Some (led_of mk hcur ts l), crs_of hcur ts cr).
Proof.
  induction ts as [|x ts IH]; intros Y l cr; [reflexivity|]. cbn [foldM]. unfold tstep at 1. cbn [fst snd].
  unfold led_of, crs_of. cbn [fold_left]. unfold led_step at 2, crs_step at 2.
  destruct (fs_cur x) as [c|]; destruct (apply_lops (sup_lops mk hcur x) Y) as [Y'|]; cbn [bind]; try reflexivity; apply IH.
Qed.

Lemma fold_tstep_none mk hcur ts : forall (Y : zone) cr, existsb is_foreign ts = true ->
  exists e, foldM (tstep hcur mk) ts (Y, None, cr) = Err e.
Proof.
  induction ts as [|x ts IH]; intros Y cr H; [discriminate|]. cbn [foldM existsb] in *. unfold tstep at 1. unfold is_foreign at 1 in H. cbn [fst snd].
  destruct (fs_cur x) as [c|]; [eauto|]. cbn [orb] in H.
  destruct (apply_lops (sup_lops mk hcur x) Y) as [Y'|]; cbn [bind]; [now apply IH|eauto].
Qed.

(* ------------------------------------------------------------------ *)
(** * The ledger written back *)

Definition netn (c : string) : string := "NET_" ++ c.

Lemma netn_inj a b : netn a = netn b -> a = b.
Proof. apply append_inj_l. Qed.

Definition blob_at (f : sector) (c : string) : string :=
  match lookup_var (netn c) (vars f) with Some e => blob e | None => "" end.

Lemma store_net_attrs f ct : attrs_eq f (store_net f ct).
Proof. unfold store_net. destruct (lookup_var _ _); apply attrs_eq_with_vars. Qed.

Lemma fold_store_attrs L : forall f, attrs_eq f (fold_left store_net L f).
Proof.
  induction L as [|ct L IH]; intros f; [apply attrs_eq_refl|]. cbn [fold_left].
  eapply attrs_eq_trans; [apply store_net_attrs|apply IH].
Qed.

Lemma store_net_lookup_same f c ts : has_var f (netn c) = true ->
  lookup_var (netn c) (vars (store_net f (c, ts))) = Some (mkEqn (blob_at f c) ts).
Proof.
  unfold has_var, store_net, blob_at, netn. cbn [fst snd]. destruct (lookup_var ("NET_" ++ c) (vars f)) as [e|]; [|discriminate].
  intros _. apply lookup_set_eqn_same.
Qed.

Lemma store_net_lookup_other f c ts n : n <> netn c -> lookup_var n (vars (store_net f (c, ts))) = lookup_var n (vars f).
Proof.
  intros Hn. unfold store_net. cbn [fst snd]. fold (netn c).
  destruct (lookup_var (netn c) (vars f)); apply lookup_set_eqn_other; congruence.
Qed.

Lemma stored_lookup_out L : forall f n, (forall c, List.In c (map fst L) -> n <> netn c) ->
  lookup_var n (vars (fold_left store_net L f)) = lookup_var n (vars f).
Proof.
  induction L as [|[d ts] L IH]; intros f n H; [reflexivity|]. cbn [fold_left].
  rewrite IH by (intros c Hc; apply H; now right).
  apply store_net_lookup_other. apply H. now left.
Qed.

Lemma stored_lookup_in L : forall f, NoDup (map fst L) -> (forall c, List.In c (map fst L) -> has_var f (netn c) = true) ->
  forall c, List.In c (map fst L) ->
  lookup_var (netn c) (vars (fold_left store_net L f)) = Some (mkEqn (blob_at f c) (ledger_lookup c L)).
Proof.
  induction L as [|[d ts] L IH]; intros f NDk Hh c Hc; [contradiction|].
  cbn [map fst] in NDk, Hc. inversion NDk as [|? ? Hn NDk']; subst. cbn [fold_left ledger_lookup].
  destruct (String.eqb_spec c d) as [->|Hcd].
  - rewrite stored_lookup_out.
    + apply store_net_lookup_same. apply Hh. now left.
    + intros c Hc' E. apply netn_inj in E. subst c. contradiction.
  - destruct Hc as [E|Hc]; [congruence|].
    rewrite (IH (store_net f (d, ts)) NDk').
    + f_equal. f_equal. unfold blob_at. rewrite store_net_lookup_other; [reflexivity|]. intros E. apply netn_inj in E. contradiction.
    + intros c' Hc'. unfold has_var. destruct (String.eqb_spec c' d) as [->|Hn'].
      * rewrite store_net_lookup_same; [reflexivity|]. apply Hh. now left.
      * rewrite store_net_lookup_other by (intros E; apply netn_inj in E; contradiction).
        apply (Hh c'). now right.
    + exact Hc.
Qed.

Lemma map_fst_add_to c t L : List.In c (map fst L) -> map fst (add_to c t L) = map fst L.
Proof.
  induction L as [|[d ts] L IH]; intros H; [contradiction|]. cbn [add_to map fst] in *.
  destruct (String.eqb_spec c d) as [->|Hn]; [reflexivity|]. cbn [map fst]. f_equal. apply IH. destruct H; [congruence|assumption].
Qed.

Section Ledger.
Variable fx : sector.
Variable zs : list string.
Hypothesis NDz : NoDup zs.
Hypothesis Hhas : forall c, List.In c zs -> has_var fx (netn c) = true.

Definition stored (L : ledger) : sector := fold_left store_net L fx.

Lemma padd_stored L f c t : map fst L = zs -> List.In c zs -> sec_ext (stored L) f ->
  exists f', run_op1 f (PAdd (netn c) t) = Ok f' /\ sec_ext (stored (add_to c t L)) f' /\ map fst (add_to c t L) = zs.
Proof.
  intros HK Hc [HA HV].
  assert (NDk : NoDup (map fst L)) by (rewrite HK; exact NDz).
  assert (Hh : forall c0, List.In c0 (map fst L) -> has_var fx (netn c0) = true) by (rewrite HK; exact Hhas).
  assert (Hc' : List.In c (map fst L)) by (rewrite HK; exact Hc).
  pose proof (map_fst_add_to c t L Hc') as HK'.
  assert (E : lookup_var (netn c) (vars f) = Some (mkEqn (blob_at fx c) (ledger_lookup c L))).
  { rewrite HV. unfold stored. now apply stored_lookup_in. }
  cbn [run_op1]. unfold add_term_to_eq. rewrite E. cbn [opt_key blob terms].
  eexists. split; [reflexivity|]. split; [|now rewrite HK'].
  split.
  - eapply attrs_eq_trans; [|eapply attrs_eq_trans; [exact HA|apply attrs_eq_with_vars]].
    eapply attrs_eq_trans; [apply attrs_eq_sym; apply (fold_store_attrs (add_to c t L) fx)|apply (fold_store_attrs L fx)].
  - intros n. cbn [vars with_vars]. destruct (string_dec n (netn c)) as [->|Hn].
    + rewrite lookup_set_same. unfold stored. rewrite stored_lookup_in; [|now rewrite HK'|now rewrite HK'|now rewrite HK'].
      rewrite lookup_add_to, String.eqb_refl. reflexivity.
    + rewrite lookup_set_other by congruence. rewrite HV. unfold stored.
      destruct (in_dec string_dec n (map netn zs)) as [Hin|Hout].
      * apply in_map_iff in Hin as (c' & <- & Hc0).
        rewrite !stored_lookup_in; try (now rewrite ?HK', ?HK); try (rewrite ?HK', ?HK; exact NDz).
        rewrite lookup_add_to. destruct (String.eqb_spec c c') as [->|Hcc]; [contradiction|reflexivity].
      * rewrite !stored_lookup_out; [reflexivity| |].
        -- intros c' Hc0 ->. apply Hout. apply in_map. rewrite ?HK' in Hc0. rewrite HK in Hc0. exact Hc0.
        -- intros c' Hc0 ->. apply Hout. apply in_map. rewrite ?HK' in Hc0. rewrite HK in Hc0. exact Hc0.
Qed.

Lemma fx_ops_stored mk hcur x L f : map fst L = zs -> List.In hcur zs -> List.In NUM zs ->
  (forall c, fs_cur x = Some c -> List.In c zs) -> sec_ext (stored L) f ->
  exists f', run_ops (fx_ops mk hcur x) f = Ok f' /\ sec_ext (stored (led_step mk hcur L x)) f' /\ map fst (led_step mk hcur L x) = zs.
Proof.
  intros HK Hh Hn Hc HS. unfold fx_ops, led_step. destruct (fs_cur x) as [c|].
  - specialize (Hc c eq_refl). set (xf := full_name mk (alloc_name (fs_sec x))).
    unfold fx2, fx_step.
    destruct (padd_stored L f hcur (1%Z, [xf]) HK Hh HS) as (f1 & R1 & S1 & K1).
    destruct (padd_stored _ f1 NUM ((-1)%Z, [xf; xr_name hcur]) K1 Hn S1) as (f2 & R2 & S2 & K2).
    destruct (padd_stored _ f2 c ((-1)%Z, [xf; cross_name hcur c]) K2 Hc S2) as (f3 & R3 & S3 & K3).
    destruct (padd_stored _ f3 NUM (1%Z, [xf; xr_name hcur]) K3 Hn S3) as (f4 & R4 & S4 & K4).
    exists f4. split; [|split; assumption].
    fold (netn hcur) (netn NUM) (netn c).
    rewrite run_ops_cons, R1. cbn [bind]. rewrite run_ops_cons, R2. cbn [bind]. rewrite run_ops_cons, R3. cbn [bind].
    rewrite run_ops_cons, R4. reflexivity.
  - exists f. split; [reflexivity|split; assumption].
Qed.

Lemma fx_all_stored mk hcur ts : List.In hcur zs -> List.In NUM zs ->
  (forall x c, List.In x ts -> fs_cur x = Some c -> List.In c zs) ->
  forall L f, map fst L = zs -> sec_ext (stored L) f ->
  exists f', run_ops (flat_map (fx_ops mk hcur) ts) f = Ok f' /\ sec_ext (stored (led_of mk hcur ts L)) f'.
Proof.
  intros Hh Hn. induction ts as [|x ts IH]; intros Hc L f HK HS.
  - exists f. split; [reflexivity|exact HS].
  - destruct (fx_ops_stored mk hcur x L f HK Hh Hn (fun c => Hc x c (or_introl eq_refl)) HS) as (f1 & R1 & S1 & K1).
    destruct (IH (fun y c Hy => Hc y c (or_intror Hy)) _ f1 K1 S1) as (f2 & R2 & S2).
    exists f2. split; [|exact S2]. cbn [flat_map]. rewrite run_ops_app, R1. exact R2.
Qed.

End Ledger.

(* ------------------------------------------------------------------ *)
(** * Cross rates *)

Lemma upd_ext i (f g : sector -> result sector) : (forall s, f s = g s) -> forall Z, upd i f Z = upd i g Z.
Proof. intros H. induction Z as [|s r IH]; [reflexivity|]. cbn [upd]. now rewrite H, IH. Qed.

Definition cross_op (hcur a : string) : pop := PEnsure (hcur ++ "_" ++ a) (blob_eqn (squeeze (hcur ++ "/" ++ a))).

Lemma ensure_crosses_upd J e hcur codes acurs : j_ext J = Some e ->
  (forall a, List.In a acurs -> mem (cross_code hcur a) codes = true /\ has_substring "__" (hcur ++ "_" ++ a) = false) ->
  forall Z1, ensure_crosses J hcur codes acurs Z1 =
             foldM (fun H a => upd (e_xr e) (fun xr => run_ops [cross_op hcur a] xr) H) acurs Z1.
Proof.
  intros HE. induction acurs as [|a r IH]; intros H Z1; [reflexivity|]. cbn [ensure_crosses foldM].
  destruct (H a (or_introl eq_refl)) as [H1 H2]. rewrite H1. unfold ensure_cross. rewrite HE.
  rewrite (upd_ext (e_xr e) _ (fun xr => run_ops [cross_op hcur a] xr)).
  - destruct (upd (e_xr e) _ Z1) as [Z2|]; cbn [bind]; [|reflexivity]. apply IH. intros b Hb. apply H. now right.
  - intros s. rewrite run_ops_1. unfold cross_op. cbn [run_op1]. unfold addv. rewrite H2.
    destruct (has_var s (hcur ++ "_" ++ a)); reflexivity.
Qed.

Lemma fold_upd_passes {X} i (ops : X -> list pop) (l : list X) : forall H, NoDup (map sid H) -> (exists s, find_sec i H = Some s) ->
  rsim (foldM (fun H a => upd i (fun s => run_ops (ops a) s) H) l H)
       (apply_lops (fun s => if Nat.eqb (sid s) i then flat_map ops l else []) H).
Proof.
  induction l as [|a l IH]; intros H NDH [s Fs].
  - cbn [foldM flat_map]. rewrite (apply_lops_ext _ (fun _ => []) H); [rewrite apply_lops_nil; reflexivity|].
    intros x _. now destruct (Nat.eqb (sid x) i).
  - cbn [foldM flat_map].
    change (match upd i (fun s0 => run_ops (ops a) s0) H with Ok a' => foldM (fun H0 a0 => upd i (fun s0 => run_ops (ops a0) s0) H0) l a' | Err e => Err e end)
      with (do H1 <- upd i (fun s0 => run_ops (ops a) s0) H ;; foldM (fun H0 a0 => upd i (fun s0 => run_ops (ops a0) s0) H0) l H1).
    rewrite (upd_lops i _ (fun _ => ops a) H NDH (ex_intro _ s Fs)) by (intros; reflexivity).
    eapply rsim_trans.
    + apply rsim_bind_r. intros H1 E1. pose proof (apply_lops_zattrs _ _ _ E1) as ZA.
      apply IH; [now apply (zattrs_nodup H)|]. destruct (zattrs_find_some _ _ _ _ ZA Fs) as (s' & Fs' & _). eauto.
    + eapply rsim_trans.
      * apply apply_lops_seq_attr. intros x x' A. now rewrite (attrs_sid _ _ A).
      * apply rsim_eq. apply apply_lops_ext. intros x _. now destruct (Nat.eqb (sid x) i).
Qed.

Lemma cross_ops_flat hcur acurs : cross_ops hcur acurs = flat_map (fun a => [cross_op hcur a]) acurs.
Proof. unfold cross_ops. induction acurs as [|a r IH]; [reflexivity|]. cbn [map flat_map app]. now rewrite IH. Qed.

(* ------------------------------------------------------------------ *)
(** * Cross rates recorded by the loop *)

Lemma mem_add_cross c l : mem c (add_cross c l) = true.
Proof.
  unfold add_cross. destruct (mem c l) eqn:E; [exact E|]. apply mem_In. apply in_or_app. right. now left.
Qed.

Lemma mem_add_cross_mono c d l : mem c l = true -> mem c (add_cross d l) = true.
Proof.
  intros H. unfold add_cross. destruct (mem d l); [exact H|]. apply mem_In. apply in_or_app. left. now apply mem_In.
Qed.

Lemma crs_of_mono hcur ts : forall cr c, mem c cr = true -> mem c (crs_of hcur ts cr) = true.
Proof.
  induction ts as [|x ts IH]; intros cr c H; [exact H|]. unfold crs_of. cbn [fold_left]. apply IH.
  unfold crs_step. destruct (fs_cur x); [now apply mem_add_cross_mono|exact H].
Qed.

Lemma crs_of_mem hcur ts : forall cr x c, List.In x ts -> fs_cur x = Some c -> mem (cross_code hcur c) (crs_of hcur ts cr) = true.
Proof.
  induction ts as [|y ts IH]; intros cr x c Hin Hc; [contradiction|]. unfold crs_of. cbn [fold_left].
  destruct Hin as [->|Hin].
  - apply crs_of_mono. unfold crs_step. rewrite Hc. apply mem_add_cross.
  - now apply (IH _ x c).
Qed.
