(** Invariants of the construction phase of the multi-currency model used by Constr2.v
    (coq/GenOrder/ConstrInv.v for [Main2.kstate]): sid = position, one class per sector, the three
    creation indices stored in [k_ext] and every creation index stored in the other components refer to
    existing sectors.  For the class list this needs [closed_refs2]: no CentralBank(treasury=t) /
    GoldStandardCentralBank(treasury=t) declaration names a sector that does not exist yet. *)
From Coq Require Import List String Bool ZArith Arith Lia.
From SFC.Base Require Import Res Str.
From SFC.Gen Require Import Fx Zone.
From SFC.GenMarket Require Import Market MarketProofs.
From SFC.GenMain2 Require Import Program Classes Main MainProofs Program2 Main2 MainProofs2.
From SFC.GenOrder Require Import Perm CRel ConstrBase ConstrInv.
From SFC.GenOrder2 Require Import Perm2 CRel2.
Import ListNotations.
Local Open Scope string_scope.
Local Open Scope list_scope.

(* ------------------------------------------------------------------ *)
(** * Programs without forward treasury references *)

Lemma closed_from2_app a : forall n b, closed_from2 n (a ++ b) = closed_from2 n a && closed_from2 (n + nsec2 a) b.
Proof.
  induction a as [|x a IH]; intros n b; simpl; [now rewrite Nat.add_0_r|].
  destruct x; simpl; rewrite IH; rewrite <- ?andb_assoc, ?Nat.add_succ_r; reflexivity.
Qed.

Lemma refs_below2_tre_ok2 n k : refs_below2 n k = true -> tre_ok2 n k = true.
Proof.
  destruct k as [c| |[t|] s| | |]; try reflexivity.
  - apply refs_below_tre_ok.
  - unfold refs_below2. simpl. now rewrite andb_true_r.
Qed.

Lemma tre_ok2_mono n m k : n <= m -> tre_ok2 n k = true -> tre_ok2 m k = true.
Proof.
  destruct k as [c| |[t|] s| | |]; try reflexivity.
  - apply tre_ok_mono.
  - simpl. intros L H. apply Nat.ltb_lt in H. apply Nat.ltb_lt. lia.
Qed.

Lemma rn_cls2_fix n g k : fixes n g -> refs_below2 n k = true -> rn_cls2 g k = k.
Proof.
  intros G H. destruct k as [c| |[t|] s| | |]; try reflexivity.
  - simpl. f_equal. now apply (rn_cls_fix n).
  - unfold refs_below2 in H. simpl in H. rewrite andb_true_r in H. apply Nat.ltb_lt in H. simpl. now rewrite (G _ H).
Qed.

Lemma refs_below2_intro n k : tre_ok2 n k = true -> Forall (fun j => j < n) (market_refs2 k) -> refs_below2 n k = true.
Proof.
  intros T M. destruct k as [c| |[t|] s| | |]; try reflexivity.
  - now apply refs_below_intro.
  - unfold refs_below2. simpl in *. now rewrite T.
Qed.

Lemma refs_below2_market_refs2 n k : refs_below2 n k = true -> Forall (fun j => j < n) (market_refs2 k).
Proof. destruct k as [c| |t s| | |]; try (intros _; constructor). apply refs_below_market_refs. Qed.

(* ------------------------------------------------------------------ *)
(** * The invariants *)

Record winv2 (st : kstate) : Prop := mkW2 {
  w2_pos : posl (k_secs st);
  w2_clen : List.length (k_classes st) = List.length (k_secs st);
  w2_ext : forall e, k_ext st = Some e ->
           e_xr e < List.length (k_secs st) /\ e_fx e < List.length (k_secs st) /\ e_gold e < List.length (k_secs st);
  w2_sup : forall g, fixes (List.length (k_secs st)) g -> map (rn_sup g) (k_sup st) = k_sup st;
  w2_flows : forall g, fixes (List.length (k_secs st)) g -> map (rn_flow g) (k_flows st) = k_flows st;
  w2_exo : forall g, fixes (List.length (k_secs st)) g -> map (rn_trip g) (k_exo st) = k_exo st;
  w2_ic : forall g, fixes (List.length (k_secs st)) g -> map (rn_trip g) (k_ic st) = k_ic st
}.

Definition cls_bounded2 (st : kstate) : Prop :=
  forall g, fixes (List.length (k_secs st)) g -> map (rn_cls2 g) (k_classes st) = k_classes st.

Lemma winv2_init : winv2 k_init.
Proof. constructor; simpl; try reflexivity. discriminate. Qed.

Lemma cls_bounded2_init : cls_bounded2 k_init.
Proof. intros g _. reflexivity. Qed.

(** the class a treasury attachment leaves behind *)
Definition set_tre (k : cls2) (tre : nat) : cls2 :=
  match k with
  | COld (CCentralBank _) => COld (CCentralBank (Some tre))
  | CGoldCB _ stock => CGoldCB (Some tre) stock
  | k => k
  end.

Lemma run_op2_settre st cb tre :
  run_op2 st (UOld (OSetTreasury cb tre)) =
  match find_sec cb (k_secs st), find_sec tre (k_secs st) with
  | Some _, Some _ =>
      Ok (mkK (k_countries st) (k_default st) (k_ext st) (k_secs st)
              (set_nth cb (set_tre (class_of2 (k_classes st) cb) tre) (k_classes st)) (k_sup st)
              (k_flows st) (k_exo st) (k_ic st))
  | _, _ => Err OtherError
  end.
Proof.
  cbn [run_op2]. destruct (find_sec cb (k_secs st)); [|reflexivity]. destruct (find_sec tre (k_secs st)); [|reflexivity].
  cbv zeta. do 2 f_equal. destruct (class_of2 (k_classes st) cb) as [[]| | | | |]; reflexivity.
Qed.

Lemma winv2_secs st C D E SL : winv2 st -> posl SL -> List.length SL = List.length (k_secs st) ->
  (forall e, E = Some e -> e_xr e < List.length SL /\ e_fx e < List.length SL /\ e_gold e < List.length SL) ->
  winv2 (mkK C D E SL (k_classes st) (k_sup st) (k_flows st) (k_exo st) (k_ic st)).
Proof.
  intros [W1 W2 W3 W4 W5 W6 W7] P L HE.
  constructor; cbn [k_ext k_secs k_classes k_sup k_flows k_exo k_ic]; try rewrite L; try assumption.
  rewrite <- L. exact HE.
Qed.

Lemma register_currency_inv e cur l l' : posl l -> register_currency e cur l = Ok l' ->
  posl l' /\ List.length l' = List.length l.
Proof.
  intros P H. unfold register_currency in H. bind_step H S1 E1.
  destruct (on_sector_inv _ _ _ _ P (addv_blind cur "1.0") E1) as [P1 L1].
  destruct (on_sector_inv _ _ _ _ P1 (addvs_blind _) H) as [P2 L2]. split; [exact P2|congruence].
Qed.

Lemma register_all_inv e : forall curs l l', posl l -> register_all e curs l = Ok l' ->
  posl l' /\ List.length l' = List.length l.
Proof.
  induction curs as [|c r IH]; intros l l' P H; cbn [register_all] in H; [injection H as <-; auto|].
  bind_step H S1 E1. destruct (register_currency_inv _ _ _ _ P E1) as [P1 L1].
  destruct (IH _ _ P1 H) as [P2 L2]. split; [exact P2|congruence].
Qed.

Lemma add_country_inv st code cur st' : posl (k_secs st) -> add_country st code cur = Ok st' ->
  exists SL, posl SL /\ List.length SL = List.length (k_secs st) /\
    st' = mkK (k_countries st ++ [(code, cur)]) cur (k_ext st) SL (k_classes st) (k_sup st) (k_flows st) (k_exo st) (k_ic st).
Proof.
  intros P H. unfold add_country in H. destruct (mem code (map fst (k_countries st))); [discriminate|].
  bind_step H SL E. injection H as <-. exists SL.
  assert (K : posl SL /\ List.length SL = List.length (k_secs st)).
  { destruct (k_ext st) as [e|]; [destruct (negb _)|]; try (injection E as <-; auto).
    eapply register_currency_inv; eassumption. }
  destruct K as [K1 K2]. auto.
Qed.

Lemma add_sector_inv st ci c k st' : add_sector st ci c k = Ok st' ->
  exists cc cur m s, nth_error (k_countries st) ci = Some (cc, cur) /\
    existsb (fun x => in_country cc x && String.eqb (code x) c) (k_secs st) = false /\
    resolve_markets (k_secs st) (market_refs2 k) = Ok m /\
    construct2 (List.length (k_secs st)) cc c k m = Ok s /\
    st' = mkK (k_countries st) (k_default st) (k_ext st) (k_secs st ++ [s]) (k_classes st ++ [k])
              (k_sup st) (k_flows st) (k_exo st) (k_ic st).
Proof.
  unfold add_sector. intros H. destruct (nth_error (k_countries st) ci) as [[cc cur]|]; [|discriminate].
  destruct (existsb _ (k_secs st)) eqn:X; [discriminate|]. bind_step H m E1. bind_step H s E2. injection H as <-.
  exists cc, cur, m, s. auto.
Qed.

Lemma add_sector_ok st ci c k cc cur m s : nth_error (k_countries st) ci = Some (cc, cur) ->
  existsb (fun x => in_country cc x && String.eqb (code x) c) (k_secs st) = false ->
  resolve_markets (k_secs st) (market_refs2 k) = Ok m ->
  construct2 (List.length (k_secs st)) cc c k m = Ok s ->
  add_sector st ci c k =
  Ok (mkK (k_countries st) (k_default st) (k_ext st) (k_secs st ++ [s]) (k_classes st ++ [k])
          (k_sup st) (k_flows st) (k_exo st) (k_ic st)).
Proof. intros H1 H2 H3 H4. unfold add_sector. rewrite H1, H2, H3. cbn [bind]. rewrite H4. reflexivity. Qed.

Lemma add_sector_len st ci c k st' : add_sector st ci c k = Ok st' ->
  List.length (k_secs st') = S (List.length (k_secs st)).
Proof.
  intros H. apply add_sector_inv in H as (cc & cur & m & s & _ & _ & _ & _ & ->). cbn [k_secs].
  rewrite app_length. simpl. lia.
Qed.

Lemma add_sector_winv st ci c k st' : winv2 st -> add_sector st ci c k = Ok st' -> winv2 st'.
Proof.
  intros [W1 W2 W3 W4 W5 W6 W7] H. apply add_sector_inv in H as (cc & cur & m & s & _ & _ & _ & E2 & ->).
  destruct (construct2_facts _ _ _ _ _ _ E2) as (F1 & _).
  assert (G : forall g, fixes (List.length (k_secs st ++ [s])) g -> fixes (List.length (k_secs st)) g).
  { intros g. apply fixes_le. rewrite app_length. lia. }
  constructor; cbn [k_ext k_secs k_classes k_sup k_flows k_exo k_ic]; auto.
  - now apply posl_snoc.
  - rewrite !app_length, W2. reflexivity.
  - intros e He. rewrite app_length. destruct (W3 e He) as (A & B & C). lia.
Qed.

Lemma add_sector_clsb st ci c k st' : winv2 st -> cls_bounded2 st -> tre_ok2 (List.length (k_secs st)) k = true ->
  add_sector st ci c k = Ok st' -> cls_bounded2 st'.
Proof.
  intros W CB T H. pose proof (w2_pos _ W) as W1.
  apply add_sector_inv in H as (cc & cur & m & s & _ & _ & E1 & E2 & ->).
  intros g G. cbn [k_secs k_classes] in *. rewrite app_length in G. simpl in G.
  rewrite map_app, (CB g) by (eapply fixes_le; [|exact G]; lia). simpl. f_equal. f_equal.
  apply (rn_cls2_fix (List.length (k_secs st))); [eapply fixes_le; [|exact G]; lia|].
  apply refs_below2_intro; [exact T|eapply resolve_markets_lt; eassumption].
Qed.

(** the ExternalSector step, taken apart *)
Lemma external_inv st st' : run_step2 st S2External = Ok st' ->
  k_ext st = None /\
  exists st1 st2 st3 st4 SL,
    add_country st "EXT" "NUMERAIRE" = Ok st1 /\
    add_sector st1 (List.length (k_countries st)) "XR" CXR = Ok st2 /\
    add_sector st2 (List.length (k_countries st)) "FX" CFX = Ok st3 /\
    add_sector st3 (List.length (k_countries st)) "GOLD" CGOLD = Ok st4 /\
    register_all (mkExt (List.length (k_secs st1)) (S (List.length (k_secs st1))) (S (S (List.length (k_secs st1)))))
                 (zones_of (k_countries st4)) (k_secs st4) = Ok SL /\
    st' = mkK (k_countries st4) (k_default st4)
              (Some (mkExt (List.length (k_secs st1)) (S (List.length (k_secs st1))) (S (S (List.length (k_secs st1))))))
              SL (k_classes st4) (k_sup st4) (k_flows st4) (k_exo st4) (k_ic st4).
Proof.
  cbn [run_step2]. intros H. destruct (k_ext st) as [e|]; [discriminate|]. split; [reflexivity|].
  bind_step H st1 E1. bind_step H st2 E2. bind_step H st3 E3. bind_step H st4 E4. bind_step H SL E5. injection H as <-.
  exists st1, st2, st3, st4, SL. repeat (split; [first [assumption|reflexivity]|]). reflexivity.
Qed.

Lemma run_step2_len st x st' : winv2 st -> run_step2 st x = Ok st' ->
  List.length (k_secs st') = List.length (k_secs st) + nsec2 [x].
Proof.
  intros W H. pose proof (w2_pos _ W) as W1. destruct x as [c cur rg| |ci c k|o].
  - cbn [run_step2] in H. apply (add_country_inv _ _ _ _ W1) in H as (SL & _ & L & ->). simpl. lia.
  - apply external_inv in H as (_ & st1 & st2 & st3 & st4 & SL & E1 & E2 & E3 & E4 & E5 & ->).
    apply (add_country_inv _ _ _ _ W1) in E1 as (SL1 & P1 & L1 & ->). cbn [k_secs] in *.
    assert (W1' : winv2 (mkK (k_countries st ++ [("EXT", "NUMERAIRE")]) "NUMERAIRE" (k_ext st) SL1
                             (k_classes st) (k_sup st) (k_flows st) (k_exo st) (k_ic st))).
    { apply winv2_secs; try assumption. rewrite L1. apply (w2_ext _ W). }
    pose proof (add_sector_winv _ _ _ _ _ W1' E2) as W2'. pose proof (add_sector_winv _ _ _ _ _ W2' E3) as W3'.
    pose proof (add_sector_winv _ _ _ _ _ W3' E4) as W4'.
    apply add_sector_len in E2, E3, E4. cbn [k_secs] in E2.
    destruct (register_all_inv _ _ _ _ (w2_pos _ W4') E5) as [_ L5]. simpl. lia.
  - cbn [run_step2] in H. apply add_sector_len in H. simpl. lia.
  - simpl. rewrite Nat.add_0_r. cbn [run_step2] in H.
    destruct o as [[s n t|s n spec|src tgt var a b|m sup text|s ws res|s n value|cb tre]|s m]; cbn [run_op2] in H.
    + bind_step H SL E. injection H as <-. cbn [upd_k k_secs].
      eapply on_sector_inv; [exact W1|apply addv_blind|exact E].
    + destruct (find_sec s (k_secs st)); [|discriminate]. now injection H as <-.
    + destruct (find_sec src (k_secs st)); [|discriminate]. destruct (find_sec tgt (k_secs st)); [|discriminate].
      now injection H as <-.
    + destruct (find_sec m (k_secs st)); [|discriminate]. destruct (find_sec sup (k_secs st)); [|discriminate].
      destruct (has_add_supplier2 _); [|discriminate]. destruct (sup_of m (k_sup st)) as [r others].
      now injection H as <-.
    + bind_step H SL E. injection H as <-. cbn [upd_k k_secs].
      eapply on_sector_inv; [exact W1|apply asset_weighting_blind|exact E].
    + destruct (find_sec s (k_secs st)); [|discriminate]. now injection H as <-.
    + destruct (find_sec cb (k_secs st)); [|discriminate]. destruct (find_sec tre (k_secs st)); [|discriminate].
      now injection H as <-.
    + destruct (find_sec m (k_secs st)) as [mk|]; [|discriminate]. bind_step H SL E. injection H as <-. cbn [upd_k k_secs].
      eapply on_sector_inv; [exact W1|apply add_market_blind|exact E].
Qed.

Lemma winv2_upd st SL : winv2 st -> posl SL -> List.length SL = List.length (k_secs st) -> winv2 (upd_k st SL).
Proof. intros W P L. unfold upd_k. apply winv2_secs; try assumption. rewrite L. apply (w2_ext _ W). Qed.

Lemma run_step2_winv st x st' : winv2 st -> run_step2 st x = Ok st' -> winv2 st'.
Proof.
  intros W H. pose proof W as [W1 W2 W3 W4 W5 W6 W7]. destruct x as [c cur rg| |ci c k|o].
  - cbn [run_step2] in H. apply (add_country_inv _ _ _ _ W1) in H as (SL & P & L & ->).
    apply winv2_secs; try assumption. now rewrite L.
  - apply external_inv in H as (_ & st1 & st2 & st3 & st4 & SL & E1 & E2 & E3 & E4 & E5 & ->).
    apply (add_country_inv _ _ _ _ W1) in E1 as (SL1 & P1 & L1 & ->). cbn [k_secs] in *.
    assert (W1' : winv2 (mkK (k_countries st ++ [("EXT", "NUMERAIRE")]) "NUMERAIRE" (k_ext st) SL1
                             (k_classes st) (k_sup st) (k_flows st) (k_exo st) (k_ic st))).
    { apply winv2_secs; try assumption. now rewrite L1. }
    pose proof (add_sector_winv _ _ _ _ _ W1' E2) as W2'. pose proof (add_sector_winv _ _ _ _ _ W2' E3) as W3'.
    pose proof (add_sector_winv _ _ _ _ _ W3' E4) as W4'.
    apply add_sector_len in E2, E3, E4. cbn [k_secs] in E2.
    destruct (register_all_inv _ _ _ _ (w2_pos _ W4') E5) as [P5 L5].
    apply winv2_secs; try assumption. intros e He. injection He as <-. cbn [e_xr e_fx e_gold]. lia.
  - cbn [run_step2] in H. eapply add_sector_winv; eassumption.
  - cbn [run_step2] in H.
    destruct o as [[s n t|s n spec|src tgt var a b|m sup text|s ws res|s n value|cb tre]|s m]; cbn [run_op2] in H.
    + bind_step H SL E. injection H as <-.
      destruct (on_sector_inv _ _ _ _ W1 (addv_blind n t) E). now apply winv2_upd.
    + destruct (find_sec s (k_secs st)) as [x|] eqn:Fs; [|discriminate]. injection H as <-.
      apply (find_sec_lt _ _ _ W1) in Fs.
      constructor; cbn [k_ext k_secs k_classes k_sup k_flows k_exo k_ic]; auto.
      intros g G. rewrite map_app, (W6 g G). unfold rn_trip. simpl. now rewrite (G _ Fs).
    + destruct (find_sec src (k_secs st)) as [x|] eqn:Fs; [|discriminate].
      destruct (find_sec tgt (k_secs st)) as [y|] eqn:Ft; [|discriminate]. injection H as <-.
      apply (find_sec_lt _ _ _ W1) in Fs. apply (find_sec_lt _ _ _ W1) in Ft.
      constructor; cbn [with_flows k_ext k_secs k_classes k_sup k_flows k_exo k_ic]; auto.
      intros g G. rewrite map_app, (W5 g G). simpl. now rewrite (G _ Fs), (G _ Ft).
    + destruct (find_sec m (k_secs st)) as [x|] eqn:Fm; [|discriminate].
      destruct (find_sec sup (k_secs st)) as [y|] eqn:Fs; [|discriminate].
      destruct (has_add_supplier2 _); [|discriminate]. destruct (sup_of m (k_sup st)) as [r others] eqn:So.
      injection H as <-.
      apply (find_sec_lt _ _ _ W1) in Fm. apply (find_sec_lt _ _ _ W1) in Fs.
      constructor; cbn [k_ext k_secs k_classes k_sup k_flows k_exo k_ic]; auto.
      intros g G. pose proof (W4 g G) as S3.
      assert (K : forall k, List.In k (map fst (k_sup st)) -> Nat.eqb (g k) (g m) = Nat.eqb k m).
      { intros k Hk. apply in_map_iff in Hk as ([k' x'] & <- & Hin). pose proof (map_fix_In _ _ S3 _ Hin) as Q.
        unfold rn_sup in Q. simpl in Q. injection Q as Q _. simpl. now rewrite Q, (G _ Fm). }
      pose proof (sup_of_map g m _ K) as So'. rewrite S3, (G _ Fm), So in So'.
      match goal with |- map _ (sup_set m ?x _) = _ => set (X := x) end.
      assert (HX : rn_supinfo g X = X).
      { unfold rn_supinfo in So'. simpl in So'. injection So' as R1 R2.
        unfold X. destruct text as [t|]; [destruct (String.eqb t "")|]; unfold rn_supinfo; simpl;
          rewrite ?map_app, <- ?R1, <- ?R2; simpl; rewrite ?(G _ Fs); reflexivity. }
      rewrite <- (sup_set_map g m X _ K), S3, HX, (G _ Fm). reflexivity.
    + bind_step H SL E. injection H as <-.
      destruct (on_sector_inv _ _ _ _ W1 (asset_weighting_blind ws res) E). now apply winv2_upd.
    + destruct (find_sec s (k_secs st)) as [x|] eqn:Fs; [|discriminate]. injection H as <-.
      apply (find_sec_lt _ _ _ W1) in Fs.
      constructor; cbn [k_ext k_secs k_classes k_sup k_flows k_exo k_ic]; auto.
      intros g G. rewrite map_app, (W7 g G). unfold rn_trip. simpl. now rewrite (G _ Fs).
    + destruct (find_sec cb (k_secs st)); [|discriminate]. destruct (find_sec tre (k_secs st)); [|discriminate].
      injection H as <-. constructor; cbn [k_ext k_secs k_classes k_sup k_flows k_exo k_ic]; auto.
      now rewrite length_set_nth.
    + destruct (find_sec m (k_secs st)) as [mk|]; [|discriminate]. bind_step H SL E. injection H as <-.
      destruct (on_sector_inv _ _ _ _ W1 (add_market_blind (code mk, country mk)) E). now apply winv2_upd.
Qed.

Lemma run_op2_classes st o st' : run_op2 st o = Ok st' ->
  match o with UOld (OSetTreasury _ _) => True | _ => k_classes st' = k_classes st end.
Proof.
  intros H. destruct o as [[s n t|s n spec|src tgt var a b|m sup text|s ws res|s n value|cb tre]|s m];
    cbn [run_op2] in H; [| | | | | |exact I|].
  - bind_step H SL E. now injection H as <-.
  - destruct (find_sec s (k_secs st)); [|discriminate]. now injection H as <-.
  - destruct (find_sec src (k_secs st)); [|discriminate]. destruct (find_sec tgt (k_secs st)); [|discriminate].
    now injection H as <-.
  - destruct (find_sec m (k_secs st)); [|discriminate]. destruct (find_sec sup (k_secs st)); [|discriminate].
    destruct (has_add_supplier2 _); [|discriminate]. destruct (sup_of m (k_sup st)) as [r others].
    now injection H as <-.
  - bind_step H SL E. now injection H as <-.
  - destruct (find_sec s (k_secs st)); [|discriminate]. now injection H as <-.
  - destruct (find_sec m (k_secs st)) as [mk|]; [|discriminate]. bind_step H SL E. now injection H as <-.
Qed.

Lemma cls_bounded2_same st st' : List.length (k_secs st') = List.length (k_secs st) -> k_classes st' = k_classes st ->
  cls_bounded2 st -> cls_bounded2 st'.
Proof. intros L C CB g G. rewrite C. apply CB. now rewrite <- L. Qed.

Lemma cls_bounded2_more st st' : List.length (k_secs st) <= List.length (k_secs st') -> k_classes st' = k_classes st ->
  cls_bounded2 st -> cls_bounded2 st'.
Proof. intros L C CB g G. rewrite C. apply CB. eapply fixes_le; eassumption. Qed.

Lemma run_step2_clsb st x st' : winv2 st -> cls_bounded2 st -> closed_from2 (List.length (k_secs st)) [x] = true ->
  run_step2 st x = Ok st' -> cls_bounded2 st'.
Proof.
  intros W CB CL H. pose proof (run_step2_len _ _ _ W H) as Len. pose proof (w2_pos _ W) as W1.
  destruct x as [c cur rg| |ci c k|o].
  - cbn [run_step2] in H. apply (add_country_inv _ _ _ _ W1) in H as (SL & P & L & ->).
    eapply cls_bounded2_same; [| |exact CB]; [exact L|reflexivity].
  - apply external_inv in H as (_ & st1 & st2 & st3 & st4 & SL & E1 & E2 & E3 & E4 & E5 & ->).
    apply (add_country_inv _ _ _ _ W1) in E1 as (SL1 & P1 & L1 & ->). cbn [k_secs] in *.
    assert (W1' : winv2 (mkK (k_countries st ++ [("EXT", "NUMERAIRE")]) "NUMERAIRE" (k_ext st) SL1
                             (k_classes st) (k_sup st) (k_flows st) (k_exo st) (k_ic st))).
    { apply winv2_secs; try assumption. rewrite L1. apply (w2_ext _ W). }
    pose proof (add_sector_winv _ _ _ _ _ W1' E2) as W2'. pose proof (add_sector_winv _ _ _ _ _ W2' E3) as W3'.
    pose proof (add_sector_winv _ _ _ _ _ W3' E4) as W4'.
    assert (CB1 : cls_bounded2 (mkK (k_countries st ++ [("EXT", "NUMERAIRE")]) "NUMERAIRE" (k_ext st) SL1
                             (k_classes st) (k_sup st) (k_flows st) (k_exo st) (k_ic st))).
    { eapply cls_bounded2_same; [| |exact CB]; [exact L1|reflexivity]. }
    pose proof (add_sector_clsb _ _ _ CXR _ W1' CB1 eq_refl E2) as CB2.
    pose proof (add_sector_clsb _ _ _ CFX _ W2' CB2 eq_refl E3) as CB3.
    pose proof (add_sector_clsb _ _ _ CGOLD _ W3' CB3 eq_refl E4) as CB4.
    destruct (register_all_inv _ _ _ _ (w2_pos _ W4') E5) as [P5 L5].
    eapply cls_bounded2_same; [| |exact CB4]; [exact L5|reflexivity].
  - cbn [run_step2] in H. eapply add_sector_clsb; try eassumption.
    simpl in CL. now rewrite andb_true_r in CL.
  - simpl in Len. rewrite Nat.add_0_r in Len. cbn [run_step2] in H. pose proof (run_op2_classes _ _ _ H) as C.
    destruct o as [[s n t|s n spec|src tgt var a b|m sup text|s ws res|s n value|cb tre]|s m];
      try (eapply cls_bounded2_same; [exact Len|exact C|exact CB]).
    clear C. rewrite run_op2_settre in H.
    destruct (find_sec cb (k_secs st)) as [x|] eqn:Fc; [|discriminate].
    destruct (find_sec tre (k_secs st)) as [y|] eqn:Ft; [|discriminate]. injection H as <-.
    apply (find_sec_lt _ _ _ W1) in Ft.
    intros g G. cbn [k_secs k_classes] in *. rewrite map_set_nth, (CB g G). f_equal.
    assert (K : rn_cls2 g (class_of2 (k_classes st) cb) = class_of2 (k_classes st) cb).
    { unfold class_of2. rewrite <- (CB g G) at 2. change (COld CGov) with (rn_cls2 g (COld CGov)) at 2. now rewrite map_nth. }
    destruct (class_of2 (k_classes st) cb) as [[]| |t s| | |]; try exact K; simpl; now rewrite (G _ Ft).
Qed.

Lemma foldM_inv2 : forall p st st', winv2 st -> cls_bounded2 st -> closed_from2 (List.length (k_secs st)) p = true ->
  foldM run_step2 p st = Ok st' ->
  winv2 st' /\ cls_bounded2 st' /\ List.length (k_secs st') = List.length (k_secs st) + nsec2 p.
Proof.
  induction p as [|x p IH]; intros st st' W CB CL H.
  - simpl in H. injection H as <-. simpl. rewrite Nat.add_0_r. auto.
  - cbn [foldM] in H. destruct (run_step2 st x) as [st1|] eqn:E; [|discriminate].
    change (x :: p) with ([x] ++ p) in CL. rewrite closed_from2_app in CL. apply andb_true_iff in CL as [CL1 CL2].
    pose proof (run_step2_len _ _ _ W E) as L1. rewrite <- L1 in CL2.
    destruct (IH st1 st' (run_step2_winv _ _ _ W E) (run_step2_clsb _ _ _ W CB CL1 E) CL2 H) as (A & B & C).
    split; [exact A|]. split; [exact B|]. rewrite C, L1. change (x :: p) with ([x] ++ p). rewrite nsec2_app. lia.
Qed.

Theorem construct_all2_inv p st : closed_refs2 p = true -> construct_all2 p = Ok st ->
  winv2 st /\ cls_bounded2 st /\ List.length (k_secs st) = nsec2 p.
Proof. intros CL H. exact (foldM_inv2 p k_init st winv2_init cls_bounded2_init CL H). Qed.
