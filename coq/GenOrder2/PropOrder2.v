(** C08 — declaration order does not matter: theorems over ALL programs of the multi-currency pipeline
    model (coq/GenMain2, [build2]: several currency zones, ExternalSector at any position, cross-zone
    registered flows, foreign suppliers, gold standard) and ALL admissible re-orderings of their sector
    declarations within each country. *)
From Coq Require Import List String Bool ZArith Arith Reals.
From SFC.Base Require Import Res Str.
From SFC.Gen Require Import Fx Zone.
From SFC.GenMarket Require Import Market.
From SFC.GenMain2 Require Import Program Classes Main Conflict Witness Program2 Main2 Conflict2 Witness2.
From SFC.GenOrder Require Import Ops Plan ReformDefs Static2 Sim Equiv SysEquiv Findings.
From SFC.GenOrder2 Require Import Perm2 CRel2 Plan2 ForeignDefs Side2 Reform2 Sim2 Constr2 Final2 OrderWitness2.
Import ListNotations.
Local Open Scope string_scope.

(** the theorem: same solutions for every variable, same initial conditions *)
Theorem Main2_order_invariant : forall p p', admissible_perm2 p p' -> order_ok2 p = true ->
  forall E, build2 p = Ok E -> exists E', build2 p' = Ok E' /\ sys_equiv E E' /\ fs_ic E' = fs_ic E.
Proof. exact final2_sys. Qed.
Print Assumptions Main2_order_invariant.

(** the syntactic form: the same rows up to the order of rows and of summands (the rows of the EXT
    sectors included: the NET_<currency> equations get their summands in another order) *)
Theorem Main2_order_invariant_rows : forall p p' E, admissible_perm2 p p' -> order_ok2 p = true -> build2 p = Ok E ->
  exists E', build2 p' = Ok E' /\ rows_perm_equiv E E' /\ fs_ic E' = fs_ic E.
Proof. exact final2_rows. Qed.
Print Assumptions Main2_order_invariant_rows.

(** failure does not depend on the order either (the error class may) *)
Theorem Main2_order_errors : forall p p', admissible_perm2 p p' -> order_ok2 p = true -> order_ok2 p' = true ->
  is_ok (build2 p') = is_ok (build2 p).
Proof. exact final2_errors. Qed.
Print Assumptions Main2_order_errors.

(** both directions: under the side condition on both orders, the two builds fail together or give
    solution-equivalent systems with the same initial conditions *)
Theorem Main2_order_invariant_both_ways : forall p p', admissible_perm2 p p' -> order_ok2 p = true -> order_ok2 p' = true ->
  (forall E, build2 p = Ok E -> exists E', build2 p' = Ok E' /\ sys_equiv E E' /\ fs_ic E' = fs_ic E) /\
  (forall E', build2 p' = Ok E' -> exists E, build2 p = Ok E /\ sys_equiv E E' /\ fs_ic E' = fs_ic E).
Proof. exact final2_iff. Qed.
Print Assumptions Main2_order_invariant_both_ways.

(** the computable relation the harness evaluates is contained in the theorem's relation *)
Theorem is_admissible2_is_sound : forall p p', is_admissible2 p p' = true -> admissible_perm2 p p'.
Proof. exact is_admissible2_sound. Qed.
Print Assumptions is_admissible2_is_sound.

Theorem admissible_perm2_symmetric : forall p q, admissible_perm2 p q -> admissible_perm2 q p.
Proof. exact admissible2_sym. Qed.
Print Assumptions admissible_perm2_symmetric.

(** construction alone never depends on the order (countries, currency zones, the external sector's
    registrations included) *)
Theorem Construction2_order_invariant : forall p p', admissible_perm2 p p' -> closed_refs2 p = true ->
  forall st, construct_all2 p = Ok st -> exists st' f, construct_all2 p' = Ok st' /\ kstate_rel f st st'.
Proof. exact construct_perm2. Qed.
Print Assumptions Construction2_order_invariant.

(** every _GenerateEquations model of the multi-currency pipeline — zone-scoped group calls, markets
    with foreign suppliers (one or several foreign zones), the gold-standard classes — is "a few facts
    about the zone, then primitive operations sector by sector" *)
Theorem Generation2_is_sectorwise : forall J st ik, NoDup (map sid (h_zone st)) ->
  plan2 J (h_zone st) ik <> Err OutOfFuel -> gres_ext2 (gen_step2 J st ik) (pstep2 J st ik).
Proof. exact final2_reform. Qed.
Print Assumptions Generation2_is_sectorwise.

(** the side condition is needed: two dividend receivers in a country (GenOrder's recorded finding, in
    the language of [build2]) *)
Theorem Main2_order_invariant_two_receivers_refuted :
  is_admissible2 p2_two p2_two' = true /\ order_ok2 p2_two = false /\
  build2 p2_two = Ok E2_two /\ build2 p2_two' = Ok E2_two' /\
  sat E2_two v_two (fun _ => 0%R) bv_two /\ ~ sat E2_two' v_two (fun _ => 0%R) bv_two.
Proof. exact two_receivers2_refuted. Qed.
Print Assumptions Main2_order_invariant_two_receivers_refuted.

(** ... and for the initial conditions: two gold-standard governments in one country append theirs in
    processing order (same rows, another order of the initial-condition list) *)
Theorem Main2_order_invariant_two_gold_refuted :
  is_admissible2 p_gg p_gg' = true /\ order_ok2 p_gg = false /\
  build2 p_gg = Ok E_gg /\ build2 p_gg' = Ok E_gg' /\ fs_ic E_gg' <> fs_ic E_gg.
Proof. exact two_gold_refuted. Qed.
Print Assumptions Main2_order_invariant_two_gold_refuted.

(** non-vacuity: the hypotheses hold on the open-economy and gold-standard witnesses (two currency zones,
    ExternalSector between the countries, a cross-zone gift, a foreign supplier) with all declarations of
    one country reversed and those of the other shuffled, and on the embedded SIM program *)
Example Order2_example_OPEN : is_admissible2 p_OPEN p_OPEN' = true /\ order_ok2 p_OPEN = true /\ is_ok (build2 p_OPEN) = true.
Proof. vm_compute. repeat split. Qed.
Print Assumptions Order2_example_OPEN.

Example Order2_example_GOLD : is_admissible2 p_GOLD p_GOLD' = true /\ order_ok2 p_GOLD = true /\ is_ok (build2 p_GOLD) = true.
Proof. vm_compute. repeat split. Qed.
Print Assumptions Order2_example_GOLD.

Example Order2_example_SIM_embedded :
  order_ok2 (map embed_step p_SIM) = true /\ is_ok (build2 (map embed_step p_SIM)) = true.
Proof. vm_compute. repeat split. Qed.
Print Assumptions Order2_example_SIM_embedded.
