(** The plans of Plan2.v depend on the zone only through attributes and through the PRESENCE of the
    variables listed by [Side2.reads22]; they are insensitive to the order of the zone and to an
    injective renaming of creation indices ([plan_sim2]).  For the calls that act inside the caller's
    currency zone this is GenOrder's [plan_sim] on the zone part. *)
From Coq Require Import List String Bool ZArith Arith Lia Permutation.
From SFC.Base Require Import Res Str.
From SFC.Gen Require Import Fx Zone.
From SFC.GenMarket Require Import Market.
From SFC.GenTax Require Import Tax Dividends.
From SFC.GenMain2 Require Import Program Classes Main Program2 Main2 Conflict Conflict2.
From SFC.GenOrder Require Import Ops Plan ReformDefs Static Equiv Perm CRel OpsProofs Sim Static2 SimMarket SimTax SimAll.
From SFC.GenOrder2 Require Import Perm2 CRel2 Plan2 Part Side2.
Import ListNotations.
Local Open Scope string_scope.
Local Open Scope list_scope.

Record isim2 (f : nat -> nat) (J J' : ginfo2) : Prop := mkIsim2 {
  is_cls : forall i, class_of2 (j_classes J') (f i) = rn_cls2 f (class_of2 (j_classes J) i);
  is_sup : forall m, sup_of (f m) (j_sup J') = rn_supinfo f (sup_of m (j_sup J));
  is_countries : j_countries J' = j_countries J;
  is_ext : j_ext J' = j_ext J;
  is_ext_fix : forall e, j_ext J = Some e -> f (e_xr e) = e_xr e /\ f (e_fx e) = e_fx e /\ f (e_gold e) = e_gold e
}.

Definition cand_unique2 (J : ginfo2) (Z : zone) (ik : nat * cls2) : Prop :=
  match snd ik with
  | COld c => cand_unique (to_old J) (zone_of_call J Z (fst ik)) (fst ik, c)
  | _ => True
  end.

Definition rn_ik2 (f : nat -> nat) (k : nat * cls2) : nat * cls2 := (f (fst k), rn_cls2 f (snd k)).

Lemma old_class_rn f k : old_class (rn_cls2 f k) = rn_cls f (old_class k).
Proof. destruct k; reflexivity. Qed.

Lemma to_old_isim f J J' : isim2 f J J' -> isim f (to_old J) (to_old J').
Proof.
  intros H. split.
  - intros i. unfold to_old. cbn [i_classes]. unfold class_of. change CGov with (old_class (COld CGov)).
    rewrite !map_nth. fold (class_of2 (j_classes J') (f i)). fold (class_of2 (j_classes J) i).
    now rewrite (is_cls _ _ _ H), old_class_rn.
  - intros m. exact (is_sup _ _ _ H m).
Qed.

Section Sim2.
Variable f : nat -> nat.
Variables J J' : ginfo2.
Hypothesis Hinj : forall a b, f a = f b -> a = b.
Hypothesis HI : isim2 f J J'.

Lemma cur_sim rd s s' : sim f rd s s' -> cur_of_sec J' s' = cur_of_sec J s.
Proof. intros H. unfold cur_of_sec. now rewrite (is_countries _ _ _ HI), (sim_country f _ _ _ H). Qed.

Lemma inzone_sim rd cur s s' : sim f rd s s' -> inzone J' cur s' = inzone J cur s.
Proof. intros H. unfold inzone, in_zone. now rewrite (is_countries _ _ _ HI), (sim_country f _ _ _ H). Qed.

Lemma zsim_filter (rd rd' : sector -> list string) cur Z Z' :
  (forall s n, inzone J cur s = true -> List.In n (rd' s) -> List.In n (rd s)) ->
  zsim f rd Z Z' -> zsim f rd' (filter (inzone J cur) Z) (filter (inzone J' cur) Z').
Proof.
  intros Hrd (Z'' & P & F). exists (filter (inzone J' cur) Z''). split; [now apply filter_perm|].
  clear P. induction F as [|s s' l l' H _ IH]; [constructor|]. cbn [filter].
  rewrite (inzone_sim _ cur s s' H). destruct (inzone J cur s) eqn:Q; [|exact IH].
  constructor; [|exact IH]. eapply sim_mono; [|exact H]. intros n. now apply Hrd.
Qed.

Lemma uniq_ok_filter q Z : uniq_ok Z -> uniq_ok (filter q Z).
Proof. intros [A B]. split; apply NoDup_map_filter; assumption. Qed.

Lemma supplier_ids_rn i : supplier_ids J' (f i) = map f (supplier_ids J i).
Proof.
  unfold supplier_ids. rewrite (is_sup _ _ _ HI i). destruct (sup_of i (j_sup J)) as [res others]. unfold rn_supinfo. cbn [fst snd].
  rewrite map_app, !map_map. f_equal. now destruct res.
Qed.

Lemma supplier_currencies_sim rd Z Z' hcur ids : NoDup (map sid Z) -> zsim f rd Z Z' ->
  supplier_currencies J' Z' hcur (map f ids) = supplier_currencies J Z hcur ids.
Proof.
  intros ND HZ. unfold supplier_currencies. f_equal. induction ids as [|i r IH]; [reflexivity|]. cbn [map flat_map]. rewrite IH. f_equal.
  pose proof (smk_find_sec_zsim f rd Z Z' Hinj ND HZ i) as F.
  destruct (find_sec i Z) as [s|], (find_sec (f i) Z') as [s'|]; try contradiction; [|reflexivity].
  now rewrite (cur_sim _ _ _ F).
Qed.

Lemma restrict_sim rd (q q' : sector -> bool) Z (r r' : result (sector -> list pop)) :
  (forall s s', List.In s Z -> sim f (rd s) s s' -> q' s' = q s) ->
  plans_sim f rd (filter q Z) r r' ->
  plans_sim f rd Z (do g <- r ;; Ok (restrict q g)) (do g <- r' ;; Ok (restrict q' g)).
Proof.
  intros Hq H. unfold plans_sim in *. destruct r as [g|], r' as [g'|]; cbn [bind]; try contradiction; [|exact Logic.I].
  intros s s' Hin Hs. unfold restrict. rewrite (Hq s s' Hin Hs). destruct (q s) eqn:Q; [|constructor].
  apply H; [apply filter_In; split; assumption|exact Hs].
Qed.

Lemma plans_sim_sub rd Zs Z r r' : (forall s, List.In s Zs -> List.In s Z) -> plans_sim f rd Z r r' -> plans_sim f rd Zs r r'.
Proof. intros H. unfold plans_sim. destruct r, r'; try tauto. intros K s s' Hin. apply K. now apply H. Qed.

Lemma plans_sim_mono_in (rd rd' : sector -> list string) Z r r' :
  (forall s n, List.In s Z -> List.In n (rd s) -> List.In n (rd' s)) -> plans_sim f rd Z r r' -> plans_sim f rd' Z r r'.
Proof.
  intros H. unfold plans_sim. destruct r, r'; try tauto. intros K s s' Hin Hs. apply K; [exact Hin|].
  eapply sim_mono; [|exact Hs]. intros n. now apply H.
Qed.

(** a call of the single-currency model on the caller's zone *)
Lemma local_plan_sim Z Z' i c self self' (rd : sector -> list string) :
  uniq_ok Z -> zsim f rd Z Z' -> sim f (rd self) self self' ->
  (forall s n, inzone J (cur_of_sec J self) s = true ->
               List.In n (reads2 (to_old J) (filter (inzone J (cur_of_sec J self)) Z) (i, c) s) -> List.In n (rd s)) ->
  cand_unique (to_old J) (filter (inzone J (cur_of_sec J self)) Z) (i, c) ->
  plans_sim f rd Z (local_plan J Z self (i, c)) (local_plan J' Z' self' (f i, rn_cls f c)).
Proof.
  intros HU HZ Hs Hrd HC. unfold local_plan. rewrite (cur_sim _ _ _ Hs).
  set (cur := cur_of_sec J self) in *.
  apply restrict_sim; [intros s s' _ H; eapply inzone_sim; exact H|].
  pose proof (plan_sim (i, c) f (to_old J) (to_old J') (filter (inzone J cur) Z) (filter (inzone J' cur) Z') Hinj
                (uniq_ok_filter _ Z HU) (to_old_isim f J J' HI)) as PS.
  cbn [fst snd] in PS.
  eapply plans_sim_mono_in; [|apply PS].
  - intros s n Hin Hn. apply filter_In in Hin as [_ Q]. now apply Hrd.
  - eapply zsim_filter; [|exact HZ]. intros s n Q Hn. now apply Hrd.
  - exact HC.
Qed.
End Sim2.
