(** From related construction states ([kstate_rel]) to related zones, informations and call lists
    (GenOrder's ZoneRel.v for [kstate]). *)
From Coq Require Import List String Bool ZArith Arith Lia Permutation.
From SFC.Base Require Import Res Str.
From SFC.Gen Require Import Fx Zone.
From SFC.GenMarket Require Import Market MarketProofs.
From SFC.GenMain2 Require Import Program Classes Main MainProofs Program2 Main2 MainProofs2 Names2 Conflict Conflict2.
From SFC.GenOrder Require Import Ops Plan Check ReformDefs Static Equiv Perm CRel OpsProofs OpsComm Sim Static2 GenBase Gen Gen3
     ConstrBase ConstrInv ConstrStep ZoneRel.
From SFC.GenOrder2 Require Import Perm2 CRel2 Enc Plan2 Side2 Sim2 GenSim2 Swap2 ConstrInv2 ConstrStep2.
Import ListNotations.
Local Open Scope string_scope.
Local Open Scope list_scope.

Lemma kzone0_eq st : kzone0 st = zone02 st.
Proof. reflexivity. Qed.

Lemma cinv2_countries p st : cinv2 p st -> forall s, List.In s (k_secs st) -> List.In (country s) (map fst (k_countries st)).
Proof.
  intros CI s Hs. pose proof (d_ctry _ _ _ _ CI) as F.
  assert (Hc : List.In (country s) (map country (k_secs st))) by now apply in_map.
  clear Hs. induction F as [|d cc l l' Hn _ IH]; [contradiction|].
  destruct Hc as [<-|Hc]; [eapply nth_error_In; exact Hn|now apply IH].
Qed.

Lemma kzone0_perm p st : cinv2 p st ->
  Permutation (kzone0 st) (map (set_fullcode (Nat.ltb 1 (List.length (k_countries st)))) (k_secs st)).
Proof.
  intros CI. unfold kzone0. apply zone_order_perm; [exact (d_cnodup _ _ _ _ CI)|].
  intros s Hs. apply in_map_iff in Hs as (s0 & <- & Hs0). cbn [set_fullcode country]. eapply cinv2_countries; eassumption.
Qed.

Lemma kzone0_uniq p st : cinv2 p st -> uniq_ok (kzone0 st).
Proof.
  intros CI. pose proof (kzone0_perm p st CI) as P. split.
  - eapply Permutation_NoDup; [apply Permutation_map; apply Permutation_sym; exact P|].
    rewrite map_map. change (map (fun x => sid (set_fullcode (Nat.ltb 1 (List.length (k_countries st))) x)) (k_secs st)) with (map sid (k_secs st)).
    rewrite (d_sids _ _ _ _ CI). apply seq_NoDup.
  - eapply Permutation_NoDup; [apply Permutation_map; apply Permutation_sym; exact P|].
    rewrite map_map. exact (d_pairs _ _ _ _ CI).
Qed.

Lemma gen_list2_keys st : map fst (gen_list2 st) = map sid (kzone0 st).
Proof. unfold gen_list2. rewrite map_map. reflexivity. Qed.

Section Rel2Z.
Variables (f : nat -> nat) (st st' : kstate) (p : program2).
Hypothesis R : kstate_rel f st st'.
Hypothesis CI : cinv2 p st.

Let N := List.length (k_secs st).
Let m := Nat.ltb 1 (List.length (k_countries st)).
Let sfc := set_fullcode m.

Lemma multi_same2 : Nat.ltb 1 (List.length (k_countries st')) = m.
Proof. unfold m. now rewrite (kr_countries _ _ _ R). Qed.

Lemma secs_perm2 : Permutation (k_secs st') (map (rn_sec f) (k_secs st)).
Proof.
  apply NoDup_Permutation.
  - apply (NoDup_map_inv sid). rewrite (kr_sids' _ _ _ R). apply seq_NoDup.
  - apply (NoDup_map_inv sid). rewrite map_map. cbn [rn_sec sid].
    rewrite <- (map_map sid f), (kr_sids _ _ _ R). apply FinFun.Injective_map_NoDup; [|apply seq_NoDup].
    intros a b. apply (rel2_inj f st st' R).
  - intros x. split; intros Hin.
    + apply In_nth_error in Hin as (j & Hj).
      assert (Lj : j < N). { unfold N. rewrite <- (kr_len _ _ _ R). apply nth_error_Some. congruence. }
      destruct (rel2_surj f st st' R j Lj) as (i & Hi & <-). rewrite (rel2_nth_secs f st st' R) in Hj.
      destruct (nth_error (k_secs st) i) as [s0|] eqn:E; [|discriminate]. cbn in Hj. injection Hj as <-.
      apply in_map. eapply nth_error_In; exact E.
    + apply in_map_iff in Hin as (s & <- & Hs). apply In_nth_error in Hs as (i & Hi).
      eapply nth_error_In. rewrite (rel2_nth_secs f st st' R), Hi. reflexivity.
Qed.

Lemma preimage2 : exists SP, k_secs st' = map (rn_sec f) SP /\ Permutation (k_secs st) SP.
Proof. destruct (Permutation_map_inv _ _ secs_perm2) as (SP & E & P). exists SP. split; assumption. Qed.

Lemma kzone0_rel : exists Zp, kzone0 st' = map (rn_sec f) Zp /\
  cswap (fun a b => List.In a (kzone0 st) /\ List.In b (kzone0 st) /\ a <> b /\ country a = country b) (kzone0 st) Zp.
Proof.
  destruct preimage2 as (SP & E & P).
  exists (zone_order (map fst (k_countries st)) (map sfc SP)). split.
  - unfold kzone0. rewrite multi_same2, (kr_countries _ _ _ R), E. fold m. fold sfc.
    rewrite map_map. rewrite <- (map_map sfc (rn_sec f)). apply zone_order_rn.
  - unfold kzone0. fold m. fold sfc. unfold zone_order.
    set (Z := flat_map (fun cc => filter (in_country cc) (map sfc (k_secs st))) (map fst (k_countries st))).
    assert (ND : NoDup (map sfc (k_secs st))).
    { apply (NoDup_map_inv pair_of). rewrite map_map. exact (d_pairs _ _ _ _ CI). }
    apply cswap_flat_map. intros c Hc.
    apply cswap_perm_nodup.
    + apply filter_perm. apply Permutation_map. exact P.
    + now apply NoDup_filter.
    + intros a b Ha Hb Hab.
      assert (HZ : forall x, List.In x (filter (in_country c) (map sfc (k_secs st))) -> List.In x Z).
      { intros x Hx. unfold Z. apply in_flat_map. exists c. split; assumption. }
      split; [now apply HZ|]. split; [now apply HZ|]. split; [exact Hab|].
      apply filter_In in Ha as [_ Ha]. apply filter_In in Hb as [_ Hb]. unfold in_country in *.
      apply String.eqb_eq in Ha, Hb. congruence.
Qed.

Lemma kzone0_zrel : zrel f (kzone0 st) (kzone0 st').
Proof.
  destruct kzone0_rel as (Zp & E & C). exists (map (rn_sec f) (kzone0 st)). split.
  - rewrite E. apply Permutation_map. apply Permutation_sym. eapply cswap_perm_of; exact C.
  - generalize (kzone0 st). intros Z. induction Z as [|s Z IH]; constructor; [|exact IH].
    split; [reflexivity|]. split; [repeat split|]. intros n. apply oeqn_eqv_refl.
Qed.

Lemma kinfo_isim2 : isim2 f (kinfo st) (kinfo st').
Proof.
  constructor; cbn [kinfo j_classes j_sup j_countries j_ext].
  - intros i. apply (rel2_class_of f st st' R).
  - intros k. rewrite (kr_sup _ _ _ R). apply sup_of_map. intros k' _.
    destruct (Nat.eqb_spec k' k) as [->|NE]; [apply Nat.eqb_refl|].
    apply Nat.eqb_neq. intros X. apply NE. apply (rel2_inj f st st' R). exact X.
  - exact (kr_countries _ _ _ R).
  - exact (kr_ext _ _ _ R).
  - exact (kr_ext_fix _ _ _ R).
Qed.

Lemma gen_list2_rel : exists L'', gen_list2 st' = map (rn_ik2 f) L'' /\
  cswap (xch2 (kzone0 st) (gen_list2 st)) (gen_list2 st) L''.
Proof.
  destruct kzone0_rel as (Zp & E & C).
  set (key := fun s : sector => (sid s, class_of2 (k_classes st) (sid s))).
  exists (map key Zp). split.
  - unfold gen_list2. rewrite E, !map_map. apply map_ext. intros s. unfold rn_ik2, key. cbn [rn_sec sid fst snd].
    now rewrite (rel2_class_of f st st' R).
  - unfold gen_list2. fold key. eapply cswap_map; [|exact C].
    intros a b (Ha & Hb & Hab & Hc). pose proof (kzone0_uniq p st CI) as [NDs _].
    assert (FS : forall x, List.In x (kzone0 st) -> find_sec (sid x) (kzone0 st) = Some x).
    { intros x Hx. clear -NDs Hx. unfold find_sec. induction (kzone0 st) as [|y r IH]; [contradiction|].
      cbn [find]. cbn [map] in NDs. inversion NDs as [|? ? Hn ND']; subst.
      destruct Hx as [->|Hx]; [now rewrite Nat.eqb_refl|].
      destruct (Nat.eqb_spec (sid y) (sid x)) as [E|NE]; [|now apply IH].
      exfalso. apply Hn. rewrite E. now apply in_map. }
    assert (K1 : fst (key a) = sid a) by reflexivity. assert (K2 : fst (key b) = sid b) by reflexivity.
    unfold xch2, same_country2, country_of. rewrite K1, K2, (FS a Ha), (FS b Hb).
    split; [apply (in_map key); exact Ha|]. split; [apply (in_map key); exact Hb|]. split; [|exact Hc].
    intros X. apply Hab. pose proof (FS a Ha) as FA. rewrite X, (FS b Hb) in FA. congruence.
Qed.
End Rel2Z.
