(** The phases after equation generation for multi-currency programs: registered cash flows (the
    user's flows keep their order — a cross-zone flow creates its cross rate on first use —, followed
    by the INTDEP flows the central banks registered while equations were generated, in processing
    order: these are permuted), exogenous variables, initial conditions. *)
From Coq Require Import List String Bool ZArith Arith Lia Permutation.
From SFC.Base Require Import Res Str.
From SFC.Gen Require Import Fx Zone.
From SFC.GenMarket Require Import Market MarketProofs.
From SFC.GenMain2 Require Import Program Classes Main Program2 Main2 Conflict Conflict2.
From SFC.GenOrder Require Import Ops Plan ReformDefs Static Equiv Perm CRel OpsProofs OpsComm Sim Static2 ReformMarketLib PostPlan
     GenBase Post.
From SFC.GenOrder2 Require Import Perm2 CRel2 Enc Blocks2 Plan2 Part Side2 Sim2.
Import ListNotations.
Local Open Scope string_scope.
Local Open Scope list_scope.

(* ------------------------------------------------------------------ *)
(** * Zones that only grow *)

Definition ple (s t : sector) : Prop := attrs_eq s t /\ forall n, has_var s n = true -> has_var t n = true.
Definition zple (Z T : zone) : Prop := Forall2 ple Z T.

Lemma ple_refl s : ple s s.
Proof. split; [apply attrs_eq_refl|auto]. Qed.
Lemma ple_trans a b c : ple a b -> ple b c -> ple a c.
Proof. intros [A1 H1] [A2 H2]. split; [eapply attrs_eq_trans; eassumption|auto]. Qed.
Lemma zple_refl Z : zple Z Z.
Proof. induction Z; constructor; [apply ple_refl|assumption]. Qed.
Lemma zple_trans A B C : zple A B -> zple B C -> zple A C.
Proof.
  intros H. revert C. induction H as [|a b la lb Hab _ IH]; intros C HC; inversion HC; subst; constructor.
  - eapply ple_trans; eassumption.
  - now apply IH.
Qed.

Lemma zple_find Z T j : zple Z T ->
  match find_sec j Z, find_sec j T with
  | Some s, Some t => ple s t
  | None, None => True
  | _, _ => False
  end.
Proof.
  intros H. unfold find_sec. induction H as [|s t Z T P _ IH]; cbn [find]; [exact Logic.I|].
  rewrite (proj1 (proj1 P)). destruct (Nat.eqb (sid s) j); [exact P|exact IH].
Qed.

Lemma zple_sids Z T : zple Z T -> map sid T = map sid Z.
Proof. intros H. induction H as [|a b la lb [A _] _ IH]; [reflexivity|]. cbn [map]. now rewrite IH, (proj1 A). Qed.

Lemma apply_lops_ple g Z Z1 : apply_lops g Z = Ok Z1 -> zple Z Z1.
Proof.
  intros H. unfold apply_lops in H. apply zmap_ok_inv in H.
  induction H as [|s s1 Z Z1 E _ IH]; constructor; [|exact IH].
  split; [eapply run_ops_attrs; exact E|]. intros n. eapply run_ops_pres; exact E.
Qed.

Lemma ple_cur J s t : ple s t -> cur_of_sec J t = cur_of_sec J s.
Proof. intros [A _]. unfold cur_of_sec. now rewrite (attrs_country _ _ A). Qed.

(** a flow that has a plan keeps it when variables are added *)
Lemma flow_plan2_mono J Z T x g : zple Z T -> flow_plan2 J Z x = Ok g -> flow_plan2 J T x = Ok g.
Proof.
  intros H. destruct x as [[[[src tgt] var] a] b]. unfold flow_plan2. destruct tgt as [tg|]; [|discriminate].
  pose proof (zple_find Z T src H) as F1. pose proof (zple_find Z T tg H) as F2.
  destruct (find_sec src Z) as [s|], (find_sec src T) as [s'|]; try contradiction; [|discriminate].
  destruct (find_sec tg Z) as [t|], (find_sec tg T) as [t'|]; try contradiction; [|discriminate].
  rewrite (ple_cur J _ _ F1), (ple_cur J _ _ F2), (attrs_fullcode _ _ (proj1 F1)).
  destruct (String.eqb (cur_of_sec J s) (cur_of_sec J t)).
  - destruct (has_var s var) eqn:E; [|discriminate]. now rewrite (proj2 F1 var E).
  - destruct (j_ext J) as [e|]; [|discriminate].
    destruct (has_var s var) eqn:E; [|discriminate]. rewrite (proj2 F1 var E).
    destruct (flow_distinct e src tg && _); [|discriminate].
    pose proof (zple_find Z T (e_xr e) H) as F3. pose proof (zple_find Z T (e_fx e) H) as F4.
    destruct (find_sec (e_xr e) Z) as [xr|], (find_sec (e_xr e) T) as [xr'|]; try contradiction; [|discriminate].
    destruct (find_sec (e_fx e) Z) as [fx|], (find_sec (e_fx e) T) as [fx'|]; try contradiction; [|discriminate].
    rewrite (attrs_fullcode _ _ (proj1 F3)).
    destruct (has_var xr (cur_of_sec J s)) eqn:E2; [|discriminate]. now rewrite (proj2 F3 _ E2).
Qed.

(* ------------------------------------------------------------------ *)
(** * The flows phase as one pass *)

Section Flows.
Hypothesis flow_reform2 : forall J Z x, NoDup (map sid Z) -> flow_plan2 J Z x <> Err OutOfFuel ->
  rsim (flow_step2 J Z x) (do g <- flow_plan2 J Z x ;; apply_lops g Z).
Hypothesis flow_plan2_attr : forall J Z x g, flow_plan2 J Z x = Ok g -> attr_fun g.

Notation fplans J := (plans flow (flow_plan2 J)).
Notation fblock J := (block flow (flow_plan2 J)).

Lemma fplans_attr J Z xs gs : fplans J Z xs = Ok gs -> Forall (fun g => attr_fun g) gs.
Proof.
  revert gs. induction xs as [|x r IH]; intros gs H; cbn [plans] in H; [injection H as <-; constructor|].
  destruct (flow_plan2 J Z x) as [g|] eqn:E; [|discriminate]. cbn [bind] in H. destruct (fplans J Z r) as [gs'|]; [|discriminate].
  injection H as <-. constructor; [eapply flow_plan2_attr; exact E|now apply IH].
Qed.

Lemma flows_fold2 J xs : forall Z0 Z gs, NoDup (map sid Z0) -> zple Z0 Z -> fplans J Z0 xs = Ok gs ->
  rsim (foldM (flow_step2 J) xs Z) (apply_lops (flat gs) Z).
Proof.
  induction xs as [|x r IH]; intros Z0 Z gs ND HP PG; cbn [plans] in PG.
  - injection PG as <-. cbn [foldM]. unfold flat. cbn [flat_map]. rewrite apply_lops_nil. reflexivity.
  - destruct (flow_plan2 J Z0 x) as [g|] eqn:Pg; [|discriminate]. cbn [bind] in PG.
    destruct (fplans J Z0 r) as [gs'|] eqn:Pr; [|discriminate]. injection PG as <-.
    assert (NDZ : NoDup (map sid Z)) by (rewrite (zple_sids _ _ HP); exact ND).
    pose proof (flow_plan2_mono J Z0 Z x g HP Pg) as PgZ.
    assert (NF : flow_plan2 J Z x <> Err OutOfFuel) by (rewrite PgZ; discriminate).
    pose proof (flow_reform2 J Z x NDZ NF) as RX. rewrite PgZ in RX. cbn [bind] in RX.
    cbn [foldM].
    assert (EQ : apply_lops (flat (g :: gs')) Z = apply_lops (fun s => g s ++ flat gs' s) Z) by reflexivity.
    rewrite EQ.
    eapply rsim_trans; [|apply (apply_lops_seq_attr g (flat gs') Z (flat_attr gs' (fplans_attr _ _ _ _ Pr)))].
    destruct (flow_step2 J Z x) as [Z1|] eqn:S1, (apply_lops g Z) as [Z1'|] eqn:A1; try contradiction; cbn [bind]; [|exact Logic.I].
    cbn in RX. subst Z1'.
    assert (HP1 : zple Z0 Z1). { eapply zple_trans; [exact HP|]. eapply apply_lops_ple; exact A1. }
    exact (IH Z0 Z1 gs' ND HP1 Pr).
Qed.

(* ------------------------------------------------------------------ *)
(** * Flows under a renamed, re-ordered, equivalent copy of the zone *)

Section Rn.
Variable f : nat -> nat.
Variables J J' : ginfo2.
Hypothesis Hinj : forall a b, f a = f b -> a = b.
Hypothesis HI : isim2 f J J'.

Lemma srel_cur s d : srel f s d -> cur_of_sec J' d = cur_of_sec J s.
Proof.
  intros R. destruct (srel_attrs _ _ _ R) as (_ & C & _). unfold cur_of_sec. now rewrite (is_countries _ _ _ HI), C.
Qed.

Lemma eqb_f a b : Nat.eqb (f a) (f b) = Nat.eqb a b.
Proof.
  destruct (Nat.eqb_spec a b) as [->|N]; [apply Nat.eqb_refl|]. apply Nat.eqb_neq. intros X. apply N. now apply Hinj.
Qed.

Lemma flow_plan2_rn Z Z' x : NoDup (map sid Z) -> zrel f Z Z' ->
  match flow_plan2 J Z x, flow_plan2 J' Z' (rn_flow f x) with
  | Ok g, Ok g' => forall s d, srel f s d -> g' d = g s
  | Err _, Err _ => True
  | _, _ => False
  end.
Proof.
  intros ND HZ. destruct x as [[[[src tgt] var] a] b]. unfold flow_plan2, rn_flow. destruct tgt as [tg|]; cbn [option_map]; [|exact Logic.I].
  pose proof (zrel_find f Z Z' src Hinj ND HZ) as F1. pose proof (zrel_find f Z Z' tg Hinj ND HZ) as F2.
  destruct (find_sec src Z) as [s0|], (find_sec (f src) Z') as [d0|]; try contradiction; [|exact Logic.I].
  destruct (find_sec tg Z) as [t0|], (find_sec (f tg) Z') as [e0|]; try contradiction; [|exact Logic.I].
  rewrite (srel_cur _ _ F1), (srel_cur _ _ F2), (srel_has_var _ _ _ var F1).
  destruct (srel_attrs _ _ _ F1) as (_ & _ & FC & _). rewrite FC.
  assert (CASH : forall x y t inc, srel f x y -> cash y t inc = cash x t inc).
  { intros x y t inc R. unfold cash. destruct R as [_ [(_ & _ & _ & _ & _ & _ & EX) _]]. now rewrite EX. }
  destruct (String.eqb (cur_of_sec J s0) (cur_of_sec J t0)).
  - destruct (has_var s0 var); [|exact Logic.I].
    intros x y R. unfold flow_lops. rewrite !(CASH x y _ _ R). destruct R as [Rs _]. now rewrite Rs, !eqb_f.
  - rewrite (is_ext _ _ _ HI). destruct (j_ext J) as [e|] eqn:EX; [|exact Logic.I].
    destruct (has_var s0 var); [|exact Logic.I].
    destruct (is_ext_fix _ _ _ HI e EX) as (Fxr & Ffx & _).
    assert (EXR : forall a0, Nat.eqb (f a0) (e_xr e) = Nat.eqb a0 (e_xr e)) by (intros a0; rewrite <- Fxr at 1; apply eqb_f).
    assert (EFX : forall a0, Nat.eqb (f a0) (e_fx e) = Nat.eqb a0 (e_fx e)) by (intros a0; rewrite <- Ffx at 1; apply eqb_f).
    assert (FD : flow_distinct e (f src) (f tg) = flow_distinct e src tg).
    { unfold flow_distinct. now rewrite !EXR, !EFX. }
    rewrite FD. destruct (flow_distinct e src tg && _); [|exact Logic.I].
    pose proof (zrel_find f Z Z' (e_xr e) Hinj ND HZ) as F3. rewrite Fxr in F3.
    pose proof (zrel_find f Z Z' (e_fx e) Hinj ND HZ) as F4. rewrite Ffx in F4.
    destruct (find_sec (e_xr e) Z) as [xr|], (find_sec (e_xr e) Z') as [xr'|]; try contradiction; [|exact Logic.I].
    destruct (find_sec (e_fx e) Z) as [fx|], (find_sec (e_fx e) Z') as [fx'|]; try contradiction; [|exact Logic.I].
    rewrite (srel_has_var _ _ _ _ F3). destruct (srel_attrs _ _ _ F3) as (_ & _ & FCx & _). rewrite FCx.
    destruct (has_var xr (cur_of_sec J s0)); [|exact Logic.I].
    intros x y R. unfold flow_lops2. rewrite !(CASH x y _ _ R). destruct R as [Rs _]. now rewrite Rs, !eqb_f, !EXR, !EFX.
Qed.

Lemma fplans_rn Z Z' xs : NoDup (map sid Z) -> zrel f Z Z' ->
  match fplans J Z xs, fplans J' Z' (map (rn_flow f) xs) with
  | Ok gs, Ok gs' => forall s d, srel f s d -> flat gs' d = flat gs s
  | Err _, Err _ => True
  | _, _ => False
  end.
Proof.
  intros ND HZ. induction xs as [|x r IH]; cbn [plans map]; [reflexivity|].
  pose proof (flow_plan2_rn Z Z' x ND HZ) as P1.
  destruct (flow_plan2 J Z x) as [g|], (flow_plan2 J' Z' (rn_flow f x)) as [g'|]; try contradiction; cbn [bind]; [|exact Logic.I].
  destruct (fplans J Z r) as [gs|], (fplans J' Z' (map (rn_flow f) r)) as [gs'|]; try contradiction; cbn [bind]; [|exact Logic.I].
  intros s d R. unfold flat. cbn [flat_map]. rewrite (P1 s d R). f_equal. exact (IH s d R).
Qed.
End Rn.

(* ------------------------------------------------------------------ *)
(** * Re-ordering the flows the central banks registered *)

Lemma local_block_adds J Z x s : local_flow J Z x = true ->
  Forall (fun o => match o with PAdd n _ => ledger_name n = true | _ => False end) (fblock J Z x s).
Proof.
  intros LF. unfold block. destruct (flow_plan2 J Z x) as [g|] eqn:E; [|constructor].
  destruct x as [[[[src tgt] var] a] b]. unfold flow_plan2 in E. unfold local_flow in LF. destruct tgt as [tg|]; [|discriminate].
  destruct (find_sec src Z) as [s0|]; [|discriminate]. destruct (find_sec tg Z) as [t0|]; [|discriminate].
  rewrite LF in E. destruct (has_var s0 var); [|discriminate]. injection E as <-. apply flow_lops_adds.
Qed.

Definition adds_only (l : list pop) : Prop :=
  Forall (fun o => match o with PAdd n _ => ledger_name n = true | _ => False end) l.

Lemma adds_commute2 s A Bl : adds_only A -> adds_only Bl -> ops_commute2 s A Bl = true.
Proof.
  intros HA HB. unfold ops_commute2. apply forallb_forall. intros o Ho. apply forallb_forall. intros o' Ho'.
  unfold adds_only in *. rewrite Forall_forall in HA, HB. specialize (HA o Ho). specialize (HB o' Ho').
  destruct o; try contradiction. destruct o'; try contradiction. unfold pop_commute2. cbn [pop_commute pop_name].
  destruct (String.eqb n n0); reflexivity.
Qed.

Lemma adds_basic l o : adds_only l -> List.In o l -> is_basic o = true.
Proof. intros H Ho. unfold adds_only in H. rewrite Forall_forall in H. specialize (H o Ho). destruct o; try contradiction. reflexivity. Qed.

Lemma flows_sector_perm2 J Z s U N N' t : Permutation N N' -> Wf2 s ->
  (forall x, List.In x (U ++ N) -> Forall (Ok2 s) (fblock J Z x s)) ->
  (forall x, List.In x N -> local_flow J Z x = true) ->
  run_ops (flat_map (fun x => fblock J Z x s) (U ++ N)) s = Ok t ->
  exists t', run_ops (flat_map (fun x => fblock J Z x s) (U ++ N')) s = Ok t' /\ srel (fun i => i) t t'.
Proof.
  intros P W HOK HL E.
  set (Pk := fun x : flow => Forall (Ok2 s) (fblock J Z x s)).
  set (R := fun a b : flow => Pk a /\ Pk b /\ local_flow J Z a = true /\ local_flow J Z b = true).
  assert (C : cswap R (U ++ N) (U ++ N')).
  { apply cswap_app_l. apply cswap_perm; [exact P|]. intros a b Ha Hb. unfold R, Pk.
    split; [apply HOK; apply in_or_app; now right|]. split; [apply HOK; apply in_or_app; now right|]. split; now apply HL. }
  eapply (blocks_perm2 s flow (fun x => fblock J Z x s) R Pk false); try eassumption.
  - discriminate.
  - intros k Hk. exact Hk.
  - intros k _ H. discriminate H.
  - intros a b (Pa & Pb & La & Lb). split; [exact Pa|]. split; [exact Pb|].
    apply adds_commute2; now apply local_block_adds.
  - intros a b o (_ & _ & La & _) Ho Hb. pose proof (adds_basic _ o (local_block_adds J Z a s La) Ho) as X. congruence.
  - apply Forall_forall. intros x Hx. now apply HOK.
Qed.

Lemma Forall2_in_r2 {A B} (P : A -> B -> Prop) la lb b : Forall2 P la lb -> List.In b lb -> exists a, List.In a la /\ P a b.
Proof.
  intros F. induction F as [|a0 b0 la lb Pab _ IH]; intros Hin; [contradiction|].
  destruct Hin as [<-|Hin]; [exists a0; split; [now left|exact Pab]|].
  destruct (IH Hin) as (a & Ha & Pa). exists a. split; [now right|exact Pa].
Qed.

Lemma flat_block_ok2 J Z s xs : (forall x, List.In x xs -> Forall (Ok2 s) (fblock J Z x s)) ->
  Forall (Ok2 s) (flat_map (fun x => fblock J Z x s) xs).
Proof.
  induction xs as [|x r IH]; intros H; cbn [flat_map]; [constructor|]. apply Forall_app. split; [apply H; now left|].
  apply IH. intros y Hy. apply H. now right.
Qed.

Theorem flows_cross2 f J J' Z Z' U N N' Z1 : (forall a b, f a = f b -> a = b) -> isim2 f J J' ->
  NoDup (map sid Z) -> zrel f Z Z' -> (forall s, List.In s Z -> Wf2 s) -> Permutation N N' ->
  (forall x, List.In x N -> local_flow J Z x = true) ->
  (forall x, List.In x (U ++ N) -> exists g, flow_plan2 J Z x = Ok g) ->
  (forall x s, List.In x (U ++ N) -> List.In s Z -> Forall (Ok2 s) (fblock J Z x s)) ->
  foldM (flow_step2 J) (U ++ N) Z = Ok Z1 ->
  exists Z1', foldM (flow_step2 J') (map (rn_flow f) (U ++ N')) Z' = Ok Z1' /\ zrel f Z1 Z1' /\
              (forall t, List.In t Z1 -> Wf2 t) /\ zple Z Z1.
Proof.
  intros Hf HI ND HZ HW P HL HPL HOK H.
  assert (PG : exists gs, fplans J Z (U ++ N) = Ok gs).
  { apply plans_ok_iff. apply Forall_forall. exact HPL. }
  destruct PG as (gs & PG).
  pose proof (flows_fold2 J (U ++ N) Z Z gs ND (zple_refl Z) PG) as R1. rewrite H in R1.
  destruct (apply_lops (flat gs) Z) as [Z1x|] eqn:A1; [|contradiction]. cbn in R1. subst Z1x.
  assert (PP : Permutation (U ++ N) (U ++ N')) by now apply Permutation_app_head.
  assert (PGp : exists gsp, fplans J Z (U ++ N') = Ok gsp).
  { apply plans_ok_iff. apply Forall_forall. intros x Hx. apply HPL. eapply Permutation_in; [apply Permutation_sym; exact PP|exact Hx]. }
  destruct PGp as (gsp & PGp).
  pose proof (fplans_rn f J J' Hf HI Z Z' (U ++ N') ND HZ) as PR. rewrite PGp in PR.
  destruct (fplans J' Z' (map (rn_flow f) (U ++ N'))) as [gsp'|] eqn:PG'; [|contradiction].
  assert (ND' : NoDup (map sid Z')) by (eapply zrel_nodup; eassumption).
  pose proof (flows_fold2 J' (map (rn_flow f) (U ++ N')) Z' Z' gsp' ND' (zple_refl Z') PG') as R2.
  unfold apply_lops in A1.
  destruct (zrel_zmap_fwd f (fun s => run_ops (flat gs s) s) (fun d => run_ops (flat gsp' d) d) Z Z' Z1 HZ A1) as (Z1' & A1' & HZ1).
  { intros s d t Hin R E. rewrite (PR s d R).
    rewrite (plans_flat _ _ _ _ _ PG s) in E. rewrite (plans_flat _ _ _ _ _ PGp s).
    destruct (flows_sector_perm2 J Z s U N N' t P (HW s Hin) (fun x Hx => HOK x s Hx Hin) HL E) as (t' & E' & Rt).
    assert (OK' : Forall (Ok2 s) (flat_map (fun x => fblock J Z x s) (U ++ N'))).
    { apply flat_block_ok2. intros x Hx. apply HOK; [|exact Hin]. eapply Permutation_in; [apply Permutation_sym; exact PP|exact Hx]. }
    pose proof (run_ops_cong2 f s d _ _ R (HW s Hin) OK' (ops_eqv_refl _)) as CG. rewrite E' in CG.
    destruct (run_ops (flat_map (fun x => fblock J Z x s) (U ++ N')) d) as [d1|]; [|contradiction]. cbn in CG.
    exists d1. split; [reflexivity|]. destruct Rt as [Ts Te], CG as [Ds De]. split; [now rewrite Ds, Ts|eapply sec_eqv_trans; eassumption]. }
  fold (apply_lops (flat gsp') Z') in A1'. rewrite A1' in R2.
  destruct (foldM (flow_step2 J') (map (rn_flow f) (U ++ N')) Z') as [Z1x|]; [|contradiction]. cbn in R2. subst Z1x.
  exists Z1'. split; [reflexivity|]. split; [exact HZ1|]. split.
  - intros t Ht. apply zmap_ok_inv in A1. destruct (Forall2_in_r2 _ _ _ _ A1 Ht) as (s & Hs & E).
    eapply run_ops_Wf2; [apply HW; exact Hs| |exact E]. rewrite (plans_flat _ _ _ _ _ PG s). apply flat_block_ok2.
    intros x Hx. now apply HOK.
  - fold (apply_lops (flat gs) Z) in A1. eapply apply_lops_ple; exact A1.
Qed.
End Flows.

(* ------------------------------------------------------------------ *)
(** * Exogenous variables *)

Lemma exo_lops_ok2 x s n spec : Forall (Ok2 x) (exo_lops s n spec x).
Proof.
  unfold exo_lops. destruct (Nat.eqb (sid x) s); constructor; [|constructor]. unfold Ok2.
  destruct (isx x); [split; [reflexivity|]|]; cbn; intros _; constructor.
Qed.

Lemma exo_flat_ok2 Z xs gs s : plans _ exo_plan Z xs = Ok gs -> Forall (Ok2 s) (flat gs s).
Proof.
  revert gs. induction xs as [|x r IH]; intros gs H; cbn [plans] in H; [injection H as <-; constructor|].
  destruct (exo_plan Z x) as [g|] eqn:E; [|discriminate]. cbn [bind] in H. destruct (plans _ exo_plan Z r) as [gs'|]; [|discriminate].
  injection H as <-. unfold flat. cbn [flat_map]. apply Forall_app. split; [|now apply IH].
  destruct (exo_plan_inv _ _ _ E) as (s0 & n & spec & ->). apply exo_lops_ok2.
Qed.

Theorem exo_cross2 f Z Z' EX Z2 : (forall a b, f a = f b -> a = b) -> NoDup (map sid Z) -> zrel f Z Z' ->
  (forall s, List.In s Z -> Wf2 s) -> foldM exo_step EX Z = Ok Z2 ->
  exists Z2', foldM exo_step (map (rn_trip f) EX) Z' = Ok Z2' /\ zrel f Z2 Z2' /\ zpres Z Z2.
Proof.
  intros Hf ND HZ HW H.
  pose proof (exo_fold EX Z Z ND (zpres_refl Z)) as R1. rewrite H in R1.
  destruct (plans _ exo_plan Z EX) as [gs|] eqn:PG; [|contradiction]. cbn [bind] in R1.
  destruct (apply_lops (flat gs) Z) as [Z2x|] eqn:A1; [|contradiction]. cbn in R1. subst Z2x.
  pose proof (exo_plans_rn f Z Z' EX Hf ND HZ) as PR. rewrite PG in PR.
  destruct (plans _ exo_plan Z' (map (rn_trip f) EX)) as [gs'|] eqn:PG'; [|contradiction].
  assert (ND' : NoDup (map sid Z')) by (eapply zrel_nodup; eassumption).
  pose proof (exo_fold (map (rn_trip f) EX) Z' Z' ND' (zpres_refl Z')) as R2. rewrite PG' in R2. cbn [bind] in R2.
  pose proof A1 as A1z. unfold apply_lops in A1z.
  destruct (zrel_zmap_fwd f (fun s => run_ops (flat gs s) s) (fun d => run_ops (flat gs' d) d) Z Z' Z2 HZ A1z) as (Z2' & A2 & HZ2).
  { intros s d t Hin R E. rewrite (PR s d R).
    pose proof (run_ops_cong2 f s d _ _ R (HW s Hin) (exo_flat_ok2 Z EX gs s PG) (ops_eqv_refl _)) as CG. rewrite E in CG.
    destruct (run_ops (flat gs s) d) as [d1|]; [|contradiction]. exists d1. split; [reflexivity|exact CG]. }
  fold (apply_lops (flat gs') Z') in A2. rewrite A2 in R2.
  destruct (foldM exo_step (map (rn_trip f) EX) Z') as [Zx|]; [|contradiction]. cbn in R2. subst Zx.
  exists Z2'. split; [reflexivity|]. split; [exact HZ2|].
  eapply apply_lops_keeps; [|exact A1]. intros s.
  clear -PG. revert gs PG. induction EX as [|x r IH]; intros gs H; cbn [plans] in H; [injection H as <-; reflexivity|].
  destruct (exo_plan Z x) as [g|] eqn:E; [|discriminate]. cbn [bind] in H. destruct (plans _ exo_plan Z r) as [gs'|]; [|discriminate].
  injection H as <-. unfold flat. cbn [flat_map]. rewrite forallb_app. rewrite (exo_plan_keeps _ _ _ E s). now apply IH.
Qed.
