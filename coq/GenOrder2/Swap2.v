(** Re-ordering the static description ([static_swap2]) and the passage from the boolean side
    condition [Side2.static_ok22] to the facts the proofs use. *)
From Coq Require Import List String Bool ZArith Arith Lia Permutation.
From SFC.Base Require Import Res Str.
From SFC.Gen Require Import Fx Zone.
From SFC.GenMarket Require Import Market MarketProofs.
From SFC.GenTax Require Import Tax Dividends.
From SFC.GenMain2 Require Import Program Classes Main Program2 Main2 Conflict Conflict2.
From SFC.GenOrder Require Import Ops Plan ReformDefs Static Equiv Perm CRel OpsProofs OpsComm Sim Static2 SimAll
     Reform ReformMarketLib GenBase Gen Gen3 Facts.
From SFC.GenOrder2 Require Import Perm2 CRel2 Enc Blocks2 Plan2 Part Side2 Reform2 Sim2 GenSim2.
Import ListNotations.
Local Open Scope string_scope.
Local Open Scope list_scope.

Section Swap2.
Variable J : ginfo2.
Variable Z0 : zone.
Variable L : list (nat * cls2).
Hypothesis SF : static_facts2 J Z0 L.

Definition same_country2 (k k' : nat * cls2) : Prop := country_of Z0 (fst k) = country_of Z0 (fst k').

Definition xch2 (k k' : nat * cls2) : Prop := List.In k L /\ List.In k' L /\ fst k <> fst k' /\ same_country2 k k'.

Record comm_facts2 : Prop := mkCF2 {
  cf2_comm : forall k k' s, xch2 k k' -> List.In s Z0 -> ops_commute2 s (B2 J Z0 k s) (B2 J Z0 k' s) = true;
  cf2_recv : forall s, List.In s Z0 -> recv_flag2 J Z0 L s = true ->
               isx s = false /\ (forall k, List.In k L -> Forall (fun o => div_neutral o = true) (B2 J Z0 k s)) /\ Q_div (look s)
}.
Hypothesis CF : comm_facts2.

Lemma recv_flag2_intro s k o : List.In k L -> List.In o (B2 J Z0 k s) -> is_basic o = false -> recv_flag2 J Z0 L s = true.
Proof.
  intros Hk Ho Hb. unfold recv_flag2, all_ops2. apply existsb_exists. exists o. split.
  - apply in_flat_map. exists k. split; [exact Hk|exact Ho].
  - destruct o; try discriminate Hb; reflexivity.
Qed.

Lemma sect2_swap s0 M M'' t : List.In s0 Z0 -> cswap xch2 M M'' -> Forall (fun k => List.In k L) M ->
  sect2 J Z0 M s0 = Ok t -> exists t'', sect2 J Z0 M'' s0 = Ok t'' /\ srel (fun i => i) t t''.
Proof.
  intros Hin HC HP E. unfold sect2 in *.
  eapply (blocks_perm2 s0 (nat * cls2) (fun k => B2 J Z0 k s0) xch2 (fun k => List.In k L) (recv_flag2 J Z0 L s0)); try eassumption.
  - apply (sf2_wf _ _ _ SF). exact Hin.
  - intros Hr. destruct (cf2_recv CF s0 Hin Hr) as (X & _ & Q). now split.
  - intros k Hk. apply (sf2_ops _ _ _ SF); assumption.
  - intros k Hk Hr. destruct (cf2_recv CF s0 Hin Hr) as (_ & N & _). now apply N.
  - intros a b X. destruct X as (Ha & Hb & NE & SC). split; [exact Ha|]. split; [exact Hb|].
    apply (cf2_comm CF); [repeat split; assumption|exact Hin].
  - intros a b o X Ho Hb. destruct X as (Ha & _). now apply (recv_flag2_intro s0 a o).
Qed.

Theorem static_swap2 M M'' T : cswap xch2 M M'' -> Forall (fun k => List.In k L) M ->
  zmap (sect2 J Z0 M) Z0 = Ok T -> exists T'', zmap (sect2 J Z0 M'') Z0 = Ok T'' /\ Forall2 (srel (fun i => i)) T T''.
Proof.
  intros HC HP HT. apply zmap_ok_inv in HT.
  assert (G : forall Za T, (forall s, List.In s Za -> List.In s Z0) -> Forall2 (fun s t => sect2 J Z0 M s = Ok t) Za T ->
              exists T'', zmap (sect2 J Z0 M'') Za = Ok T'' /\ Forall2 (srel (fun i => i)) T T'').
  { clear HT T. intros Za T Hsub F. induction F as [|s t Za T E _ IH].
    - exists []. split; [reflexivity|constructor].
    - destruct IH as (T'' & ZT & FT); [intros x Hx; apply Hsub; now right|].
      destruct (sect2_swap s M M'' t (Hsub s (or_introl eq_refl)) HC HP E) as (t'' & E'' & R).
      exists (t'' :: T''). cbn [zmap]. rewrite E''. cbn [bind]. rewrite ZT. cbn [bind]. split; [reflexivity|now constructor]. }
  apply (G Z0 T); auto.
Qed.
End Swap2.

(* ------------------------------------------------------------------ *)
(** * From the boolean check to the facts *)

Section Facts2.
Variable J : ginfo2.
Variable Z0 : zone.
Variable L : list (nat * cls2).
Hypothesis HU : uniq_ok Z0.
Hypothesis HK : map fst L = map sid Z0.
Hypothesis HS : static_ok22 J Z0 L = true.

Lemma parts2 : plans_ok2 J Z0 L = true /\ stable_ok2 J Z0 L = true /\ commute_ok2 J Z0 L = true /\ unique_ok2 J Z0 L = true /\
  gold_unique_ok Z0 L = true /\ initial_ok2 Z0 = true /\ ops_ok2 J Z0 L = true /\ recv_ok2 J Z0 L = true /\ cb_local_ok J Z0 L = true.
Proof.
  pose proof HS as H. unfold static_ok22 in H.
  repeat match type of H with (_ && _)%bool = true => let H' := fresh "P" in apply andb_true_iff in H as [H H'] end.
  repeat split; assumption.
Qed.

Lemma iwf2_b_wf s : iwf2_b s = true -> Wf2 s.
Proof. unfold iwf2_b, Wf2. destruct (isx s); apply iwf_b_wf. Qed.

Lemma ok2_b_ok s o : ok2_b s o = true -> Ok2 s o.
Proof.
  unfold ok2_b, Ok2. destruct (isx s).
  - intros H. apply andb_true_iff in H as [H1 H2]. split; [exact H1|now apply op_ok_b_ok].
  - apply op_ok_b_ok.
Qed.

Lemma static_facts2_of : static_facts2 J Z0 L.
Proof.
  destruct parts2 as (P1 & P2 & P3 & P4 & P5 & P6 & P7 & P8 & P9).
  constructor.
  - exact HU.
  - rewrite HK. exact (proj1 HU).
  - intros k Hk. unfold plans_ok2 in P1. rewrite forallb_forall in P1. specialize (P1 k Hk).
    destruct (plan2 J Z0 k) as [g|]; [now exists g|discriminate].
  - intros k k' s n Hk Hk' NE Hs Hn.
    unfold stable_ok2 in P2. rewrite forallb_forall in P2. specialize (P2 k Hk). rewrite forallb_forall in P2. specialize (P2 k' Hk').
    apply Nat.eqb_neq in NE. rewrite NE in P2. rewrite forallb_forall in P2. specialize (P2 s Hs).
    rewrite forallb_forall in P2. specialize (P2 n Hn). apply orb_true_iff in P2 as [H|H]; [now left|right].
    apply negb_true_iff in H. intros X. apply mem_In in X. unfold B2 in X. congruence.
  - intros k Hk. unfold unique_ok2 in P4. rewrite forallb_forall in P4. specialize (P4 k Hk).
    unfold cand_unique2. destruct (snd k) as [c| | | | |]; try exact Logic.I.
    unfold unique_ok in P4. cbn [forallb] in P4. rewrite andb_true_r in P4.
    unfold cand_unique. cbn [fst snd] in *. destruct c; try exact Logic.I. now apply Nat.leb_le.
  - intros s Hs. unfold initial_ok2 in P6. rewrite forallb_forall in P6. specialize (P6 s Hs).
    apply andb_true_iff in P6 as [W _]. now apply iwf2_b_wf.
  - intros k s Hk Hs. unfold ops_ok2 in P7. rewrite forallb_forall in P7. specialize (P7 s Hs).
    rewrite forallb_forall in P7. apply Forall_forall. intros o Ho. apply ok2_b_ok. apply P7.
    unfold all_ops2. apply in_flat_map. exists k. split; [exact Hk|exact Ho].
Qed.

Lemma comm_facts2_of : comm_facts2 J Z0 L.
Proof.
  destruct parts2 as (P1 & P2 & P3 & P4 & P5 & P6 & P7 & P8 & P9).
  constructor.
  - intros k k' s (Hk & Hk' & NE & SC) Hs. unfold commute_ok2 in P3.
    rewrite forallb_forall in P3. specialize (P3 k Hk). rewrite forallb_forall in P3. specialize (P3 k' Hk').
    apply Nat.eqb_neq in NE. rewrite NE in P3. unfold same_country2 in SC. rewrite SC, String.eqb_refl in P3.
    rewrite forallb_forall in P3. exact (P3 s Hs).
  - intros s Hs Hr. unfold recv_ok2 in P8. rewrite forallb_forall in P8. specialize (P8 s Hs). rewrite Hr in P8.
    apply andb_true_iff in P8 as [X N]. apply negb_true_iff in X. split; [exact X|]. split.
    + intros k Hk. rewrite forallb_forall in N. apply Forall_forall. intros o Ho. apply N.
      unfold all_ops2. apply in_flat_map. exists k. split; [exact Hk|exact Ho].
    + unfold initial_ok2 in P6. rewrite forallb_forall in P6. specialize (P6 s Hs).
      apply andb_true_iff in P6 as [_ Q]. now apply pdiv_Q.
Qed.
End Facts2.
