(** The plan of a goods / labour market with suppliers in other currency zones
    (Market._GenerateEquations through GenMarket's foreign branch, [Main2.market_step] with one or with
    several foreign zones): the market's own zone as in the domestic case, a foreign supplier credited
    allocation x cross rate, the FX sector's NET equations (Send / Receive of Fx.v), the cross rates
    created in the XR sector on first use. *)
From Coq Require Import List String Bool ZArith Arith.
From SFC.Base Require Import Res Str.
From SFC.Gen Require Import Fx Zone.
From SFC.GenMarket Require Import Market.
From SFC.GenAsset Require Import Weighting.
From SFC.GenMain2 Require Import Program Classes Main Program2 Main2 Conflict Conflict2.
From SFC.GenOrder Require Import Ops Plan.
Import ListNotations.
Local Open Scope string_scope.

(** a resolved supplier: ID, object, allocation equation, its currency when it lives in another zone *)
Definition fsup := (nat * sector * eqn * option string)%type.
Definition fs_id (x : fsup) : nat := fst (fst (fst x)).
Definition fs_sec (x : fsup) : sector := snd (fst (fst x)).
Definition fs_eqn (x : fsup) : eqn := snd (fst x).
Definition fs_cur (x : fsup) : option string := snd x.

Definition tag_sup (J : ginfo2) (hcur : string) (x : nat * sector * eqn) : fsup :=
  (x, let c := cur_of_sec J (snd (fst x)) in if String.eqb c hcur then None else Some c).

Definition foreign_supply_ops (mk s : sector) (t : term) : list pop :=
  let sn := supply_name mk s in
  [PEnsure sn (terms_eqn []); PAdd sn t] ++ cash s t true.

Definition fx_ops (mk : sector) (hcur : string) (x : fsup) : list pop :=
  match fs_cur x with
  | None => []
  | Some c =>
      let xf := full_name mk (alloc_name (fs_sec x)) in
      [PAdd ("NET_" ++ hcur) (1%Z, [xf]); PAdd ("NET_" ++ NUM) ((-1)%Z, [xf; xr_name hcur]);
       PAdd ("NET_" ++ c) ((-1)%Z, [xf; cross_name hcur c]); PAdd ("NET_" ++ NUM) (1%Z, [xf; xr_name hcur])]
  end.

Definition cross_ops (hcur : string) (acurs : list string) : list pop :=
  map (fun a => PEnsure (hcur ++ "_" ++ a) (blob_eqn (squeeze (hcur ++ "/" ++ a)))) acurs.

Definition foreign_lops (e : ext_ids) (mk : sector) (hcur : string) (inh : sector -> bool) (fulls : list string)
           (sups : list fsup) (acurs : list string) (s : sector) : list pop :=
  if Nat.eqb (sid s) (sid mk) then
    [PSet (dem_short mk) (terms_eqn []);
     PSetP (dem_short mk) (terms_eqn (map (fun f => (1%Z, [f])) fulls));
     PSetP (sup_short mk) (terms_eqn [(1%Z, [dem_short mk])])] ++
    map (fun x => PSet (alloc_name (fs_sec x)) (fs_eqn x)) sups
  else
    (if inh s then
       (let n := Market.dem_name mk s in
        if has_var s n then cash s ((-1)%Z, [n]) true ++ [PDefFresh n (terms_eqn [])] else [])
     else []) ++
    flat_map (fun x => if Nat.eqb (fs_id x) (sid s) then
                         match fs_cur x with
                         | None => supply_ops mk s (fs_sec x)
                         | Some c => foreign_supply_ops mk s (credited hcur c (full_name mk (alloc_name (fs_sec x))))
                         end
                       else []) sups ++
    (if Nat.eqb (sid s) (e_fx e) then flat_map (fx_ops mk hcur) sups else []) ++
    (if Nat.eqb (sid s) (e_xr e) then cross_ops hcur acurs else []).

Definition foreign_guard (J : ginfo2) (Z : zone) (e : ext_ids) (i : nat) (hcur : string) (fx : sector)
           (sups : list fsup) (acurs : list string) : bool :=
  let zs := zones_of (j_countries J) in
  negb (in_zone (j_countries J) hcur fx) &&
  forallb (fun c => has_var fx ("NET_" ++ c)) zs &&
  mem hcur zs && mem NUM zs && forallb (fun a => mem a zs && negb (has_substring "__" (hcur ++ "_" ++ a))) acurs &&
  negb (Nat.eqb i (e_fx e)) && negb (Nat.eqb i (e_xr e)) && negb (Nat.eqb (e_fx e) (e_xr e)) &&
  forallb (fun x => negb (Nat.eqb (fs_id x) i) && negb (Nat.eqb (fs_id x) (e_fx e))) sups.

Definition foreign_plan (J : ginfo2) (Z : zone) (i : nat) (self : sector) : result (sector -> list pop) :=
  let hcur := cur_of_sec J self in
  let inh := in_zone (j_countries J) hcur in
  let '(res, others) := sup_of i (j_sup J) in
  let ids := (map fst others ++ match res with Some r => [r] | None => [] end)%list in
  let acurs := supplier_currencies J Z hcur ids in
  do r <- the_residual (filter inh Z) self res ;;
  do osecs <- resolve_sups Z (map (fun o => (fst o, blob_eqn (snd o))) others) ;;
  let fcs := map (fun x => fullcode (snd (fst x))) osecs in
  do rsec <- resolve_sups Z [(r, terms_eqn (residual_terms self fcs))] ;;
  let sups := map (tag_sup J hcur) (osecs ++ rsec)%list in
  match j_ext J with
  | None => Err LogicError
  | Some e =>
      match find_sec (e_fx e) Z, find_sec (e_xr e) Z with
      | Some fx, Some xr =>
          if foreign_guard J Z e i hcur fx sups acurs
          then Ok (foreign_lops e self hcur inh (market_fulls self (filter inh Z)) sups acurs)
          else Err OutOfFuel
      | None, _ => Err LogicError
      | _, None => Err KeyError
      end
  end.
