(** A market with suppliers in other currency zones, part 1: the worlds of GenMarket ([home], [abroad],
    ledger, cross rates) seen as views of ONE zone, and the supplier loop ([supply_step] /
    [supply_multi]) as a sequence of sector-wise passes on that zone. *)
From Coq Require Import List String Bool ZArith Arith Lia.
From SFC.Base Require Import Res Str.
From SFC.Gen Require Import Fx Zone.
From SFC.GenMarket Require Import Market MarketProofs.
From SFC.GenMain2 Require Import Program Classes Main Program2 Main2 Conflict Conflict2.
From SFC.GenOrder Require Import Ops Plan ReformDefs ReformMarketLib ReformMarket.
From SFC.GenOrder2 Require Import ForeignDefs Plan2 Part Reform2.
Import ListNotations.
Local Open Scope string_scope.
Local Open Scope list_scope.

(* ------------------------------------------------------------------ *)
(** * Parts of a zone *)

Lemma find_sec_filter_spec q j Y : NoDup (map sid Y) ->
  find_sec j (filter q Y) = match find_sec j Y with Some s => if q s then Some s else None | None => None end.
Proof.
  intros ND. destruct (find_sec j Y) as [s|] eqn:F.
  - destruct (q s) eqn:Q; [now apply find_sec_filter|].
    destruct (find_sec j (filter q Y)) as [s2|] eqn:F2; [|reflexivity].
    pose proof (find_sec_filter_nodup q j Y s2 ND F2) as F3. rewrite F in F3. injection F3 as ->.
    apply find_sec_filter_inv in F2 as (_ & Q2 & _). congruence.
  - now apply find_sec_filter_none.
Qed.

Lemma find_sec_unique Z s : NoDup (map sid Z) -> List.In s Z -> find_sec (sid s) Z = Some s.
Proof.
  intros ND Hin. unfold find_sec. induction Z as [|x r IH]; [contradiction|]. cbn [map] in ND. inversion ND as [|? ? Hn ND']; subst. cbn [find].
  destruct Hin as [->|Hin]; [now rewrite Nat.eqb_refl|].
  destruct (Nat.eqb_spec (sid x) (sid s)) as [E|N]; [|now apply IH].
  exfalso. apply Hn. rewrite E. now apply in_map.
Qed.

Lemma find_sec_none_upd i f Y : find_sec i Y = None -> exists e, upd i f Y = Err e.
Proof.
  unfold find_sec. induction Y as [|s r IH]; intros H; cbn [upd]; [eauto|]. cbn [find] in H.
  destruct (Nat.eqb (sid s) i); [discriminate|]. destruct (IH H) as [e ->]. eauto.
Qed.

Lemma upd_filter_in (q : sector -> bool) i f : (forall s s', f s = Ok s' -> q s' = q s) ->
  forall Y self, find_sec i Y = Some self -> q self = true ->
  upd i f (filter q Y) = do Y' <- upd i f Y ;; Ok (filter q Y').
Proof.
  intros Hf. unfold find_sec. induction Y as [|s r IH]; intros self H Q; [discriminate|]. cbn [find] in H. cbn [filter upd].
  destruct (Nat.eqb (sid s) i) eqn:E.
  - injection H as <-. rewrite Q. cbn [upd]. rewrite E. destruct (f s) as [s'|] eqn:Fs; cbn [bind]; [|reflexivity].
    cbn [filter]. now rewrite (Hf _ _ Fs), Q.
  - destruct (q s) eqn:Qs.
    + cbn [upd]. rewrite E, (IH self H Q). destruct (upd i f r) as [r'|]; cbn [bind]; [|reflexivity]. cbn [filter]. now rewrite Qs.
    + rewrite (IH self H Q). destruct (upd i f r) as [r'|]; cbn [bind]; [|reflexivity]. cbn [filter]. now rewrite Qs.
Qed.

Lemma upd_filter_out (q : sector -> bool) i f : (forall s s', f s = Ok s' -> q s' = q s) ->
  forall Y Y' self, find_sec i Y = Some self -> q self = false -> upd i f Y = Ok Y' -> filter q Y' = filter q Y.
Proof.
  intros Hf. unfold find_sec. induction Y as [|s r IH]; intros Y' self H Q U; [discriminate|]. cbn [find] in H. cbn [upd] in U.
  destruct (Nat.eqb (sid s) i) eqn:E.
  - injection H as <-. destruct (f s) as [s'|] eqn:Fs; [|discriminate]. injection U as <-. cbn [filter]. now rewrite (Hf _ _ Fs), Q.
  - destruct (upd i f r) as [r'|] eqn:U'; [|discriminate]. injection U as <-. cbn [filter]. now rewrite (IH r' self H Q eq_refl).
Qed.

Lemma upd_zattrs i f : (forall s s', f s = Ok s' -> attrs_eq s s') -> forall Y Y', upd i f Y = Ok Y' -> zattrs Y Y'.
Proof.
  intros Hf. induction Y as [|s r IH]; intros Y' U; cbn [upd] in U; [discriminate|].
  destruct (Nat.eqb (sid s) i).
  - destruct (f s) as [s'|] eqn:Fs; [|discriminate]. injection U as <-. constructor; [now apply Hf|apply zattrs_refl].
  - destruct (upd i f r) as [r'|]; [|discriminate]. injection U as <-. constructor; [apply attrs_eq_refl|now apply IH].
Qed.

(** a pass and a part *)
Lemma apply_lops_filter (q : sector -> bool) g : attr_fun q ->
  forall Z Y, apply_lops g Z = Ok Y -> apply_lops g (filter q Z) = Ok (filter q Y).
Proof.
  intros Hq Z Y H. unfold apply_lops in *. apply zmap_ok_inv in H. apply zmap_ok_intro.
  induction H as [|s s' r r' E _ IH]; [constructor|]. cbn [filter].
  rewrite (Hq s s' (run_ops_attrs _ _ _ E)). destruct (q s); [constructor; assumption|assumption].
Qed.

Lemma apply_lops_filter_id (p : sector -> bool) g : attr_fun p ->
  forall Z Y, apply_lops g Z = Ok Y -> (forall s, List.In s Z -> p s = true -> g s = []) -> filter p Y = filter p Z.
Proof.
  intros Hp Z Y H. unfold apply_lops in H. apply zmap_ok_inv in H.
  induction H as [|s s' r r' E _ IH]; intros Hg; [reflexivity|]. cbn [filter].
  rewrite (Hp s s' (run_ops_attrs _ _ _ E)). rewrite IH by (intros x Hx; apply Hg; now right).
  destruct (p s) eqn:P; [|reflexivity]. rewrite (Hg s (or_introl eq_refl) P) in E. now injection E as <-.
Qed.

(** two disjoint parts written back *)
Lemma put_back_two (q p : sector -> bool) g : attr_fun q -> attr_fun p ->
  forall Z Y, apply_lops g Z = Ok Y -> (forall s, List.In s Z -> q s = false -> p s = false -> g s = []) ->
  put_back_p p (filter p Y) (put_back_p q (filter q Y) Z) = Y.
Proof.
  intros Hq Hp Z Y H. unfold apply_lops in H. apply zmap_ok_inv in H.
  induction H as [|s s' r r' E _ IH]; intros Hg; [reflexivity|]. cbn [filter].
  pose proof (run_ops_attrs _ _ _ E) as A.
  rewrite (Hq s s' A), (Hp s s' A).
  assert (IH' := IH (fun x Hx => Hg x (or_intror Hx))). clear IH.
  destruct (q s) eqn:Q.
  - cbn [put_back_p]. rewrite Q. cbn [put_back_p]. rewrite (Hp s s' A). destruct (p s) eqn:P.
    + now rewrite IH'.
    + now rewrite IH'.
  - cbn [put_back_p]. rewrite Q. cbn [put_back_p]. destruct (p s) eqn:P.
    + now rewrite IH'.
    + rewrite IH'. rewrite (Hg s (or_introl eq_refl) Q P) in E. now injection E as <-.
Qed.

(* ------------------------------------------------------------------ *)
(** * Suppliers credited through the FX sector *)

Lemma supplier_foreign_ops mk t s0 s : country s = country s0 -> excl s = excl s0 ->
  supplier_foreign mk t s = run_ops (foreign_supply_ops mk s0 t) s.
Proof.
  intros Hc Hx. unfold supplier_foreign, foreign_supply_ops.
  assert (Hn : supply_name mk s = supply_name mk s0) by (unfold supply_name, share_parent; now rewrite Hc).
  rewrite Hn. set (sn := supply_name mk s0). cbn [app].
  rewrite run_ops_cons. cbn [run_op1 bind]. fold (ensure_var s sn).
  assert (He : (if has_var s sn then s else setv s sn (terms_eqn [])) = ensure_var s sn) by reflexivity.
  rewrite He. rewrite run_ops_cons. cbn [run_op1].
  assert (Hx1 : excl (ensure_var s sn) = excl s0).
  { unfold ensure_var. destruct (has_var s sn); [exact Hx|exact Hx]. }
  destruct (add_term_to_eq (ensure_var s sn) sn t) as [s2|] eqn:E; cbn [opt_key bind]; [|reflexivity].
  apply cash_ops. rewrite (add_term_excl _ _ _ _ E). exact Hx1.
Qed.

(** one iteration of the supplier loop as one pass, for the tagged supplier [x] *)
Definition sup_lops (mk : sector) (hcur : string) (x : fsup) (s : sector) : list pop :=
  (if Nat.eqb (sid s) (sid mk) then [PSet (alloc_name (fs_sec x)) (fs_eqn x)] else []) ++
  (if Nat.eqb (fs_id x) (sid s) then
     match fs_cur x with
     | None => supply_ops mk s (fs_sec x)
     | Some c => foreign_supply_ops mk s (credited hcur c (full_name mk (alloc_name (fs_sec x))))
     end
   else []).

Lemma sup_lops_attr mk hcur x : attr_fun (sup_lops mk hcur x).
Proof.
  intros s s' A. unfold sup_lops, supply_ops, foreign_supply_ops, supply_name, share_parent, cash.
  now rewrite (attrs_sid _ _ A), (attrs_country _ _ A), (attrs_excl _ _ A).
Qed.

Lemma sup_lops_mk mk mk1 hcur x s : attrs_eq mk mk1 -> sup_lops mk1 hcur x s = sup_lops mk hcur x s.
Proof.
  intros A. unfold sup_lops, supply_ops, foreign_supply_ops, supply_name, share_parent, sup_short, full_name.
  now rewrite (attrs_sid _ _ A), (attrs_code _ _ A), (attrs_country _ _ A), (attrs_fullcode _ _ A).
Qed.

(** set the allocation on the market, then act on the supplier: one pass *)
Lemma two_upd_pass mk Y j (g : sector -> result sector) (ops : sector -> list pop) an e m sup :
  NoDup (map sid Y) -> find_sec (sid mk) Y = Some m -> find_sec j Y = Some sup -> attr_fun ops ->
  (forall s, g s = run_ops (ops s) s) ->
  rsim (do Y1 <- upd (sid mk) (fun s => Ok (set_eqn s an e)) Y ;; upd j g Y1)
       (apply_lops (fun s => (if Nat.eqb (sid s) (sid mk) then [PSet an e] else []) ++ (if Nat.eqb j (sid s) then ops s else [])) Y).
Proof.
  intros ND Fm Fj Hops Hg.
  set (P1 := fun s : sector => if Nat.eqb (sid s) (sid mk) then [PSet an e] else []).
  set (P2 := fun s : sector => if Nat.eqb (sid s) j then ops s else []).
  rewrite (upd_lops (sid mk) _ (fun _ => [PSet an e]) Y ND (ex_intro _ m Fm)); [|intros; reflexivity].
  fold P1.
  apply (rsim_trans _ (do Y1 <- apply_lops P1 Y ;; apply_lops P2 Y1)).
  - apply rsim_bind_r. intros Y1 E1. apply rsim_eq.
    pose proof (apply_lops_zattrs _ _ _ E1) as ZA.
    destruct (zattrs_find_some _ _ _ _ ZA Fj) as (s1 & F1 & _).
    apply (upd_lops j _ ops Y1).
    + apply (zattrs_nodup Y); assumption.
    + eauto.
    + intros s _. apply Hg.
  - eapply rsim_trans.
    + apply apply_lops_seq_attr. intros s s' A. unfold P2. now rewrite (attrs_sid _ _ A), (Hops s s' A).
    + apply rsim_eq. apply apply_lops_ext. intros s _. unfold P1, P2. now rewrite (Nat.eqb_sym j (sid s)).
Qed.

(* ------------------------------------------------------------------ *)
(** * The world as a view of one zone *)

Definition wst := (zone * option ledger * list string)%type.

Definition fx2 (hcur c x : string) (l : ledger) : ledger := fx_step (fx_step l (Send hcur x)) (Receive hcur c x).

Section View.
Variable J : ginfo2.
Variable hcur : string.
Variable pa : sector -> bool.
Variable cur_of : nat -> string.

Let inh : sector -> bool := in_zone (j_countries J) hcur.

Hypothesis Hpa : attr_fun pa.
Hypothesis Hdisj : forall s, inh s = true -> pa s = false.

Lemma inh_attr : attr_fun inh.
Proof. intros s s' A. unfold inh, in_zone. now rewrite (attrs_country _ _ A). Qed.

Definition view (st : wst) : world := mkWorld (filter inh (fst (fst st))) (filter pa (fst (fst st))) (snd (fst st)) (snd st).

Lemma resolve_view (Y : zone) L cr j : NoDup (map sid Y) ->
  resolve (view (Y, L, cr)) j =
  match find_sec j Y with
  | Some s => if inh s then Ok (true, s) else if pa s then Ok (false, s) else Err KeyError
  | None => Err KeyError
  end.
Proof.
  intros ND. unfold resolve, view. cbn [home abroad fst snd]. rewrite !find_sec_filter_spec by exact ND.
  destruct (find_sec j Y) as [s|]; [|reflexivity]. destruct (inh s); [reflexivity|]. destruct (pa s); reflexivity.
Qed.

(** [supply_step] on the whole zone *)
Definition ystep (mk : sector) (st : wst) (je : nat * eqn) : result wst :=
  let j := fst je in let e := snd je in
  let Y := fst (fst st) in
  match find_sec j Y with
  | None => Err KeyError
  | Some sup =>
      if inh sup then do Y2 <- hstep mk Y (j, e) ;; Ok (Y2, snd (fst st), snd st)
      else if pa sup then
        do Y1 <- upd (sid mk) (fun s => Ok (set_eqn s (alloc_name sup) e)) Y ;;
        match snd (fst st) with
        | None => Err LogicError
        | Some l =>
            let x := full_name mk (alloc_name sup) in
            do Y2 <- upd j (supplier_foreign mk (credited hcur (cur_of j) x)) Y1 ;;
            Ok (Y2, Some (fx2 hcur (cur_of j) x l), add_cross (cross_code hcur (cur_of j)) (snd st))
        end
      else Err KeyError
  end.

Lemma set_eqn_q (q : sector -> bool) an e : attr_fun q -> forall s s', (fun s => Ok (set_eqn s an e)) s = Ok s' -> q s' = q s.
Proof. intros Hq s s' E. injection E as <-. apply Hq. apply attrs_eq_with_vars. Qed.

Lemma set_eqn_attrs an e : forall s s', (fun s => Ok (set_eqn s an e)) s = Ok s' -> attrs_eq s s'.
Proof. intros s s' E. injection E as <-. apply attrs_eq_with_vars. Qed.

Lemma supplier_local_attrs mk ln s s' : supplier_local mk ln s = Ok s' -> attrs_eq s s'.
Proof.
  intros E. unfold supplier_local in E.
  destruct (add_term_to_eq _ _ _) as [s2|] eqn:E2; [|discriminate].
  unfold add_term_to_eq in E2. destruct (lookup_var _ _); [|discriminate]. injection E2 as <-.
  unfold add_cash_flow in E. unfold add_term_to_eq in E. cbn [vars with_vars excl] in E.
  repeat match type of E with
  | context [match lookup_var ?a ?b with _ => _ end] => destruct (lookup_var a b); cbn [opt_key vars with_vars excl] in E; try discriminate
  | context [if ?c then _ else _] => destruct c; cbn [opt_key vars with_vars excl] in E; try discriminate
  end; injection E as <-; unfold ensure_var; destruct (has_var s _); repeat split.
Qed.

Lemma supplier_foreign_attrs mk t s s' : supplier_foreign mk t s = Ok s' -> attrs_eq s s'.
Proof. intros E. rewrite (supplier_foreign_ops mk t s s eq_refl eq_refl) in E. eapply run_ops_attrs; exact E. Qed.

Lemma supply_step_view mk (Y : zone) L cr j e m : NoDup (map sid Y) -> find_sec (sid mk) Y = Some m -> inh m = true ->
  supply_step hcur (cur_of j) mk (view (Y, L, cr)) (j, e) = do st <- ystep mk (Y, L, cr) (j, e) ;; Ok (view st).
Proof.
  intros ND Fm Qm. unfold supply_step. rewrite (resolve_view Y L cr j ND). unfold ystep, hstep. cbn [fst snd].
  destruct (find_sec j Y) as [sup|] eqn:Fj; [|reflexivity].
  pose proof inh_attr as Hinh.
  destruct (inh sup) eqn:Qs.
  - unfold view at 1. cbn [home abroad fxl crosses fst snd].
    rewrite (upd_filter_in inh (sid mk) _ (set_eqn_q inh _ _ Hinh) Y m Fm Qm).
    destruct (upd (sid mk) (fun s => Ok (set_eqn s (alloc_name sup) e)) Y) as [Y1|] eqn:U1; cbn [bind]; [|reflexivity].
    pose proof (upd_zattrs _ _ (set_eqn_attrs _ _) _ _ U1) as ZA1.
    destruct (zattrs_find_some _ _ _ _ ZA1 Fj) as (sup1 & Fj1 & As1).
    assert (Q1 : inh sup1 = true) by (rewrite (Hinh _ _ As1); exact Qs).
    assert (HL : forall s s', supplier_local mk (alloc_name sup) s = Ok s' -> attrs_eq s s') by (intros s s'; apply supplier_local_attrs).
    rewrite (upd_filter_in inh j _ (fun s s' E => Hinh s s' (HL s s' E)) Y1 sup1 Fj1 Q1).
    destruct (upd j (supplier_local mk (alloc_name sup)) Y1) as [Y2|] eqn:U2; cbn [bind]; [|reflexivity].
    unfold view. cbn [fst snd home abroad fxl crosses].
    rewrite (upd_filter_out pa j _ (fun s s' E => Hpa s s' (HL s s' E)) Y1 Y2 sup1 Fj1 (Hdisj _ Q1) U2).
    now rewrite (upd_filter_out pa (sid mk) _ (set_eqn_q pa _ _ Hpa) Y Y1 m Fm (Hdisj _ Qm) U1).
  - destruct (pa sup) eqn:Ps; [|reflexivity].
    unfold view. cbn [home abroad fxl crosses fst snd].
    rewrite (upd_filter_in inh (sid mk) _ (set_eqn_q inh _ _ Hinh) Y m Fm Qm).
    destruct (upd (sid mk) (fun s => Ok (set_eqn s (alloc_name sup) e)) Y) as [Y1|] eqn:U1; cbn [bind]; [|reflexivity].
    destruct L as [l|]; [|reflexivity].
    pose proof (upd_zattrs _ _ (set_eqn_attrs _ _) _ _ U1) as ZA1.
    destruct (zattrs_find_some _ _ _ _ ZA1 Fj) as (sup1 & Fj1 & As1).
    assert (P1 : pa sup1 = true) by (rewrite (Hpa _ _ As1); exact Ps).
    assert (Q1 : inh sup1 = false) by (rewrite (Hinh _ _ As1); exact Qs).
    set (t := credited hcur (cur_of j) (full_name mk (alloc_name sup))).
    assert (HF : forall s s', supplier_foreign mk t s = Ok s' -> attrs_eq s s') by (intros s s'; apply supplier_foreign_attrs).
    rewrite <- (upd_filter_out pa (sid mk) _ (set_eqn_q pa _ _ Hpa) Y Y1 m Fm (Hdisj _ Qm) U1).
    rewrite (upd_filter_in pa j _ (fun s s' E => Hpa s s' (HF s s' E)) Y1 sup1 Fj1 P1).
    destruct (upd j (supplier_foreign mk t) Y1) as [Y2|] eqn:U2; cbn [bind]; [|reflexivity].
    unfold fx2. cbn [fst snd home abroad fxl crosses].
    now rewrite (upd_filter_out inh j _ (fun s s' E => Hinh s s' (HF s s' E)) Y1 Y2 sup1 Fj1 Q1 U2).
Qed.

(** the same iteration as a pass, for the supplier resolved beforehand *)
Definition tstep (mk : sector) (st : wst) (x : fsup) : result wst :=
  match fs_cur x with
  | None => do Y' <- apply_lops (sup_lops mk hcur x) (fst (fst st)) ;; Ok (Y', snd (fst st), snd st)
  | Some c =>
      match snd (fst st) with
      | None => Err LogicError
      | Some l =>
          do Y' <- apply_lops (sup_lops mk hcur x) (fst (fst st)) ;;
          Ok (Y', Some (fx2 hcur c (full_name mk (alloc_name (fs_sec x))) l), add_cross (cross_code hcur c) (snd st))
      end
  end.

Definition tagc (j : nat) (sup : sector) (e : eqn) : fsup := (j, sup, e, if inh sup then None else Some (cur_of j)).

Lemma ystep_pass mk (Y : zone) L cr j e sup m : NoDup (map sid Y) -> find_sec (sid mk) Y = Some m -> find_sec j Y = Some sup ->
  (inh sup = false -> pa sup = true) ->
  rsim (ystep mk (Y, L, cr) (j, e)) (tstep mk (Y, L, cr) (tagc j sup e)).
Proof.
  intros ND Fm Fj Hc. unfold ystep, tstep, tagc. cbn [fst snd fs_cur]. rewrite Fj.
  destruct (inh sup) eqn:Qs.
  - apply rsim_bind_l. eapply rsim_trans; [apply (hstep_pass mk Y j e sup m ND Fm Fj)|].
    apply rsim_eq. apply apply_lops_ext. intros s _. reflexivity.
  - rewrite (Hc eq_refl). destruct L as [l|].
    + rewrite <- bind_assoc. apply rsim_bind_l. cbn [fs_sec fs_id fs_eqn fst snd].
      eapply rsim_trans.
      * apply (two_upd_pass mk Y j _ (fun s => foreign_supply_ops mk s (credited hcur (cur_of j) (full_name mk (alloc_name sup))))
                 (alloc_name sup) e m sup ND Fm Fj).
        -- intros s s' A. unfold foreign_supply_ops, supply_name, share_parent, cash. now rewrite (attrs_country _ _ A), (attrs_excl _ _ A).
        -- intros s. now apply supplier_foreign_ops.
      * apply rsim_eq. apply apply_lops_ext. intros s _. reflexivity.
    + destruct (upd (sid mk) _ Y); exact I.
Qed.

End View.

(* ------------------------------------------------------------------ *)
(** * The supplier loop: every supplier resolved beforehand in the original zone *)

Section Loop.
Variable J : ginfo2.
Variable hcur : string.
Variable pa : sector -> bool.
Variable cur_of : nat -> string.

Let inh : sector -> bool := in_zone (j_countries J) hcur.

Hypothesis Hpa : attr_fun pa.
Hypothesis Hdisj : forall s, inh s = true -> pa s = false.

Variable Z : zone.
Hypothesis ND : NoDup (map sid Z).

(** every supplier outside the market's zone lies in the part [pa] and is paid in the currency of its zone *)
Definition covered (ids : list nat) : Prop :=
  forall j s, List.In j ids -> find_sec j Z = Some s -> inh s = false -> pa s = true /\ cur_of j = cur_of_sec J s.

Lemma tagc_tag j s e : (inh s = false -> cur_of j = cur_of_sec J s) -> tagc J hcur cur_of j s e = tag_sup J hcur (j, s, e).
Proof.
  intros H. unfold tagc, tag_sup. cbn [fst snd]. f_equal.
  change (in_zone (j_countries J) hcur s) with (String.eqb (cur_of_sec J s) hcur).
  destruct (String.eqb (cur_of_sec J s) hcur) eqn:E; [reflexivity|]. f_equal. apply H. exact E.
Qed.

Lemma tstep_sec mk st j s s' e c : attrs_eq s s' -> tstep hcur mk st (j, s', e, c) = tstep hcur mk st (j, s, e, c).
Proof.
  intros A. unfold tstep. cbn [fs_cur fs_sec fst snd]. rewrite (alloc_name_attrs _ _ A).
  assert (EQ : apply_lops (sup_lops mk hcur (j, s', e, c)) (fst (fst st)) = apply_lops (sup_lops mk hcur (j, s, e, c)) (fst (fst st))).
  { apply apply_lops_ext. intros x _. unfold sup_lops, supply_ops. cbn [fs_cur fs_sec fs_id fs_eqn fst snd]. now rewrite (alloc_name_attrs _ _ A). }
  now rewrite EQ.
Qed.

Lemma tstep_zattrs mk st x st' : tstep hcur mk st x = Ok st' -> zattrs (fst (fst st)) (fst (fst st')).
Proof.
  unfold tstep. destruct (fs_cur x) as [c|].
  - destruct (snd (fst st)) as [l|]; [|discriminate].
    destruct (apply_lops _ _) as [Y'|] eqn:E; [|discriminate]. cbn [bind]. intros H. injection H as <-. cbn [fst]. eapply apply_lops_zattrs; exact E.
  - destruct (apply_lops _ _) as [Y'|] eqn:E; [|discriminate]. cbn [bind]. intros H. injection H as <-. cbn [fst]. eapply apply_lops_zattrs; exact E.
Qed.

Lemma fold_ystep mk m : find_sec (sid mk) Z = Some m -> inh m = true ->
  forall l st, covered (map fst l) -> zattrs Z (fst (fst st)) ->
  rsim (supply_multi hcur cur_of mk (view J hcur pa st) l)
       (do sups <- resolve_sups Z l ;;
        do st' <- foldM (tstep hcur mk) (map (tag_sup J hcur) sups) st ;; Ok (view J hcur pa st')).
Proof.
  intros Fm Qm. induction l as [|[j e] l IH]; intros st Hcov ZA; [reflexivity|].
  cbn [supply_multi resolve_sups fst].
  destruct st as [[Y L] cr]. cbn [fst] in ZA.
  pose proof (zattrs_nodup _ _ ZA ND) as NDY.
  destruct (zattrs_find_some _ _ _ _ ZA Fm) as (m' & Fm' & Am).
  assert (Qm' : inh m' = true) by (unfold inh in *; rewrite (inh_attr J hcur _ _ Am); exact Qm).
  rewrite (supply_step_view J hcur pa cur_of Hpa Hdisj mk Y L cr j e m' NDY Fm' Qm'). rewrite bind_assoc. cbn [bind].
  assert (Hcov' : covered (map fst l)) by (intros j0 s0 Hin; apply Hcov; now right).
  destruct (find_sec j Z) as [s|] eqn:Fj.
  - destruct (zattrs_find_some _ _ _ _ ZA Fj) as (s' & Fj' & As).
    assert (HC : inh s' = false -> pa s' = true).
    { intros Q. rewrite (Hpa _ _ As). unfold inh in Q. rewrite (inh_attr J hcur _ _ As) in Q. exact (proj1 (Hcov j s (or_introl eq_refl) Fj Q)). }
    pose proof (ystep_pass J hcur pa cur_of mk Y L cr j e s' m' NDY Fm' Fj' HC) as HP.
    assert (ET : tagc J hcur cur_of j s' e = tag_sup J hcur (j, s', e) \/ True) by now right. clear ET.
    assert (EQ : tstep hcur mk (Y, L, cr) (tagc J hcur cur_of j s' e) = tstep hcur mk (Y, L, cr) (tag_sup J hcur (j, s, e))).
    { rewrite <- (tagc_tag j s e).
      - unfold tagc. change (in_zone (j_countries J) hcur) with inh. unfold inh at 1. rewrite (inh_attr J hcur _ _ As). now apply tstep_sec.
      - intros Q. exact (proj2 (Hcov j s (or_introl eq_refl) Fj Q)). }
    rewrite EQ in HP. clear EQ.
    set (x := tag_sup J hcur (j, s, e)) in *.
    apply (rsim_trans _ (do st1 <- tstep hcur mk (Y, L, cr) x ;;
                         do sups <- resolve_sups Z l ;;
                         do st' <- foldM (tstep hcur mk) (map (tag_sup J hcur) sups) st1 ;; Ok (view J hcur pa st'))).
    + apply rsim_bind; [exact HP|]. intros st1 E1.
      destruct (tstep hcur mk (Y, L, cr) x) as [st1'|] eqn:E2; [|rewrite E1 in HP; contradiction].
      rewrite E1 in HP. cbn in HP. subst st1'.
      apply IH; [exact Hcov'|]. exact (zattrs_trans _ _ _ ZA (tstep_zattrs _ _ _ _ E2)).
    + eapply rsim_trans; [apply rsim_bind_swap|]. rewrite bind_assoc.
      apply rsim_bind_r. intros sups _. cbn [bind map foldM]. subst x.
      destruct (tstep hcur mk (Y, L, cr) (tag_sup J hcur (j, s, e))); cbn [bind]; apply rsim_refl.
  - unfold ystep. cbn [fst snd]. rewrite (zattrs_find_none _ _ _ ZA Fj). exact I.
Qed.

End Loop.
