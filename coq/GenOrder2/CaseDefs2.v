(** Boolean cases evaluated by harness/gen_order2.py. *)
From Coq Require Import List String Bool ZArith Arith.
From SFC.Base Require Import Res Str.
From SFC.Gen Require Import Fx Zone.
From SFC.GenMain2 Require Import Program Classes Main Program2 Main2 Conflict.
From SFC.GenOrder Require Import Ops Plan Check Perm Static Equiv Static2.
From SFC.GenOrder2 Require Import Perm2 CRel2 Plan2 Side2.
Import ListNotations.
Local Open Scope string_scope.

(** the outputs of the model for a program and a re-ordering of it: both fail, or both succeed with
    systems that are equal up to the order of rows and of summands (and equal initial conditions) *)
Definition outputs_agree2 (p p' : program2) : bool :=
  match build2 p, build2 p' with
  | Ok E, Ok E' => rows_perm_equiv_b E E'
  | Err _, Err _ => true
  | _, _ => false
  end.

(** bit 0: is_admissible2; 1: order_ok2 p; 2: reform_ok2 p; 3: reform_ok2 p'; 4: outputs agree; 5: build2 p succeeds *)
Definition order_report2 (p p' : program2) : list bool :=
  [is_admissible2 p p'; order_ok2 p; reform_ok2 p; reform_ok2 p'; outputs_agree2 p p'; is_ok (build2 p)].

(** the side condition [order_ok2] is evaluated separately, on well-formed programs only *)
Definition order_case2 (p p' : program2) : bool :=
  is_admissible2 p p' && reform_ok2 p && reform_ok2 p' && outputs_agree2 p p'.

(** which calls of a program are outside the sector-wise reformulation (plan = Err OutOfFuel) *)
Definition uncovered2 (p : program2) : nat :=
  match construct_all2 p with
  | Err _ => 0
  | Ok st => List.length (filter (fun k => match plan2 (kinfo st) (kzone0 st) k with Err OutOfFuel => true | _ => false end) (gen_list2 st))
  end.
