(** The construction phase of the multi-currency model does not depend on the order of the sector
    declarations: an admissible re-ordering of a program (Perm2.v) constructs the same objects with
    renamed creation indices (CRel2.v).  coq/GenOrder/Constr.v for [Main2.construct_all2].

    As there, [construct_perm2] needs [closed_refs2 p]: every  CentralBank(..., treasury=t)  /
    GoldStandardCentralBank(..., treasury=t)  declaration names a sector created BEFORE the bank (the
    model's constructor does not look at its treasury argument; the Python cannot express a forward
    reference).  The three sectors of the ExternalSector keep their creation indices: a swap exchanges the
    indices  n, n+1  of two ordinary declarations and the ExternalSector step lies either before both
    (indices < n) or after both (indices > n+1). *)
From Coq Require Import List String Bool ZArith Arith Lia.
From SFC.Base Require Import Res Str.
From SFC.Gen Require Import Fx Zone.
From SFC.GenMarket Require Import Market MarketProofs.
From SFC.GenMain2 Require Import Program Classes Main MainProofs Program2 Main2 MainProofs2.
From SFC.GenOrder Require Import Perm CRel ConstrBase ConstrInv ConstrStep Constr.
From SFC.GenOrder2 Require Import Perm2 CRel2 ConstrInv2 ConstrStep2.
Import ListNotations.
Local Open Scope string_scope.
Local Open Scope list_scope.

(* ------------------------------------------------------------------ *)
(** * The transposition *)

Lemma rn_cls2_tau_tau n k : rn_cls2 (tau n) (rn_cls2 (tau n) k) = k.
Proof.
  destruct k as [c| |t s| | |]; simpl; try reflexivity.
  - now rewrite rn_cls_tau_tau.
  - destruct t; simpl; [now rewrite tau_tau|reflexivity].
Qed.

Lemma rn_step2_tau_tau n x : rn_step2 (tau n) (rn_step2 (tau n) x) = x.
Proof.
  destruct x as [c cur rg| |ci c k|o]; simpl; try reflexivity; [now rewrite rn_cls2_tau_tau|].
  destruct o as [o|s m]; simpl; [|now rewrite !tau_tau].
  destruct o; simpl; rewrite ?tau_tau; reflexivity.
Qed.

Lemma map_rn_step2_tau_tau n p : map (rn_step2 (tau n)) (map (rn_step2 (tau n)) p) = p.
Proof. rewrite map_map. apply map_id_ext. apply rn_step2_tau_tau. Qed.

(* ------------------------------------------------------------------ *)
(** * 1. Moves can be undone *)

Lemma move2_sym p q : move2 p q -> move2 q p.
Proof.
  intros M. destruct M as [pre ci c1 k1 c2 k2 post H1 H2|pre ci c b t post H|pre ci c b t post H
                          |pre cb t ci c k post H1 H2|pre cb t ci c k post H1 H2|pre cb t cb' t' post H].
  - pose proof (MSwap2 pre ci c2 k2 c1 k1 (map (rn_step2 (tau (nsec2 pre))) post) H2 H1) as M.
    rewrite map_rn_step2_tau_tau in M. exact M.
  - now apply MUnfold2.
  - now apply MFold2.
  - now apply MSecOp2.
  - now apply MOpSec2.
  - apply MOpOp2. congruence.
Qed.

Lemma admissible2_snoc p q r : admissible_perm2 p q -> move2 q r -> admissible_perm2 p r.
Proof. intros A M. eapply admissible2_trans; [exact A|]. eapply AP2_step; [exact M|apply AP2_refl]. Qed.

Lemma admissible2_sym p q : admissible_perm2 p q -> admissible_perm2 q p.
Proof.
  intros A. induction A as [p|p q r M _ IH]; [apply AP2_refl|].
  eapply admissible2_snoc; [exact IH|]. now apply move2_sym.
Qed.

(* ------------------------------------------------------------------ *)
(** * Moves keep treasury references backward *)

Lemma tre_ok2_tau n m k : S (S n) <= m -> tre_ok2 m k = true -> tre_ok2 m (rn_cls2 (tau n) k) = true.
Proof.
  intros L. destruct k as [c| |[t|] s| | |]; simpl; try reflexivity.
  - now apply tre_ok_tau.
  - intros H. apply Nat.ltb_lt in H. apply Nat.ltb_lt. now apply tau_bound.
Qed.

Lemma closed_from2_tau n : forall p m, S (S n) <= m -> closed_from2 m p = true ->
  closed_from2 m (map (rn_step2 (tau n)) p) = true.
Proof.
  induction p as [|x p IH]; intros m L H; [reflexivity|]. destruct x as [c cur rg| |ci c k|o]; simpl in *.
  - now apply IH.
  - apply IH; [lia|exact H].
  - apply andb_true_iff in H as [H1 H2]. apply andb_true_iff. split; [now apply tre_ok2_tau|]. apply IH; [lia|exact H2].
  - now apply IH.
Qed.

Lemma tre_ok2_bank_none n b : tre_ok2 n (bank b None) = true.
Proof. destruct b; reflexivity. Qed.

Lemma tre_ok2_bank_some n b t : tre_ok2 n (bank b (Some t)) = Nat.ltb t n.
Proof. destruct b; reflexivity. Qed.

Lemma move2_closed p q : move2 p q -> closed_refs2 p = true -> closed_refs2 q = true.
Proof.
  unfold closed_refs2. intros M.
  destruct M as [pre ci c1 k1 c2 k2 post H1 H2|pre ci c b t post H|pre ci c b t post H
                |pre cb t ci c k post H1 H2|pre cb t ci c k post H1 H2|pre cb t cb' t' post H];
    rewrite !closed_from2_app; unfold SetTre; cbn [closed_from2 Nat.add];
    rewrite ?tre_ok2_bank_none, ?tre_ok2_bank_some; intros C;
    repeat match goal with K : (_ && _)%bool = true |- _ => apply andb_true_iff in K; destruct K end;
    repeat (apply andb_true_iff; split); try assumption; try reflexivity.
  - now apply refs_below2_tre_ok2.
  - eapply tre_ok2_mono; [|apply refs_below2_tre_ok2; exact H1]. lia.
  - apply closed_from2_tau; [lia|assumption].
  - now apply Nat.ltb_lt.
Qed.

Lemma admissible2_closed p p' : admissible_perm2 p p' -> closed_refs2 p = true -> closed_refs2 p' = true.
Proof. intros A. induction A as [p|p q r M _ IH]; [auto|]. intros C. apply IH. eapply move2_closed; eassumption. Qed.

(* ------------------------------------------------------------------ *)
(** * Replacing a segment of a program *)

Lemma middle_same2 pre X Y post :
  (forall st0, construct_all2 pre = Ok st0 -> foldM run_step2 X st0 = foldM run_step2 Y st0) ->
  forall st, construct_all2 (pre ++ X ++ post) = Ok st -> construct_all2 (pre ++ Y ++ post) = Ok st.
Proof.
  unfold construct_all2. intros HXY st H. apply foldM_app in H as (st0 & H0 & H1).
  apply foldM_app in H1 as (st1 & H1 & H2). apply foldM_app. exists st0. split; [exact H0|].
  apply foldM_app. exists st1. split; [|exact H2]. rewrite <- (HXY st0 H0). exact H1.
Qed.

(* ------------------------------------------------------------------ *)
(** * Single steps *)

Lemma set_treasury2_ok st cb t : posl (k_secs st) -> cb < List.length (k_secs st) -> t < List.length (k_secs st) ->
  run_op2 st (UOld (OSetTreasury cb t)) =
  Ok (mkK (k_countries st) (k_default st) (k_ext st) (k_secs st)
          (set_nth cb (set_tre (class_of2 (k_classes st) cb) t) (k_classes st))
          (k_sup st) (k_flows st) (k_exo st) (k_ic st)).
Proof.
  intros P H1 H2. rewrite run_op2_settre. destruct (find_sec_some _ _ P H1) as [x ->]. destruct (find_sec_some _ _ P H2) as [y ->].
  reflexivity.
Qed.

Lemma class_of2_set_nth_neq k l i j : j <> i -> class_of2 (set_nth i k l) j = class_of2 l j.
Proof. intros H. unfold class_of2. rewrite !nth_nth_error, nth_error_set_nth_neq; [reflexivity|exact H]. Qed.

Lemma class_of2_app1 l r i : i < List.length l -> class_of2 (l ++ r) i = class_of2 l i.
Proof. intros H. unfold class_of2. now apply app_nth1. Qed.

(* ------------------------------------------------------------------ *)
(** * The moves that lead to the same state *)

Lemma fold_eq2 st0 ci c b t : winv2 st0 -> t < List.length (k_secs st0) ->
  foldM run_step2 [S2Sector ci c (bank b None); SetTre (List.length (k_secs st0)) t] st0 =
  foldM run_step2 [S2Sector ci c (bank b (Some t))] st0.
Proof.
  intros [W1 W2 _ _ _ _ _] Ht. unfold SetTre. cbn [foldM run_step2]. unfold add_sector.
  destruct (nth_error (k_countries st0) ci) as [[cc cur]|]; [|reflexivity].
  destruct (existsb _ (k_secs st0)); [reflexivity|].
  assert (MR : forall o, market_refs2 (bank b o) = []) by (destruct b; reflexivity). rewrite !MR.
  cbn [resolve_markets bind].
  assert (CC : construct2 (List.length (k_secs st0)) cc c (bank b (Some t)) [] =
               construct2 (List.length (k_secs st0)) cc c (bank b None) []) by (destruct b; reflexivity).
  rewrite CC.
  destruct (construct2 (List.length (k_secs st0)) cc c (bank b None) []) as [s|] eqn:E; [|reflexivity]. cbn [bind].
  destruct (construct2_facts _ _ _ _ _ _ E) as (F1 & _).
  rewrite set_treasury2_ok; cbn [k_countries k_default k_ext k_secs k_classes k_sup k_flows k_exo k_ic].
  - f_equal. f_equal. rewrite <- W2.
    assert (K : class_of2 (k_classes st0 ++ [bank b None]) (List.length (k_classes st0)) = bank b None).
    { unfold class_of2. rewrite app_nth2 by lia. now rewrite Nat.sub_diag. }
    rewrite K. assert (ST : set_tre (bank b None) t = bank b (Some t)) by (destruct b; reflexivity).
    rewrite ST. apply set_nth_app_len.
  - now apply posl_snoc.
  - rewrite app_length. simpl. lia.
  - rewrite app_length. simpl. lia.
Qed.

Lemma opsec_eq2 st0 cb t ci c k : winv2 st0 -> cb < List.length (k_secs st0) -> t < List.length (k_secs st0) ->
  foldM run_step2 [SetTre cb t; S2Sector ci c k] st0 =
  foldM run_step2 [S2Sector ci c k; SetTre cb t] st0.
Proof.
  intros [W1 W2 _ _ _ _ _] Hc Ht. unfold SetTre. cbn [foldM run_step2]. rewrite (set_treasury2_ok st0 cb t W1 Hc Ht).
  unfold add_sector. cbn [k_countries k_default k_ext k_secs k_classes k_sup k_flows k_exo k_ic].
  destruct (nth_error (k_countries st0) ci) as [[cc cur]|]; [|reflexivity].
  destruct (existsb _ (k_secs st0)); [reflexivity|].
  destruct (resolve_markets (k_secs st0) (market_refs2 k)) as [m|]; [|reflexivity]. cbn [bind].
  destruct (construct2 (List.length (k_secs st0)) cc c k m) as [s|] eqn:E; [|reflexivity]. cbn [bind].
  destruct (construct2_facts _ _ _ _ _ _ E) as (F1 & _).
  rewrite set_treasury2_ok; cbn [k_countries k_default k_ext k_secs k_classes k_sup k_flows k_exo k_ic].
  - f_equal. f_equal. rewrite class_of2_app1 by lia. rewrite set_nth_app1 by lia. reflexivity.
  - now apply posl_snoc.
  - rewrite app_length. simpl. lia.
  - rewrite app_length. simpl. lia.
Qed.

Lemma opop_eq2 st0 cb t cb' t' : cb <> cb' ->
  foldM run_step2 [SetTre cb t; SetTre cb' t'] st0 =
  foldM run_step2 [SetTre cb' t'; SetTre cb t] st0.
Proof.
  intros Ne. unfold SetTre. cbn [foldM run_step2]. rewrite !run_op2_settre.
  destruct (find_sec cb (k_secs st0)) eqn:A; destruct (find_sec t (k_secs st0)) eqn:B;
    destruct (find_sec cb' (k_secs st0)) eqn:C; destruct (find_sec t' (k_secs st0)) eqn:D;
    rewrite ?run_op2_settre; cbn [k_countries k_default k_ext k_secs k_classes k_sup k_flows k_exo k_ic]; rewrite ?A, ?B, ?C, ?D;
    cbn [k_countries k_default k_ext k_secs k_classes k_sup k_flows k_exo k_ic]; try reflexivity.
  f_equal. f_equal. rewrite !class_of2_set_nth_neq by congruence. apply set_nth_comm. congruence.
Qed.

(* ------------------------------------------------------------------ *)
(** * Two adjacent declarations change places *)

Lemma swap_rel2 st0 ci c1 k1 c2 k2 st2 : winv2 st0 -> cls_bounded2 st0 ->
  refs_below2 (List.length (k_secs st0)) k1 = true -> refs_below2 (List.length (k_secs st0)) k2 = true ->
  foldM run_step2 [S2Sector ci c1 k1; S2Sector ci c2 k2] st0 = Ok st2 ->
  exists st2', foldM run_step2 [S2Sector ci c2 k2; S2Sector ci c1 k1] st0 = Ok st2' /\
               kstate_rel (tau (List.length (k_secs st0))) st2 st2'.
Proof.
  intros W CB R1 R2 H. pose proof W as [W1 W2 W3 W4 W5 W6 W7].
  cbn [foldM run_step2] in H. destruct (add_sector st0 ci c1 k1) as [st1|] eqn:S1; [|discriminate].
  destruct (add_sector st1 ci c2 k2) as [st2x|] eqn:S2; [|discriminate]. injection H as <-.
  apply add_sector_inv in S1 as (cc & cur & m1 & s1 & Ecc & X1 & M1 & C1 & ->).
  apply add_sector_inv in S2 as (cc' & cur' & m2 & s2 & Ecc' & X2 & M2 & C2 & ->).
  cbn [k_countries k_default k_ext k_secs k_classes k_sup k_flows k_exo k_ic] in *.
  rewrite Ecc in Ecc'. injection Ecc' as <- <-.
  remember (List.length (k_secs st0)) as N0 eqn:EN.
  rewrite app_length in C2. simpl in C2. rewrite <- EN, Nat.add_1_r in C2.
  destruct (construct2_facts _ _ _ _ _ _ C1) as (F1 & F2 & F3 & _).
  destruct (construct2_facts _ _ _ _ _ _ C2) as (G1 & G2 & G3 & _).
  rewrite existsb_app in X2. apply orb_false_iff in X2 as [X2 X2'].
  cbn [existsb] in X2'. rewrite orb_false_r in X2'. unfold in_country in X2'. rewrite F2, F3, String.eqb_refl in X2'.
  simpl in X2'.
  rewrite resolve_markets_app in M2 by (try exact W1; rewrite <- EN; now apply refs_below2_market_refs2).
  (* the other order *)
  assert (T1 : add_sector st0 ci c2 k2 =
               Ok (mkK (k_countries st0) (k_default st0) (k_ext st0) (k_secs st0 ++ [with_sid N0 s2]) (k_classes st0 ++ [k2])
                       (k_sup st0) (k_flows st0) (k_exo st0) (k_ic st0))).
  { apply (add_sector_ok st0 ci c2 k2 cc cur m2); try assumption.
    rewrite <- EN, (construct2_sid N0 (S N0)), C2. reflexivity. }
  assert (T2 : add_sector (mkK (k_countries st0) (k_default st0) (k_ext st0) (k_secs st0 ++ [with_sid N0 s2]) (k_classes st0 ++ [k2])
                             (k_sup st0) (k_flows st0) (k_exo st0) (k_ic st0)) ci c1 k1 =
               Ok (mkK (k_countries st0) (k_default st0) (k_ext st0) ((k_secs st0 ++ [with_sid N0 s2]) ++ [with_sid (S N0) s1])
                       ((k_classes st0 ++ [k2]) ++ [k1]) (k_sup st0) (k_flows st0) (k_exo st0) (k_ic st0))).
  { apply (add_sector_ok (mkK (k_countries st0) (k_default st0) (k_ext st0) (k_secs st0 ++ [with_sid N0 s2]) (k_classes st0 ++ [k2])
                                (k_sup st0) (k_flows st0) (k_exo st0) (k_ic st0)) ci c1 k1 cc cur m1);
      cbn [k_countries k_default k_ext k_secs k_classes k_sup k_flows k_exo k_ic].
    - exact Ecc.
    - rewrite existsb_app, X1. cbn [existsb]. unfold in_country. cbn [country code with_sid].
      rewrite G2, G3, String.eqb_refl, String.eqb_sym, X2'. reflexivity.
    - rewrite resolve_markets_app; [exact M1|exact W1|]. rewrite <- EN. now apply refs_below2_market_refs2.
    - rewrite app_length. simpl. rewrite <- EN, Nat.add_1_r, (construct2_sid (S N0) N0), C1. reflexivity. }
  eexists. split; [cbn [foldM run_step2]; rewrite T1; cbn [bind]; rewrite T2; reflexivity|].
  (* the relation *)
  assert (P2 : posl ((k_secs st0 ++ [s1]) ++ [s2])).
  { apply posl_snoc; [apply posl_snoc; [exact W1|congruence]|]. rewrite app_length. simpl. rewrite <- EN. lia. }
  assert (P2' : posl ((k_secs st0 ++ [with_sid N0 s2]) ++ [with_sid (S N0) s1])).
  { apply posl_snoc; [apply posl_snoc; [exact W1|simpl; congruence]|]. rewrite app_length. simpl. rewrite <- EN. lia. }
  unfold posl in P2, P2'. rewrite <- !app_assoc in *. simpl app in *.
  assert (L2 : forall (A : Type) (l : list A) (a b : A), List.length (l ++ [a; b]) = S (S (List.length l))).
  { intros A l a b. rewrite app_length. simpl. lia. }
  rewrite !L2 in P2, P2'. rewrite <- EN in P2, P2'.
  assert (TF : fixes N0 (tau N0)) by apply tau_fixes.
  constructor; cbn [k_countries k_default k_ext k_secs k_classes k_sup k_flows k_exo k_ic]; rewrite ?L2, <- ?EN, ?W2, <- ?EN.
  - reflexivity.
  - reflexivity.
  - reflexivity.
  - intros e He. destruct (W3 e He) as (A & B & C). rewrite !tau_lt by assumption. auto.
  - reflexivity.
  - reflexivity.
  - reflexivity.
  - exact P2.
  - exact P2'.
  - intros i Hi. now apply tau_bound.
  - intros i j _ _ E. rewrite <- (tau_tau N0 i), <- (tau_tau N0 j). now rewrite E.
  - intros i Hi. apply tau_gt. lia.
  - intros i s Hi. destruct (lt_dec i N0) as [Li|Li].
    + rewrite nth_error_app1 in Hi by lia. rewrite (tau_lt _ _ Li), nth_error_app1 by lia. rewrite Hi. f_equal.
      rewrite rn_sec_with_sid, (pos_nth_sid _ _ _ W1 Hi), (tau_lt _ _ Li), <- (pos_nth_sid _ _ _ W1 Hi). symmetry. apply with_sid_self.
    + rewrite nth_error_app2 in Hi by lia. rewrite <- EN in Hi.
      destruct (i - N0) as [|[|d]] eqn:D.
      * assert (i = N0) by lia. subst i. simpl in Hi. injection Hi as <-.
        rewrite tau_n, nth_error_app2 by lia. rewrite <- EN. replace (S N0 - N0) with 1 by lia. simpl.
        rewrite rn_sec_with_sid, F1, tau_n. reflexivity.
      * assert (i = S N0) by lia. subst i. simpl in Hi. injection Hi as <-.
        rewrite tau_Sn, nth_error_app2 by lia. rewrite <- EN, Nat.sub_diag. simpl.
        rewrite rn_sec_with_sid, G1, tau_Sn. reflexivity.
      * simpl in Hi. destruct d; discriminate.
  - intros i k Hi. destruct (lt_dec i N0) as [Li|Li].
    + rewrite nth_error_app1 in Hi by lia. rewrite (tau_lt _ _ Li), nth_error_app1 by lia. rewrite Hi. f_equal.
      symmetry. apply (map_fix_In _ _ (CB (tau N0) (eq_ind _ (fun n => fixes n (tau N0)) TF _ EN))).
      eapply nth_error_In. exact Hi.
    + rewrite nth_error_app2 in Hi by lia. rewrite W2 in Hi.
      destruct (i - N0) as [|[|d]] eqn:D.
      * assert (i = N0) by lia. subst i. simpl in Hi. injection Hi as <-.
        rewrite tau_n, nth_error_app2 by lia. rewrite W2. replace (S N0 - N0) with 1 by lia. simpl.
        now rewrite (rn_cls2_fix N0 _ _ TF R1).
      * assert (i = S N0) by lia. subst i. simpl in Hi. injection Hi as <-.
        rewrite tau_Sn, nth_error_app2 by lia. rewrite W2, Nat.sub_diag. simpl.
        now rewrite (rn_cls2_fix N0 _ _ TF R2).
      * simpl in Hi. destruct d; discriminate.
  - symmetry. now apply W4.
  - symmetry. now apply W5.
  - symmetry. now apply W6.
  - symmetry. now apply W7.
Qed.

(* ------------------------------------------------------------------ *)
(** * 2. Construction does not depend on the order of declarations *)

Lemma closed_prefix2 pre rest : closed_refs2 (pre ++ rest) = true -> closed_refs2 pre = true.
Proof. unfold closed_refs2. rewrite closed_from2_app. intros H. now apply andb_true_iff in H as [H _]. Qed.

Lemma move2_construct p q : move2 p q -> closed_refs2 p = true ->
  forall st, construct_all2 p = Ok st -> exists st' f, construct_all2 q = Ok st' /\ kstate_rel f st st'.
Proof.
  intros M CL st H.
  assert (SAME : construct_all2 q = Ok st -> exists st' f, construct_all2 q = Ok st' /\ kstate_rel f st st').
  { intros Hq. exists st, (fun i => i). split; [exact Hq|]. apply kstate_rel_refl.
    now destruct (construct_all2_inv p st CL H) as (W & _). }
  destruct M as [pre ci c1 k1 c2 k2 post H1 H2|pre ci c b t post Ht|pre ci c b t post Ht
                |pre cb t ci c k post Hc Ht|pre cb t ci c k post Hc Ht|pre cb t cb' t' post Ne];
    pose proof (closed_prefix2 _ _ CL) as CLpre.
  - unfold construct_all2 in H. apply foldM_app in H as (st0 & H0 & H).
    destruct (construct_all2_inv pre st0 CLpre H0) as (W & CB & L).
    change (S2Sector ci c1 k1 :: S2Sector ci c2 k2 :: post) with ([S2Sector ci c1 k1; S2Sector ci c2 k2] ++ post) in H.
    apply foldM_app in H as (st2 & H2' & H3). rewrite <- L in H1, H2.
    destruct (swap_rel2 st0 ci c1 k1 c2 k2 st2 W CB H1 H2 H2') as (st2' & T & R).
    destruct (foldM_rel2 _ post st2 st2' st R H3) as (st' & T3 & R3).
    exists st', (tau (List.length (k_secs st0))). split; [|exact R3].
    unfold construct_all2. apply foldM_app. exists st0. split; [exact H0|].
    change (S2Sector ci c2 k2 :: S2Sector ci c1 k1 :: map (rn_step2 (tau (nsec2 pre))) post)
      with ([S2Sector ci c2 k2; S2Sector ci c1 k1] ++ map (rn_step2 (tau (nsec2 pre))) post).
    apply foldM_app. exists st2'. split; [exact T|]. rewrite <- L. exact T3.
  - apply SAME.
    apply (middle_same2 pre [S2Sector ci c (bank b None); SetTre (nsec2 pre) t]
                        [S2Sector ci c (bank b (Some t))] post); [|exact H].
    intros st0 H0. destruct (construct_all2_inv pre st0 CLpre H0) as (W & _ & L). rewrite <- L. apply fold_eq2; [exact W|lia].
  - apply SAME.
    apply (middle_same2 pre [S2Sector ci c (bank b (Some t))]
                        [S2Sector ci c (bank b None); SetTre (nsec2 pre) t] post); [|exact H].
    intros st0 H0. destruct (construct_all2_inv pre st0 CLpre H0) as (W & _ & L). rewrite <- L. symmetry. apply fold_eq2; [exact W|lia].
  - apply SAME.
    apply (middle_same2 pre [SetTre cb t; S2Sector ci c k] [S2Sector ci c k; SetTre cb t] post); [|exact H].
    intros st0 H0. destruct (construct_all2_inv pre st0 CLpre H0) as (W & _ & L). apply opsec_eq2; [exact W|lia|lia].
  - apply SAME.
    apply (middle_same2 pre [S2Sector ci c k; SetTre cb t] [SetTre cb t; S2Sector ci c k] post); [|exact H].
    intros st0 H0. destruct (construct_all2_inv pre st0 CLpre H0) as (W & _ & L). symmetry. apply opsec_eq2; [exact W|lia|lia].
  - apply SAME.
    apply (middle_same2 pre [SetTre cb t; SetTre cb' t'] [SetTre cb' t'; SetTre cb t] post); [|exact H].
    intros st0 _. now apply opop_eq2.
Qed.

(** [closed_refs2 p]: without it the statement is false, see the header of coq/GenOrder/Constr.v *)
Theorem construct_perm2 p p' : admissible_perm2 p p' -> closed_refs2 p = true ->
  forall st, construct_all2 p = Ok st -> exists st' f, construct_all2 p' = Ok st' /\ kstate_rel f st st'.
Proof.
  intros A. induction A as [p|p q r M _ IH]; intros CL st H.
  - exists st, (fun i => i). split; [exact H|]. apply kstate_rel_refl.
    now destruct (construct_all2_inv p st CL H) as (W & _).
  - destruct (move2_construct p q M CL st H) as (st1 & f & H1 & R1).
    destruct (IH (move2_closed _ _ M CL) st1 H1) as (st' & g & H' & R2).
    exists st', (fun i => g (f i)). split; [exact H'|]. eapply kstate_rel_trans; eassumption.
Qed.
