(** One entry of Model._GenerateRegisteredCashFlows in the multi-currency model ([Main2.flow_step2])
    as a plan ([Plan2.flow_plan2]):
      [flow_reform2]     flow_step2 = "compute [flow_plan2], then apply it sector by sector" (equal zones
                         on success, both fail otherwise);
      [flow_plan2_attr]  the operation lists only depend on the attributes of the sector. *)
From Coq Require Import List String Bool ZArith Arith Lia.
From SFC.Base Require Import Res Str.
From SFC.Gen Require Import Fx Zone.
From SFC.GenMarket Require Import Market MarketProofs.
From SFC.GenTax Require Import Tax Dividends.
From SFC.GenAsset Require Import Common Money Deposit Weighting.
From SFC.GenMain2 Require Import Program Classes Main Program2 Main2 Conflict Conflict2.
From SFC.GenOrder Require Import Ops Plan ReformDefs ReformMarketLib PostPlan GenBase.
From SFC.GenOrder2 Require Import Plan2 Gold2.
Import ListNotations.
Local Open Scope string_scope.

(* ------------------------------------------------------------------ *)
(** * The sector a pass works on *)

Lemma pass_touched g k : forall Z Z' x, apply_lops g Z = Ok Z' -> find_sec k Z = Some x ->
  exists x', find_sec k Z' = Some x' /\ run_ops (g x) x = Ok x'.
Proof.
  unfold apply_lops. intros Z Z' x H. apply zmap_ok_inv in H. unfold find_sec.
  induction H as [|s s' r r' E _ IH]; [discriminate|]. cbn [find].
  rewrite (attrs_sid _ _ (run_ops_attrs _ _ _ E)). destruct (Nat.eqb (sid s) k); [|exact IH].
  intros F. injection F as <-. now exists s'.
Qed.

Lemma ensure_has s n e s' : run_ops [PEnsure n e] s = Ok s' -> has_var s' n = true.
Proof.
  rewrite run_ops_1. cbn [run_op1]. intros H. injection H as <-.
  destruct (has_var s n) eqn:E; [exact E|]. unfold has_var, setv. cbn [vars with_vars]. now rewrite lookup_set_same.
Qed.

Lemma flow_distinct_inv e src tg : flow_distinct e src tg = true ->
  e_xr e <> e_fx e /\ src <> e_xr e /\ src <> e_fx e /\ tg <> e_xr e /\ tg <> e_fx e.
Proof.
  unfold flow_distinct. intros H.
  repeat (apply andb_true_iff in H as [H ?]).
  repeat match goal with X : negb _ = true |- _ => apply negb_true_iff, Nat.eqb_neq in X end.
  tauto.
Qed.

(* ------------------------------------------------------------------ *)
(** * The passes of a cross-zone flow *)

Section Passes.
Variables (e : ext_ids) (src tg : nat) (csrc ctgt full xrs crossv : string) (inc_s inc_t : bool).

Definition fP1 : sector -> list pop := only src (fun x => cash x ((-1)%Z, [full]) inc_s).
Definition fP2 : sector -> list pop := only (e_fx e) (fun _ => [PAdd ("NET_" ++ csrc) (1%Z, [full])]).
Definition fP3 : sector -> list pop := only (e_fx e) (fun _ => [PAdd ("NET_" ++ NUM) ((-1)%Z, [full; xrs])]).
Definition fP4 : sector -> list pop :=
  only (e_xr e) (fun _ => [PEnsure (csrc ++ "_" ++ ctgt) (blob_eqn (squeeze (csrc ++ "/" ++ ctgt)))]).
Definition fP5 : sector -> list pop := only (e_fx e) (fun _ => [PAdd ("NET_" ++ ctgt) ((-1)%Z, [full; crossv])]).
Definition fP6 : sector -> list pop := only (e_fx e) (fun _ => [PAdd ("NET_" ++ NUM) (1%Z, [full; xrs])]).
Definition fP7 : sector -> list pop := only tg (fun x => cash x (1%Z, [full; crossv]) inc_t).

Definition fpasses : list (sector -> list pop) := [fP1; fP2; fP3; fP4; fP5; fP6; fP7].

Lemma fpasses_attr : forall x, List.In x fpasses -> attr_fun x.
Proof.
  intros x H. cbn [fpasses List.In] in H.
  repeat (destruct H as [<-|H]; [apply only_attr; first [apply const_attr|apply cash_attr]|]). destruct H.
Qed.

(** the seven passes, fused, are the plan *)
Lemma fpasses_lops s : flow_distinct e src tg = true -> src <> tg ->
  flat_map (fun x : sector -> list pop => x s) fpasses = flow_lops2 e src tg csrc ctgt full xrs crossv inc_s inc_t s.
Proof.
  intros D N0. destruct (flow_distinct_inv e src tg D) as (N1 & N2 & N3 & N4 & N5).
  unfold fpasses, flow_lops2. cbn [flat_map]. unfold fP1, fP2, fP3, fP4, fP5, fP6, fP7, only.
  destruct (Nat.eqb_spec (sid s) src) as [Es|Es].
  - destruct (Nat.eqb_spec (sid s) (e_xr e)) as [Ex|Ex]; [congruence|].
    destruct (Nat.eqb_spec (sid s) (e_fx e)) as [Ef|Ef]; [congruence|].
    destruct (Nat.eqb_spec (sid s) tg) as [Et|Et]; [congruence|].
    cbn [app]. now rewrite !app_nil_r.
  - destruct (Nat.eqb_spec (sid s) (e_xr e)) as [Ex|Ex].
    + destruct (Nat.eqb_spec (sid s) (e_fx e)) as [Ef|Ef]; [congruence|].
      destruct (Nat.eqb_spec (sid s) tg) as [Et|Et]; [congruence|]. reflexivity.
    + destruct (Nat.eqb_spec (sid s) (e_fx e)) as [Ef|Ef].
      * destruct (Nat.eqb_spec (sid s) tg) as [Et|Et]; [congruence|]. reflexivity.
      * destruct (Nat.eqb_spec (sid s) tg) as [Et|Et]; cbn [app]; now rewrite ?app_nil_r.
Qed.
End Passes.

(* ------------------------------------------------------------------ *)
(** * flow_step2 = its plan *)

Theorem flow_reform2 J Z x : NoDup (map sid Z) -> flow_plan2 J Z x <> Err OutOfFuel ->
  rsim (flow_step2 J Z x) (do g <- flow_plan2 J Z x ;; apply_lops g Z).
Proof.
  intros ND. destruct x as [[[[src tgt] var] inc_s] inc_t]. unfold flow_step2, flow_plan2.
  destruct tgt as [tg|]; [|intros _; exact Logic.I].
  destruct (find_sec src Z) as [s|] eqn:Fs; [|intros _; exact Logic.I].
  destruct (find_sec tg Z) as [t|] eqn:Ft; [|intros _; exact Logic.I].
  set (csrc := cur_of_sec J s). set (ctgt := cur_of_sec J t). cbv zeta.
  destruct (String.eqb csrc ctgt) eqn:EC; cbn [negb andb].
  - (* one currency zone: the single-currency step *)
    intros _. pose proof (flow_reform Z (src, Some tg, var, inc_s, inc_t) ND) as R.
    unfold flow_step, flow_plan in R. rewrite Fs, Ft in R. exact R.
  - destruct (j_ext J) as [e|] eqn:EJ; [|intros _; exact Logic.I].
    destruct (has_var s var) eqn:Hv; [|intros _; exact Logic.I].
    destruct (flow_distinct e src tg && negb (has_substring "__" (csrc ++ "_" ++ ctgt))) eqn:D;
      [intros _|intros NF; now contradiction NF].
    apply andb_true_iff in D as [D Hn]. apply negb_true_iff in Hn.
    destruct (flow_distinct_inv e src tg D) as (N1 & N2 & N3 & N4 & N5).
    assert (N0 : src <> tg).
    { intros ->. rewrite Fs in Ft. injection Ft as ->. unfold csrc, ctgt in EC. now rewrite String.eqb_refl in EC. }
    set (full := fullcode s ++ "__" ++ var).
    assert (U1 : upd src (fun x => opt_key (add_cash_flow x ((-1)%Z, [full]) None inc_s)) Z = apply_lops (fP1 src full inc_s) Z).
    { apply (upd_pass Z Z src _ _ s ND (zattrs_refl Z) Fs). intros y _. now apply cash_ops. }
    rewrite U1.
    destruct (find_sec (e_xr e) Z) as [xr|] eqn:Fx.
    2:{ destruct (apply_lops (fP1 src full inc_s) Z) as [Z1|] eqn:A1; cbn [bind]; [|exact Logic.I].
        unfold send_money, xr_full. rewrite EJ, (zattrs_find_none _ Z); [exact Logic.I|eapply apply_lops_zattrs; exact A1|exact Fx]. }
    destruct (find_sec (e_fx e) Z) as [fx|] eqn:Ffx.
    2:{ destruct (apply_lops (fP1 src full inc_s) Z) as [Z1|] eqn:A1; cbn [bind]; [|exact Logic.I].
        unfold send_money, xr_full. rewrite EJ, (only_untouched _ _ _ _ _ A1 (not_eq_sym N2)), Fx.
        destruct (has_var xr csrc); cbn [bind]; [|exact Logic.I].
        unfold fx_add. rewrite EJ, (upd_none _ _ Z1); [exact Logic.I|].
        apply (zattrs_find_none _ Z); [eapply apply_lops_zattrs; exact A1|exact Ffx]. }
    destruct (has_var xr csrc) eqn:Hxr.
    2:{ destruct (apply_lops (fP1 src full inc_s) Z) as [Z1|] eqn:A1; cbn [bind]; [|exact Logic.I].
        unfold send_money, xr_full. rewrite EJ, (only_untouched _ _ _ _ _ A1 (not_eq_sym N2)), Fx, Hxr. exact Logic.I. }
    (* the main case *)
    cbn [bind].
    set (xrs := fullcode xr ++ "__" ++ csrc).
    set (crossv := fullcode xr ++ "__" ++ csrc ++ "_" ++ ctgt).
    apply (rsim_trans _ (foldM (fun H p => apply_lops p H) (fpasses e src tg csrc ctgt full xrs crossv inc_s inc_t) Z)).
    2:{ eapply rsim_trans; [apply fold_passes_in, fpasses_attr|].
        apply rsim_eq, apply_lops_ext. intros y _. now apply fpasses_lops. }
    unfold fpasses. cbn [foldM].
    (* pass 1: the source *)
    destruct (apply_lops (fP1 src full inc_s) Z) as [Z1|] eqn:A1; cbn [bind]; [|exact Logic.I].
    pose proof (apply_lops_zattrs _ _ _ A1) as ZA1.
    assert (X1 : find_sec (e_xr e) Z1 = Some xr) by (rewrite (only_untouched _ _ _ _ _ A1 (not_eq_sym N2)); exact Fx).
    (* passes 2 and 3: _SendMoney *)
    unfold send_money. rewrite (xr_full_at J e Z1 xr csrc EJ X1 Hxr). cbn [bind]. fold xrs.
    unfold fx_add. rewrite EJ.
    rewrite (upd_pass Z Z1 (e_fx e) _ (fun _ => [PAdd ("NET_" ++ csrc) (1%Z, [full])]) fx ND ZA1 Ffx).
    2:{ intros y _. apply padd_ops. }
    fold (fP2 e csrc full).
    destruct (apply_lops (fP2 e csrc full) Z1) as [Z2|] eqn:A2; cbn [bind]; [|exact Logic.I].
    pose proof (zattrs_trans _ _ _ ZA1 (apply_lops_zattrs _ _ _ A2)) as ZA2.
    assert (X2 : find_sec (e_xr e) Z2 = Some xr) by (rewrite (only_untouched _ _ _ _ _ A2 N1); exact X1).
    rewrite (upd_pass Z Z2 (e_fx e) _ (fun _ => [PAdd ("NET_" ++ NUM) ((-1)%Z, [full; xrs])]) fx ND ZA2 Ffx).
    2:{ intros y _. apply padd_ops. }
    fold (fP3 e full xrs).
    destruct (apply_lops (fP3 e full xrs) Z2) as [Z3|] eqn:A3; cbn [bind]; [|exact Logic.I].
    pose proof (zattrs_trans _ _ _ ZA2 (apply_lops_zattrs _ _ _ A3)) as ZA3.
    assert (X3 : find_sec (e_xr e) Z3 = Some xr) by (rewrite (only_untouched _ _ _ _ _ A3 N1); exact X2).
    (* pass 4: the cross rate *)
    unfold receive_money, ensure_cross, fx_add. rewrite EJ.
    rewrite (upd_pass Z Z3 (e_xr e) _ (fun _ => [PEnsure (csrc ++ "_" ++ ctgt) (blob_eqn (squeeze (csrc ++ "/" ++ ctgt)))]) xr ND ZA3 Fx).
    2:{ intros y _. rewrite run_ops_1. now apply ensure_ops. }
    fold (fP4 e csrc ctgt).
    destruct (apply_lops (fP4 e csrc ctgt) Z3) as [Z4|] eqn:A4; cbn [bind]; [|exact Logic.I].
    pose proof (zattrs_trans _ _ _ ZA3 (apply_lops_zattrs _ _ _ A4)) as ZA4.
    destruct (pass_touched _ (e_xr e) _ _ _ A4 X3) as (xr4 & X4 & R4).
    unfold fP4, only in R4. rewrite (find_sec_sid _ _ _ X3), Nat.eqb_refl in R4.
    pose proof (ensure_has _ _ _ _ R4) as Hcross.
    pose proof (run_ops_pres _ _ _ csrc R4 Hxr) as Hxr4.
    pose proof (attrs_fullcode _ _ (run_ops_attrs _ _ _ R4)) as Fc4.
    rewrite (xr_full_at J e Z4 xr4 _ EJ X4 Hcross). cbn [bind]. rewrite Fc4. fold crossv.
    (* passes 5 and 6: _ReceiveMoney *)
    rewrite (upd_pass Z Z4 (e_fx e) _ (fun _ => [PAdd ("NET_" ++ ctgt) ((-1)%Z, [full; crossv])]) fx ND ZA4 Ffx).
    2:{ intros y _. apply padd_ops. }
    fold (fP5 e ctgt full crossv).
    destruct (apply_lops (fP5 e ctgt full crossv) Z4) as [Z5|] eqn:A5; cbn [bind]; [|exact Logic.I].
    pose proof (zattrs_trans _ _ _ ZA4 (apply_lops_zattrs _ _ _ A5)) as ZA5.
    assert (X5 : find_sec (e_xr e) Z5 = Some xr4) by (rewrite (only_untouched _ _ _ _ _ A5 N1); exact X4).
    rewrite (xr_full_at J e Z5 xr4 csrc EJ X5 Hxr4). cbn [bind]. rewrite Fc4. fold xrs.
    rewrite (upd_pass Z Z5 (e_fx e) _ (fun _ => [PAdd ("NET_" ++ NUM) (1%Z, [full; xrs])]) fx ND ZA5 Ffx).
    2:{ intros y _. apply padd_ops. }
    fold (fP6 e full xrs).
    destruct (apply_lops (fP6 e full xrs) Z5) as [Z6|] eqn:A6; cbn [bind fst snd]; [|exact Logic.I].
    pose proof (zattrs_trans _ _ _ ZA5 (apply_lops_zattrs _ _ _ A6)) as ZA6.
    (* pass 7: the target *)
    rewrite (upd_pass Z Z6 tg _ (fun y => cash y (1%Z, [full; crossv]) inc_t) t ND ZA6 Ft).
    2:{ intros y _. now apply cash_ops. }
    fold (fP7 tg full crossv inc_t).
    destruct (apply_lops (fP7 tg full crossv inc_t) Z6) as [Z7|]; [reflexivity|exact Logic.I].
Qed.

Corollary flow_reform2_ext J Z x : NoDup (map sid Z) -> flow_plan2 J Z x <> Err OutOfFuel ->
  zres_ext (flow_step2 J Z x) (do g <- flow_plan2 J Z x ;; apply_lops g Z).
Proof. intros ND NF. apply rsim_zres. now apply flow_reform2. Qed.

(* ------------------------------------------------------------------ *)
(** * The plan only looks at attributes *)

Lemma flow_plan2_attr J Z x g : flow_plan2 J Z x = Ok g -> attr_fun g.
Proof.
  destruct x as [[[[src tgt] var] inc_s] inc_t]. unfold flow_plan2.
  destruct tgt as [tg|]; [|discriminate].
  destruct (find_sec src Z) as [s|]; [|discriminate].
  destruct (find_sec tg Z) as [t|]; [|discriminate].
  destruct (String.eqb (cur_of_sec J s) (cur_of_sec J t)).
  - destruct (has_var s var); [|discriminate]. intros H. injection H as <-.
    intros y y' A. unfold flow_lops, cash. now rewrite (attrs_sid _ _ A), (attrs_excl _ _ A).
  - destruct (j_ext J) as [e|]; [|discriminate].
    destruct (has_var s var); [|discriminate].
    destruct (flow_distinct e src tg && _); [|discriminate].
    destruct (find_sec (e_xr e) Z) as [xr|]; [|discriminate].
    destruct (find_sec (e_fx e) Z) as [fx|]; [|discriminate].
    destruct (has_var xr (cur_of_sec J s)); [|discriminate]. intros H. injection H as <-.
    intros y y' A. unfold flow_lops2, cash. now rewrite (attrs_sid _ _ A), (attrs_excl _ _ A).
Qed.
