(** A market with suppliers in other currency zones, part 4: facts about the resolved suppliers, the
    fused operation list, and the general form of the reformulation theorem (an arbitrary part [pa] of
    the zone as "abroad", a currency chosen per supplier). *)
From Coq Require Import List String Bool ZArith Arith Lia.
From SFC.Base Require Import Res Str.
From SFC.Gen Require Import Fx Zone.
From SFC.GenMarket Require Import Market MarketProofs.
From SFC.GenAsset Require Import Weighting.
From SFC.GenMain2 Require Import Program Classes Main Program2 Main2 Conflict Conflict2.
From SFC.GenOrder Require Import Ops Plan ReformDefs ReformMarketLib ReformMarket.
From SFC.GenOrder2 Require Import ForeignDefs Plan2 Part Reform2 Foreign1 Foreign2 Foreign3.
Import ListNotations.
Local Open Scope string_scope.
Local Open Scope list_scope.

(* ------------------------------------------------------------------ *)
(** * Generic *)

Definition res_sec_ext (a b : result sector) : Prop :=
  match a, b with
  | Ok x, Ok y => sec_ext x y
  | Err _, Err _ => True
  | _, _ => False
  end.

Lemma zmap_pointwise f g Z : (forall s, List.In s Z -> res_sec_ext (f s) (g s)) -> zres_ext (zmap f Z) (zmap g Z).
Proof.
  induction Z as [|s r IH]; intros H; [constructor|]. cbn [zmap].
  pose proof (H s (or_introl eq_refl)) as Hs. specialize (IH (fun x Hx => H x (or_intror Hx))).
  destruct (f s) as [a|], (g s) as [b|]; cbn in Hs |- *; try contradiction; [|exact I].
  destruct (zmap f r) as [ra|], (zmap g r) as [rb|]; cbn in IH |- *; try contradiction; [|exact I].
  constructor; assumption.
Qed.

Lemma rsim_zres_trans (a a' b : result zone) : rsim a a' -> zres_ext a' b -> zres_ext a b.
Proof. destruct a, a', b; cbn; try tauto. now intros ->. Qed.

Lemma flat_map_nil {A B} (f : A -> list B) l : (forall x, List.In x l -> f x = []) -> flat_map f l = [].
Proof. induction l as [|x l IH]; intros H; [reflexivity|]. cbn [flat_map]. rewrite (H x (or_introl eq_refl)), IH; [reflexivity|]. intros y Hy. apply H. now right. Qed.

Lemma search_supplier_in Z mk s : search_supplier Z mk = Ok s -> List.In s Z.
Proof.
  unfold search_supplier. destruct (filter (is_candidate mk) Z) as [|a [|b l]] eqn:E; try discriminate.
  intros H. injection H as <-. assert (X : List.In a (filter (is_candidate mk) Z)) by (rewrite E; now left).
  now apply filter_In in X as [X _].
Qed.

Lemma resolve_sups_spec Z l : forall sups, resolve_sups Z l = Ok sups ->
  Forall2 (fun je x => fst (fst x) = fst je /\ snd x = snd je /\ find_sec (fst je) Z = Some (snd (fst x))) l sups.
Proof.
  induction l as [|[j e] l IH]; intros sups H; cbn [resolve_sups] in H; [injection H as <-; constructor|].
  destruct (find_sec j Z) as [s|] eqn:F; [|discriminate]. destruct (resolve_sups Z l) as [r'|]; [|discriminate].
  injection H as <-. constructor; [cbn [fst snd]; auto|now apply IH].
Qed.

Lemma Forall2_in_r {A B} (R : A -> B -> Prop) l l' b : Forall2 R l l' -> List.In b l' -> exists a, List.In a l /\ R a b.
Proof.
  intros H. induction H as [|x y l l' Hxy H IH]; cbn [List.In]; [tauto|].
  intros [<-|Hin]; [exists x; auto|]. destruct (IH Hin) as (a & Ha & Ra). exists a; auto.
Qed.

Lemma Forall2_in_l {A B} (R : A -> B -> Prop) l l' a : Forall2 R l l' -> List.In a l -> exists b, List.In b l' /\ R a b.
Proof.
  intros H. induction H as [|x y l l' Hxy H IH]; cbn [List.In]; [tauto|].
  intros [<-|Hin]; [exists y; auto|]. destruct (IH Hin) as (b & Hb & Rb). exists b; auto.
Qed.

(* ------------------------------------------------------------------ *)
(** * The currencies of the suppliers *)

Lemma acurs_in J Z hcur ids a : List.In a (supplier_currencies J Z hcur ids) <->
  exists j s, List.In j ids /\ find_sec j Z = Some s /\ cur_of_sec J s = a /\ String.eqb a hcur = false.
Proof.
  unfold supplier_currencies. rewrite nodup_In, in_flat_map. split.
  - intros (j & Hj & H). destruct (find_sec j Z) as [s|] eqn:F; [|contradiction].
    destruct (String.eqb (cur_of_sec J s) hcur) eqn:E; [contradiction|]. destruct H as [<-|[]]. exists j, s. auto.
  - intros (j & s & Hj & F & <- & E). exists j. split; [exact Hj|]. rewrite F, E. now left.
Qed.

(** all resolved suppliers, with their origin *)
Lemma all_sups_spec Z mk r others sups : all_sups Z mk r others = Ok sups ->
  (forall x, List.In x sups -> find_sec (fst (fst x)) Z = Some (snd (fst x)) /\ List.In (fst (fst x)) (map fst others ++ [r])) /\
  (forall j, List.In j (map fst others ++ [r]) -> exists x, List.In x sups /\ fst (fst x) = j).
Proof.
  unfold all_sups. intros H.
  destruct (resolve_sups Z (map (fun o : nat * string => (fst o, blob_eqn (snd o))) others)) as [osecs|] eqn:RO; [|discriminate]. cbn [bind] in H.
  destruct (resolve_sups Z [(r, _)]) as [rsec|] eqn:RR; [|discriminate]. cbn [bind] in H. injection H as <-.
  pose proof (resolve_sups_spec _ _ _ RO) as FO. pose proof (resolve_sups_spec _ _ _ RR) as FR.
  pose proof (Forall2_app FO FR) as FA. clear FO FR RO RR.
  set (l := map (fun o : nat * string => (fst o, blob_eqn (snd o))) others ++ [(r, terms_eqn (residual_terms mk (map (fun x : nat * sector * eqn => fullcode (snd (fst x))) osecs)))]) in FA.
  assert (Hl : map fst l = map fst others ++ [r]).
  { unfold l. rewrite map_app, map_map. reflexivity. }
  rewrite <- Hl. split.
  - intros x Hx. destruct (Forall2_in_r _ _ _ _ FA Hx) as (je & Hje & E1 & _ & E3). rewrite E1. split; [exact E3|now apply in_map].
  - intros j Hj. apply in_map_iff in Hj as (je & <- & Hje). destruct (Forall2_in_l _ _ _ _ FA Hje) as (x & Hx & E1 & _). eauto.
Qed.

Lemma tag_cur J hcur x : fs_cur (tag_sup J hcur x) = if in_zone (j_countries J) hcur (snd (fst x)) then None else Some (cur_of_sec J (snd (fst x))).
Proof. reflexivity. Qed.

(* ------------------------------------------------------------------ *)
(** * The fused list is the plan's list *)

Lemma foreign_lops_fused e mk hcur (inh : sector -> bool) fulls ts acurs s :
  (forall x, List.In x ts -> Nat.eqb (fs_id x) (sid mk) = false) ->
  (Nat.eqb (sid s) (sid mk) = true -> inh s = true /\ Nat.eqb (sid s) (e_fx e) = false /\ Nat.eqb (sid s) (e_xr e) = false) ->
  foreign_lops e mk hcur inh fulls ts acurs s =
  ((restrict inh (dem_all mk fulls) s ++ sup_ops mk s) ++ flat_map (fun x => sup_lops mk hcur x s) ts) ++
  (if Nat.eqb (sid s) (e_fx e) then flat_map (fx_ops mk hcur) ts else []) ++
  (if Nat.eqb (sid s) (e_xr e) then cross_ops hcur acurs else []).
Proof.
  intros NS Hm. unfold foreign_lops, restrict, dem_all, sup_ops, dem_ops, sup_lops.
  destruct (Nat.eqb (sid s) (sid mk)) eqn:Es.
  - destruct (Hm eq_refl) as (Q & E1 & E2). rewrite Q, E1, E2. cbn [app]. rewrite !app_nil_r. do 3 f_equal.
    apply Nat.eqb_eq in Es. rewrite Es. clear -NS.
    induction ts as [|x ts IH]; [reflexivity|]. cbn [flat_map map]. rewrite (NS x (or_introl eq_refl)). cbn [app]. f_equal.
    apply IH. intros y Hy. apply NS. now right.
  - cbn [app]. destruct (inh s); cbn [app]; rewrite ?app_nil_r; rewrite <- ?app_assoc; reflexivity.
Qed.

Lemma G1_attr mk hcur ts : attr_fun (fun s => flat_map (fun x => sup_lops mk hcur x s) ts).
Proof. apply attr_fun_flat_map. intros x. apply sup_lops_attr. Qed.
