(** Admissible re-orderings of the sector declarations of a multi-currency program ([program2]).

    The same elementary moves as coq/GenOrder/Perm.v, on the steps of Program2.v: two ADJACENT
    declarations of sectors of the same country change places ([MSwap2], everything later re-indexed
    by the transposition [tau]); a central bank created with its treasury is the same as the bank
    followed by the attachment  cb.Treasury = t  ([MFold2] / [MUnfold2], the way
    harness/gen_main2.render_program2 renders a treasury declared after the bank); an attachment
    moves across a neighbouring declaration or attachment that involves neither object.
    Countries, the ExternalSector step (which creates three sectors) and user operations keep their
    places, as in gen_common.permute_declarations. *)
From Coq Require Import List String Bool ZArith Arith Lia.
From SFC.Base Require Import Res Str.
From SFC.GenMain2 Require Import Program Program2.
From SFC.GenOrder Require Import Perm.
Import ListNotations.
Local Open Scope string_scope.
Local Open Scope list_scope.

(* ------------------------------------------------------------------ *)
(** * Renaming sector references *)

Definition rn_cls2 (f : nat -> nat) (k : cls2) : cls2 :=
  match k with
  | COld c => COld (rn_cls f c)
  | CGoldCB t s => CGoldCB (option_map f t) s
  | k => k
  end.

Definition rn_op2 (f : nat -> nat) (o : uop2) : uop2 :=
  match o with
  | UOld x => UOld (rn_op f x)
  | UAddMarket s m => UAddMarket (f s) (f m)
  end.

Definition rn_step2 (f : nat -> nat) (x : step2) : step2 :=
  match x with
  | S2Sector ci c k => S2Sector ci c (rn_cls2 f k)
  | S2Op o => S2Op (rn_op2 f o)
  | x => x
  end.

(** objects passed to a constructor *)
Definition refs2 (k : cls2) : list nat :=
  match k with
  | COld c => refs c
  | CGoldCB (Some t) _ => [t]
  | _ => []
  end.

(** number of sectors created by a program (the ExternalSector creates three) *)
Fixpoint nsec2 (p : program2) : nat :=
  match p with
  | [] => 0
  | S2Sector _ _ _ :: r => S (nsec2 r)
  | S2External :: r => 3 + nsec2 r
  | _ :: r => nsec2 r
  end.

Definition refs_below2 (n : nat) (k : cls2) : bool := forallb (fun r => Nat.ltb r n) (refs2 k).

Definition SetTre (cb t : nat) : step2 := S2Op (UOld (OSetTreasury cb t)).

(** the two central-bank classes: CentralBank and GoldStandardCentralBank(initial_gold_stock) *)
Inductive bkind := BPlain | BGold (stock : string).
Definition bank (b : bkind) (t : option nat) : cls2 :=
  match b with BPlain => COld (CCentralBank t) | BGold s => CGoldCB t s end.
Definition CBank (t : option nat) : cls2 := bank BPlain t.

(** is the class a central bank, and with which treasury? *)
Definition bank_of (k : cls2) : option (bkind * option nat) :=
  match k with
  | COld (CCentralBank t) => Some (BPlain, t)
  | CGoldCB t s => Some (BGold s, t)
  | _ => None
  end.

Lemma bank_of_bank b t : bank_of (bank b t) = Some (b, t).
Proof. destruct b; reflexivity. Qed.

Lemma bank_of_inv k b t : bank_of k = Some (b, t) -> k = bank b t.
Proof. destruct k as [c| |t0 s0| | |]; try discriminate; [destruct c; try discriminate|]; cbn; intros H; injection H as <- <-; reflexivity. Qed.

(* ------------------------------------------------------------------ *)
(** * Elementary moves *)

Inductive move2 : program2 -> program2 -> Prop :=
| MSwap2 pre ci c1 k1 c2 k2 post :
    refs_below2 (nsec2 pre) k1 = true -> refs_below2 (nsec2 pre) k2 = true ->
    move2 (pre ++ S2Sector ci c1 k1 :: S2Sector ci c2 k2 :: post)
          (pre ++ S2Sector ci c2 k2 :: S2Sector ci c1 k1 :: map (rn_step2 (tau (nsec2 pre))) post)
| MFold2 pre ci c b t post :
    t < nsec2 pre ->
    move2 (pre ++ S2Sector ci c (bank b None) :: SetTre (nsec2 pre) t :: post)
          (pre ++ S2Sector ci c (bank b (Some t)) :: post)
| MUnfold2 pre ci c b t post :
    t < nsec2 pre ->
    move2 (pre ++ S2Sector ci c (bank b (Some t)) :: post)
          (pre ++ S2Sector ci c (bank b None) :: SetTre (nsec2 pre) t :: post)
| MOpSec2 pre cb t ci c k post :
    cb < nsec2 pre -> t < nsec2 pre ->
    move2 (pre ++ SetTre cb t :: S2Sector ci c k :: post)
          (pre ++ S2Sector ci c k :: SetTre cb t :: post)
| MSecOp2 pre cb t ci c k post :
    cb < nsec2 pre -> t < nsec2 pre ->
    move2 (pre ++ S2Sector ci c k :: SetTre cb t :: post)
          (pre ++ SetTre cb t :: S2Sector ci c k :: post)
| MOpOp2 pre cb t cb' t' post :
    cb <> cb' ->
    move2 (pre ++ SetTre cb t :: SetTre cb' t' :: post)
          (pre ++ SetTre cb' t' :: SetTre cb t :: post).

Inductive admissible_perm2 : program2 -> program2 -> Prop :=
| AP2_refl p : admissible_perm2 p p
| AP2_step p q r : move2 p q -> admissible_perm2 q r -> admissible_perm2 p r.

Lemma admissible2_trans p q r : admissible_perm2 p q -> admissible_perm2 q r -> admissible_perm2 p r.
Proof. intros H. induction H; [auto|]. intros K. eapply AP2_step; [eassumption|]. now apply IHadmissible_perm2. Qed.

(* ------------------------------------------------------------------ *)
(** * Applying a move at a position *)

Definition apply_at2 (m : mv) (n : nat) (rest : program2) : option program2 :=
  match m, rest with
  | VSwap, S2Sector ci c1 k1 :: S2Sector ci' c2 k2 :: post =>
      if Nat.eqb ci ci' && refs_below2 n k1 && refs_below2 n k2
      then Some (S2Sector ci c2 k2 :: S2Sector ci c1 k1 :: map (rn_step2 (tau n)) post) else None
  | VFold, S2Sector ci c k :: S2Op (UOld (OSetTreasury cb t)) :: post =>
      match bank_of k with
      | Some (b, None) => if Nat.eqb cb n && Nat.ltb t n then Some (S2Sector ci c (bank b (Some t)) :: post) else None
      | _ => None
      end
  | VUnfold, S2Sector ci c k :: post =>
      match bank_of k with
      | Some (b, Some t) => if Nat.ltb t n then Some (S2Sector ci c (bank b None) :: SetTre n t :: post) else None
      | _ => None
      end
  | VOpSec, S2Op (UOld (OSetTreasury cb t)) :: S2Sector ci c k :: post =>
      if Nat.ltb cb n && Nat.ltb t n then Some (S2Sector ci c k :: SetTre cb t :: post) else None
  | VSecOp, S2Sector ci c k :: S2Op (UOld (OSetTreasury cb t)) :: post =>
      if Nat.ltb cb n && Nat.ltb t n then Some (SetTre cb t :: S2Sector ci c k :: post) else None
  | VOpOp, S2Op (UOld (OSetTreasury cb t)) :: S2Op (UOld (OSetTreasury cb' t')) :: post =>
      if negb (Nat.eqb cb cb') then Some (SetTre cb' t' :: SetTre cb t :: post) else None
  | _, _ => None
  end.

Definition nsec_step2 (x : step2) (n : nat) : nat :=
  match x with S2Sector _ _ _ => S n | S2External => 3 + n | _ => n end.

Fixpoint apply_move_from2 (m : mv) (j n : nat) (p : program2) : option program2 :=
  match j with
  | 0 => apply_at2 m n p
  | S j' =>
      match p with
      | [] => None
      | x :: r =>
          match apply_move_from2 m j' (nsec_step2 x n) r with
          | Some r' => Some (x :: r')
          | None => None
          end
      end
  end.

Definition apply_move2 (mj : mv * nat) (p : program2) : option program2 := apply_move_from2 (fst mj) (snd mj) 0 p.

Fixpoint apply_moves2 (l : list (mv * nat)) (p : program2) : option program2 :=
  match l with
  | [] => Some p
  | m :: r => match apply_move2 m p with Some q => apply_moves2 r q | None => None end
  end.

Lemma nsec2_app a b : nsec2 (a ++ b) = nsec2 a + nsec2 b.
Proof. induction a as [|x a IH]; simpl; [reflexivity|]. destruct x; simpl; rewrite IH; reflexivity. Qed.

Lemma apply_at2_move m pre rest q : apply_at2 m (nsec2 pre) rest = Some q -> move2 (pre ++ rest) (pre ++ q).
Proof.
  destruct m; cbn [apply_at2]; intros H; destr_match H; subst; try injection H as <-;
    repeat match goal with
           | E : bank_of _ = Some (_, _) |- _ => apply bank_of_inv in E; subst
           | E : (_ && _)%bool = true |- _ => apply andb_true_iff in E; destruct E
           | E : Nat.eqb _ _ = true |- _ => apply Nat.eqb_eq in E; subst
           | E : Nat.ltb _ _ = true |- _ => apply Nat.ltb_lt in E
           | E : negb (Nat.eqb _ _) = true |- _ => apply negb_true_iff in E; apply Nat.eqb_neq in E
           end.
  - now apply MSwap2.
  - now apply MFold2.
  - now apply MUnfold2.
  - now apply MOpSec2.
  - now apply MSecOp2.
  - now apply MOpOp2.
Qed.

Lemma apply_move_from2_move m : forall j pre rest q,
  apply_move_from2 m j (nsec2 pre) rest = Some q -> move2 (pre ++ rest) (pre ++ q).
Proof.
  induction j as [|j IH]; intros pre rest q H; cbn [apply_move_from2] in H.
  - exact (apply_at2_move m pre rest q H).
  - destruct rest as [|x r]; [discriminate|].
    destruct (apply_move_from2 m j _ r) as [r'|] eqn:E; [|discriminate]. injection H as <-.
    replace (pre ++ x :: r) with ((pre ++ [x]) ++ r) by (rewrite <- app_assoc; reflexivity).
    replace (pre ++ x :: r') with ((pre ++ [x]) ++ r') by (rewrite <- app_assoc; reflexivity).
    apply IH. rewrite nsec2_app. destruct x; simpl in *; rewrite ?Nat.add_0_r, ?Nat.add_1_r; try exact E.
    replace (nsec2 pre + 3) with (S (S (S (nsec2 pre)))) by lia. exact E.
Qed.

Lemma apply_move2_sound m p q : apply_move2 m p = Some q -> move2 p q.
Proof. intros H. apply (apply_move_from2_move (fst m) (snd m) [] p q). exact H. Qed.

Lemma apply_moves2_sound l : forall p q, apply_moves2 l p = Some q -> admissible_perm2 p q.
Proof.
  induction l as [|m l IH]; intros p q H; cbn [apply_moves2] in H.
  - injection H as <-. apply AP2_refl.
  - destruct (apply_move2 m p) as [p1|] eqn:E; [|discriminate].
    eapply AP2_step; [exact (apply_move2_sound m p p1 E)|]. now apply IH.
Qed.

(* ------------------------------------------------------------------ *)
(** * Equality of programs *)

Definition cls2_eqb (a b : cls2) : bool :=
  match a, b with
  | COld x, COld y => cls_eqb x y
  | CGoldGov s, CGoldGov s' => String.eqb s s'
  | CGoldCB t s, CGoldCB t' s' => onat_eqb t t' && String.eqb s s'
  | CXR, CXR | CFX, CFX | CGOLD, CGOLD => true
  | _, _ => false
  end.

Definition uop2_eqb (a b : uop2) : bool :=
  match a, b with
  | UOld x, UOld y => uop_eqb x y
  | UAddMarket s m, UAddMarket s' m' => Nat.eqb s s' && Nat.eqb m m'
  | _, _ => false
  end.

Definition step2_eqb (a b : step2) : bool :=
  match a, b with
  | S2Country c cur r, S2Country c' cur' r' => String.eqb c c' && ostr_eqb cur cur' && Bool.eqb r r'
  | S2External, S2External => true
  | S2Sector ci c k, S2Sector ci' c' k' => Nat.eqb ci ci' && String.eqb c c' && cls2_eqb k k'
  | S2Op o, S2Op o' => uop2_eqb o o'
  | _, _ => false
  end.

Fixpoint program2_eqb (a b : program2) : bool :=
  match a, b with
  | [], [] => true
  | x :: a', y :: b' => step2_eqb x y && program2_eqb a' b'
  | _, _ => false
  end.

Lemma cls2_eqb_eq a b : cls2_eqb a b = true -> a = b.
Proof.
  destruct a, b; simpl; intros H; try discriminate; eqb_tac; try reflexivity.
  - apply cls_eqb_eq in H. now subst.
  - match goal with H : onat_eqb _ _ = true |- _ => apply onat_eqb_eq in H; subst end. reflexivity.
Qed.

Lemma uop2_eqb_eq a b : uop2_eqb a b = true -> a = b.
Proof.
  destruct a, b; simpl; intros H; try discriminate; eqb_tac; try reflexivity.
  apply uop_eqb_eq in H. now subst.
Qed.

Lemma step2_eqb_eq a b : step2_eqb a b = true -> a = b.
Proof.
  destruct a, b; simpl; intros H; try discriminate; eqb_tac; try reflexivity.
  - match goal with H : ostr_eqb _ _ = true |- _ => apply ostr_eqb_eq in H; subst end. reflexivity.
  - match goal with H : cls2_eqb _ _ = true |- _ => apply cls2_eqb_eq in H; subst end. reflexivity.
  - apply uop2_eqb_eq in H. now subst.
Qed.

Lemma program2_eqb_eq a : forall b, program2_eqb a b = true -> a = b.
Proof.
  induction a as [|x a IH]; intros [|y b] H; simpl in H; try discriminate; [reflexivity|].
  apply andb_true_iff in H as [H1 H2]. apply step2_eqb_eq in H1. subst. f_equal. now apply IH.
Qed.

(* ------------------------------------------------------------------ *)
(** * Searching a sequence of moves from [p] to [p'] *)

Definition movable2 (x : step2) : bool :=
  match x with S2Sector _ _ _ | S2Op (UOld (OSetTreasury _ _)) => true | _ => false end.

Definition erase_refs2 (k : cls2) : cls2 :=
  match k with
  | COld c => COld (erase_refs c)
  | CGoldCB _ s => CGoldCB None s
  | k => k
  end.

Definition same_decl2 (x y : step2) : bool :=
  match x, y with
  | S2Sector ci c k, S2Sector ci' c' k' => Nat.eqb ci ci' && String.eqb c c' && cls2_eqb (erase_refs2 k) (erase_refs2 k')
  | _, _ => false
  end.

Fixpoint find_in_run2 (f : step2 -> bool) (l : program2) : option nat :=
  match l with
  | [] => None
  | x :: r => if f x then Some 0
              else if movable2 x then option_map S (find_in_run2 f r) else None
  end.

Fixpoint bring_left2 (j d : nat) (cur : program2) : option program2 :=
  match d with
  | 0 => Some cur
  | S d' =>
      let pos := j + d' in
      let m := match nth_error cur pos, nth_error cur (S pos) with
               | Some (S2Sector _ _ _), Some (S2Sector _ _ _) => Some VSwap
               | Some (S2Op _), Some (S2Sector _ _ _) => Some VOpSec
               | Some (S2Sector _ _ _), Some (S2Op _) => Some VSecOp
               | Some (S2Op _), Some (S2Op _) => Some VOpOp
               | _, _ => None
               end in
      match m with
      | None => None
      | Some m => match apply_move2 (m, pos) cur with
                  | Some cur' => bring_left2 j d' cur'
                  | None => None
                  end
      end
  end.

Definition is_treasury_op2 (cb t : nat) (x : step2) : bool :=
  match x with S2Op (UOld (OSetTreasury cb' t')) => Nat.eqb cb cb' && Nat.eqb t t' | _ => false end.

Definition align_one2 (j : nat) (y : step2) (cur : program2) : option program2 :=
  match nth_error cur j with
  | None => None
  | Some x =>
      if step2_eqb x y then Some cur
      else
        match y with
        | S2Sector ci c k' =>
            match find_in_run2 (fun z => same_decl2 z y) (skipn j cur) with
            | None => None
            | Some d =>
                let cur0 := match nth_error cur (j + d), bank_of k' with
                            | Some (S2Sector _ _ kx), Some (_, None) =>
                                match bank_of kx with
                                | Some (_, Some _) => apply_move2 (VUnfold, j + d) cur
                                | _ => Some cur
                                end
                            | _, _ => Some cur
                            end in
                match cur0 with
                | None => None
                | Some cur0 =>
                match bring_left2 j d cur0 with
                | None => None
                | Some cur1 =>
                    match nth_error cur1 j, bank_of k' with
                    | Some (S2Sector _ _ kx), Some (_, Some t) =>
                        match bank_of kx with
                        | Some (_, None) =>
                            let n := nsec2 (firstn j cur1) in
                            match find_in_run2 (is_treasury_op2 n t) (skipn (S j) cur1) with
                            | None => None
                            | Some d2 => match bring_left2 (S j) d2 cur1 with
                                         | Some cur2 => apply_move2 (VFold, j) cur2
                                         | None => None
                                         end
                            end
                        | _ => Some cur1
                        end
                    | _, _ => Some cur1
                    end
                end
                end
            end
        | S2Op (UOld (OSetTreasury cb t)) =>
            match find_in_run2 (is_treasury_op2 cb t) (skipn j cur) with
            | None => None
            | Some d => bring_left2 j d cur
            end
        | _ => None
        end
  end.

Fixpoint align2 (j : nat) (target : program2) (cur : program2) : option program2 :=
  match target with
  | [] => Some cur
  | y :: r => match align_one2 j y cur with
              | Some cur' => align2 (S j) r cur'
              | None => None
              end
  end.

Definition is_admissible2 (p p' : program2) : bool :=
  match align2 0 p' p with
  | Some q => program2_eqb q p'
  | None => false
  end.

Lemma bring_left2_sound j : forall d cur q, bring_left2 j d cur = Some q -> admissible_perm2 cur q.
Proof.
  induction d as [|d IH]; intros cur q H; simpl in H.
  - injection H as <-. apply AP2_refl.
  - destruct (match nth_error cur (j + d) with Some _ => _ | None => None end) as [m|]; [|discriminate].
    destruct (apply_move2 (m, j + d) cur) as [cur'|] eqn:E; [|discriminate].
    eapply AP2_step; [exact (apply_move2_sound _ _ _ E)|]. now apply IH.
Qed.

Lemma apply_move2_adm m cur q : apply_move2 m cur = Some q -> admissible_perm2 cur q.
Proof. intros H. eapply AP2_step; [exact (apply_move2_sound _ _ _ H)|apply AP2_refl]. Qed.

Lemma align_one2_sound j y cur q : align_one2 j y cur = Some q -> admissible_perm2 cur q.
Proof.
  unfold align_one2. destruct (nth_error cur j) as [x|]; [|discriminate].
  destruct (step2_eqb x y); [intros H; injection H as <-; apply AP2_refl|].
  destruct y as [| |ci c k'|[[| | | | | |cb t]|]]; try discriminate.
  - destruct (find_in_run2 _ (skipn j cur)) as [d|]; [|discriminate].
    match goal with |- match ?x with _ => _ end = _ -> _ => destruct x as [cur0|] eqn:U; [|discriminate] end.
    assert (A0 : admissible_perm2 cur cur0).
    { repeat match type of U with
             | match ?x with _ => _ end = _ => let E := fresh "E" in destruct x eqn:E; try discriminate U
             end; try (injection U as <-; apply AP2_refl); exact (apply_move2_adm _ _ _ U). }
    destruct (bring_left2 j d cur0) as [cur1|] eqn:B; [|discriminate]. apply bring_left2_sound in B.
    intros H. eapply admissible2_trans; [exact A0|]. eapply admissible2_trans; [exact B|]. clear B A0 U.
    repeat match type of H with
           | match ?x with _ => _ end = _ => let E := fresh "E" in destruct x eqn:E; try discriminate H
           end;
      try (injection H as <-; apply AP2_refl); try (exact (apply_move2_adm _ _ _ H)).
    all: try (match goal with B2 : bring_left2 _ _ _ = Some _ |- _ => apply bring_left2_sound in B2; eapply admissible2_trans; [exact B2|] end;
              exact (apply_move2_adm _ _ _ H)).
  - destruct (find_in_run2 _ _) as [d|]; [|discriminate]. apply bring_left2_sound.
Qed.

Lemma align2_sound : forall target j cur q, align2 j target cur = Some q -> admissible_perm2 cur q.
Proof.
  induction target as [|y r IH]; intros j cur q H; simpl in H.
  - injection H as <-. apply AP2_refl.
  - destruct (align_one2 j y cur) as [cur'|] eqn:E; [|discriminate].
    eapply admissible2_trans; [eapply align_one2_sound; exact E|]. eapply IH; exact H.
Qed.

Theorem is_admissible2_sound p p' : is_admissible2 p p' = true -> admissible_perm2 p p'.
Proof.
  unfold is_admissible2. destruct (align2 0 p' p) as [q|] eqn:E; [|discriminate].
  intros H. apply program2_eqb_eq in H. subst q. eapply align2_sound; exact E.
Qed.

(** the embedding of single-currency programs maps moves to moves *)
