(** Acting on a part of the zone: [filter q] / [put_back_p q] round trips, [upd] and sector-wise
    passes on a part ([Main2.on_part]). *)
From Coq Require Import List String Bool ZArith Arith Lia.
From SFC.Base Require Import Res Str.
From SFC.Gen Require Import Fx Zone.
From SFC.GenMarket Require Import Market MarketProofs.
From SFC.GenMain2 Require Import Program Classes Main Program2 Main2.
From SFC.GenOrder Require Import Ops Plan ReformDefs ReformMarketLib.
From SFC.GenOrder2 Require Import Plan2.
Import ListNotations.
Local Open Scope string_scope.
Local Open Scope list_scope.

Lemma put_back_eq cc : forall C Z, put_back cc C Z = put_back_p (in_country cc) C Z.
Proof.
  intros C Z. revert C. induction Z as [|s r IH]; intros C; [reflexivity|]. cbn [put_back put_back_p].
  destruct (in_country cc s); [destruct C; now rewrite IH|now rewrite IH].
Qed.

Lemma put_back_p_length q : forall Z C, List.length (put_back_p q C Z) = List.length Z.
Proof.
  induction Z as [|s r IH]; intros C; [reflexivity|]. cbn [put_back_p].
  destruct (q s); [destruct C|]; cbn [List.length]; now rewrite IH.
Qed.

Lemma put_back_filter_id q : forall Z, put_back_p q (filter q Z) Z = Z.
Proof.
  induction Z as [|s r IH]; [reflexivity|]. cbn [filter put_back_p].
  destruct (q s) eqn:E; cbn [put_back_p]; rewrite ?E; now rewrite IH.
Qed.

Lemma put_back_p_nil q : forall Z, put_back_p q [] Z = Z.
Proof. induction Z as [|s r IH]; [reflexivity|]. cbn [put_back_p]. destruct (q s); now rewrite IH. Qed.

(** nested parts *)
Lemma put_back_p_nest (p q : sector -> bool) : (forall s, p s = true -> q s = true) ->
  forall Z C, put_back_p q (put_back_p p C (filter q Z)) Z = put_back_p p C Z.
Proof.
  intros Hpq. induction Z as [|s r IH]; intros C; [reflexivity|]. cbn [filter].
  destruct (q s) eqn:Q.
  - cbn [put_back_p]. destruct (p s) eqn:P.
    + destruct C as [|c C']; cbn [put_back_p]; rewrite Q; now rewrite IH.
    + cbn [put_back_p]. rewrite Q. now rewrite IH.
  - cbn [put_back_p]. rewrite Q. destruct (p s) eqn:P; [rewrite (Hpq s P) in Q; discriminate|]. now rewrite IH.
Qed.

Lemma filter_put_back_len (p q : sector -> bool) : (forall s, p s = true -> q s = true) ->
  forall Z C, List.length C = List.length (filter q Z) -> filter p (put_back_p q C Z) = filter p C.
Proof.
  intros Hpq. induction Z as [|s r IH]; intros C HL.
  - destruct C; [reflexivity|discriminate].
  - cbn [filter] in HL. cbn [put_back_p]. destruct (q s) eqn:Q.
    + destruct C as [|c C']; [discriminate|]. cbn [List.length] in HL. cbn [filter]. rewrite IH by lia. reflexivity.
    + cbn [filter]. destruct (p s) eqn:P; [rewrite (Hpq s P) in Q; discriminate|]. now apply IH.
Qed.

Lemma filter_put_back_same q : forall Z C, List.length C = List.length (filter q Z) ->
  (forall c, List.In c C -> q c = true) -> filter q (put_back_p q C Z) = C.
Proof.
  intros Z C HL HC. rewrite (filter_put_back_len q q (fun s H => H) Z C HL).
  clear HL. induction C as [|c C IH]; [reflexivity|]. cbn [filter]. rewrite (HC c (or_introl eq_refl)). f_equal. apply IH.
  intros c' Hc'. apply HC. now right.
Qed.

(** the other sectors are untouched *)
Lemma filter_put_back_out (p q : sector -> bool) : (forall s, p s = true -> q s = false) ->
  forall Z C, (forall c, List.In c C -> p c = false) -> filter p (put_back_p q C Z) = filter p Z.
Proof.
  intros Hpq. induction Z as [|s r IH]; intros C HC; [reflexivity|]. cbn [put_back_p].
  destruct (q s) eqn:Q.
  - assert (P : p s = false). { destruct (p s) eqn:P; [rewrite (Hpq s P) in Q; discriminate|reflexivity]. }
    destruct C as [|c C']; cbn [filter]; rewrite P.
    + rewrite IH; [reflexivity|intros c []].
    + rewrite (HC c (or_introl eq_refl)). apply IH. intros c' Hc'. apply HC. now right.
  - cbn [filter]. destruct (p s); [f_equal|]; now apply IH.
Qed.

Lemma find_sec_filter q i Z self : find_sec i Z = Some self -> q self = true -> find_sec i (filter q Z) = Some self.
Proof.
  unfold find_sec. induction Z as [|s r IH]; [discriminate|]. cbn [find filter].
  destruct (Nat.eqb (sid s) i) eqn:E.
  - intros H Q. injection H as <-. rewrite Q. cbn [find]. now rewrite E.
  - intros H Q. destruct (q s); [cbn [find]; rewrite E|]; now apply IH.
Qed.

Lemma find_sec_filter_none q i Z : find_sec i Z = None -> find_sec i (filter q Z) = None.
Proof.
  unfold find_sec. induction Z as [|s r IH]; [reflexivity|]. cbn [find filter].
  destruct (Nat.eqb (sid s) i) eqn:E; [discriminate|]. intros H. destruct (q s); [cbn [find]; rewrite E|]; now apply IH.
Qed.

Lemma find_sec_filter_inv q i Z s : find_sec i (filter q Z) = Some s -> List.In s Z /\ q s = true /\ sid s = i.
Proof.
  unfold find_sec. intros H. apply find_some in H as [H1 H2]. apply filter_In in H1 as [H1 H3].
  split; [exact H1|]. split; [exact H3|now apply Nat.eqb_eq].
Qed.

Lemma find_sec_filter_nodup q i Z s : NoDup (map sid Z) -> find_sec i (filter q Z) = Some s -> find_sec i Z = Some s.
Proof.
  intros ND H. destruct (find_sec_filter_inv q i Z s H) as (Hin & _ & Hs). clear H. unfold find_sec.
  induction Z as [|x r IH]; [contradiction|]. cbn [map] in ND. inversion ND as [|? ? Hn ND']; subst. cbn [find].
  destruct Hin as [->|Hin]; [now rewrite Nat.eqb_refl|].
  destruct (Nat.eqb_spec (sid x) (sid s)) as [E|N]; [|now apply IH].
  exfalso. apply Hn. rewrite E. now apply in_map.
Qed.

(** mutating one object of the part *)
Lemma upd_part q i (f : sector -> result sector) : forall Z self, find_sec i Z = Some self -> q self = true ->
  upd i f Z = do C <- upd i f (filter q Z) ;; Ok (put_back_p q C Z).
Proof.
  unfold find_sec. induction Z as [|s r IH]; intros self H Q; [discriminate|]. cbn [find] in H. cbn [upd filter].
  destruct (Nat.eqb (sid s) i) eqn:E.
  - injection H as <-. rewrite Q. cbn [upd]. rewrite E. destruct (f s) as [s'|]; cbn [bind]; [|reflexivity].
    cbn [put_back_p]. rewrite Q. now rewrite put_back_filter_id.
  - rewrite (IH self H Q). destruct (q s) eqn:Qs.
    + cbn [upd]. rewrite E. destruct (upd i f (filter q r)) as [C|]; cbn [bind]; [|reflexivity].
      cbn [put_back_p]. now rewrite Qs.
    + destruct (upd i f (filter q r)) as [C|]; cbn [bind]; [|reflexivity]. cbn [put_back_p]. now rewrite Qs.
Qed.

(** a sector-wise pass restricted to the part *)
Lemma apply_lops_part q g : forall Z, apply_lops (restrict q g) Z = do C <- apply_lops g (filter q Z) ;; Ok (put_back_p q C Z).
Proof.
  unfold apply_lops, restrict. induction Z as [|s r IH]; [reflexivity|]. cbn [zmap filter].
  destruct (q s) eqn:Q.
  - cbn [zmap]. destruct (run_ops (g s) s) as [s'|]; cbn [bind]; [|reflexivity]. rewrite IH.
    destruct (zmap (fun s0 => run_ops (g s0) s0) (filter q r)) as [C|]; cbn [bind]; [|reflexivity].
    cbn [put_back_p]. now rewrite Q.
  - cbn [run_ops foldM bind]. rewrite IH.
    destruct (zmap (fun s0 => run_ops (g s0) s0) (filter q r)) as [C|]; cbn [bind]; [|reflexivity].
    cbn [put_back_p]. now rewrite Q.
Qed.

Lemma put_back_p_ext q : forall Z C C', Forall2 sec_ext C C' -> zone_ext (put_back_p q C Z) (put_back_p q C' Z).
Proof.
  induction Z as [|s r IH]; intros C C' F; [constructor|]. cbn [put_back_p]. destruct (q s).
  - inversion F as [|c c' Cr Cr' Hc Fr]; subst; constructor; try apply sec_ext_refl; try exact Hc; apply IH; [constructor|exact Fr].
  - constructor; [apply sec_ext_refl|now apply IH].
Qed.

Lemma zone_ext_length A B : zone_ext A B -> List.length B = List.length A.
Proof. intros H. induction H; cbn [List.length]; congruence. Qed.

Lemma nodup_filter_sid q Z : NoDup (map sid Z) -> NoDup (map sid (filter q Z)).
Proof.
  induction Z as [|s r IH]; intros ND; [constructor|]. cbn [map] in ND. inversion ND as [|? ? Hn ND']; subst. cbn [filter].
  destruct (q s); [|now apply IH]. cbn [map]. constructor; [|now apply IH].
  intros Hin. apply Hn. apply in_map_iff in Hin as (x & E & Hx). apply filter_In in Hx as [Hx _]. rewrite <- E. now apply in_map.
Qed.

(** membership in a currency zone or a country only depends on the country attribute *)
Lemma inzone_attrs J cur s s' : attrs_eq s s' -> inzone J cur s' = inzone J cur s.
Proof. intros A. unfold inzone, in_zone. now rewrite (attrs_country _ _ A). Qed.

Lemma in_country_zone J cc self s : country self = cc -> in_country cc s = true -> inzone J (cur_of_sec J self) s = true.
Proof.
  intros <- H. unfold in_country in H. apply String.eqb_eq in H. unfold inzone, in_zone, cur_of_sec. rewrite H. apply String.eqb_refl.
Qed.

Lemma inzone_self J self : inzone J (cur_of_sec J self) self = true.
Proof. unfold inzone, in_zone, cur_of_sec. apply String.eqb_refl. Qed.
