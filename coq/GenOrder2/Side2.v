(** [order_ok2]: the decidable side condition of the order-invariance theorem for [build2], computed
    from the state after construction (plus two checks on the run of the program itself).  The parts
    are those of GenOrder's [order_ok] for the plans of Plan2.v:

      closed     a central bank's treasury argument was created before the bank;
      plans      every call has a plan (no call bound to fail; nothing outside the reformulation);
      stable     what a call looks up BY NAME in a sector is not created by another call;
      commute    two calls of sectors of one country never define the same cell of a sector in
                 competing ways (adding summands to the same equation is fine; so are two identical
                 "create unless present" operations: a cross rate, GOLD's PRICE);
      unique     at most one dividend receiver per country; at most one gold-standard sector per
                 country (their initial conditions are appended in processing order);
      initial    accumulating equations carry no duplicate summands; for the sectors of the external
                 sector (country EXT) EVERY equation counts as accumulating;
      ops, recv  structural facts about the plans (true by construction, checked);
      cb_local   the INTDEP flow a central bank registers stays inside its currency zone;
      flows      every registered cash flow has a plan on the zone reached after equation generation;
      texts      equations with >= 2 summands have plain factor names and no '(' (KindDefs.texts_ok). *)
From Coq Require Import List String Bool ZArith Arith.
From SFC.Base Require Import Res Str.
From SFC.Gen Require Import Fx Zone.
From SFC.GenMarket Require Import Market.
From SFC.GenTax Require Import Tax Dividends.
From SFC.GenMain2 Require Import Program Classes Main Program2 Main2 Conflict Conflict2.
From SFC.GenOrder Require Import Ops Plan Check Perm Static Equiv OpsProofs KindDefs Static2.
From SFC.GenOrder2 Require Import Perm2 CRel2 Enc Plan2.
Import ListNotations.
Local Open Scope string_scope.

Definition plan_of2 (J : ginfo2) (Z : zone) (ik : nat * cls2) : sector -> list pop :=
  match plan2 J Z ik with Ok f => f | Err _ => no_lops end.

(** variables whose PRESENCE in sector [s] the call examines *)
Definition reads_foreign (J : ginfo2) (Z : zone) (i : nat) (self s : sector) : list string := [].

Definition is_foreign_market (J : ginfo2) (Z : zone) (i : nat) (self : sector) : bool :=
  match supplier_currencies J Z (cur_of_sec J self) (supplier_ids J i) with [] => false | _ => true end.

(** the gold-standard classes look at the FX sector's NET_<own currency> and at the exchange rate of their currency *)
Definition gold_reads (J : ginfo2) (cur : string) (s : sector) : list string :=
  match j_ext J with
  | Some e => (if Nat.eqb (sid s) (e_fx e) then ["NET_" ++ cur] else []) ++ (if Nat.eqb (sid s) (e_xr e) then [cur] else [])
  | None => []
  end.

(** a market (even a purely domestic one) writes the FX sector's NET equations back: it depends on their presence *)
Definition fx_reads (J : ginfo2) (s : sector) : list string :=
  match j_ext J with
  | Some e => if Nat.eqb (sid s) (e_fx e) then map (fun c => "NET_" ++ c) (zones_of (j_countries J)) else []
  | None => []
  end.

Definition reads22 (J : ginfo2) (Z : zone) (ik : nat * cls2) (s : sector) : list string :=
  let '(i, k) := ik in
  match find_sec i Z with
  | None => []
  | Some self =>
      let cur := cur_of_sec J self in
      let q := inzone J cur in
      match k with
      | COld c =>
          (if q s then reads2 (to_old J) (filter q Z) (i, c) s else []) ++
          (match c with
           | CMarket => fx_reads J s ++ (if is_foreign_market J Z i self then reads_foreign J Z i self s else [])
           | _ => []
           end)
      | CGoldGov _ | CGoldCB _ _ => gold_reads J cur s
      | _ => []
      end
  end.

Definition stable_ok2 (J : ginfo2) (Z : zone) (L : list (nat * cls2)) : bool :=
  forallb (fun k => forallb (fun k' =>
     if Nat.eqb (fst k) (fst k') then true
     else forallb (fun s =>
            forallb (fun n => has_var s n || negb (mem n (creates_of (plan_of2 J Z k' s)))) (reads22 J Z k s)) Z) L) L.

Definition commute_ok2 (J : ginfo2) (Z : zone) (L : list (nat * cls2)) : bool :=
  forallb (fun k => forallb (fun k' =>
     if Nat.eqb (fst k) (fst k') then true
     else if String.eqb (country_of Z (fst k)) (country_of Z (fst k')) then
       forallb (fun s => ops_commute2 s (plan_of2 J Z k s) (plan_of2 J Z k' s)) Z
     else true) L) L.

Definition zone_of_call (J : ginfo2) (Z : zone) (i : nat) : zone :=
  match find_sec i Z with
  | Some self => filter (inzone J (cur_of_sec J self)) Z
  | None => []
  end.

Definition unique_ok2 (J : ginfo2) (Z : zone) (L : list (nat * cls2)) : bool :=
  forallb (fun k => match snd k with
                    | COld c => unique_ok (to_old J) (zone_of_call J Z (fst k)) [(fst k, c)]
                    | _ => true
                    end) L.

Definition has_ic (k : nat * cls2) : bool := match new_ic2 k with [] => false | _ => true end.

Definition gold_unique_ok (Z : zone) (L : list (nat * cls2)) : bool :=
  forallb (fun k => forallb (fun k' =>
     if Nat.eqb (fst k) (fst k') then true
     else negb (has_ic k && has_ic k' && String.eqb (country_of Z (fst k)) (country_of Z (fst k')))) L) L.

Definition iwf2_b (s : sector) : bool := if isx s then iwf_b (enc s) else iwf_b s.

Definition initial_ok2 (Z : zone) : bool := forallb (fun s => iwf2_b s && pdiv_b s) Z.

Definition ok2_b (s : sector) (o : pop) : bool := if isx s then is_basic o && op_ok_b (enc_op o) else op_ok_b o.

Definition all_ops2 (J : ginfo2) (Z : zone) (L : list (nat * cls2)) (s : sector) : list pop :=
  flat_map (fun k => plan_of2 J Z k s) L.

Definition plans_ok2 (J : ginfo2) (Z : zone) (L : list (nat * cls2)) : bool := forallb (fun k => is_ok (plan2 J Z k)) L.

Definition ops_ok2 (J : ginfo2) (Z : zone) (L : list (nat * cls2)) : bool :=
  forallb (fun s => forallb (ok2_b s) (all_ops2 J Z L s)) Z.

Definition recv_flag2 (J : ginfo2) (Z : zone) (L : list (nat * cls2)) (s : sector) : bool := existsb is_recv (all_ops2 J Z L s).

Definition recv_ok2 (J : ginfo2) (Z : zone) (L : list (nat * cls2)) : bool :=
  forallb (fun s => if recv_flag2 J Z L s then negb (isx s) && forallb div_neutral (all_ops2 J Z L s) else true) Z.

(** a registered flow between two sectors of one currency zone *)
Definition local_flow (J : ginfo2) (Z : zone) (f : flow) : bool :=
  let '(src, tgt, _, _, _) := f in
  match tgt with
  | None => true
  | Some tg =>
      match find_sec src Z, find_sec tg Z with
      | Some s, Some t => String.eqb (cur_of_sec J s) (cur_of_sec J t)
      | _, _ => true
      end
  end.

Definition cb_local_ok (J : ginfo2) (Z : zone) (L : list (nat * cls2)) : bool :=
  forallb (fun k => forallb (local_flow J Z) (new_flows2 k)) L.

Definition static_ok22 (J : ginfo2) (Z : zone) (L : list (nat * cls2)) : bool :=
  plans_ok2 J Z L && stable_ok2 J Z L && commute_ok2 J Z L && unique_ok2 J Z L && gold_unique_ok Z L &&
  initial_ok2 Z && ops_ok2 J Z L && recv_ok2 J Z L && cb_local_ok J Z L.

(** every registered cash flow has a plan on the zone reached after equation generation, made of
    operations that are fine for the sectors they act on *)
Definition flow_ok_on (J : ginfo2) (Z : zone) (x : flow) : bool :=
  match flow_plan2 J Z x with
  | Ok pl => forallb (fun s => forallb (ok2_b s) (pl s)) Z
  | Err _ => false
  end.

Definition flows_ok2 (st : kstate) : bool :=
  match foldM (gen_step2 (kinfo st)) (gen_list2 st) (mkG2 (kzone0 st) (k_flows st) (k_ic st)) with
  | Ok g => forallb (flow_ok_on (kinfo st) (h_zone g)) (h_flows g)
  | Err _ => true
  end.

Definition order_ok2 (p : program2) : bool :=
  closed_refs2 p &&
  match construct_all2 p with
  | Err _ => false
  | Ok st => static_ok22 (kinfo st) (kzone0 st) (gen_list2 st) && flows_ok2 st
  end &&
  match build2 p with Ok E => texts_ok E | Err _ => true end.
