(** Concrete multi-currency programs for the property file: non-trivial re-orderings of the open
    economy / gold standard witnesses of GenMain2/Witness2.v (non-vacuity), and two programs on which
    the side condition fails and the conclusion with it. *)
From Coq Require Import List String Bool ZArith Arith Reals Lra.
From SFC.Base Require Import Res Str.
From SFC.Gen Require Import Fx Zone.
From SFC.GenMain2 Require Import Program Classes Main Program2 Main2 Conflict Conflict2 Witness Witness2.
From SFC.GenOrder Require Import Ops Plan Check Perm Equiv Findings.
From SFC.GenOrder2 Require Import Perm2 CRel2 Plan2 Side2.
Import ListNotations.
Local Open Scope string_scope.

(** CA's six declarations reversed; US's shuffled *)
Definition economy_rev (ci : nat) (gov : cls2) : list step2 :=
  [ S2Sector ci "GOOD" (COld CMarket);
    S2Sector ci "LAB" (COld CMarket);
    S2Sector ci "TF" (COld (CTaxFlow "0.2000" "GOV"));
    S2Sector ci "BUS" (COld (CBusiness true "1.000" "0.000" "LAB" "GOOD"));
    S2Sector ci "HH" (COld (CHousehold "0.6000" "0.4000" "GOOD" "LAB"));
    S2Sector ci "GOV" gov ].

Definition economy_shuffled (ci : nat) (gov : cls2) : list step2 :=
  [ S2Sector ci "HH" (COld (CHousehold "0.6000" "0.4000" "GOOD" "LAB"));
    S2Sector ci "LAB" (COld CMarket);
    S2Sector ci "GOV" gov;
    S2Sector ci "GOOD" (COld CMarket);
    S2Sector ci "TF" (COld (CTaxFlow "0.2000" "GOV"));
    S2Sector ci "BUS" (COld (CBusiness true "1.000" "0.000" "LAB" "GOOD")) ].

(** the operations of [Witness2.open_ops] with the creation indices of the re-ordered programs *)
Definition open_ops' : list step2 :=
  [ S2Op (UOld (OSetExogenous 5 "DEM_GOOD" "[20.0]*40"));
    S2Op (UOld (OSetExogenous 11 "DEM_GOOD" "[25.0]*40"));
    S2Op (UOld (OSetExogenous 6 "CA" "[1.2]*3 + [0.9]*40"));
    S2Op (UOld (OAddVariable 4 "REMIT" "1.5"));
    S2Op (UOld (ORegisterCashFlow 4 9 "REMIT" true false));
    S2Op (UOld (OAddSupplier 0 14 (Some "0.1*DEM_GOOD"))) ].

Definition p_OPEN' : program2 :=
  ([S2Country "CA" None false] ++ economy_rev 0 (COld CGov) ++ [S2External; S2Country "US" None false] ++
   economy_shuffled 2 (COld CGov) ++ open_ops')%list.

Definition p_GOLD' : program2 :=
  ([S2Country "CA" None false] ++ economy_rev 0 (CGoldGov "10.0") ++ [S2External; S2Country "US" None false] ++
   economy_shuffled 2 (COld CGov) ++ open_ops')%list.

(* ------------------------------------------------------------------ *)
(** * Two dividend receivers in a country (GenOrder's finding, in the language of [build2]) *)

Definition p2_two : program2 := map embed_step p_two.
Definition p2_two' : program2 := map embed_step p_two'.
Definition E2_two : final_system := match build2 p2_two with Ok E => E | Err _ => nofs end.
Definition E2_two' : final_system := match build2 p2_two' with Ok E => E | Err _ => nofs end.

Local Open Scope R_scope.

Theorem two_receivers2_refuted :
  is_admissible2 p2_two p2_two' = true /\ order_ok2 p2_two = false /\
  build2 p2_two = Ok E2_two /\ build2 p2_two' = Ok E2_two' /\
  sat E2_two v_two (fun _ => 0) bv_two /\ ~ sat E2_two' v_two (fun _ => 0) bv_two.
Proof.
  split; [vm_compute; reflexivity|]. split; [vm_compute; reflexivity|].
  split; [vm_compute; reflexivity|]. split; [vm_compute; reflexivity|]. split.
  - apply sat_intro. set (L := compiled E2_two). vm_compute in L. subst L.
    repeat constructor; unfold sem1, eqn_val, v_two, bv_two; simpl; unfold tval_in; simpl; lra.
  - intros H.
    set (s := nth 2 (fs_zone E2_two') (dummy "")).
    assert (Hin : List.In s (fs_zone E2_two')) by (vm_compute; right; right; left; reflexivity).
    assert (Hv : has_var s "DIV" = true) by (vm_compute; reflexivity).
    specialize (H s "DIV" Hin Hv).
    assert (K : row_kind s "DIV" = KDef "0.0 ") by (vm_compute; reflexivity). rewrite K in H.
    unfold holds in H.
    assert (Lk : lookup_var "DIV" (vars s) = Some (mkEqn "" [])) by (vm_compute; reflexivity). rewrite Lk in H.
    assert (Fc : fullcode s = "CAP") by (vm_compute; reflexivity). rewrite Fc in H.
    unfold eqn_val, v_two in H. simpl in H. lra.
Qed.

(* ------------------------------------------------------------------ *)
(** * Two gold-standard governments in one country: the initial conditions come out in processing order *)

Local Close Scope R_scope.

Definition gold_two (a b : step2) (gov : nat) : program2 :=
  [ S2Country "CA" None false; a; b;
    S2Sector 0 "HH" (COld (CHousehold "0.6000" "0.4000" "GOOD" "LAB"));
    S2Sector 0 "BUS" (COld (CBusiness true "1.000" "0.000" "LAB" "GOOD"));
    S2Sector 0 "TF" (COld (CTaxFlow "0.2000" "GOV"));
    S2Sector 0 "LAB" (COld CMarket);
    S2Sector 0 "GOOD" (COld CMarket);
    S2External;
    S2Op (UOld (OSetExogenous gov "DEM_GOOD" "[20.0]*40")) ].

Definition p_gg : program2 := gold_two (S2Sector 0 "GOV" (CGoldGov "10.0")) (S2Sector 0 "GV2" (CGoldGov "5.0")) 0.
Definition p_gg' : program2 := gold_two (S2Sector 0 "GV2" (CGoldGov "5.0")) (S2Sector 0 "GOV" (CGoldGov "10.0")) 1.
Definition E_gg : final_system := match build2 p_gg with Ok E => E | Err _ => nofs end.
Definition E_gg' : final_system := match build2 p_gg' with Ok E => E | Err _ => nofs end.

Theorem two_gold_refuted :
  is_admissible2 p_gg p_gg' = true /\ order_ok2 p_gg = false /\
  build2 p_gg = Ok E_gg /\ build2 p_gg' = Ok E_gg' /\ fs_ic E_gg' <> fs_ic E_gg.
Proof.
  split; [vm_compute; reflexivity|]. split; [vm_compute; reflexivity|].
  split; [vm_compute; reflexivity|]. split; [vm_compute; reflexivity|].
  vm_compute. discriminate.
Qed.
