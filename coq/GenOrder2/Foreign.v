(** A goods / labour market with suppliers in other currency zones ([Main2.market_step] with one or
    with several foreign zones) is, sector by sector of the WHOLE model, the list of primitive
    operations [ForeignDefs.foreign_lops] ([foreign_reform]); and that list depends on the zone only
    through attributes and the presence of the variables read, up to zone order and a renaming of
    creation indices ([foreign_plan_sim], proved in ForeignSim.v). *)
From Coq Require Import List String Bool ZArith Arith Lia.
From SFC.Base Require Import Res Str.
From SFC.Gen Require Import Fx Zone.
From SFC.GenMarket Require Import Market MarketProofs.
From SFC.GenMain2 Require Import Program Classes Main Program2 Main2 Conflict Conflict2.
From SFC.GenOrder Require Import Ops Plan ReformDefs ReformMarketLib ReformMarket Sim Static2.
From SFC.GenOrder2 Require Import ForeignDefs Plan2 Part Reform2 Side2 Sim2 Foreign1 Foreign2 Foreign3 Foreign4 Foreign5 ForeignSim.
Import ListNotations.
Local Open Scope string_scope.
Local Open Scope list_scope.

Theorem foreign_reform J Z i self : NoDup (map sid Z) -> find_sec i Z = Some self ->
  supplier_currencies J Z (cur_of_sec J self) (supplier_ids J i) <> [] ->
  foreign_plan J Z i self <> Err OutOfFuel ->
  zres_ext (market_step J i self Z) (do g <- foreign_plan J Z i self ;; apply_lops g Z).
Proof.
  intros ND F HA NF. destruct (sup_of i (j_sup J)) as [res others] eqn:ES.
  rewrite (foreign_plan_unfold J Z i self res others ES) in NF |- *.
  rewrite (supplier_ids_eq J i res others ES) in HA.
  unfold market_step. rewrite ES. cbv beta iota zeta.
  set (hcur := cur_of_sec J self) in *.
  set (ids := map fst others ++ match res with Some r => [r] | None => [] end) in *.
  set (inh := in_zone (j_countries J) hcur).
  pose proof (fun pa cur_of Hpa Hdisj Hcov => general_reform J Z i self pa cur_of res others ND F Hpa Hdisj Hcov HA NF) as GR.
  unfold post in GR. fold hcur in GR. fold ids in GR. fold inh in GR.
  assert (IN : forall j s, List.In j ids -> find_sec j Z = Some s -> inh s = false ->
               List.In (cur_of_sec J s) (supplier_currencies J Z hcur ids)).
  { intros j s Hj Fj Q. apply acurs_in. exists j, s. auto. }
  destruct (supplier_currencies J Z hcur ids) as [|acur [|a2 l]] eqn:EA.
  - contradiction.
  - (* one foreign zone *)
    rewrite market_generate_is_multi.
    apply (GR (in_zone (j_countries J) acur) (fun _ => acur)).
    + apply inh_attr.
    + intros s Q. unfold inh, in_zone in Q. apply String.eqb_eq in Q. unfold in_zone. rewrite Q. apply String.eqb_neq. intros E.
      assert (X : List.In acur (supplier_currencies J Z hcur ids)) by (rewrite EA; now left).
      apply acurs_in in X as (_ & _ & _ & _ & _ & X). rewrite <- E, String.eqb_refl in X. discriminate.
    + intros j s Hj Fj Q. destruct (IN j s Hj Fj Q) as [E|[]]. split; [|exact E].
      unfold in_zone. change (currency_of (j_countries J) (country s)) with (cur_of_sec J s). rewrite <- E. apply String.eqb_refl.
  - (* several foreign zones *)
    apply (GR (fun s => negb (inh s)) (sec_currency J Z)).
    + intros s s' A. unfold inh. now rewrite (inh_attr J hcur s s' A).
    + intros s Q. fold inh in Q. now rewrite Q.
    + intros j s Hj Fj Q. fold inh in Q. rewrite Q. split; [reflexivity|]. unfold sec_currency. now rewrite Fj.
Qed.

Theorem foreign_plan_sim f J J' Z Z' i self self' (rd : sector -> list string) :
  (forall a b, f a = f b -> a = b) -> isim2 f J J' -> uniq_ok Z -> zsim f rd Z Z' ->
  find_sec i Z = Some self -> find_sec (f i) Z' = Some self' -> sim f (rd self) self self' ->
  (forall s n, inzone J (cur_of_sec J self) s = true ->
     List.In n (reads2 (to_old J) (filter (inzone J (cur_of_sec J self)) Z) (i, CMarket) s) -> List.In n (rd s)) ->
  (forall s n, List.In n (fx_reads J s) -> List.In n (rd s)) ->
  plans_sim f rd Z (foreign_plan J Z i self) (foreign_plan J' Z' (f i) self').
Proof. exact (ForeignSim.foreign_plan_sim f J J' Z Z' i self self' rd). Qed.

Print Assumptions foreign_reform.
Print Assumptions foreign_plan_sim.
