(** The order-invariance theorems for [build2] with every class-specific fact discharged. *)
From Coq Require Import List String Bool ZArith Arith.
From SFC.Base Require Import Res Str.
From SFC.Gen Require Import Fx Zone.
From SFC.GenMarket Require Import Market.
From SFC.GenMain2 Require Import Program Classes Main Program2 Main2 Conflict Conflict2.
From SFC.GenOrder Require Import Ops Plan ReformDefs Static2 Sim Equiv SysEquiv.
From SFC.GenOrder2 Require Import Perm2 CRel2 Plan2 ForeignDefs Side2 Reform2 Sim2 Reform2All Foreign Flow2 Constr2 Order2 Thm2.
Import ListNotations.

Definition final2_rows := order2_invariant_rows foreign_reform foreign_plan_sim.
Definition final2_sys := order2_invariant_sys foreign_reform foreign_plan_sim.
Definition final2_errors := order2_invariant_errors foreign_reform foreign_plan_sim.
Definition final2_iff := order2_invariant_iff foreign_reform foreign_plan_sim.

(** every _GenerateEquations model of the multi-currency pipeline is "a few facts about the zone, then
    primitive operations sector by sector" *)
Definition final2_reform := reform2_all foreign_reform.
Definition final2_plan_sim := plan_sim2_all foreign_plan_sim.
