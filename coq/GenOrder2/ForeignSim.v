(** [foreign_plan_sim]: the plan of a market with suppliers in other currency zones (ForeignDefs.v)
    depends on the zone only through attributes and through the presence of the variables the call
    reads (the domestic market's reads inside the market's zone, the FX sector's NET equations); it
    is insensitive to the order of the zone and to an injective renaming of creation indices, up to
    the order of the summands of the demand equation.  The foreign analogue of
    [SimMarket.plan_sim_market]. *)
From Coq Require Import List String Bool ZArith Arith Lia Permutation.
From SFC.Base Require Import Res Str.
From SFC.Gen Require Import Fx Zone.
From SFC.GenMarket Require Import Market.
From SFC.GenTax Require Import Tax Dividends.
From SFC.GenMain2 Require Import Program Classes Main Program2 Main2 Conflict Conflict2.
From SFC.GenOrder Require Import Ops Plan ReformDefs Static Equiv Perm CRel OpsProofs Sim Static2 SimMarket SimTax SimAll.
From SFC.GenOrder2 Require Import Perm2 CRel2 ForeignDefs Plan2 Part Side2 Sim2.
Import ListNotations.
Local Open Scope string_scope.
Local Open Scope list_scope.

(* ------------------------------------------------------------------ *)
(** * Generic *)

Lemma fsm_find_filter (p : sector -> bool) Z i s :
  find_sec i Z = Some s -> p s = true -> find_sec i (filter p Z) = Some s.
Proof.
  unfold find_sec. induction Z as [|a l IH]; cbn [find filter]; [discriminate|].
  destruct (Nat.eqb (sid a) i) eqn:E.
  - intros H P. injection H as ->. rewrite P. cbn [find]. now rewrite E.
  - intros H P. destruct (p a); cbn [find]; [rewrite E|]; now apply IH.
Qed.

Lemma fsm_forallb_ext_in {A} (p q : A -> bool) l :
  (forall x, List.In x l -> p x = q x) -> forallb p l = forallb q l.
Proof.
  induction l as [|a l IH]; intros H; cbn [forallb]; [reflexivity|].
  rewrite (H a (or_introl eq_refl)), IH; [reflexivity|]. intros x Hx. apply H. now right.
Qed.

Lemma fsm_F2_forallb {A B} (R : A -> B -> Prop) p p' l l' :
  Forall2 R l l' -> (forall a b, R a b -> p a = p' b) -> forallb p l = forallb p' l'.
Proof.
  intros H E. induction H as [|a b l l' Hab H IH]; cbn [forallb]; [reflexivity|].
  now rewrite (E _ _ Hab), IH.
Qed.

Lemma fsm_eqb_fix f : (forall a b : nat, f a = f b -> a = b) ->
  forall a b, f b = b -> Nat.eqb (f a) b = Nat.eqb a b.
Proof.
  intros Hinj a b E. transitivity (Nat.eqb (f a) (f b)); [now rewrite E|now apply smk_eqb_inj].
Qed.

(* ------------------------------------------------------------------ *)
(** * Resolved suppliers with their currency tag *)

Definition fs_rel (f : nat -> nat) (x x' : fsup) : Prop :=
  fs_id x' = f (fs_id x) /\ same_attrs_nosid (fs_sec x) (fs_sec x') /\ fs_eqn x' = fs_eqn x /\ fs_cur x' = fs_cur x.

Lemma fsm_tag_sim f J J' hcur x x' : isim2 f J J' ->
  smk_sup_rel f x x' -> fs_rel f (tag_sup J hcur x) (tag_sup J' hcur x').
Proof.
  intros HI (Ei & Ax & Ee). unfold fs_rel, tag_sup, fs_id, fs_sec, fs_eqn, fs_cur. cbn [fst snd].
  repeat split; try assumption; try apply Ax.
  unfold cur_of_sec. rewrite (is_countries _ _ _ HI).
  destruct Ax as (_ & Ec & _). now rewrite Ec.
Qed.

(* ------------------------------------------------------------------ *)
(** * The operations *)

Section Lops.
  Variables (f : nat -> nat) (rd : sector -> list string).
  Hypothesis Hinj : forall a b : nat, f a = f b -> a = b.
  Variables (mk mk' : sector) (hcur : string) (inh : sector -> bool) (fulls fulls' : list string).
  Hypothesis Smk : sim f (rd mk) mk mk'.
  Hypothesis Hinh : forall s s', sim f (rd s) s s' -> inh s' = inh s.
  Hypothesis Hdem : forall s, inh s = true -> sid s <> sid mk -> List.In (Market.dem_name mk s) (rd s).
  Hypothesis Hfulls : Permutation fulls fulls'.
  Variable e : ext_ids.
  Hypothesis Ffx : f (e_fx e) = e_fx e.
  Hypothesis Fxr : f (e_xr e) = e_xr e.

  Let Amk : same_attrs_nosid mk mk' := sim_attrs _ _ _ _ Smk.

  Lemma fsm_fx_ops x x' : fs_rel f x x' -> fx_ops mk' hcur x' = fx_ops mk hcur x.
  Proof.
    intros (_ & Ax & _ & Ec). unfold fx_ops. rewrite Ec.
    destruct (fs_cur x) as [c|]; [|reflexivity].
    now rewrite (smk_full_name _ _ Amk), (smk_alloc_name _ _ Ax).
  Qed.

  Lemma fsm_lops_sim acurs sups sups' : Forall2 (fs_rel f) sups sups' ->
    forall s s', sim f (rd s) s s' ->
    Forall2 pop_eqv (foreign_lops e mk hcur inh fulls sups acurs s) (foreign_lops e mk' hcur inh fulls' sups' acurs s').
  Proof.
    intros HS s s' S. unfold foreign_lops.
    rewrite (smk_sid_test f rd Hinj mk mk' Smk s s' S).
    pose proof (sim_attrs _ _ _ _ S) as As.
    destruct (Nat.eqb_spec (sid s) (sid mk)) as [E|Hn].
    - rewrite (smk_dem_short _ _ Amk), (smk_sup_short _ _ Amk).
      apply Forall2_app.
      + constructor; [apply pop_eqv_refl|]. constructor; [|constructor; [apply pop_eqv_refl|constructor]].
        split; [reflexivity|]. split; [reflexivity|]. cbn [terms terms_eqn].
        apply Permutation_map, Hfulls.
      + apply (smk_F2_map _ _ _ _ _ _ HS). intros x x' (_ & Ax & Ex & _).
        rewrite Ex, (smk_alloc_name _ _ Ax). split; [reflexivity|apply eqn_eqv_refl].
    - rewrite (Hinh _ _ S).
      rewrite (smk_dem_name _ _ _ _ Amk As).
      assert (E1 : (if inh s then
                      if has_var s' (Market.dem_name mk s)
                      then cash s' ((-1)%Z, [Market.dem_name mk s]) true ++ [PDefFresh (Market.dem_name mk s) (terms_eqn [])]
                      else []
                    else []) =
                   (if inh s then
                      if has_var s (Market.dem_name mk s)
                      then cash s ((-1)%Z, [Market.dem_name mk s]) true ++ [PDefFresh (Market.dem_name mk s) (terms_eqn [])]
                      else []
                    else [])).
      { destruct (inh s) eqn:Q; [|reflexivity].
        rewrite (sim_reads _ _ _ _ S (Market.dem_name mk s)) by (apply Hdem; [exact Q|exact Hn]).
        now rewrite (smk_cash _ _ As). }
      cbv zeta. rewrite E1. clear E1.
      rewrite (smk_F2_flat_map_eq _
                 (fun x => if Nat.eqb (fs_id x) (sid s) then
                             match fs_cur x with
                             | None => supply_ops mk s (fs_sec x)
                             | Some c => foreign_supply_ops mk s (credited hcur c (full_name mk (alloc_name (fs_sec x))))
                             end
                           else [])
                 (fun x => if Nat.eqb (fs_id x) (sid s') then
                             match fs_cur x with
                             | None => supply_ops mk' s' (fs_sec x)
                             | Some c => foreign_supply_ops mk' s' (credited hcur c (full_name mk' (alloc_name (fs_sec x))))
                             end
                           else [])
                 _ _ HS).
      2:{ intros x x' (Ei & Ax & _ & Ec). rewrite Ei, Ec, (sim_sid _ _ _ _ S), (smk_eqb_inj f Hinj).
          destruct (Nat.eqb (fs_id x) (sid s)); [|reflexivity].
          destruct (fs_cur x) as [c|].
          - unfold foreign_supply_ops. cbv zeta.
            now rewrite (smk_supply_name _ _ _ _ Amk As), (smk_full_name _ _ Amk), (smk_alloc_name _ _ Ax), (smk_cash _ _ As).
          - unfold supply_ops. cbv zeta.
            now rewrite (smk_supply_name _ _ _ _ Amk As), (smk_full_name _ _ Amk), (smk_alloc_name _ _ Ax), (smk_cash _ _ As). }
      rewrite (sim_sid _ _ _ _ S), (fsm_eqb_fix f Hinj _ _ Ffx), (fsm_eqb_fix f Hinj _ _ Fxr).
      rewrite (smk_F2_flat_map_eq _ (fx_ops mk hcur) (fx_ops mk' hcur) _ _ HS)
        by (intros x x' Hx; symmetry; now apply fsm_fx_ops).
      apply ops_eqv_refl.
  Qed.

  Lemma fsm_guard_sim J J' Z Z' i fx fx' sups sups' acurs :
    isim2 f J J' -> sim f (rd fx) fx fx' ->
    (forall c, List.In c (zones_of (j_countries J)) -> List.In ("NET_" ++ c)%string (rd fx)) ->
    Forall2 (fs_rel f) sups sups' ->
    foreign_guard J' Z' e (f i) hcur fx' sups' acurs = foreign_guard J Z e i hcur fx sups acurs.
  Proof.
    intros HI Sfx Hnet HS. unfold foreign_guard. rewrite (is_countries _ _ _ HI). cbv zeta.
    rewrite (fsm_eqb_fix f Hinj _ _ Ffx), (fsm_eqb_fix f Hinj _ _ Fxr).
    assert (E1 : in_zone (j_countries J) hcur fx' = in_zone (j_countries J) hcur fx).
    { unfold in_zone. now rewrite (sim_country f _ _ _ Sfx). }
    rewrite E1. clear E1.
    rewrite (fsm_forallb_ext_in (fun c => has_var fx' ("NET_" ++ c)%string) (fun c => has_var fx ("NET_" ++ c)%string)).
    2:{ intros c Hc. apply (sim_reads _ _ _ _ Sfx). now apply Hnet. }
    rewrite (fsm_F2_forallb _ (fun x => negb (Nat.eqb (fs_id x) i) && negb (Nat.eqb (fs_id x) (e_fx e)))
               (fun x => negb (Nat.eqb (fs_id x) (f i)) && negb (Nat.eqb (fs_id x) (e_fx e))) _ _ HS).
    - reflexivity.
    - intros x x' (Ei & _). now rewrite Ei, (smk_eqb_inj f Hinj), (fsm_eqb_fix f Hinj _ _ Ffx).
  Qed.
End Lops.

(* ------------------------------------------------------------------ *)
(** * The plan *)

Theorem foreign_plan_sim f J J' Z Z' i self self' (rd : sector -> list string) :
  (forall a b, f a = f b -> a = b) -> isim2 f J J' -> uniq_ok Z -> zsim f rd Z Z' ->
  find_sec i Z = Some self -> find_sec (f i) Z' = Some self' -> sim f (rd self) self self' ->
  (forall s n, inzone J (cur_of_sec J self) s = true ->
     List.In n (reads2 (to_old J) (filter (inzone J (cur_of_sec J self)) Z) (i, CMarket) s) -> List.In n (rd s)) ->
  (forall s n, List.In n (fx_reads J s) -> List.In n (rd s)) ->
  plans_sim f rd Z (foreign_plan J Z i self) (foreign_plan J' Z' (f i) self').
Proof.
  intros Hinj HI HU HZ Fi Fi' Ss Hrd Hfx.
  pose proof (smk_find_sec_zsim f rd Z Z' Hinj (proj1 HU) HZ) as HFS.
  unfold foreign_plan. cbv zeta.
  rewrite (cur_sim f J J' HI _ _ _ Ss).
  rewrite (is_countries _ _ _ HI), (is_ext _ _ _ HI), (is_sup _ _ _ HI i).
  unfold inzone in Hrd.
  set (hcur := cur_of_sec J self) in *.
  set (inh := in_zone (j_countries J) hcur) in *.
  destruct (sup_of i (j_sup J)) as [res others] eqn:Esup. unfold rn_supinfo. cbn [fst snd].
  (* supplier currencies *)
  assert (Eids : map fst (map (fun y : nat * string => (f (fst y), snd y)) others) ++
                 match option_map f res with Some r => [r] | None => [] end =
                 map f (map fst others ++ match res with Some r => [r] | None => [] end)).
  { rewrite map_app, !map_map. cbn [fst]. f_equal. now destruct res. }
  rewrite Eids, (supplier_currencies_sim f J J' Hinj HI rd Z Z' hcur _ (proj1 HU) HZ). clear Eids.
  set (acurs := supplier_currencies J Z hcur _).
  (* the market's zone *)
  assert (Imk : sid self = i) by (eapply find_sec_sid'; exact Fi).
  assert (Pself : inh self = true) by (unfold inh, in_zone, hcur, cur_of_sec; apply String.eqb_refl).
  assert (Ff : find_sec i (filter inh Z) = Some self) by (now apply fsm_find_filter).
  set (rd0 := reads (to_old J) (filter inh Z) (i, CMarket)).
  assert (Hrd0 : forall s n, inh s = true -> List.In n (rd0 s) -> List.In n (rd s)).
  { intros s n Q Hn. apply Hrd; [exact Q|]. unfold reads2. apply in_or_app. now left. }
  assert (Hrd1 : forall s, sid s <> i -> List.In (Market.dem_name self s) (rd0 s)).
  { intros s Hn. unfold rd0. rewrite (smk_reads_market (to_old J) _ i self s Ff Hn). now left. }
  assert (Hrd2 : forall s, sid s <> i -> res = None -> share_parent self s = true -> List.In (sup_short self) (rd0 s)).
  { intros s Hn Hres Hsp. unfold rd0. rewrite (smk_reads_market (to_old J) _ i self s Ff Hn).
    change (i_sup (to_old J)) with (j_sup J). rewrite Esup. cbn [fst]. rewrite Hres, Hsp. right. now left. }
  assert (Ss0 : sim f (rd0 self) self self').
  { eapply sim_mono; [|exact Ss]. intros n Hn. now apply Hrd0. }
  assert (HZf : zsim f rd0 (filter inh Z) (filter inh Z')).
  { pose proof (zsim_filter f J J' HI rd rd0 hcur Z Z' Hrd0 HZ) as Q.
    unfold inzone in Q. now rewrite (is_countries _ _ _ HI) in Q. }
  destruct HZf as (Zf'' & HPf & HFf).
  pose proof (smk_fulls_perm f rd0 _ _ Zf'' Hinj HPf HFf i self self' Imk Ss0 Hrd1) as Hfulls.
  pose proof (sim_attrs _ _ _ _ Ss) as Amk.
  apply smk_plans_rel.
  eapply smk_bind_rel; [exact (smk_residual_sim f rd0 _ _ Zf'' Hinj HPf HFf i self self' res Imk Ss0 Hrd2)|].
  intros r r' ->. cbv beta.
  pose proof (smk_resolve_sim f _ Z Z' HFS (map (fun o => (fst o, blob_eqn (snd o))) others)) as HO.
  rewrite map_map in HO |- *. cbn [fst snd] in HO |- *.
  eapply smk_bind_rel; [exact HO|]. clear HO.
  intros osecs osecs' HO. cbv beta.
  assert (Efc : map (fun x => fullcode (snd (fst x))) osecs' = map (fun x => fullcode (snd (fst x))) osecs).
  { symmetry. apply (smk_F2_map_eq _ _ _ _ _ HO). intros x x' (_ & (_ & _ & Ef & _) & _). now rewrite Ef. }
  rewrite Efc, (smk_residual_terms _ _ Amk).
  eapply smk_bind_rel;
    [exact (smk_resolve_sim f _ Z Z' HFS
              [(r, terms_eqn (residual_terms self (map (fun x => fullcode (snd (fst x))) osecs)))])|].
  intros rsec rsec' HRs. cbv beta.
  assert (HS : Forall2 (fs_rel f) (map (tag_sup J hcur) (osecs ++ rsec)) (map (tag_sup J' hcur) (osecs' ++ rsec'))).
  { apply (smk_F2_map (smk_sup_rel f)); [apply Forall2_app; assumption|].
    intros x x' Hx. now apply fsm_tag_sim. }
  set (sups := map (tag_sup J hcur) (osecs ++ rsec)) in *.
  set (sups' := map (tag_sup J' hcur) (osecs' ++ rsec')) in *.
  destruct (j_ext J) as [e|] eqn:Eext; [|exact Logic.I].
  destruct (is_ext_fix _ _ _ HI e Eext) as (Fxr & Ffx & _).
  pose proof (HFS (e_fx e)) as Hfxs. rewrite Ffx in Hfxs.
  pose proof (HFS (e_xr e)) as Hxrs. rewrite Fxr in Hxrs.
  destruct (find_sec (e_fx e) Z) as [fx|] eqn:Efx; destruct (find_sec (e_fx e) Z') as [fx'|]; try contradiction;
    [|exact Logic.I].
  destruct (find_sec (e_xr e) Z) as [xr|]; destruct (find_sec (e_xr e) Z') as [xr'|]; try contradiction;
    [|exact Logic.I].
  assert (Hinh : forall s s', sim f (rd s) s s' -> inh s' = inh s).
  { intros s s' S. unfold inh, in_zone. now rewrite (sim_country f _ _ _ S). }
  assert (Hnet : forall c, List.In c (zones_of (j_countries J)) -> List.In ("NET_" ++ c)%string (rd fx)).
  { intros c Hc. apply Hfx. unfold fx_reads. rewrite Eext.
    rewrite (find_sec_sid' _ _ _ Efx), Nat.eqb_refl.
    apply (in_map (fun c => ("NET_" ++ c)%string)), Hc. }
  rewrite (fsm_guard_sim f rd Hinj hcur e Ffx Fxr J J' Z Z' i fx fx' sups sups' acurs HI Hfxs Hnet HS).
  destruct (foreign_guard J Z e i hcur fx sups acurs); [|exact Logic.I].
  cbn [smk_res_rel]. intros s s' _ S.
  apply (fsm_lops_sim f rd Hinj self self' hcur inh _ _ Ss Hinh); try assumption.
  intros s0 Q Hn. apply Hrd0; [exact Q|]. apply Hrd1. congruence.
Qed.

Print Assumptions foreign_plan_sim.
