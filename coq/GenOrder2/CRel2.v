(** The relation between the construction states ([Main2.kstate]) of a multi-currency program and
    of an admissible re-ordering of it: the same objects created in another order, hence with other
    creation indices ([f] maps old indices to new ones); the countries, the default currency and the
    external sector are the same (a re-ordering never moves a declaration across the ExternalSector
    step, so the three sectors of EXT keep their indices). *)
From Coq Require Import List String Bool ZArith Arith Lia.
From SFC.Base Require Import Res Str.
From SFC.Gen Require Import Fx Zone.
From SFC.GenMarket Require Import Market.
From SFC.GenMain2 Require Import Program Classes Main Program2 Main2.
From SFC.GenOrder Require Import Perm CRel ConstrInv.
From SFC.GenOrder2 Require Import Perm2.
Import ListNotations.
Local Open Scope string_scope.
Local Open Scope list_scope.

Record kstate_rel (f : nat -> nat) (st st' : kstate) : Prop := mkKRel {
  kr_countries : k_countries st' = k_countries st;
  kr_default : k_default st' = k_default st;
  kr_ext : k_ext st' = k_ext st;
  kr_ext_fix : forall e, k_ext st = Some e -> f (e_xr e) = e_xr e /\ f (e_fx e) = e_fx e /\ f (e_gold e) = e_gold e;
  kr_len : List.length (k_secs st') = List.length (k_secs st);
  kr_clen : List.length (k_classes st) = List.length (k_secs st);
  kr_clen' : List.length (k_classes st') = List.length (k_secs st);
  kr_sids : map sid (k_secs st) = seq 0 (List.length (k_secs st));
  kr_sids' : map sid (k_secs st') = seq 0 (List.length (k_secs st));
  kr_range : forall i, i < List.length (k_secs st) -> f i < List.length (k_secs st);
  kr_inj : forall i j, i < List.length (k_secs st) -> j < List.length (k_secs st) -> f i = f j -> i = j;
  kr_fix : forall i, List.length (k_secs st) <= i -> f i = i;
  kr_secs : forall i s, nth_error (k_secs st) i = Some s -> nth_error (k_secs st') (f i) = Some (rn_sec f s);
  kr_classes : forall i k, nth_error (k_classes st) i = Some k -> nth_error (k_classes st') (f i) = Some (rn_cls2 f k);
  kr_sup : k_sup st' = map (rn_sup f) (k_sup st);
  kr_flows : k_flows st' = map (rn_flow f) (k_flows st);
  kr_exo : k_exo st' = map (rn_trip f) (k_exo st);
  kr_ic : k_ic st' = map (rn_trip f) (k_ic st)
}.

(* ------------------------------------------------------------------ *)
(** * Programs without forward treasury references *)

Definition tre_ok2 (n : nat) (k : cls2) : bool :=
  match k with
  | COld c => tre_ok n c
  | CGoldCB (Some t) _ => Nat.ltb t n
  | _ => true
  end.

(** [n] = number of sectors created before [p] *)
Fixpoint closed_from2 (n : nat) (p : program2) : bool :=
  match p with
  | [] => true
  | S2Sector _ _ k :: r => tre_ok2 n k && closed_from2 (S n) r
  | S2External :: r => closed_from2 (3 + n) r
  | _ :: r => closed_from2 n r
  end.

(** every  CentralBank(..., treasury=t)  names a sector created before the bank (the model accepts a
    forward reference, the Python cannot express one) *)
Definition closed_refs2 (p : program2) : bool := closed_from2 0 p.
