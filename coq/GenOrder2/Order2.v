(** The theorem for multi-currency programs: an admissible re-ordering of the sector declarations of
    a [program2] yields a system with the same rows up to the order of rows and of summands, and the
    same initial conditions. *)
From Coq Require Import List String Bool ZArith Arith Lia Permutation.
From SFC.Base Require Import Res Str Sorting.
From SFC.Gen Require Import Fx Zone.
From SFC.GenMarket Require Import Market MarketProofs.
From SFC.GenMain2 Require Import Program Classes Main MainProofs Names Program2 Main2 MainProofs2 Names2 Conflict Conflict2.
From SFC.GenOrder Require Import Ops Plan Check ReformDefs Static Equiv Perm CRel OpsProofs OpsComm Sim Static2 SimAll GenBase
     Gen ConstrBase ConstrInv ConstrStep ZoneRel Post KindDefs Kind SysEquiv OrderBase ReformMarketLib.
From SFC.GenOrder2 Require Import Perm2 CRel2 Enc Blocks2 Plan2 ForeignDefs Part Side2 Reform2 Sim2 Gold2 Reform2All GenSim2 Swap2
     ConstrInv2 ConstrStep2 Constr2 ZoneRel2 Post2.
Import ListNotations.
Local Open Scope string_scope.
Local Open Scope list_scope.

Lemma main_run2_unfold st :
  main_run2 st =
  (let Z0 := kzone0 st in
   let J := kinfo st in
   do g <- run_trace (gen_step2 J) (gen_list2 st) (mkG2 Z0 (k_flows st) (k_ic st)) ;;
   do f <- run_trace (flow_step2 J) (h_flows (snd g)) (h_zone (snd g)) ;;
   do x <- run_trace exo_step (k_exo st) (snd f) ;;
   let Zf := snd x in
   do ics <- ic_rows Zf (h_ic (snd g)) ;;
   let rows := zone_rows Zf in
   match rows, ics with
   | [], [] => Err Warning_
   | _, _ => Ok (mkRun2 J Z0 (fst g) (fst f) (fst x) (mkFS Zf rows ics))
   end).
Proof. reflexivity. Qed.

Lemma rn_cls2_id k : rn_cls2 (fun i => i) k = k.
Proof. destruct k as [c|s|t s| | |]; cbn [rn_cls2]; try reflexivity; [now rewrite rn_cls_id|now rewrite option_map_id]. Qed.

Lemma rn_ik2_id L : map (rn_ik2 (fun i => i)) L = L.
Proof. induction L as [|[i k] L IH]; [reflexivity|]. cbn [map]. unfold rn_ik2 at 1. cbn [fst snd]. now rewrite rn_cls2_id, IH. Qed.

Lemma isim2_id J : (forall e, j_ext J = Some e -> True) -> isim2 (fun i => i) J J.
Proof.
  intros _. constructor; try reflexivity.
  - intros i. now rewrite rn_cls2_id.
  - intros m. unfold rn_supinfo. destruct (sup_of m (j_sup J)) as [r o]. cbn [fst snd].
    rewrite option_map_id. f_equal. rewrite <- (map_id o) at 1. apply map_ext. now intros [a b].
  - intros e _. repeat split.
Qed.

Lemma flat_new_flows2_perm L L'' : Permutation L L'' -> Permutation (flat_map new_flows2 L) (flat_map new_flows2 L'').
Proof.
  intros P. induction P as [|x l l' P IH|x y l|l1 l2 l3 P1 IH1 P2 IH2]; cbn [flat_map].
  - constructor.
  - now apply Permutation_app_head.
  - rewrite !app_assoc. apply Permutation_app_tail. apply Permutation_app_comm.
  - eapply Permutation_trans; eassumption.
Qed.

(** calls of the same country are exchanged; at most one of two such calls has initial conditions *)
Lemma flat_new_ic2_cswap (R : nat * cls2 -> nat * cls2 -> Prop) L L'' : cswap R L L'' ->
  (forall a b, R a b -> new_ic2 a = [] \/ new_ic2 b = []) -> flat_map new_ic2 L'' = flat_map new_ic2 L.
Proof.
  intros C H. induction C as [l|X a b Y l' HR _ IH]; [reflexivity|]. rewrite IH.
  rewrite !flat_map_app. cbn [flat_map]. f_equal. destruct (H a b HR) as [E|E]; rewrite E; cbn [app]; now rewrite ?app_nil_r.
Qed.

Lemma find_sec_self_nd Z s : NoDup (map sid Z) -> List.In s Z -> find_sec (sid s) Z = Some s.
Proof.
  intros ND Hin. unfold find_sec. induction Z as [|x r IH]; [contradiction|]. cbn [find]. cbn [map] in ND. inversion ND as [|? ? Hn ND']; subst.
  destruct Hin as [->|Hin]; [now rewrite Nat.eqb_refl|].
  destruct (Nat.eqb_spec (sid x) (sid s)) as [E|N]; [|now apply IH].
  exfalso. apply Hn. rewrite E. now apply in_map.
Qed.

(** [local_flow] only looks at attributes *)
Lemma local_flow_zrel J Z0 T G x : NoDup (map sid Z0) -> Forall2 attrs_eq Z0 T -> zrel (fun i => i) T G ->
  local_flow J G x = local_flow J Z0 x.
Proof.
  intros ND HA HZ. destruct x as [[[[src tgt] var] a] b]. unfold local_flow. destruct tgt as [tg|]; [|reflexivity].
  assert (NDT : NoDup (map sid T)) by (rewrite (zattrs_sids _ _ HA); exact ND).
  assert (K : forall j, match find_sec j Z0, find_sec j G with
                        | Some s, Some d => country d = country s
                        | None, None => True
                        | _, _ => False
                        end).
  { intros j. pose proof (zattrs_find j _ _ HA) as F1. pose proof (zrel_find (fun i => i) T G j (fun a0 b0 H => H) NDT HZ) as F2.
    destruct (find_sec j Z0) as [s|], (find_sec j T) as [t|], (find_sec j G) as [d|]; try contradiction; try exact Logic.I.
    destruct (srel_attrs _ _ _ F2) as (_ & C & _). now rewrite C, (attrs_country _ _ F1). }
  pose proof (K src) as K1. pose proof (K tg) as K2.
  destruct (find_sec src Z0) as [s|], (find_sec src G) as [s'|]; try contradiction; [|reflexivity].
  destruct (find_sec tg Z0) as [t|], (find_sec tg G) as [t'|]; try contradiction; [|reflexivity].
  unfold cur_of_sec. now rewrite K1, K2.
Qed.

Section Main.
Hypothesis foreign_reform : forall J Z i self, NoDup (map sid Z) -> find_sec i Z = Some self ->
  supplier_currencies J Z (cur_of_sec J self) (supplier_ids J i) <> [] ->
  foreign_plan J Z i self <> Err OutOfFuel ->
  zres_ext (market_step J i self Z) (do g <- foreign_plan J Z i self ;; apply_lops g Z).
Hypothesis foreign_plan_sim : forall f J J' Z Z' i self self' (rd : sector -> list string),
  (forall a b, f a = f b -> a = b) -> isim2 f J J' -> uniq_ok Z -> zsim f rd Z Z' ->
  find_sec i Z = Some self -> find_sec (f i) Z' = Some self' -> sim f (rd self) self self' ->
  (forall s n, inzone J (cur_of_sec J self) s = true ->
     List.In n (reads2 (to_old J) (filter (inzone J (cur_of_sec J self)) Z) (i, CMarket) s) -> List.In n (rd s)) ->
  (forall s n, List.In n (fx_reads J s) -> List.In n (rd s)) ->
  plans_sim f rd Z (foreign_plan J Z i self) (foreign_plan J' Z' (f i) self').
Hypothesis flow_reform2 : forall J Z x, NoDup (map sid Z) -> flow_plan2 J Z x <> Err OutOfFuel ->
  rsim (flow_step2 J Z x) (do g <- flow_plan2 J Z x ;; apply_lops g Z).
Hypothesis flow_plan2_attr : forall J Z x g, flow_plan2 J Z x = Ok g -> attr_fun g.

Let reform2 := reform2_all foreign_reform.
Let plan_sim2 := plan_sim2_all foreign_plan_sim.

Theorem main2_order_invariant p p' E :
  admissible_perm2 p p' -> order_ok2 p = true -> build2 p = Ok E ->
  exists E', build2 p' = Ok E' /\ rows_perm_equiv E E' /\ fs_ic E' = fs_ic E.
Proof.
  intros AP OK HB.
  apply build2_inv in HB as (Rn & HR & ->). apply build_run2_inv in HR as (st & HC & HM).
  unfold order_ok2 in OK. rewrite HC in OK. unfold build2 in OK. unfold build_run2 in OK. rewrite HC in OK. cbn [bind] in OK. rewrite HM in OK. cbn [bind] in OK.
  apply andb_true_iff in OK as [OK TX]. apply andb_true_iff in OK as [CL SO]. apply andb_true_iff in SO as [SO FO].
  pose proof (construct_all2_cinv p st HC) as CI.
  destruct (construct_perm2 p p' AP CL st HC) as (st' & f & HC' & KR).
  set (J := kinfo st) in *. set (Z0 := kzone0 st) in *. set (L := gen_list2 st) in *.
  set (J' := kinfo st'). set (Z0' := kzone0 st').
  pose proof (kzone0_uniq p st CI) as HU. fold Z0 in HU.
  pose proof (static_facts2_of J Z0 L HU (gen_list2_keys st) SO) as SF.
  pose proof (comm_facts2_of J Z0 L SO) as CF.
  destruct (parts2 J Z0 L SO) as (_ & _ & _ & _ & GU & _ & _ & _ & CBL).
  assert (Hf : forall a b, f a = f b -> a = b) by apply (rel2_inj f st st' KR).
  (* the run of p *)
  rewrite main_run2_unfold in HM. cbv zeta in HM. fold J Z0 L in HM.
  destruct (run_trace (gen_step2 J) L (mkG2 Z0 (k_flows st) (k_ic st))) as [[trg G]|] eqn:RG; [|discriminate]. cbn [bind fst snd] in HM.
  destruct (run_trace (flow_step2 J) (h_flows G) (h_zone G)) as [[trf Z1]|] eqn:RF; [|discriminate]. cbn [bind fst snd] in HM.
  destruct (run_trace exo_step (k_exo st) Z1) as [[trx Zf]|] eqn:RX; [|discriminate]. cbn [bind fst snd] in HM.
  destruct (ic_rows Zf (h_ic G)) as [ics|] eqn:RI; [|discriminate]. cbn [bind] in HM.
  apply run_trace_fold in RG. apply run_trace_fold in RF. apply run_trace_fold in RX.
  (* generation: the run of p is the static description *)
  assert (NDL : NoDup (map fst L)) by (apply (sf2_keys _ _ _ SF)).
  pose proof (gen_sim2 reform2 plan_sim2 J Z0 L SF (fun i => i) J (fun a b H => H) (isim2_id J (fun _ _ => Logic.I)) L Z0 (k_flows st) (k_ic st)
                (zrel_id_refl Z0) (fun k H => H) NDL) as GS.
  rewrite rn_ik2_id, RG in GS.
  destruct (zmap (sect2 J Z0 L) Z0) as [T|] eqn:ZT; [|contradiction]. destruct GS as (RT & FT & IT).
  (* the re-ordered list of calls *)
  destruct (gen_list2_rel f st st' p KR CI) as (L'' & EL & CS). fold L Z0 in CS.
  assert (PL : Permutation L L'') by (eapply cswap_perm_of; exact CS).
  assert (HPL : Forall (fun k => List.In k L) L) by (apply Forall_forall; auto).
  destruct (static_swap2 J Z0 L SF CF L L'' T CS HPL ZT) as (T'' & ZT'' & FTT).
  assert (HL'' : forall k, List.In k L'' -> List.In k L) by (intros k Hk; eapply Permutation_in; [apply Permutation_sym; exact PL|exact Hk]).
  assert (NDL'' : NoDup (map fst L'')) by (eapply Permutation_NoDup; [apply Permutation_map; exact PL|exact NDL]).
  pose proof (gen_sim2 reform2 plan_sim2 J Z0 L SF f J' Hf (kinfo_isim2 f st st' KR) L'' Z0' (k_flows st') (k_ic st')
                (kzone0_zrel f st st' p KR CI) HL'' NDL'') as GS'.
  rewrite ZT'' in GS'. rewrite <- EL in GS'.
  destruct (foldM (gen_step2 J') (gen_list2 st') (mkG2 Z0' (k_flows st') (k_ic st'))) as [G'|] eqn:RG'; [|contradiction].
  destruct GS' as (RT' & FT' & IT').
  (* the zones after generation are related *)
  assert (ZG : zrel f (h_zone G) (h_zone G')).
  { destruct RT as (D'' & PD & FD). eapply zrel_perm_l; [apply Permutation_sym; exact PD|].
    eapply zrel_compose_l; [apply F2_srel_sym; exact FD|]. eapply zrel_compose_l; [exact FTT|exact RT']. }
  assert (HAT : Forall2 attrs_eq Z0 T).
  { apply zmap_ok_inv in ZT. eapply Forall2_impl; [|exact ZT]. intros s t E. cbv beta in E. eapply run_ops_attrs; exact E. }
  assert (NDT : NoDup (map sid T)) by (rewrite (zattrs_sids _ _ HAT); exact (proj1 HU)).
  assert (NDG : NoDup (map sid (h_zone G))) by (eapply zrel_nodup; [intros a b H; exact H|exact RT|exact NDT]).
  assert (WG : forall s, List.In s (h_zone G) -> Wf2 s).
  { intros s Hs. destruct RT as (D'' & PD & FD). assert (Hs' : List.In s D'') by (eapply Permutation_in; eassumption).
    destruct (F2_in_r _ _ _ _ FD Hs') as (t & Ht & [_ Et]). eapply Wf2_eqv; [exact Et|].
    apply zmap_ok_inv in ZT. destruct (F2_in_r _ _ _ _ ZT Ht) as (s0 & Hs0 & E0).
    eapply (sect2_wf J Z0 L SF L s0 t (fun k H => H) Hs0 E0). }
  (* registered flows *)
  assert (FLG : h_flows G = k_flows st ++ flat_map new_flows2 L).
  { rewrite FT. f_equal. apply map_id_ext. apply rn_flow_id. }
  assert (PN : Permutation (flat_map new_flows2 L) (flat_map new_flows2 L'')) by now apply flat_new_flows2_perm.
  assert (LOC : forall x, List.In x (flat_map new_flows2 L) -> local_flow J (h_zone G) x = true).
  { intros x Hx. rewrite (local_flow_zrel J Z0 T (h_zone G) x (proj1 HU) HAT RT).
    apply in_flat_map in Hx as (k & Hk & Hx). unfold cb_local_ok in CBL. rewrite forallb_forall in CBL.
    specialize (CBL k Hk). rewrite forallb_forall in CBL. now apply CBL. }
  assert (FOK : forall x, List.In x (h_flows G) -> flow_ok_on J (h_zone G) x = true).
  { unfold flows_ok2 in FO. fold J Z0 L in FO. rewrite RG in FO. rewrite forallb_forall in FO. exact FO. }
  rewrite FLG in RF, FOK.
  destruct (flows_cross2 flow_reform2 flow_plan2_attr f J J' (h_zone G) (h_zone G') (k_flows st) (flat_map new_flows2 L) (flat_map new_flows2 L'') Z1
              Hf (kinfo_isim2 f st st' KR) NDG ZG WG PN LOC) as (Z1' & RF' & ZZ1 & W1 & P1); [| |exact RF|].
  { intros x Hx. specialize (FOK x Hx). unfold flow_ok_on in FOK. destruct (flow_plan2 J (h_zone G) x) as [g|]; [now exists g|discriminate]. }
  { intros x s Hx Hs. specialize (FOK x Hx). unfold flow_ok_on in FOK. unfold block.
    destruct (flow_plan2 J (h_zone G) x) as [g|]; [|constructor]. rewrite forallb_forall in FOK. specialize (FOK s Hs).
    rewrite forallb_forall in FOK. apply Forall_forall. intros o Ho. apply (ok2_b_ok s o). now apply FOK. }
  assert (EF : h_flows G' = map (rn_flow f) (k_flows st ++ flat_map new_flows2 L'')).
  { rewrite FT', map_app. f_equal. exact (kr_flows _ _ _ KR). }
  rewrite <- EF in RF'.
  (* exogenous variables *)
  assert (ND1 : NoDup (map sid Z1)) by (rewrite (zple_sids _ _ P1); exact NDG).
  destruct (exo_cross2 f Z1 Z1' (k_exo st) Zf Hf ND1 ZZ1 W1 RX) as (Zf' & RX' & ZZf & Pf).
  rewrite <- (kr_exo _ _ _ KR) in RX'.
  assert (NDf : NoDup (map sid Zf)).
  { assert (E : map sid Zf = map sid Z1). { clear -Pf. induction Pf as [|a b la lb [A _] _ IH]; [reflexivity|]. cbn [map]. now rewrite IH, (proj1 A). }
    now rewrite E. }
  (* initial conditions *)
  assert (ICE : flat_map new_ic2 L'' = flat_map new_ic2 L).
  { apply (flat_new_ic2_cswap _ L L'' CS). intros a b (Ha & Hb & NE & SC).
    unfold gold_unique_ok in GU. rewrite forallb_forall in GU. specialize (GU a Ha). rewrite forallb_forall in GU. specialize (GU b Hb).
    apply Nat.eqb_neq in NE. rewrite NE in GU. unfold same_country2 in SC. rewrite SC, String.eqb_refl, andb_true_r in GU.
    apply negb_true_iff in GU. apply andb_false_iff in GU. unfold has_ic in GU.
    destruct GU as [GU|GU]; [left|right]; destruct (new_ic2 _); [reflexivity|discriminate|reflexivity|discriminate]. }
  assert (ICG : h_ic G = k_ic st ++ flat_map new_ic2 L).
  { rewrite IT. f_equal. apply map_id_ext. apply rn_trip_id. }
  assert (ICG' : h_ic G' = map (rn_trip f) (h_ic G)).
  { rewrite IT', ICG, ICE, map_app. f_equal. exact (kr_ic _ _ _ KR). }
  pose proof (ic_rows_rn f Zf Zf' (h_ic G) Hf NDf ZZf) as RI'. rewrite <- ICG', RI in RI'.
  pose proof (zone_rows_length_rel f Zf Zf' ZZf) as LR.
  (* assemble the run of p' *)
  destruct (fold_run_trace _ _ _ _ RG') as (trg' & TG'). destruct (fold_run_trace _ _ _ _ RF') as (trf' & TF').
  destruct (fold_run_trace _ _ _ _ RX') as (trx' & TX').
  assert (HM' : exists Rn', main_run2 st' = Ok Rn' /\ fs_zone (q_final Rn') = Zf' /\ fs_ic (q_final Rn') = ics).
  { rewrite main_run2_unfold. cbv zeta. fold J' Z0'. rewrite TG'. cbn [bind fst snd]. rewrite TF'. cbn [bind fst snd].
    rewrite TX'. cbn [bind fst snd]. rewrite RI'. cbn [bind].
    destruct (zone_rows Zf') as [|r' rs'] eqn:ER'.
    - destruct (zone_rows Zf) as [|r rs] eqn:ER; [|cbn in LR; discriminate].
      destruct ics as [|ic ics']; [discriminate HM|]. eexists. split; [reflexivity|]. split; reflexivity.
    - eexists. split; [reflexivity|]. split; reflexivity. }
  destruct HM' as (Rn' & HM' & EZ & EI).
  exists (q_final Rn'). split; [|split].
  - unfold build2, build_run2. rewrite HC'. cbn [bind]. rewrite HM'. reflexivity.
  - assert (ERn : fs_zone (q_final Rn) = Zf /\ fs_ic (q_final Rn) = ics).
    { destruct (zone_rows Zf) as [|r rs]; [destruct ics; [discriminate|]|]; injection HM as <-; split; reflexivity. }
    destruct ERn as [EZ0 EI0]. unfold rows_perm_equiv. rewrite EZ, EZ0.
    destruct ZZf as (D'' & PD & FD). exists D''. split; [exact PD|].
    unfold texts_ok in TX. rewrite EZ0 in TX. rewrite forallb_forall in TX.
    clear -FD TX. induction FD as [|s d Z D R _ IH]; constructor.
    + eapply srel_row_eqv; [exact R|]. apply TX. now left.
    + apply IH. intros x Hx. apply TX. now right.
  - assert (EI0 : fs_ic (q_final Rn) = ics).
    { destruct (zone_rows Zf) as [|r rs]; [destruct ics; [discriminate|]|]; injection HM as <-; reflexivity. }
    now rewrite EI, EI0.
Qed.
End Main.
