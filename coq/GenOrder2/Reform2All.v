(** [gen_step2 = pstep2] for every class ([reform2_all]) and [plan_sim2] for every class
    ([plan_sim2_all]), assembled from Reform2.v / Sim2.v (calls inside the caller's zone), Gold2.v
    (gold standard) and Foreign.v (markets with foreign suppliers; here as section hypotheses,
    discharged in Order2.v). *)
From Coq Require Import List String Bool ZArith Arith Lia Permutation.
From SFC.Base Require Import Res Str.
From SFC.Gen Require Import Fx Zone.
From SFC.GenMarket Require Import Market MarketProofs.
From SFC.GenMain2 Require Import Program Classes Main Program2 Main2 Conflict Conflict2.
From SFC.GenOrder Require Import Ops Plan ReformDefs Static Equiv Perm CRel OpsProofs Sim Static2 SimMarket SimTax SimAll
     ReformMarketLib.
From SFC.GenOrder2 Require Import Perm2 CRel2 Plan2 ForeignDefs Part Side2 Reform2 Sim2 Gold2.
Import ListNotations.
Local Open Scope string_scope.
Local Open Scope list_scope.

Section All.
Hypothesis foreign_reform : forall J Z i self, NoDup (map sid Z) -> find_sec i Z = Some self ->
  supplier_currencies J Z (cur_of_sec J self) (supplier_ids J i) <> [] ->
  foreign_plan J Z i self <> Err OutOfFuel ->
  zres_ext (market_step J i self Z) (do g <- foreign_plan J Z i self ;; apply_lops g Z).

Hypothesis foreign_plan_sim : forall f J J' Z Z' i self self' (rd : sector -> list string),
  (forall a b, f a = f b -> a = b) -> isim2 f J J' -> uniq_ok Z -> zsim f rd Z Z' ->
  find_sec i Z = Some self -> find_sec (f i) Z' = Some self' -> sim f (rd self) self self' ->
  (forall s n, inzone J (cur_of_sec J self) s = true ->
     List.In n (reads2 (to_old J) (filter (inzone J (cur_of_sec J self)) Z) (i, CMarket) s) -> List.In n (rd s)) ->
  (forall s n, List.In n (fx_reads J s) -> List.In n (rd s)) ->
  plans_sim f rd Z (foreign_plan J Z i self) (foreign_plan J' Z' (f i) self').

Lemma gres2_of_zres (r r' : result zone) fl ic : zres_ext r r' ->
  gres_ext2 (do Z <- r ;; Ok (mkG2 Z fl ic)) (do Z <- r' ;; Ok (mkG2 Z (fl ++ []) (ic ++ []))).
Proof.
  intros H. rewrite !app_nil_r. destruct r, r'; simpl in *; try contradiction; [|exact Logic.I].
  split; [exact H|split; reflexivity].
Qed.

Lemma local_plan_fuel J Z i self : find_sec i Z = Some self ->
  local_plan J Z self (i, CMarket) <> Err OutOfFuel ->
  market_plan (to_old J) (filter (inzone J (cur_of_sec J self)) Z) i <> Err OutOfFuel.
Proof.
  intros F H X. apply H. unfold local_plan, plan.
  rewrite (find_sec_filter _ i Z self F (inzone_self J self)). now rewrite X.
Qed.

Theorem reform2_all J st ik : NoDup (map sid (h_zone st)) -> plan2 J (h_zone st) ik <> Err OutOfFuel ->
  gres_ext2 (gen_step2 J st ik) (pstep2 J st ik).
Proof.
  intros ND NF. destruct st as [Z fl ic]. destruct ik as [i k]. cbn [h_zone] in *.
  unfold pstep2. cbn [h_zone h_flows h_ic].
  destruct (find_sec i Z) as [self|] eqn:F.
  2:{ unfold gen_step2, plan2. cbn [h_zone]. rewrite F. exact Logic.I. }
  assert (TRIV : forall fl', gres_ext2 (Ok (mkG2 Z fl' ic))
            (do f <- Ok no_lops ;; do Z' <- apply_lops f Z ;; Ok (mkG2 Z' fl' (ic ++ [])))).
  { intros fl'. cbn [bind]. unfold no_lops. rewrite apply_lops_nil. cbn [bind]. rewrite app_nil_r. apply gs_ext2_refl. }
  destruct k as [c|stock|t stock| | |].
  - (* COld *)
    assert (LOC : local_call J Z i self c -> plan2 J Z (i, COld c) = local_plan J Z self (i, c) ->
                  gres_ext2 (gen_step2 J (mkG2 Z fl ic) (i, COld c))
                    (do f <- plan2 J Z (i, COld c) ;; do Z' <- apply_lops f Z ;;
                     Ok (mkG2 Z' (fl ++ new_flows2 (i, COld c)) (ic ++ new_ic2 (i, COld c))))).
    { intros LC ->. now apply reform2_local. }
    destruct c as [| |t|ai af g l|ai af g l|ai af g|mz wage margin lab out|mz wage lab ms|rate paid_to| |issuer|issuer];
      try (apply LOC; [exact Logic.I|unfold plan2; now rewrite F]).
    + unfold gen_step2, plan2. cbn [h_zone h_flows h_ic new_flows2 new_ic2 snd fst]. rewrite F. rewrite app_nil_r. apply TRIV.
    + unfold gen_step2, plan2. cbn [h_zone h_flows h_ic new_flows2 new_ic2 snd fst]. rewrite F. rewrite app_nil_r. apply TRIV.
    + unfold gen_step2, plan2. cbn [h_zone h_flows h_ic new_flows2 new_ic2 snd fst]. rewrite F. apply TRIV.
    + (* CMarket *)
      assert (P2 : plan2 J Z (i, COld CMarket) = market_plan2 J Z i self) by (unfold plan2; now rewrite F).
      rewrite P2 in NF |- *. unfold market_plan2 in *.
      destruct (supplier_currencies J Z (cur_of_sec J self) (supplier_ids J i)) as [|a r] eqn:SC.
      * destruct (fx_outside J Z (inzone J (cur_of_sec J self))) eqn:FO; [|now contradiction NF].
        pose proof (reform2_local J Z fl ic i self CMarket ND F) as RL. apply RL.
        split; [exact SC|]. split; [exact FO|]. now apply local_plan_fuel.
      * assert (NE : supplier_currencies J Z (cur_of_sec J self) (supplier_ids J i) <> []) by (rewrite SC; discriminate).
        pose proof (foreign_reform J Z i self ND F NE NF) as FR.
        unfold gen_step2. cbn [h_zone h_flows h_ic new_flows2 new_ic2 snd fst]. rewrite F.
        destruct (foreign_plan J Z i self) as [g|] eqn:FP; cbn [bind] in *.
        -- apply (gres2_of_zres _ _ fl ic) in FR. exact FR.
        -- destruct (market_step J i self Z); [contradiction|exact Logic.I].
  - (* CGoldGov *)
    assert (P2 : plan2 J Z (i, CGoldGov stock) = gold_plan J Z i self) by (unfold plan2; now rewrite F).
    rewrite P2 in NF |- *. unfold gen_step2. cbn [h_zone h_flows h_ic new_flows2 new_ic2 snd fst]. rewrite F.
    rewrite app_nil_r. exact (gold_reform J Z fl ic i self stock true ND F NF).
  - (* CGoldCB *)
    assert (P2 : plan2 J Z (i, CGoldCB t stock) = gold_plan J Z i self) by (unfold plan2; now rewrite F).
    rewrite P2 in NF |- *. unfold gen_step2. cbn [h_zone h_flows h_ic new_flows2 new_ic2 snd fst]. rewrite F.
    exact (gold_reform J Z (fl ++ [(i, t, "INTDEP", true, true)]) ic i self stock false ND F NF).
  - unfold gen_step2, plan2. cbn [h_zone h_flows h_ic new_flows2 new_ic2 snd fst]. rewrite F. rewrite app_nil_r. apply TRIV.
  - unfold gen_step2, plan2. cbn [h_zone h_flows h_ic new_flows2 new_ic2 snd fst]. rewrite F. rewrite app_nil_r. apply TRIV.
  - unfold gen_step2, plan2. cbn [h_zone h_flows h_ic new_flows2 new_ic2 snd fst]. rewrite F. rewrite app_nil_r. apply TRIV.
Qed.

(* ------------------------------------------------------------------ *)
(** * plan_sim2 *)

Lemma find_sec_sid2 i Z s : find_sec i Z = Some s -> sid s = i.
Proof. unfold find_sec. intros H. apply find_some in H as [_ H]. now apply Nat.eqb_eq. Qed.

Lemma fx_outside_sim f J J' Z Z' (rd : sector -> list string) cur :
  (forall a b, f a = f b -> a = b) -> isim2 f J J' -> NoDup (map sid Z) -> zsim f rd Z Z' ->
  (forall s n, List.In n (fx_reads J s) -> List.In n (rd s)) ->
  fx_outside J' Z' (inzone J' cur) = fx_outside J Z (inzone J cur).
Proof.
  intros Hinj HI ND HZ Hrd. unfold fx_outside. rewrite (is_ext _ _ _ HI), (is_countries _ _ _ HI).
  destruct (j_ext J) as [e|] eqn:EX; [|reflexivity].
  destruct (is_ext_fix _ _ _ HI e EX) as (_ & Ffx & _).
  pose proof (smk_find_sec_zsim f rd Z Z' Hinj ND HZ (e_fx e)) as FS. rewrite Ffx in FS.
  destruct (find_sec (e_fx e) Z) as [fx|] eqn:F1, (find_sec (e_fx e) Z') as [fx'|]; try contradiction; [|reflexivity].
  rewrite (inzone_sim f J J' HI _ cur fx fx' FS). f_equal.
  assert (G : forall cs, (forall c, List.In c cs -> List.In c (zones_of (j_countries J))) ->
              forallb (fun c => has_var fx' ("NET_" ++ c)) cs = forallb (fun c => has_var fx ("NET_" ++ c)) cs).
  { induction cs as [|c cs IH]; intros Hc; [reflexivity|]. cbn [forallb]. rewrite IH by (intros c' H'; apply Hc; now right). f_equal.
    apply (sim_reads _ _ _ _ FS). apply Hrd. unfold fx_reads. rewrite EX.
    rewrite (find_sec_sid2 _ _ _ F1), Nat.eqb_refl. apply in_map. apply Hc. now left. }
  apply G. auto.
Qed.

Lemma plans_sim_nolops f rd Z : plans_sim f rd Z (Ok no_lops) (Ok no_lops).
Proof. intros s s' _ _. constructor. Qed.

Theorem plan_sim2_all ik f J J' Z Z' :
  (forall a b, f a = f b -> a = b) -> uniq_ok Z -> isim2 f J J' -> zsim f (reads22 J Z ik) Z Z' -> cand_unique2 J Z ik ->
  plans_sim f (reads22 J Z ik) Z (plan2 J Z ik) (plan2 J' Z' (rn_ik2 f ik)).
Proof.
  intros Hinj HU HI HZ HC. destruct ik as [i k]. unfold rn_ik2. cbn [fst snd].
  pose proof (smk_find_sec_zsim f _ Z Z' Hinj (proj1 HU) HZ i) as FS.
  unfold plan2 at 1 2.
  destruct (find_sec i Z) as [self|] eqn:F, (find_sec (f i) Z') as [self'|] eqn:F'; try contradiction; [|exact Logic.I].
  set (rd := reads22 J Z (i, k)) in *.
  assert (RD : forall s, rd s = reads22 J Z (i, k) s) by reflexivity.
  unfold reads22 in RD. rewrite F in RD.
  destruct k as [c|stock|t stock| | |]; cbn [rn_cls2].
  - (* COld *)
    assert (HRD : forall s n, inzone J (cur_of_sec J self) s = true ->
                    List.In n (reads2 (to_old J) (filter (inzone J (cur_of_sec J self)) Z) (i, c) s) -> List.In n (rd s)).
    { intros s n Q Hn. rewrite RD, Q. apply in_or_app. now left. }
    assert (HCU : cand_unique (to_old J) (filter (inzone J (cur_of_sec J self)) Z) (i, c)).
    { unfold cand_unique2, zone_of_call in HC. cbn [fst snd] in HC. now rewrite F in HC. }
    assert (LOC : plans_sim f rd Z (local_plan J Z self (i, c)) (local_plan J' Z' self' (f i, rn_cls f c))).
    { apply (local_plan_sim f J J' Hinj HI Z Z' i c self self' rd HU HZ FS HRD HCU). }
    destruct c as [| |t|ai af g l|ai af g l|ai af g|mz wage margin lab out|mz wage lab ms|rate paid_to| |issuer|issuer];
      cbn [rn_cls] in *; try exact LOC; try apply plans_sim_nolops.
    (* CMarket *)
    unfold market_plan2.
    rewrite (supplier_ids_rn f J J' HI i), (cur_sim f J J' HI _ _ _ FS),
            (supplier_currencies_sim f J J' Hinj HI rd Z Z' _ _ (proj1 HU) HZ).
    assert (HFX : forall s n, List.In n (fx_reads J s) -> List.In n (rd s)).
    { intros s n Hn. rewrite RD. apply in_or_app. right. apply in_or_app. now left. }
    destruct (supplier_currencies J Z (cur_of_sec J self) (supplier_ids J i)) as [|a r] eqn:SC.
    + rewrite (fx_outside_sim f J J' Z Z' rd _ Hinj HI (proj1 HU) HZ HFX).
      destruct (fx_outside J Z (inzone J (cur_of_sec J self))); [exact LOC|exact Logic.I].
    + apply (foreign_plan_sim f J J' Z Z' i self self' rd Hinj HI HU HZ F F' FS HRD HFX).
  - apply (gold_plan_sim f J J' Z Z' i self self' rd Hinj HI HU HZ F F' FS). intros s n Hn. now rewrite RD.
  - apply (gold_plan_sim f J J' Z Z' i self self' rd Hinj HI HU HZ F F' FS). intros s n Hn. now rewrite RD.
  - apply plans_sim_nolops.
  - apply plans_sim_nolops.
  - apply plans_sim_nolops.
Qed.
End All.
