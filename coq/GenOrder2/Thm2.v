(** Corollaries of [Order2.main2_order_invariant] in the form the property file states them; the two
    facts about markets with foreign suppliers are still section hypotheses here (Final2.v). *)
From Coq Require Import List String Bool ZArith Arith.
From SFC.Base Require Import Res Str.
From SFC.Gen Require Import Fx Zone.
From SFC.GenMarket Require Import Market.
From SFC.GenMain2 Require Import Program Classes Main Program2 Main2 Conflict Conflict2.
From SFC.GenOrder Require Import Ops Plan ReformDefs Static2 Sim Equiv SysEquiv.
From SFC.GenOrder2 Require Import Perm2 CRel2 Plan2 ForeignDefs Side2 Sim2 Flow2 Constr2 Order2.
Import ListNotations.

Section Thm2.
Hypothesis foreign_reform : forall J Z i self, NoDup (map sid Z) -> find_sec i Z = Some self ->
  supplier_currencies J Z (cur_of_sec J self) (supplier_ids J i) <> [] ->
  foreign_plan J Z i self <> Err OutOfFuel ->
  zres_ext (market_step J i self Z) (do g <- foreign_plan J Z i self ;; apply_lops g Z).
Hypothesis foreign_plan_sim : forall f J J' Z Z' i self self' (rd : sector -> list string),
  (forall a b, f a = f b -> a = b) -> isim2 f J J' -> uniq_ok Z -> zsim f rd Z Z' ->
  find_sec i Z = Some self -> find_sec (f i) Z' = Some self' -> sim f (rd self) self self' ->
  (forall s n, inzone J (cur_of_sec J self) s = true ->
     List.In n (reads2 (to_old J) (filter (inzone J (cur_of_sec J self)) Z) (i, CMarket) s) -> List.In n (rd s)) ->
  (forall s n, List.In n (fx_reads J s) -> List.In n (rd s)) ->
  plans_sim f rd Z (foreign_plan J Z i self) (foreign_plan J' Z' (f i) self').

Theorem order2_invariant_rows p p' E : admissible_perm2 p p' -> order_ok2 p = true -> build2 p = Ok E ->
  exists E', build2 p' = Ok E' /\ rows_perm_equiv E E' /\ fs_ic E' = fs_ic E.
Proof. exact (main2_order_invariant foreign_reform foreign_plan_sim flow_reform2 flow_plan2_attr p p' E). Qed.

Theorem order2_invariant_sys p p' : admissible_perm2 p p' -> order_ok2 p = true ->
  forall E, build2 p = Ok E -> exists E', build2 p' = Ok E' /\ sys_equiv E E' /\ fs_ic E' = fs_ic E.
Proof.
  intros A O E B. destruct (order2_invariant_rows p p' E A O B) as (E' & B' & R & I).
  exists E'. split; [exact B'|]. split; [now apply rows_perm_equiv_sys|exact I].
Qed.

(** success does not depend on the order (the error CLASS may: when two calls would each fail, the
    first one in declaration order decides) *)
Theorem order2_invariant_errors p p' : admissible_perm2 p p' -> order_ok2 p = true -> order_ok2 p' = true ->
  is_ok (build2 p') = is_ok (build2 p).
Proof.
  intros A O O'. destruct (build2 p) as [E|e] eqn:B.
  - destruct (order2_invariant_rows p p' E A O B) as (E' & -> & _). reflexivity.
  - destruct (build2 p') as [E'|e'] eqn:B'; [|reflexivity].
    destruct (order2_invariant_rows p' p E' (admissible2_sym _ _ A) O' B') as (E0 & B0 & _). congruence.
Qed.

(** both directions at once: when the side condition holds of both orders, either both builds fail
    or both succeed with solution-equivalent systems and the same initial conditions *)
Theorem order2_invariant_iff p p' : admissible_perm2 p p' -> order_ok2 p = true -> order_ok2 p' = true ->
  (forall E, build2 p = Ok E -> exists E', build2 p' = Ok E' /\ sys_equiv E E' /\ fs_ic E' = fs_ic E) /\
  (forall E', build2 p' = Ok E' -> exists E, build2 p = Ok E /\ sys_equiv E E' /\ fs_ic E' = fs_ic E).
Proof.
  intros A O O'. split.
  - exact (order2_invariant_sys p p' A O).
  - intros E' B'. destruct (order2_invariant_sys p' p (admissible2_sym _ _ A) O' E' B') as (E & B & S & I).
    exists E. split; [exact B|]. split; [|now symmetry].
    intros v vp bv. symmetry. apply S.
Qed.
End Thm2.
