(** A market with suppliers in other currency zones, part 2: [market_generate_multi] (and
    [market_generate]) on a world that is a view of one zone, as a sequence of sector-wise passes
    on that zone plus a fold over the resolved suppliers for the ledger and the cross rates. *)
From Coq Require Import List String Bool ZArith Arith Lia.
From SFC.Base Require Import Res Str.
From SFC.Gen Require Import Fx Zone.
From SFC.GenMarket Require Import Market MarketProofs.
From SFC.GenMain2 Require Import Program Classes Main Program2 Main2 Conflict Conflict2.
From SFC.GenOrder Require Import Ops Plan ReformDefs ReformMarketLib ReformMarket.
From SFC.GenOrder2 Require Import ForeignDefs Plan2 Part Reform2 Foreign1.
Import ListNotations.
Local Open Scope string_scope.
Local Open Scope list_scope.

Lemma market_generate_is_multi hcur acur W m res others :
  market_generate hcur acur W m res others = market_generate_multi hcur (fun _ => acur) W m res others.
Proof.
  unfold market_generate, market_generate_multi. destruct (find_sec m (home W)) as [mk|]; [|reflexivity].
  destruct (the_residual (home W) mk res) as [r|]; [|reflexivity]. cbn [bind].
  destruct (generate_demand (home W) m) as [H1|]; [|reflexivity]. cbn [bind].
  unfold generate_supply. cbn [home with_home].
  destruct (find_sec m H1) as [mk1|]; [|reflexivity].
  destruct (upd m _ H1) as [H0|]; [|reflexivity]. cbn [bind].
  unfold with_home. cbn [home abroad fxl crosses].
  destruct (resolve_fullcodes _ _) as [fcs|]; [|reflexivity]. cbn [bind].
  generalize (map (fun o : nat * string => (fst o, mkEqn (snd o) [])) others ++ [(r, mkEqn "" (residual_terms mk1 fcs))]).
  generalize (mkWorld H0 (abroad W) (fxl W) (crosses W)).
  intros W0 l. revert W0. induction l as [|je l IH]; intros W0; [reflexivity|].
  cbn [foldM supply_multi]. destruct (supply_step hcur acur mk1 W0 je) as [W1|]; [apply IH|reflexivity].
Qed.

Section Multi.
Variable J : ginfo2.
Variable hcur : string.
Variable pa : sector -> bool.
Variable cur_of : nat -> string.

Let inh : sector -> bool := in_zone (j_countries J) hcur.

Hypothesis Hpa : attr_fun pa.
Hypothesis Hdisj : forall s, inh s = true -> pa s = false.

Variable Z : zone.
Hypothesis ND : NoDup (map sid Z).

Lemma tstep_mk mk mk1 st x : attrs_eq mk mk1 -> tstep hcur mk1 st x = tstep hcur mk st x.
Proof.
  intros A. unfold tstep.
  assert (EQ : apply_lops (sup_lops mk1 hcur x) (fst (fst st)) = apply_lops (sup_lops mk hcur x) (fst (fst st))).
  { apply apply_lops_ext. intros s _. now apply sup_lops_mk. }
  rewrite EQ. unfold full_name. now rewrite (attrs_fullcode _ _ A).
Qed.

Lemma foldM_ext {A B} (f g : A -> B -> result A) l : (forall a b, f a b = g a b) -> forall a, foldM f l a = foldM g l a.
Proof. intros H. induction l as [|b l IH]; intros a; [reflexivity|]. cbn [foldM]. rewrite H. destruct (g a b); [apply IH|reflexivity]. Qed.

Lemma resolve_fcs_view (Y : zone) L cr (l : list (nat * eqn)) : zattrs Z Y -> covered J hcur pa cur_of Z (map fst l) ->
  rsim (resolve_fullcodes (view J hcur pa (Y, L, cr)) (map fst l))
       (do osecs <- resolve_sups Z l ;; Ok (map (fun x => fullcode (snd (fst x))) osecs)).
Proof.
  intros ZA. pose proof (zattrs_nodup _ _ ZA ND) as NDY.
  induction l as [|[j e] l IH]; intros Hcov; [reflexivity|].
  cbn [map fst resolve_fullcodes resolve_sups]. rewrite (resolve_view J hcur pa Y L cr j NDY).
  assert (Hcov' : covered J hcur pa cur_of Z (map fst l)) by (intros j0 s0 Hin; apply Hcov; now right).
  specialize (IH Hcov').
  pose proof (zattrs_find j _ _ ZA) as X.
  destruct (find_sec j Z) as [s|] eqn:Fj, (find_sec j Y) as [s'|]; try contradiction; [|exact I].
  assert (R : exists b, (if in_zone (j_countries J) hcur s' then Ok (true, s') else if pa s' then Ok (false, s') else Err KeyError) = Ok (b, s')).
  { rewrite (inh_attr J hcur _ _ X). destruct (in_zone (j_countries J) hcur s) eqn:Q; [eauto|].
    rewrite (Hpa _ _ X), (proj1 (Hcov j s (or_introl eq_refl) Fj Q)). eauto. }
  destruct R as [b ->].
  destruct (resolve_fullcodes (view J hcur pa (Y, L, cr)) (map fst l)) as [fl|], (resolve_sups Z l) as [os|]; cbn in IH |- *; try contradiction; [|exact I].
  subst fl. now rewrite (attrs_fullcode _ _ X).
Qed.

Definition dem_lops (self : sector) : sector -> list pop :=
  restrict inh (dem_all self (market_fulls self (filter inh Z))).

Lemma multi_pass i self res others L :
  find_sec i Z = Some self -> inh self = true ->
  (forall r, the_residual (filter inh Z) self res = Ok r -> covered J hcur pa cur_of Z (map fst others ++ [r])) ->
  rsim (market_generate_multi hcur cur_of (view J hcur pa (Z, L, [])) i res others)
       (do r <- the_residual (filter inh Z) self res ;;
        do Y1 <- apply_lops (dem_lops self) Z ;;
        do Y0 <- apply_lops (sup_ops self) Y1 ;;
        do sups <- all_sups Z self r others ;;
        do st <- foldM (tstep hcur self) (map (tag_sup J hcur) sups) (Y0, L, []) ;; Ok (view J hcur pa st)).
Proof.
  intros F Q Hcov. pose proof (find_sec_sid _ _ _ F) as Hi. subst i.
  pose proof (inh_attr J hcur) as Hinh. fold inh in Hinh.
  unfold market_generate_multi. change (home (view J hcur pa (Z, L, []))) with (filter inh Z).
  set (Zh := filter inh Z).
  assert (Fh : find_sec (sid self) Zh = Some self) by (apply find_sec_filter; assumption).
  rewrite Fh.
  destruct (the_residual Zh self res) as [r|] eqn:ER; cbn [bind]; [|exact I].
  specialize (Hcov r ER).
  set (D := dem_all self (market_fulls self Zh)).
  pose proof (generate_demand_pass Zh self (nodup_filter_sid inh Z ND) Fh) as GD. fold D in GD.
  unfold dem_lops. fold Zh. fold D. rewrite apply_lops_part. fold Zh.
  destruct (apply_lops D Zh) as [C|] eqn:EC; cbn [bind].
  2:{ destruct (generate_demand Zh (sid self)); [contradiction|exact I]. }
  destruct (generate_demand Zh (sid self)) as [H1|]; [|contradiction]. cbn in GD. subst H1. cbn [bind].
  set (Y1 := put_back_p inh C Z).
  assert (E1 : apply_lops (restrict inh D) Z = Ok Y1) by (rewrite apply_lops_part; fold Zh; rewrite EC; reflexivity).
  assert (EC1 : C = filter inh Y1).
  { pose proof (apply_lops_filter inh _ Hinh Z Y1 E1) as X. fold Zh in X.
    rewrite (apply_lops_ext (restrict inh D) D Zh) in X.
    - rewrite EC in X. now injection X.
    - intros s Hs. unfold Zh in Hs. apply filter_In in Hs as [_ Qs]. unfold restrict. now rewrite Qs. }
  assert (EP1 : filter pa Y1 = filter pa Z).
  { apply (apply_lops_filter_id pa _ Hpa Z Y1 E1). intros s _ Ps. unfold restrict.
    destruct (inh s) eqn:Qs; [rewrite (Hdisj s Qs) in Ps; discriminate|reflexivity]. }
  pose proof (apply_lops_zattrs _ _ _ E1) as ZA1.
  pose proof (zattrs_nodup _ _ ZA1 ND) as ND1.
  destruct (zattrs_find_some _ _ _ _ ZA1 F) as (mk1 & F1 & A1).
  assert (Q1 : inh mk1 = true) by (rewrite (Hinh _ _ A1); exact Q).
  rewrite EC1. rewrite (find_sec_filter inh (sid self) Y1 mk1 F1 Q1).
  rewrite (upd_filter_in inh (sid self) _ (fun s s' (E : opt_key (set_rhs_terms s (sup_short mk1) [(1%Z, [dem_short mk1])]) = Ok s') =>
             Hinh s s' (eq_ind_r (fun r => r = Ok s' -> attrs_eq s s') (fun E' => run_ops_attrs _ _ _ E') (setp_ops s _ _) E)) Y1 mk1 F1 Q1).
  destruct (upd (sid self) (fun s => opt_key (set_rhs_terms s (sup_short mk1) [(1%Z, [dem_short mk1])])) Y1) as [Y0|] eqn:U0.
  2:{ rewrite (upd_lops (sid self) _ (fun _ => [PSetP (sup_short mk1) (terms_eqn [(1%Z, [dem_short mk1])])]) Y1 ND1 (ex_intro _ mk1 F1)) in U0;
        [|intros s _; apply setp_ops].
      rewrite <- (attrs_sid _ _ A1) in U0. fold (sup_ops mk1) in U0.
      rewrite (apply_lops_ext (sup_ops mk1) (sup_ops self) Y1 (fun s _ => sup_ops_mk self mk1 s A1)) in U0. rewrite U0. exact I. }
  assert (EP0 : filter pa Y0 = filter pa Z).
  { rewrite <- EP1. apply (upd_filter_out pa (sid self) _ (fun s s' (E : opt_key (set_rhs_terms s (sup_short mk1) [(1%Z, [dem_short mk1])]) = Ok s') =>
             Hpa s s' (eq_ind_r (fun r => r = Ok s' -> attrs_eq s s') (fun E' => run_ops_attrs _ _ _ E') (setp_ops s _ _) E)) Y1 Y0 mk1 F1 (Hdisj _ Q1) U0). }
  rewrite (upd_lops (sid self) _ (fun _ => [PSetP (sup_short mk1) (terms_eqn [(1%Z, [dem_short mk1])])]) Y1 ND1 (ex_intro _ mk1 F1)) in U0;
    [|intros s _; apply setp_ops].
  rewrite <- (attrs_sid _ _ A1) in U0. fold (sup_ops mk1) in U0.
  rewrite (apply_lops_ext (sup_ops mk1) (sup_ops self) Y1 (fun s _ => sup_ops_mk self mk1 s A1)) in U0. rewrite U0. cbn [bind].
  pose proof (zattrs_trans _ _ _ ZA1 (apply_lops_zattrs _ _ _ U0)) as ZA0.
  unfold with_home. change (abroad (view J hcur pa (Z, L, []))) with (filter pa Z).
  change (fxl (view J hcur pa (Z, L, []))) with L. change (crosses (view J hcur pa (Z, L, []))) with (@nil string). rewrite <- EP0.
  change (mkWorld (filter inh Y0) (filter pa Y0) L []) with (view J hcur pa (Y0, L, [])).
  set (L1 := map (fun o : nat * string => (fst o, blob_eqn (snd o))) others).
  assert (Hids : map fst others = map fst L1) by (unfold L1; rewrite map_map; reflexivity).
  assert (Hc1 : covered J hcur pa cur_of Z (map fst L1)).
  { rewrite <- Hids. intros j s Hin. apply Hcov. apply in_or_app. now left. }
  rewrite Hids. pose proof (resolve_fcs_view Y0 L [] L1 ZA0 Hc1) as RF.
  unfold all_sups. fold L1.
  destruct (resolve_sups Z L1) as [osecs|] eqn:RO; cbn [bind] in RF |- *.
  - destruct (resolve_fullcodes (view J hcur pa (Y0, L, [])) (map fst L1)) as [fcs|]; [|contradiction]. cbn in RF. subst fcs.
    cbn [bind].
    assert (Fm1 : find_sec (sid mk1) Z = Some self) by (rewrite (attrs_sid _ _ A1); exact F).
    eapply rsim_trans.
    + apply (fold_ystep J hcur pa cur_of Hpa Hdisj Z ND mk1 self Fm1 Q _ (Y0, L, [])); [|exact ZA0].
      rewrite map_app. cbn [map fst]. change (map (fun o : nat * string => (fst o, mkEqn (snd o) [])) others) with L1.
      rewrite <- Hids. exact Hcov.
    + change (map (fun o : nat * string => (fst o, mkEqn (snd o) [])) others) with L1.
      rewrite resolve_sups_app, RO. cbn [bind]. rewrite !bind_assoc.
      unfold residual_terms, sup_short. rewrite (attrs_code _ _ A1). fold (sup_short self). fold (residual_terms self (map (fun x : nat * sector * eqn => fullcode (snd (fst x))) osecs)).
      apply rsim_bind_r. intros rsec _. cbn [bind].
      rewrite (foldM_ext (tstep hcur mk1) (tstep hcur self) _ (fun st x => tstep_mk self mk1 st x A1)). apply rsim_refl.
  - destruct (resolve_fullcodes (view J hcur pa (Y0, L, [])) (map fst L1)); [contradiction|exact I].
Qed.

End Multi.
