(** [pstep2]: every [_GenerateEquations] model of GenMain2/Main2.v ([gen_step2]) as "a few facts about
    the zone, then a list of primitive operations (GenOrder/Ops.v) for every sector of the WHOLE model":
      - the classes of the single-currency model act on the sectors of the caller's currency zone:
        GenOrder's [plan] computed on that part, nothing for the other sectors ([local_plan]);
      - a market with suppliers in other zones ([foreign_plan], see Foreign.v);
      - the gold-standard classes ([gold_plan]): the sector itself, EXT's GOLD and FX sectors;
    and the registered cash flows ([flow_plan2]: a cross-zone flow also books on EXT's FX sector and
    creates the cross rate in EXT's XR sector on first use).
    [Err OutOfFuel] marks what the reformulation does not cover (never a Python outcome). *)
From Coq Require Import List String Bool ZArith Arith.
From SFC.Base Require Import Res Str.
From SFC.Gen Require Import Fx Zone.
From SFC.GenMarket Require Import Market.
From SFC.GenTax Require Import Tax Dividends.
From SFC.GenAsset Require Import Common Money Deposit Weighting.
From SFC.GenMain2 Require Import Program Classes Main Program2 Main2 Conflict Conflict2.
From SFC.GenOrder Require Import Ops Plan PostPlan Check.
From SFC.GenOrder2 Require Import ForeignDefs.
Import ListNotations.
Local Open Scope string_scope.

Definition inzone (J : ginfo2) (cur : string) : sector -> bool := in_zone (j_countries J) cur.

Definition restrict (q : sector -> bool) (g : sector -> list pop) (s : sector) : list pop := if q s then g s else [].

(** a call of the single-currency model, on the caller's zone *)
Definition local_plan (J : ginfo2) (Z : zone) (self : sector) (ik : nat * cls) : result (sector -> list pop) :=
  let q := inzone J (cur_of_sec J self) in
  do g <- plan (to_old J) (filter q Z) ik ;; Ok (restrict q g).

(* ------------------------------------------------------------------ *)
(** * Gold standard *)

Definition ext_distinct (e : ext_ids) (i : nat) : bool :=
  negb (Nat.eqb (e_xr e) (e_fx e)) && negb (Nat.eqb (e_xr e) (e_gold e)) && negb (Nat.eqb (e_fx e) (e_gold e)) &&
  negb (Nat.eqb i (e_xr e)) && negb (Nat.eqb i (e_fx e)) && negb (Nat.eqb i (e_gold e)).

Definition gold_self_ops (s : sector) (balance price xr : string) : list pop :=
  [PSet "GOLDPURCHASES" (blob_eqn (squeeze ("GOLDPURCHASES - " ++ balance)));
   PSet "GOLDPRICE" (blob_eqn (squeeze (price ++ " / " ++ xr)));
   PSet "GOLD" (blob_eqn (squeeze "(LAG_GOLD_OZ * GOLDPRICE) + GOLDPURCHASES"));
   PSet "LAG_GOLD_OZ" (blob_eqn (squeeze "GOLD_OZ(k-1)"));
   PSet "GOLD_OZ" (blob_eqn (squeeze "GOLD / GOLDPRICE"))] ++ cash s ((-1)%Z, ["GOLDPURCHASES"]) false.

Definition gold_lops (e : ext_ids) (i : nat) (cur balance price xr full : string) (s : sector) : list pop :=
  (if Nat.eqb (sid s) i then gold_self_ops s balance price xr else []) ++
  (if Nat.eqb (sid s) (e_gold e)
   then [PEnsure "PRICE" (blob_eqn "1.0"); PEnsure "NETOZ" (blob_eqn ""); PAdd "NETOZ" (1%Z, [xr; full])] else []) ++
  (if Nat.eqb (sid s) (e_fx e)
   then [PAdd ("NET_" ++ cur) (1%Z, [full]); PAdd ("NET_" ++ NUM) ((-1)%Z, [full; xr])] else []).

Definition gold_plan (J : ginfo2) (Z : zone) (i : nat) (self : sector) : result (sector -> list pop) :=
  match j_ext J with
  | None => Err LogicError
  | Some e =>
      if ext_distinct e i then
        let cur := cur_of_sec J self in
        match find_sec (e_fx e) Z, find_sec (e_gold e) Z, find_sec (e_xr e) Z with
        | Some fx, Some g, Some xr =>
            if has_var fx ("NET_" ++ cur) && has_var xr cur then
              Ok (gold_lops e i cur (fullcode fx ++ "__" ++ "NET_" ++ cur) (fullcode g ++ "__" ++ "PRICE")
                            (fullcode xr ++ "__" ++ cur) (fullcode self ++ "__" ++ "GOLDPURCHASES"))
            else Err KeyError
        | _, _, _ => Err OtherError
        end
      else Err OutOfFuel
  end.

(* ------------------------------------------------------------------ *)
(** * Markets *)

Definition supplier_ids (J : ginfo2) (i : nat) : list nat :=
  let '(res, others) := sup_of i (j_sup J) in
  (map fst others ++ match res with Some r => [r] | None => [] end)%list.

(** the FX sector of the external sector lies outside the part [q] and owns NET_<c> for every zone *)
Definition fx_outside (J : ginfo2) (Z : zone) (q : sector -> bool) : bool :=
  match j_ext J with
  | None => true
  | Some e =>
      match find_sec (e_fx e) Z with
      | None => true
      | Some fx => negb (q fx) && forallb (fun c => has_var fx ("NET_" ++ c)) (zones_of (j_countries J))
      end
  end.

Definition market_plan2 (J : ginfo2) (Z : zone) (i : nat) (self : sector) : result (sector -> list pop) :=
  match supplier_currencies J Z (cur_of_sec J self) (supplier_ids J i) with
  | [] => if fx_outside J Z (inzone J (cur_of_sec J self)) then local_plan J Z self (i, CMarket) else Err OutOfFuel
  | _ => foreign_plan J Z i self
  end.

(* ------------------------------------------------------------------ *)
(** * The step *)

Definition plan2 (J : ginfo2) (Z : zone) (ik : nat * cls2) : result (sector -> list pop) :=
  let '(i, k) := ik in
  match find_sec i Z with
  | None => Err OtherError
  | Some self =>
      match k with
      | CXR | CFX | CGOLD | COld CGov | COld CTreasury | COld (CCentralBank _) => Ok no_lops
      | COld CMarket => market_plan2 J Z i self
      | COld c => local_plan J Z self (i, c)
      | CGoldGov _ | CGoldCB _ _ => gold_plan J Z i self
      end
  end.

Definition new_flows2 (ik : nat * cls2) : list flow :=
  match snd ik with
  | COld (CCentralBank t) | CGoldCB t _ => [(fst ik, t, "INTDEP", true, true)]
  | _ => []
  end.

Definition new_ic2 (ik : nat * cls2) : list (nat * string * string) :=
  match snd ik with
  | CGoldGov stock => [(fst ik, "GOLDPURCHASES", "0.0"); (fst ik, "GOLD_OZ", stock); (fst ik, "LAG_GOLD_OZ", stock)]
  | CGoldCB _ stock => [(fst ik, "GOLD_OZ", stock); (fst ik, "LAG_GOLD_OZ", stock)]
  | _ => []
  end.

Definition pstep2 (J : ginfo2) (st : gstate2) (ik : nat * cls2) : result gstate2 :=
  do f <- plan2 J (h_zone st) ik ;;
  do Z' <- apply_lops f (h_zone st) ;;
  Ok (mkG2 Z' (h_flows st ++ new_flows2 ik)%list (h_ic st ++ new_ic2 ik)%list).

(* ------------------------------------------------------------------ *)
(** * Registered cash flows *)

Definition flow_lops2 (e : ext_ids) (src tg : nat) (csrc ctgt full xrs crossv : string) (inc_s inc_t : bool) (x : sector) : list pop :=
  (if Nat.eqb (sid x) src then cash x ((-1)%Z, [full]) inc_s else []) ++
  (if Nat.eqb (sid x) (e_xr e) then [PEnsure (csrc ++ "_" ++ ctgt) (blob_eqn (squeeze (csrc ++ "/" ++ ctgt)))] else []) ++
  (if Nat.eqb (sid x) (e_fx e)
   then [PAdd ("NET_" ++ csrc) (1%Z, [full]); PAdd ("NET_" ++ NUM) ((-1)%Z, [full; xrs]);
         PAdd ("NET_" ++ ctgt) ((-1)%Z, [full; crossv]); PAdd ("NET_" ++ NUM) (1%Z, [full; xrs])] else []) ++
  (if Nat.eqb (sid x) tg then cash x (1%Z, [full; crossv]) inc_t else []).

Definition flow_distinct (e : ext_ids) (src tg : nat) : bool :=
  negb (Nat.eqb (e_xr e) (e_fx e)) && negb (Nat.eqb src (e_xr e)) && negb (Nat.eqb src (e_fx e)) &&
  negb (Nat.eqb tg (e_xr e)) && negb (Nat.eqb tg (e_fx e)).

Definition flow_plan2 (J : ginfo2) (Z : zone) (f : flow) : result (sector -> list pop) :=
  let '(src, tgt, var, inc_s, inc_t) := f in
  match tgt with
  | None => Err OtherError
  | Some tg =>
      match find_sec src Z, find_sec tg Z with
      | Some s, Some t =>
          let csrc := cur_of_sec J s in
          let ctgt := cur_of_sec J t in
          if String.eqb csrc ctgt then
            if has_var s var then Ok (flow_lops src tg (fullcode s ++ "__" ++ var) inc_s inc_t) else Err KeyError
          else
            match j_ext J with
            | None => Err LogicError
            | Some e =>
                if has_var s var then
                  if flow_distinct e src tg && negb (has_substring "__" (csrc ++ "_" ++ ctgt)) then
                    match find_sec (e_xr e) Z, find_sec (e_fx e) Z with
                    | Some xr, Some _ =>
                        if has_var xr csrc then
                          Ok (flow_lops2 e src tg csrc ctgt (fullcode s ++ "__" ++ var) (fullcode xr ++ "__" ++ csrc)
                                         (fullcode xr ++ "__" ++ csrc ++ "_" ++ ctgt) inc_s inc_t)
                        else Err KeyError
                    | _, _ => Err OtherError
                    end
                  else Err OutOfFuel
                else Err KeyError
            end
      | _, _ => Err OtherError
      end
  end.

(* ------------------------------------------------------------------ *)
(** * Boolean comparison of [gen_step2] with [pstep2] along the run of a program (an evaluated
      sanity net; the theorems use the proofs of Reform2.v) *)

Definition trip_eqb (a b : nat * string * string) : bool :=
  Nat.eqb (fst (fst a)) (fst (fst b)) && String.eqb (snd (fst a)) (snd (fst b)) && String.eqb (snd a) (snd b).

Definition gstate2_ext_eqb (a b : gstate2) : bool :=
  zone_ext_eqb (h_zone a) (h_zone b) && forallb2 flow_eqb (h_flows a) (h_flows b) && forallb2 trip_eqb (h_ic a) (h_ic b).

(** both fail, or both succeed with extensionally equal states; a step outside the reformulation counts as agreement *)
Definition res_agree2 (a b : result gstate2) : bool :=
  match a, b with
  | Ok x, Ok y => gstate2_ext_eqb x y
  | _, Err OutOfFuel => true
  | Err _, Err _ => true
  | _, _ => false
  end.

Fixpoint sim_check2 (J : ginfo2) (l : list (nat * cls2)) (st : gstate2) : bool :=
  match l with
  | [] => true
  | ik :: r =>
      res_agree2 (gen_step2 J st ik) (pstep2 J st ik) &&
      match gen_step2 J st ik with Ok st' => sim_check2 J r st' | Err _ => true end
  end.

Definition kzone0 (st : kstate) : zone :=
  zone_order (map fst (k_countries st)) (map (set_fullcode (Nat.ltb 1 (List.length (k_countries st)))) (k_secs st)).

Definition kinfo (st : kstate) : ginfo2 := mkI2 (k_classes st) (k_sup st) (k_countries st) (k_ext st).

Definition gen_list2 (st : kstate) : list (nat * cls2) :=
  map (fun s => (sid s, class_of2 (k_classes st) (sid s))) (kzone0 st).

Definition zres_agree (a b : result zone) : bool :=
  match a, b with
  | Ok x, Ok y => zone_ext_eqb x y
  | _, Err OutOfFuel => true
  | Err _, Err _ => true
  | _, _ => false
  end.

Fixpoint flow_check2 (J : ginfo2) (l : list flow) (Z : zone) : bool :=
  match l with
  | [] => true
  | f :: r =>
      zres_agree (flow_step2 J Z f) (do g <- flow_plan2 J Z f ;; apply_lops g Z) &&
      match flow_step2 J Z f with Ok Z' => flow_check2 J r Z' | Err _ => true end
  end.

Definition reform_ok2 (p : program2) : bool :=
  match construct_all2 p with
  | Err _ => true
  | Ok st =>
      let J := kinfo st in
      sim_check2 J (gen_list2 st) (mkG2 (kzone0 st) (k_flows st) (k_ic st)) &&
      match foldM (gen_step2 J) (gen_list2 st) (mkG2 (kzone0 st) (k_flows st) (k_ic st)) with
      | Ok g => flow_check2 J (h_flows g) (h_zone g)
      | Err _ => true
      end
  end.
