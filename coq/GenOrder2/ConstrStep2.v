(** [kstate_rel] is reflexive and transitive, and every construction step of the multi-currency model
    maps related states to related states when its sector references are renamed
    ([run_step2_rel], [foldM_rel2]): coq/GenOrder/ConstrStep.v for [Main2.kstate]. *)
From Coq Require Import List String Bool ZArith Arith Lia FinFun.
From SFC.Base Require Import Res Str.
From SFC.Gen Require Import Fx Zone.
From SFC.GenMarket Require Import Market MarketProofs.
From SFC.GenMain2 Require Import Program Classes Main MainProofs Program2 Main2 MainProofs2.
From SFC.GenOrder Require Import Perm CRel ConstrBase ConstrInv ConstrStep.
From SFC.GenOrder2 Require Import Perm2 CRel2 ConstrInv2.
Import ListNotations.
Local Open Scope string_scope.
Local Open Scope list_scope.

(* ------------------------------------------------------------------ *)
(** * Composition of renamings *)

Lemma rn_cls2_comp f g k : rn_cls2 g (rn_cls2 f k) = rn_cls2 (fun i => g (f i)) k.
Proof. destruct k; simpl; try reflexivity; [now rewrite rn_cls_comp|now rewrite option_map_comp]. Qed.

Lemma rn_cls2_id k : rn_cls2 (fun i => i) k = k.
Proof. destruct k; simpl; try reflexivity; [now rewrite rn_cls_id|now rewrite option_map_id]. Qed.

Theorem kstate_rel_refl st : winv2 st -> kstate_rel (fun i => i) st st.
Proof.
  intros [W1 W2 _ _ _ _ _]. constructor; auto.
  - intros i s H. now rewrite rn_sec_id.
  - intros i k H. now rewrite rn_cls2_id.
  - symmetry. apply map_id_ext, rn_sup_id.
  - symmetry. apply map_id_ext, rn_flow_id.
  - symmetry. apply map_id_ext, rn_trip_id.
  - symmetry. apply map_id_ext, rn_trip_id.
Qed.

Theorem kstate_rel_trans f g st1 st2 st3 :
  kstate_rel f st1 st2 -> kstate_rel g st2 st3 -> kstate_rel (fun i => g (f i)) st1 st3.
Proof.
  intros [Ac Ad Ae Aef Alen Acl Acl' Asid Asid' Arng Ainj Afix Asecs Acls Asup Afl Aexo Aic]
         [Bc Bd Be Bef Blen Bcl Bcl' Bsid Bsid' Brng Binj Bfix Bsecs Bcls Bsup Bfl Bexo Bic].
  rewrite Alen in *. constructor; try congruence.
  - intros e He. destruct (Aef e He) as (A1 & A2 & A3). rewrite <- Ae in He. destruct (Bef e He) as (B1 & B2 & B3).
    rewrite A1, A2, A3. auto.
  - auto.
  - intros i j Hi Hj H. apply Ainj; auto.
  - intros i Hi. rewrite Afix by exact Hi. now apply Bfix.
  - intros i s H. rewrite <- rn_sec_comp. now apply Bsecs, Asecs.
  - intros i k H. rewrite <- rn_cls2_comp. now apply Bcls, Acls.
  - rewrite Bsup, Asup, map_map. apply map_ext. intros x. apply rn_sup_comp.
  - rewrite Bfl, Afl, map_map. apply map_ext. intros x. apply rn_flow_comp.
  - rewrite Bexo, Aexo, map_map. apply map_ext. intros x. apply rn_trip_comp.
  - rewrite Bic, Aic, map_map. apply map_ext. intros x. apply rn_trip_comp.
Qed.

(* ------------------------------------------------------------------ *)
(** * Constructors and references under a renaming *)

Lemma construct2_sid j i cc c k mrefs : construct2 j cc c k mrefs = rmap (with_sid j) (construct2 i cc c k mrefs).
Proof. destruct k; cbn [construct2 old_class]; try apply construct_sid; reflexivity. Qed.

Lemma construct2_rn_cls2 f i cc c k mrefs : construct2 i cc c (rn_cls2 f k) mrefs = construct2 i cc c k mrefs.
Proof. destruct k; cbn [rn_cls2 construct2 old_class]; try reflexivity. apply construct_rn_cls. Qed.

Lemma market_refs2_rn f k : market_refs2 (rn_cls2 f k) = map f (market_refs2 k).
Proof. destruct k as [c| | | | |]; try reflexivity. destruct c; reflexivity. Qed.

Lemma has_add_supplier2_rn f k : has_add_supplier2 (rn_cls2 f k) = has_add_supplier2 k.
Proof. destruct k as [c| | | | |]; try reflexivity. destruct c; reflexivity. Qed.

Lemma set_tre_rn f k tre : set_tre (rn_cls2 f k) (f tre) = rn_cls2 f (set_tre k tre).
Proof. destruct k as [c| | | | |]; try reflexivity. destruct c; reflexivity. Qed.

(* ------------------------------------------------------------------ *)
(** * Facts about a renaming between related states *)

Section Rel2.
Variables (f : nat -> nat) (st st' : kstate).
Hypothesis R : kstate_rel f st st'.

Let N := List.length (k_secs st).

Lemma rel2_lt i : i < N -> f i < N.
Proof. apply (kr_range _ _ _ R). Qed.

Lemma rel2_inj : forall i j, f i = f j -> i = j.
Proof.
  intros i j H. destruct (lt_dec i N) as [Hi|Hi], (lt_dec j N) as [Hj|Hj].
  - now apply (kr_inj _ _ _ R).
  - pose proof (rel2_lt _ Hi). rewrite (kr_fix _ _ _ R j) in H by (fold N; lia). lia.
  - pose proof (rel2_lt _ Hj). rewrite (kr_fix _ _ _ R i) in H by (fold N; lia). lia.
  - rewrite (kr_fix _ _ _ R i), (kr_fix _ _ _ R j) in H by (fold N; lia). exact H.
Qed.

Lemma rel2_eqb i j : Nat.eqb (f i) (f j) = Nat.eqb i j.
Proof.
  destruct (Nat.eqb_spec i j) as [->|Ne]; [apply Nat.eqb_refl|]. apply Nat.eqb_neq. intros H. apply Ne. now apply rel2_inj.
Qed.

Lemma rel2_surj j : j < N -> exists i, i < N /\ f i = j.
Proof.
  intros Hj.
  assert (I : incl (seq 0 N) (map f (seq 0 N))).
  { apply NoDup_length_incl.
    - apply Injective_map_NoDup; [exact rel2_inj|apply seq_NoDup].
    - rewrite map_length. lia.
    - intros x Hx. apply in_map_iff in Hx as (i & <- & Hi). apply in_seq in Hi. apply in_seq.
      pose proof (rel2_lt i). lia. }
  assert (Hin : List.In j (seq 0 N)) by (apply in_seq; lia).
  apply I in Hin. apply in_map_iff in Hin as (i & E & Hi). apply in_seq in Hi. exists i. split; [lia|exact E].
Qed.

Lemma rel2_nth_secs i : nth_error (k_secs st') (f i) = option_map (rn_sec f) (nth_error (k_secs st) i).
Proof.
  destruct (nth_error (k_secs st) i) as [s|] eqn:E; simpl.
  - now apply (kr_secs _ _ _ R).
  - apply nth_error_None in E. rewrite (kr_fix _ _ _ R i E). apply nth_error_None. now rewrite (kr_len _ _ _ R).
Qed.

Lemma rel2_pos : posl (k_secs st).
Proof. exact (kr_sids _ _ _ R). Qed.

Lemma rel2_pos' : posl (k_secs st').
Proof. unfold posl. rewrite (kr_len _ _ _ R). exact (kr_sids' _ _ _ R). Qed.

Lemma rel2_find i : find_sec (f i) (k_secs st') = option_map (rn_sec f) (find_sec i (k_secs st)).
Proof. rewrite (find_sec_pos _ _ rel2_pos), (find_sec_pos _ _ rel2_pos'). apply rel2_nth_secs. Qed.

Lemma rel2_nth_cls i : nth_error (k_classes st') (f i) = option_map (rn_cls2 f) (nth_error (k_classes st) i).
Proof.
  destruct (nth_error (k_classes st) i) as [s|] eqn:E; simpl.
  - now apply (kr_classes _ _ _ R).
  - apply nth_error_None in E. rewrite (kr_clen _ _ _ R) in E. rewrite (kr_fix _ _ _ R i E).
    apply nth_error_None. now rewrite (kr_clen' _ _ _ R).
Qed.

Lemma rel2_class_of i : class_of2 (k_classes st') (f i) = rn_cls2 f (class_of2 (k_classes st) i).
Proof. unfold class_of2. rewrite !nth_nth_error, rel2_nth_cls. destruct (nth_error (k_classes st) i); reflexivity. Qed.

Lemma rel2_existsb (P : sector -> bool) : (forall s, P (rn_sec f s) = P s) ->
  existsb P (k_secs st') = existsb P (k_secs st).
Proof.
  intros HP. apply eq_true_iff_eq. rewrite !existsb_exists. split; intros (s & Hin & Ps).
  - apply In_nth_error in Hin as (j & Hj).
    assert (Lj : j < N). { unfold N. rewrite <- (kr_len _ _ _ R). apply nth_error_Some. congruence. }
    destruct (rel2_surj j Lj) as (i & Hi & <-). rewrite rel2_nth_secs in Hj.
    destruct (nth_error (k_secs st) i) as [s0|] eqn:E; [|discriminate]. simpl in Hj. injection Hj as <-.
    exists s0. split; [eapply nth_error_In; exact E|]. now rewrite <- HP.
  - apply In_nth_error in Hin as (i & Hi). exists (rn_sec f s). split; [|now rewrite HP].
    eapply nth_error_In. rewrite rel2_nth_secs, Hi. reflexivity.
Qed.

Lemma rel2_resolve ids : resolve_markets (k_secs st') (map f ids) = resolve_markets (k_secs st) ids.
Proof.
  induction ids as [|j ids IH]; [reflexivity|]. cbn [map resolve_markets]. rewrite rel2_find, IH.
  destruct (find_sec j (k_secs st)); reflexivity.
Qed.

(** rebuilding the relation after one component changed *)
Lemma rel2_with_secs SL SL' :
  List.length SL = N -> List.length SL' = N -> posl SL -> posl SL' ->
  (forall i s, nth_error SL i = Some s -> nth_error SL' (f i) = Some (rn_sec f s)) ->
  kstate_rel f (upd_k st SL) (upd_k st' SL').
Proof.
  intros L L' P P' H. destruct R as [Ac Ad Ae Aef Alen Acl Acl' Asid Asid' Arng Ainj Afix Asecs Acls Asup Afl Aexo Aic].
  unfold posl in *. fold N in Alen, Acl, Acl', Asid, Asid', Arng, Ainj, Afix.
  constructor; cbn [upd_k k_countries k_default k_ext k_secs k_classes k_sup k_flows k_exo k_ic]; rewrite ?L;
    try assumption; try congruence.
Qed.

Lemma rel2_with_countries C D :
  kstate_rel f (mkK C D (k_ext st) (k_secs st) (k_classes st) (k_sup st) (k_flows st) (k_exo st) (k_ic st))
               (mkK C D (k_ext st') (k_secs st') (k_classes st') (k_sup st') (k_flows st') (k_exo st') (k_ic st')).
Proof.
  destruct R as [Ac Ad Ae Aef Alen Acl Acl' Asid Asid' Arng Ainj Afix Asecs Acls Asup Afl Aexo Aic].
  constructor; cbn [k_countries k_default k_ext k_secs k_classes k_sup k_flows k_exo k_ic]; try assumption; reflexivity.
Qed.

Lemma rel2_with_ext e : f (e_xr e) = e_xr e -> f (e_fx e) = e_fx e -> f (e_gold e) = e_gold e ->
  kstate_rel f (mkK (k_countries st) (k_default st) (Some e) (k_secs st) (k_classes st) (k_sup st) (k_flows st) (k_exo st) (k_ic st))
               (mkK (k_countries st') (k_default st') (Some e) (k_secs st') (k_classes st') (k_sup st') (k_flows st') (k_exo st') (k_ic st')).
Proof.
  intros E1 E2 E3. destruct R as [Ac Ad Ae Aef Alen Acl Acl' Asid Asid' Arng Ainj Afix Asecs Acls Asup Afl Aexo Aic].
  constructor; cbn [k_countries k_default k_ext k_secs k_classes k_sup k_flows k_exo k_ic]; try assumption; try reflexivity.
  intros e0 He. injection He as <-. auto.
Qed.

Lemma rel2_with_classes CL CL' :
  List.length CL = N -> List.length CL' = N ->
  (forall i k, nth_error CL i = Some k -> nth_error CL' (f i) = Some (rn_cls2 f k)) ->
  kstate_rel f (mkK (k_countries st) (k_default st) (k_ext st) (k_secs st) CL (k_sup st) (k_flows st) (k_exo st) (k_ic st))
               (mkK (k_countries st') (k_default st') (k_ext st') (k_secs st') CL' (k_sup st') (k_flows st') (k_exo st') (k_ic st')).
Proof.
  intros L L' H. destruct R as [Ac Ad Ae Aef Alen Acl Acl' Asid Asid' Arng Ainj Afix Asecs Acls Asup Afl Aexo Aic].
  constructor; cbn [k_countries k_default k_ext k_secs k_classes k_sup k_flows k_exo k_ic]; assumption.
Qed.

Lemma rel2_with_sup L L' : L' = map (rn_sup f) L ->
  kstate_rel f (mkK (k_countries st) (k_default st) (k_ext st) (k_secs st) (k_classes st) L (k_flows st) (k_exo st) (k_ic st))
               (mkK (k_countries st') (k_default st') (k_ext st') (k_secs st') (k_classes st') L' (k_flows st') (k_exo st') (k_ic st')).
Proof.
  intros H. destruct R as [Ac Ad Ae Aef Alen Acl Acl' Asid Asid' Arng Ainj Afix Asecs Acls Asup Afl Aexo Aic].
  constructor; cbn [k_countries k_default k_ext k_secs k_classes k_sup k_flows k_exo k_ic]; assumption.
Qed.

Lemma rel2_with_flows L L' : L' = map (rn_flow f) L ->
  kstate_rel f (with_flows st L) (with_flows st' L').
Proof.
  intros H. destruct R as [Ac Ad Ae Aef Alen Acl Acl' Asid Asid' Arng Ainj Afix Asecs Acls Asup Afl Aexo Aic].
  constructor; cbn [with_flows k_countries k_default k_ext k_secs k_classes k_sup k_flows k_exo k_ic]; assumption.
Qed.

Lemma rel2_with_exo L L' : L' = map (rn_trip f) L ->
  kstate_rel f (mkK (k_countries st) (k_default st) (k_ext st) (k_secs st) (k_classes st) (k_sup st) (k_flows st) L (k_ic st))
               (mkK (k_countries st') (k_default st') (k_ext st') (k_secs st') (k_classes st') (k_sup st') (k_flows st') L' (k_ic st')).
Proof.
  intros H. destruct R as [Ac Ad Ae Aef Alen Acl Acl' Asid Asid' Arng Ainj Afix Asecs Acls Asup Afl Aexo Aic].
  constructor; cbn [k_countries k_default k_ext k_secs k_classes k_sup k_flows k_exo k_ic]; assumption.
Qed.

Lemma rel2_with_ic L L' : L' = map (rn_trip f) L ->
  kstate_rel f (mkK (k_countries st) (k_default st) (k_ext st) (k_secs st) (k_classes st) (k_sup st) (k_flows st) (k_exo st) L)
               (mkK (k_countries st') (k_default st') (k_ext st') (k_secs st') (k_classes st') (k_sup st') (k_flows st') (k_exo st') L').
Proof.
  intros H. destruct R as [Ac Ad Ae Aef Alen Acl Acl' Asid Asid' Arng Ainj Afix Asecs Acls Asup Afl Aexo Aic].
  constructor; cbn [k_countries k_default k_ext k_secs k_classes k_sup k_flows k_exo k_ic]; assumption.
Qed.

(** a mutation of one sector that does not look at the creation index *)
Lemma rel2_on_sector g i SL : sid_blind g -> on_sector i g (k_secs st) = Ok SL ->
  exists SL', on_sector (f i) g (k_secs st') = Ok SL' /\ kstate_rel f (upd_k st SL) (upd_k st' SL').
Proof.
  intros B H. rewrite (on_sector_pos _ _ _ rel2_pos) in H.
  destruct (nth_error (k_secs st) i) as [s|] eqn:E; [|discriminate].
  destruct (g s) as [s1|] eqn:Gs; [|discriminate]. injection H as <-.
  rewrite (on_sector_pos _ _ _ rel2_pos'), rel2_nth_secs, E. cbn [option_map].
  rewrite (blind_rn g f s s1 B Gs). eexists. split; [reflexivity|].
  assert (Li : i < N) by (apply nth_error_Some; congruence).
  apply rel2_with_secs.
  - apply length_set_nth.
  - rewrite length_set_nth. apply (kr_len _ _ _ R).
  - eapply posl_set_nth; [exact rel2_pos|exact E|]. eapply blind_sid; eassumption.
  - eapply posl_set_nth; [exact rel2_pos'| |].
    + rewrite rel2_nth_secs, E. reflexivity.
    + cbn [rn_sec sid]. now rewrite (blind_sid _ _ _ B Gs).
  - intros j x Hj. destruct (Nat.eq_dec j i) as [->|Ne].
    + rewrite nth_error_set_nth_eq in Hj by exact Li. injection Hj as <-.
      apply nth_error_set_nth_eq. rewrite (kr_len _ _ _ R). now apply rel2_lt.
    + rewrite nth_error_set_nth_neq in Hj by exact Ne.
      rewrite nth_error_set_nth_neq; [now apply (kr_secs _ _ _ R)|]. intros K. apply Ne. now apply rel2_inj.
Qed.

End Rel2.

(* ------------------------------------------------------------------ *)
(** * The parts of a construction step *)

Lemma rel2_same_secs f st st' : kstate_rel f st st' -> kstate_rel f (upd_k st (k_secs st)) (upd_k st' (k_secs st')).
Proof.
  intros R. apply (rel2_with_secs f st st' R); try reflexivity.
  - apply (kr_len _ _ _ R).
  - exact (rel2_pos f st st' R).
  - exact (rel2_pos' f st st' R).
  - apply (kr_secs _ _ _ R).
Qed.

(** RegisterCurrency on an external sector whose indices the renaming fixes *)
Lemma register_currency_rel f st st' e cur SL : kstate_rel f st st' -> f (e_xr e) = e_xr e -> f (e_fx e) = e_fx e ->
  register_currency e cur (k_secs st) = Ok SL ->
  exists SL', register_currency e cur (k_secs st') = Ok SL' /\ kstate_rel f (upd_k st SL) (upd_k st' SL').
Proof.
  intros R E1 E2 H. unfold register_currency in *. bind_step H S1 H1.
  destruct (rel2_on_sector f st st' R _ _ _ (addv_blind cur "1.0") H1) as (S1' & H1' & R1).
  rewrite E1 in H1'. rewrite H1'. cbn [bind].
  change S1 with (k_secs (upd_k st S1)) in H.
  destruct (rel2_on_sector f _ _ R1 _ _ _ (addvs_blind _) H) as (SL' & H' & R2).
  rewrite E2 in H'. cbn [upd_k k_secs] in H'. exists SL'. split; [exact H'|exact R2].
Qed.

Lemma register_all_rel f e : f (e_xr e) = e_xr e -> f (e_fx e) = e_fx e ->
  forall curs st st' SL, kstate_rel f st st' -> register_all e curs (k_secs st) = Ok SL ->
  exists SL', register_all e curs (k_secs st') = Ok SL' /\ kstate_rel f (upd_k st SL) (upd_k st' SL').
Proof.
  intros E1 E2. induction curs as [|c r IH]; intros st st' SL R H; cbn [register_all] in *.
  - injection H as <-. exists (k_secs st'). split; [reflexivity|now apply rel2_same_secs].
  - bind_step H S1 H1. destruct (register_currency_rel f st st' e c S1 R E1 E2 H1) as (S1' & H1' & R1).
    rewrite H1'. cbn [bind]. change S1 with (k_secs (upd_k st S1)) in H.
    destruct (IH _ _ _ R1 H) as (SL' & H' & R2). cbn [upd_k k_secs] in H'. exists SL'. split; [exact H'|exact R2].
Qed.

Lemma add_country_rel f st st' code cur st1 : kstate_rel f st st' -> add_country st code cur = Ok st1 ->
  exists st1', add_country st' code cur = Ok st1' /\ kstate_rel f st1 st1'.
Proof.
  intros R H. unfold add_country in *. rewrite (kr_countries _ _ _ R), (kr_ext _ _ _ R).
  destruct (mem code (map fst (k_countries st))); [discriminate|]. bind_step H SL E. injection H as <-.
  assert (K : exists SL', match k_ext st with
                          | Some e => if negb (mem cur (map snd (k_countries st))) then register_currency e cur (k_secs st') else Ok (k_secs st')
                          | None => Ok (k_secs st')
                          end = Ok SL' /\ kstate_rel f (upd_k st SL) (upd_k st' SL')).
  { destruct (k_ext st) as [e|] eqn:Ee; [destruct (negb _)|];
      try (injection E as <-; exists (k_secs st'); split; [reflexivity|now apply rel2_same_secs]).
    destruct (kr_ext_fix _ _ _ R e Ee) as (F1 & F2 & _). now apply register_currency_rel. }
  destruct K as (SL' & E' & R1). rewrite E'. cbn [bind]. eexists. split; [reflexivity|].
  pose proof (rel2_with_countries f _ _ R1 (k_countries st ++ [(code, cur)]) cur) as Q.
  cbn [upd_k k_countries k_default k_ext k_secs k_classes k_sup k_flows k_exo k_ic] in Q.
  rewrite (kr_ext _ _ _ R) in Q. exact Q.
Qed.

Lemma add_sector_rel f st st' ci c k st1 : kstate_rel f st st' -> add_sector st ci c k = Ok st1 ->
  exists st1', add_sector st' ci c (rn_cls2 f k) = Ok st1' /\ kstate_rel f st1 st1'.
Proof.
  intros R H. unfold add_sector in *. rewrite (kr_countries _ _ _ R).
  destruct (nth_error (k_countries st) ci) as [[cc cur]|]; [|discriminate].
  rewrite (rel2_existsb f st st' R (fun s => in_country cc s && String.eqb (code s) c)) by reflexivity.
  destruct (existsb _ (k_secs st)); [discriminate|].
  bind_step H mrefs E1. bind_step H s E2. injection H as <-.
  rewrite market_refs2_rn, (rel2_resolve f st st' R), E1. cbn [bind].
  rewrite construct2_rn_cls2, (kr_len _ _ _ R), E2. cbn [bind].
  eexists. split; [reflexivity|].
  destruct (construct2_facts _ _ _ _ _ _ E2) as (F1 & _).
  pose proof (rel2_pos f st st' R) as P. pose proof (rel2_pos' f st st' R) as P'.
  pose proof (rel2_inj f st st' R) as INJ.
  set (N := List.length (k_secs st)) in *.
  destruct R as [Ac Ad Ae Aef Alen Acl Acl' Asid Asid' Arng Ainj Afix Asecs Acls Asup Afl Aexo Aic].
  fold N in Alen, Acl, Acl', Asid, Asid', Arng, Ainj, Afix.
  assert (FN : f N = N) by (apply Afix; lia).
  assert (Es : rn_sec f s = s). { rewrite rn_sec_with_sid, F1, FN, <- F1. apply with_sid_self. }
  constructor; cbn [k_countries k_default k_ext k_secs k_classes k_sup k_flows k_exo k_ic]; rewrite ?app_length; fold N; simpl List.length;
    try assumption; try reflexivity; try lia.
  - apply (posl_snoc _ _ P) in F1. unfold posl in F1. rewrite app_length in F1. exact F1.
  - assert (Q : sid s = List.length (k_secs st')) by lia. apply (posl_snoc _ _ P') in Q. unfold posl in Q.
    rewrite app_length, Alen in Q. exact Q.
  - intros i Hi. destruct (Nat.eq_dec i N) as [->|Ne]; [lia|]. assert (f i < N) by (apply Arng; lia). lia.
  - intros i j _ _. apply INJ.
  - intros i Hi. apply Afix. lia.
  - intros i x Hx. destruct (lt_dec i N) as [Li|Li].
    + rewrite nth_error_app1 in Hx by exact Li. rewrite nth_error_app1 by (rewrite Alen; now apply Arng). now apply Asecs.
    + assert (Ei : i = N). { assert (HH : i < List.length (k_secs st ++ [s])) by (apply nth_error_Some; congruence).
                            rewrite app_length in HH. simpl in HH. fold N in HH. lia. }
      subst i. rewrite nth_error_app2 in Hx by (fold N; lia). fold N in Hx. rewrite Nat.sub_diag in Hx. simpl in Hx.
      injection Hx as <-. rewrite FN, Es, nth_error_app2 by lia. rewrite Alen, Nat.sub_diag. reflexivity.
  - intros i x Hx. destruct (lt_dec i N) as [Li|Li].
    + rewrite nth_error_app1 in Hx by lia. rewrite nth_error_app1 by (rewrite Acl'; now apply Arng). now apply Acls.
    + assert (Ei : i = N). { assert (HH : i < List.length (k_classes st ++ [k])) by (apply nth_error_Some; congruence).
                            rewrite app_length in HH. simpl in HH. lia. }
      subst i. rewrite nth_error_app2 in Hx by lia. rewrite Acl, Nat.sub_diag in Hx. simpl in Hx.
      injection Hx as <-. rewrite FN, nth_error_app2 by lia. rewrite Acl', Nat.sub_diag. reflexivity.
Qed.

Lemma run_op2_rel f st st' o st1 : kstate_rel f st st' -> run_op2 st o = Ok st1 ->
  exists st1', run_op2 st' (rn_op2 f o) = Ok st1' /\ kstate_rel f st1 st1'.
Proof.
  intros R H. pose proof (rel2_find f st st' R) as rfind.
  destruct o as [[s n t|s n spec|src tgt var a b|m sup text|s ws res|s n value|cb tre]|s m]; cbn [rn_op2 rn_op].
  - cbn [run_op2] in *. bind_step H SL E. injection H as <-.
    destruct (rel2_on_sector f st st' R _ _ _ (addv_blind n t) E) as (SL' & E' & R'). rewrite E'. cbn [bind].
    eexists. split; [reflexivity|exact R'].
  - cbn [run_op2] in *. rewrite rfind. destruct (find_sec s (k_secs st)); [|discriminate]. injection H as <-. cbn [option_map].
    eexists. split; [reflexivity|]. apply (rel2_with_exo f st st' R). rewrite map_app, (kr_exo _ _ _ R). reflexivity.
  - cbn [run_op2] in *. rewrite !rfind. destruct (find_sec src (k_secs st)); [|discriminate].
    destruct (find_sec tgt (k_secs st)); [|discriminate]. injection H as <-. cbn [option_map].
    eexists. split; [reflexivity|]. apply (rel2_with_flows f st st' R). rewrite map_app, (kr_flows _ _ _ R). reflexivity.
  - cbn [run_op2] in *. rewrite !rfind. destruct (find_sec m (k_secs st)); [|discriminate].
    destruct (find_sec sup (k_secs st)); [|discriminate]. cbn [option_map].
    rewrite (rel2_class_of f st st' R), has_add_supplier2_rn. destruct (has_add_supplier2 _); [|discriminate].
    assert (K : forall k, List.In k (map fst (k_sup st)) -> Nat.eqb (f k) (f m) = Nat.eqb k m)
      by (intros; apply (rel2_eqb f st st' R)).
    rewrite (kr_sup _ _ _ R), (sup_of_map f m _ K).
    destruct (sup_of m (k_sup st)) as [r others]. injection H as <-.
    unfold rn_supinfo at 1. cbn [fst snd].
    eexists. split; [reflexivity|]. apply (rel2_with_sup f st st' R). rewrite <- (sup_set_map f m _ _ K). f_equal.
    destruct text as [t|]; [destruct (String.eqb t "")|]; unfold rn_supinfo; cbn [fst snd option_map];
      rewrite ?map_app; reflexivity.
  - cbn [run_op2] in *. bind_step H SL E. injection H as <-.
    destruct (rel2_on_sector f st st' R _ _ _ (asset_weighting_blind ws res) E) as (SL' & E' & R'). rewrite E'. cbn [bind].
    eexists. split; [reflexivity|exact R'].
  - cbn [run_op2] in *. rewrite rfind. destruct (find_sec s (k_secs st)); [|discriminate]. injection H as <-. cbn [option_map].
    eexists. split; [reflexivity|]. apply (rel2_with_ic f st st' R). rewrite map_app, (kr_ic _ _ _ R). reflexivity.
  - rewrite run_op2_settre in *. rewrite !rfind. destruct (find_sec cb (k_secs st)) as [x|] eqn:Fc; [|discriminate].
    destruct (find_sec tre (k_secs st)); [|discriminate]. injection H as <-. cbn [option_map].
    eexists. split; [reflexivity|].
    apply (find_sec_lt _ _ _ (rel2_pos f st st' R)) in Fc.
    rewrite (rel2_class_of f st st' R), set_tre_rn. apply (rel2_with_classes f st st' R).
    + rewrite length_set_nth. apply (kr_clen _ _ _ R).
    + rewrite length_set_nth. apply (kr_clen' _ _ _ R).
    + intros j k1 Hj. destruct (Nat.eq_dec j cb) as [->|Ne].
      * rewrite nth_error_set_nth_eq in Hj by (rewrite (kr_clen _ _ _ R); exact Fc). injection Hj as <-.
        apply nth_error_set_nth_eq. rewrite (kr_clen' _ _ _ R). now apply (rel2_lt f st st' R).
      * rewrite nth_error_set_nth_neq in Hj by exact Ne.
        rewrite nth_error_set_nth_neq; [now apply (kr_classes _ _ _ R)|]. intros Q. apply Ne. now apply (rel2_inj f st st' R).
  - cbn [run_op2] in *. rewrite rfind. destruct (find_sec m (k_secs st)) as [mk|]; [|discriminate]. cbn [option_map].
    bind_step H SL E. injection H as <-. cbn [rn_sec code country].
    destruct (rel2_on_sector f st st' R _ _ _ (add_market_blind (code mk, country mk)) E) as (SL' & E' & R'). rewrite E'. cbn [bind].
    eexists. split; [reflexivity|exact R'].
Qed.

(** * One construction step *)
Theorem run_step2_rel f st st' x st1 : kstate_rel f st st' -> run_step2 st x = Ok st1 ->
  exists st1', run_step2 st' (rn_step2 f x) = Ok st1' /\ kstate_rel f st1 st1'.
Proof.
  intros R H. destruct x as [c cur rg| |ci c k|o].
  - cbn [rn_step2 run_step2] in *. rewrite (kr_default _ _ _ R). now apply (add_country_rel f st).
  - cbn [rn_step2]. apply external_inv in H as (X & st1a & st2 & st3 & st4 & SL & E1 & E2 & E3 & E4 & E5 & ->).
    cbn [run_step2]. rewrite (kr_ext _ _ _ R), X, (kr_countries _ _ _ R).
    destruct (add_country_rel f st st' _ _ _ R E1) as (st1a' & E1' & R1). rewrite E1'. cbn [bind].
    destruct (add_sector_rel f _ _ _ _ _ _ R1 E2) as (st2' & E2' & R2). cbn [rn_cls2] in E2'. rewrite E2'. cbn [bind].
    destruct (add_sector_rel f _ _ _ _ _ _ R2 E3) as (st3' & E3' & R3). cbn [rn_cls2] in E3'. rewrite E3'. cbn [bind].
    destruct (add_sector_rel f _ _ _ _ _ _ R3 E4) as (st4' & E4' & R4). cbn [rn_cls2] in E4'. rewrite E4'. cbn [bind].
    cbv zeta. rewrite (kr_len _ _ _ R1), (kr_countries _ _ _ R4).
    (* the renaming fixes the three new indices *)
    assert (L1 : List.length (k_secs st1a) = List.length (k_secs st)).
    { apply (add_country_inv _ _ _ _ (rel2_pos f st st' R)) in E1 as (SL1 & _ & L1 & ->). exact L1. }
    set (n := List.length (k_secs st1a)) in *.
    assert (F0 : f n = n) by (apply (kr_fix _ _ _ R); lia).
    assert (F1 : f (S n) = S n) by (apply (kr_fix _ _ _ R); lia).
    assert (F2 : f (S (S n)) = S (S n)) by (apply (kr_fix _ _ _ R); lia).
    destruct (register_all_rel f (mkExt n (S n) (S (S n))) F0 F1 _ _ _ _ R4 E5) as (SL' & E5' & R5).
    rewrite E5'. cbn [bind]. eexists. split; [reflexivity|].
    pose proof (rel2_with_ext f _ _ R5 (mkExt n (S n) (S (S n))) F0 F1 F2) as Q.
    cbn [upd_k k_countries k_default k_ext k_secs k_classes k_sup k_flows k_exo k_ic] in Q.
    rewrite (kr_countries _ _ _ R4) in Q. exact Q.
  - cbn [rn_step2 run_step2] in *. now apply (add_sector_rel f st).
  - cbn [rn_step2 run_step2] in *. now apply (run_op2_rel f st).
Qed.

Theorem foldM_rel2 f : forall p st st' st1, kstate_rel f st st' -> foldM run_step2 p st = Ok st1 ->
  exists st1', foldM run_step2 (map (rn_step2 f) p) st' = Ok st1' /\ kstate_rel f st1 st1'.
Proof.
  induction p as [|x p IH]; intros st st' st1 R H.
  - simpl in H. injection H as <-. exists st'. split; [reflexivity|exact R].
  - cbn [foldM map] in *. destruct (run_step2 st x) as [st2|] eqn:E; [|discriminate].
    destruct (run_step2_rel f st st' x st2 R E) as (st2' & E' & R2). rewrite E'. now apply (IH st2 st2' st1).
Qed.

