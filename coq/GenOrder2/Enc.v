(** Sectors of the external sector (country EXT: XR, FX, GOLD) accumulate summands in equations that
    GenOrder's store theory does not treat as accumulators (NET_<currency>, NETOZ): its invariant
    [I_wfσ] only tracks F, INC and the SUP_* names.  Instead of copying that theory with another set
    of accumulator names we re-use it through an encoding: for the reasoning (never in the model) the
    variable names of an EXT sector are prefixed with "SUP_" ([enc]), which makes every name an
    accumulator; primitive operations are translated likewise ([enc_op]) and commute with the
    encoding ([run_ops_enc]).  [Wf2] / [Ok2] are the resulting invariant / side condition for any
    sector, [run_ops_cong2], [run_ops_Wf2] the generalised congruence and preservation lemmas,
    [blocks_perm2] the exchange of blocks of pairwise commuting operations ([pop_commute2] =
    GenOrder's [pop_commute] or two identical basic operations). *)
From Coq Require Import List String Ascii Bool ZArith Arith Lia Permutation.
From SFC.Base Require Import Res Str.
From SFC.Gen Require Import Fx Zone.
From SFC.GenMarket Require Import Market MarketProofs.
From SFC.GenMain2 Require Import Program Classes Main Conflict Balance.
From SFC.GenOrder Require Import Ops Plan ReformDefs Static Equiv OpsProofs OpsComm Static2 GenBase.
Import ListNotations.
Local Open Scope string_scope.
Local Open Scope list_scope.

(* ------------------------------------------------------------------ *)
(** * The encoding *)

Definition enc_name (n : string) : string := "SUP_" ++ n.
Definition enc_vars (vs : list (string * eqn)) : list (string * eqn) := map (fun ne => (enc_name (fst ne), snd ne)) vs.
Definition enc (s : sector) : sector := with_vars s (enc_vars (vars s)).

Definition enc_op (o : pop) : pop :=
  match o with
  | PSet n e => PSet (enc_name n) e
  | PSetP n e => PSetP (enc_name n) e
  | PAdd n t => PAdd (enc_name n) t
  | PDefFresh n e => PDefFresh (enc_name n) e
  | PEnsure n e => PEnsure (enc_name n) e
  | PRecvDiv pf => PRecvDiv pf
  | PRequire n => PRequire (enc_name n)
  end.

Lemma enc_name_eqb n k : String.eqb (enc_name n) (enc_name k) = String.eqb n k.
Proof. reflexivity. Qed.

Lemma enc_name_inj n k : enc_name n = enc_name k -> n = k.
Proof. intros H. apply String.eqb_eq. rewrite <- enc_name_eqb, H. apply String.eqb_refl. Qed.

Lemma acc_enc n : acc_name (enc_name n) = true.
Proof. unfold acc_name. apply orb_true_iff. right. unfold enc_name. simpl. now destruct n. Qed.

Lemma lookup_enc n vs : lookup_var (enc_name n) (enc_vars vs) = lookup_var n vs.
Proof.
  induction vs as [|[k e] r IH]; [reflexivity|]. cbn [enc_vars map lookup_var fst snd].
  rewrite enc_name_eqb. destruct (String.eqb n k); [reflexivity|exact IH].
Qed.

Lemma lookup_enc_other m vs : (forall n, m <> enc_name n) -> lookup_var m (enc_vars vs) = None.
Proof.
  intros H. induction vs as [|[k e] r IH]; [reflexivity|]. cbn [enc_vars map lookup_var fst snd].
  destruct (String.eqb_spec m (enc_name k)) as [E|_]; [now apply H in E|exact IH].
Qed.

Lemma enc_dec m : (exists n, m = enc_name n) \/ (forall n, m <> enc_name n).
Proof.
  destruct m as [|c1 [|c2 [|c3 [|c4 r]]]]; try (right; intros k H; discriminate H).
  destruct (Ascii.eqb_spec c1 "S") as [E1|N1]; [|right; intros k H; injection H; intros; contradiction].
  destruct (Ascii.eqb_spec c2 "U") as [E2|N2]; [|right; intros k H; injection H; intros; contradiction].
  destruct (Ascii.eqb_spec c3 "P") as [E3|N3]; [|right; intros k H; injection H; intros; contradiction].
  destruct (Ascii.eqb_spec c4 "_") as [E4|N4]; [|right; intros k H; injection H; intros; contradiction].
  subst. left. now exists r.
Qed.

Lemma set_enc n e vs : set_var (enc_name n) e (enc_vars vs) = enc_vars (set_var n e vs).
Proof.
  induction vs as [|[k e0] r IH]; [reflexivity|]. cbn [enc_vars map set_var fst snd].
  rewrite enc_name_eqb. destruct (String.eqb n k); [reflexivity|]. cbn [map fst snd]. f_equal. exact IH.
Qed.

Lemma has_var_enc s n : has_var (enc s) (enc_name n) = has_var s n.
Proof. unfold has_var, enc. cbn [vars with_vars]. now rewrite lookup_enc. Qed.

Lemma enc_with_vars s vs : enc (with_vars s vs) = with_vars (enc s) (enc_vars vs).
Proof. reflexivity. Qed.

Lemma enc_setv s n e : enc (setv s n e) = setv (enc s) (enc_name n) e.
Proof. unfold setv, enc. cbn [vars with_vars]. now rewrite set_enc. Qed.

Definition rmapE {A B} (h : A -> B) (r : result A) : result B := match r with Ok a => Ok (h a) | Err e => Err e end.

Lemma run_op1_enc s o : is_basic o = true -> run_op1 (enc s) (enc_op o) = rmapE enc (run_op1 s o).
Proof.
  intros B. destruct o as [n e|n e|n t|n e|n e|pf|n]; try discriminate B; cbn [enc_op run_op1 rmapE].
  - now rewrite enc_setv.
  - rewrite has_var_enc. destruct (has_var s n); cbn [rmapE]; [now rewrite enc_setv|reflexivity].
  - unfold add_term_to_eq. unfold enc at 1. cbn [vars with_vars]. rewrite lookup_enc.
    destruct (lookup_var n (vars s)) as [e|]; cbn [opt_key rmapE]; [|reflexivity].
    f_equal. unfold enc. cbn [vars with_vars]. now rewrite set_enc.
  - unfold enc at 1. cbn [vars with_vars]. rewrite lookup_enc.
    destruct (lookup_var n (vars s)) as [e0|]; [destruct (renders_empty e0)|]; try rewrite enc_setv; reflexivity.
  - rewrite has_var_enc. destruct (has_var s n); [reflexivity|now rewrite enc_setv].
  - rewrite has_var_enc. destruct (has_var s n); reflexivity.
Qed.

Lemma run_ops_enc ops : forall s, forallb is_basic ops = true -> run_ops (map enc_op ops) (enc s) = rmapE enc (run_ops ops s).
Proof.
  induction ops as [|o r IH]; intros s B; [reflexivity|].
  cbn [forallb] in B. apply andb_true_iff in B as [B1 B2]. cbn [map]. rewrite !run_ops_cons, (run_op1_enc s o B1).
  destruct (run_op1 s o) as [s1|]; cbn [rmapE bind]; [now apply IH|reflexivity].
Qed.

(* ------------------------------------------------------------------ *)
(** * Equivalences through the encoding *)

Lemma attrs_nosid_enc s s' : same_attrs_nosid (enc s) (enc s') <-> same_attrs_nosid s s'.
Proof. reflexivity. Qed.

Lemma sec_eqv_enc s s' : sec_eqv (enc s) (enc s') <-> sec_eqv s s'.
Proof.
  split; intros [A L]; (split; [exact A|]); intros n.
  - specialize (L (enc_name n)). unfold enc in L. cbn [vars with_vars] in L. now rewrite !lookup_enc in L.
  - unfold enc. cbn [vars with_vars]. destruct (enc_dec n) as [(k & ->)|H].
    + rewrite !lookup_enc. apply L.
    + rewrite !lookup_enc_other by exact H. exact Logic.I.
Qed.

Lemma srel_enc f t d : srel f (enc t) (enc d) <-> srel f t d.
Proof. unfold srel. rewrite sec_eqv_enc. reflexivity. Qed.

Lemma pop_eqv_enc a b : pop_eqv (enc_op a) (enc_op b) <-> pop_eqv a b.
Proof.
  destruct a, b; cbn [enc_op pop_eqv]; try tauto; split; intros H;
    try (destruct H as [E H]; split; [|exact H]); try (apply enc_name_inj; assumption); try (f_equal; assumption);
    try (now apply enc_name_inj); try (now f_equal).
Qed.

Lemma ops_eqv_enc l l' : Forall2 pop_eqv l l' -> Forall2 pop_eqv (map enc_op l) (map enc_op l').
Proof. intros H. induction H; cbn [map]; constructor; [now apply pop_eqv_enc|assumption]. Qed.

Lemma enc_op_basic o : is_basic (enc_op o) = is_basic o.
Proof. destruct o; reflexivity. Qed.

Lemma ops_eqv_basic l l' : Forall2 pop_eqv l l' -> forallb is_basic l' = forallb is_basic l.
Proof. intros H. induction H as [|a b l l' E _ IH]; [reflexivity|]. cbn [forallb]. now rewrite IH, (pop_eqv_basic _ _ E). Qed.

(* ------------------------------------------------------------------ *)
(** * The generalised invariant and side condition *)

Definition isx (s : sector) : bool := String.eqb (country s) "EXT".

Definition Wf2 (s : sector) : Prop := if isx s then I_wf (enc s) else I_wf s.

Definition Ok2 (s : sector) (o : pop) : Prop := if isx s then is_basic o = true /\ op_ok (enc_op o) else op_ok o.

Lemma isx_nosid s s' : same_attrs_nosid s s' -> isx s' = isx s.
Proof. intros (_ & C & _). unfold isx. now rewrite C. Qed.

Lemma isx_attrs s s' : attrs_eq s s' -> isx s' = isx s.
Proof. intros A. apply isx_nosid. now apply attrs_eq_nosid. Qed.

Lemma Ok2_attr s s' o : same_attrs_nosid s s' -> Ok2 s o -> Ok2 s' o.
Proof. intros A. unfold Ok2. now rewrite (isx_nosid _ _ A). Qed.

Lemma Wf2_eqv t d : sec_eqv t d -> Wf2 t -> Wf2 d.
Proof.
  intros E. unfold Wf2. rewrite (isx_nosid _ _ (proj1 E)). destruct (isx t).
  - apply I_wf_eqv. now apply sec_eqv_enc.
  - now apply I_wf_eqv.
Qed.

Lemma Ok2_basic s ops : isx s = true -> Forall (Ok2 s) ops -> forallb is_basic ops = true /\ Forall op_ok (map enc_op ops).
Proof.
  intros X F. unfold Ok2 in F. rewrite X in F. induction F as [|o r [B O] _ [IH1 IH2]]; [split; [reflexivity|constructor]|].
  cbn [forallb map]. rewrite B, IH1. split; [reflexivity|now constructor].
Qed.

Lemma run_ops_cong2 f t d ops ops' : srel f t d -> Wf2 t -> Forall (Ok2 t) ops -> Forall2 pop_eqv ops ops' ->
  sres_rel f (run_ops ops t) (run_ops ops' d).
Proof.
  intros R W O E. destruct (isx t) eqn:X.
  - destruct (Ok2_basic t ops X O) as [B OE]. unfold Wf2 in W. rewrite X in W.
    pose proof (run_ops_cong f (enc t) (enc d) (map enc_op ops) (map enc_op ops') (proj2 (srel_enc f t d) R) W OE (ops_eqv_enc _ _ E)) as H.
    rewrite (run_ops_enc ops t B) in H. rewrite (run_ops_enc ops' d) in H by (now rewrite (ops_eqv_basic _ _ E)).
    destruct (run_ops ops t) as [t1|], (run_ops ops' d) as [d1|]; cbn [rmapE sres_rel] in *; try contradiction; try exact Logic.I.
    now apply srel_enc.
  - unfold Wf2 in W. rewrite X in W. unfold Ok2 in O. rewrite X in O. now apply run_ops_cong.
Qed.

Lemma run_ops_Wf2 ops s s' : Wf2 s -> Forall (Ok2 s) ops -> run_ops ops s = Ok s' -> Wf2 s'.
Proof.
  intros W O R. unfold Wf2. rewrite (isx_attrs _ _ (run_ops_attrs _ _ _ R)). destruct (isx s) eqn:X.
  - destruct (Ok2_basic s ops X O) as [B OE]. unfold Wf2 in W. rewrite X in W.
    pose proof (run_ops_enc ops s B) as H. rewrite R in H. cbn [rmapE] in H. eapply run_ops_Iwf; eassumption.
  - unfold Wf2 in W. rewrite X in W. unfold Ok2 in O. rewrite X in O. eapply run_ops_Iwf; eassumption.
Qed.

(* ------------------------------------------------------------------ *)
(** * Commutation: GenOrder's check, or twice the same basic operation *)

Definition pop_same (a b : pop) : bool :=
  match a, b with
  | PEnsure n e, PEnsure n' e' => String.eqb n n' && eqn_eqb e e'
  | PRequire n, PRequire n' => String.eqb n n'
  | _, _ => false
  end.

Lemma pop_same_eq a b : pop_same a b = true -> a = b /\ is_basic a = true.
Proof.
  destruct a, b; cbn [pop_same]; try discriminate; intros H.
  - apply andb_true_iff in H as [H1 H2]. apply String.eqb_eq in H1. apply eqn_eqb_eq in H2. subst. split; reflexivity.
  - apply String.eqb_eq in H. subst. split; reflexivity.
Qed.

Definition pop_commute2 (s : sector) (a b : pop) : bool := pop_commute s a b || pop_same a b.

Definition ops_commute2 (s : sector) (A B : list pop) : bool :=
  forallb (fun a => forallb (pop_commute2 s a) B) A.

Section Blocks2.
Variable s0 : sector.
Variable recv : bool.
Let x := excl s0.

Definition comm_g (a b : pop) : Prop := comm_f s0 recv a b \/ (a = b /\ is_basic a = true).

Lemma comm_sound_g σ a b σ1 σ2 : Inv_f s0 recv σ -> ok_f recv a -> ok_f recv b -> comm_g a b ->
  sem_op x a σ = Ok σ1 -> sem_op x b σ1 = Ok σ2 ->
  exists τ1 τ2, sem_op x b σ = Ok τ1 /\ sem_op x a τ1 = Ok τ2 /\ store_eqv σ2 τ2.
Proof.
  intros I Oa Ob [C|[-> _]] Sa Sb.
  - eapply comm_sound_f; eassumption.
  - exists σ1, σ2. split; [exact Sa|]. split; [exact Sb|apply store_eqv_refl].
Qed.

Definition blocks_swap_g := swap_lists (sem_op x) (Inv_f s0 recv) (ok_f recv) comm_g (Inv_f_step s0 recv) (run_cong_f s0 recv) comm_sound_g.

Variable K : Type.
Variable blk : K -> list pop.
Variable R : K -> K -> Prop.
Variable P : K -> Prop.
Hypothesis blk_ok : forall k, P k -> Forall (ok_f recv) (blk k).
Hypothesis blk_comm : forall a b, R a b -> Forall (fun o => Forall (comm_g o) (blk b)) (blk a).

Theorem cswap_run_g l l' : cswap R l l' -> Forall P l -> forall σ σ2, Inv_f s0 recv σ ->
  sem_ops x (flat_map blk l) σ = Ok σ2 -> exists τ2, sem_ops x (flat_map blk l') σ = Ok τ2 /\ store_eqv σ2 τ2.
Proof.
  intros H. induction H as [l|X a b Y l' HR HC IH]; intros FP σ σ2 I S.
  - exists σ2. split; [exact S|apply store_eqv_refl].
  - apply Forall_app in FP as [FX FP]. inversion FP as [|? ? Pa FP1]; subst. inversion FP1 as [|? ? Pb FY]; subst.
    rewrite flat_map_app in S. cbn [flat_map] in S. rewrite sem_ops_app in S.
    destruct (sem_ops x (flat_map blk X) σ) as [σX|] eqn:SX; [|discriminate]. cbn [bind] in S.
    rewrite app_assoc, sem_ops_app in S.
    destruct (sem_ops x (blk a ++ blk b) σX) as [σab|] eqn:Sab; [|discriminate]. cbn [bind] in S.
    pose proof (block_inv s0 recv _ _ _ I (flat_ok recv K blk P blk_ok X FX) SX) as IX.
    destruct (blocks_swap_g (blk a) (blk b) σX σab IX (blk_ok a Pa) (blk_ok b Pb) (blk_comm a b HR) Sab) as (σba & Sba & E1).
    assert (Sba' : sem_ops x (blk b ++ blk a) σX = Ok σba) by exact Sba.
    assert (Iab : Inv_f s0 recv σab).
    { eapply block_inv; [exact IX| |exact Sab]. apply Forall_app. split; now apply blk_ok. }
    destruct (block_cong s0 recv _ _ _ _ Iab E1 (flat_ok recv K blk P blk_ok Y FY) S) as (τ & T & E2).
    assert (T' : sem_ops x (flat_map blk Y) σba = Ok τ) by exact T.
    assert (S' : sem_ops x (flat_map blk (X ++ b :: a :: Y)) σ = Ok τ).
    { rewrite flat_map_app. cbn [flat_map]. rewrite sem_ops_app, SX. cbn [bind].
      rewrite app_assoc, sem_ops_app, Sba'. cbn [bind]. exact T'. }
    assert (FP' : Forall P (X ++ b :: a :: Y)).
    { apply Forall_app. split; [exact FX|]. constructor; [exact Pb|]. constructor; [exact Pa|exact FY]. }
    destruct (IH FP' _ _ I S') as (τ2 & T2 & E3). exists τ2. split; [exact T2|].
    eapply store_eqv_trans; eassumption.
Qed.
End Blocks2.
