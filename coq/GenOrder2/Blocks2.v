(** Re-ordering blocks of pairwise commuting operations on one sector ([blocks_perm2]): GenOrder's
    [cswap_run] through Enc.v, for ordinary sectors and (via the encoding) for the sectors of EXT. *)
From Coq Require Import List String Ascii Bool ZArith Arith Lia Permutation.
From SFC.Base Require Import Res Str.
From SFC.Gen Require Import Fx Zone.
From SFC.GenMarket Require Import Market MarketProofs.
From SFC.GenMain2 Require Import Program Classes Main Conflict Balance.
From SFC.GenOrder Require Import Ops Plan ReformDefs Static Equiv OpsProofs OpsComm Static2 GenBase.
From SFC.GenOrder2 Require Import Enc.
Import ListNotations.
Local Open Scope string_scope.
Local Open Scope list_scope.

Lemma pop_commute_enc s a b : is_basic a = true -> is_basic b = true ->
  pop_commute (enc s) (enc_op a) (enc_op b) = pop_commute s a b.
Proof.
  intros Ba Bb. destruct a as [n e|n e|n t|n e|n e|pf|n], b as [n' e'|n' e'|n' t'|n' e'|n' e'|pf'|n']; try discriminate Ba; try discriminate Bb;
    cbn [enc_op pop_commute pop_name]; rewrite ?enc_name_eqb, ?has_var_enc; reflexivity.
Qed.

Lemma pop_same_enc a b : pop_same (enc_op a) (enc_op b) = pop_same a b.
Proof. destruct a, b; cbn [enc_op pop_same]; rewrite ?enc_name_eqb; reflexivity. Qed.

Lemma pop_commute2_enc s a b : is_basic a = true -> is_basic b = true ->
  pop_commute2 (enc s) (enc_op a) (enc_op b) = pop_commute2 s a b.
Proof. intros Ba Bb. unfold pop_commute2. now rewrite pop_commute_enc, pop_same_enc. Qed.

Lemma flat_map_map {A B C} (g : B -> C) (h : A -> list B) l : map g (flat_map h l) = flat_map (fun x => map g (h x)) l.
Proof. induction l as [|x l IH]; [reflexivity|]. cbn [flat_map]. now rewrite map_app, IH. Qed.

Lemma forallb_flat_map {A B} (p : B -> bool) (h : A -> list B) l : forallb p (flat_map h l) = forallb (fun x => forallb p (h x)) l.
Proof. induction l as [|x l IH]; [reflexivity|]. cbn [flat_map forallb]. now rewrite forallb_app, IH. Qed.

(** the store-level exchange for a sector whose side conditions are those of GenOrder *)
Section Plain.
Variable s0 : sector.
Variable K : Type.
Variable blk : K -> list pop.
Variable R : K -> K -> Prop.
Variable P : K -> Prop.
Variable recv : bool.
Hypothesis HW : I_wf s0.
Hypothesis HQ : recv = true -> Q_div (look s0).
Hypothesis Hok : forall k, P k -> Forall op_ok (blk k).
Hypothesis Hneu : forall k, P k -> recv = true -> Forall (fun o => div_neutral o = true) (blk k).
Hypothesis Hcomm : forall a b, R a b -> ops_commute2 s0 (blk a) (blk b) = true.
Hypothesis Hrecv : forall a b o, R a b -> List.In o (blk a) -> is_basic o = false -> recv = true.

Lemma blocks_perm_plain M M' t : cswap R M M' -> Forall P M -> run_ops (flat_map blk M) s0 = Ok t ->
  exists t', run_ops (flat_map blk M') s0 = Ok t' /\ srel (fun i => i) t t'.
Proof.
  intros HC HP E.
  destruct (run_ops_store _ _ _ E) as (σ1 & S1 & R1 & A1).
  assert (IV : Inv_f s0 recv (look s0)).
  { split; [split; [exact HW|intros n Hn; exact Hn]|exact HQ]. }
  assert (OKb : forall k, P k -> Forall (ok_f recv) (blk k)).
  { intros k Pk. pose proof (Hok k Pk) as O. apply Forall_forall. intros o Ho. split; [eapply Forall_forall in O; eassumption|].
    intros Hr. pose proof (Hneu k Pk Hr) as N. eapply Forall_forall in N; eassumption. }
  assert (CM : forall a b, R a b -> Forall (fun o => Forall (comm_g s0 recv o) (blk b)) (blk a)).
  { intros a b X. pose proof (Hcomm a b X) as C. unfold ops_commute2 in C. rewrite forallb_forall in C.
    apply Forall_forall. intros o Ho. specialize (C o Ho). rewrite forallb_forall in C.
    apply Forall_forall. intros o' Ho'. specialize (C o' Ho'). unfold pop_commute2 in C. apply orb_true_iff in C as [C|C].
    - left. split; [exact C|]. intros Hb _. exact (Hrecv a b o X Ho Hb).
    - right. apply pop_same_eq in C. exact C. }
  destruct (cswap_run_g s0 recv K blk R P OKb CM M M' HC HP _ _ IV S1) as (τ2 & T2 & Eq).
  destruct (store_run_ops _ _ _ T2) as (t'' & RT & RR & AT).
  exists t''. split; [exact RT|]. split.
  - rewrite (proj1 AT). symmetry. exact (proj1 A1).
  - eapply realises_eqv; try eassumption.
    eapply same_attrs_nosid_trans; [apply same_attrs_nosid_sym, attrs_eq_nosid; exact A1|apply attrs_eq_nosid; exact AT].
Qed.
End Plain.

Theorem blocks_perm2 (s0 : sector) (K : Type) (blk : K -> list pop) (R : K -> K -> Prop) (P : K -> Prop) (recv : bool) :
  Wf2 s0 ->
  (recv = true -> isx s0 = false /\ Q_div (look s0)) ->
  (forall k, P k -> Forall (Ok2 s0) (blk k)) ->
  (forall k, P k -> recv = true -> Forall (fun o => div_neutral o = true) (blk k)) ->
  (forall a b, R a b -> P a /\ P b /\ ops_commute2 s0 (blk a) (blk b) = true) ->
  (forall a b o, R a b -> List.In o (blk a) -> is_basic o = false -> recv = true) ->
  forall M M' t, cswap R M M' -> Forall P M -> run_ops (flat_map blk M) s0 = Ok t ->
  exists t', run_ops (flat_map blk M') s0 = Ok t' /\ srel (fun i => i) t t'.
Proof.
  intros HW HQ Hok Hneu Hcomm Hrecv M M' t HC HP E. destruct (isx s0) eqn:X.
  - (* a sector of EXT: through the encoding; all its operations are basic *)
    unfold Wf2 in HW. rewrite X in HW.
    assert (NR : recv = false). { destruct recv; [|reflexivity]. destruct (HQ eq_refl) as [Y _]. congruence. }
    assert (BK : forall k, P k -> forallb is_basic (blk k) = true /\ Forall op_ok (map enc_op (blk k))).
    { intros k Pk. apply (Ok2_basic s0); [exact X|now apply Hok]. }
    assert (PM' : Forall P M').
    { clear -HC HP Hcomm. induction HC as [l|Xl a b Y l' HR _ IH]; [exact HP|]. apply IH.
      apply Forall_app in HP as [F1 F2]. inversion F2 as [|? ? Pa F3]; subst. inversion F3 as [|? ? Pb F4]; subst.
      apply Forall_app. split; [exact F1|]. repeat constructor; assumption. }
    assert (BF : forall L, Forall P L -> forallb is_basic (flat_map blk L) = true).
    { intros L FL. rewrite forallb_flat_map. apply forallb_forall. intros k Hk. rewrite Forall_forall in FL. exact (proj1 (BK k (FL k Hk))). }
    pose proof (run_ops_enc (flat_map blk M) s0 (BF M HP)) as EE. rewrite E in EE. cbn [rmapE] in EE. rewrite flat_map_map in EE.
    destruct (blocks_perm_plain (enc s0) K (fun k => map enc_op (blk k)) R P false HW (fun H => match Bool.diff_false_true H with end)) with (M := M) (M' := M') (t := enc t)
      as (u & EU & RU); try assumption.
    + intros k Pk. exact (proj2 (BK k Pk)).
    + intros k _ H. discriminate H.
    + intros a b Rab. destruct (Hcomm a b Rab) as (Pa & Pb & C). unfold ops_commute2 in *. rewrite forallb_forall in C.
      apply forallb_forall. intros o Ho. apply in_map_iff in Ho as (o0 & <- & Ho0). specialize (C o0 Ho0). rewrite forallb_forall in C.
      apply forallb_forall. intros o' Ho'. apply in_map_iff in Ho' as (o1 & <- & Ho1).
      destruct (BK a Pa) as [Ba _]. destruct (BK b Pb) as [Bb _]. rewrite forallb_forall in Ba, Bb.
      rewrite pop_commute2_enc; [now apply C|now apply Ba|now apply Bb].
    + intros a b o Rab Ho Hb. exfalso. apply in_map_iff in Ho as (o0 & <- & Ho0). rewrite enc_op_basic in Hb.
      destruct (Hcomm a b Rab) as (Pa & _ & _). destruct (BK a Pa) as [Ba _]. rewrite forallb_forall in Ba. rewrite (Ba o0 Ho0) in Hb. discriminate.
    + rewrite <- flat_map_map in EU. rewrite (run_ops_enc (flat_map blk M') s0 (BF M' PM')) in EU.
      destruct (run_ops (flat_map blk M') s0) as [t'|]; [|discriminate]. cbn [rmapE] in EU. injection EU as <-.
      exists t'. split; [reflexivity|]. now apply srel_enc.
  - unfold Wf2 in HW. rewrite X in HW.
    eapply (blocks_perm_plain s0 K blk R P recv HW); try eassumption.
    + intros Hr. exact (proj2 (HQ Hr)).
    + intros k Pk. pose proof (Hok k Pk) as O. unfold Ok2 in O. now rewrite X in O.
    + intros a b Rab. exact (proj2 (proj2 (Hcomm a b Rab))).
Qed.
